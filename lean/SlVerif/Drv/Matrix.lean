import SlVerif.Drv.Common
namespace SlVerif.Drv.Matrix
open SlVerif SlVerif.Drv

/-- `mat det <n> <n*n scalars>` → `ok:<scalar>|err|panic`;  `mat inv <n> <entries>` → `ok:<n*n scalars>|err|panic`;
    `mat mulid <n> <A entries> <B entries>` → `1` iff B*A = I (the conclusion predicate of C20 on the implementation's output) -/
def handle : List String → Option String
  | ["det", n, es] => do
      let n ← n.toNat?
      let es ← parseList? parseFq? es
      let A ← toMat? n es
      some (outcomeStr fqHex (Mat.determinant n A))
  | ["lap", n, es] => do
      let n ← n.toNat?
      let es ← parseList? parseFq? es
      let A ← toMat? n es
      some (fqHex (Mat.laplace n A))
  | ["inv", n, es] => do
      let n ← n.toNat?
      let es ← parseList? parseFq? es
      let A ← toMat? n es
      some (outcomeStr matStr (Mat.inverse n A))
  | ["mulid", n, as, bs] => do
      let n ← n.toNat?
      let A ← toMat? n (← parseList? parseFq? as)
      let B ← toMat? n (← parseList? parseFq? bs)
      let ok := (List.finRange n).all fun i => (List.finRange n).all fun j =>
        let s := FieldOps.sum ((List.finRange n).map fun k => FieldOps.mul (Mat.get B i k) (Mat.get A k j))
        s == (if i = j then FieldOps.one else FieldOps.zero)
      some (if ok then "1" else "0")
  | _ => none

end SlVerif.Drv.Matrix
