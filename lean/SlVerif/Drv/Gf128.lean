import SlVerif.Model.Basic
import SlVerif.Model.Gf128
import SlVerif.Model.Gf128Bytes
namespace SlVerif.Drv.Gf
open SlVerif

/-- `gf mul <a:16 bytes hex LE> <b>`  →  `<model> <spec> <bytes-model>` (16-byte LE hex each):
    integer-level `Gf.mul`, bit-serial `Gf.specMul`, literal byte-array `Gf.mulBytes`. -/
def handle : List String → Option String
  | ["mul", a, b] => do
      let a ← hexToBytes? a
      let b ← hexToBytes? b
      if a.length ≠ 16 ∨ b.length ≠ 16 then none else
      let x := leToNat a
      let y := leToNat b
      some (bytesToHex (natToLe 16 (Gf.mul x y)) ++ " " ++ bytesToHex (natToLe 16 (Gf.specMul x y))
        ++ " " ++ bytesToHex (Gf.mulBytes a b))
  | _ => none

end SlVerif.Drv.Gf
