import SlVerif.Drv.Common
import SlVerif.Model.Math
namespace SlVerif.Drv.Math
open SlVerif SlVerif.Drv SlVerif.Math

/-- `hex:decimal` pair (evaluation point, derivative order) -/
def parsePair? (s : String) : Option (Fq × Nat) :=
  match s.splitOn ":" with
  | [x, r] => do
      let x ← parseFq? x
      let r ← r.toNat?
      some (x, r)
  | _ => none

/-- formal derivative of a coefficient list: `[c0,c1,c2,…] ↦ [1·c1, 2·c2, …]` -/
def specDiff (l : List Fq) : List Fq :=
  (l.drop 1).zipIdx.map fun (c, i) => FieldOps.mul (FieldOps.ofNat (i + 1)) c

/-- Horner evaluation -/
def specHorner (l : List Fq) (x : Fq) : Fq :=
  l.foldr (fun c acc => FieldOps.add c (FieldOps.mul x acc)) FieldOps.zero

/-- independent reference for `f^(r)(x)`: differentiate the coefficient list r times, then Horner -/
def specDiffN : Nat → List Fq → List Fq
  | 0, l => l
  | r+1, l => specDiffN r (specDiff l)

def specDerivAt (l : List Fq) (r : Nat) (x : Fq) : Fq :=
  specHorner (specDiffN r l) x

def fqEq (a b : Fq) : Bool := a.val % secpQ == b.val % secpQ

/-- `Σ_i b_i · f^(r_i)(x_i) = f(0)` with the independent derivative; lengths of `b` and `params` must agree -/
def birkCheck (params : List (Fq × Nat)) (b : List Fq) (f : List Fq) : Bool :=
  b.length == params.length &&
  fqEq (FieldOps.sum ((b.zip params).map fun (bi, (x, r)) => FieldOps.mul bi (specDerivAt f r x)))
       (specHorner f FieldOps.zero)

/--
  `math factrange s e`            → scalar | `panic` (s > e: `debug_assert!`)
  `math deriv <coeffs> n x`       → scalar
  `math eval <coeffs> x`          → scalar
  `math gderiv <gcoeffs> n`       → list | `panic` (n > len: slice index)
  `math geval <gcoeffs> x`        → scalar (dlog)
  `math commit gen <coeffs>`      → list
  `math feldman <gcoeffs> x f g`  → `1`/`0`
  `math mult x n_i n`             → list
  `math birkhoff <x:r,…>`         → `ok:<list>` | `panic`
  `math birkcheck <x:r,…> <b> <f>`→ `1`/`0`   (conclusion predicate of C13 on the implementation's output)
  `math specderiv <coeffs> n x`   → scalar     (the independent reference itself)
  Group elements are their discrete logs w.r.t. the generator.
-/
def handle : List String → Option String
  | ["factrange", s, e] => do
      let s ← s.toNat?
      let e ← e.toNat?
      if s > e then some "panic" else some (fqHex (factorialRange s e))
  | ["deriv", cs, n, x] => do
      let cs ← parseList? parseFq? cs
      let n ← n.toNat?
      let x ← parseFq? x
      some (fqHex (derivativeAt cs n x))
  | ["eval", cs, x] => do
      let cs ← parseList? parseFq? cs
      let x ← parseFq? x
      some (fqHex (evaluateAt cs x))
  | ["gderiv", gs, n] => do
      let gs ← parseList? parseFq? gs
      let n ← n.toNat?
      match derivativeCoeffs (F := Fq) gs n with
      | .ok l => some (joinList (l.map fqHex))
      | _ => some "panic"
  | ["geval", gs, x] => do
      let gs ← parseList? parseFq? gs
      let x ← parseFq? x
      some (fqHex (gEvaluateAt gs x))
  | ["commit", g, cs] => do
      let g ← parseFq? g
      let cs ← parseList? parseFq? cs
      some (joinList ((commit g cs).map fqHex))
  | ["feldman", gs, x, f, g] => do
      let gs ← parseList? parseFq? gs
      let x ← parseFq? x
      let f ← parseFq? f
      let g ← parseFq? g
      some (if feldmanVerify gs x f g then "1" else "0")
  | ["mult", x, ni, n] => do
      let x ← parseFq? x
      let ni ← ni.toNat?
      let n ← n.toNat?
      some (joinList ((coeffMultipliers x ni n).map fqHex))
  | ["birkhoff", ps] => do
      let ps ← parseList? parsePair? ps
      some (outcomeStr (fun l => joinList (l.map fqHex)) (birkhoffCoeffs ps))
  | ["birkcheck", ps, b, f] => do
      let ps ← parseList? parsePair? ps
      let b ← parseList? parseFq? b
      let f ← parseList? parseFq? f
      some (if birkCheck ps b f then "1" else "0")
  | ["specderiv", cs, n, x] => do
      let cs ← parseList? parseFq? cs
      let n ← n.toNat?
      let x ← parseFq? x
      some (fqHex (specDerivAt cs n x))
  | _ => none

end SlVerif.Drv.Math
