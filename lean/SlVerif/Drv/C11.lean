import SlVerif.Model.PaillierWire
namespace SlVerif.Drv.C11
open SlVerif SlVerif.PaillierWire

/-- text travels as the hex of its bytes (it may contain any character) -/
def chars? (s : String) : Option (List Char) := (hexToBytes? s).map fun b => b.map Char.ofNat

/-- `c11 pk <n>` | `c11 sk <p> <q>`                      numbers, big-endian hex → `ok` | `err` | `panic`
    `c11 pkbin <bytes>` | `skbin <bytes>` | `ctbin <bytes>`   the bincode form
    `c11 pkhex <text>` | `skhex <text> <text>` | `cthex <text>`   the hex string(s) of the JSON form (text as hex of its bytes)
    `c11 frompq <p> <q>` | `c11 pkraw <n>`                 the code behind the guards (`SK::from_pq`, `MinimalPK → PK`)
    `c11 pod <size> <len>` | `c11 msgid <len>`             `bytemuck::try_from_bytes`, `<&MsgId>::try_from` -/
def handle : List String → Option String
  | ["pk", n] => do some (pkAdmit (← parseHexNat? n)).cls
  | ["sk", p, q] => do some (skAdmit (← parseHexNat? p) (← parseHexNat? q)).cls
  | ["pkbin", b] => do some (pkAdmitBin (← hexToBytes? b)).cls
  | ["skbin", b] => do some (skAdmitBin (← hexToBytes? b)).cls
  | ["ctbin", b] => do some (ctAdmitBin (← hexToBytes? b)).cls
  | ["pkhex", s] => do some (pkAdmitHex (← chars? s)).cls
  | ["skhex", sp, sq] => do some (skAdmitHex (← chars? sp) (← chars? sq)).cls
  | ["cthex", s] => do some (ctAdmitHex (← chars? s)).cls
  | ["frompq", p, q] => do some (fromPq (← parseHexNat? p) (← parseHexNat? q)).cls
  | ["pkraw", n] => do some (pkFromMinimal (← parseHexNat? n)).cls
  | ["pod", size, len] => do some (podAdmit (← size.toNat?) (← len.toNat?)).cls
  | ["msgid", len] => do some (msgIdAdmit (← len.toNat?)).cls
  | _ => none

end SlVerif.Drv.C11
