import SlVerif.Model.Rvole
namespace SlVerif.Drv.Rvole
open SlVerif SlVerif.Rvole SlVerif.Generated

/-! The oracle is a function (the harness answers with deterministic library calls), so its answers may be memoised.
    The gadget vector (512 challenges on one growing transcript, ~5 MB of query text) is asked for by receiver-new,
    sender-process and receiver-process of the same session: its queries are recognised structurally and their answers
    kept for the most recent session id.  During a request the answers live in a request-local reference; between requests
    they are parked in one global reference (a global reference makes everything stored in it shared, which is slow for
    anything that is updated often). -/
initialize gadgetGlobal : IO.Ref (Option (Bytes × Array Bytes)) ← IO.mkRef none

/-- `ops` = the operations `[u64 "index" i, chal "next value" 32, u64 "index" (i+1), …]` of `gadgetLoop`, `n` pairs -/
def isGadgetTail (lIdx lVal : Bytes) : Nat → Nat → List TOp → Bool
  | 0, _, ops => ops.isEmpty
  | n+1, i, TOp.u64 l v :: TOp.chal l' k :: rest =>
      l == lIdx && v == i && l' == lVal && k == KAPPA_BYTES && isGadgetTail lIdx lVal n (i+1) rest
  | _, _, _ => false

/-- `some (sid, k)` iff `t` is exactly the transcript of the k-th challenge (k ≥ 1) of `gadgetVec O sid` -/
def gadgetQuery? (t : Transcript) : Option (Bytes × Nat) :=
  if t.init ≠ labelBytes RANDOM_VOLE_GADGET_VECTOR_LABEL then none else
  match t.ops with
  | TOp.msg l sid :: rest =>
      let k := rest.length / 2
      if l == ascii "session-id" && rest.length == 2 * k && k ≥ 1 && isGadgetTail (ascii "index") (ascii "next value") k 0 rest
      then some (sid, k) else none
  | _ => none

def memoO (loc : IO.Ref (Option (Bytes × Array Bytes))) (O : Query → IO Bytes) (q : Query) : IO Bytes := do
  if let .merlin t := q then
    if let some (sid, k) := gadgetQuery? t then
      let st ← loc.swap none
      let (sid', arr) := match st with
        | some (s, a) => if s == sid then (s, a) else (sid, #[])
        | none => (sid, #[])
      if h : k - 1 < arr.size then
        loc.set (some (sid', arr)); return arr[k - 1]
      else
        let a ← O q
        -- answers are stored in order; a query that skips ahead is answered but not stored
        loc.set (some (sid', if k - 1 = arr.size then arr.push a else arr))
        return a
  O q

/-! wire helpers -/

def parseFixed? (n : Nat) (s : String) : Option Bytes := do
  let bs ← hexToBytes? s
  if bs.length ≠ n then none else some bs

/-- `[[[u8; LAMBDA_C_BYTES]; Q]; LAMBDA_C/K]` -/
def parseKeys? (s : String) : Option (List (List Bytes)) := do
  let bs ← parseFixed? (LAMBDA_C_DIV_SOFT_SPOKEN_K * SOFT_SPOKEN_Q * LAMBDA_C_BYTES) s
  some ((chunks (SOFT_SPOKEN_Q * LAMBDA_C_BYTES) LAMBDA_C_DIV_SOFT_SPOKEN_K bs).map (chunks LAMBDA_C_BYTES SOFT_SPOKEN_Q))

def parseR1? (s : String) : Option SoftSpoken.Round1Output := do
  let bs ← parseFixed? SoftSpoken.R1_BYTES s
  some (SoftSpoken.Round1Output.parse bs)

/-- `[[[u8; KAPPA_BYTES]; OT_WIDTH]; L]` -/
def parseTable? (s : String) : Option (List (List Bytes)) := do
  let bs ← parseFixed? (XI * OT_WIDTH * KAPPA_BYTES) s
  some (parseTable bs)

def parseMsg2? (s : String) : Option Msg2 := (parseFixed? MSG2_BYTES s).map Msg2.parse
def parseMsg2Ot? (s : String) : Option Msg2Ot := (parseFixed? MSG2OT_BYTES s).map Msg2Ot.parse
def parseMsg1? (s : String) : Option Msg1 := (parseFixed? (2 * OT_MSG_BYTES) s).map Msg1.parse

def tableHex (v : List (List Bytes)) : String := bytesToHex (v.flatMap fun ks => ks.flatMap id)

/-- scalar on the wire: 64 hex digits, big-endian -/
def scHex (x : Nat) : String := bytesToHex (toBe x)
def scList (l : List Nat) : String := String.intercalate "," (l.map scHex)
def parseScalars? (s : String) : Option (List Nat) := (s.splitOn ",").mapM parseHexNat?
def parseNatList? (s : String) : Option (List Nat) := if s = "-" then some [] else (s.splitOn ",").mapM parseHexNat?

/-- one deviation set: `j:a0:a1:g,…` (j hex, a_i hex scalars, g = 0|1); `-` = none -/
def parseDevs? (s : String) : Option (List Dev) :=
  if s = "-" then some [] else
    (s.splitOn ",").mapM fun it =>
      match it.splitOn ":" with
      | [j, a0, a1, g] => do
          let j ← parseHexNat? j
          let a0 ← parseHexNat? a0
          let a1 ← parseHexNat? a1
          if g = "1" then some { j, a' := [a0, a1], guess := true }
          else if g = "0" then some { j, a' := [a0, a1], guess := false } else none
      | _ => none

/-- bit positions: comma-separated items `p` or `a-b` (a ≤ p < b), hex numbers -/
def parsePositions? (s : String) : Option (List Nat) := do
  let items ← (s.splitOn ",").mapM fun it =>
    match it.splitOn "-" with
    | [p] => do let p ← parseHexNat? p; some [p]
    | [a, b] => do let a ← parseHexNat? a; let b ← parseHexNat? b; some (List.range' a (b - a))
    | _ => none
  some (items.flatMap id)

def errTag (e : String) : String := e.replace " " "_"

def resStr : Except String (List Nat) → String
  | .ok d => s!"ok:{scList d}"
  | .error e => s!"err:{errTag e}"

def A_BITS : Nat := 8 * (XI * L_BATCH_PLUS_RHO * KAPPA_BYTES)
def E_BITS : Nat := 8 * (RHO * KAPPA_BYTES)

/-- `receiverCore` on the message with bit `p` flipped, for every listed `p`: the theta challenges are shared by all
    flips outside `a_tilde`, the digest of mu' by all flips inside `mu_hash`, the gadget vector by all accepted ones.
    Entry: `0` (rejected) or `1/<d_0>/<d_1>`. -/
def flipsCore (O : Query → IO Bytes) (sid beta : Bytes) (vx : List (List Bytes)) (msg : Msg2) (ps : List Nat) :
    IO (List String) := do
  let VX := decodeTable vx
  let AT0 := decodeTable msg.aTilde
  let theta0 ← thetaAll O sid msg.aTilde
  let h0 ← muHashOf O sid (muReceiver theta0 beta VX AT0 (msg.eta.map ofBe))
  let gref ← IO.mkRef (none : Option (List Nat))
  ps.mapM fun p => do
    let m' := tamperBitFast msg p
    let h ← if p < A_BITS then receiverMu O sid beta VX m'
            else if p < A_BITS + E_BITS then muHashOf O sid (muReceiver theta0 beta VX AT0 (m'.eta.map ofBe))
            else pure h0
    if checkOk m' h = false then pure "0" else do
      let g ← match ← gref.get with
        | some g => pure g
        | none => do let g ← gadgetVec O sid; gref.set (some g); pure g
      pure s!"1/{String.intercalate "/" ((receiverD g beta VX (decodeTable m'.aTilde)).map scHex)}"

/-- the receiver's OT layer of the base-OT variant for the last (state, base-OT messages) seen, keyed by the request text -/
initialize vxMemo : IO.Ref (Option (String × Option (List (List Bytes)))) ← IO.mkRef none

def vxCached (O : Query → IO Bytes) (key : String) (st : OtRecvState) (otA otB : List (Bytes × Bytes)) :
    IO (Option (List (List Bytes))) := do
  match ← vxMemo.get with
  | some (k, v) => if k == key then return v
  | none => pure ()
  let v ← receiverVxOt O st otA otB
  vxMemo.set (some (key, v))
  pure v

def otState (sid beta : Bytes) (tAa tAb : List Nat) : OtRecvState :=
  { sid, beta, stA := { choiceBits := beta.take LAMBDA_C_BYTES, tA := tAa },
    stB := { choiceBits := beta.drop LAMBDA_C_BYTES, tA := tAb } }

/-- extension variant (rvole.rs)
    `rvole gadget <sid>`                                    → the 512 gadget scalars
    `rvole recvnew <sid> <encKeys> <tape>`                  → `<round1>:<b>:<beta>:<v_x>:<tape used>`
    `rvole send <sid> <rc> <decKeys> <a0,a1> <round1> <tape>` → `ok:<c0,c1>:<RVOLEOutput>:<tape used>` | `ban`
    `rvole recvproc <sid> <beta> <v_x> <RVOLEOutput>`       → `ok:<d0,d1>` | `err:<reason>`
    `rvole adv <sid> <rc> <decKeys> <a0,a1> <round1> <tape> <devs>[;<devs>…]` → `<RVOLEOutput>[,…]` | `ban`
    `rvole flips <sid> <beta> <v_x> <RVOLEOutput> <positions>` → per position `0` | `1/<d0>/<d1>`
    `rvole tamper flip <msg> <pos>` | `set <msg> <off> <bytes>` | `swap <msg> <o1> <o2> <len>` |
                 `splice <msg> <other> <off> <len>`         → `<RVOLEOutput>`
    base-OT variant (rvole_ot_variant.rs)
    `rvole otrecvnew <sid> <tape>`                          → `<RVOLEMsg1>:<b>:<beta>:<t_a of a>:<t_a of b>:<tape used>`
    `rvole otsend <sid> <a0,a1> <RVOLEMsg1> <tape>`         → `ok:<c0,c1>:<RVOLEMsg2>:<used>` | `err:<reason>:<buffer>:<used>`
    `rvole otrecvproc <sid> <beta> <t_a a> <t_a b> <RVOLEMsg2>` → `ok:<d0,d1>` | `err:<reason>`
    `rvole otadv <sid> <a0,a1> <RVOLEMsg1> <tape> <devs>[;…]` → `<RVOLEMsg2>[,…]` | `err`
    `rvole otflips <sid> <beta> <t_a a> <t_a b> <RVOLEMsg2> <positions>` → per position `0` | `e` (decode error) | `1/<d0>/<d1>`
    `rvole pipeline <sid> <receiver tape> <sender tape>`    → `ok:<otp_enc_keys>:<random_choices>:<otp_dec_keys>` | `err` -/
def handleM (O : Query → IO Bytes) : List String → IO (Option String)
  | ["gadget", sid] => do
      match hexToBytes? sid with
      | some sid => pure (some (scList (← gadgetVec O sid)))
      | none => pure none
  | ["recvnew", sid, keys, tape] => do
      match hexToBytes? sid, parseKeys? keys, hexToBytes? tape with
      | some sid, some keys, some tape =>
          let (st, r1, b, rest) ← receiverNew O sid keys tape
          pure (some s!"{bytesToHex r1.serialize}:{scHex b}:{bytesToHex st.beta}:{tableHex st.vx}:{tape.length - rest.length}")
      | _, _, _ => pure none
  | ["send", sid, rc, keys, a, r1, tape] => do
      match hexToBytes? sid, parseFixed? LAMBDA_C_DIV_SOFT_SPOKEN_K rc, parseKeys? keys, parseScalars? a, parseR1? r1,
            hexToBytes? tape with
      | some sid, some rc, some keys, some a, some r1, some tape =>
          match ← senderProcess O sid rc keys a r1 tape with
          | .ok (c, msg, rest) => pure (some s!"ok:{scList c}:{bytesToHex msg.serialize}:{tape.length - rest.length}")
          | .error _ => pure (some "ban")
      | _, _, _, _, _, _ => pure none
  | ["recvproc", sid, beta, vx, msg] => do
      match hexToBytes? sid, parseFixed? L_BYTES beta, parseTable? vx, parseMsg2? msg with
      | some sid, some beta, some vx, some msg => pure (some (resStr (← receiverProcess O { sid, beta, vx } msg)))
      | _, _, _, _ => pure none
  | ["adv", sid, rc, keys, a, r1, tape, devs] => do
      match hexToBytes? sid, parseFixed? LAMBDA_C_DIV_SOFT_SPOKEN_K rc, parseKeys? keys, parseScalars? a, parseR1? r1,
            hexToBytes? tape, (devs.splitOn ";").mapM parseDevs? with
      | some sid, some rc, some keys, some a, some r1, some tape, some [ds] =>
          match ← advSender O sid rc keys a r1 tape ds with
          | some (_, msg, _) => pure (some (bytesToHex msg.serialize))
          | none => pure (some "ban")
      | some sid, some rc, some keys, some a, some r1, some tape, some sets =>
          -- several deviation sets against the same honest inputs: OT layer and gadget vector are shared
          match ← SoftSpoken.senderProcess O sid rc keys r1 with
          | .error _ => pure (some "ban")
          | .ok so =>
              let g ← gadgetVec O sid
              let ms ← sets.mapM fun ds => advCore O sid g so.v_0 so.v_1 a tape ds
              pure (some (String.intercalate "," (ms.map fun (_, msg, _) => bytesToHex msg.serialize)))
      | _, _, _, _, _, _, _ => pure none
  | ["flips", sid, beta, vx, msg, items] => do
      match hexToBytes? sid, parseFixed? L_BYTES beta, parseTable? vx, parseMsg2? msg, parsePositions? items with
      | some sid, some beta, some vx, some msg, some ps =>
          pure (some (String.intercalate "," (← flipsCore O sid beta vx msg ps)))
      | _, _, _, _, _ => pure none
  | ["tamper", "flip", msg, pos] =>
      match parseMsg2? msg, parseHexNat? pos with
      | some msg, some pos => pure (some (bytesToHex (tamperBit msg pos).serialize))
      | _, _ => pure none
  | ["tamper", "set", msg, off, data] =>
      match parseMsg2? msg, parseHexNat? off, hexToBytes? data with
      | some msg, some off, some data => pure (some (bytesToHex (tamperSet msg off data).serialize))
      | _, _, _ => pure none
  | ["tamper", "swap", msg, o1, o2, len] =>
      match parseMsg2? msg, parseHexNat? o1, parseHexNat? o2, parseHexNat? len with
      | some msg, some o1, some o2, some len => pure (some (bytesToHex (tamperSwap msg o1 o2 len).serialize))
      | _, _, _, _ => pure none
  | ["tamper", "splice", msg, other, off, len] =>
      match parseMsg2? msg, parseMsg2? other, parseHexNat? off, parseHexNat? len with
      | some msg, some other, some off, some len => pure (some (bytesToHex (tamperSplice msg other off len).serialize))
      | _, _, _, _ => pure none
  | ["otrecvnew", sid, tape] => do
      match hexToBytes? sid, hexToBytes? tape with
      | some sid, some tape =>
          let (st, m1, b, rest) ← receiverNewOt O sid tape
          pure (some s!"{bytesToHex m1.serialize}:{scHex b}:{bytesToHex st.beta}:{String.intercalate "," (st.stA.tA.map natHex)}:{String.intercalate "," (st.stB.tA.map natHex)}:{tape.length - rest.length}")
      | _, _ => pure none
  | ["otsend", sid, a, m1, tape] => do
      match hexToBytes? sid, parseScalars? a, parseMsg1? m1, hexToBytes? tape with
      | some sid, some a, some m1, some tape =>
          let r ← senderProcessOt O sid a m1 tape
          let used := tape.length - r.tape.length
          match r.err with
          | none => pure (some s!"ok:{scList r.c}:{bytesToHex r.msg.serialize}:{used}")
          | some e => pure (some s!"err:{errTag e}:{bytesToHex r.msg.serialize}:{used}")
      | _, _, _, _ => pure none
  | ["otrecvproc", sidS, betaS, tAaS, tAbS, msg] => do
      match hexToBytes? sidS, parseFixed? L_BYTES betaS, parseNatList? tAaS, parseNatList? tAbS, parseMsg2Ot? msg with
      | some sid, some beta, some tAa, some tAb, some m2 =>
          -- `receiverProcessOt` with its OT layer (a function of the state and of the two base-OT messages) cached
          let st := otState sid beta tAa tAb
          let key := String.intercalate " " [sidS, betaS, tAaS, tAbS, (msg.take (4 * OT_MSG_BYTES)).toString]
          match ← vxCached O key st m2.otA m2.otB with
          | none => pure (some (resStr (.error decodeError)))
          | some vx => pure (some (resStr (← receiverCore O sid beta vx m2.core)))
      | _, _, _, _, _ => pure none
  | ["otadv", sid, a, m1, tape, devs] => do
      match hexToBytes? sid, parseScalars? a, parseMsg1? m1, hexToBytes? tape, (devs.splitOn ";").mapM parseDevs? with
      | some sid, some a, some m1, some tape, some [ds] =>
          match ← advSenderOt O sid a m1 tape ds with
          | some (_, msg, _) => pure (some (bytesToHex msg.serialize))
          | none => pure (some "err")
      | some sid, some a, some m1, some tape, some sets =>
          -- several deviation sets: the two honest base OTs, the OT expansion and the gadget vector are shared
          let (sidA, sidB) ← otSids O sid
          let (ra, tape) ← Endemic.sendProcess O sidA m1.a tape
          let (rb, tape) ← Endemic.sendProcess O sidB m1.b tape
          if ra.err || rb.err then pure (some "err") else
          let (v0, v1) ← senderVOt O sid (ra.keys ++ rb.keys)
          let g ← gadgetVec O sid
          let ms ← sets.mapM fun ds => advCore O sid g v0 v1 a tape ds
          pure (some (String.intercalate "," (ms.map fun (_, core, _) =>
            bytesToHex ({ otA := ra.msg2, otB := rb.msg2, core : Msg2Ot }).serialize)))
      | _, _, _, _, _ => pure none
  | ["otflips", sidS, betaS, tAaS, tAbS, msgS, items] => do
      match hexToBytes? sidS, parseFixed? L_BYTES betaS, parseNatList? tAaS, parseNatList? tAbS, parseMsg2Ot? msgS,
            parsePositions? items with
      | some sid, some beta, some tAa, some tAb, some msg, some ps =>
          let st := otState sid beta tAa tAb
          let otBits := 8 * 2 * OT_MSG_BYTES
          let one (r : Except String (List Nat)) : String :=
            match r with
            | .ok d => s!"1/{String.intercalate "/" (d.map scHex)}"
            | .error e => if e = decodeError then "e" else "0"
          -- flips inside the two base-OT messages re-run the whole receiver; the others share the OT layer
          let inOt ← (ps.filter (· < otBits)).mapM fun p => do
            pure (p, one (← receiverProcessOt O st (tamperBitOt msg p)))
          let rest := ps.filter (· ≥ otBits)
          let tail ← if rest.isEmpty then pure [] else do
            let key := String.intercalate " " [sidS, betaS, tAaS, tAbS, (msgS.take (4 * OT_MSG_BYTES)).toString]
            match ← vxCached O key st msg.otA msg.otB with
            | none => pure (rest.map fun _ => "e")
            | some vx => flipsCore O sid beta vx msg.core (rest.map (· - otBits))
          let tailAssoc := rest.zip tail
          pure (some (String.intercalate "," (ps.map fun p =>
            match (inOt ++ tailAssoc).find? (·.1 == p) with
            | some (_, s) => s
            | none => "?")))
      | _, _, _, _, _, _ => pure none
  | ["pipeline", sid, tr, ts] => do
      match hexToBytes? sid, hexToBytes? tr, hexToBytes? ts with
      | some sid, some tr, some ts =>
          match ← pipelineSeeds O sid tr ts with
          | some (enc, rc, dec) =>
              pure (some s!"ok:{bytesToHex (enc.flatMap fun r => r.flatMap id)}:{bytesToHex rc}:{bytesToHex (dec.flatMap fun r => r.flatMap id)}")
          | none => pure (some "err")
      | _, _, _ => pure none
  | _ => pure none

def handle (O : Query → IO Bytes) (toks : List String) : IO (Option String) := do
  let loc ← IO.mkRef (← gadgetGlobal.get)
  let r ← handleM (memoO loc O) toks
  gadgetGlobal.set (← loc.get)
  pure r

end SlVerif.Drv.Rvole
