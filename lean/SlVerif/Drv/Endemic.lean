import SlVerif.Model.Endemic
namespace SlVerif.Drv.Endemic
open SlVerif SlVerif.Endemic

def parseNatList? (s : String) : Option (List Nat) :=
  if s = "-" then some [] else (s.splitOn ",").mapM parseHexNat?

/-- `eot recvnew <sid> <tape>` → `<msg1 hex>:<choice bits hex>:<t_a scalars, comma separated hex>:<tape bytes used>`
    `eot send <sid> <msg1 hex> <tape>` → `ok:<msg2 hex>:<256×(rho_0 ‖ rho_1) hex>:<tape used>` | `err:<msg2 hex>:<tape used>`
    `eot recvproc <choice bits hex> <t_a list> <msg2 hex>` → `ok:<256 keys hex>` | `err`
    `eot h <ro> <idx> <sid> <pk33>` → `h_function` value; `eot h2 <idx> <pk33>` → `h_function_2` value -/
def handle (O : Query → IO Bytes) : List String → IO (Option String)
  | ["recvnew", sid, tape] => do
      match hexToBytes? sid, hexToBytes? tape with
      | some sid, some tape =>
          let (st, msg1, rest) ← recvNew O sid tape
          pure (some s!"{bytesToHexW (msgBytes msg1)}:{bytesToHexW st.choiceBits}:{String.intercalate "," (st.tA.map natHex)}:{tape.length - rest.length}")
      | _, _ => pure none
  | ["send", sid, msg1, tape] => do
      match hexToBytes? sid, hexToBytes? msg1, hexToBytes? tape with
      | some sid, some msg1, some tape =>
          let (r, rest) ← sendProcess O sid (msgOfBytes msg1) tape
          let used := tape.length - rest.length
          if r.err then pure (some s!"err:{bytesToHexW (msgBytes r.msg2)}:{used}")
          else pure (some s!"ok:{bytesToHexW (msgBytes r.msg2)}:{bytesToHexW (keysBytes r.keys)}:{used}")
      | _, _, _ => pure none
  | ["recvproc", bits, tA, msg2] => do
      match hexToBytes? bits, parseNatList? tA, hexToBytes? msg2 with
      | some bits, some tA, some msg2 =>
          match ← recvProcess O { choiceBits := bits, tA } (msgOfBytes msg2) with
          | some keys => pure (some s!"ok:{bytesToHexW keys.flatten}")
          | none => pure (some "err")
      | _, _, _ => pure none
  | ["h", ro, idx, sid, pk] => do
      match ro.toNat?, idx.toNat?, hexToBytes? sid, hexToBytes? pk with
      | some ro, some idx, some sid, some pk => pure (some (bytesToHexW (← hFunction O ro idx sid pk)))
      | _, _, _, _ => pure none
  | ["h2", idx, pk] => do
      match idx.toNat?, hexToBytes? pk with
      | some idx, some pk => pure (some (bytesToHexW (← hFunction2 O idx pk)))
      | _, _ => pure none
  | _ => pure none

end SlVerif.Drv.Endemic
