import SlVerif.Model.Buffered
import SlVerif.Drv.Relay
namespace SlVerif.Drv.Buffered
open SlVerif SlVerif.Buffered

def parseEv? (s : String) : Option Ev :=
  if s = "p" then some .pending else if s = "c" then some .closed
  else match s.splitOn ":" with
    | ["m", h] => (hexToBytes? h).map Ev.msg
    | _ => none

def parseCall? (s : String) : Option Call :=
  match s.splitOn ":" with
  | ["n"] => some .next
  | ["r", id, ttl, polls] => do pure (.recv (← hexToBytes? id) (← ttl.toNat?) (← polls.toNat?))
  | ["w", ids, polls] => do
      let ids ← if ids = "-" then some [] else (ids.splitOn "+").mapM hexToBytes?
      pure (.waitFor ids (← polls.toNat?))
  | _ => none

def outStr : Outcome → String
  | .got m => "g:" ++ bytesToHexW m
  | .none_ => "none"
  | .cancelled => "cancel"

def listOrDash (l : List String) (sep : String) : String := if l.isEmpty then "-" else String.intercalate sep l

/-- `buf run <ev,ev,…|-> <call,call,…>` → `<outcomes , sep>;<final buffer + sep>;<script events left>;<asks id:ttl + sep>` -/
def handle : List String → Option String
  | ["run", evs, calls] => do
      let evs ← if evs = "-" then some [] else (evs.splitOn ",").mapM parseEv?
      let calls ← (calls.splitOn ",").mapM parseCall?
      let (s, outs) := runCalls { script := evs } calls
      some (String.intercalate ";" [listOrDash (outs.map outStr) ",", listOrDash (s.buf.map bytesToHexW) "+",
        toString s.script.length, listOrDash (s.asks.map fun (i, t) => s!"{bytesToHexW i}:{t}") "+"])
  | _ => none

end SlVerif.Drv.Buffered
