import SlVerif.Model.Buffered
import SlVerif.Drv.Relay
/-
  Line protocol of the C17 model (token `buf`).

    buf run <events> <calls>                      the underlying sink is always ready and never fails
    buf run <events> <calls> <sink> <sends>       with scripted sink-side results

    <events>  `-` or comma-separated results of the underlying `Stream::poll_next`:
                `m:<hex|->` Ready(Some(frame))   `p` Pending   `c` Ready(None);   exhausted = Pending for ever
    <calls>   comma-separated:
                `r:<id hex>:<ttl>:<polls>`   recv(id, ttl) polled at most <polls> times, then dropped
                `w:<id hex>+<id hex>…|-:<polls>`  wait_for(|id| id ∈ set) polled at most <polls> times, then dropped
                `n`                          one Stream::poll_next of the wrapper
    <sink>    `-` or comma-separated results of the underlying `Sink::poll_ready` / `Sink::poll_flush` calls, one entry
              per call in call order:  `k` Ready(Ok)   `p` Pending   `e` Ready(Err);   exhausted = Ready(Ok) for ever
    <sends>   `-` or comma-separated results of the underlying `Sink::start_send` calls:  `k` Ok   `e` Err;
              exhausted = Ok for ever

  Result (4-token form):
    <outcomes , sep>;<final buffer + sep>;<script events left>;<accepted asks id:ttl + sep>
  Result (6-token form): the same followed by
    ;<sink entries left>;<sends entries left>
  outcomes: `g:<hex>` Some(frame), `none` None, `cancel` still pending when dropped.
-/
namespace SlVerif.Drv.Buffered
open SlVerif SlVerif.Buffered

def parseEv? (s : String) : Option Ev :=
  if s = "p" then some .pending else if s = "c" then some .closed
  else match s.splitOn ":" with
    | ["m", h] => (hexToBytes? h).map Ev.msg
    | _ => none

def parseSinkEv? (s : String) : Option SinkEv :=
  if s = "k" then some .ok else if s = "p" then some .pending else if s = "e" then some .err else none

def parseSend? (s : String) : Option Bool :=
  if s = "k" then some true else if s = "e" then some false else none

def parseCall? (s : String) : Option Call :=
  match s.splitOn ":" with
  | ["n"] => some .next
  | ["r", id, ttl, polls] => do pure (.recv (← hexToBytes? id) (← ttl.toNat?) (← polls.toNat?))
  | ["w", ids, polls] => do
      let ids ← if ids = "-" then some [] else (ids.splitOn "+").mapM hexToBytes?
      pure (.waitFor ids (← polls.toNat?))
  | _ => none

def outStr : Outcome → String
  | .got m => "g:" ++ bytesToHexW m
  | .none_ => "none"
  | .cancelled => "cancel"

def listOrDash (l : List String) (sep : String) : String := if l.isEmpty then "-" else String.intercalate sep l

def parseList? {α : Type} (f : String → Option α) (s : String) : Option (List α) :=
  if s = "-" then some [] else (s.splitOn ",").mapM f

def resultStr (s : State) (outs : List Outcome) : List String :=
  [listOrDash (outs.map outStr) ",", listOrDash (s.buf.map bytesToHexW) "+",
   toString s.script.length, listOrDash (s.asks.map fun (i, t) => s!"{bytesToHexW i}:{t}") "+"]

def handle : List String → Option String
  | ["run", evs, calls] => do
      let evs ← parseList? parseEv? evs
      let calls ← (calls.splitOn ",").mapM parseCall?
      let (s, outs) := runCalls { script := evs } calls
      some (String.intercalate ";" (resultStr s outs))
  | ["run", evs, calls, sink, sends] => do
      let evs ← parseList? parseEv? evs
      let calls ← (calls.splitOn ",").mapM parseCall?
      let sink ← parseList? parseSinkEv? sink
      let sends ← parseList? parseSend? sends
      let (s, outs) := runCalls { script := evs, sink := sink, sends := sends } calls
      some (String.intercalate ";" (resultStr s outs ++ [toString s.sink.length, toString s.sends.length]))
  | _ => none

end SlVerif.Drv.Buffered
