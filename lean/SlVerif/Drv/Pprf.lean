import SlVerif.Model.Pprf
namespace SlVerif.Drv.Pprf
open SlVerif SlVerif.Pprf

/-- `n` consecutive chunks of `sz` bytes -/
def chunks (b : Bytes) (sz n : Nat) : List Bytes := (List.range n).map fun i => (b.drop (sz*i)).take sz

def keyPairs (b : Bytes) (n : Nat) : List (Bytes × Bytes) := (chunks b (2*KB) n).map fun c => (c.take KB, c.drop KB)

/-- bit i of a small number (choice bits of one tree on the wire: bit i = level i) -/
def nib (g : Nat) : Nat → Nat := fun i => (g / 2^i) % 2

def evalStr (r : Except String (List (Nat × List Bytes))) : String :=
  match r with
  | .ok rs => s!"ok:{bytesToHexW (rs.map (·.1))}:{bytesToHexW (rs.flatMap fun x => x.2.flatten)}"
  | .error _ => "err"

/-- `pprf build <sid> <256×(rho_0‖rho_1) hex> [<initial PPRFOutput hex>]` → `<SenderOTSeed hex>:<PPRFOutput hex>`
    `pprf eval <sid> <choice bits hex> <256 keys hex> <PPRFOutput hex>` → `ok:<random_choices hex>:<otp_dec_keys hex>` | `err`
    `pprf buildtree <sid> <K×(rho_0‖rho_1) hex>` → `<leaves hex>:<PPRF hex>`
    `pprf evaltree <sid> <bits as number> <K keys hex> <PPRF hex>` → `ok:<y_star>:<s_star hex>` | `err`
    `pprf advtree <sid> <K key pairs hex> <level> <side> <delta hex> <guess as number>` → `<PPRF hex>`
    `pprf adv <sid> <256 key pairs hex> <j> <level> <side> <delta hex> <guess>` → `<PPRFOutput hex>`
    `pprf advaccepts <level> <side> <guess> <bits>` → `1|0`;  `pprf ystar <bits>` → decimal
    `pprf tamper <PPRFOutput hex> <bit index>` → `<PPRFOutput hex>` -/
def handle (O : Query → IO Bytes) : List String → IO (Option String)
  | "build" :: sid :: keys :: rest => do
      let init := match rest with
        | [i] => (hexToBytes? i).map fun b => (outOfBytes b).map (·.tTilda)
        | [] => some []
        | _ => none
      match hexToBytes? sid, hexToBytes? keys, init with
      | some sid, some keys, some init =>
          let (seed, out) ← buildPprf O sid (keyPairs keys Generated.LAMBDA_C) init
          pure (some s!"{bytesToHexW (seed.flatMap List.flatten)}:{bytesToHexW (outBytes out)}")
      | _, _, _ => pure none
  | ["eval", sid, bits, dks, out] => do
      match hexToBytes? sid, hexToBytes? bits, hexToBytes? dks, hexToBytes? out with
      | some sid, some bits, some dks, some out =>
          pure (some (evalStr (← evalPprf O sid bits (chunks dks KB Generated.LAMBDA_C) (outOfBytes out))))
      | _, _, _, _ => pure none
  | ["buildtree", sid, keys] => do
      match hexToBytes? sid, hexToBytes? keys with
      | some sid, some keys =>
          let kp := keyPairs keys K
          let (leaves, msg) ← buildTree O sid (fun i => kp.getD i ([], []))
          pure (some s!"{bytesToHexW leaves.flatten}:{bytesToHexW msg.toBytes}")
      | _, _ => pure none
  | ["evaltree", sid, bits, dks, msg] => do
      match hexToBytes? sid, bits.toNat?, hexToBytes? dks, hexToBytes? msg with
      | some sid, some bits, some dks, some msg =>
          let dk := chunks dks KB K
          match ← evalTree O sid (nib bits) (fun i => dk.getD i []) (TreeMsg.ofBytes msg) with
          | some (y, s) => pure (some s!"ok:{y}:{bytesToHexW s.flatten}")
          | none => pure (some "err")
      | _, _, _, _ => pure none
  | ["advtree", sid, keys, level, side, delta, guess] => do
      match hexToBytes? sid, hexToBytes? keys, level.toNat?, side.toNat?, hexToBytes? delta, guess.toNat? with
      | some sid, some keys, some level, some side, some delta, some guess =>
          let kp := keyPairs keys K
          let msg ← advTree O sid (fun i => kp.getD i ([], [])) level side delta (nib guess)
          pure (some (bytesToHexW msg.toBytes))
      | _, _, _, _, _, _ => pure none
  | ["adv", sid, keys, j, level, side, delta, guess] => do
      match hexToBytes? sid, hexToBytes? keys, j.toNat?, level.toNat?, side.toNat?, hexToBytes? delta, guess.toNat? with
      | some sid, some keys, some j, some level, some side, some delta, some guess =>
          let out ← advPprfSender O sid (keyPairs keys Generated.LAMBDA_C) j level side delta (nib guess)
          pure (some (bytesToHexW (outBytes out)))
      | _, _, _, _, _, _, _ => pure none
  | ["advaccepts", level, side, guess, bits] =>
      match level.toNat?, side.toNat?, guess.toNat?, bits.toNat? with
      | some level, some side, some guess, some bits => pure (some (if advAccepts level side (nib guess) (nib bits) then "1" else "0"))
      | _, _, _, _ => pure none
  | ["ystar", bits] =>
      match bits.toNat? with
      | some bits => pure (some (toString (ystarOf (nib bits))))
      | none => pure none
  | ["tamper", out, k] =>
      match hexToBytes? out, k.toNat? with
      | some out, some k => pure (some (bytesToHexW (outBytes (tamperBit (outOfBytes out) k))))
      | _, _ => pure none
  | _ => pure none

end SlVerif.Drv.Pprf
