import SlVerif.Model.Dlog
namespace SlVerif.Drv.Dlog
open SlVerif SlVerif.Dlog

/-- `dlog prove <x> <base33> <sid> <party> <action> <label> <tape>` → `<t33>:<s>:<y33>:<tape bytes used>`
    `dlog verify <t33> <s> <y33> <base33> <sid> <party> <action> <label>` → `1|0`
    `dlog chal <y> <t> <base> <sid> <party> <action> <label>` → challenge scalar (hex) -/
def handle (O : Query → IO Bytes) : List String → IO (Option String)
  | ["prove", x, base, sid, party, action, label, tape] => do
      match parseHexNat? x, hexToBytes? base, hexToBytes? sid, party.toNat?, hexToBytes? action, hexToBytes? label, hexToBytes? tape with
      | some x, some base, some sid, some party, some action, some label, some tape =>
          let (p, y, rest) ← prove O x base (newDlogProof sid party action label) tape
          pure (some s!"{bytesToHexW p.t}:{natHex p.s}:{bytesToHexW y}:{tape.length - rest.length}")
      | _, _, _, _, _, _, _ => pure none
  | ["verify", t, s, y, base, sid, party, action, label] => do
      match hexToBytes? t, parseHexNat? s, hexToBytes? y, hexToBytes? base, hexToBytes? sid, party.toNat?, hexToBytes? action, hexToBytes? label with
      | some t, some s, some y, some base, some sid, some party, some action, some label =>
          let ok ← verify O { t, s } y base (newDlogProof sid party action label)
          pure (some (if ok then "1" else "0"))
      | _, _, _, _, _, _, _, _ => pure none
  | ["chal", y, t, base, sid, party, action, label] => do
      match hexToBytes? y, hexToBytes? t, hexToBytes? base, hexToBytes? sid, party.toNat?, hexToBytes? action, hexToBytes? label with
      | some y, some t, some base, some sid, some party, some action, some label =>
          let (c, _) ← fiatShamir O y t base (newDlogProof sid party action label)
          pure (some (natHex c))
      | _, _, _, _, _, _, _ => pure none
  | _ => pure none

end SlVerif.Drv.Dlog
