import SlVerif.Model.Dlog
namespace SlVerif.Drv.Dlog
open SlVerif SlVerif.Dlog

/-- `dlog prove <x> <base33> <sid> <party> <action> <label> <tape>` → `<t33>:<s>:<y33>:<tape bytes used>`
    `dlog verify <t33> <s> <y33> <base33> <sid> <party> <action> <label>` → `1|0`
    `dlog chal <y> <t> <base> <sid> <party> <action> <label>` → challenge scalar (hex) -/
def handle (O : Query → IO Bytes) : List String → IO (Option String)
  | ["prove", x, base, sid, party, action, label, tape] => do
      match parseHexNat? x, hexToBytes? base, hexToBytes? sid, party.toNat?, hexToBytes? action, hexToBytes? label, hexToBytes? tape with
      | some x, some base, some sid, some party, some action, some label, some tape =>
          let (p, y, rest) ← prove O x base (newDlogProof sid party action label) tape
          pure (some s!"{bytesToHexW p.t}:{natHex p.s}:{bytesToHexW y}:{tape.length - rest.length}")
      | _, _, _, _, _, _, _ => pure none
  | ["verify", t, s, y, base, sid, party, action, label] => do
      match hexToBytes? t, parseHexNat? s, hexToBytes? y, hexToBytes? base, hexToBytes? sid, party.toNat?, hexToBytes? action, hexToBytes? label with
      | some t, some s, some y, some base, some sid, some party, some action, some label =>
          let ok ← verify O { t, s } y base (newDlogProof sid party action label)
          pure (some (if ok then "1" else "0"))
      | _, _, _, _, _, _, _, _ => pure none
  -- `dlog prove2 <x1> <base1> <x2> <base2> <sid> <party> <action> <label> <tape>` : two proofs in a row on ONE transcript
  --   → `<t1>:<s1>:<y1>:<t2>:<s2>:<y2>:<tape used>`
  | ["prove2", x1, b1, x2, b2, sid, party, action, label, tape] => do
      match parseHexNat? x1, hexToBytes? b1, parseHexNat? x2, hexToBytes? b2, hexToBytes? sid, party.toNat?, hexToBytes? action, hexToBytes? label, hexToBytes? tape with
      | some x1, some b1, some x2, some b2, some sid, some party, some action, some label, some tape =>
          let (p1, y1, rest, tr) ← proveAdv O x1 b1 (newDlogProof sid party action label) tape
          let (p2, y2, rest, _) ← proveAdv O x2 b2 tr rest
          pure (some s!"{bytesToHexW p1.t}:{natHex p1.s}:{bytesToHexW y1}:{bytesToHexW p2.t}:{natHex p2.s}:{bytesToHexW y2}:{tape.length - rest.length}")
      | _, _, _, _, _, _, _, _, _ => pure none
  -- `dlog verify2 <t1> <s1> <y1> <base1> <t2> <s2> <y2> <base2> <sid> <party> <action> <label>` → `<ok1><ok2>` on one transcript
  | ["verify2", t1, s1, y1, b1, t2, s2, y2, b2, sid, party, action, label] => do
      match hexToBytes? t1, parseHexNat? s1, hexToBytes? y1, hexToBytes? b1, hexToBytes? t2, parseHexNat? s2, hexToBytes? y2, hexToBytes? b2 with
      | some t1, some s1, some y1, some b1, some t2, some s2, some y2, some b2 =>
          match hexToBytes? sid, party.toNat?, hexToBytes? action, hexToBytes? label with
          | some sid, some party, some action, some label =>
              let (ok1, tr) ← verifyAdv O { t := t1, s := s1 } y1 b1 (newDlogProof sid party action label)
              let (ok2, _) ← verifyAdv O { t := t2, s := s2 } y2 b2 tr
              pure (some s!"{if ok1 then "1" else "0"}{if ok2 then "1" else "0"}")
          | _, _, _, _ => pure none
      | _, _, _, _, _, _, _, _ => pure none
  | ["chal", y, t, base, sid, party, action, label] => do
      match hexToBytes? y, hexToBytes? t, hexToBytes? base, hexToBytes? sid, party.toNat?, hexToBytes? action, hexToBytes? label with
      | some y, some t, some base, some sid, some party, some action, some label =>
          let (c, _) ← fiatShamir O y t base (newDlogProof sid party action label)
          pure (some (natHex c))
      | _, _, _, _, _, _, _ => pure none
  | _ => pure none

end SlVerif.Drv.Dlog
