import SlVerif.Model.VerEnc
namespace SlVerif.Drv.VerEnc
open SlVerif SlVerif.VerEnc

def curve? : String → Option CurveParams
  | "k" => some secp
  | "e" => some ed
  | _ => none

def resStr {α} (f : α → String) : Res α → String
  | .ok v => "ok" ++ f v
  | .err e => "err:" ++ e.name
  | .panic _ => "panic"

def natList? (s : String) : Option (List Nat) :=
  if s = "-" then some [] else (s.splitOn ",").mapM String.toNat?

def garbage? : String → Option Garbage
  | "raw" => some .raw
  | "wrongvalue" => some .wrongValue
  | "nonscalar" => some .nonScalar
  | _ => none

/-- `plain` | `garbage:<kind>:<slots>:<fuel>` | `garbagenog:<kind>:<slots>` | `wrongcommit:<slots>` | `wrongside:<slots>`
    | `shortr[:<k>]` | `shortxr[:<k>]` (k leading zero bytes of the repr, default 1, 32 = zero) | `adaptive:g_r`
    | `swap:all` | `swap:one:<slots>` | `cross:<i>:<j>` | `commit-other-side:<slots>` | `open-plus-order:<slots>`   (`adaptive:enc_x_r|enc_r|label|Q` are answered `skip:<why no such attack exists>`) -/
def strategy? (s : String) : Option Strategy :=
  match s.splitOn ":" with
  | ["plain"] => some .plain
  | ["garbage", k, l, f] => do pure (.garbage (← garbage? k) (← natList? l) (← f.toNat?))
  | ["garbagenog", k, l] => do pure (.garbageNoGrind (← garbage? k) (← natList? l))
  | ["wrongcommit", l] => do pure (.wrongCommit (← natList? l))
  | ["wrongside", l] => do pure (.wrongSide (← natList? l))
  | ["shortr"] => some (.shortR 1)
  | ["shortxr"] => some (.shortXR 1)
  | ["shortr", k] => do pure (.shortR (← k.toNat?))
  | ["shortxr", k] => do pure (.shortXR (← k.toNat?))
  | ["adaptive", "g_r"] => some .adaptiveGR
  | ["swap", "all"] => some (.swapEnc (List.range 65536))
  | ["swap", "one", l] => do pure (.swapEnc (← natList? l))
  | ["cross", i, j] => do pure (.cross (← i.toNat?) (← j.toNat?))
  | ["commit-other-side", l] => do pure (.commitOtherSide (← natList? l))
  | ["open-plus-order", l] => do pure (.openPlusOrder (← natList? l))
  | _ => none

/-- `venc prove <curve k|e> <x> <keyid> <n> <label> <param|none> <tape>` → `ok:<proof bytes>:<tape used>` | `err:<name>` | `panic`
    `venc verify <curve> <proof bytes> <Q> <keyid> <n> <label>` → `ok` | `err:<name>` | `panic`   (parse errors: `err:SerdeError:<msg>`)
    `venc decrypt <curve> <proof bytes> <Q> <keyid> <n> <label>` → `ok:<x, 64 hex digits>` | `err:<name>` | `panic`
    `venc parse <curve> <bytes>` → `ok:<re-serialised bytes>` | `err:SerdeError:<msg>` | `panic`
    `venc adv <curve> <x> <keyid> <n> <label> <nslots> <strategy> <tape>` → `ok:<forged proof bytes>:<grinding attempts>`
    `venc bit <challenge bytes> <idx>` → `0|1|panic`;  `venc modinv <a> <n>` → `<inv>|none`;  `venc bemin <v>` → bytes -/
def handle (O : Query → IO Bytes) : List String → IO (Option String)
  | ["prove", c, x, key, n, label, param, tape] => do
      let param? : Option (Option Nat) := if param = "none" then some none else param.toNat?.map some
      match curve? c, parseHexNat? x, hexToBytes? key, parseHexNat? n, hexToBytes? label, param?, hexToBytes? tape with
      | some cp, some x, some key, some n, some label, some param, some tape =>
          match ← encryptWithProof O cp (x % cp.order) key n label param tape with
          | .ok (p, rest) =>
              pure (some (resStr (fun b => s!":{bytesToHexW b}:{tape.length - rest.length}") (toBytes cp p)))
          | .err e => pure (some ("err:" ++ e.name))
          | .panic _ => pure (some "panic")
      | _, _, _, _, _, _, _ => pure none
  | ["verify", c, proof, q, key, n, label] => do
      match curve? c, hexToBytes? proof, hexToBytes? q, hexToBytes? key, parseHexNat? n, hexToBytes? label with
      | some cp, some proof, some q, some key, some n, some label =>
          match fromBytes cp proof with
          | .ok p => pure (some (resStr (fun _ => "") (← verify O cp p q key n label)))
          | .err e => pure (some ("err:" ++ e.name))
          | .panic _ => pure (some "panic")
      | _, _, _, _, _, _ => pure none
  | ["decrypt", c, proof, q, key, n, label] => do
      match curve? c, hexToBytes? proof, hexToBytes? q, hexToBytes? key, parseHexNat? n, hexToBytes? label with
      | some cp, some proof, some q, some key, some n, some label =>
          match fromBytes cp proof with
          | .ok p => pure (some (resStr (fun v => ":" ++ bytesToHex (natToBe 32 v)) (← decrypt O cp p q key n label)))
          | .err e => pure (some ("err:" ++ e.name))
          | .panic _ => pure (some "panic")
      | _, _, _, _, _, _ => pure none
  | ["parse", c, bytes] =>
      match curve? c, hexToBytes? bytes with
      | some cp, some bytes =>
          match fromBytes cp bytes with
          | .ok p => pure (some (resStr (fun b => ":" ++ bytesToHexW b) (toBytes cp p)))
          | .err e => pure (some ("err:" ++ e.name))
          | .panic _ => pure (some "panic")
      | _, _ => pure none
  | ["adv", _, _, _, _, _, _, "adaptive:enc_x_r", _] | ["adv", _, _, _, _, _, _, "adaptive:enc_r", _] =>
      pure (some "skip:no adaptive attack — g_r and the other ciphertext stay hashed, so the opened side must be fixed in advance; garbage in the unhashed unopened ciphertext leaves the slots of the other bit value decryptable")
  | ["adv", _, _, _, _, _, _, "adaptive:label", _] =>
      pure (some "skip:no adaptive attack — the label also keys every ciphertext (m*L mod n) and the ciphertexts are hashed")
  | ["adv", _, _, _, _, _, _, "adaptive:Q", _] =>
      pure (some "skip:no adaptive attack — a slot opened on the x+r side forces Q = s*G - g_r with g_r and Enc(s) hashed")
  | ["adv", c, x, key, n, label, nslots, st, tape] => do
      match curve? c, parseHexNat? x, hexToBytes? key, parseHexNat? n, hexToBytes? label, nslots.toNat?, strategy? st, hexToBytes? tape with
      | some cp, some x, some key, some n, some label, some nslots, some st, some tape =>
          let (p, tries) ← advProver O cp (x % cp.order) key n label nslots st tape
          pure (some (resStr (fun b => s!":{bytesToHexW b}:{tries}") (toBytes cp p)))
      | _, _, _, _, _, _, _, _ => pure none
  | ["bit", ch, idx] =>
      match hexToBytes? ch, idx.toNat? with
      | some ch, some idx => pure (some (match extractBit ch idx with | some true => "1" | some false => "0" | none => "panic"))
      | _, _ => pure none
  | ["modinv", a, n] =>
      match parseHexNat? a, parseHexNat? n with
      | some a, some n => pure (some (match modInv? a n with | some v => natHex v | none => "none"))
      | _, _ => pure none
  | ["bemin", v] =>
      match parseHexNat? v with
      | some v => pure (some (bytesToHexW (toBytesBE v)))
      | none => pure none
  | _ => pure none

end SlVerif.Drv.VerEnc
