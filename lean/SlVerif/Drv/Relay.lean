import SlVerif.Model.Relay
import SlVerif.Model.RelaySpec
import SlVerif.Model.Buffered
namespace SlVerif.Drv.Relay
open SlVerif SlVerif.Relay

def sortStrs (l : List String) : List String := (l.toArray.qsort (· < ·)).toList
def plus (l : List String) : String := if l.isEmpty then "-" else String.intercalate "+" l

def parseOp? (s : String) : Option Op :=
  match s.toList with
  | 't' :: rest => (String.ofList rest).toNat?.map Op.tick
  | 's' :: ':' :: rest => (hexToBytes? (String.ofList rest)).map Op.service
  | 'f' :: rest =>
      match (String.ofList rest).splitOn ":" with
      | [c, h] => do pure (Op.frame (← c.toNat?) (← hexToBytes? h))
      | _ => none
  | _ => none

def delivStr (d : List Delivery) : String := plus (sortStrs (d.map fun (c, f) => s!"{c}:{bytesToHexW f}"))

def entryStr : Id × Entry → String
  | (id, .ready m) => s!"{bytesToHexW id}:R:{bytesToHexW m}"
  | (id, .waiters e cs) => s!"{bytesToHexW id}:W:{e}:{cs.length}"

def heapStr (e : Expire) : String := s!"{e.when_}:{bytesToHexW e.id}:{if e.kind = .ask then "A" else "P"}"

def sentryStr : Id × RelaySpec.SEntry → String
  | (id, .ready m _) => s!"{bytesToHexW id}:R:{bytesToHexW m}"
  | (id, .waiting e cs) => s!"{bytesToHexW id}:W:{e}:{cs.length}"

def resStr : SendResult → String
  | .ok => "ok" | .sendError => "senderr" | .panic => "panic"

/-- run a history on the model and on the specification, one record per op:
    `result|model deliveries|model msgs|model heap|spec deliveries|spec entries` -/
def runAll (ops : List Op) : List String :=
  let rec go (y : Sys) (sp : RelaySpec.Spec) (now : Nat) : List Op → List String
    | [] => []
    | op :: rest =>
        let (y', d, r) := step y op
        let (sp', now', sd) := RelaySpec.step sp now op
        let rec_ := String.intercalate "|" [resStr r, delivStr d, plus (sortStrs (y'.st.msgs.map entryStr)),
          plus (sortStrs (y'.st.heap.map heapStr)), delivStr sd, plus (sortStrs (sp'.map sentryStr))]
        rec_ :: go y' sp' now' rest
  go {} [] 0 ops

/-- `relay run <op,op,…>`;  `relay hdr <id hex> <ttl> <flags> <payload hex>` → frame hex;  `relay dec <frame>` → `id:ttl:flags` | `none` -/
def handle : List String → Option String
  | ["run", ops] => do
      let ops ← (ops.splitOn ",").mapM parseOp?
      some (String.intercalate ";" (runAll ops))
  | ["hdr", id, ttl, flags, payload] => do
      some (bytesToHexW (allocateMessage (← hexToBytes? id) (← ttl.toNat?) (← flags.toNat?) (← hexToBytes? payload)))
  | ["dec", frame] => do
      match decodeHdr? (← hexToBytes? frame) with
      | some h => some s!"{bytesToHexW h.id}:{h.ttl}:{h.flags}"
      | none => some "none"
  | _ => none

end SlVerif.Drv.Relay
