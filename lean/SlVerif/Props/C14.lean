import SlVerif.Proofs.Dlog
/-
  C14  "A proof produced for secret x and base point B verifies for y = x*B under a transcript with the same label,
        session id, party id and action. For every non-zero x it is rejected for any other statement point, base
        point or transcript context, and after any change to the commitment or to the response; the challenge depends
        on the statement, the commitment and the base point."

  Model: `Model/Dlog.lean` (`prove`, `verify`, `fiatShamir`, `newDlogProof`) at `m := Id` with an ARBITRARY pure oracle
  `h : Query → Bytes` (`verifyP h = Id.run (verify (fun q => pure (h q)))`, likewise `proveP`).  The only assumption is
  `go : GroupOracle h G` (`Proofs/GroupOracle.lean`): the secp256k1 answers of `h` are the operations of a module `G`
  over `Zq = ZMod secpQ` on canonical encodings.  NOTHING is assumed about the merlin answers of `h`.

  What is proved in full (every oracle, every input):
    `complete`, `complete_newDlogProof`       completeness, all secrets including 0
    `verify_iff`                              verify = true ↔ s•B = t + c•y
    `response_change_rejected`                any other response s' < q is rejected (B of full order)
    `challenge_inputs`, `challenge_query_only`, `transcript_determines_inputs`, `context_determines_query`,
    `challenge_differs_of_transcript_ne`      the challenge is a function of exactly context ⧺ y ⧺ t ⧺ B
    `*_change_accepted_iff`                   the EXACT condition under which a changed y / B / context / t still verifies
    `compensating_unique`                     …which at most one value of the new challenge satisfies
    `identity_statement_ignores_challenge`, `identity_statement_context_irrelevant`,
    `zero_secret_accepts_any_context`         for x = 0 the context is NOT bound (why C14 says "non-zero x")
  What is only proved partially (`*_rejected_partial`): rejection after a change of y / B / context / t, under the
  explicit hypothesis that the NEW challenge is not the one compensating value.  The changed field is hashed into the
  challenge, so the new challenge is an unrelated output of merlin; that it misses one fixed value of `Zq` is a
  statement about merlin as a random oracle (probability 1 - 1/q per attempt), which is outside a model in which `h` is
  an arbitrary function: for SOME `h` the changed proof IS accepted (e.g. `h` constant on merlin queries and `s = 0`).
-/
namespace SlVerif.C14
open SlVerif SlVerif.Dlog SlVerif.GroupOracle

variable {h : Query → Bytes} {G : Type} [AddCommGroup G] [Module Zq G] (go : GroupOracle h G)

/-! ## completeness -/

/-- C14, first sentence.  For EVERY secret `x` (0 and ≥ q included), every valid base point, every transcript context
    and every tape: the statement returned by `prove` is a valid encoding of `x•B`, and the proof verifies for it under
    the same context. -/
theorem complete (x : ℕ) {base : Bytes} (hB : go.Canon base) (tr : Transcript) (tape : Tape) :
    go.Canon (proveP h x base tr tape).2.1 ∧
    go.dec (proveP h x base tr tape).2.1 = (x : Zq) • go.dec base ∧
    verifyP h (proveP h x base tr tape).1 (proveP h x base tr tape).2.1 base tr = true := by
  rw [proveP_eq]
  refine ⟨go.canon_mul _ hB, go.mul _ hB, ?_⟩
  rw [verifyP_iff go (go.canon_mul _ hB) (go.canon_mul _ hB) hB]
  simp only
  rw [natCast_mod_secpQ, go.mul _ hB, go.mul _ hB]
  push_cast
  rw [add_smul, mul_smul]

/-- …in particular under `Transcript::new_dlog_proof` with the same label, session id, party id and action -/
theorem complete_newDlogProof (x : ℕ) {base : Bytes} (hB : go.Canon base) (sid : Bytes) (pid : ℕ)
    (action label : Bytes) (tape : Tape) :
    verifyP h (proveP h x base (newDlogProof sid pid action label) tape).1
      (proveP h x base (newDlogProof sid pid action label) tape).2.1 base
      (newDlogProof sid pid action label) = true :=
  (complete go x hB _ tape).2.2

/-! ## the verification equation -/

/-- `verify` accepts `(t, s)` for `(y, B)` in context `tr` iff `s•B = t + c•y`, `c` the model's challenge -/
theorem verify_iff {t y base : Bytes} (s : ℕ) (hy : go.Canon y) (ht : go.Canon t) (hB : go.Canon base)
    (tr : Transcript) :
    verifyP h ⟨t, s⟩ y base tr = true ↔
      (s : Zq) • go.dec base = go.dec t + (challengeOf h y t base tr : Zq) • go.dec y :=
  verifyP_iff go (p := ⟨t, s⟩) hy ht hB tr

/-- C14 "after any change … to the response": for a base point of full order, an accepted `(t, s)` and ANY other
    reduced response `s'` (all single-bit mutations of `s` that are still scalars), `(t, s')` is rejected.
    Unconditional in the merlin part of the oracle. -/
theorem response_change_rejected {t y base : Bytes} {s s' : ℕ} (hy : go.Canon y) (ht : go.Canon t)
    (hB : go.Canon base) (hfull : FullOrder (go.dec base)) (tr : Transcript)
    (hacc : verifyP h ⟨t, s⟩ y base tr = true) (hs : s < secpQ) (hs' : s' < secpQ) (hne : s' ≠ s) :
    verifyP h ⟨t, s'⟩ y base tr = false := by
  rw [Bool.eq_false_iff]
  intro hacc'
  rw [verify_iff go _ hy ht hB] at hacc hacc'
  exact hne (natCast_inj_of_lt hs' hs (hfull.smul_cancel (hacc'.trans hacc.symm)))

/-! ## what the challenge depends on -/

/-- C14, last clause.  `fiatShamir` asks the oracle exactly one question: the challenge bytes of the context transcript
    `tr` extended by `y`, `t`, `base-point` (SEC1) and the challenge operation; the challenge is that answer mod q. -/
theorem challenge_inputs (h : Query → Bytes) (y t base : Bytes) (tr : Transcript) :
    Id.run (fiatShamir (pureO h) y t base tr) =
      (beToNat (h (.merlin
          { init := tr.init
            ops := tr.ops ++ [TOp.msg (ascii "y") (sec1 y), TOp.msg (ascii "t") (sec1 t),
                              TOp.msg (ascii "base-point") (sec1 base),
                              TOp.chal (labelBytes Generated.DLOG_CHALLENGE_LABEL) 32] })) % secpQ,
       { init := tr.init
         ops := tr.ops ++ [TOp.msg (ascii "y") (sec1 y), TOp.msg (ascii "t") (sec1 t),
                           TOp.msg (ascii "base-point") (sec1 base),
                           TOp.chal (labelBytes Generated.DLOG_CHALLENGE_LABEL) 32] }) :=
  fiatShamir_pure h y t base tr

/-- …and on nothing else: two oracles that agree on that single query give the same `fiatShamir` result -/
theorem challenge_query_only (h h' : Query → Bytes) (y t base : Bytes) (tr : Transcript)
    (e : h (.merlin (fsTranscript y t base tr)) = h' (.merlin (fsTranscript y t base tr))) :
    Id.run (fiatShamir (pureO h) y t base tr) = Id.run (fiatShamir (pureO h') y t base tr) := by
  rw [fiatShamir_pure, fiatShamir_pure, challengeOf, challengeOf, e]

/-- the queried transcript determines the context and the three points (valid encodings are never `[0]`) -/
theorem transcript_determines_inputs {y t b y' t' b' : Bytes} {tr tr' : Transcript}
    (hy : go.Canon y) (ht : go.Canon t) (hb : go.Canon b) (hy' : go.Canon y') (ht' : go.Canon t') (hb' : go.Canon b') :
    fsTranscript y t b tr = fsTranscript y' t' b' tr' ↔ tr = tr' ∧ y = y' ∧ t = t' ∧ b = b' := by
  rw [fsTranscript_inj]
  constructor
  · rintro ⟨e0, e1, e2, e3⟩
    exact ⟨e0, sec1_inj (go.canon_ne_singleton hy 0) (go.canon_ne_singleton hy' 0) e1,
      sec1_inj (go.canon_ne_singleton ht 0) (go.canon_ne_singleton ht' 0) e2,
      sec1_inj (go.canon_ne_singleton hb 0) (go.canon_ne_singleton hb' 0) e3⟩
  · rintro ⟨rfl, rfl, rfl, rfl⟩; exact ⟨rfl, rfl, rfl, rfl⟩

/-- the context built by `new_dlog_proof` determines label, session id, party id and action; so any change of one of
    them changes the transcript the challenge is drawn from -/
theorem context_determines_query {y t b : Bytes} {sid act lbl sid' act' lbl' : Bytes} {pid pid' : ℕ} :
    fsTranscript y t b (newDlogProof sid pid act lbl) = fsTranscript y t b (newDlogProof sid' pid' act' lbl') ↔
      sid = sid' ∧ pid = pid' ∧ act = act' ∧ lbl = lbl' := by
  rw [fsTranscript_inj, newDlogProof_inj]; tauto

/-- If (merlin followed by reduction mod q, i.e.) `h` separates the two queried transcripts, then changing ANY of
    statement, commitment, base point or context changes the challenge.  The hypothesis `hinj` is collision-freeness of
    the hash on these two inputs; it is not provable for an arbitrary `h`. -/
theorem challenge_differs_of_transcript_ne {y t b y' t' b' : Bytes} {tr tr' : Transcript}
    (hy : go.Canon y) (ht : go.Canon t) (hb : go.Canon b) (hy' : go.Canon y') (ht' : go.Canon t') (hb' : go.Canon b')
    (hinj : beToNat (h (.merlin (fsTranscript y t b tr))) % secpQ =
              beToNat (h (.merlin (fsTranscript y' t' b' tr'))) % secpQ →
            fsTranscript y t b tr = fsTranscript y' t' b' tr')
    (hne : ¬ (tr = tr' ∧ y = y' ∧ t = t' ∧ b = b')) :
    challengeOf h y t b tr ≠ challengeOf h y' t' b' tr' := by
  intro e
  exact hne ((transcript_determines_inputs go hy ht hb hy' ht' hb').1 (hinj e))

/-! ## changes of statement, base point, context, commitment

  Throughout, `(t, s)` is ANY proof accepted for `(y, B)` in context `tr` (by `complete`, e.g. the honest one).
  `c = challengeOf h y t B tr` is the old challenge, `c'` the challenge of the changed instance. -/

/-- the compensating challenge is unique: a full-order point `P` has at most one `a` with `a•P = Q` -/
theorem compensating_unique {P Q : G} (hP : FullOrder P) {a b : Zq} (ha : a • P = Q) (hb : b • P = Q) : a = b :=
  hP.smul_cancel (ha.trans hb.symm)

/-- exact condition: the proof still verifies for another statement `y'` iff `c'•y' = c•y` -/
theorem statement_change_accepted_iff {t y y' base : Bytes} {s : ℕ} (hy : go.Canon y) (hy' : go.Canon y')
    (ht : go.Canon t) (hB : go.Canon base) (tr : Transcript) (hacc : verifyP h ⟨t, s⟩ y base tr = true) :
    verifyP h ⟨t, s⟩ y' base tr = true ↔
      (challengeOf h y' t base tr : Zq) • go.dec y' = (challengeOf h y t base tr : Zq) • go.dec y := by
  rw [verify_iff go _ hy ht hB] at hacc
  rw [verify_iff go _ hy' ht hB, hacc]
  exact ⟨fun e => (add_left_cancel e).symm, fun e => by rw [e]⟩

/-- PARTIAL.  Full statement (C14): for x ≠ 0 and every `y' ≠ y`, `verify (t,s) y' B tr = false`.
    Proved: rejection unless the new challenge `c'` satisfies `c'•y' = c•y` (for `y'` of full order at most ONE value of
    `c'` does, `compensating_unique`).  Missing: that merlin's answer on the transcript containing `y'` is not that value —
    a random-oracle statement (probability 1/q), false for some oracles `h`. -/
theorem statement_change_rejected_partial {t y y' base : Bytes} {s : ℕ} (hy : go.Canon y) (hy' : go.Canon y')
    (ht : go.Canon t) (hB : go.Canon base) (tr : Transcript) (hacc : verifyP h ⟨t, s⟩ y base tr = true)
    (hne : (challengeOf h y' t base tr : Zq) • go.dec y' ≠ (challengeOf h y t base tr : Zq) • go.dec y) :
    verifyP h ⟨t, s⟩ y' base tr = false := by
  rw [Bool.eq_false_iff]
  exact fun e => hne ((statement_change_accepted_iff go hy hy' ht hB tr hacc).1 e)

/-- exact condition: the proof still verifies for another base point `B'` iff `s•(B' - B) = (c' - c)•y` -/
theorem base_change_accepted_iff {t y base base' : Bytes} {s : ℕ} (hy : go.Canon y) (ht : go.Canon t)
    (hB : go.Canon base) (hB' : go.Canon base') (tr : Transcript) (hacc : verifyP h ⟨t, s⟩ y base tr = true) :
    verifyP h ⟨t, s⟩ y base' tr = true ↔
      (s : Zq) • (go.dec base' - go.dec base) =
        ((challengeOf h y t base' tr : Zq) - (challengeOf h y t base tr : Zq)) • go.dec y := by
  rw [verify_iff go _ hy ht hB] at hacc
  rw [verify_iff go _ hy ht hB', smul_sub, hacc, sub_smul]
  constructor
  · intro e; rw [e]; abel
  · intro e
    have e2 := congrArg (· + (go.dec t + (challengeOf h y t base tr : Zq) • go.dec y)) e
    simp only [sub_add_cancel] at e2
    rw [e2]; abel

/-- PARTIAL.  Full statement (C14): for x ≠ 0 and every `B' ≠ B`, `verify (t,s) y B' tr = false`.
    Proved: rejection unless `s•(B' - B) = (c' - c)•y` (for `y = x•B` of full order, i.e. x ≠ 0, at most ONE value of the
    new challenge `c'` does, `compensating_unique`; for `y = 0` the condition does not involve `c'` at all).
    Missing: that merlin's answer on the transcript containing `B'` is not that value (random oracle, probability 1/q). -/
theorem base_change_rejected_partial {t y base base' : Bytes} {s : ℕ} (hy : go.Canon y) (ht : go.Canon t)
    (hB : go.Canon base) (hB' : go.Canon base') (tr : Transcript) (hacc : verifyP h ⟨t, s⟩ y base tr = true)
    (hne : (s : Zq) • (go.dec base' - go.dec base) ≠
        ((challengeOf h y t base' tr : Zq) - (challengeOf h y t base tr : Zq)) • go.dec y) :
    verifyP h ⟨t, s⟩ y base' tr = false := by
  rw [Bool.eq_false_iff]
  exact fun e => hne ((base_change_accepted_iff go hy ht hB hB' tr hacc).1 e)

/-- exact condition: for a statement of full order (`y = x•B`, x ≠ 0) the proof verifies in another context `tr'` iff
    the two challenges COINCIDE -/
theorem context_change_accepted_iff {t y base : Bytes} {s : ℕ} (hy : go.Canon y) (ht : go.Canon t)
    (hB : go.Canon base) (hfull : FullOrder (go.dec y)) (tr tr' : Transcript)
    (hacc : verifyP h ⟨t, s⟩ y base tr = true) :
    verifyP h ⟨t, s⟩ y base tr' = true ↔ challengeOf h y t base tr' = challengeOf h y t base tr := by
  rw [verify_iff go _ hy ht hB] at hacc
  rw [verify_iff go _ hy ht hB, hacc]
  constructor
  · intro e
    exact natCast_inj_of_lt (challengeOf_lt ..) (challengeOf_lt ..) (hfull.smul_cancel (add_left_cancel e)).symm
  · intro e; rw [e]

/-- PARTIAL.  Full statement (C14): for x ≠ 0 and every context `tr' ≠ tr` (other label, session id, party id or action),
    `verify (t,s) y B tr' = false`.
    Proved: rejection unless the challenge drawn from the new context equals the old one.  By
    `context_determines_query` the two challenges are merlin's answers on DIFFERENT transcripts; that they differ is
    collision-freeness of the random oracle (probability 1 - 1/q) and is the missing part.  The full-order hypothesis on
    `y` (x ≠ 0) is necessary: see `zero_secret_accepts_any_context`. -/
theorem context_change_rejected_partial {t y base : Bytes} {s : ℕ} (hy : go.Canon y) (ht : go.Canon t)
    (hB : go.Canon base) (hfull : FullOrder (go.dec y)) (tr tr' : Transcript)
    (hacc : verifyP h ⟨t, s⟩ y base tr = true)
    (hne : challengeOf h y t base tr' ≠ challengeOf h y t base tr) :
    verifyP h ⟨t, s⟩ y base tr' = false := by
  rw [Bool.eq_false_iff]
  exact fun e => hne ((context_change_accepted_iff go hy ht hB hfull tr tr' hacc).1 e)

/-- exact condition: `(t', s)` verifies iff `t' - t = (c - c')•y` -/
theorem commitment_change_accepted_iff {t t' y base : Bytes} {s : ℕ} (hy : go.Canon y) (ht : go.Canon t)
    (ht' : go.Canon t') (hB : go.Canon base) (tr : Transcript) (hacc : verifyP h ⟨t, s⟩ y base tr = true) :
    verifyP h ⟨t', s⟩ y base tr = true ↔
      go.dec t' - go.dec t =
        ((challengeOf h y t base tr : Zq) - (challengeOf h y t' base tr : Zq)) • go.dec y := by
  rw [verify_iff go _ hy ht hB] at hacc
  rw [verify_iff go _ hy ht' hB, hacc, sub_smul, sub_eq_sub_iff_add_eq_add,
    add_comm ((challengeOf h y t base tr : Zq) • go.dec y) (go.dec t)]
  exact eq_comm

/-- PARTIAL.  Full statement (C14): for x ≠ 0 and every `t' ≠ t` (all single-bit mutations of the commitment that are
    still points), `verify (t',s) y B tr = false`.
    Proved: rejection unless `t' - t = (c - c')•y` (for `y` of full order, x ≠ 0, at most ONE value of the new challenge
    `c'` does; `c' = c` never does since `t' ≠ t`).  Missing: that merlin's answer on the transcript containing `t'` is
    not that value (random oracle, probability 1/q). -/
theorem commitment_change_rejected_partial {t t' y base : Bytes} {s : ℕ} (hy : go.Canon y) (ht : go.Canon t)
    (ht' : go.Canon t') (hB : go.Canon base) (tr : Transcript) (hacc : verifyP h ⟨t, s⟩ y base tr = true)
    (hne : go.dec t' - go.dec t ≠
        ((challengeOf h y t base tr : Zq) - (challengeOf h y t' base tr : Zq)) • go.dec y) :
    verifyP h ⟨t', s⟩ y base tr = false := by
  rw [Bool.eq_false_iff]
  exact fun e => hne ((commitment_change_accepted_iff go hy ht ht' hB tr hacc).1 e)

/-- a changed commitment with an UNCHANGED challenge is always rejected (so acceptance needs `c' ≠ c`) -/
theorem commitment_change_rejected_of_same_challenge {t t' y base : Bytes} {s : ℕ} (hy : go.Canon y)
    (ht : go.Canon t) (ht' : go.Canon t') (hB : go.Canon base) (tr : Transcript)
    (hacc : verifyP h ⟨t, s⟩ y base tr = true) (hne : t' ≠ t)
    (hc : challengeOf h y t' base tr = challengeOf h y t base tr) :
    verifyP h ⟨t', s⟩ y base tr = false := by
  apply commitment_change_rejected_partial go hy ht ht' hB tr hacc
  rw [hc, sub_self, zero_smul, Ne, sub_eq_zero]
  exact fun e => hne (go.dec_inj ht' ht e)

/-! ## the identity statement (x = 0): why rejection is only claimed for non-zero secrets -/

/-- for the identity statement the verification equation is `s•B = t`: the challenge does not occur -/
theorem identity_statement_ignores_challenge {t y base : Bytes} (s : ℕ) (hy : go.Canon y) (ht : go.Canon t)
    (hB : go.Canon base) (hy0 : go.dec y = 0) (tr : Transcript) :
    verifyP h ⟨t, s⟩ y base tr = true ↔ (s : Zq) • go.dec base = go.dec t := by
  rw [verify_iff go _ hy ht hB, hy0, smul_zero, add_zero]

/-- …so the verdict is the same in every context -/
theorem identity_statement_context_irrelevant {t y base : Bytes} (s : ℕ) (hy : go.Canon y) (ht : go.Canon t)
    (hB : go.Canon base) (hy0 : go.dec y = 0) (tr tr' : Transcript) :
    verifyP h ⟨t, s⟩ y base tr = verifyP h ⟨t, s⟩ y base tr' := by
  rw [Bool.eq_iff_iff, identity_statement_ignores_challenge go s hy ht hB hy0,
    identity_statement_ignores_challenge go s hy ht hB hy0]

/-- the honest proof for the secret 0 verifies under EVERY label / session id / party id / action: for x = 0 the
    context is not bound (this is a property of the protocol, recorded by C14's restriction to non-zero x) -/
theorem zero_secret_accepts_any_context {base : Bytes} (hB : go.Canon base) (tr tr' : Transcript) (tape : Tape) :
    verifyP h (proveP h 0 base tr tape).1 (proveP h 0 base tr tape).2.1 base tr' = true := by
  obtain ⟨hc, hd, hv⟩ := complete go 0 hB tr tape
  rw [Nat.cast_zero, zero_smul] at hd
  have ht : go.Canon (proveP h 0 base tr tape).1.t := by rw [proveP_eq]; exact go.canon_mul _ hB
  rw [← identity_statement_context_irrelevant go (proveP h 0 base tr tape).1.s hc ht hB hd tr tr']
  exact hv

/-- for `y = x•B` with `B` of full order and `x` a unit (for the prime `secpQ`: x ≢ 0, `GroupOracle.isUnit_of_prime`)
    the statement returned by `prove` has full order — the hypothesis of `context_change_*` -/
theorem statement_fullOrder {x : ℕ} {base : Bytes} (hB : go.Canon base) (hfull : FullOrder (go.dec base))
    (hx : IsUnit (x : Zq)) (tr : Transcript) (tape : Tape) :
    FullOrder (go.dec (proveP h x base tr tape).2.1) := by
  rw [(complete go x hB tr tape).2.1]; exact hfull.smul_unit hx

/-! ## non-vacuity: the toy oracle (`G = Zq`, generator 1, merlin answers `T ↦ T.init`) -/
/-! ## sequences of proofs on one transcript (`prove` and `verify` take `&mut Transcript`) -/

section Sequences
variable {h : Query → Bytes} {G : Type} [AddCommGroup G] [Module Zq G] (go : GroupOracle h G)

/-- `proveAdv` is `prove` plus the advanced transcript, and that transcript is `fsTranscript y t base tr`:
    a function of the statement, the commitment, the base point and the previous transcript only -/
theorem proveAdv_eq (x : ℕ) (base : Bytes) (tr : Transcript) (tape : Tape) :
    Id.run (proveAdv (pureO h) x base tr tape) =
      ((proveP h x base tr tape).1, (proveP h x base tr tape).2.1, (proveP h x base tr tape).2.2,
        fsTranscript (proveP h x base tr tape).2.1 (proveP h x base tr tape).1.t base tr) := by
  rw [proveP_eq]
  simp only [proveAdv, Id.run, pureO, bind, pure, fiatShamir_pure, challengeOf, fsTranscript_eq]
  rfl

/-- `verifyAdv` is `verify` plus the advanced transcript — the SAME transcript the prover ends with -/
theorem verifyAdv_eq (p : Proof) (y base : Bytes) (tr : Transcript) :
    Id.run (verifyAdv (pureO h) p y base tr) = (verifyP h p y base tr, fsTranscript y p.t base tr) := by
  rw [verifyP_eq]
  simp only [verifyAdv, Id.run, pureO, bind, pure, challengeOf, fsTranscript_eq]
  rfl

/-- C14 for proofs made in a row: after an honest first proof the prover's and the verifier's transcripts coincide, so the
    second honest proof (any secret, any valid base, any tape) verifies when the verifier replays the sequence — and so on
    for any number of proofs (the statement is about an arbitrary starting transcript `tr`). -/
theorem complete_sequence (x₁ x₂ : ℕ) {b₁ b₂ : Bytes} (hB₁ : go.Canon b₁) (hB₂ : go.Canon b₂) (tr : Transcript) (tape : Tape) :
    let r₁ := Id.run (proveAdv (pureO h) x₁ b₁ tr tape)
    let v₁ := Id.run (verifyAdv (pureO h) r₁.1 r₁.2.1 b₁ tr)
    let r₂ := Id.run (proveAdv (pureO h) x₂ b₂ r₁.2.2.2 r₁.2.2.1)
    let v₂ := Id.run (verifyAdv (pureO h) r₂.1 r₂.2.1 b₂ v₁.2)
    v₁.1 = true ∧ v₁.2 = r₁.2.2.2 ∧ v₂.1 = true ∧ v₂.2 = r₂.2.2.2 := by
  intro r₁ v₁ r₂ v₂
  have e₁ : r₁ = _ := proveAdv_eq (h := h) x₁ b₁ tr tape
  have ev₁ : v₁ = _ := verifyAdv_eq (h := h) r₁.1 r₁.2.1 b₁ tr
  have hv₁ : v₁.1 = true := by rw [ev₁, e₁]; exact (complete go x₁ hB₁ tr tape).2.2
  have ht₁ : v₁.2 = r₁.2.2.2 := by rw [ev₁, e₁]
  have e₂ : r₂ = _ := proveAdv_eq (h := h) x₂ b₂ r₁.2.2.2 r₁.2.2.1
  have ev₂ : v₂ = _ := verifyAdv_eq (h := h) r₂.1 r₂.2.1 b₂ v₁.2
  refine ⟨hv₁, ht₁, ?_, ?_⟩
  · rw [ev₂, ht₁, e₂]; exact (complete go x₂ hB₂ _ _).2.2
  · rw [ev₂, ht₁, e₂]

end Sequences

section NonVacuity
open GroupOracle.Toy Dlog.ToyEx

/-- `GroupOracle` is satisfiable and `complete` applies: an honest proof for x = 5 verifies in the toy group -/
example (tr : Transcript) (tape : Tape) :
    verifyP th (proveP th 5 B0 tr tape).1 (proveP th 5 B0 tr tape).2.1 B0 tr = true :=
  (complete tgo 5 (canon_enc 1) tr tape).2.2

/-- response change: s' = 8 instead of 9 is rejected -/
example : verifyP th ⟨enc 7, 8⟩ (enc 1) B0 (Transcript.new [2]) = false :=
  response_change_rejected tgo (canon_enc 1) (canon_enc 7) (canon_enc 1) full_B0 _ acc0 (by decide) (by decide)
    (by decide)

/-- statement change y' = 4: c' = c = 2 here (the toy merlin ignores the points), 2*4 ≠ 2*1 -/
example : verifyP th ⟨enc 7, 9⟩ (enc 4) B0 (Transcript.new [2]) = false := by
  apply statement_change_rejected_partial tgo (canon_enc 1) (canon_enc 4) (canon_enc 7) (canon_enc 1) _ acc0
  simp only [chal_th, dec_th]
  rw [smul_eq_mul, smul_eq_mul, ← Nat.cast_mul, ← Nat.cast_mul]
  exact cast_ne (by decide) (by decide) (by decide)

/-- base change B' = 2: 9*(2-1) ≠ (2-2)*1 -/
example : verifyP th ⟨enc 7, 9⟩ (enc 1) (enc 2) (Transcript.new [2]) = false := by
  apply base_change_rejected_partial tgo (canon_enc 1) (canon_enc 7) (canon_enc 1) (canon_enc 2) _ acc0
  simp only [chal_th, dec_th]
  rw [sub_self, zero_smul, smul_eq_mul]
  have : ((2 : ℕ) : Zq) - ((1 : ℕ) : Zq) = ((1 : ℕ) : Zq) := by push_cast; ring
  rw [this, ← Nat.cast_mul, ← Nat.cast_zero]
  exact cast_ne (by decide) (by decide) (by decide)

/-- context change to label [5]: c' = 5 ≠ 2 = c -/
example : verifyP th ⟨enc 7, 9⟩ (enc 1) B0 (Transcript.new [5]) = false := by
  apply context_change_rejected_partial tgo (canon_enc 1) (canon_enc 7) (canon_enc 1) full_y0 _ _ acc0
  rw [chal_th, chal_th]; decide

/-- commitment change t' = 8: 8 - 7 ≠ (2-2)*1 -/
example : verifyP th ⟨enc 8, 9⟩ (enc 1) B0 (Transcript.new [2]) = false :=
  commitment_change_rejected_of_same_challenge tgo (canon_enc 1) (canon_enc 7) (canon_enc 8) (canon_enc 1) _ acc0
    (by
      intro e
      have := congrArg tgo.dec e
      rw [dec_th, dec_th] at this
      exact cast_ne (by decide) (by decide) (by decide) this)
    rfl

/-- the hypotheses of `challenge_differs_of_transcript_ne` are satisfiable: two contexts with different labels -/
example : challengeOf th (enc 1) (enc 7) B0 (Transcript.new [2]) ≠
    challengeOf th (enc 1) (enc 7) B0 (Transcript.new [5]) :=
  challenge_differs_of_transcript_ne tgo (canon_enc 1) (canon_enc 7) (canon_enc 1) (canon_enc 1) (canon_enc 7)
    (canon_enc 1)
    (fun e => absurd e (by show beToNat [2] % secpQ ≠ beToNat [5] % secpQ; decide))
    (fun e => absurd e.1 (by decide))

/-- x = 0: the honest proof made in context [2] verifies in context [5] -/
example (tape : Tape) :
    verifyP th (proveP th 0 B0 (Transcript.new [2]) tape).1 (proveP th 0 B0 (Transcript.new [2]) tape).2.1 B0
      (Transcript.new [5]) = true :=
  zero_secret_accepts_any_context tgo (canon_enc 1) _ _ tape

end NonVacuity

end SlVerif.C14
