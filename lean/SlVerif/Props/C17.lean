import SlVerif.Proofs.Buffered
/-
  C17 — "Through the buffering relay wrapper, every well-formed message produced by the underlying
  relay is handed to the application exactly once (by a targeted receive, a predicate wait or the
  stream interface) or is still listed as buffered; a receive for an id returns only a message
  carrying that id.  This holds for every arrival order, every placement of not-ready points, and
  when a pending receive is cancelled and reissued."

  Model: SlVerif/Model/Buffered.lean — `BufferedMsgRelay::{wait_for, recv}` and `Stream::poll_next`
  of crates/sl-mpc-mate/src/coord/buffered.rs at the level of `Future::poll`, over an arbitrary
  underlying relay given by
    * the script of results of its `Stream::poll_next` (`Ev.msg b` / `Ev.pending` / `Ev.closed`),
    * the script of results of its `Sink::poll_ready` / `Sink::poll_flush` calls (`SinkEv.ok` /
      `SinkEv.pending` / `SinkEv.err`; exhausted = `ok`): `recv` awaits `poll_ready` (the feed of its
      ASK), `wait_for` awaits `poll_flush` after the buffer scan and before the pull loop,
    * the script of results of its `Sink::start_send` calls (`true` = Ok; exhausted = Ok).
  A call `recv id ttl k` / `waitFor ids k` polls a fresh future up to `k` times and drops it if it
  is still pending (outcome `cancelled`); `k = 0` is "created and dropped".  A future can be
  suspended (and therefore dropped) in `poll_ready`, in `poll_flush`, or in the pull loop.

  Quantification.  Every theorem holds for ALL states (any buffer, any script: any frames, also
  malformed ones shorter than the 36-byte header, any placement of `pending`/`closed`; any sink
  script and any `start_send` script: any placement of not-ready points and errors on the output
  side), ALL ids and id sets, ALL poll counts (= cancellation points) and, for the run theorems, ALL
  call sequences.  Nothing is enumerated.

  Vocabulary (defined in SlVerif/Proofs/Buffered.lean, characterised in the first section):
    `wf m`              the frame has a parseable header
    `matches_ pred m`   (model) parseable header whose id satisfies `pred`
    `msgsOf c`          the frames of a script segment, in order
    `consumedBy s s'`   the script prefix consumed between `s` and `s'`
    `delivered outs`    the frames of the `got` outcomes
    `droppedBy s c`, `droppedRun s cs`   the frames pulled and silently dropped (an explicit
                        function of the run: the malformed frames pulled by `recv`/`wait_for` calls)
    `sinkWait k sink`   `k` polls of a future suspended on the sink: how the wait ends, the sink
                        script left, the polls left
    `OkAfter p sink r`  the sink answers `Pending` `p` times and then `Ready(Ok)`, leaving `r`
    `feedOk k sink sends`   within `k` polls the ASK of a `recv` was accepted by the sink
    `asksBy s c`, `asksRun s cs`   the ASKs accepted by the sink: one per `recv` whose feed went through
    `asksOf cs`         one ASK per `recv` polled at least once (= `asksRun` for an always-ready sink)
-/
namespace SlVerif.C17
open SlVerif SlVerif.Buffered
open SlVerif.Relay (decodeHdr? Id Hdr)

/-! ### the vocabulary is what it claims to be -/

theorem wf_iff (m : Bytes) : wf m = true ↔ decodeHdr? m ≠ none := Buffered.wf_iff

theorem wf_iff_length (m : Bytes) : wf m = true ↔ 36 ≤ m.length := by
  unfold wf decodeHdr?
  by_cases h : m.length < Relay.MESSAGE_HEADER_SIZE
  · simp only [h, if_true, Option.isSome_none]
    have : Relay.MESSAGE_HEADER_SIZE = 36 := rfl
    constructor
    · intro h'; cases h'
    · intro h'; omega
  · simp only [h, if_false, Option.isSome_some, true_iff]
    have : Relay.MESSAGE_HEADER_SIZE = 36 := rfl
    omega

theorem matches_iff (pred : Id → Bool) (m : Bytes) :
    matches_ pred m = true ↔ ∃ h, decodeHdr? m = some h ∧ pred h.id = true := Buffered.matches_iff

theorem msgsOf_eq (c : List Ev) :
    msgsOf c = c.filterMap (fun e => match e with | .msg b => some b | _ => none) := by
  induction c with
  | nil => rfl
  | cons e r ih => cases e <;> simp [msgsOf, ih]

/-- `consumedBy s s'` is THE prefix `c` with `s.script = c ++ s'.script` -/
theorem consumedBy_unique (s s' : State) (c : List Ev) (h : s.script = c ++ s'.script) :
    consumedBy s s' = c := consumedBy_eq h

theorem delivered_eq (outs : List Outcome) :
    delivered outs = outs.filterMap (fun o => match o with | .got m => some m | _ => none) := by
  induction outs with
  | nil => rfl
  | cons o r ih => cases o <;> simp_all [delivered, List.filterMap_cons, got?]

theorem droppedBy_next (s : State) : droppedBy s .next = [] := rfl
theorem droppedBy_recv (s : State) (id : Id) (ttl k : Nat) :
    droppedBy s (.recv id ttl k) =
      (msgsOf (consumedBy s (call s (.recv id ttl k)).1)).filter (fun m => !wf m) := rfl
theorem droppedBy_waitFor (s : State) (ids : List Id) (k : Nat) :
    droppedBy s (.waitFor ids k) =
      (msgsOf (consumedBy s (call s (.waitFor ids k)).1)).filter (fun m => !wf m) := rfl
theorem droppedRun_nil (s : State) : droppedRun s [] = [] := rfl
theorem droppedRun_cons (s : State) (c : Call) (cs : List Call) :
    droppedRun s (c :: cs) = droppedBy s c ++ droppedRun (call s c).1 cs := rfl

theorem sinkWait_zero (l : List SinkEv) : sinkWait 0 l = (.pending, l, 0) := rfl
theorem sinkWait_exhausted (k : Nat) : sinkWait (k + 1) [] = (.ok, [], k + 1) := rfl
theorem sinkWait_cons_ok (k : Nat) (r : List SinkEv) : sinkWait (k + 1) (.ok :: r) = (.ok, r, k + 1) := rfl
theorem sinkWait_cons_err (k : Nat) (r : List SinkEv) :
    sinkWait (k + 1) (.err :: r) = (.err, r, k + 1) := rfl
theorem sinkWait_cons_pending (k : Nat) (r : List SinkEv) :
    sinkWait (k + 1) (.pending :: r) = sinkWait k r := rfl

theorem okAfter_iff (p : Nat) (sink r : List SinkEv) :
    OkAfter p sink r ↔
      (sink = List.replicate p .pending ++ .ok :: r ∨ (sink = List.replicate p .pending ∧ r = [])) :=
  Iff.rfl

/-- `feedOk`: some poll `p + 1 ≤ k` got `Ready(Ok)` from `poll_ready` (after `p` times `Pending`)
    and the next `start_send` does not fail -/
theorem feedOk_iff (k : Nat) (sink : List SinkEv) (sends : List Bool) :
    feedOk k sink sends = true ↔
      (∃ p r, p < k ∧ OkAfter p sink r) ∧ sends.head? ≠ some false := by
  constructor
  · intro h
    unfold feedOk at h
    rcases hw : sinkWait k sink with ⟨e, r, j⟩
    rw [hw] at h
    cases e with
    | pending => simp at h
    | err => simp at h
    | ok =>
      obtain ⟨p, h1, _, h3⟩ := sinkWait_ok hw
      refine ⟨⟨p, r, h1, h3⟩, ?_⟩
      intro hc
      simp only [hc] at h
      simp at h
  · rintro ⟨⟨p, r, hp, hok⟩, hs⟩
    rw [feedOk_of_okAfter hp hok]
    cases sends with
    | nil => rfl
    | cons b t => cases b with
      | true => rfl
      | false => simp at hs

theorem asksBy_recv (s : State) (id : Id) (ttl k : Nat) :
    asksBy s (.recv id ttl k) = if feedOk k s.sink s.sends then [(id, ttl)] else [] := rfl
theorem asksBy_waitFor (s : State) (ids : List Id) (k : Nat) : asksBy s (.waitFor ids k) = [] := rfl
theorem asksBy_next (s : State) : asksBy s .next = [] := rfl
theorem asksRun_nil (s : State) : asksRun s [] = [] := rfl
theorem asksRun_cons (s : State) (c : Call) (cs : List Call) :
    asksRun s (c :: cs) = asksBy s c ++ asksRun (call s c).1 cs := rfl

/-- with a sink that is always ready and never fails the accepted ASKs are: one per `recv`
    polled at least once -/
theorem asksRun_ready_sink (s : State) (cs : List Call) (h1 : s.sink = []) (h2 : s.sends = []) :
    asksRun s cs = asksOf cs := by
  induction cs generalizing s with
  | nil => rfl
  | cons c cs ih =>
    obtain ⟨⟨d, hd⟩, ⟨t, ht⟩⟩ := call_sink_sends s c
    have h1' : (call s c).1.sink = [] := by
      rw [h1] at hd
      exact (List.append_eq_nil_iff.mp hd.symm).2
    have h2' : (call s c).1.sends = [] := by
      rw [h2] at ht
      exact (List.append_eq_nil_iff.mp ht.symm).2
    rw [asksRun, ih _ h1' h2', asksOf_cons c cs]
    congr 1
    cases c with
    | recv id ttl k =>
      simp only [asksBy, h1, h2, feedOk_ready]
      cases k <;> simp [asksOf]
    | waitFor ids k => rfl
    | next => rfl

/-- `Vec::swap_remove(i)`: element `i` is handed out, all others are kept (as a multiset, the
    list with index `i` erased) -/
theorem swapRemove_spec (l : List Bytes) (i : Nat) (h : i < l.length) :
    (swapRemove l i).Perm (l.eraseIdx i) ∧ (l[i] :: swapRemove l i).Perm l :=
  ⟨swapRemove_perm_eraseIdx l i h, swapRemove_perm l i h⟩

/-- the fuel `script.length + 1` of the model's pull loop is never the reason for stopping: any
    larger fuel gives the same result -/
theorem fuel_sufficient (pred : Id → Bool) (s : State) (extra : Nat) :
    pullLoop pred (s.script.length + 1 + extra) s = pullLoop pred (s.script.length + 1) s :=
  pullLoop_fuel_ge pred s extra

/-! ### non-vacuity witnesses: a script with a not-ready point, a malformed frame, duplicate ids -/

namespace Ex
def idA : Id := List.replicate 32 1
def idB : Id := List.replicate 32 2
/-- a well-formed frame: 32-byte id, 4 header bytes, 1 payload byte -/
def fr (id : Id) (p : Nat) : Bytes := id ++ [0, 0, 0, 0] ++ [p]
/-- malformed: shorter than the 36-byte header -/
def bad : Bytes := [9, 9, 9]
def script : List Ev :=
  [.msg (fr idB 1), .msg bad, .pending, .msg (fr idB 2), .msg (fr idA 3), .msg (fr idA 4), .closed]
def s0 : State := { buf := [], script := script, asks := [] }
/-- `s0` after a `recv idA` cancelled after one poll (stopped at the `pending`) -/
def s1 : State :=
  { buf := [fr idB 1], asks := [(idA, 7)],
    script := [.msg (fr idB 2), .msg (fr idA 3), .msg (fr idA 4), .closed] }
/-- a state with three buffered frames -/
def s2 : State := { buf := [fr idB 1, fr idA 3, fr idB 2], script := [.msg bad], asks := [] }
def calls : List Call :=
  [.recv idA 7 1, .waitFor [idB] 0, .recv idA 7 1, .next, .waitFor [idA, idB] 3, .next, .next,
   .recv idB 1 2]
end Ex

/-! ### conservation: no loss, no duplication -/

/-- **C17 conservation.**  For every initial state and every call sequence: the run consumes a
    prefix of the script; the frames of that prefix together with the initially buffered frames are,
    as a multiset, exactly the frames handed to the application, the frames dropped, and the frames
    still listed as buffered; every dropped frame is malformed; the sink accepted exactly one ASK
    per `recv` whose feed went through (`asksRun`; with an always-ready sink: one per polled `recv`).
    Sink-side errors and not-ready points change nothing in this balance.  (`List.Perm` = equality of multisets: nothing lost, nothing duplicated.) -/
theorem conservation (s : State) (cs : List Call) :
    s.script = consumedBy s (runCalls s cs).1 ++ (runCalls s cs).1.script ∧
    (msgsOf (consumedBy s (runCalls s cs).1) ++ s.buf).Perm
      (delivered (runCalls s cs).2 ++ droppedRun s cs ++ (runCalls s cs).1.buf) ∧
    (∀ m ∈ droppedRun s cs, decodeHdr? m = none) ∧
    (runCalls s cs).1.asks = s.asks ++ asksRun s cs := by
  induction cs generalizing s with
  | nil => simp [runCalls, consumedBy_self, delivered, droppedRun, msgsOf, asksRun]
  | cons c cs ih =>
    obtain ⟨i1, i2, i3, i4⟩ := ih (call s c).1
    obtain ⟨c1, c2⟩ := call_conserve s c
    rw [runCalls_cons]
    simp only
    have hscript : s.script =
        (consumedBy s (call s c).1 ++ consumedBy (call s c).1 (runCalls (call s c).1 cs).1) ++
          (runCalls (call s c).1 cs).1.script := by
      rw [List.append_assoc, ← i1, ← c1]
    have hc := consumedBy_eq hscript
    refine ⟨by rw [hc]; exact hscript, ?_, ?_, ?_⟩
    · rw [hc, msgsOf_append, delivered_cons, droppedRun, List.perm_iff_count]
      intro a
      have e1 := c2.count_eq a
      have e2 := i2.count_eq a
      simp only [List.count_append] at e1 e2 ⊢
      omega
    · intro m hm
      rw [droppedRun, List.mem_append] at hm
      rcases hm with hm | hm
      · cases c with
        | next => simp [droppedBy] at hm
        | recv id ttl k =>
          simp only [droppedBy, List.mem_filter] at hm
          exact not_wf_iff.mp hm.2
        | waitFor ids k =>
          simp only [droppedBy, List.mem_filter] at hm
          exact not_wf_iff.mp hm.2
      · exact i3 m hm
    · rw [i4, call_asks, asksRun, List.append_assoc]

/-- **C17 exactly once.**  For every well-formed frame `m` (no hypothesis on the initial buffer):
    the number of times it arrived from the underlying relay plus the number of times it was
    buffered initially equals the number of times it was handed to the application plus the number
    of times it is still buffered. -/
theorem exactly_once (s : State) (cs : List Call) (m : Bytes) (hm : decodeHdr? m ≠ none) :
    List.count m (msgsOf (consumedBy s (runCalls s cs).1)) + List.count m s.buf =
      List.count m (delivered (runCalls s cs).2) + List.count m (runCalls s cs).1.buf := by
  obtain ⟨_, hp, hd, _⟩ := conservation s cs
  have h0 : List.count m (droppedRun s cs) = 0 :=
    List.count_eq_zero.mpr (fun hmem => hm (hd m hmem))
  have := hp.count_eq m
  simp only [List.count_append] at this
  omega

/-- the buffer never contains a malformed frame unless one was there initially -/
theorem buffer_wellFormed (s : State) (cs : List Call) (h : ∀ m ∈ s.buf, decodeHdr? m ≠ none) :
    ∀ m ∈ (runCalls s cs).1.buf, decodeHdr? m ≠ none := by
  induction cs generalizing s with
  | nil => exact h
  | cons c cs ih =>
    rw [runCalls_cons]
    apply ih
    intro m hm
    rcases call_buf_mem s c m hm with h' | h'
    · exact h m h'
    · exact Buffered.wf_iff.mp h'

/-- **C17 conservation, the well-formed part.**  If every initially buffered frame is well-formed,
    then the well-formed frames pulled plus the initial buffer are exactly the well-formed frames
    delivered plus the final buffer (all of which are well-formed).  Malformed frames can be
    delivered only by the stream interface, which passes everything through. -/
theorem conservation_wellFormed (s : State) (cs : List Call)
    (h : ∀ m ∈ s.buf, decodeHdr? m ≠ none) :
    ((msgsOf (consumedBy s (runCalls s cs).1)).filter wf ++ s.buf).Perm
      ((delivered (runCalls s cs).2).filter wf ++ (runCalls s cs).1.buf) ∧
    (∀ m ∈ (runCalls s cs).1.buf, decodeHdr? m ≠ none) := by
  obtain ⟨_, hp, hd, _⟩ := conservation s cs
  have hb' := buffer_wellFormed s cs h
  refine ⟨?_, hb'⟩
  have := hp.filter wf
  simp only [List.filter_append] at this
  have e1 : s.buf.filter wf = s.buf :=
    List.filter_eq_self.mpr (fun a ha => Buffered.wf_iff.mpr (h a ha))
  have e2 : (runCalls s cs).1.buf.filter wf = (runCalls s cs).1.buf :=
    List.filter_eq_self.mpr (fun a ha => Buffered.wf_iff.mpr (hb' a ha))
  have e3 : (droppedRun s cs).filter wf = [] := by
    rw [List.filter_eq_nil_iff]
    intro a ha hw
    exact Buffered.wf_iff.mp hw (hd a ha)
  rw [e1, e2, e3, List.append_nil] at this
  exact this

/-- a targeted receive or a predicate wait never hands out a malformed frame -/
theorem got_wellFormed_of_ne_next (s s' : State) (c : Call) (m : Bytes) (hc : c ≠ .next)
    (h : call s c = (s', .got m)) : decodeHdr? m ≠ none := by
  cases c with
  | next => exact absurd rfl hc
  | waitFor ids k =>
    exact Buffered.wf_iff.mp (matches_wf (runWaitFor_got_matches _ k .start s s' m h))
  | recv id ttl k =>
    exact Buffered.wf_iff.mp (matches_wf (runRecv_got_matches id ttl k s s' m h))

/-- **C17 conservation without the stream interface**: with only `recv`/`wait_for` calls and a
    well-formed initial buffer, `wellFormed(pulled) + buffer = delivered + buffer'`. -/
theorem conservation_no_next (s : State) (cs : List Call)
    (h : ∀ m ∈ s.buf, decodeHdr? m ≠ none) (hn : ∀ c ∈ cs, c ≠ Call.next) :
    ((msgsOf (consumedBy s (runCalls s cs).1)).filter wf ++ s.buf).Perm
      (delivered (runCalls s cs).2 ++ (runCalls s cs).1.buf) := by
  have hall : ∀ (s : State) (cs : List Call), (∀ c ∈ cs, c ≠ Call.next) →
      ∀ m ∈ delivered (runCalls s cs).2, wf m = true := by
    intro s cs
    induction cs generalizing s with
    | nil => intro _ m hm; simp [runCalls, delivered] at hm
    | cons c cs ih =>
      intro hn m hm
      rw [runCalls_cons, delivered_cons, List.mem_append] at hm
      rcases hm with hm | hm
      · cases ho : (call s c).2 with
        | got m' =>
          rw [ho] at hm
          simp only [got?, Option.toList_some, List.mem_singleton] at hm
          subst hm
          exact Buffered.wf_iff.mpr
            (got_wellFormed_of_ne_next s (call s c).1 c m (hn c (by simp)) (by rw [← ho]))
        | none_ => rw [ho] at hm; simp [got?] at hm
        | cancelled => rw [ho] at hm; simp [got?] at hm
      · exact ih _ (fun c' hc' => hn c' (by simp [hc'])) m hm
  have := (conservation_wellFormed s cs h).1
  rwa [List.filter_eq_self.mpr (hall s cs hn)] at this

example : (runCalls Ex.s0 Ex.calls).2 =
    [.cancelled, .cancelled, .got (Ex.fr Ex.idA 3), .got (Ex.fr Ex.idB 2), .got (Ex.fr Ex.idB 1),
     .got (Ex.fr Ex.idA 4), .none_, .cancelled] := by decide
example : droppedRun Ex.s0 Ex.calls = [Ex.bad] := by decide
example : (runCalls Ex.s0 Ex.calls).1 =
    { buf := [], script := [], asks := [(Ex.idA, 7), (Ex.idA, 7), (Ex.idB, 1)] } := by decide
/-- the stream interface does pass a malformed frame through (so `delivered` may contain one) -/
example : call { script := [.msg Ex.bad] } .next = ({ script := [] }, .got Ex.bad) := by decide

/-! ### a receive for an id returns only a message carrying that id -/

/-- **C17.**  Whatever `recv(id, ttl)` returns (from the buffer or from the relay, after any
    number of polls) has a parseable header carrying exactly `id`. -/
theorem recv_returns_only_id (s s' : State) (id : Id) (ttl k : Nat) (m : Bytes)
    (h : call s (.recv id ttl k) = (s', .got m)) :
    ∃ hd, decodeHdr? m = some hd ∧ hd.id = id := by
  obtain ⟨hd, h1, h2⟩ := Buffered.matches_iff.mp (runRecv_got_matches id ttl k s s' m h)
  exact ⟨hd, h1, by simpa using h2⟩

/-- whatever `wait_for(|id| ids.contains(id))` returns has a parseable header whose id is in `ids` -/
theorem waitFor_returns_only_matching (s s' : State) (ids : List Id) (k : Nat) (m : Bytes)
    (h : call s (.waitFor ids k) = (s', .got m)) :
    ∃ hd, decodeHdr? m = some hd ∧ hd.id ∈ ids := by
  obtain ⟨hd, h1, h2⟩ := Buffered.matches_iff.mp (runWaitFor_got_matches _ k .start s s' m h)
  exact ⟨hd, h1, by simpa using h2⟩

example : (call Ex.s1 (.recv Ex.idA 7 1)).2 = .got (Ex.fr Ex.idA 3) := by decide
example : (call Ex.s0 (.waitFor [Ex.idA, Ex.idB] 1)).2 = .got (Ex.fr Ex.idB 1) := by decide

/-! ### cancellation loses nothing, and reissuing behaves like an uninterrupted call -/

/-- **C17 cancellation (recv).**  If a `recv(id, ttl)` future is dropped after `k` polls while
    still pending — suspended in `poll_ready` of the feed, in `poll_flush`, or in the pull loop —
    then: with `k = 0` nothing happened at all; otherwise the only changes are the accepted ASK (if
    the feed went through), the consumed sink / `start_send` script prefixes, the consumed script
    prefix, and the buffer, which is the old buffer followed by the well-formed frames of the
    consumed prefix in arrival order.  No consumed frame carries `id` (and, if the feed went through
    so that the buffer was scanned, no frame buffered before), the prefix does not contain the end of
    the stream, every consumed frame is now buffered or was malformed, and the sink answered no
    error.  If the future was dropped in the feed, nothing but the sink script changed. -/
theorem cancel_is_harmless (s s' : State) (id : Id) (ttl k : Nat)
    (h : call s (.recv id ttl k) = (s', .cancelled)) :
    (k = 0 → s' = s) ∧
    s'.asks = s.asks ++ asksBy s (.recv id ttl k) ∧
    s.script = consumedBy s s' ++ s'.script ∧
    s'.buf = s.buf ++ (msgsOf (consumedBy s s')).filter wf ∧
    (∀ m ∈ msgsOf (consumedBy s s'), ∀ hd, decodeHdr? m = some hd → hd.id ≠ id) ∧
    (feedOk k s.sink s.sends = true → ∀ m ∈ s.buf, ∀ hd, decodeHdr? m = some hd → hd.id ≠ id) ∧
    (∀ e ∈ consumedBy s s', e ≠ Ev.closed) ∧
    (∀ m ∈ msgsOf (consumedBy s s'), m ∈ s'.buf ∨ decodeHdr? m = none) ∧
    (∃ d, s.sink = d ++ s'.sink ∧ ∀ e ∈ d, e ≠ SinkEv.err) ∧
    (feedOk k s.sink s.sends = false →
      s.sink = List.replicate k .pending ++ s'.sink ∧ s' = { s with sink := s'.sink }) := by
  have noMatch : ∀ m : Bytes, matches_ (fun x => x == id) m = false →
      ∀ hd, decodeHdr? m = some hd → hd.id ≠ id := by
    intro m hm hd hdec hid
    have : matches_ (fun x => x == id) m = true :=
      Buffered.matches_iff.mpr ⟨hd, hdec, by simp [hid]⟩
    rw [hm] at this; cases this
  have hasks := call_asks s (.recv id ttl k)
  rw [h] at hasks
  refine ⟨?_, hasks, ?_⟩
  · intro hk
    subst hk
    simp only [call, runRecv, Prod.mk.injEq, and_true] at h
    exact h.symm
  rcases runRecv_cancelled id ttl k s s' h with ⟨hf, hs, hs'⟩ | ⟨hf, p, r, hp, hok, hsend, hw⟩
  · -- dropped in the feed
    have hscr : s'.script = s.script := by rw [hs']
    have hbuf : s'.buf = s.buf := by rw [hs']
    have hc : consumedBy s s' = [] := consumedBy_eq (c := []) (by simp [hscr])
    rw [hc]
    refine ⟨by simp [hscr], by simp [hbuf, msgsOf], by simp [msgsOf], ?_, by simp, by simp [msgsOf],
      ⟨_, hs, ?_⟩, fun _ => ⟨hs, hs'⟩⟩
    · intro hc'; rw [hf] at hc'; cases hc'
    · intro e he; rw [List.eq_of_mem_replicate he]; simp
  · -- the feed went through; dropped inside wait_for
    obtain ⟨hb, ⟨c, h1, h2, h3, h4⟩, _, _, d, hd, hd'⟩ :=
      runWaitFor_start_cancelled _ (k - p) _ s' (by omega) hw
    simp only at hb h1 h4 hd
    have hc : consumedBy s s' = c := consumedBy_eq h1
    rw [hc]
    refine ⟨h1, h4, ?_, ?_, h3, ?_, ?_, ?_⟩
    · intro m hm; exact noMatch m (h2 m hm)
    · intro _ m hm; exact noMatch m (hb m hm)
    · intro m hm
      by_cases hw : wf m = true
      · left; rw [h4, List.mem_append, List.mem_filter]; exact Or.inr ⟨hm, hw⟩
      · right
        have : (!wf m) = true := by simpa using hw
        exact not_wf_iff.mp this
    · rcases hok with hok | ⟨hok, hr⟩
      · refine ⟨List.replicate p .pending ++ [.ok] ++ d, by rw [hok, hd]; simp, ?_⟩
        intro e he
        simp only [List.mem_append, List.mem_singleton] at he
        rcases he with (he | he) | he
        · rw [List.eq_of_mem_replicate he]; simp
        · rw [he]; simp
        · exact hd' e he
      · refine ⟨List.replicate p .pending ++ d, by rw [hok, List.append_assoc, ← hd, hr]; simp, ?_⟩
        intro e he
        simp only [List.mem_append] at he
        rcases he with he | he
        · rw [List.eq_of_mem_replicate he]; simp
        · exact hd' e he
    · intro hc'; rw [hf] at hc'; cases hc'

/-- **C17 reissue (recv), dropped in the feed.**  For every sink script: cancelling a `recv` that
    is still suspended in `poll_ready` (its ASK was not sent) and issuing it again is literally one
    uninterrupted future polled `k + j` times. -/
theorem cancel_reissue_on_feed (s s' : State) (id : Id) (ttl k j : Nat)
    (h : call s (.recv id ttl k) = (s', .cancelled)) (hf : feedOk k s.sink s.sends = false) :
    call s' (.recv id ttl j) = call s (.recv id ttl (k + j)) := by
  rcases runRecv_cancelled id ttl k s s' h with ⟨_, hs, hs'⟩ | ⟨hf', _⟩
  · simp only [call]
    rw [runRecv_feeding, runRecv_feeding id ttl (k + j), hs,
      sinkWait_add_pending j (sinkWait_replicate_pending k s'.sink), hs']
  · rw [hf] at hf'; cases hf'

/-- **C17 reissue (recv).**  Cancelling `recv(id, ttl)` after `k` pending polls — wherever it
    was suspended — and issuing it again (polled `j ≥ 1` times), with a sink that from the
    cancellation point on is ready and does not fail (anything may have happened before), gives the
    same outcome and the same final buffer and remaining script as one uninterrupted future polled
    `k + j` times; the only difference is the second accepted ASK (if the first one was sent). -/
theorem cancel_reissue (s s' : State) (id : Id) (ttl k j : Nat) (hj : 1 ≤ j)
    (h : call s (.recv id ttl k) = (s', .cancelled)) (hsink : s'.sink = []) (hsends : s'.sends = []) :
    (call s' (.recv id ttl j)).2 = (call s (.recv id ttl (k + j))).2 ∧
    (call s' (.recv id ttl j)).1 =
      { (call s (.recv id ttl (k + j))).1 with
        asks := (call s (.recv id ttl (k + j))).1.asks ++ asksBy s (.recv id ttl k) } := by
  by_cases hf : feedOk k s.sink s.sends = true
  · rcases runRecv_cancelled id ttl k s s' h with ⟨hf', _⟩ | ⟨_, p, r, hp, hok, hsend, hw⟩
    · rw [hf] at hf'; cases hf'
    · simp only [call, asksBy, hf, if_true]
      have e2 := runRecv_feed_ok id ttl (k + j) s p r (by omega) hok hsend
      have e3 := runRecv_feed_ok id ttl j s' 0 [] (by omega) (Or.inr ⟨by simp [hsink], rfl⟩)
        (by simp [hsends])
      have hr := runWaitFor_reissue _ (k - p) j _ s' hw (Or.inl hsink)
      have e4 : k + j - p = k - p + j := by omega
      have e5 : ({ s' with sink := [], sends := s'.sends.tail, asks := s'.asks ++ [(id, ttl)] } : State)
          = { s' with asks := s'.asks ++ [(id, ttl)] } := by
        obtain ⟨b, sc, a, si, se⟩ := s'
        simp only at hsink hsends
        subst hsink hsends
        rfl
      have ha := (runWaitFor_asks_sends (fun x => x == id) j .start s').1
      rw [e2, e3, e4, hr, Nat.sub_zero, e5, runWaitFor_asks, ha]
      exact ⟨rfl, rfl⟩
  · have hf' : feedOk k s.sink s.sends = false := by simpa using hf
    rw [cancel_reissue_on_feed s s' id ttl k j h hf']
    simp [asksBy, hf']

/-- with `j = 0` (reissued and dropped unpolled) or `k = 0` (the first future never polled) the
    composition is literally the single call -/
theorem cancel_reissue_zero (s s' : State) (id : Id) (ttl k : Nat)
    (h : call s (.recv id ttl k) = (s', .cancelled)) :
    call s' (.recv id ttl 0) = call s (.recv id ttl (k + 0)) ∧
    (k = 0 → ∀ j, call s' (.recv id ttl j) = call s (.recv id ttl (k + j))) := by
  refine ⟨by rw [Nat.add_zero, h]; rfl, ?_⟩
  intro hk j
  subst hk
  simp only [call, runRecv, Prod.mk.injEq, and_true] at h
  subst h
  simp

/-- **C17 cancellation (wait_for).** -/
theorem cancel_is_harmless_waitFor (s s' : State) (ids : List Id) (k : Nat)
    (h : call s (.waitFor ids k) = (s', .cancelled)) :
    (k = 0 → s' = s) ∧
    s'.asks = s.asks ∧ s'.sends = s.sends ∧
    s.script = consumedBy s s' ++ s'.script ∧
    s'.buf = s.buf ++ (msgsOf (consumedBy s s')).filter wf ∧
    (∀ m ∈ msgsOf (consumedBy s s'), ∀ hd, decodeHdr? m = some hd → hd.id ∉ ids) ∧
    (1 ≤ k → ∀ m ∈ s.buf, ∀ hd, decodeHdr? m = some hd → hd.id ∉ ids) ∧
    (∀ e ∈ consumedBy s s', e ≠ Ev.closed) ∧
    (∀ m ∈ msgsOf (consumedBy s s'), m ∈ s'.buf ∨ decodeHdr? m = none) ∧
    (∃ d, s.sink = d ++ s'.sink ∧ ∀ e ∈ d, e ≠ SinkEv.err) := by
  have noMatch : ∀ m : Bytes, matches_ (fun x => ids.contains x) m = false →
      ∀ hd, decodeHdr? m = some hd → hd.id ∉ ids := by
    intro m hm hd hdec hid
    have : matches_ (fun x => ids.contains x) m = true :=
      Buffered.matches_iff.mpr ⟨hd, hdec, by simpa using hid⟩
    rw [hm] at this; cases this
  cases k with
  | zero =>
    simp only [call, runWaitFor, Prod.mk.injEq, and_true] at h
    subst h
    simp [consumedBy_self, msgsOf]
  | succ k =>
    obtain ⟨hb, ⟨c, h1, h2, h3, h4⟩, h5, h6, h7⟩ := runWaitFor_start_cancelled _ _ _ s' (by omega) h
    have hc : consumedBy s s' = c := consumedBy_eq h1
    rw [hc]
    refine ⟨by omega, h5, h6, h1, h4, ?_, ?_, h3, ?_, h7⟩
    · intro m hm; exact noMatch m (h2 m hm)
    · intro _ m hm; exact noMatch m (hb m hm)
    · intro m hm
      by_cases hw : wf m = true
      · left; rw [h4, List.mem_append, List.mem_filter]; exact Or.inr ⟨hm, hw⟩
      · right
        have : (!wf m) = true := by simpa using hw
        exact not_wf_iff.mp this

/-- **C17 reissue (wait_for).**  For every cancellation point `k` and every `j`: cancelling after
    `k` polls and reissuing for `j` polls is exactly one future polled `k + j` times, provided the
    sink is ready and does not fail from the cancellation point on, OR the future was dropped while
    suspended in the flush (all `k` polls answered `Pending` by the sink; any sink script after). -/
theorem cancel_reissue_waitFor (s s' : State) (ids : List Id) (k j : Nat)
    (h : call s (.waitFor ids k) = (s', .cancelled))
    (hs : s'.sink = [] ∨ s.sink = List.replicate k .pending ++ s'.sink) :
    call s' (.waitFor ids j) = call s (.waitFor ids (k + j)) :=
  (runWaitFor_reissue _ k j s s' h hs).symm

/-- **C17 reissue (wait_for), any sink.**  After a cancelled `wait_for` that was polled at least
    once, the buffer scan of the reissued call finds nothing (nothing that matches was parked in
    the meantime): it goes straight to a NEW flush of the sink and then on pulling. -/
theorem cancel_reissue_waitFor_any_sink (s s' : State) (ids : List Id) (k j : Nat) (hk : 1 ≤ k)
    (h : call s (.waitFor ids k) = (s', .cancelled)) :
    call s' (.waitFor ids j) = runWaitFor (fun x => ids.contains x) j .flushing s' :=
  runWaitFor_reissue_scan _ k j s s' hk h

example : call Ex.s0 (.recv Ex.idA 7 1) = (Ex.s1, .cancelled) := by decide
example : call Ex.s0 (.recv Ex.idA 7 0) = (Ex.s0, .cancelled) := by decide
example : consumedBy Ex.s0 Ex.s1 = [.msg (Ex.fr Ex.idB 1), .msg Ex.bad, .pending] := by decide
example : call Ex.s1 (.recv Ex.idA 7 1) =
    ({ buf := [Ex.fr Ex.idB 1, Ex.fr Ex.idB 2], script := [.msg (Ex.fr Ex.idA 4), .closed],
       asks := [(Ex.idA, 7), (Ex.idA, 7)] }, .got (Ex.fr Ex.idA 3)) := by decide
example : call Ex.s0 (.recv Ex.idA 7 2) =
    ({ buf := [Ex.fr Ex.idB 1, Ex.fr Ex.idB 2], script := [.msg (Ex.fr Ex.idA 4), .closed],
       asks := [(Ex.idA, 7)] }, .got (Ex.fr Ex.idA 3)) := by decide
example : (call Ex.s0 (.waitFor [Ex.idA] 1)).2 = .cancelled := by decide
/-- dropped in the feed after two polls; the reissue goes through -/
example : call { Ex.s2 with sink := [.pending, .pending, .pending, .ok] } (.recv Ex.idA 7 2) =
    ({ Ex.s2 with sink := [.pending, .ok] }, .cancelled) := by decide
example : call { Ex.s2 with sink := [.pending, .ok] } (.recv Ex.idA 7 2) =
    ({ Ex.s2 with buf := [Ex.fr Ex.idB 1, Ex.fr Ex.idB 2], asks := [(Ex.idA, 7)], sink := [] },
     .got (Ex.fr Ex.idA 3)) := by decide
/-- dropped in the flush (no buffered frame matches, the sink is not ready) -/
example : call { Ex.s1 with buf := [Ex.fr Ex.idB 1], sink := [.ok, .pending, .pending] }
      (.recv Ex.idA 7 2) =
    ({ Ex.s1 with buf := [Ex.fr Ex.idB 1], sink := [], asks := [(Ex.idA, 7), (Ex.idA, 7)] },
     .cancelled) := by decide

/-! ### errors and not-ready points of the sink lose nothing -/

/-- **C17 flush error (wait_for).**  No buffered frame matches and the flush fails (after `p < k`
    polls answered `Pending`): `wait_for` returns `None`; buffer, unread frames, asks are untouched. -/
theorem flush_error_loses_nothing (s : State) (ids : List Id) (k p : Nat) (r : List SinkEv)
    (hmiss : ∀ m ∈ s.buf, matches_ (fun x => ids.contains x) m = false) (hp : p < k)
    (hs : s.sink = List.replicate p .pending ++ .err :: r) :
    call s (.waitFor ids k) = ({ s with sink := r }, .none_) := by
  simp only [call]
  rw [runWaitFor_start_miss _ k s hmiss]
  exact runWaitFor_flushing_err _ k s p r hp hs

/-- **C17 cancellation in the flush (wait_for).**  No buffered frame matches and all `k` polls are
    answered `Pending` by `poll_flush`; the future is dropped there: nothing but the sink script
    changed. -/
theorem flush_pending_cancel_loses_nothing (s : State) (ids : List Id) (k : Nat) (r : List SinkEv)
    (hmiss : ∀ m ∈ s.buf, matches_ (fun x => ids.contains x) m = false)
    (hs : s.sink = List.replicate k .pending ++ r) :
    call s (.waitFor ids k) = ({ s with sink := r }, .cancelled) := by
  simp only [call]
  rw [runWaitFor_start_miss _ k s hmiss]
  exact runWaitFor_flushing_pending _ k s r hs

/-- **C17 `poll_ready` error (recv).**  Whatever is buffered: the feed fails in `poll_ready`,
    `recv` returns `None`, nothing but the sink script changed (the ASK was not sent, the buffer
    was not even scanned). -/
theorem recv_ready_error_loses_nothing (s : State) (id : Id) (ttl k p : Nat) (r : List SinkEv)
    (hp : p < k) (hs : s.sink = List.replicate p .pending ++ .err :: r) :
    call s (.recv id ttl k) = ({ s with sink := r }, .none_) :=
  runRecv_feed_err id ttl k s p r hp hs

/-- **C17 cancellation in `poll_ready` (recv).** -/
theorem recv_ready_pending_cancel_loses_nothing (s : State) (id : Id) (ttl k : Nat) (r : List SinkEv)
    (hs : s.sink = List.replicate k .pending ++ r) :
    call s (.recv id ttl k) = ({ s with sink := r }, .cancelled) :=
  runRecv_feed_pending id ttl k s r hs

/-- **C17 `start_send` error (recv).** -/
theorem recv_send_error_loses_nothing (s : State) (id : Id) (ttl k p : Nat) (r : List SinkEv)
    (t : List Bool) (hp : p < k) (hs : OkAfter p s.sink r) (hsend : s.sends = false :: t) :
    call s (.recv id ttl k) = ({ s with sink := r, sends := t }, .none_) :=
  runRecv_feed_send_err id ttl k s p r hp hs t hsend

/-- **C17 flush error (recv).**  The feed goes through (after `p` not-ready polls), no buffered
    frame carries `id`, and the flush fails (after `q` more not-ready polls, `p + q < k`): `recv`
    returns `None`; the ASK is recorded, buffer and unread frames are untouched. -/
theorem recv_flush_error_loses_nothing (s : State) (id : Id) (ttl k p q : Nat) (r r' : List SinkEv)
    (hmiss : ∀ m ∈ s.buf, matches_ (fun x => x == id) m = false) (hpq : p + q < k)
    (hs : OkAfter p s.sink r) (hsend : s.sends.head?.getD true = true)
    (hr : r = List.replicate q .pending ++ .err :: r') :
    call s (.recv id ttl k) =
      ({ s with sink := r', sends := s.sends.tail, asks := s.asks ++ [(id, ttl)] }, .none_) := by
  simp only [call]
  rw [runRecv_feed_ok id ttl k s p r (by omega) hs hsend,
    runWaitFor_start_miss _ (k - p) { s with sink := r, sends := s.sends.tail, asks := s.asks ++ [(id, ttl)] } hmiss]
  exact runWaitFor_flushing_err _ (k - p) _ q r' (by omega) hr

/-- **C17 cancellation in the flush (recv).** -/
theorem recv_flush_pending_cancel_loses_nothing (s : State) (id : Id) (ttl k p : Nat)
    (r r' : List SinkEv) (hmiss : ∀ m ∈ s.buf, matches_ (fun x => x == id) m = false) (hp : p < k)
    (hs : OkAfter p s.sink r) (hsend : s.sends.head?.getD true = true)
    (hr : r = List.replicate (k - p) .pending ++ r') :
    call s (.recv id ttl k) =
      ({ s with sink := r', sends := s.sends.tail, asks := s.asks ++ [(id, ttl)] }, .cancelled) := by
  simp only [call]
  rw [runRecv_feed_ok id ttl k s p r hp hs hsend,
    runWaitFor_start_miss _ (k - p) { s with sink := r, sends := s.sends.tail, asks := s.asks ++ [(id, ttl)] } hmiss]
  exact runWaitFor_flushing_pending _ (k - p) _ r' hr

/-- **C17: every `None`.**  Whenever a call returns `None`, either the underlying stream ended (the
    consumed script prefix ends with the end-of-stream event and every frame read before it is
    buffered or was malformed), or the sink failed (`poll_ready` / `poll_flush` answered `Err`, or
    `start_send` did) and then NEITHER THE BUFFER NOR THE UNREAD FRAMES CHANGED: nothing is lost. -/
theorem none_loses_nothing (s s' : State) (c : Call) (h : call s c = (s', .none_)) :
    (∃ c0, consumedBy s s' = c0 ++ [Ev.closed] ∧ s.script = consumedBy s s' ++ s'.script ∧
      s'.buf = s.buf ++ (msgsOf c0).filter wf) ∨
    (s'.buf = s.buf ∧ s'.script = s.script ∧
      ((∃ d, s.sink = d ++ SinkEv.err :: s'.sink) ∨ s.sends = false :: s'.sends)) := by
  cases c with
  | waitFor ids k =>
    rcases runWaitFor_start_none _ k s s' h with ⟨c0, h1, h2⟩ | ⟨h1, h2, h3⟩
    · exact Or.inl ⟨c0, consumedBy_eq h1, by rw [consumedBy_eq h1]; exact h1, h2⟩
    · exact Or.inr ⟨h1, h2, Or.inl h3⟩
  | recv id ttl k =>
    simp only [call] at h
    rcases runRecv_feeding_cases id ttl k s with
      ⟨r, _, _, e⟩ | ⟨p, r, _, hs, _, e⟩ | ⟨p, r, _, hs, ⟨hh, _, e⟩ | ⟨_, _, e⟩⟩
    · rw [e] at h; simp at h
    · rw [e] at h
      simp only [Prod.mk.injEq, and_true] at h
      subst h
      exact Or.inr ⟨rfl, rfl, Or.inl ⟨_, hs⟩⟩
    · rw [e] at h
      simp only [Prod.mk.injEq, and_true] at h
      subst h
      refine Or.inr ⟨rfl, rfl, Or.inr ?_⟩
      simp only
      cases hsd : s.sends with
      | nil => rw [hsd] at hh; simp at hh
      | cons b t => rw [hsd] at hh; simp at hh; rw [hh]; rfl
    · rw [e] at h
      rcases runWaitFor_start_none _ _ _ s' h with ⟨c0, h1, h2⟩ | ⟨h1, h2, d, h3⟩
      · simp only at h1 h2
        exact Or.inl ⟨c0, consumedBy_eq h1, by rw [consumedBy_eq h1]; exact h1, h2⟩
      · simp only at h1 h2 h3
        refine Or.inr ⟨h1, h2, Or.inl ?_⟩
        rcases hs with hs | ⟨hs, hr⟩
        · exact ⟨List.replicate p .pending ++ [.ok] ++ d, by rw [hs, h3]; simp⟩
        · rw [hr] at h3
          have := congrArg List.length h3
          simp at this
  | next =>
    obtain ⟨buf, script, asks, sink, sends⟩ := s
    simp only [call, pollNext] at h
    cases hl : buf.getLast? with
    | some m => rw [hl] at h; simp at h
    | none =>
      rw [hl] at h
      have hb : buf = [] := List.getLast?_eq_none_iff.mp hl
      subst hb
      cases script with
      | nil => simp [pollUnder] at h
      | cons e rest =>
        cases e with
        | msg b => simp [pollUnder] at h
        | pending => simp [pollUnder] at h
        | closed =>
          simp only [pollUnder, Prod.mk.injEq, and_true] at h
          subst h
          have hc : consumedBy ⟨[], Ev.closed :: rest, asks, sink, sends⟩ ⟨[], rest, asks, sink, sends⟩
              = [Ev.closed] := consumedBy_eq (c := [Ev.closed]) rfl
          exact Or.inl ⟨[], by rw [hc]; rfl, by rw [hc]; rfl, by simp [msgsOf]⟩

/-- without a failing sink, `None` means the underlying stream ended -/
theorem none_only_if_closed_or_sink_error (s s' : State) (c : Call) (h : call s c = (s', .none_))
    (hsink : SinkEv.err ∉ s.sink) (hsends : false ∉ s.sends) : Ev.closed ∈ consumedBy s s' := by
  rcases none_loses_nothing s s' c h with ⟨c0, h1, _, _⟩ | ⟨_, _, ⟨d, h3⟩ | h3⟩
  · rw [h1]; simp
  · exact absurd (by rw [h3]; simp) hsink
  · exact absurd (by rw [h3]; simp) hsends

/-- **C17: every cancellation that read nothing.**  A call that is dropped while pending without
    having read anything from the underlying stream — in particular one suspended in `poll_ready`
    or `poll_flush` — leaves the buffer exactly as it was. -/
theorem cancel_without_reading_changes_nothing (s s' : State) (c : Call)
    (h : call s c = (s', .cancelled)) (hscr : s'.script = s.script) : s'.buf = s.buf := by
  have hc : consumedBy s s' = [] := consumedBy_eq (c := []) (by simp [hscr])
  cases c with
  | recv id ttl k =>
    have := (cancel_is_harmless s s' id ttl k h).2.2.2.1
    rw [hc] at this
    simpa [msgsOf] using this
  | waitFor ids k =>
    have := (cancel_is_harmless_waitFor s s' ids k h).2.2.2.2.1
    rw [hc] at this
    simpa [msgsOf] using this
  | next =>
    obtain ⟨buf, script, asks, sink, sends⟩ := s
    simp only [call, pollNext] at h
    cases hl : buf.getLast? with
    | some m => rw [hl] at h; simp at h
    | none =>
      rw [hl] at h
      cases script with
      | nil => simp only [pollUnder, Prod.mk.injEq, and_true] at h; rw [← h]
      | cons e rest =>
        cases e with
        | msg b => simp [pollUnder] at h
        | closed => simp [pollUnder] at h
        | pending => simp only [pollUnder, Prod.mk.injEq, and_true] at h; rw [← h]

/-- the witness of the seeded defect "take the buffered frame out before awaiting the flush": here
    the frame `fr idB 1` is buffered, the flush fails, and it is STILL buffered afterwards -/
example : call { Ex.s2 with buf := [Ex.fr Ex.idB 1], sink := [.err] } (.waitFor [Ex.idA] 3) =
    ({ Ex.s2 with buf := [Ex.fr Ex.idB 1], sink := [] }, .none_) := by decide
/-- a buffered match is returned without touching the sink at all, even when the sink would fail -/
example : call { Ex.s2 with sink := [.err], sends := [false] } (.waitFor [Ex.idB] 1) =
    ({ Ex.s2 with buf := [Ex.fr Ex.idB 2, Ex.fr Ex.idA 3], sink := [.err], sends := [false] },
     .got (Ex.fr Ex.idB 1)) := by decide
example : call { Ex.s2 with sink := [.pending, .err] } (.recv Ex.idA 7 2) =
    ({ Ex.s2 with sink := [] }, .none_) := by decide
example : call { Ex.s2 with sends := [false, true] } (.recv Ex.idA 7 1) =
    ({ Ex.s2 with sends := [true] }, .none_) := by decide
example : call { Ex.s1 with buf := [Ex.fr Ex.idB 1], sink := [.pending, .ok, .pending, .err, .ok] }
      (.recv Ex.idA 7 9) =
    ({ Ex.s1 with buf := [Ex.fr Ex.idB 1], sink := [.ok], asks := [(Ex.idA, 7), (Ex.idA, 7)] },
     .none_) := by decide
example : feedOk 2 [.pending, .ok] [] = true ∧ feedOk 1 [.pending, .ok] [] = false ∧
    feedOk 1 [] [false] = false ∧ feedOk 1 [.err] [] = false := by decide

/-! ### buffered frames first -/

/-- **C17 buffered-first (wait_for).**  If buffered frame `i` is the first one matching the
    predicate, a polled `wait_for` returns it at once, removes it by `swap_remove(i)` and touches
    neither the script nor the sink (no flush, whatever the sink would answer) nor anything else. -/
theorem buffered_first (s : State) (ids : List Id) (k i : Nat) (hi : i < s.buf.length)
    (hm : matches_ (fun x => ids.contains x) s.buf[i] = true)
    (hfirst : ∀ j (hj : j < i), matches_ (fun x => ids.contains x) (s.buf[j]'(by omega)) = false) :
    call s (.waitFor ids (k + 1)) = ({ s with buf := swapRemove s.buf i }, .got s.buf[i]) :=
  runWaitFor_start_hit _ k s i hi (findIdx_zero_some.mpr ⟨hi, hm, hfirst⟩)

/-- **C17 buffered-first (recv)**: the same, once the feed of the ASK went through (after `p`
    not-ready polls of `poll_ready`, `p ≤ k`); the flush is never awaited. -/
theorem buffered_first_recv (s : State) (id : Id) (ttl k i p : Nat) (r : List SinkEv)
    (hi : i < s.buf.length)
    (hm : matches_ (fun x => x == id) s.buf[i] = true)
    (hfirst : ∀ j (hj : j < i), matches_ (fun x => x == id) (s.buf[j]'(by omega)) = false)
    (hp : p ≤ k) (hs : OkAfter p s.sink r) (hsend : s.sends.head?.getD true = true) :
    call s (.recv id ttl (k + 1)) =
      ({ s with buf := swapRemove s.buf i, asks := s.asks ++ [(id, ttl)], sink := r,
                sends := s.sends.tail }, .got s.buf[i]) := by
  simp only [call]
  rw [runRecv_feed_ok id ttl (k + 1) s p r (by omega) hs hsend]
  obtain ⟨k', hk'⟩ : ∃ k', k + 1 - p = k' + 1 := ⟨k - p, by omega⟩
  rw [hk']
  exact runWaitFor_start_hit _ k' { s with sink := r, sends := s.sends.tail, asks := s.asks ++ [(id, ttl)] } i hi
    (findIdx_zero_some.mpr ⟨hi, hm, hfirst⟩)

/-- the always-ready sink: `p = 0`, nothing scripted -/
theorem buffered_first_recv_ready_sink (s : State) (id : Id) (ttl k i : Nat) (hi : i < s.buf.length)
    (hm : matches_ (fun x => x == id) s.buf[i] = true)
    (hfirst : ∀ j (hj : j < i), matches_ (fun x => x == id) (s.buf[j]'(by omega)) = false)
    (h1 : s.sink = []) (h2 : s.sends = []) :
    call s (.recv id ttl (k + 1)) =
      ({ s with buf := swapRemove s.buf i, asks := s.asks ++ [(id, ttl)] }, .got s.buf[i]) := by
  rw [buffered_first_recv s id ttl k i 0 [] hi hm hfirst (by omega) (Or.inr ⟨by simp [h1], rfl⟩)
    (by simp [h2])]
  obtain ⟨b, sc, a, si, se⟩ := s
  simp only at h1 h2
  subst h1 h2
  rfl

/-- whenever some buffered frame matches there is a first one, so the theorems above apply -/
theorem buffered_first_exists (pred : Id → Bool) (buf : List Bytes)
    (h : ∃ m ∈ buf, matches_ pred m = true) :
    ∃ i, ∃ hi : i < buf.length, matches_ pred buf[i] = true ∧
      ∀ j (hj : j < i), matches_ pred (buf[j]'(by omega)) = false := by
  cases hf : findIdx pred buf 0 with
  | none =>
    obtain ⟨m, hm, hmm⟩ := h
    have := findIdx_eq_none.mp hf m hm
    rw [hmm] at this; cases this
  | some i => exact ⟨i, findIdx_zero_some.mp hf⟩

/-- in that case the result is a buffered frame and the script is untouched, for any poll count ≥ 1 -/
theorem buffered_first_script_untouched (s : State) (ids : List Id) (k : Nat)
    (h : ∃ m ∈ s.buf, matches_ (fun x => ids.contains x) m = true) :
    (call s (.waitFor ids (k + 1))).1.script = s.script ∧
    ∃ m ∈ s.buf, (call s (.waitFor ids (k + 1))).2 = .got m := by
  obtain ⟨i, hi, hm, hfirst⟩ := buffered_first_exists _ _ h
  rw [buffered_first s ids k i hi hm hfirst]
  exact ⟨rfl, s.buf[i], List.getElem_mem hi, rfl⟩

example : call Ex.s2 (.waitFor [Ex.idB] 1) =
    ({ Ex.s2 with buf := [Ex.fr Ex.idB 2, Ex.fr Ex.idA 3] }, .got (Ex.fr Ex.idB 1)) := by decide
example : call Ex.s2 (.recv Ex.idA 7 3) =
    ({ Ex.s2 with buf := [Ex.fr Ex.idB 1, Ex.fr Ex.idB 2], asks := [(Ex.idA, 7)] },
     .got (Ex.fr Ex.idA 3)) := by decide

/-! ### the stream interface -/

/-- **C17 next-order.**  `poll_next` of the wrapper returns the LAST buffered frame (`Vec::pop`)
    when the buffer is non-empty and touches nothing else; with an empty buffer it is exactly one
    `poll_next` of the underlying relay. -/
theorem next_order (s : State) :
    (∀ m, s.buf.getLast? = some m →
      call s .next = ({ s with buf := s.buf.dropLast }, .got m)) ∧
    (s.buf = [] →
      call s .next =
        match s.script with
        | [] => (s, .cancelled)
        | .msg b :: rest => ({ s with script := rest }, .got b)
        | .pending :: rest => ({ s with script := rest }, .cancelled)
        | .closed :: rest => ({ s with script := rest }, .none_)) := by
  obtain ⟨buf, script, asks⟩ := s
  constructor
  · intro m hm
    simp only [call, pollNext, hm]
  · intro hb
    simp only at hb
    subst hb
    simp only [call, pollNext, List.getLast?_nil]
    cases script with
    | nil => rfl
    | cons e rest => cases e <;> rfl

example : call Ex.s2 .next = ({ Ex.s2 with buf := [Ex.fr Ex.idB 1, Ex.fr Ex.idA 3] },
    .got (Ex.fr Ex.idB 2)) := by decide
example : call Ex.s0 .next = ({ Ex.s0 with script := Ex.script.tail }, .got (Ex.fr Ex.idB 1)) := by
  decide
example : call { script := [.pending, .closed] } .next = ({ script := [.closed] }, .cancelled) := by
  decide

end SlVerif.C17
