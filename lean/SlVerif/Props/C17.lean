import SlVerif.Proofs.Buffered
/-
  C17 — "Through the buffering relay wrapper, every well-formed message produced by the underlying
  relay is handed to the application exactly once (by a targeted receive, a predicate wait or the
  stream interface) or is still listed as buffered; a receive for an id returns only a message
  carrying that id.  This holds for every arrival order, every placement of not-ready points, and
  when a pending receive is cancelled and reissued."

  Model: SlVerif/Model/Buffered.lean — `BufferedMsgRelay::{wait_for, recv}` and `Stream::poll_next`
  of crates/sl-mpc-mate/src/coord/buffered.rs at the level of `Future::poll`, over an arbitrary
  underlying relay given by the script of results of its `poll_next` (`Ev.msg b` / `Ev.pending` /
  `Ev.closed`).  A call `recv id ttl k` / `waitFor ids k` polls a fresh future up to `k` times and
  drops it if it is still pending (outcome `cancelled`); `k = 0` is "created and dropped".

  Quantification.  Every theorem holds for ALL states (any buffer, any script: any frames, also
  malformed ones shorter than the 36-byte header, any placement of `pending`/`closed`), ALL ids and
  id sets, ALL poll counts (= cancellation points) and, for the run theorems, ALL call sequences.
  Nothing is enumerated.

  Vocabulary (defined in SlVerif/Proofs/Buffered.lean, characterised in the first section):
    `wf m`              the frame has a parseable header
    `matches_ pred m`   (model) parseable header whose id satisfies `pred`
    `msgsOf c`          the frames of a script segment, in order
    `consumedBy s s'`   the script prefix consumed between `s` and `s'`
    `delivered outs`    the frames of the `got` outcomes
    `droppedBy s c`, `droppedRun s cs`   the frames pulled and silently dropped (an explicit
                        function of the run: the malformed frames pulled by `recv`/`wait_for` calls)
    `asksOf cs`         one ASK per `recv` polled at least once
-/
namespace SlVerif.C17
open SlVerif SlVerif.Buffered
open SlVerif.Relay (decodeHdr? Id Hdr)

/-! ### the vocabulary is what it claims to be -/

theorem wf_iff (m : Bytes) : wf m = true ↔ decodeHdr? m ≠ none := Buffered.wf_iff

theorem wf_iff_length (m : Bytes) : wf m = true ↔ 36 ≤ m.length := by
  unfold wf decodeHdr?
  by_cases h : m.length < Relay.MESSAGE_HEADER_SIZE
  · simp only [h, if_true, Option.isSome_none]
    have : Relay.MESSAGE_HEADER_SIZE = 36 := rfl
    constructor
    · intro h'; cases h'
    · intro h'; omega
  · simp only [h, if_false, Option.isSome_some, true_iff]
    have : Relay.MESSAGE_HEADER_SIZE = 36 := rfl
    omega

theorem matches_iff (pred : Id → Bool) (m : Bytes) :
    matches_ pred m = true ↔ ∃ h, decodeHdr? m = some h ∧ pred h.id = true := Buffered.matches_iff

theorem msgsOf_eq (c : List Ev) :
    msgsOf c = c.filterMap (fun e => match e with | .msg b => some b | _ => none) := by
  induction c with
  | nil => rfl
  | cons e r ih => cases e <;> simp [msgsOf, ih]

/-- `consumedBy s s'` is THE prefix `c` with `s.script = c ++ s'.script` -/
theorem consumedBy_unique (s s' : State) (c : List Ev) (h : s.script = c ++ s'.script) :
    consumedBy s s' = c := consumedBy_eq h

theorem delivered_eq (outs : List Outcome) :
    delivered outs = outs.filterMap (fun o => match o with | .got m => some m | _ => none) := by
  induction outs with
  | nil => rfl
  | cons o r ih => cases o <;> simp_all [delivered, List.filterMap_cons, got?]

theorem droppedBy_next (s : State) : droppedBy s .next = [] := rfl
theorem droppedBy_recv (s : State) (id : Id) (ttl k : Nat) :
    droppedBy s (.recv id ttl k) =
      (msgsOf (consumedBy s (call s (.recv id ttl k)).1)).filter (fun m => !wf m) := rfl
theorem droppedBy_waitFor (s : State) (ids : List Id) (k : Nat) :
    droppedBy s (.waitFor ids k) =
      (msgsOf (consumedBy s (call s (.waitFor ids k)).1)).filter (fun m => !wf m) := rfl
theorem droppedRun_nil (s : State) : droppedRun s [] = [] := rfl
theorem droppedRun_cons (s : State) (c : Call) (cs : List Call) :
    droppedRun s (c :: cs) = droppedBy s c ++ droppedRun (call s c).1 cs := rfl

/-- `Vec::swap_remove(i)`: element `i` is handed out, all others are kept (as a multiset, the
    list with index `i` erased) -/
theorem swapRemove_spec (l : List Bytes) (i : Nat) (h : i < l.length) :
    (swapRemove l i).Perm (l.eraseIdx i) ∧ (l[i] :: swapRemove l i).Perm l :=
  ⟨swapRemove_perm_eraseIdx l i h, swapRemove_perm l i h⟩

/-- the fuel `script.length + 1` of the model's pull loop is never the reason for stopping: any
    larger fuel gives the same result -/
theorem fuel_sufficient (pred : Id → Bool) (s : State) (extra : Nat) :
    pullLoop pred (s.script.length + 1 + extra) s = pullLoop pred (s.script.length + 1) s :=
  pullLoop_fuel_ge pred s extra

/-! ### non-vacuity witnesses: a script with a not-ready point, a malformed frame, duplicate ids -/

namespace Ex
def idA : Id := List.replicate 32 1
def idB : Id := List.replicate 32 2
/-- a well-formed frame: 32-byte id, 4 header bytes, 1 payload byte -/
def fr (id : Id) (p : Nat) : Bytes := id ++ [0, 0, 0, 0] ++ [p]
/-- malformed: shorter than the 36-byte header -/
def bad : Bytes := [9, 9, 9]
def script : List Ev :=
  [.msg (fr idB 1), .msg bad, .pending, .msg (fr idB 2), .msg (fr idA 3), .msg (fr idA 4), .closed]
def s0 : State := { buf := [], script := script, asks := [] }
/-- `s0` after a `recv idA` cancelled after one poll (stopped at the `pending`) -/
def s1 : State :=
  { buf := [fr idB 1], asks := [(idA, 7)],
    script := [.msg (fr idB 2), .msg (fr idA 3), .msg (fr idA 4), .closed] }
/-- a state with three buffered frames -/
def s2 : State := { buf := [fr idB 1, fr idA 3, fr idB 2], script := [.msg bad], asks := [] }
def calls : List Call :=
  [.recv idA 7 1, .waitFor [idB] 0, .recv idA 7 1, .next, .waitFor [idA, idB] 3, .next, .next,
   .recv idB 1 2]
end Ex

/-! ### conservation: no loss, no duplication -/

/-- **C17 conservation.**  For every initial state and every call sequence: the run consumes a
    prefix of the script; the frames of that prefix together with the initially buffered frames are,
    as a multiset, exactly the frames handed to the application, the frames dropped, and the frames
    still listed as buffered; every dropped frame is malformed; the sink saw exactly one ASK per
    polled `recv`.  (`List.Perm` = equality of multisets: nothing lost, nothing duplicated.) -/
theorem conservation (s : State) (cs : List Call) :
    s.script = consumedBy s (runCalls s cs).1 ++ (runCalls s cs).1.script ∧
    (msgsOf (consumedBy s (runCalls s cs).1) ++ s.buf).Perm
      (delivered (runCalls s cs).2 ++ droppedRun s cs ++ (runCalls s cs).1.buf) ∧
    (∀ m ∈ droppedRun s cs, decodeHdr? m = none) ∧
    (runCalls s cs).1.asks = s.asks ++ asksOf cs := by
  induction cs generalizing s with
  | nil => simp [runCalls, consumedBy_self, delivered, droppedRun, msgsOf, asksOf]
  | cons c cs ih =>
    obtain ⟨i1, i2, i3, i4⟩ := ih (call s c).1
    obtain ⟨c1, c2⟩ := call_conserve s c
    rw [runCalls_cons]
    simp only
    have hscript : s.script =
        (consumedBy s (call s c).1 ++ consumedBy (call s c).1 (runCalls (call s c).1 cs).1) ++
          (runCalls (call s c).1 cs).1.script := by
      rw [List.append_assoc, ← i1, ← c1]
    have hc := consumedBy_eq hscript
    refine ⟨by rw [hc]; exact hscript, ?_, ?_, ?_⟩
    · rw [hc, msgsOf_append, delivered_cons, droppedRun, List.perm_iff_count]
      intro a
      have e1 := c2.count_eq a
      have e2 := i2.count_eq a
      simp only [List.count_append] at e1 e2 ⊢
      omega
    · intro m hm
      rw [droppedRun, List.mem_append] at hm
      rcases hm with hm | hm
      · cases c with
        | next => simp [droppedBy] at hm
        | recv id ttl k =>
          simp only [droppedBy, List.mem_filter] at hm
          exact not_wf_iff.mp hm.2
        | waitFor ids k =>
          simp only [droppedBy, List.mem_filter] at hm
          exact not_wf_iff.mp hm.2
      · exact i3 m hm
    · rw [i4, call_asks, asksOf_cons c cs, List.append_assoc]

/-- **C17 exactly once.**  For every well-formed frame `m` (no hypothesis on the initial buffer):
    the number of times it arrived from the underlying relay plus the number of times it was
    buffered initially equals the number of times it was handed to the application plus the number
    of times it is still buffered. -/
theorem exactly_once (s : State) (cs : List Call) (m : Bytes) (hm : decodeHdr? m ≠ none) :
    List.count m (msgsOf (consumedBy s (runCalls s cs).1)) + List.count m s.buf =
      List.count m (delivered (runCalls s cs).2) + List.count m (runCalls s cs).1.buf := by
  obtain ⟨_, hp, hd, _⟩ := conservation s cs
  have h0 : List.count m (droppedRun s cs) = 0 :=
    List.count_eq_zero.mpr (fun hmem => hm (hd m hmem))
  have := hp.count_eq m
  simp only [List.count_append] at this
  omega

/-- the buffer never contains a malformed frame unless one was there initially -/
theorem buffer_wellFormed (s : State) (cs : List Call) (h : ∀ m ∈ s.buf, decodeHdr? m ≠ none) :
    ∀ m ∈ (runCalls s cs).1.buf, decodeHdr? m ≠ none := by
  induction cs generalizing s with
  | nil => exact h
  | cons c cs ih =>
    rw [runCalls_cons]
    apply ih
    intro m hm
    rcases call_buf_mem s c m hm with h' | h'
    · exact h m h'
    · exact Buffered.wf_iff.mp h'

/-- **C17 conservation, the well-formed part.**  If every initially buffered frame is well-formed,
    then the well-formed frames pulled plus the initial buffer are exactly the well-formed frames
    delivered plus the final buffer (all of which are well-formed).  Malformed frames can be
    delivered only by the stream interface, which passes everything through. -/
theorem conservation_wellFormed (s : State) (cs : List Call)
    (h : ∀ m ∈ s.buf, decodeHdr? m ≠ none) :
    ((msgsOf (consumedBy s (runCalls s cs).1)).filter wf ++ s.buf).Perm
      ((delivered (runCalls s cs).2).filter wf ++ (runCalls s cs).1.buf) ∧
    (∀ m ∈ (runCalls s cs).1.buf, decodeHdr? m ≠ none) := by
  obtain ⟨_, hp, hd, _⟩ := conservation s cs
  have hb' := buffer_wellFormed s cs h
  refine ⟨?_, hb'⟩
  have := hp.filter wf
  simp only [List.filter_append] at this
  have e1 : s.buf.filter wf = s.buf :=
    List.filter_eq_self.mpr (fun a ha => Buffered.wf_iff.mpr (h a ha))
  have e2 : (runCalls s cs).1.buf.filter wf = (runCalls s cs).1.buf :=
    List.filter_eq_self.mpr (fun a ha => Buffered.wf_iff.mpr (hb' a ha))
  have e3 : (droppedRun s cs).filter wf = [] := by
    rw [List.filter_eq_nil_iff]
    intro a ha hw
    exact Buffered.wf_iff.mp hw (hd a ha)
  rw [e1, e2, e3, List.append_nil] at this
  exact this

/-- a targeted receive or a predicate wait never hands out a malformed frame -/
theorem got_wellFormed_of_ne_next (s s' : State) (c : Call) (m : Bytes) (hc : c ≠ .next)
    (h : call s c = (s', .got m)) : decodeHdr? m ≠ none := by
  cases c with
  | next => exact absurd rfl hc
  | waitFor ids k =>
    exact Buffered.wf_iff.mp (matches_wf (runWaitFor_got_matches _ k s s' m h))
  | recv id ttl k =>
    cases k with
    | zero => simp [call, runRecv] at h
    | succ k =>
      have e : call s (.recv id ttl (k + 1)) = _ := runRecv_start id ttl k s
      rw [e] at h
      exact Buffered.wf_iff.mp (matches_wf (runWaitFor_got_matches _ _ _ s' m h))

/-- **C17 conservation without the stream interface**: with only `recv`/`wait_for` calls and a
    well-formed initial buffer, `wellFormed(pulled) + buffer = delivered + buffer'`. -/
theorem conservation_no_next (s : State) (cs : List Call)
    (h : ∀ m ∈ s.buf, decodeHdr? m ≠ none) (hn : ∀ c ∈ cs, c ≠ Call.next) :
    ((msgsOf (consumedBy s (runCalls s cs).1)).filter wf ++ s.buf).Perm
      (delivered (runCalls s cs).2 ++ (runCalls s cs).1.buf) := by
  have hall : ∀ (s : State) (cs : List Call), (∀ c ∈ cs, c ≠ Call.next) →
      ∀ m ∈ delivered (runCalls s cs).2, wf m = true := by
    intro s cs
    induction cs generalizing s with
    | nil => intro _ m hm; simp [runCalls, delivered] at hm
    | cons c cs ih =>
      intro hn m hm
      rw [runCalls_cons, delivered_cons, List.mem_append] at hm
      rcases hm with hm | hm
      · cases ho : (call s c).2 with
        | got m' =>
          rw [ho] at hm
          simp only [got?, Option.toList_some, List.mem_singleton] at hm
          subst hm
          exact Buffered.wf_iff.mpr
            (got_wellFormed_of_ne_next s (call s c).1 c m (hn c (by simp)) (by rw [← ho]))
        | none_ => rw [ho] at hm; simp [got?] at hm
        | cancelled => rw [ho] at hm; simp [got?] at hm
      · exact ih _ (fun c' hc' => hn c' (by simp [hc'])) m hm
  have := (conservation_wellFormed s cs h).1
  rwa [List.filter_eq_self.mpr (hall s cs hn)] at this

example : (runCalls Ex.s0 Ex.calls).2 =
    [.cancelled, .cancelled, .got (Ex.fr Ex.idA 3), .got (Ex.fr Ex.idB 2), .got (Ex.fr Ex.idB 1),
     .got (Ex.fr Ex.idA 4), .none_, .cancelled] := by decide
example : droppedRun Ex.s0 Ex.calls = [Ex.bad] := by decide
example : (runCalls Ex.s0 Ex.calls).1 =
    { buf := [], script := [], asks := [(Ex.idA, 7), (Ex.idA, 7), (Ex.idB, 1)] } := by decide
/-- the stream interface does pass a malformed frame through (so `delivered` may contain one) -/
example : call { script := [.msg Ex.bad] } .next = ({ script := [] }, .got Ex.bad) := by decide

/-! ### a receive for an id returns only a message carrying that id -/

/-- **C17.**  Whatever `recv(id, ttl)` returns (from the buffer or from the relay, after any
    number of polls) has a parseable header carrying exactly `id`. -/
theorem recv_returns_only_id (s s' : State) (id : Id) (ttl k : Nat) (m : Bytes)
    (h : call s (.recv id ttl k) = (s', .got m)) :
    ∃ hd, decodeHdr? m = some hd ∧ hd.id = id := by
  cases k with
  | zero => simp [call, runRecv] at h
  | succ k =>
    have e : call s (.recv id ttl (k + 1)) = _ := runRecv_start id ttl k s
    rw [e] at h
    obtain ⟨hd, h1, h2⟩ := Buffered.matches_iff.mp (runWaitFor_got_matches _ _ _ s' m h)
    exact ⟨hd, h1, by simpa using h2⟩

/-- whatever `wait_for(|id| ids.contains(id))` returns has a parseable header whose id is in `ids` -/
theorem waitFor_returns_only_matching (s s' : State) (ids : List Id) (k : Nat) (m : Bytes)
    (h : call s (.waitFor ids k) = (s', .got m)) :
    ∃ hd, decodeHdr? m = some hd ∧ hd.id ∈ ids := by
  obtain ⟨hd, h1, h2⟩ := Buffered.matches_iff.mp (runWaitFor_got_matches _ k s s' m h)
  exact ⟨hd, h1, by simpa using h2⟩

example : (call Ex.s1 (.recv Ex.idA 7 1)).2 = .got (Ex.fr Ex.idA 3) := by decide
example : (call Ex.s0 (.waitFor [Ex.idA, Ex.idB] 1)).2 = .got (Ex.fr Ex.idB 1) := by decide

/-! ### cancellation loses nothing, and reissuing behaves like an uninterrupted call -/

/-- **C17 cancellation (recv).**  If a `recv(id, ttl)` future is dropped after `k` polls while
    still pending then: with `k = 0` nothing happened at all; otherwise the only changes are the
    recorded ASK, the consumed script prefix, and the buffer, which is the old buffer followed by
    the well-formed frames of the consumed prefix in arrival order.  No consumed frame (and no
    frame buffered before) carries `id`, the prefix does not contain the end of the stream, and
    every consumed frame is now buffered or was malformed. -/
theorem cancel_is_harmless (s s' : State) (id : Id) (ttl k : Nat)
    (h : call s (.recv id ttl k) = (s', .cancelled)) :
    (k = 0 → s' = s) ∧
    s'.asks = s.asks ++ (if k = 0 then [] else [(id, ttl)]) ∧
    s.script = consumedBy s s' ++ s'.script ∧
    s'.buf = s.buf ++ (msgsOf (consumedBy s s')).filter wf ∧
    (∀ m ∈ msgsOf (consumedBy s s'), ∀ hd, decodeHdr? m = some hd → hd.id ≠ id) ∧
    (1 ≤ k → ∀ m ∈ s.buf, ∀ hd, decodeHdr? m = some hd → hd.id ≠ id) ∧
    (∀ e ∈ consumedBy s s', e ≠ Ev.closed) ∧
    (∀ m ∈ msgsOf (consumedBy s s'), m ∈ s'.buf ∨ decodeHdr? m = none) := by
  have noMatch : ∀ m : Bytes, matches_ (fun x => x == id) m = false →
      ∀ hd, decodeHdr? m = some hd → hd.id ≠ id := by
    intro m hm hd hdec hid
    have : matches_ (fun x => x == id) m = true :=
      Buffered.matches_iff.mpr ⟨hd, hdec, by simp [hid]⟩
    rw [hm] at this; cases this
  cases k with
  | zero =>
    simp only [call, runRecv, Prod.mk.injEq, and_true] at h
    subst h
    simp [consumedBy_self, msgsOf]
  | succ k =>
    have e : call s (.recv id ttl (k + 1)) = _ := runRecv_start id ttl k s
    rw [e] at h
    obtain ⟨hb, c, h1, h2, h3, h4, h5⟩ := runWaitFor_start_cancelled _ _ _ s' (by omega) h
    have hc : consumedBy s s' = c := consumedBy_eq h1
    rw [hc]
    refine ⟨by omega, by simpa using h5, h1, h4, ?_, ?_, h3, ?_⟩
    · intro m hm; exact noMatch m (h2 m hm)
    · intro _ m hm; exact noMatch m (hb m hm)
    · intro m hm
      by_cases hw : wf m = true
      · left; rw [h4, List.mem_append, List.mem_filter]; exact Or.inr ⟨hm, hw⟩
      · right
        have : (!wf m) = true := by simpa using hw
        exact not_wf_iff.mp this

/-- **C17 reissue (recv).**  Cancelling `recv(id, ttl)` after `k ≥ 1` pending polls and issuing it
    again (polled `j ≥ 1` times) gives the same outcome and the same final buffer and remaining
    script as one uninterrupted future polled `k + j` times; the only difference is the second
    recorded ASK. -/
theorem cancel_reissue (s s' : State) (id : Id) (ttl k j : Nat) (hk : 1 ≤ k) (hj : 1 ≤ j)
    (h : call s (.recv id ttl k) = (s', .cancelled)) :
    (call s' (.recv id ttl j)).2 = (call s (.recv id ttl (k + j))).2 ∧
    (call s' (.recv id ttl j)).1 =
      { (call s (.recv id ttl (k + j))).1 with
        asks := (call s (.recv id ttl (k + j))).1.asks ++ [(id, ttl)] } := by
  obtain ⟨k', rfl⟩ : ∃ k', k = k' + 1 := ⟨k - 1, by omega⟩
  obtain ⟨j', rfl⟩ : ∃ j', j = j' + 1 := ⟨j - 1, by omega⟩
  have e1 : call s (.recv id ttl (k' + 1)) = _ := runRecv_start id ttl k' s
  have e2 : call s (.recv id ttl (k' + 1 + (j' + 1))) = _ := runRecv_start id ttl (k' + 1 + j') s
  have e3 : call s' (.recv id ttl (j' + 1)) = _ := runRecv_start id ttl j' s'
  rw [e1] at h
  have hr := runWaitFor_reissue _ (k' + 1) (j' + 1) _ s' h
  have ha := (runWaitFor_start_conserve (fun x => x == id) (j' + 1) s').2.2
  rw [e3, runWaitFor_start_asks, e2]
  have e4 : k' + 1 + j' + 1 = k' + 1 + (j' + 1) := by omega
  rw [e4, hr, ha]
  exact ⟨rfl, rfl⟩

/-- with `j = 0` (reissued and dropped unpolled) or `k = 0` (the first future never polled) the
    composition is literally the single call -/
theorem cancel_reissue_zero (s s' : State) (id : Id) (ttl k : Nat)
    (h : call s (.recv id ttl k) = (s', .cancelled)) :
    call s' (.recv id ttl 0) = call s (.recv id ttl (k + 0)) ∧
    (k = 0 → ∀ j, call s' (.recv id ttl j) = call s (.recv id ttl (k + j))) := by
  refine ⟨by rw [Nat.add_zero, h]; rfl, ?_⟩
  intro hk j
  subst hk
  simp only [call, runRecv, Prod.mk.injEq, and_true] at h
  subst h
  simp

/-- **C17 cancellation (wait_for).** -/
theorem cancel_is_harmless_waitFor (s s' : State) (ids : List Id) (k : Nat)
    (h : call s (.waitFor ids k) = (s', .cancelled)) :
    (k = 0 → s' = s) ∧
    s'.asks = s.asks ∧
    s.script = consumedBy s s' ++ s'.script ∧
    s'.buf = s.buf ++ (msgsOf (consumedBy s s')).filter wf ∧
    (∀ m ∈ msgsOf (consumedBy s s'), ∀ hd, decodeHdr? m = some hd → hd.id ∉ ids) ∧
    (1 ≤ k → ∀ m ∈ s.buf, ∀ hd, decodeHdr? m = some hd → hd.id ∉ ids) ∧
    (∀ e ∈ consumedBy s s', e ≠ Ev.closed) ∧
    (∀ m ∈ msgsOf (consumedBy s s'), m ∈ s'.buf ∨ decodeHdr? m = none) := by
  have noMatch : ∀ m : Bytes, matches_ (fun x => ids.contains x) m = false →
      ∀ hd, decodeHdr? m = some hd → hd.id ∉ ids := by
    intro m hm hd hdec hid
    have : matches_ (fun x => ids.contains x) m = true :=
      Buffered.matches_iff.mpr ⟨hd, hdec, by simpa using hid⟩
    rw [hm] at this; cases this
  cases k with
  | zero =>
    simp only [call, runWaitFor, Prod.mk.injEq, and_true] at h
    subst h
    simp [consumedBy_self, msgsOf]
  | succ k =>
    obtain ⟨hb, c, h1, h2, h3, h4, h5⟩ := runWaitFor_start_cancelled _ _ _ s' (by omega) h
    have hc : consumedBy s s' = c := consumedBy_eq h1
    rw [hc]
    refine ⟨by omega, h5, h1, h4, ?_, ?_, h3, ?_⟩
    · intro m hm; exact noMatch m (h2 m hm)
    · intro _ m hm; exact noMatch m (hb m hm)
    · intro m hm
      by_cases hw : wf m = true
      · left; rw [h4, List.mem_append, List.mem_filter]; exact Or.inr ⟨hm, hw⟩
      · right
        have : (!wf m) = true := by simpa using hw
        exact not_wf_iff.mp this

/-- **C17 reissue (wait_for).**  For every cancellation point `k` and every `j`: cancelling after
    `k` polls and reissuing for `j` polls is exactly one future polled `k + j` times. -/
theorem cancel_reissue_waitFor (s s' : State) (ids : List Id) (k j : Nat)
    (h : call s (.waitFor ids k) = (s', .cancelled)) :
    call s' (.waitFor ids j) = call s (.waitFor ids (k + j)) :=
  (runWaitFor_reissue _ k j s s' h).symm

example : call Ex.s0 (.recv Ex.idA 7 1) = (Ex.s1, .cancelled) := by decide
example : call Ex.s0 (.recv Ex.idA 7 0) = (Ex.s0, .cancelled) := by decide
example : consumedBy Ex.s0 Ex.s1 = [.msg (Ex.fr Ex.idB 1), .msg Ex.bad, .pending] := by decide
example : call Ex.s1 (.recv Ex.idA 7 1) =
    ({ buf := [Ex.fr Ex.idB 1, Ex.fr Ex.idB 2], script := [.msg (Ex.fr Ex.idA 4), .closed],
       asks := [(Ex.idA, 7), (Ex.idA, 7)] }, .got (Ex.fr Ex.idA 3)) := by decide
example : call Ex.s0 (.recv Ex.idA 7 2) =
    ({ buf := [Ex.fr Ex.idB 1, Ex.fr Ex.idB 2], script := [.msg (Ex.fr Ex.idA 4), .closed],
       asks := [(Ex.idA, 7)] }, .got (Ex.fr Ex.idA 3)) := by decide
example : (call Ex.s0 (.waitFor [Ex.idA] 1)).2 = .cancelled := by decide

/-! ### buffered frames first -/

/-- **C17 buffered-first (wait_for).**  If buffered frame `i` is the first one matching the
    predicate, a polled `wait_for` returns it at once, removes it by `swap_remove(i)` and touches
    neither the script nor anything else. -/
theorem buffered_first (s : State) (ids : List Id) (k i : Nat) (hi : i < s.buf.length)
    (hm : matches_ (fun x => ids.contains x) s.buf[i] = true)
    (hfirst : ∀ j (hj : j < i), matches_ (fun x => ids.contains x) (s.buf[j]'(by omega)) = false) :
    call s (.waitFor ids (k + 1)) = ({ s with buf := swapRemove s.buf i }, .got s.buf[i]) :=
  runWaitFor_start_hit _ k s i hi (findIdx_zero_some.mpr ⟨hi, hm, hfirst⟩)

/-- **C17 buffered-first (recv)**: the same, after recording the ASK. -/
theorem buffered_first_recv (s : State) (id : Id) (ttl k i : Nat) (hi : i < s.buf.length)
    (hm : matches_ (fun x => x == id) s.buf[i] = true)
    (hfirst : ∀ j (hj : j < i), matches_ (fun x => x == id) (s.buf[j]'(by omega)) = false) :
    call s (.recv id ttl (k + 1)) =
      ({ s with buf := swapRemove s.buf i, asks := s.asks ++ [(id, ttl)] }, .got s.buf[i]) := by
  have e : call s (.recv id ttl (k + 1)) = _ := runRecv_start id ttl k s
  rw [e]
  exact runWaitFor_start_hit _ k { s with asks := s.asks ++ [(id, ttl)] } i hi
    (findIdx_zero_some.mpr ⟨hi, hm, hfirst⟩)

/-- whenever some buffered frame matches there is a first one, so the theorems above apply -/
theorem buffered_first_exists (pred : Id → Bool) (buf : List Bytes)
    (h : ∃ m ∈ buf, matches_ pred m = true) :
    ∃ i, ∃ hi : i < buf.length, matches_ pred buf[i] = true ∧
      ∀ j (hj : j < i), matches_ pred (buf[j]'(by omega)) = false := by
  cases hf : findIdx pred buf 0 with
  | none =>
    obtain ⟨m, hm, hmm⟩ := h
    have := findIdx_eq_none.mp hf m hm
    rw [hmm] at this; cases this
  | some i => exact ⟨i, findIdx_zero_some.mp hf⟩

/-- in that case the result is a buffered frame and the script is untouched, for any poll count ≥ 1 -/
theorem buffered_first_script_untouched (s : State) (ids : List Id) (k : Nat)
    (h : ∃ m ∈ s.buf, matches_ (fun x => ids.contains x) m = true) :
    (call s (.waitFor ids (k + 1))).1.script = s.script ∧
    ∃ m ∈ s.buf, (call s (.waitFor ids (k + 1))).2 = .got m := by
  obtain ⟨i, hi, hm, hfirst⟩ := buffered_first_exists _ _ h
  rw [buffered_first s ids k i hi hm hfirst]
  exact ⟨rfl, s.buf[i], List.getElem_mem hi, rfl⟩

example : call Ex.s2 (.waitFor [Ex.idB] 1) =
    ({ Ex.s2 with buf := [Ex.fr Ex.idB 2, Ex.fr Ex.idA 3] }, .got (Ex.fr Ex.idB 1)) := by decide
example : call Ex.s2 (.recv Ex.idA 7 3) =
    ({ Ex.s2 with buf := [Ex.fr Ex.idB 1, Ex.fr Ex.idB 2], asks := [(Ex.idA, 7)] },
     .got (Ex.fr Ex.idA 3)) := by decide

/-! ### the stream interface -/

/-- **C17 next-order.**  `poll_next` of the wrapper returns the LAST buffered frame (`Vec::pop`)
    when the buffer is non-empty and touches nothing else; with an empty buffer it is exactly one
    `poll_next` of the underlying relay. -/
theorem next_order (s : State) :
    (∀ m, s.buf.getLast? = some m →
      call s .next = ({ s with buf := s.buf.dropLast }, .got m)) ∧
    (s.buf = [] →
      call s .next =
        match s.script with
        | [] => (s, .cancelled)
        | .msg b :: rest => ({ s with script := rest }, .got b)
        | .pending :: rest => ({ s with script := rest }, .cancelled)
        | .closed :: rest => ({ s with script := rest }, .none_)) := by
  obtain ⟨buf, script, asks⟩ := s
  constructor
  · intro m hm
    simp only [call, pollNext, hm]
  · intro hb
    simp only at hb
    subst hb
    simp only [call, pollNext, List.getLast?_nil]
    cases script with
    | nil => rfl
    | cons e rest => cases e <;> rfl

example : call Ex.s2 .next = ({ Ex.s2 with buf := [Ex.fr Ex.idB 1, Ex.fr Ex.idA 3] },
    .got (Ex.fr Ex.idB 2)) := by decide
example : call Ex.s0 .next = ({ Ex.s0 with script := Ex.script.tail }, .got (Ex.fr Ex.idB 1)) := by
  decide
example : call { script := [.pending, .closed] } .next = ({ script := [.closed] }, .cancelled) := by
  decide

end SlVerif.C17
