import SlVerif.Proofs.SoftSpokenAdv
import SlVerif.Proofs.SoftSpokenSerial
import SlVerif.Proofs.SoftSpokenCount
/-
  C04 — "An honest first-round OT-extension message is always accepted.  A message altered in transit (flipped bits,
  overwritten or swapped fields, splices from another session, seed set or choice vector, without re-deriving the check
  values) makes the sender abort with the 'ban the receiver' error and produce no output.  A receiver that re-derives a
  self-consistent message whose choice vector differs in some seed blocks, compensated under a guess of the sender's
  secret index for each such block, is accepted only when every guess is right (the inherent selective-failure bound),
  and for a guess of zero the sender's outputs are those of the honest message."

  Model: SlVerif/Model/SoftSpoken.lean (`senderProcess` = SoftSpokenOTSender::process, `receiverProcess`,
  the adversary `advReceiver`, the tamper operators), at `m := Id` with an ARBITRARY pure oracle `h` for merlin.

  What is proved for every oracle, and what is a random-oracle fact (named gaps):
    * `honest_accepted`, `accept_iff` (exact acceptance condition for ALL messages), `ban_iff_not_accepted`
      (the only other outcome is the ban error, which carries no output), `t_only_tamper_rejected`,
      `x_only_tamper_rejected` (needs nabla ≠ 0: with all punctured indices 0 the field x is never read by ANY verifier
      of this protocol), `selective_failure` (exact): unconditional.
    * A tamper that changes the matrix U changes the Fiat–Shamir challenges χ = H(sid, U) (merlin).  Whether the 256 check
      equations still hold under the new χ is a statement about the hash: for a random oracle each equation holds with
      probability 2^-128.  `accept_iff` states exactly which equations would have to hold; no theorem can say more for an
      arbitrary `h` (for a constant oracle χ does not depend on U and some U-tampers ARE accepted).  GAP (named):
      "χ = H(U) is unpredictable" — covered on the implementation by the exhaustive single-bit-flip stream.
    * `selective_failure_zero_guess_partial`: needs "a non-zero deviation has a non-zero check value under χ = H(U)"
      (probability 2^-128 of failing for a random oracle) as explicit hypothesis `hχ`.
-/
namespace SlVerif.C04
open SlVerif SlVerif.SoftSpoken SlVerif.Generated

/-- the all-but-one relation between the seed sets, spelled out: `decKeys[i][j] = encKeys[i][j]` for `j ≠ δ_i` -/
abbrev Seeds (rc : List ℕ) (encKeys decKeys : List (List Bytes)) : Prop :=
  ∀ i < LAMBDA_C_DIV_SOFT_SPOKEN_K, ∀ j < SOFT_SPOKEN_Q, j ≠ rc.getD i 0 → keyAt decKeys i j = keyAt encKeys i j

/-- **An honest first-round message is always accepted** — every oracle, session id, choice vector, tape and seed
    sets in the all-but-one relation (consequence of the same identity as C03.main; no assumption on the bytes). -/
theorem honest_accepted (h : Query → Id Bytes) (sid : Bytes) (encKeys decKeys : List (List Bytes)) (rc : List ℕ)
    (choices : Bytes) (tape : Tape) (hseeds : Seeds rc encKeys decKeys) :
    ∃ so, senderProcess (m := Id) h sid rc decKeys
      (receiverProcess (m := Id) h sid encKeys choices tape).1 = .ok so :=
  honest_accept h sid rc encKeys decKeys hseeds choices tape

/-- **Exact characterisation of acceptance, for ALL messages** (any bytes whatsoever, any seeds, any oracle):
    accepted iff every row `i` of the sender's matrix W satisfies
        Σ_j ŵ_i[j]·χ_j ⊕ ŵ_i[M]  =  t_i ⊕ (bit i of nabla)·x,
    with χ derived from the received U, W from the received U and the sender's seeds. -/
theorem accept_iff (h : Query → Id Bytes) (sid : Bytes) (rc : List ℕ) (decKeys : List (List Bytes))
    (msg : Round1Output) :
    (∃ so, senderProcess (m := Id) h sid rc decKeys msg = .ok so) ↔
      ∀ i < LAMBDA_C,
        checkRow (chiAll (m := Id) h sid msg.u)
            ((sendWRows (sendExpand (m := Id) h sid rc decKeys) rc msg.u).getD i 0)
          = msg.t.getD i 0 ^^^ mask ((packedNabla rc).testBit i) msg.x := by
  rw [chiAll_id, sendExpand_id]
  exact senderProcess_ok_iff h sid rc decKeys msg

/-- not accepted = the 'ban the receiver' error; an `Except.error` carries no output -/
theorem ban_iff_not_accepted (h : Query → Id Bytes) (sid : Bytes) (rc : List ℕ) (decKeys : List (List Bytes))
    (msg : Round1Output) :
    senderProcess (m := Id) h sid rc decKeys msg = .error .abortProtocolAndBanReceiver ↔
      ¬ ∃ so, senderProcess (m := Id) h sid rc decKeys msg = .ok so :=
  senderProcess_ban_iff h sid rc decKeys msg

/-- **Tamper of t only** (u and x as in an accepted message — in particular an honest one —, some row of t changed:
    bit flips in t, overwritten / swapped / spliced t rows): always banned.  Unconditional. -/
theorem t_only_tamper_rejected (h : Query → Id Bytes) (sid : Bytes) (rc : List ℕ) (decKeys : List (List Bytes))
    (msg msg' : Round1Output) (hacc : ∃ so, senderProcess (m := Id) h sid rc decKeys msg = .ok so)
    (hu : msg'.u = msg.u) (hx : msg'.x = msg.x)
    (i : ℕ) (hi : i < LAMBDA_C) (hne : msg'.t.getD i 0 ≠ msg.t.getD i 0) :
    senderProcess (m := Id) h sid rc decKeys msg' = .error .abortProtocolAndBanReceiver := by
  rw [ban_iff_not_accepted]
  intro hacc'
  have h1 := (senderProcess_ok_iff h sid rc decKeys msg).mp hacc i hi
  have h2 := (senderProcess_ok_iff h sid rc decKeys msg').mp hacc' i hi
  rw [hu, hx, h1] at h2
  rw [Nat.xor_comm (msg.t.getD i 0), Nat.xor_comm (msg'.t.getD i 0)] at h2
  exact hne (xor_right_inj'.mp h2).symm

/-- **Tamper of x only** (u and t as in an accepted message, x changed): banned whenever nabla ≠ 0
    (with nabla = 0, i.e. all 64 punctured indices ≡ 0, no verifier of this protocol reads x). -/
theorem x_only_tamper_rejected (h : Query → Id Bytes) (sid : Bytes) (rc : List ℕ) (decKeys : List (List Bytes))
    (msg msg' : Round1Output) (hacc : ∃ so, senderProcess (m := Id) h sid rc decKeys msg = .ok so)
    (hu : msg'.u = msg.u) (ht : msg'.t = msg.t) (hne : msg'.x ≠ msg.x) (hnabla : packedNabla rc ≠ 0) :
    senderProcess (m := Id) h sid rc decKeys msg' = .error .abortProtocolAndBanReceiver := by
  rw [ban_iff_not_accepted]
  intro hacc'
  obtain ⟨i, hi, hbit⟩ := packedNabla_ne_zero rc hnabla
  have h1 := (senderProcess_ok_iff h sid rc decKeys msg).mp hacc i hi
  have h2 := (senderProcess_ok_iff h sid rc decKeys msg').mp hacc' i hi
  rw [hu, ht, h1, hbit, mask_true, mask_true] at h2
  exact hne (xor_right_inj'.mp h2).symm

/-- the tamper operators of the model on t and x fall under the two theorems: overwriting row `i` of t … -/
theorem tamperSetT_rejected (h : Query → Id Bytes) (sid : Bytes) (rc : List ℕ) (decKeys : List (List Bytes))
    (msg : Round1Output) (hacc : ∃ so, senderProcess (m := Id) h sid rc decKeys msg = .ok so)
    (i v : ℕ) (hi : i < LAMBDA_C) (hlen : i < msg.t.length) (hne : v ≠ msg.t.getD i 0) :
    senderProcess (m := Id) h sid rc decKeys (tamperSetT msg i v) = .error .abortProtocolAndBanReceiver := by
  apply t_only_tamper_rejected h sid rc decKeys msg (tamperSetT msg i v) hacc rfl rfl i hi
  simp only [tamperSetT]
  rw [List.getD_eq_getElem _ _ (by simpa using hlen)]
  simpa using hne

/-- … and overwriting x -/
theorem tamperSetX_rejected (h : Query → Id Bytes) (sid : Bytes) (rc : List ℕ) (decKeys : List (List Bytes))
    (msg : Round1Output) (hacc : ∃ so, senderProcess (m := Id) h sid rc decKeys msg = .ok so)
    (x : ℕ) (hne : x ≠ msg.x) (hnabla : packedNabla rc ≠ 0) :
    senderProcess (m := Id) h sid rc decKeys (tamperSetX msg x) = .error .abortProtocolAndBanReceiver :=
  x_only_tamper_rejected h sid rc decKeys msg _ hacc rfl rfl hne hnabla

/-- **Selective failure, exact.**  The re-deriving adversarial receiver (choice vector `c ⊕ dev i` in block `i`,
    check values compensated under the guess `guess i` of the punctured index δ_i) is accepted iff for every block the
    deviation has check value 0 under its own challenges χ = H(U_adv) — in particular if it does not deviate there — or
    the guess is right (only the K low bits of δ_i and of the guess are ever read, hence the congruence).
    Every oracle, every deviation, every guess, every honest input. -/
theorem selective_failure (h : Query → Id Bytes) (sid : Bytes) (encKeys decKeys : List (List Bytes)) (rc : List ℕ)
    (choices : Bytes) (tape : Tape) (dev guess : ℕ → ℕ) (hseeds : Seeds rc encKeys decKeys) :
    (∃ so, senderProcess (m := Id) h sid rc decKeys
        (advReceiver (m := Id) h sid encKeys choices tape dev guess) = .ok so) ↔
      ∀ i < LAMBDA_C_DIV_SOFT_SPOKEN_K,
        checkRow (chiAll (m := Id) h sid (advReceiver (m := Id) h sid encKeys choices tape dev guess).u) (dev i) = 0 ∨
          rc.getD i 0 % SOFT_SPOKEN_Q = guess i % SOFT_SPOKEN_Q := by
  rw [chiAll_id, advReceiver_u]
  exact adv_accept_iff h sid rc encKeys decKeys hseeds choices tape dev guess

/-- without deviation the adversary's message is the honest one -/
theorem adv_no_deviation (h : Query → Id Bytes) (sid : Bytes) (encKeys : List (List Bytes)) (choices : Bytes)
    (tape : Tape) (guess : ℕ → ℕ) :
    advReceiver (m := Id) h sid encKeys choices tape (fun _ => 0) guess
      = (receiverProcess (m := Id) h sid encKeys choices tape).1 :=
  advReceiver_zero h sid encKeys choices tape guess

/-
  Full statement: "accepted with all guesses 0 ⇒ the sender's outputs are those of the honest message", every oracle.
  False for oracles under which a non-zero deviation has check value 0 (then the block passes whatever δ_i is and the
  sender's rows of that block do change).  For χ = H(U) a random oracle this has probability 2^-128 per block.
  GAP (named): hypothesis `hχ` — under the adversary's own challenges a deviation with check value 0 is no deviation.
-/
/-- **Selective failure, guess 0 (partial: under `hχ`).**  If the adversary guesses 0 everywhere and is accepted, the
    honest message is accepted with exactly the same sender outputs. -/
theorem selective_failure_zero_guess_partial (h : Query → Id Bytes) (sid : Bytes) (encKeys decKeys : List (List Bytes))
    (rc : List ℕ) (choices : Bytes) (tape : Tape) (dev guess : ℕ → ℕ) (hseeds : Seeds rc encKeys decKeys)
    (hguess : ∀ i < LAMBDA_C_DIV_SOFT_SPOKEN_K, guess i % SOFT_SPOKEN_Q = 0)
    (hχ : ∀ i < LAMBDA_C_DIV_SOFT_SPOKEN_K,
      checkRow (chiAll (m := Id) h sid (advReceiver (m := Id) h sid encKeys choices tape dev guess).u) (dev i) = 0 →
        dev i = 0)
    (so : SenderExtendedOutput)
    (hacc : senderProcess (m := Id) h sid rc decKeys
      (advReceiver (m := Id) h sid encKeys choices tape dev guess) = .ok so) :
    senderProcess (m := Id) h sid rc decKeys (receiverProcess (m := Id) h sid encKeys choices tape).1 = .ok so := by
  have hsel := (selective_failure h sid encKeys decKeys rc choices tape dev guess hseeds).mp ⟨so, hacc⟩
  have hdev : ∀ i < LAMBDA_C_DIV_SOFT_SPOKEN_K, dev i = 0 ∨ rc.getD i 0 % SOFT_SPOKEN_Q = 0 := by
    intro i hi
    rcases hsel i hi with h0 | h0
    · exact Or.inl (hχ i hi h0)
    · exact Or.inr (by rw [h0, hguess i hi])
  have hW := adv_W_eq_honest h sid rc encKeys decKeys hseeds choices tape dev hdev
  obtain ⟨so', hso'⟩ := honest_accepted h sid encKeys decKeys rc choices tape hseeds
  rw [hso']
  rw [← adv_no_deviation h sid encKeys choices tape (fun _ => 0)] at hso'
  rw [senderProcess_id, advReceiver_u] at hacc hso'
  split at hacc
  · split at hso'
    · rw [← Except.ok.inj hacc, ← Except.ok.inj hso', hW]
    · cases hso'
  · cases hacc

/-! ### the check value is a universal hash: exact counting over the challenge space

  `ChiVec = Fin M → Fin (2^128)` is the space GF(2^128)^M of challenge vectors (M = SOFT_SPOKEN_M), `chiList χ` the list
  the model's `checkRow` takes, `BadChi e` the set of χ under which the row (deviation) `e` has check value 0.
  These theorems use that GF(2^128) is a FIELD (C19.P_irreducible, C19.mul_left_cancel). -/

/-- **Universal-hash count.**  Fix a row `e` with some segment `ê_j ≠ 0`, `j < M`.  Among all `2^(128·M)` challenge
    vectors χ exactly `2^(128·(M−1))` satisfy `Σ_j ê_j·χ_j ⊕ ê_M = 0`: a fraction of exactly 2^-128. -/
theorem check_value_zero_count (e : ℕ) (j : Fin SOFT_SPOKEN_M) (hne : seg e j ≠ 0) :
    (BadChi e).card = 2 ^ (128 * (SOFT_SPOKEN_M - 1)) ∧ Fintype.card ChiVec = 2 ^ (128 * SOFT_SPOKEN_M) :=
  ⟨card_checkRow_zero e j hne, card_chiVec⟩

/-- if all segments `ê_j`, `j < M`, vanish, the check value is `ê_M` whatever the challenges are -/
theorem check_value_of_low_segments_zero (chi : List ℕ) (hchi : ∀ j, chi.getD j 0 < 2 ^ 128) (e : ℕ)
    (hz : ∀ j < SOFT_SPOKEN_M, seg e j = 0) : checkRow chi e = seg e SOFT_SPOKEN_M :=
  checkRow_of_low_zero chi hchi e hz

set_option exponentiation.threshold 1024 in
/-- **Density of the bad challenges of a deviation.**  For EVERY non-zero deviation `e` of L_PRIME bits, at most
    `2^(128·(M−1))` of the `2^(128·M)` challenge vectors give it check value 0 (density ≤ 2^-128). -/
theorem bad_chi_density (e : ℕ) (hlt : e < 2 ^ (8 * L_PRIME_BYTES)) (hne : e ≠ 0) :
    (BadChi e).card ≤ 2 ^ (128 * (SOFT_SPOKEN_M - 1)) ∧ Fintype.card ChiVec = 2 ^ (128 * SOFT_SPOKEN_M) :=
  ⟨card_checkRow_zero_le e hlt hne, card_chiVec⟩

/-
  The hypothesis `hχ` of `selective_failure_zero_guess_partial`, restated with the bad sets: the challenge vector the
  adversary's message induces avoids `BadChi (dev i)` for every block where it deviates.  By `bad_chi_density` each of
  these sets has density ≤ 2^-128 in GF(2^128)^M.
  REMAINING GAP (named): "χ = H(sid, U_adv) is a random-oracle output" — i.e. that the merlin challenge derived from
  the adversary's own matrix U_adv is distributed (close to) uniformly and cannot be steered into `BadChi (dev i)`;
  with q oracle queries the adversary's success probability is then ≤ q·2^-128 per deviating block.
-/
/-- **Selective failure, guess 0 (partial: the induced challenge vector avoids the bad sets of the deviations).** -/
theorem selective_failure_zero_guess_counting_partial (h : Query → Id Bytes) (sid : Bytes)
    (encKeys decKeys : List (List Bytes)) (rc : List ℕ) (choices : Bytes) (tape : Tape) (dev guess : ℕ → ℕ)
    (hseeds : Seeds rc encKeys decKeys)
    (hguess : ∀ i < LAMBDA_C_DIV_SOFT_SPOKEN_K, guess i % SOFT_SPOKEN_Q = 0)
    (hgood : ∀ i < LAMBDA_C_DIV_SOFT_SPOKEN_K, dev i ≠ 0 →
      chiVecOf (chiP h sid (advReceiver (m := Id) h sid encKeys choices tape dev guess).u) (chiP_ok h sid _)
        ∉ BadChi (dev i))
    (so : SenderExtendedOutput)
    (hacc : senderProcess (m := Id) h sid rc decKeys
      (advReceiver (m := Id) h sid encKeys choices tape dev guess) = .ok so) :
    senderProcess (m := Id) h sid rc decKeys (receiverProcess (m := Id) h sid encKeys choices tape).1 = .ok so := by
  apply selective_failure_zero_guess_partial h sid encKeys decKeys rc choices tape dev guess hseeds hguess _ so hacc
  intro i hi h0
  by_contra hne
  apply hgood i hi hne
  rw [mem_BadChi_chiVecOf _ _ (by simp [chiP])]
  rw [chiAll_id] at h0
  exact h0

/-- **The driver's structural bit flip is the byte-level bit flip.**  For every well-formed first-round message
    (`Round1Output.WF`: 64 rows of 80 bytes, 16 bytes, 256 rows of 16 bytes — what the Rust type holds) and EVERY bit
    position of its 9232-byte serialization, flipping the bit in the parsed structure (`tamperBitFast`, used by the
    batched `ss flips` verdicts of the exhaustive stream) is `parse ∘ flipBit ∘ serialize` (`tamperBit`). -/
theorem tamperBitFast_eq (msg : Round1Output) (hwf : msg.WF) (pos : ℕ) (hpos : pos < 8 * R1_BYTES) :
    tamperBitFast msg pos = tamperBit msg pos :=
  (tamperBit_eq_fast msg hwf pos hpos).symm

/-! ### non-vacuity -/

/-- acceptance is a real condition: the model's check bans a message whose t row is off (evaluated) … -/
example : checkAll [] [] 0 { u := [], x := 0, t := [1] } = false := by decide

/-- … `Seeds` is satisfiable by distinct key sets (the punctured key differs), and the arithmetic core of the
    selective-failure bound is tight: with a non-zero check value a wrong guess fails, the right guess passes. -/
example : Seeds [0] [[[1]]] [[[0]]] ∧ (mask ((5 : ℕ).testBit 0) 7 ≠ mask ((4 : ℕ).testBit 0) 7)
    ∧ (mask ((5 : ℕ).testBit 2) 7 = mask ((4 : ℕ).testBit 2) 7) := by
  refine ⟨?_, by decide, by decide⟩
  intro i _ j _ hj
  cases i with
  | zero =>
    have hj0 : j ≠ 0 := by simpa using hj
    obtain ⟨j', rfl⟩ := Nat.exists_eq_succ_of_ne_zero hj0
    simp [keyAt]
  | succ i => simp [keyAt]

/-- the hypotheses of `t_only_tamper_rejected` / `x_only_tamper_rejected` are jointly satisfiable: a non-zero nabla
    exists (δ_0 = 1) and has a set bit -/
example : packedNabla [1] ≠ 0 ∧ (packedNabla [1]).testBit 0 = true := by
  have h1 : (packedNabla [1]).testBit 0 = true := by
    rw [packedNabla_testBit]; simp [LAMBDA_C, SOFT_SPOKEN_K]
  exact ⟨fun h0 => by rw [h0] at h1; simp at h1, h1⟩

/-- `Round1Output.WF` is satisfiable (the all-zero message of the right shape), and on a small concrete byte string the
    byte-level flip does flip exactly the addressed bit (bit 9 = byte 1, bit 1) -/
example : (Round1Output.WF { u := List.replicate 64 0, x := 0, t := List.replicate 256 0 })
    ∧ flipBit [0, 0, 0] 9 = [0, 2, 0] := by
  refine ⟨⟨by rw [List.length_replicate]; rfl, ?_, Nat.two_pow_pos _, by rw [List.length_replicate]; rfl, ?_⟩, by decide⟩
  · intro r hr; rw [List.eq_of_mem_replicate hr]; exact Nat.two_pow_pos _
  · intro r hr; rw [List.eq_of_mem_replicate hr]; exact Nat.two_pow_pos _

set_option exponentiation.threshold 1024 in
/-- the counting theorem applies to concrete deviations: for `e = 1` (segment 0 is `1 ≠ 0`) the bad set has exactly
    `2^384` of the `2^512` challenge vectors; and the bad set is not everything: χ = (1,0,0,0) gives check value 1 ≠ 0 -/
example : (BadChi 1).card = 2 ^ 384 ∧ checkRow [1, 0, 0, 0] 1 ≠ 0 := by
  refine ⟨(check_value_zero_count 1 ⟨0, by decide⟩ (by decide)).1, by decide +kernel⟩

end SlVerif.C04
