import SlVerif.Proofs.MathLagrange
import SlVerif.Props.C20
import Mathlib.Algebra.Field.Rat
import Mathlib.Tactic.NormNum
/-
  C13.  For every polynomial f of degree below n over the scalar field and every admissible set of n
  (evaluation point, derivative order) pairs, the produced interpolation coefficients b satisfy
  sum_i b_i * f^(r_i)(x_i) = f(0), reducing to the Lagrange coefficients when all orders are zero, and the same identity
  holds in the exponent for the committed polynomial.  Scalar-side and group-side evaluation and derivative functions
  commute with commitment, and the Feldman check accepts a non-zero share exactly when it equals the committed
  polynomial's value at the party's point.

  Model: `SlVerif.Math` (Model/Math.lean) — `factorialRange` (with the u64 `FACT` table branch for `end < 21` and the
  fold-product branch otherwise), `derivativeAt`, `evaluateAt`, `commit`, `derivativeCoeffs`, `gEvaluateAt`,
  `feldmanVerify`, `coeffMultipliers`, `birkhoffCoeffs` (row 0 of `Mat.inverse` of the multiplier matrix).
  Interpretation: scalars in an arbitrary field `F` through `FieldOps.ofField`; group elements in an arbitrary
  `F`-module `G` with decidable equality through `ModuleOps.ofModule` (the Rust `point * scalar` is `scalar • point`).
  `ofCoeffs l = Σ_i l[i]·X^i` is the Mathlib polynomial with coefficient list `l` (`coeff_ofCoeffs`).
  Every theorem is for every field, every list length (polynomial degree), every point, every derivative order:
  nothing is bounded by 24 or by the table length.
-/
namespace SlVerif.C13
open SlVerif SlVerif.Math SlVerif.Mat Polynomial

variable {F : Type} [Field F] [DecidableEq F]

/-! ### factorials -/

/-- the `FACT` table of the code (computed by the model of `small_factorial`) holds the real factorials
    0!..20!, each of which fits into a u64 -/
theorem fact_table : FACT.length = 21 ∧ (∀ i, i < 21 → FACT.getD i 0 = i.factorial) ∧ ∀ v ∈ FACT, v < 2 ^ 64 :=
  ⟨Math.FACT_length, Math.FACT_eq_factorial, Math.FACT_lt_u64⟩

/-- `factorial_range(s, e) = (s+1)·(s+2)⋯e = e!/s!` in the field, for ALL `s ≤ e`: the table branch (`e < 21`,
    a u64 division of two table entries) and the product branch (`e ≥ 21`) alike. -/
theorem factorialRange_eq (s e : ℕ) (h : s ≤ e) :
    (factorialRange s e : F) = ((e.descFactorial (e - s) : ℕ) : F) :=
  Math.factorialRange_eq s e h

/-- `factorial(n) = n!` -/
theorem factorial_eq (n : ℕ) : (Math.factorial n : F) = ((n.factorial : ℕ) : F) := by
  unfold Math.factorial
  rw [Math.factorialRange_eq 0 n (Nat.zero_le _), Nat.sub_zero, Nat.descFactorial_self]

/-! ### scalar side: evaluation and derivative are those of the polynomial `Σ coeffs[i]·X^i` -/

omit [DecidableEq F] in
theorem coeff_ofCoeffs (l : List F) (k : ℕ) : (ofCoeffs l).coeff k = l.getD k 0 := Math.coeff_ofCoeffs l k

theorem evaluateAt_eq (coeffs : List F) (x : F) : evaluateAt coeffs x = eval x (ofCoeffs coeffs) :=
  Math.evaluateAt_eq coeffs x

/-- every derivative order `n` (also `n ≥ coeffs.length`, where both sides are 0) -/
theorem derivativeAt_eq (coeffs : List F) (n : ℕ) (x : F) :
    derivativeAt coeffs n x = eval x (derivative^[n] (ofCoeffs coeffs)) :=
  Math.derivativeAt_eq coeffs n x

/-! ### commitment commutes with evaluation and derivative -/
section Group
variable {G : Type} [AddCommGroup G] [Module F G] [DecidableEq G]

/-- `commit(f).evaluate_at(x) = f.evaluate_at(x)·g` -/
theorem commit_evaluate (g : G) (coeffs : List F) (x : F) :
    gEvaluateAt (commit g coeffs) x = evaluateAt coeffs x • g :=
  Math.commit_evaluate g coeffs x

/-- `GroupPolynomial::derivative_coeffs(n)` panics (slice `coeffs[n..]`) exactly when `n > len` -/
theorem derivativeCoeffs_defined (gc : List G) (n : ℕ) :
    (n ≤ gc.length → derivativeCoeffs (F := F) gc n = .ok (derivativeCoeffsCore (F := F) gc n)) ∧
    (gc.length < n → ∃ w, derivativeCoeffs (F := F) gc n = .panic w) := by
  unfold derivativeCoeffs
  constructor
  · intro h
    rw [if_neg (Nat.not_lt.mpr h)]
  · intro h
    rw [if_pos h]
    exact ⟨_, rfl⟩

/-- For every order `n ≤ len`: the group-side derivative coefficients of the commitment are the commitments of the
    coefficients of the n-th formal derivative (`derivCoeffs`, whose polynomial is `derivative^[n]`), and evaluating
    them at `x` gives `f^(n)(x)·g`. -/
theorem commit_derivative (g : G) (coeffs : List F) (n : ℕ) (hn : n ≤ coeffs.length) :
    derivativeCoeffs (F := F) (commit g coeffs) n = .ok (commit g (derivCoeffs coeffs n)) ∧
    ofCoeffs (derivCoeffs coeffs n) = derivative^[n] (ofCoeffs coeffs) ∧
    ∀ x : F, gEvaluateAt (commit g (derivCoeffs coeffs n)) x = derivativeAt coeffs n x • g := by
  refine ⟨?_, Math.ofCoeffs_derivCoeffs coeffs n, fun x => ?_⟩
  · rw [(derivativeCoeffs_defined (F := F) (commit g coeffs) n).1 (by rw [Math.commit_length]; exact hn),
      Math.commit_derivativeCore]
  · rw [Math.commit_evaluate, ← Math.derivativeAt_eq_evaluateAt]

end Group

/-! ### Birkhoff interpolation -/

/-- the matrix that `birkhoff_coeffs` inverts (the "Birkhoff matrix" of the admissible-set condition): entry (i, j) is
    the j-th multiplier of the pair `(x_i, r_i)`, i.e. the coefficient of `c_j` in `f^(r_i)(x_i)` for `f = Σ c_j X^j` -/
theorem birkhoffMatrix_entry (params : List (F × ℕ)) (i j : Fin params.length) :
    toMatrix (birkhoffMatrix params) i j =
      if (j : ℕ) < (params[i]).2 then 0
      else (((j : ℕ).descFactorial (params[i]).2 : ℕ) : F) * (params[i]).1 ^ ((j : ℕ) - (params[i]).2) := by
  rw [Mat.toMatrix_apply, Math.get_birkhoffMatrix, Math.multiplier_eq]

/-- `polynomial_coeff_multipliers(x, r, n)` are the coefficients of the functional `f ↦ f^(r)(x)` on polynomials
    with at most n coefficients -/
theorem coeffMultipliers_derivative (x : F) (r n : ℕ) (coeffs : List F) (hlen : coeffs.length ≤ n) :
    (coeffMultipliers x r n).length = n ∧
    derivativeAt coeffs r x = ∑ k ∈ Finset.range n, (coeffMultipliers x r n).getD k 0 * coeffs.getD k 0 := by
  refine ⟨coeffMultipliers_length x r n, ?_⟩
  rw [Math.derivativeAt_eq_sum_multiplier coeffs n hlen]
  apply Finset.sum_congr rfl
  intro k hk
  have hk' : k < n := Finset.mem_range.mp hk
  simp [coeffMultipliers, hk']

/-- `birkhoff_coeffs` returns normally exactly when there is at least one parameter and the multiplier matrix is
    non-singular; otherwise it panics (never a wrong answer, never an `Err`). -/
theorem birkhoff_defined (params : List (F × ℕ)) :
    (params ≠ [] ∧ (toMatrix (birkhoffMatrix params)).det ≠ 0 → ∃ b, birkhoffCoeffs params = .ok b) ∧
    (params = [] ∨ (toMatrix (birkhoffMatrix params)).det = 0 → ∃ w, birkhoffCoeffs params = .panic w) := by
  constructor
  · rintro ⟨hne, hdet⟩
    have h0 : 0 < params.length := List.length_pos_iff.mpr hne
    obtain ⟨B, hB, -, -⟩ := C20.inverse_correct params.length h0 (birkhoffMatrix params) hdet
    exact ⟨_, Math.birkhoffCoeffs_of_inverse params h0 B hB⟩
  · rintro (rfl | hdet)
    · exact ⟨_, rfl⟩
    · by_cases h0 : 0 < params.length
      · obtain ⟨w, hw⟩ := C20.inverse_singular params.length h0 (birkhoffMatrix params) hdet
        refine ⟨w, ?_⟩
        unfold birkhoffCoeffs
        rw [hw]
      · have : params = [] := List.eq_nil_of_length_eq_zero (by omega)
        subst this
        exact ⟨_, rfl⟩

/-- what a normal return of `birkhoffCoeffs` is: row 0 of a two-sided inverse of the multiplier matrix -/
theorem birkhoff_inverse (params : List (F × ℕ)) (b : List F) (hb : birkhoffCoeffs params = .ok b) :
    ∃ (h0 : 0 < params.length) (B : Mat.M F params.length), b = (B[0]'h0).toList ∧
      (toMatrix (birkhoffMatrix params)).det ≠ 0 ∧
      toMatrix B * toMatrix (birkhoffMatrix params) = 1 ∧ toMatrix (birkhoffMatrix params) * toMatrix B = 1 := by
  obtain ⟨h0, B, hB, rfl⟩ := Math.birkhoffCoeffs_ok params b hb
  have hdet : (toMatrix (birkhoffMatrix params)).det ≠ 0 := by
    intro hd
    obtain ⟨w, hw⟩ := C20.inverse_singular params.length h0 (birkhoffMatrix params) hd
    rw [hw] at hB
    cases hB
  obtain ⟨B', hB', hBA, hAB⟩ := C20.inverse_correct params.length h0 (birkhoffMatrix params) hdet
  rw [hB] at hB'
  injection hB' with hB'
  subst hB'
  exact ⟨h0, B, rfl, hdet, hBA, hAB⟩

/-- MAIN (scalar side).  Whenever `birkhoff_coeffs(params)` returns `b` (n = `params.length` pairs `(x_i, r_i)`):
    for every polynomial `f` with at most n coefficients (degree < n),  `Σ_i b_i · f^(r_i)(x_i) = f(0)`. -/
theorem birkhoff (params : List (F × ℕ)) (b : List F) (hb : birkhoffCoeffs params = .ok b)
    (coeffs : List F) (hlen : coeffs.length ≤ params.length) :
    b.length = params.length ∧
    (List.zipWith (fun (bi : F) (p : F × ℕ) => bi * derivativeAt coeffs p.2 p.1) b params).sum = coeffs.getD 0 0 := by
  obtain ⟨h0, B, rfl, -, hBA, -⟩ := birkhoff_inverse params b hb
  exact ⟨by simp, Math.birkhoff_list_scalar params coeffs hlen h0 B hBA⟩

/-- the same with `f^(r)(x)` and `f(0)` written with Mathlib's `Polynomial.derivative` / `eval` -/
theorem birkhoff_poly (params : List (F × ℕ)) (b : List F) (hb : birkhoffCoeffs params = .ok b)
    (coeffs : List F) (hlen : coeffs.length ≤ params.length) :
    (List.zipWith (fun (bi : F) (p : F × ℕ) => bi * eval p.1 (derivative^[p.2] (ofCoeffs coeffs))) b params).sum
      = eval 0 (ofCoeffs coeffs) := by
  have h := (birkhoff params b hb coeffs hlen).2
  simp only [Math.derivativeAt_eq] at h
  rw [h, ← Math.evaluateAt_eq, Math.evaluateAt_sum]
  cases coeffs with
  | nil => simp
  | cons a l => simp [Finset.sum_range_succ']

/-- Only hypothesis `det ≠ 0` (and n ≥ 1): the code returns some `b`, and this `b` interpolates `f(0)` for every
    polynomial with at most n coefficients. -/
theorem birkhoff_total (params : List (F × ℕ)) (hne : params ≠ [])
    (hdet : (toMatrix (birkhoffMatrix params)).det ≠ 0) :
    ∃ b, birkhoffCoeffs params = .ok b ∧ b.length = params.length ∧
      ∀ coeffs : List F, coeffs.length ≤ params.length →
        (List.zipWith (fun (bi : F) (p : F × ℕ) => bi * derivativeAt coeffs p.2 p.1) b params).sum
          = coeffs.getD 0 0 := by
  obtain ⟨b, hb⟩ := (birkhoff_defined params).1 ⟨hne, hdet⟩
  exact ⟨b, hb, (birkhoff params b hb [] (Nat.zero_le _)).1, fun coeffs hlen => (birkhoff params b hb coeffs hlen).2⟩

section Group
variable {G : Type} [AddCommGroup G] [Module F G] [DecidableEq G]

/-- MAIN (in the exponent), for ANY group polynomial `gc` with at most n coefficients (committed or not):
    `Σ_i b_i • (gc^(r_i) evaluated at x_i) = gc[0]`, with the group-side `derivative_coeffs` / `evaluate_at`. -/
theorem birkhoff_group (params : List (F × ℕ)) (b : List F) (hb : birkhoffCoeffs params = .ok b)
    (gc : List G) (hlen : gc.length ≤ params.length) :
    (List.zipWith (fun (bi : F) (p : F × ℕ) => bi • gEvaluateAt (derivativeCoeffsCore (F := F) gc p.2) p.1)
      b params).sum = gc.getD 0 0 := by
  obtain ⟨h0, B, rfl, -, hBA, -⟩ := birkhoff_inverse params b hb
  exact Math.birkhoff_list params gc hlen h0 B hBA

/-- … in particular for the commitment of `f`: the combination of the group-side values is `f(0)·g = commit(f)[0]`,
    and each group-side value is the commitment `f^(r_i)(x_i)·g` of the scalar-side value. -/
theorem birkhoff_commit (params : List (F × ℕ)) (b : List F) (hb : birkhoffCoeffs params = .ok b)
    (g : G) (coeffs : List F) (hlen : coeffs.length ≤ params.length) :
    (List.zipWith (fun (bi : F) (p : F × ℕ) =>
        bi • gEvaluateAt (derivativeCoeffsCore (F := F) (commit g coeffs) p.2) p.1) b params).sum
      = coeffs.getD 0 0 • g ∧
    (commit g coeffs).getD 0 0 = coeffs.getD 0 0 • g ∧
    ∀ (r : ℕ) (x : F), gEvaluateAt (derivativeCoeffsCore (F := F) (commit g coeffs) r) x
      = derivativeAt coeffs r x • g := by
  refine ⟨?_, Math.commit_getD g coeffs 0, fun r x => ?_⟩
  · rw [birkhoff_group params b hb (commit g coeffs) (by rw [Math.commit_length]; exact hlen), Math.commit_getD]
  · rw [Math.commit_derivativeCore, Math.commit_evaluate, ← Math.derivativeAt_eq_evaluateAt]

end Group

/-- When all derivative orders are zero and the points are pairwise distinct, `birkhoff_coeffs` returns exactly the
    Lagrange coefficients at 0:  `b_i = Π_{j≠i} x_j / (x_j − x_i)`. -/
theorem lagrange (params : List (F × ℕ)) (hne : params ≠ []) (hr : ∀ p ∈ params, p.2 = 0)
    (hx : (params.map Prod.fst).Nodup) :
    birkhoffCoeffs params = .ok (List.ofFn fun i : Fin params.length =>
      ∏ j ∈ Finset.univ.erase i, (params[j]).1 / ((params[j]).1 - (params[i]).1)) := by
  have hV := Math.toMatrix_birkhoffMatrix_lagrange params hr
  have hinj : Function.Injective fun i : Fin params.length => (params[i]).1 := by
    intro i j hij
    have := (List.nodup_iff_injective_get.mp hx).eq_iff
      (a := ⟨i, by simp⟩) (b := ⟨j, by simp⟩)
    simp only [List.get_eq_getElem, List.getElem_map, Fin.mk.injEq] at this
    exact Fin.ext (this.mp hij)
  have hdet : (toMatrix (birkhoffMatrix params)).det ≠ 0 := by
    rw [hV]
    exact Matrix.det_vandermonde_ne_zero_iff.mpr hinj
  obtain ⟨b, hb⟩ := (birkhoff_defined params).1 ⟨hne, hdet⟩
  obtain ⟨h0, B, rfl, -, -, hAB⟩ := birkhoff_inverse params b hb
  rw [hb]
  congr 1
  apply List.ext_getElem
  · simp
  · intro i h1 h2
    rw [hV] at hAB
    have := Math.vandermonde_inverse_row _ hinj (toMatrix B) hAB ⟨0, h0⟩ rfl ⟨i, by simpa using h1⟩
    simpa [Mat.get] using this

/-- `lagrange`, stated with Mathlib's `Lagrange.basis`: `b_i = L_i(0)` -/
theorem lagrange_basis (params : List (F × ℕ)) (hne : params ≠ []) (hr : ∀ p ∈ params, p.2 = 0)
    (hx : (params.map Prod.fst).Nodup) :
    birkhoffCoeffs params = .ok (List.ofFn fun i : Fin params.length =>
      eval 0 (Lagrange.basis Finset.univ (fun k : Fin params.length => (params[k]).1) i)) := by
  rw [lagrange params hne hr hx]
  congr 2
  funext i
  rw [Math.eval_zero_basis]

/-! ### Feldman verification -/
section Group
variable {G : Type} [AddCommGroup G] [Module F G] [DecidableEq G]

/-- What the code does, for ANY list of points `uik`: it evaluates the group polynomial at `x`, REJECTS when the
    evaluated point is the identity, and otherwise compares it with `share·g`. -/
theorem feldman_general (uik : List G) (x share : F) (g : G) :
    feldmanVerify uik x share g = true ↔ gEvaluateAt uik x ≠ 0 ∧ gEvaluateAt uik x = share • g :=
  Math.feldmanVerify_iff uik x share g

/-- For a commitment `commit g f` w.r.t. a generator `g` without scalar torsion (`a • g = 0 → a = 0`, e.g. a
    generator of a group of prime order q over 𝔽_q): the check accepts `share` iff `f(x) ≠ 0` and `share = f(x)`
    — equivalently iff `share ≠ 0` and `share = f(x)` (`feldman`).  A zero share is always rejected, even when
    `f(x) = 0` indeed. -/
theorem feldman_eval (g : G) (hg : ∀ a : F, a • g = 0 → a = 0) (coeffs : List F) (x share : F) :
    feldmanVerify (commit g coeffs) x share g = true ↔ evaluateAt coeffs x ≠ 0 ∧ share = evaluateAt coeffs x := by
  rw [Math.feldmanVerify_iff, Math.commit_evaluate]
  have hinj : ∀ a b : F, a • g = b • g ↔ a = b := by
    intro a b
    constructor
    · intro h
      have := hg (a - b) (by rw [sub_smul, h, sub_self])
      exact sub_eq_zero.mp this
    · rintro rfl
      rfl
  constructor
  · rintro ⟨h1, h2⟩
    exact ⟨fun h => h1 (by rw [h, zero_smul]), ((hinj _ _).mp h2).symm⟩
  · rintro ⟨h1, h2⟩
    exact ⟨fun h => h1 (hg _ h), by rw [h2]⟩

/-- the property's wording: a NON-ZERO share is accepted exactly when it is the committed polynomial's value at `x` -/
theorem feldman (g : G) (hg : ∀ a : F, a • g = 0 → a = 0) (coeffs : List F) (x share : F) :
    feldmanVerify (commit g coeffs) x share g = true ↔ share ≠ 0 ∧ share = evaluateAt coeffs x := by
  rw [feldman_eval g hg]
  constructor
  · rintro ⟨h1, h2⟩
    exact ⟨h2 ▸ h1, h2⟩
  · rintro ⟨h1, h2⟩
    exact ⟨h2 ▸ h1, h2⟩

end Group

/-! ### non-vacuity -/

/-- both branches of `factorial_range` and the table boundary (20 → 21) -/
example : (factorialRange 18 20 : ℚ) = 380 ∧ (factorialRange 18 22 : ℚ) = 175560 ∧
    (factorialRange 20 21 : ℚ) = 21 ∧ (factorialRange 0 20 : ℚ) = 2432902008176640000 ∧
    (factorialRange 0 21 : ℚ) = 51090942171709440000 := by
  refine ⟨?_, ?_, ?_, ?_, ?_⟩ <;> rw [factorialRange_eq _ _ (by norm_num)] <;> norm_num [Nat.descFactorial]

/-- a degree-24 polynomial (25 coefficients, crossing the table boundary): `(X^24)''' (1) = 24·23·22`,
    and `derivativeAt_eq` applies to it -/
example : derivativeAt (List.replicate 24 (0:ℚ) ++ [1]) 3 1 = 12144 ∧
    derivativeAt (List.replicate 24 (0:ℚ) ++ [1]) 3 1
      = eval 1 (derivative^[3] (ofCoeffs (List.replicate 24 (0:ℚ) ++ [1]))) :=
  ⟨by decide +kernel, derivativeAt_eq _ _ _⟩

/-- a Birkhoff instance with a genuine rank pattern (values at 1 and 2, first derivative at 3): the hypotheses of
    `birkhoff_total` hold, the code returns `[8/3, -5/3, 2/3]`, and `birkhoff` applies to `f = 5 + 7X + 11X²`. -/
example :
    let params : List (ℚ × ℕ) := [(1,0),(2,0),(3,1)]
    params ≠ [] ∧ (toMatrix (birkhoffMatrix params)).det ≠ 0 ∧
    birkhoffCoeffs params = .ok [8/3, -5/3, 2/3] ∧
    (8/3 : ℚ) * derivativeAt [5,7,11] 0 1 + (-5/3) * derivativeAt [5,7,11] 0 2 + 2/3 * derivativeAt [5,7,11] 1 3 = 5 := by
  intro params
  have hd : Mat.determinant 3 (birkhoffMatrix params) = .ok 3 := by decide +kernel
  have hdet : (toMatrix (birkhoffMatrix params)).det = 3 := by
    have := C20.det_correct 3 (birkhoffMatrix params)
    rw [hd] at this
    injection this with this
    exact this.symm
  have hb : birkhoffCoeffs params = .ok [8/3, -5/3, 2/3] := by decide +kernel
  refine ⟨by simp [params], by rw [hdet]; norm_num, hb, ?_⟩
  have := (birkhoff params _ hb [5,7,11] (by simp [params])).2
  simpa [params, add_assoc] using this

/-- repeated point with the same order: singular, the code panics -/
example : birkhoffCoeffs [((1:ℚ),0),(1,0)] = .panic "invert().unwrap() of a zero determinant" := by decide +kernel

/-- hypotheses of `lagrange` are satisfiable; the code returns the Lagrange coefficients `[2, -1]` for points 1, 2 -/
example :
    let params : List (ℚ × ℕ) := [(1,0),(2,0)]
    params ≠ [] ∧ (∀ p ∈ params, p.2 = 0) ∧ (params.map Prod.fst).Nodup ∧
    birkhoffCoeffs params = .ok [2, -1] := by
  intro params
  refine ⟨by simp [params], by simp [params], by simp [params], by decide +kernel⟩

/-- Feldman with `G = ℚ`, `g = 1` (torsion-free generator): the right share is accepted, a wrong share is rejected,
    and a zero share is rejected even though `f(x) = 0` -/
example : (∀ a : ℚ, a • (1:ℚ) = 0 → a = 0) ∧
    feldmanVerify (commit (1:ℚ) [(1:ℚ),2,3]) (2:ℚ) 17 1 = true ∧
    feldmanVerify (commit (1:ℚ) [(1:ℚ),2,3]) (2:ℚ) 18 1 = false ∧
    evaluateAt [(-2:ℚ), 1] 2 = 0 ∧
    feldmanVerify (commit (1:ℚ) [(-2:ℚ),1]) (2:ℚ) 0 1 = false := by
  refine ⟨by simp, by decide +kernel, by decide +kernel, by decide +kernel, by decide +kernel⟩

/-- group-side derivative: the Rust unit test `test_derivative_coeffs` (f = 1+2x+3x²+4x³, n = 2 ↦ [6, 24]),
    and the slice panic for `n > len` -/
example : derivativeCoeffs (F := ℚ) (commit (1:ℚ) [(1:ℚ),2,3,4]) 2 = .ok [6, 24] ∧
    derivativeCoeffs (F := ℚ) (commit (1:ℚ) [(1:ℚ),2,3,4]) 5 = .panic "range start index out of range for slice" :=
  ⟨by decide +kernel, by decide +kernel⟩

end SlVerif.C13
