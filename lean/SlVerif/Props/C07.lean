import SlVerif.Proofs.PaillierModel
import Mathlib.Tactic.NormNum.Prime
/-
  C07 — Paillier encryption / decryption / N-th roots / serialisation / plaintext admission.

  Everything is about the executable model `SlVerif.Paillier` (`SlVerif/Model/Paillier.lean`) of
  `/repo/crates/sl-paillier/src/lib.rs`, for EVERY width `P` and EVERY key in the domain
  `ValidKey P p q` (`p`, `q` distinct odd primes `< 2^P` with `gcd(pq, (p-1)(q-1)) = 1`; this covers both `p < q` and `p > q`).
  Right-hand sides use only `Nat` `+ * ^ %`, i.e. they are independent of the model's own modular arithmetic.
-/
namespace SlVerif.C07
open SlVerif SlVerif.Paillier

/-- the model's square-and-multiply is `b^e mod m` whenever the fuel covers the exponent's bit length -/
theorem powMod_eq (m fuel b e : Nat) (h : e < 2 ^ fuel) : powMod m fuel b e = b ^ e % m :=
  Paillier.powMod_eq m fuel b e h

/-- `encrypt_with_r(m, r) = (1 + mN) r^N mod N²`  (for every `r`, unit or not) -/
theorem enc_spec {P p q : Nat} (hk : ValidKey P p q) {m : Nat} (hm : m < p * q) (r : Nat) :
    encryptWithR P (fromPQ P p q) m r = (1 + m * (p * q)) * r ^ (p * q) % (p * q) ^ 2 := by
  rw [pow_two]; exact enc_eq hk hm r

/-- standard path: `decrypt(encrypt_with_r(m, r)) = m` -/
theorem decrypt_encrypt {P p q : Nat} (hk : ValidKey P p q) {m r : Nat} (hm : m < p * q)
    (hr : Nat.Coprime r (p * q)) :
    decrypt P (fromPQ P p q) (encryptWithR P (fromPQ P p q) m r) = m := by
  rw [decrypt_of_modEq hk hr (enc_modEq hk hm r), Nat.mod_eq_of_lt hm]

/-- CRT path: `decrypt_fast(encrypt_with_r(m, r)) = m`  (no assumption on the order of `p`, `q`) -/
theorem decrypt_fast_encrypt {P p q : Nat} (hk : ValidKey P p q) {m r : Nat} (hm : m < p * q)
    (hr : Nat.Coprime r (p * q)) :
    decryptFast P (fromPQ P p q) (encryptWithR P (fromPQ P p q) m r) = m := by
  rw [decryptFast_of_modEq hk hr (enc_modEq hk hm r), Nat.mod_eq_of_lt hm]

/-- the two decryption paths agree on EVERY ciphertext coprime to `N` (reduced mod `N²` or not) -/
theorem paths_agree {P p q : Nat} (hk : ValidKey P p q) {c : Nat} (hc : Nat.Coprime c (p * q)) :
    decryptFast P (fromPQ P p q) c = decrypt P (fromPQ P p q) c := by
  have hφ : 1 < (p * q).totient := by rw [hk.totient_n]; exact hk.one_lt_phi
  have hcop : Nat.Coprime (p * q) (p * q).totient := by rw [hk.totient_n]; exact hk.cop
  obtain ⟨m, r, hr, hdec⟩ := exists_decomp (p * q) c hk.one_lt_n hφ hcop hc
  rw [decryptFast_of_modEq hk hr hdec, decrypt_of_modEq hk hr hdec]

/-- `extract_n_root(r^N mod N) = r` for every unit `r < N` (init params computed from the key) -/
theorem n_root {P p q : Nat} (hk : ValidKey P p q) {r : Nat} (hlt : r < p * q) (hr : Nat.Coprime r (p * q)) :
    extractNRoot P (fromPQ P p q) (r ^ (p * q) % (p * q)) (extractNRootInitParams P (fromPQ P p q)) = r := by
  rw [extractNRoot_spec hk hr, Nat.mod_eq_of_lt hlt]

/-- a key restored from its serialised (minimal) form is the same key: every field, hence every operation -/
theorem serde_roundtrip (P p q : Nat) : fromMinimal P (toMinimal (fromPQ P p q)) = fromPQ P p q := rfl

/-- a byte string (of ANY length) is admitted as a plaintext exactly when its little-endian value is below `N`,
    and the admitted plaintext is that value -/
theorem message_admission {P p q : Nat} (hk : ValidKey P p q) (bytes : List Nat) (v : Nat) :
    message P (fromPQ P p q) bytes = some v ↔ v = leToNat bytes ∧ leToNat bytes < p * q :=
  message_iff hk bytes v

/-- the harness-side conclusion predicate `specEnc` is the same formula -/
theorem spec_enc_eq (N m r : Nat) : specEnc N m r = (1 + m * N) * r ^ N % N ^ 2 := specEnc_eq N m r

/-! non-vacuity -/

example : ValidKey 8 11 13 where
  pp := by norm_num
  pq := by norm_num
  oddp := by norm_num
  oddq := by norm_num
  ne := by norm_num
  cop := by norm_num
  ltp := by norm_num
  ltq := by norm_num

example : encryptWithR 8 (fromPQ 8 11 13) 42 7 = 19021 ∧ decrypt 8 (fromPQ 8 11 13) 19021 = 42
    ∧ decryptFast 8 (fromPQ 8 11 13) 19021 = 42
    ∧ extractNRoot 8 (fromPQ 8 11 13) (7 ^ 143 % 143) (extractNRootInitParams 8 (fromPQ 8 11 13)) = 7
    ∧ message 8 (fromPQ 8 11 13) [142, 0, 0] = some 142 ∧ message 8 (fromPQ 8 11 13) [143] = none
    ∧ message 8 (fromPQ 8 11 13) [5, 0, 1] = none := by decide

end SlVerif.C07
