import SlVerif.Proofs.Bip32
/-
  C12  "For every root public key, chain code and non-hardened path, the derived extended public key (version, depth,
        parent fingerprint, child number, chain code, key) and its hex and Base58Check serialisations equal those
        defined by BIP32. Each derivation step returns an offset with child = parent + offset*G, so the final key equals
        the root key plus the sum of offsets times G. Hardened components, the point at infinity and paths deeper than
        255 levels are reported as errors, never as panics or as silently wrong serialisations."

  Model: `Model/Bip32.lean` (`deriveChild`, `fingerprint`, `walk`, `deriveXpub(Offsets)`, `serialize`, `toString`,
  native `base58Encode`/`base58Decode`, `base58Check`) at `m := Id` with an ARBITRARY pure oracle `h : Query → Bytes`
  (`deriveXpubP h … = Id.run (deriveXpub (fun q => pure (h q)) …)` etc., `Proofs/Bip32.lean`).  The model is the code as
  REPAIRED for D2/D3: identity root ⇒ `PubkeyPointAtInfinity`, more than 255 components ⇒ `PathTooDeep`, both up front.
  A path is the list of `ChildIndex::to_bits()` values; hardened = bit 31 (`isNormal i = false ↔ 2^31 ≤ i`).

  Assumptions, always written out:
    * none at all for `derive_nil`, `derive_snoc`, `bookkeeping`, `errors_*`, `hardened_not_ok`, `base58_roundtrip`,
      `impl_eq_spec_partial`, `child_never_panics` (every oracle, every byte string);
    * `go : GroupOracle h G` + "the root is a valid encoding" (the type invariant of `ProjectivePoint`) for `additive*`,
      `no_panic`, `hardened_error`, `derive_ok_iff`;
    * additionally `HashLens h` (SHA-256 / HMAC-SHA512 / RIPEMD-160 answers are 32 / 64 / 20 bytes long) and a 32-byte
      root chain code for `serialize_len`, `to_string_no_panic`.
  NOTHING is assumed about the VALUES of the hash functions.

  Deviation from BIP32 (documented, not a finding): `derive_child_pubkey` rejects `parse256(I_L) > n` where BIP32 says
  `≥ n`.  For `I_L = n` the code continues with offset `n mod n = 0`, i.e. child key = parent key.  Exhibiting such an
  input needs an HMAC-SHA512 preimage; `impl_eq_spec_partial` is therefore stated under `IL ≠ secpQ`
  (full statement: `∀ K c i, K ≠ identity33 → toOption (deriveChildP h K c i) = specCKDpub h K c i`, false exactly when
  `IL h K c i = secpQ`, see `il_eq_q_deviation`).
-/
namespace SlVerif.C12
open SlVerif SlVerif.Bip32

/-! ## bookkeeping: the fields of the extended key -/

/-- the master (empty-path) extended key: depth 0, parent fingerprint 0x00000000, child number 0, root key and chain
    code unchanged (BIP32 "Serialization format") -/
theorem derive_nil (h : Query → Bytes) (v : ℕ) {root : Bytes} (cc : Bytes) (hr : root ≠ identity33) :
    deriveXpubP h v root cc [] =
      .ok { version := v, depth := 0, parentFp := [0, 0, 0, 0], childNumber := 0, chainCode := cc, key := root } := by
  exact deriveXpubP_of_walk v hr (by simp) (walkP_nil h _)

/-- BIP32's recursive definition of the child extended key, read off the loop: if deriving `path ++ [i]` succeeds then
    deriving `path` succeeds with some `x₀`, and the result has depth `x₀.depth + 1`, parent fingerprint
    `HASH160(serP(x₀.key))[..4]`, child number `i`, and (key, chain code) = `derive_child_pubkey(x₀.key, x₀.chainCode, i)`. -/
theorem derive_snoc (h : Query → Bytes) (v : ℕ) (root cc : Bytes) (path : List ℕ) (i : ℕ) {x : XPub}
    (e : deriveXpubP h v root cc (path ++ [i]) = .ok x) :
    ∃ x₀ ch, deriveXpubP h v root cc path = .ok x₀ ∧ deriveChildP h x₀.key x₀.chainCode i = .ok ch ∧
      x = { version := v, depth := x₀.depth + 1, parentFp := fp4 h x₀.key, childNumber := i,
            chainCode := ch.chainCode, key := ch.key } := by
  obtain ⟨offs, e1⟩ := deriveXpubP_ok e
  obtain ⟨h1, h2, w, ew, _, hx⟩ := deriveXpubOffsetsP_ok e1
  rw [walkP_snoc] at ew
  obtain ⟨w₀, ew₀, es⟩ := Outcome.bind_eq_ok ew
  obtain ⟨ch, ec, rfl⟩ := stepP_ok es
  have hlen : path.length ≤ 255 := by simp at h2; omega
  refine ⟨_, ch, deriveXpubP_of_walk v h1 hlen ew₀, ec, ?_⟩
  have hi : i < hardenedBit := (isNormal_iff i).1 (deriveChildP_ok ec).1
  rw [hx]
  simp [finalChildNumber, toU32, Nat.mod_eq_of_lt hi]

/-- closed form.  Whenever `derive_xpub` returns `Ok(x)`: the root is not the identity, the path has `n ≤ 255`
    components, all of them normal; `x.version` is the prefix, `x.depth = n`, `x.childNumber` is the last component (0 for
    the empty path), `(x.key, x.chainCode)` is `derive_child_pubkey` iterated along the path, and the parent fingerprint
    is 0 for `n = 0` and otherwise the fingerprint of the depth-(n−1) key (the key reached by the path without its last
    component). -/
theorem bookkeeping (h : Query → Bytes) (v : ℕ) (root cc : Bytes) (path : List ℕ) {x : XPub}
    (e : deriveXpubP h v root cc path = .ok x) :
    root ≠ identity33 ∧ path.length ≤ 255 ∧ (∀ i ∈ path, isNormal i = true) ∧
    x.version = v ∧ x.depth = path.length ∧ x.childNumber = path.getLastD 0 ∧
    ckdIter h (root, cc) path = .ok (x.key, x.chainCode) ∧
    (path = [] → x.parentFp = [0, 0, 0, 0]) ∧
    (∀ init last, path = init ++ [last] →
      ∃ kp cp, ckdIter h (root, cc) init = .ok (kp, cp) ∧ x.parentFp = fp4 h kp) := by
  obtain ⟨offs, e1⟩ := deriveXpubP_ok e
  obtain ⟨h1, h2, w, ew, _, hx⟩ := deriveXpubOffsetsP_ok e1
  subst hx
  obtain ⟨hck, _, hnil⟩ := walkP_ok_ckdIter ew
  have hnorm : ∀ (p : List ℕ) (kc kc' : Bytes × Bytes), ckdIter h kc p = .ok kc' → ∀ i ∈ p, isNormal i = true := by
    intro p
    induction p with
    | nil => intro _ _ _ i hi; simp at hi
    | cons j rest ih =>
      intro kc kc' ek i hi
      rw [ckdIter] at ek
      obtain ⟨ch, e1, e2⟩ := Outcome.bind_eq_ok ek
      rcases List.mem_cons.1 hi with rfl | hi
      · exact (deriveChildP_ok e1).1
      · exact ih _ _ e2 i hi
  have hall := hnorm path _ _ hck
  refine ⟨h1, h2, hall, rfl, rfl, ?_, hck, fun hp => hnil hp, ?_⟩
  · show finalChildNumber path = _
    rw [finalChildNumber, toU32]
    rcases List.eq_nil_or_concat path with hp | ⟨init, last, hp⟩
    · subst hp; rfl
    · subst hp
      have hi : last < hardenedBit := (isNormal_iff last).1 (hall last (by simp))
      simp [Nat.mod_eq_of_lt hi]
  · intro init last hp
    subst hp
    obtain ⟨x₀, ch, e2, _, hx⟩ := derive_snoc h v root cc init last e
    refine ⟨x₀.key, x₀.chainCode, ?_, congrArg XPub.parentFp hx⟩
    obtain ⟨offs', e3⟩ := deriveXpubP_ok e2
    obtain ⟨_, _, w', ew', _, hx'⟩ := deriveXpubOffsetsP_ok e3
    subst hx'
    exact (walkP_ok_ckdIter ew').1

/-! ## additivity -/

section Group
variable {h : Query → Bytes} {G : Type} [AddCommGroup G] [Module Zq G] (go : GroupOracle h G)

/-- every `derive_child_pubkey` step that returns `Ok((offset, child, _))` has `child = parent + offset•G`, with a
    reduced offset and a valid, non-identity child -/
theorem additive_step {parent cc : Bytes} {i : ℕ} {ch : Child} (hp : go.Canon parent)
    (e : deriveChildP h parent cc i = .ok ch) :
    go.dec ch.key = go.dec parent + (ch.offset : Zq) • go.gen ∧ ch.offset < secpQ ∧ go.Canon ch.key ∧
      ch.key ≠ identity33 := by
  obtain ⟨a, b, c, d⟩ := deriveChildP_ok_group go hp e
  exact ⟨d, c, a, b⟩

/-- the final key is the root key plus (Σ offsets)•G, where the offsets are those returned by the `n` steps of the loop -/
theorem additive {v : ℕ} {root cc : Bytes} {path : List ℕ} {x : XPub} {offs : List ℕ} (hr : go.Canon root)
    (e : deriveXpubOffsetsP h v root cc path = .ok (x, offs)) :
    offs.length = path.length ∧ (∀ o ∈ offs, o < secpQ) ∧ go.Canon x.key ∧ x.key ≠ identity33 ∧
      go.dec x.key = go.dec root + offSum offs • go.gen := by
  obtain ⟨h1, _, w, ew, ho, hx⟩ := deriveXpubOffsetsP_ok e
  subst ho hx
  obtain ⟨_, hl, _⟩ := walkP_ok_ckdIter ew
  have g := (walkP_good go path (Good.init go hr h1 cc)).2 w ew
  exact ⟨by simpa using hl, g.lt, g.canon, g.ne, g.add⟩

/-- the sum the driver prints (`foldl (· + ·) mod q`) is the sum in `Zq` -/
theorem offSum_foldl (offs : List ℕ) :
    ((offs.foldl (fun a o => (a + o) % secpQ) 0 : ℕ) : Zq) = offSum offs := by
  have : ∀ (l : List ℕ) (a : ℕ), ((l.foldl (fun a o => (a + o) % secpQ) a : ℕ) : Zq) = (a : Zq) + offSum l := by
    intro l
    induction l with
    | nil => intro a; simp [offSum]
    | cons o rest ih =>
      intro a
      rw [List.foldl_cons, ih, natCast_mod_secpQ]
      simp [offSum, add_assoc]
  simpa using this offs 0

/-! ## errors, never panics -/

/-- the loop and both early exits never reach a Rust `expect`: for a valid root encoding `derive_xpub` returns `Ok` or
    `Err`, whatever the chain code, prefix and path (any length, any components) -/
theorem no_panic (v : ℕ) {root : Bytes} (cc : Bytes) (path : List ℕ) (hr : go.Canon root) (m : String) :
    deriveXpubP h v root cc path ≠ .panic m := by
  rw [deriveXpubP_eq, deriveXpubOffsetsP_eq]
  split_ifs with h1 h2
  · simp
  · simp
  · intro hm
    cases hw : walkP h (initWalk root cc) path with
    | ok w => rw [hw] at hm; simp at hm
    | err _ => rw [hw] at hm; simp at hm
    | panic m' => exact (walkP_good go path (Good.init go hr h1 cc)).1 m' hw

/-- a hardened component anywhere in the path ⇒ `Err` (for a valid root encoding) -/
theorem hardened_error (v : ℕ) {root : Bytes} (cc : Bytes) {path : List ℕ} (hr : go.Canon root)
    (hh : ∃ i ∈ path, isNormal i = false) : ∃ e, deriveXpubP h v root cc path = .err e := by
  cases hd : deriveXpubP h v root cc path with
  | err e => exact ⟨e, rfl⟩
  | panic m => exact absurd hd (no_panic go v cc path hr m)
  | ok x =>
    obtain ⟨i, hi, hn⟩ := hh
    have := (bookkeeping h v root cc path hd).2.2.1 i hi
    rw [hn] at this; cases this

/-- …and when everything before the first hardened component derives, the error is `HardenedChildNotSupported` -/
theorem hardened_error_name (v : ℕ) {root : Bytes} (cc : Bytes) {pre post : List ℕ} {i : ℕ} {x₀ : XPub}
    (hr : go.Canon root) (hlen : (pre ++ i :: post).length ≤ 255) (hpre : deriveXpubP h v root cc pre = .ok x₀)
    (hi : isNormal i = false) :
    deriveXpubP h v root cc (pre ++ i :: post) = .err .hardenedChildNotSupported := by
  obtain ⟨h1, _, _⟩ := bookkeeping h v root cc pre hpre
  obtain ⟨offs, e1⟩ := deriveXpubP_ok hpre
  obtain ⟨_, _, w, ew, _, _⟩ := deriveXpubOffsetsP_ok e1
  have g := (walkP_good go pre (Good.init go hr h1 cc)).2 w ew
  rw [deriveXpubP_eq, deriveXpubOffsetsP_eq, if_neg h1, if_neg (by omega), walkP_append, ew]
  simp only [Outcome.bind_ok]
  rw [walkP_cons, (stepP_good go g i).2.2, deriveChildP_eq, if_pos hi]
  rfl

/-- `derive_xpub` returns `Ok` EXACTLY when the root is not the identity, the path has at most 255 components and the
    iterated `derive_child_pubkey` succeeds (so the function is not vacuously "always an error") -/
theorem derive_ok_iff (v : ℕ) {root : Bytes} (cc : Bytes) (path : List ℕ) (hr : go.Canon root) :
    (∃ x, deriveXpubP h v root cc path = .ok x) ↔
      root ≠ identity33 ∧ path.length ≤ 255 ∧ ∃ kc, ckdIter h (root, cc) path = .ok kc := by
  constructor
  · rintro ⟨x, e⟩
    obtain ⟨a, b, _, _, _, _, c, _⟩ := bookkeeping h v root cc path e
    exact ⟨a, b, _, c⟩
  · rintro ⟨a, b, kc, c⟩
    obtain ⟨w, ew⟩ := walkP_ok_of_ckdIter go path (Good.init go hr a cc) c
    exact ⟨_, deriveXpubP_of_walk v a b ew⟩

end Group

/-- the point at infinity as root ⇒ `Err(PubkeyPointAtInfinity)`: every oracle, chain code, prefix and path (D3 repaired) -/
theorem errors_identity_root (h : Query → Bytes) (v : ℕ) (cc : Bytes) (path : List ℕ) :
    deriveXpubP h v identity33 cc path = .err .pubkeyPointAtInfinity := by
  rw [deriveXpubP_eq, deriveXpubOffsetsP_eq, if_pos rfl]; rfl

/-- more than 255 components ⇒ `Err`; `PathTooDeep` unless the root is the identity (D2 repaired) -/
theorem errors_too_deep (h : Query → Bytes) (v : ℕ) (root cc : Bytes) {path : List ℕ} (hl : 255 < path.length) :
    (∃ e, deriveXpubP h v root cc path = .err e) ∧
      (root ≠ identity33 → deriveXpubP h v root cc path = .err .pathTooDeep) := by
  rw [deriveXpubP_eq, deriveXpubOffsetsP_eq]
  by_cases h1 : root = identity33
  · rw [if_pos h1]; exact ⟨⟨_, rfl⟩, fun hn => absurd h1 hn⟩
  · rw [if_neg h1, if_pos hl]; exact ⟨⟨_, rfl⟩, fun _ => rfl⟩

/-- a hardened component is never accepted: no oracle, root, chain code makes `derive_xpub` return `Ok` on such a path -/
theorem hardened_not_ok (h : Query → Bytes) (v : ℕ) (root cc : Bytes) {path : List ℕ}
    (hh : ∃ i ∈ path, isNormal i = false) (x : XPub) : deriveXpubP h v root cc path ≠ .ok x := by
  intro e
  obtain ⟨i, hi, hn⟩ := hh
  have := (bookkeeping h v root cc path e).2.2.1 i hi
  rw [hn] at this; cases this

/-- `derive_child_pubkey` has no panic path: hardened index ⇒ `Err(HardenedChildNotSupported)`, otherwise `Ok`/`Err` -/
theorem child_never_panics (h : Query → Bytes) (parent cc : Bytes) (i : ℕ) :
    (∀ m, deriveChildP h parent cc i ≠ .panic m) ∧
      (isNormal i = false → deriveChildP h parent cc i = .err .hardenedChildNotSupported) :=
  ⟨deriveChildP_ne_panic h parent cc i, fun hi => by rw [deriveChildP_eq, if_pos hi]⟩

/-! ## serialisation -/

/-- value of a byte string that `natToBe` produced -/
theorem beToNat_natToBe_of_lt {len n : ℕ} (hn : n < 256 ^ len) : beToNat (natToBe len n) = n := by
  rw [beToNat_natToBe, Nat.mod_eq_of_lt hn]

section Ser
variable {h : Query → Bytes} {G : Type} [AddCommGroup G] [Module Zq G] (go : GroupOracle h G)

/-- For every `Ok(x)` of `derive_xpub` (valid root, 32-byte chain code): the serialisation is exactly 78 bytes,
    laid out version(4) ‖ depth(1) ‖ parent fingerprint(4) ‖ child number(4, big-endian) ‖ chain code(32) ‖ key(33),
    and the version / depth / child-number bytes decode back to the prefix (if it is a u32), to the path length (this is
    where a wrapped `u8` would be "silently wrong") and to the last component. -/
theorem serialize_len (hl : HashLens h) {v : ℕ} {root cc : Bytes} {path : List ℕ} {x : XPub} (hr : go.Canon root)
    (hcc : cc.length = 32) (e : deriveXpubP h v root cc path = .ok x) :
    (serialize x).length = 78 ∧
    serialize x = natToBe 4 x.version ++ natToBe 1 x.depth ++ x.parentFp ++ natToBe 4 x.childNumber ++ x.chainCode ++ x.key ∧
    (natToBe 4 x.version).length = 4 ∧ (natToBe 1 x.depth).length = 1 ∧ x.parentFp.length = 4 ∧
    (natToBe 4 x.childNumber).length = 4 ∧ x.chainCode.length = 32 ∧ x.key.length = 33 ∧
    (v < 2 ^ 32 → beToNat (natToBe 4 x.version) = v) ∧ beToNat (natToBe 1 x.depth) = path.length ∧
    beToNat (natToBe 4 x.childNumber) = path.getLastD 0 := by
  obtain ⟨h1, hlen, hall, hv, hd, hc, _, _, _⟩ := bookkeeping h v root cc path e
  obtain ⟨offs, e1⟩ := deriveXpubP_ok e
  obtain ⟨_, _, hcan, hne, _⟩ := C12.additive go hr e1
  obtain ⟨_, _, w, ew, _, hx⟩ := deriveXpubOffsetsP_ok e1
  subst hx
  obtain ⟨l1, l2⟩ := walkP_lens hl path ew hcc rfl
  have hkey : sec1 w.key = w.key := (sec1_of_canon go hcan hne).1
  have hk33 : w.key.length = 33 := go.canon_length hcan
  have hser : serialize ⟨v, path.length, w.parentFp, finalChildNumber path, w.chainCode, w.key⟩ =
      natToBe 4 v ++ natToBe 1 path.length ++ w.parentFp ++ natToBe 4 (finalChildNumber path) ++ w.chainCode ++ w.key := by
    rw [serialize_eq]; simp only; rw [hkey]
  have hlast : path.getLastD 0 < 2 ^ 31 := by
    rcases List.eq_nil_or_concat path with hp | ⟨init, last, hp⟩
    · subst hp; simp
    · subst hp
      have := (isNormal_iff last).1 (hall last (by simp))
      rw [hardenedBit_eq] at this
      simpa using this
  have hcn : finalChildNumber path = path.getLastD 0 := hc
  have p4 : (256 : ℕ) ^ 4 = 4294967296 := by norm_num
  refine ⟨?_, hser, natToBe_length _ _, natToBe_length _ _, l2, natToBe_length _ _, l1, hk33, ?_, ?_, ?_⟩
  · rw [hser]; simp only [List.length_append, natToBe_length, l1, l2, hk33]
  · intro hv; exact beToNat_natToBe_of_lt hv
  · exact beToNat_natToBe_of_lt (by simp only [pow_one]; omega)
  · show beToNat (natToBe 4 (finalChildNumber path)) = _
    rw [hcn]; exact beToNat_natToBe_of_lt (by omega)

/-- `to_string` on a key returned by `derive_xpub` never hits its `expect`: hex = 156 lower-case hex digits of the 78
    bytes, Base58Check = native Base58 of the 78 bytes followed by the first 4 bytes of SHA256(SHA256(78 bytes)) -/
theorem to_string_no_panic (hl : HashLens h) {v : ℕ} {root cc : Bytes} {path : List ℕ} {x : XPub} (hr : go.Canon root)
    (hcc : cc.length = 32) (e : deriveXpubP h v root cc path = .ok x) :
    toStringP h x false = .ok (bytesToHex (serialize x)) ∧
    toStringP h x true = .ok (String.ofList (base58Encode
      (serialize x ++ (h (.sha256 (h (.sha256 (serialize x))))).take 4))) := by
  have h78 := (serialize_len go hl hr hcc e).1
  have hne : ¬ ((serialize x).length ≠ 78) := by rw [h78]; simp
  constructor
  · rw [toStringP_eq, if_neg hne]; simp
  · rw [toStringP_eq, if_neg hne, base58CheckP_eq]; simp

end Ser

/-- the native Base58 decoder inverts the native encoder on EVERY byte string (any length, any number of leading
    zero bytes); in particular the Base58Check string determines the 78-byte serialisation and its checksum -/
theorem base58_roundtrip (bs : Bytes) (hb : ∀ b ∈ bs, b < 256) : base58Decode (base58Encode bs) = some bs :=
  base58Decode_encode bs hb

/-- hence the encoder is injective on byte strings -/
theorem base58_injective {a b : Bytes} (ha : ∀ x ∈ a, x < 256) (hb : ∀ x ∈ b, x < 256)
    (e : base58Encode a = base58Encode b) : a = b := by
  have := base58_roundtrip a ha
  rw [e, base58_roundtrip b hb] at this
  exact (Option.some.inj this).symm

/-! ## equality with the declarative CKDpub -/

/-- BIP32 `CKDpub((K_par, c_par), i) → (K_i, c_i)` for a parent key that is not the point at infinity (`serP(K_par)` = its
    33-byte encoding): failure for hardened `i`; `I = HMAC-SHA512(c_par, serP(K_par) ‖ ser32(i))`;
    `K_i = point(parse256(I_L)) + K_par`, `c_i = I_R`; invalid if `parse256(I_L) ≥ n` or `K_i` is the point at infinity. -/
def specCKDpub (h : Query → Bytes) (K c : Bytes) (i : ℕ) : Option (Bytes × Bytes) :=
  if 2 ^ 31 ≤ i then none
  else
    let I := h (.hmacSha512 c (K ++ natToBe 4 i))
    let il := beToNat (I.take 32)
    let Ki := h (.ecAdd .secp256k1 (h (.ecMulGen .secp256k1 il)) K)
    if secpQ ≤ il ∨ Ki = identity33 then none else some (Ki, I.drop 32)

def toKeyCc : Outcome Child → Option (Bytes × Bytes)
  | .ok ch => some (ch.key, ch.chainCode)
  | _ => none

theorem specCKDpub_eq (h : Query → Bytes) {K : Bytes} (c : Bytes) (i : ℕ) (hK : K ≠ identity33) :
    specCKDpub h K c i =
      if 2 ^ 31 ≤ i then none
      else if secpQ ≤ IL h K c i ∨ h (.ecAdd .secp256k1 (h (.ecMulGen .secp256k1 (IL h K c i))) K) = identity33 then none
      else some (h (.ecAdd .secp256k1 (h (.ecMulGen .secp256k1 (IL h K c i))) K), IR h K c i) := by
  have hs : sec1 K = K := by rw [sec1, if_neg hK]
  unfold specCKDpub IL IR hmacI; rw [hs]

/-- `derive_child_pubkey` = `CKDpub` whenever `parse256(I_L) ≠ n`, and then the returned offset is `parse256(I_L)`.
    (Full statement without the hypothesis `IL ≠ secpQ` is false for an oracle with `IL = secpQ`: `il_eq_q_deviation`.) -/
theorem impl_eq_spec_partial (h : Query → Bytes) {K : Bytes} (c : Bytes) (i : ℕ) (hK : K ≠ identity33)
    (hil : IL h K c i ≠ secpQ) :
    toKeyCc (deriveChildP h K c i) = specCKDpub h K c i ∧
      ∀ ch, deriveChildP h K c i = .ok ch → ch.offset = IL h K c i := by
  rw [specCKDpub_eq h c i hK, deriveChildP_eq]
  by_cases h1 : isNormal i = false
  · have hi31 : 2 ^ 31 ≤ i := by have := (isNormal_false_iff i).1 h1; rwa [hardenedBit_eq] at this
    rw [if_pos h1, if_pos hi31]
    exact ⟨rfl, fun ch e => by simp at e⟩
  · have hi31 : ¬ 2 ^ 31 ≤ i := fun hh => h1 ((isNormal_false_iff i).2 (by rw [hardenedBit_eq]; exact hh))
    rw [if_neg h1, if_neg hi31]
    by_cases h2 : IL h K c i > secpQ
    · have h2' : secpQ ≤ IL h K c i ∨
          h (.ecAdd .secp256k1 (h (.ecMulGen .secp256k1 (IL h K c i))) K) = identity33 := Or.inl (by omega)
      rw [if_pos h2, if_pos h2']; exact ⟨rfl, fun ch e => by simp at e⟩
    · have hlt : IL h K c i < secpQ := by omega
      have hck : childKey h K c i = h (.ecAdd .secp256k1 (h (.ecMulGen .secp256k1 (IL h K c i))) K) := by
        rw [childKey, Nat.mod_eq_of_lt hlt]
      rw [if_neg h2, hck, Nat.mod_eq_of_lt hlt]
      by_cases h3 : h (.ecAdd .secp256k1 (h (.ecMulGen .secp256k1 (IL h K c i))) K) = identity33
      · have h3' : secpQ ≤ IL h K c i ∨
            h (.ecAdd .secp256k1 (h (.ecMulGen .secp256k1 (IL h K c i))) K) = identity33 := Or.inr h3
        rw [if_pos h3, if_pos h3']; exact ⟨rfl, fun ch e => by simp at e⟩
      · have h3' : ¬ (secpQ ≤ IL h K c i ∨
            h (.ecAdd .secp256k1 (h (.ecMulGen .secp256k1 (IL h K c i))) K) = identity33) := by
          rintro (hh | hh); exacts [absurd hh (by omega), h3 hh]
        rw [if_neg h3, if_neg h3']
        exact ⟨rfl, fun ch e => by cases Outcome.ok.inj e; rfl⟩

/-- the deviation made explicit: if `parse256(I_L) = n` (and the resulting key is not the identity) the code returns
    `Ok` with offset 0 and child key `point(0) + K_par`, where BIP32 declares the child invalid -/
theorem il_eq_q_deviation (h : Query → Bytes) {K : Bytes} (c : Bytes) (i : ℕ) (hK : K ≠ identity33)
    (hi : isNormal i = true) (hil : IL h K c i = secpQ) (hne : childKey h K c i ≠ identity33) :
    (∃ ch, deriveChildP h K c i = .ok ch ∧ ch.offset = 0) ∧ specCKDpub h K c i = none := by
  constructor
  · have h1 : ¬ isNormal i = false := by simp [hi]
    have h2 : ¬ IL h K c i > secpQ := by omega
    refine ⟨{ offset := IL h K c i % secpQ, key := childKey h K c i, chainCode := IR h K c i }, ?_, ?_⟩
    · rw [deriveChildP_eq, if_neg h1, if_neg h2, if_neg hne]
    · simp [hil]
  · have : ¬ 2 ^ 31 ≤ i := by have := (isNormal_iff i).1 hi; rw [hardenedBit_eq] at this; omega
    have h2' : secpQ ≤ IL h K c i ∨
        h (.ecAdd .secp256k1 (h (.ecMulGen .secp256k1 (IL h K c i))) K) = identity33 := Or.inl (by omega)
    rw [specCKDpub_eq h c i hK, if_neg this, if_pos h2']


/-! ## non-vacuity: a concrete oracle satisfying every assumption, and concrete runs -/
section NonVacuity
open SlVerif.GroupOracle

/-- toy oracle: the group part computes in `Zq` (`GroupOracle.Toy`, generator 1), the hashes are arbitrary functions with
    the right output lengths (`IL ∈ {1,…,5}`) -/
def hT : Query → Bytes
  | .hmacSha512 _ d => natToBe 32 (d.sum % 5 + 1) ++ List.replicate 32 9
  | .sha256 d => natToBe 32 d.sum
  | .ripemd160 d => List.replicate 20 (d.sum % 256)
  | q => Toy.h (fun _ => []) q

/-- `hT` is a `GroupOracle` (its group answers are those of `GroupOracle.Toy.h`) -/
def goT : GroupOracle hT Zq where
  dec := Toy.dec
  gen := 1
  Canon := Toy.Canon
  dec_inj := (Toy.inst (fun _ => [])).dec_inj
  canon_length := (Toy.inst (fun _ => [])).canon_length
  canon_identity := (Toy.inst (fun _ => [])).canon_identity
  dec_identity := (Toy.inst (fun _ => [])).dec_identity
  valid := (Toy.inst (fun _ => [])).valid
  canon_mulGen := (Toy.inst (fun _ => [])).canon_mulGen
  canon_mul := (Toy.inst (fun _ => [])).canon_mul
  canon_add := (Toy.inst (fun _ => [])).canon_add
  canon_neg := (Toy.inst (fun _ => [])).canon_neg
  mulGen := (Toy.inst (fun _ => [])).mulGen
  mul := (Toy.inst (fun _ => [])).mul
  add := (Toy.inst (fun _ => [])).add
  neg := (Toy.inst (fun _ => [])).neg

theorem hlT : HashLens hT :=
  ⟨fun d => natToBe_length _ _, fun k d => by simp [hT, natToBe_length], fun d => by simp [hT]⟩

/-- a successful two-level derivation from the root `1•G`: offsets 2 and 4, final key `7•G`, depth 2, child number 5,
    parent fingerprint = fingerprint of the depth-1 key `3•G` -/
theorem toy_run : deriveXpubOffsetsP hT xpubVersion (Toy.enc 1) (List.replicate 32 0) [0, 5] =
    .ok (⟨xpubVersion, 2, fp4 hT (Toy.enc 3), 5, List.replicate 32 9, Toy.enc 7⟩, [2, 4]) := by decide +kernel

theorem toy_run' : deriveXpubP hT xpubVersion (Toy.enc 1) (List.replicate 32 0) [0, 5] =
    .ok ⟨xpubVersion, 2, fp4 hT (Toy.enc 3), 5, List.replicate 32 9, Toy.enc 7⟩ := by decide +kernel

/-- `derive_nil` / `bookkeeping` are about something: the master key and a depth-2 key -/
example : deriveXpubP hT tpubVersion (Toy.enc 1) (List.replicate 32 0) [] =
    .ok ⟨tpubVersion, 0, [0, 0, 0, 0], 0, List.replicate 32 0, Toy.enc 1⟩ := derive_nil hT _ _ (by decide)
example : ckdIter hT (Toy.enc 1, List.replicate 32 0) [0, 5] = .ok (Toy.enc 7, List.replicate 32 9) :=
  (bookkeeping hT _ _ _ _ toy_run').2.2.2.2.2.2.1
/-- `derive_snoc`: the depth-2 key is the child of the depth-1 key -/
example : ∃ x₀ ch, deriveXpubP hT xpubVersion (Toy.enc 1) (List.replicate 32 0) [0] = .ok x₀ ∧
    deriveChildP hT x₀.key x₀.chainCode 5 = .ok ch ∧ ch.key = Toy.enc 7 := by
  obtain ⟨x₀, ch, a, b, c⟩ := derive_snoc hT _ _ _ [0] 5 toy_run'
  exact ⟨x₀, ch, a, b, (congrArg XPub.key c).symm⟩
/-- `additive`: 7 = 1 + (2 + 4)·1 in the toy group -/
example : Toy.dec (Toy.enc 7) = Toy.dec (Toy.enc 1) + offSum [2, 4] • (1 : Zq) :=
  (additive goT (Toy.canon_enc 1) toy_run).2.2.2.2
/-- `serialize_len` / `to_string_no_panic`: the hypotheses are satisfiable -/
example : (serialize ⟨xpubVersion, 2, fp4 hT (Toy.enc 3), 5, List.replicate 32 9, Toy.enc 7⟩).length = 78 :=
  (serialize_len goT hlT (Toy.canon_enc 1) (by simp) toy_run').1
example : ∃ s, toStringP hT ⟨xpubVersion, 2, fp4 hT (Toy.enc 3), 5, List.replicate 32 9, Toy.enc 7⟩ true = .ok s :=
  ⟨_, (to_string_no_panic goT hlT (Toy.canon_enc 1) (by simp) toy_run').2⟩
/-- `derive_ok_iff`: both sides are inhabited -/
example : ∃ x, deriveXpubP hT xpubVersion (Toy.enc 1) (List.replicate 32 0) [0, 5] = .ok x := ⟨_, toy_run'⟩
/-- a 40-level derivation succeeds with depth 40 -/
example : (match deriveXpubP hT xpubVersion (Toy.enc 1) (List.replicate 32 0) (List.replicate 40 1) with
    | .ok x => x.depth == 40 | _ => false) = true := by decide +kernel
/-- errors: hardened component, 256 components, identity root -/
example : deriveXpubP hT xpubVersion (Toy.enc 1) (List.replicate 32 0) [0, 2 ^ 31 + 5] = .err .hardenedChildNotSupported :=
  hardened_error_name goT _ _ (Toy.canon_enc 1) (by simp) (pre := [0]) (post := [])
    (x₀ := ⟨xpubVersion, 1, fp4 hT (Toy.enc 1), 0, List.replicate 32 9, Toy.enc 3⟩) (by decide +kernel) (by decide)
example : deriveXpubP hT xpubVersion (Toy.enc 1) (List.replicate 32 0) (List.replicate 256 0) = .err .pathTooDeep :=
  (errors_too_deep hT _ _ _ (by rw [List.length_replicate]; omega)).2 (by decide)
example : deriveXpubP hT xpubVersion identity33 (List.replicate 32 0) [0, 5] = .err .pubkeyPointAtInfinity :=
  errors_identity_root hT _ _ _
/-- Base58: leading zero bytes become '1's and come back -/
example : base58Encode [0, 0, 1, 2, 3] = "11Ldp".toList := by decide
example : base58Decode "11Ldp".toList = some [0, 0, 1, 2, 3] := by decide
example : base58Decode (base58Encode [0, 0, 1, 2, 3]) = some [0, 0, 1, 2, 3] := base58_roundtrip _ (by decide)
/-- `impl_eq_spec_partial`: `IL ≠ q` holds for `hT` (IL = 2 here) and both sides are `some` -/
example : toKeyCc (deriveChildP hT (Toy.enc 1) (List.replicate 32 0) 0) = some (Toy.enc 3, List.replicate 32 9) := by
  decide +kernel
example : specCKDpub hT (Toy.enc 1) (List.replicate 32 0) 0 = some (Toy.enc 3, List.replicate 32 9) := by
  rw [← (impl_eq_spec_partial hT (List.replicate 32 0) 0 (K := Toy.enc 1) (by decide) (by decide +kernel)).1]
  decide +kernel

/-- an oracle whose HMAC answers `I_L = q` exactly: the one place where code and BIP32 differ -/
def hQ : Query → Bytes
  | .hmacSha512 _ _ => natToBe 32 secpQ ++ List.replicate 32 9
  | q => hT q

/-- `il_eq_q_deviation` is not vacuous: with `I_L = q` the model (like the code) returns offset 0 and the parent key as
    child, BIP32's CKDpub rejects -/
example : deriveChildP hQ (Toy.enc 1) (List.replicate 32 0) 0 = .ok ⟨0, Toy.enc 1, List.replicate 32 9⟩ ∧
    specCKDpub hQ (Toy.enc 1) (List.replicate 32 0) 0 = none := by decide +kernel

end NonVacuity

end SlVerif.C12
