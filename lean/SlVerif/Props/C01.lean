import SlVerif.Proofs.Rvole
import SlVerif.Proofs.RvoleOt
import SlVerif.Props.C03
import SlVerif.Props.C06
import SlVerif.Props.C05
/-
  C01 — "Whenever both parties follow the random vector-OLE protocol, for every batch position i the sender's output
  share c_i and the receiver's output share d_i satisfy c_i + d_i = a_i * b modulo the secp256k1 group order, where a is
  the sender's input vector and b is the scalar the receiver was handed in round one.  This holds for the OT-extension
  variant and for the base-OT variant, for every session id and input (including 0, 1 and order-1), and when the OT
  seeds come from the real base-OT + all-but-one pipeline rather than from the synthetic seed generator."

  Model: SlVerif/Model/Rvole.lean (`receiverNew`, `senderProcess`, `receiverProcess` = RVOLEReceiver::new,
  RVOLESender::process, RVOLEReceiver::process of crates/sl-oblivious/src/rvole.rs; `receiverNewOt`, `senderProcessOt`,
  `receiverProcessOt` = the same functions of rvole_ot_variant.rs), taken at `m := Id` with an ARBITRARY oracle `h`: the
  theorems hold for every behaviour of merlin (gadget vector, theta, mu hash are whatever `h` answers).

  Dictionary: scalars are canonical naturals, `x % secpQ` is "modulo the group order"; `c.getD i 0` is `c[i]`;
  `bitAt beta j` is `beta.extract_bit(j)`; `Tape` is the byte tape of the rng.

    core, core_mu      the algebra over ANY commutative ring, from the OT relation  vx_j = if β_j then α1_j else α0_j
    ext                OT-extension variant: every oracle, session id, input vector (any naturals), tapes, seed sets in the
                       all-but-one relation — the sender accepts round one, the receiver accepts round two, and
                       (c_i + d_i) % q = (a_i * b) % q.  The OT relation is DISCHARGED by `C03.main`.
    base               base-OT variant: the same conclusion from the base-OT key relation of the two Endemic exchanges
                       (the conclusion of C05, stated as hypotheses `hA hB : KeyRel …` until `Props/C05.lean` exists)
    pipeline           OT-extension variant on seeds produced by `build_pprf` / `eval_pprf` from base-OT outputs in the
                       relation `C06.BaseOT`: the all-but-one relation is DISCHARGED by `C06.main`, the OT relation by
                       `C03.main`; the base-OT relation itself is the hypothesis (C05)
-/
namespace SlVerif.C01
open SlVerif SlVerif.Rvole SlVerif.Generated

/-- **C01, algebraic core** over an arbitrary commutative ring: if the receiver's OT outputs are the sender's outputs
    selected by the choice bits, then with `ã_j = α0_j − α1_j + a` the shares `c = −Σ g_j α0_j` and
    `d = Σ g_j (if β_j then vx_j + ã_j else vx_j)` satisfy `c + d = a · ⟨g, β⟩`. -/
theorem core {R : Type} [CommRing R] {ι : Type} (js : List ι) (g α0 α1 vx : ι → R) (β : ι → Bool) (a : R)
    (hOT : ∀ j ∈ js, vx j = if β j then α1 j else α0 j) :
    -(js.map fun j => g j * α0 j).sum
        + (js.map fun j => g j * (if β j then vx j + (α0 j - α1 j + a) else vx j)).sum
      = a * (js.map fun j => if β j then g j else 0).sum :=
  RvoleCore.share_sum js g α0 α1 vx β a hOT

/-- **C01, algebraic core, check value** over an arbitrary commutative ring: in every row the value the receiver hashes
    (`mu'`) is the value the sender hashed (`mu`), whatever `θ` is. -/
theorem core_mu {R : Type} [CommRing R] {κ : Type} (is : List κ) (θ a α0 α1 vx : κ → R) (η0 α0c α1c vxc : R) (β : Bool)
    (h : ∀ i ∈ is, vx i = if β then α1 i else α0 i) (hc : vxc = if β then α1c else α0c) :
    (if β then
        ((vxc + (α0c - α1c + η0)) + (is.map fun i => θ i * (vx i + (α0 i - α1 i + a i))).sum)
          - (η0 + (is.map fun i => θ i * a i).sum)
      else vxc + (is.map fun i => θ i * vx i).sum)
      = α0c + (is.map fun i => θ i * α0 i).sum :=
  RvoleCore.mu_eq is θ a α0 α1 vx η0 α0c α1c vxc β h hc

/-- the model-level statement from the OT relation: sender output `so` of the OT layer, receiver strings `vx` -/
theorem of_OT (h : Query → Id Bytes) (sid beta : Bytes) (v0 v1 vx : List (List Bytes)) (a : List ℕ) (tapeS : Tape)
    (hOT : ∀ j < XI, ∀ i < L_BATCH_PLUS_RHO,
      (vx.getD j []).getD i [] = if bitAt beta j then (v1.getD j []).getD i [] else (v0.getD j []).getD i []) :
    ∃ d, receiverCore (m := Id) h sid beta vx
            (senderCore (m := Id) h sid (gadgetVec (m := Id) h sid) v0 v1 a tapeS).2.1 = .ok d ∧
      ∀ i < L_BATCH,
        ((senderCore (m := Id) h sid (gadgetVec (m := Id) h sid) v0 v1 a tapeS).1.getD i 0 + d.getD i 0) % secpQ
          = (a.getD i 0 * gadgetDot (gadgetVec (m := Id) h sid) beta) % secpQ := by
  have hrel := OTRel_of_bytes beta v0 v1 vx hOT
  rw [senderCore_id, receiverCore_id, receiverMu_id]
  simp only
  rw [mu_match _ beta _ _ _ a _ hrel]
  rw [if_neg (by unfold checkOk; simp only; rw [etaFinal_canonical]; simp)]
  refine ⟨_, rfl, ?_⟩
  intro i hi
  have hz := shares_zmod (gadgetVec (m := Id) h sid) beta _ _ _ a (drawEta RHO tapeS).1 hrel i hi
  rw [← Nat.cast_add, ← Nat.cast_mul] at hz
  exact (ZMod.natCast_eq_natCast_iff' _ _ _).mp hz

/-- **C01, OT-extension variant.**  For every oracle `h`, session id, seed sets in the all-but-one relation
    (`decKeys[i][j] = encKeys[i][j]` for `j ≠ δ_i`), sender input `a` (any naturals: 0, 1, q−1, …), and tapes of both
    parties (the receiver's tape holds at least the `L_BYTES` bytes of `beta`, all entries are bytes):
    with `(st, r1, b, _) = RVOLEReceiver::new(sid, encKeys, tapeR)`,
    `RVOLESender::process` accepts `r1` and returns shares `c` and a round-two message `msg`,
    `RVOLEReceiver::process` accepts `msg` and returns shares `d`, and `c_i + d_i = a_i · b (mod q)` for every `i`. -/
theorem ext (h : Query → Id Bytes) (sid : Bytes) (encKeys decKeys : List (List Bytes)) (rc : List ℕ) (a : List ℕ)
    (tapeR tapeS : Tape) (hlen : L_BYTES ≤ tapeR.length) (hbytes : ∀ x ∈ tapeR, x < 256)
    (hseeds : ∀ i < LAMBDA_C_DIV_SOFT_SPOKEN_K, ∀ j < SOFT_SPOKEN_Q, j ≠ rc.getD i 0 →
      SoftSpoken.keyAt decKeys i j = SoftSpoken.keyAt encKeys i j) :
    ∃ c msg tS,
      senderProcess (m := Id) h sid rc decKeys a (receiverNew (m := Id) h sid encKeys tapeR).2.1 tapeS = .ok (c, msg, tS) ∧
      ∃ d, receiverProcess (m := Id) h (receiverNew (m := Id) h sid encKeys tapeR).1 msg = .ok d ∧
        ∀ i < L_BATCH,
          (c.getD i 0 + d.getD i 0) % secpQ = (a.getD i 0 * (receiverNew (m := Id) h sid encKeys tapeR).2.2.1) % secpQ := by
  have hβlen : (Tape.take tapeR L_BYTES).1.length = L_BYTES := by
    show (List.take L_BYTES tapeR).length = L_BYTES
    rw [List.length_take]; exact Nat.min_eq_left hlen
  have hβb : ∀ x ∈ (Tape.take tapeR L_BYTES).1, x < 256 := fun x hx => hbytes x (List.mem_of_mem_take hx)
  obtain ⟨so, hso, hvx, _⟩ := C03.main h sid encKeys decKeys rc (Tape.take tapeR L_BYTES).1 (Tape.take tapeR L_BYTES).2
    hβlen hβb hseeds
  have hOT : ∀ j < XI, ∀ i < L_BATCH_PLUS_RHO,
      (((SoftSpoken.receiverProcess (m := Id) h sid encKeys (Tape.take tapeR L_BYTES).1
          (Tape.take tapeR L_BYTES).2).2.1.v_x).getD j []).getD i []
        = if bitAt (Tape.take tapeR L_BYTES).1 j then (so.v_1.getD j []).getD i [] else (so.v_0.getD j []).getD i [] :=
    fun j hj i hi => hvx j hj i hi
  obtain ⟨d, hd, hrel⟩ := of_OT h sid (Tape.take tapeR L_BYTES).1 so.v_0 so.v_1 _ a tapeS hOT
  rw [receiverNew_id]
  dsimp only
  refine ⟨(senderCore (m := Id) h sid (gadgetVec (m := Id) h sid) so.v_0 so.v_1 a tapeS).1,
    (senderCore (m := Id) h sid (gadgetVec (m := Id) h sid) so.v_0 so.v_1 a tapeS).2.1,
    (senderCore (m := Id) h sid (gadgetVec (m := Id) h sid) so.v_0 so.v_1 a tapeS).2.2, ?_, d, ?_, ?_⟩
  · exact senderProcess_ok h sid rc decKeys a _ tapeS so hso
  · rw [receiverProcess_id]; dsimp only; exact hd
  · exact hrel

/-- the same with the outputs of `RVOLEReceiver::new` named -/
theorem ext' (h : Query → Id Bytes) (sid : Bytes) (encKeys decKeys : List (List Bytes)) (rc : List ℕ) (a : List ℕ)
    (tapeR tapeS : Tape) (hlen : L_BYTES ≤ tapeR.length) (hbytes : ∀ x ∈ tapeR, x < 256)
    (hseeds : ∀ i < LAMBDA_C_DIV_SOFT_SPOKEN_K, ∀ j < SOFT_SPOKEN_Q, j ≠ rc.getD i 0 →
      SoftSpoken.keyAt decKeys i j = SoftSpoken.keyAt encKeys i j)
    (st : RecvState) (r1 : SoftSpoken.Round1Output) (b : ℕ) (tR : Tape)
    (hR : receiverNew (m := Id) h sid encKeys tapeR = (st, r1, b, tR)) :
    ∃ c msg tS, senderProcess (m := Id) h sid rc decKeys a r1 tapeS = .ok (c, msg, tS) ∧
      ∃ d, receiverProcess (m := Id) h st msg = .ok d ∧
        ∀ i < L_BATCH, (c.getD i 0 + d.getD i 0) % secpQ = (a.getD i 0 * b) % secpQ := by
  have := ext h sid encKeys decKeys rc a tapeR tapeS hlen hbytes hseeds
  rw [hR] at this
  exact this

/-- **C01, base-OT variant.**  For every oracle `h`, session id, sender input `a` and tapes of both parties: with
    `(st, msg1, b, _) = RVOLEReceiver::new(sid, tapeR)` of rvole_ot_variant.rs, IF the two Endemic base OTs are correct —
    `hA`, `hB`: the sender of each reports no error, the receiver decodes, and per instance the receiver's key is the
    sender's key for its choice bit (`KeyRel`; this is the conclusion of property C05 for one base OT, cf.
    `SlVerif.Endemic.exchange_correct`, and the premise `BaseOT.cons` of `C06.main`) — THEN the variant's sender returns
    `Ok(c)` with a message `msg`, the variant's receiver accepts `msg` and returns `d`, and `c_i + d_i = a_i · b (mod q)`.
    The hypotheses are about the base-OT layer only; everything the variant adds (derived session ids, expansion of the
    keys into OT_WIDTH strings, gadget vector, masking, check) is covered for every behaviour of merlin. -/
theorem base (h : Query → Id Bytes) (sid : Bytes) (a : List ℕ) (tapeR tapeS : Tape)
    (ka kb : List Bytes)
    (hAe : (Endemic.sendProcess (m := Id) h (otSids (m := Id) h sid).1
              (receiverNewOt (m := Id) h sid tapeR).2.1.a tapeS).1.err = false)
    (hBe : (Endemic.sendProcess (m := Id) h (otSids (m := Id) h sid).2 (receiverNewOt (m := Id) h sid tapeR).2.1.b
              (Endemic.sendProcess (m := Id) h (otSids (m := Id) h sid).1
                (receiverNewOt (m := Id) h sid tapeR).2.1.a tapeS).2).1.err = false)
    (hAr : Endemic.recvProcess (m := Id) h (receiverNewOt (m := Id) h sid tapeR).1.stA
              (Endemic.sendProcess (m := Id) h (otSids (m := Id) h sid).1
                (receiverNewOt (m := Id) h sid tapeR).2.1.a tapeS).1.msg2 = some ka)
    (hBr : Endemic.recvProcess (m := Id) h (receiverNewOt (m := Id) h sid tapeR).1.stB
              (Endemic.sendProcess (m := Id) h (otSids (m := Id) h sid).2 (receiverNewOt (m := Id) h sid tapeR).2.1.b
                (Endemic.sendProcess (m := Id) h (otSids (m := Id) h sid).1
                  (receiverNewOt (m := Id) h sid tapeR).2.1.a tapeS).2).1.msg2 = some kb)
    (hA : KeyRel (receiverNewOt (m := Id) h sid tapeR).1.stA.choiceBits
            (Endemic.sendProcess (m := Id) h (otSids (m := Id) h sid).1
              (receiverNewOt (m := Id) h sid tapeR).2.1.a tapeS).1.keys ka)
    (hB : KeyRel (receiverNewOt (m := Id) h sid tapeR).1.stB.choiceBits
            (Endemic.sendProcess (m := Id) h (otSids (m := Id) h sid).2 (receiverNewOt (m := Id) h sid tapeR).2.1.b
              (Endemic.sendProcess (m := Id) h (otSids (m := Id) h sid).1
                (receiverNewOt (m := Id) h sid tapeR).2.1.a tapeS).2).1.keys kb) :
    (senderProcessOt (m := Id) h sid a (receiverNewOt (m := Id) h sid tapeR).2.1 tapeS).err = none ∧
    ∃ d, receiverProcessOt (m := Id) h (receiverNewOt (m := Id) h sid tapeR).1
            (senderProcessOt (m := Id) h sid a (receiverNewOt (m := Id) h sid tapeR).2.1 tapeS).msg = .ok d ∧
      ∀ i < L_BATCH,
        ((senderProcessOt (m := Id) h sid a (receiverNewOt (m := Id) h sid tapeR).2.1 tapeS).c.getD i 0 + d.getD i 0)
            % secpQ
          = (a.getD i 0 * (receiverNewOt (m := Id) h sid tapeR).2.2.1) % secpQ := by
  rw [senderProcessOt_ok h sid a _ tapeS hAe hBe]
  dsimp only
  refine ⟨rfl, ?_⟩
  rw [receiverProcessOt_ok' h (receiverNewOt (m := Id) h sid tapeR).1 _ _ _ ka kb hAr hBr]
  have hla : (receiverNewOt (m := Id) h sid tapeR).1.stA.choiceBits.length = LAMBDA_C_BYTES := by
    rw [receiverNewOt_stA]; exact recvNew_choiceBits_length h _ _
  rw [receiverNewOt_sid, receiverNewOt_b, receiverNewOt_beta]
  have hOT := ot_layer_rel h sid _ _ ka kb _ _ hla hA hB
  unfold senderCoreOt
  rw [senderVOt_id]
  dsimp only
  exact of_OT h sid _ _ _ _ a _ hOT

/-- the conclusion of `C05.main` for one Endemic exchange, in the form `base` consumes it -/
theorem keyRel_of_C05 (h : Query → Id Bytes) {F G : Type} [Field F] [AddCommGroup G] [Module F G]
    (go : Endemic.GroupOracle h F G) (sidX : Bytes) (tR tS : Tape) :
    (Endemic.sendProcess (m := Id) h sidX (Endemic.recvNew (m := Id) h sidX tR).2.1 tS).1.err = false ∧
    ∃ rk, Endemic.recvProcess (m := Id) h (Endemic.recvNew (m := Id) h sidX tR).1
            (Endemic.sendProcess (m := Id) h sidX (Endemic.recvNew (m := Id) h sidX tR).2.1 tS).1.msg2 = some rk ∧
      KeyRel (Endemic.recvNew (m := Id) h sidX tR).1.choiceBits
        (Endemic.sendProcess (m := Id) h sidX (Endemic.recvNew (m := Id) h sidX tR).2.1 tS).1.keys rk := by
  obtain ⟨he, rk, hrk, hl1, hl2, hall⟩ := C05.main h go sidX tR tS
  refine ⟨he, rk, hrk, ⟨hl1, hl2, ?_⟩⟩
  intro i hi
  obtain ⟨k, kp, h1, h2, h3⟩ := hall i hi
  rw [List.getD_eq_getElem?_getD, List.getD_eq_getElem?_getD, h1, h2]
  exact h3

/-- **C01, base-OT variant, base OTs discharged by C05.**  For every oracle whose secp256k1 answers form a group
    (`Endemic.GroupOracle`: the assumption under which `C05.main` proves the Endemic exchange correct; nothing is assumed
    about merlin), every session id, input and tapes: the base-OT variant accepts in both rounds and
    `c_i + d_i = a_i · b (mod q)`. -/
theorem base_group (h : Query → Id Bytes) {F G : Type} [Field F] [AddCommGroup G] [Module F G]
    (go : Endemic.GroupOracle h F G) (sid : Bytes) (a : List ℕ) (tapeR tapeS : Tape) :
    (senderProcessOt (m := Id) h sid a (receiverNewOt (m := Id) h sid tapeR).2.1 tapeS).err = none ∧
    ∃ d, receiverProcessOt (m := Id) h (receiverNewOt (m := Id) h sid tapeR).1
            (senderProcessOt (m := Id) h sid a (receiverNewOt (m := Id) h sid tapeR).2.1 tapeS).msg = .ok d ∧
      ∀ i < L_BATCH,
        ((senderProcessOt (m := Id) h sid a (receiverNewOt (m := Id) h sid tapeR).2.1 tapeS).c.getD i 0 + d.getD i 0)
            % secpQ
          = (a.getD i 0 * (receiverNewOt (m := Id) h sid tapeR).2.2.1) % secpQ := by
  obtain ⟨hAe, ka, hAr, hA⟩ := keyRel_of_C05 h go (otSids (m := Id) h sid).1 tapeR tapeS
  obtain ⟨hBe, kb, hBr, hB⟩ := keyRel_of_C05 h go (otSids (m := Id) h sid).2
    (Endemic.recvNew (m := Id) h (otSids (m := Id) h sid).1 tapeR).2.2
    (Endemic.sendProcess (m := Id) h (otSids (m := Id) h sid).1
      (Endemic.recvNew (m := Id) h (otSids (m := Id) h sid).1 tapeR).2.1 tapeS).2
  apply base h sid a tapeR tapeS ka kb
  · rw [receiverNewOt_m1a]; exact hAe
  · rw [receiverNewOt_m1a, receiverNewOt_m1b]; exact hBe
  · rw [receiverNewOt_m1a, receiverNewOt_stA]; exact hAr
  · rw [receiverNewOt_m1a, receiverNewOt_m1b, receiverNewOt_stB]; exact hBr
  · rw [receiverNewOt_m1a, receiverNewOt_stA]; exact hA
  · rw [receiverNewOt_m1a, receiverNewOt_m1b, receiverNewOt_stB]; exact hB

/-- the seeds produced by the all-but-one PPRF from consistent base-OT outputs are in the all-but-one relation that
    `C03.main` (hence `ext`) asks for: `SenderOTSeed = leaves`, `ReceiverOTSeed = (y*, s*)` of `C06.main` -/
theorem pprf_seeds_rel (h : Query → Id Bytes) (sidP : Bytes) (keys : List (Bytes × Bytes)) (bits : Bytes)
    (dks : List Bytes) (hb : C06.BaseOT keys bits dks) :
    ∃ r, Pprf.evalPprf (m := Id) h sidP bits dks (Pprf.buildPprf (m := Id) h sidP keys).2 = .ok r ∧
      ∀ i < LAMBDA_C_DIV_SOFT_SPOKEN_K, ∀ j < SOFT_SPOKEN_Q, j ≠ (r.map (·.1)).getD i 0 →
        SoftSpoken.keyAt (r.map (·.2)) i j = SoftSpoken.keyAt (Pprf.buildPprf (m := Id) h sidP keys).1 i j := by
  obtain ⟨r, hr, hlen, hall⟩ := C06.main h sidP keys bits dks hb
  refine ⟨r, hr, ?_⟩
  intro i hi j _ hne
  obtain ⟨ystar, sstar, leaves, hri, hli, _, _, _, _, heq, _⟩ := hall i hi
  have hil : i < r.length := by rw [hlen]; exact hi
  have e1 : (r.map (·.1)).getD i 0 = ystar := by
    rw [List.getD_eq_getElem?_getD, List.getElem?_map, hri]; rfl
  have e2 : (r.map (·.2)).getD i [] = sstar := by
    rw [List.getD_eq_getElem?_getD, List.getElem?_map, hri]; rfl
  have e3 : (Pprf.buildPprf (m := Id) h sidP keys).1.getD i [] = leaves := by
    rw [List.getD_eq_getElem?_getD, hli]; rfl
  unfold SoftSpoken.keyAt
  rw [e2, e3, List.getD_eq_getElem?_getD, List.getD_eq_getElem?_getD, heq j (by rw [← e1]; exact hne)]

/-- **C01, seeds from the real pipeline.**  Base-OT outputs in the relation `C06.BaseOT` (the conclusion of C05: the
    receiver's key is the sender's key for its choice bit, 32-byte keys) are turned into all-but-one seeds by
    `build_pprf` / `eval_pprf` under any session id `sidP`; the random vector OLE of the OT-extension variant run on THOSE
    seeds, under any session id `sid`, input `a` and tapes, accepts in both rounds and satisfies `c_i + d_i = a_i · b`.
    Composition: `C06.main` (PPRF correctness) ⇒ all-but-one relation ⇒ `C03.main` (OT extension) ⇒ `core`. -/
theorem pipeline (h : Query → Id Bytes) (sidP sid : Bytes) (keys : List (Bytes × Bytes)) (bits : Bytes)
    (dks : List Bytes) (hb : C06.BaseOT keys bits dks) (a : List ℕ) (tapeR tapeS : Tape)
    (hlen : L_BYTES ≤ tapeR.length) (hbytes : ∀ x ∈ tapeR, x < 256) :
    ∃ r, Pprf.evalPprf (m := Id) h sidP bits dks (Pprf.buildPprf (m := Id) h sidP keys).2 = .ok r ∧
      ∃ c msg tS,
        senderProcess (m := Id) h sid (r.map (·.1)) (r.map (·.2)) a
          (receiverNew (m := Id) h sid (Pprf.buildPprf (m := Id) h sidP keys).1 tapeR).2.1 tapeS = .ok (c, msg, tS) ∧
        ∃ d, receiverProcess (m := Id) h
            (receiverNew (m := Id) h sid (Pprf.buildPprf (m := Id) h sidP keys).1 tapeR).1 msg = .ok d ∧
          ∀ i < L_BATCH, (c.getD i 0 + d.getD i 0) % secpQ
            = (a.getD i 0 * (receiverNew (m := Id) h sid (Pprf.buildPprf (m := Id) h sidP keys).1 tapeR).2.2.1) % secpQ := by
  obtain ⟨r, hr, hrel⟩ := pprf_seeds_rel h sidP keys bits dks hb
  exact ⟨r, hr, ext h sid _ _ _ a tapeR tapeS hlen hbytes hrel⟩

/-! non-vacuity: the hypotheses of `ext` are satisfiable (equal seed sets, an 80-byte tape), for every oracle -/
example (h : Query → Id Bytes) :
    ∃ c msg tS d, senderProcess (m := Id) h [] [] [] [0, 1]
        (receiverNew (m := Id) h [] [] (List.replicate 80 0)).2.1 [] = .ok (c, msg, tS) ∧
      receiverProcess (m := Id) h (receiverNew (m := Id) h [] [] (List.replicate 80 0)).1 msg = .ok d ∧
      ∀ i < L_BATCH, (c.getD i 0 + d.getD i 0) % secpQ
        = (([0, 1] : List ℕ).getD i 0 * (receiverNew (m := Id) h [] [] (List.replicate 80 0)).2.2.1) % secpQ := by
  obtain ⟨c, msg, tS, h1, d, h2, h3⟩ := ext h [] [] [] [] [0, 1] (List.replicate 80 0) []
    (by rw [List.length_replicate]; exact Nat.le_of_ble_eq_true rfl)
    (by intro x hx; rw [List.eq_of_mem_replicate hx]; exact Nat.lt_of_sub_eq_succ rfl) (fun _ _ _ _ _ => rfl)
  exact ⟨c, msg, tS, d, h1, h2, h3⟩

/-- non-vacuity of `pipeline`: consistent base-OT outputs exist (all keys equal), so for every oracle the conclusion holds
    for the seeds the PPRF derives from them -/
example : C06.BaseOT (List.replicate LAMBDA_C (Pprf.zeros Pprf.KB, Pprf.zeros Pprf.KB)) [] (List.replicate LAMBDA_C (Pprf.zeros Pprf.KB)) where
  len := fun i hi => by
    rw [List.getD_eq_getElem?_getD, List.getElem?_replicate, if_pos hi]
    exact ⟨List.length_replicate, List.length_replicate⟩
  cons := fun i hi => by
    rw [List.getD_eq_getElem?_getD, List.getD_eq_getElem?_getD, List.getElem?_replicate, List.getElem?_replicate,
      if_pos hi]
    unfold Pprf.sel
    split <;> rfl

end SlVerif.C01
