import SlVerif.Proofs.Matrix
import Mathlib.Algebra.Field.Rat
import Mathlib.Tactic.NormNum
/-
  C20.  For every invertible square matrix over the scalar field, of any size from 1x1 upwards and including matrices
  whose elimination needs row exchanges, the computed inverse multiplied by the matrix gives the identity, and the
  computed determinant equals the Leibniz determinant.  A zero determinant is reported as zero rather than as an
  arithmetic failure.

  Model: `SlVerif.Mat` (Model/Matrix.lean), interpreted at an arbitrary field through `FieldOps.ofField`
  (Proofs/FieldInst.lean).  `Mat.toMatrix A` is the Mathlib matrix `fun i j => Mat.get A i j` and `Matrix.det` is the
  Leibniz determinant.  Every theorem is for every field `F`, every size `n`, every matrix `A`.
-/
namespace SlVerif.C20
open SlVerif SlVerif.Mat

variable {F : Type} [Field F] [DecidableEq F]

/-- The computed determinant is the Leibniz determinant, for every size `n ≥ 0` (the empty matrix has determinant 1)
    and every matrix — singular or not, with or without row exchanges.  In particular neither the
    `Err("Modular inverse does not exist …")` outcome nor a panic is ever produced on a square matrix. -/
theorem det_correct (n : ℕ) (A : Mat.M F n) : Mat.determinant n A = .ok (toMatrix A).det :=
  Mat.determinant_eq A

/-- A zero determinant is reported as `Ok(0)`, not as an arithmetic failure. -/
theorem det_zero_reported {n : ℕ} (A : Mat.M F n) : (toMatrix A).det = 0 → Mat.determinant n A = .ok 0 := by
  intro h
  rw [det_correct, h]

/-- For every invertible matrix of size `n ≥ 1` (`n = 1`, the special-cased `n = 2`, and the cofactor path `n ≥ 3`)
    the code returns a matrix that is a two-sided inverse. -/
theorem inverse_correct (n : ℕ) (hn : 1 ≤ n) (A : Mat.M F n) (h : (toMatrix A).det ≠ 0) :
    ∃ B, Mat.inverse n A = .ok B ∧ toMatrix B * toMatrix A = 1 ∧ toMatrix A * toMatrix B = 1 := by
  obtain ⟨k, rfl⟩ : ∃ k, n = k + 1 := ⟨n - 1, by omega⟩
  obtain ⟨B, hB, hadj⟩ := Mat.inverse_eq_adjugate A h
  refine ⟨B, hB, ?_, ?_⟩
  · rw [hadj, Matrix.smul_mul, Matrix.adjugate_mul, smul_smul, inv_mul_cancel₀ h, one_smul]
  · rw [hadj, Matrix.mul_smul, Matrix.mul_adjugate, smul_smul, inv_mul_cancel₀ h, one_smul]

/-- On a singular matrix the code panics (`determinant.invert().unwrap()`): documented behaviour, never a wrong answer. -/
theorem inverse_singular (n : ℕ) (hn : 1 ≤ n) (A : Mat.M F n) (h : (toMatrix A).det = 0) :
    ∃ w, Mat.inverse n A = .panic w := by
  obtain ⟨k, rfl⟩ : ∃ k, n = k + 1 := ⟨n - 1, by omega⟩
  exact ⟨_, Mat.inverse_singular_eq A h⟩

/-- The executable reference `Mat.laplace` (first-row Laplace expansion, the driver's oracle on the implementation's
    output) is the Leibniz determinant, for every size and every matrix. -/
theorem laplace_eq_det (n : ℕ) (A : Mat.M F n) : Mat.laplace n A = (toMatrix A).det :=
  Mat.laplace_eq A

/-- Hence the computed determinant always agrees with the executable reference. -/
theorem determinant_eq_laplace (n : ℕ) (A : Mat.M F n) : Mat.determinant n A = .ok (Mat.laplace n A) := by
  rw [det_correct, laplace_eq_det]

/-- Non-vacuity: a concrete 3×3 rational matrix whose (0,0) entry is zero, so that elimination starts with a row
    exchange (the pivot search finds row 1); its determinant is −2 ≠ 0, the code computes −2, and `inverse` succeeds. -/
example :
    let A : Mat.M ℚ 3 := #v[#v[0, 1, 2], #v[1, 0, 3], #v[4, -3, 8]]
    Mat.get A 0 0 = 0 ∧ Mat.findPivot A = some 0 ∧ (toMatrix A).det = -2 ∧ (toMatrix A).det ≠ 0 ∧
      Mat.determinant 3 A = .ok (-2) ∧
      ∃ B, Mat.inverse 3 A = .ok B ∧ toMatrix B * toMatrix A = 1 ∧ toMatrix A * toMatrix B = 1 := by
  intro A
  have hdet : (toMatrix A).det = -2 := by
    simp [Matrix.det_fin_three, toMatrix, Mat.get, A]
    norm_num
  refine ⟨rfl, by decide, hdet, by rw [hdet]; norm_num, by rw [det_correct, hdet], ?_⟩
  exact inverse_correct 3 (by norm_num) A (by rw [hdet]; norm_num)

end SlVerif.C20
