import SlVerif.Proofs.Relay
/-
  C15 — "In the in-memory relay, every ask for a message id is answered with exactly one byte-identical copy of the
  first live publication under that id, immediately if the message is already stored and unexpired, or when it is
  published before the ask's time-to-live has elapsed.  No connection receives a message it did not ask for, later
  publications under a stored id are ignored, and the id, flags and time-to-live (within the 16-bit wire range) read
  back from a frame are those it was built with."

  Model: SlVerif/Model/Relay.lean (`Inner::{cleanup,send,recv}`, `start_send`, `SimpleMessageRelay::send`, header
  codec), tied to the Rust by differential testing.  Specification: SlVerif/Model/RelaySpec.lean.

  Every theorem quantifies over ALL histories `ops : List Op` run from the initial system (`run {} ops`; time only
  moves forward because `tick` adds), all connection numbers, all frames (arbitrary byte lists).  The local theorems
  (`ask_ready_immediate`, `publish_delivers_to_waiters`, `first_publication_wins`) hold of *every* state `y`, a
  fortiori of every reachable one.

  Vocabulary (SlVerif/Proofs/Relay.lean):
    `op.asks c i`          op = `.frame c a`, `a` is exactly a header (36 bytes) whose id field is `i`
    `op.publishes i`       op = `.frame _ f` / `.service f`, `f` longer than a header, id field `i`
    `op.publishesFrame f`  the same with the whole frame given
    `op.isRelay`           op reaches `Inner::recv`/`Inner::send` (frame ≥ 36 bytes, service frame > 36 bytes)
    `pubExp i heap`        the time of the `.pub` heap entry of id `i` (unique in reachable states, `WF.ready_pub`)
    `askers i ops`         the connections of the asks for `i` in `ops`, in order
    `askDeadlines i t ops` the `time + ttl` of those asks, the history starting at time `t`
-/
namespace SlVerif.C15
open SlVerif SlVerif.Relay

/-! ### fixtures for the non-vacuity examples -/

def id0 : Id := List.replicate 32 0
def id1 : Id := List.replicate 32 1
/-- an ask frame: `AskMsg::allocate(id, ttl)` -/
def askF (i : Id) (ttl : Nat) : Bytes := allocateMessage i ttl 0 []
/-- a publication: `allocate_message(id, ttl, 0, payload)` -/
def pubF (i : Id) (ttl : Nat) (p : Bytes) : Bytes := allocateMessage i ttl 0 p

/-! ### the header codec -/

/-- the 32-bit word written by `MsgHdr::encode`: flags in the high half, ttl (truncated to 16 bits) in the low half -/
theorem hdr_word (ttl flags : Nat) :
    ((ttl % 2^32) &&& 0xffff) ||| ((flags % 2^16) <<< 16) = (flags % 2^16) * 2^16 + ttl % 2^16 := by
  have h1 : (ttl % 2^32) &&& 0xffff = ttl % 2^16 := by
    have := Nat.and_two_pow_sub_one_eq_mod (ttl % 2^32) 16
    simp only [show (2:Nat)^16 - 1 = 0xffff from rfl] at this
    rw [this]; omega
  rw [h1, Nat.or_comm, ← Nat.shiftLeft_add_eq_or_of_lt (Nat.mod_lt _ (by decide)), Nat.shiftLeft_eq]

/-- what is read back from any allocated message: the id, and ttl / flags modulo `2^16` -/
theorem hdr_decode_alloc (id : Id) (hid : id.length = 32) (ttl flags : Nat) (payload : Bytes) :
    decodeHdr? (allocateMessage id ttl flags payload) = some ⟨id, ttl % 2^16, flags % 2^16⟩ := by
  have hlen : 36 ≤ (allocateMessage id ttl flags payload).length := by
    simp [allocateMessage, encodeHdr, natToLe_length, hid]; omega
  rw [decodeHdr?_eq_some hlen]
  simp only [allocateMessage, encodeHdr, hdr_word]
  have hf : flags % 2^16 < 2^16 := Nat.mod_lt _ (by decide)
  have ht : ttl % 2^16 < 2^16 := Nat.mod_lt _ (by decide)
  generalize flags % 2^16 = F at *
  generalize ttl % 2^16 = T at *
  have e1 : (id ++ natToLe 4 (F * 2^16 + T) ++ payload).take 32 = id := by
    rw [List.append_assoc, List.take_append_of_le_length (by omega), List.take_of_length_le (by omega)]
  have e2 : (id ++ natToLe 4 (F * 2^16 + T) ++ payload).drop 32 = natToLe 4 (F * 2^16 + T) ++ payload := by
    rw [List.append_assoc, List.drop_append_of_le_length (by omega), List.drop_of_length_le (by omega)]; rfl
  have e3 : (id ++ natToLe 4 (F * 2^16 + T) ++ payload).drop 34 =
      (natToLe 4 (F * 2^16 + T) ++ payload).drop 2 := by
    rw [show 34 = 32 + 2 from rfl, ← List.drop_drop, e2]
  rw [e1, e2, e3]
  simp only [natToLe, List.cons_append, List.take_succ_cons, List.take_zero, List.drop_succ_cons, List.drop_zero,
    leToNat]
  congr 1
  refine Hdr.mk.injEq .. ▸ ⟨rfl, ?_, ?_⟩ <;> omega

/-- **round trip**: id, ttl and flags read back from a frame are those it was built with (16-bit wire range).
    (No hypothesis on the id's bytes is needed: the decoder copies them.) -/
theorem hdr_roundtrip (id : Id) (hid : id.length = 32) (ttl flags : Nat) (payload : Bytes)
    (httl : ttl < 2^16) (hf : flags < 2^16) :
    decodeHdr? (allocateMessage id ttl flags payload) = some ⟨id, ttl, flags⟩ := by
  rw [hdr_decode_alloc id hid, Nat.mod_eq_of_lt httl, Nat.mod_eq_of_lt hf]

/-- outside the wire range the ttl is silently truncated (`allocate_message` takes a `u32`, the wire has 16 bits) -/
theorem hdr_ttl_truncates (id : Id) (hid : id.length = 32) (ttl flags : Nat) (payload : Bytes)
    (_httl : ttl < 2^32) (hf : flags < 2^16) :
    decodeHdr? (allocateMessage id ttl flags payload) = some ⟨id, ttl % 2^16, flags⟩ := by
  rw [hdr_decode_alloc id hid, Nat.mod_eq_of_lt hf]

theorem decode_short (frame : Bytes) (h : frame.length < 36) : decodeHdr? frame = none :=
  decodeHdr?_eq_none h

/-- a frame of at least a header decodes, and the id is its first 32 bytes -/
theorem decode_long (frame : Bytes) (h : 36 ≤ frame.length) :
    ∃ hd, decodeHdr? frame = some hd ∧ hd.id = frame.take 32 := ⟨_, decodeHdr?_eq_some h, rfl⟩

example : decodeHdr? (pubF id1 300 [9, 9]) = some ⟨id1, 300, 0⟩ := by decide
example : decodeHdr? (allocateMessage id1 65537 7 []) = some ⟨id1, 1, 7⟩ := by decide   -- ttl 65537 reads back as 1
example : decodeHdr? (List.replicate 35 0) = none := by decide

/-! ### refinement of the heap-free specification -/

/--
**The model of the Rust refines `RelaySpec`** on every history: folding `RelaySpec.step` from the empty map at time 0
gives (a) the same list of per-step deliveries, as lists; (b) the specification state is *equal* (as a list) to the
abstraction `abs` of the concrete state, and the clocks agree; (c) `abs` has, for every id, exactly the concrete
entry: a stored frame with expiry = the time of its unique `.pub` heap entry, or the waiters with their deadline.
-/
theorem refines (ops : List Op) :
    specRun [] 0 ops = ((abs (run {} ops).1.st, (run {} ops).1.now), (run {} ops).2) ∧
    ∀ i, match lookup i (run {} ops).1.st.msgs with
      | some (.ready m) => ∃ w, RelaySpec.lookup i (abs (run {} ops).1.st) = some (.ready m w) ∧
            (run {} ops).1.st.heap.filter (fun e => decide (e.id = i ∧ e.kind = .pub)) = [⟨w, i, .pub⟩]
      | some (.waiters exp conns) => RelaySpec.lookup i (abs (run {} ops).1.st) = some (.waiting exp conns)
      | none => RelaySpec.lookup i (abs (run {} ops).1.st) = none := by
  refine ⟨(refines_run (y := {}) WF_init ops).1, fun i => ?_⟩
  have hwf := WF_reach ops
  rcases entry_cases (lookup i (run {} ops).1.st.msgs) with ⟨m, hl⟩ | ⟨exp, conns, hl⟩ | hl
  · rw [hl]; exact ⟨_, by simp [lookup_abs, hl, absEntry], hwf.pubs_eq hl⟩
  · rw [hl]; simp [lookup_abs, hl, absEntry]
  · rw [hl]; simp [lookup_abs, hl]

/-- the same with the specification run written as a left fold of `RelaySpec.step` from `([], 0)` -/
theorem refines_fold (ops : List Op) :
    (ops.foldl (fun (acc : (RelaySpec.Spec × Nat) × List (List Delivery)) op =>
        let r := RelaySpec.step acc.1.1 acc.1.2 op
        ((r.1, r.2.1), acc.2 ++ [r.2.2])) (([], 0), [])) =
      ((abs (run {} ops).1.st, (run {} ops).1.now), (run {} ops).2) :=
  (specFold_eq ops).trans (refines ops).1

/-- single operations: `RelaySpec.step` on `abs` = `abs` of `step`, with the same deliveries, from every reachable state -/
theorem refines_each (ops : List Op) (op : Op) :
    RelaySpec.step (abs (run {} ops).1.st) (run {} ops).1.now op =
      (abs (step (run {} ops).1 op).1.st, (step (run {} ops).1 op).1.now, (step (run {} ops).1 op).2.1) :=
  refines_step (WF_reach ops) op

example : specRun [] 0 [.frame 1 (askF id0 10), .tick 3, .service (pubF id0 2 [7]), .tick 3, .frame 2 (askF id0 1)]
    = (([(id0, .waiting 7 [2])], 6), [[], [], [(1, pubF id0 2 [7])], [], []]) := by decide

/-! ### the three local cases -/

/-- "stored and unexpired" on a reachable state: the entry seen after `cleanup` is the stored one, provided the
    clock is still below the time of its `.pub` heap entry -/
theorem stored_and_unexpired (ops : List Op) (now : Nat) (i : Id) (m : Bytes) :
    lookup i (cleanup now (run {} ops).1.st).msgs = some (.ready m) ↔
      lookup i (run {} ops).1.st.msgs = some (.ready m) ∧ now < pubExp i (run {} ops).1.st.heap :=
  lookup_cleanup_ready (WF_reach ops) now i m

/-- **immediately**: an ask for an id whose message is stored (and survived `cleanup`) is answered at once with
    exactly one copy, to the asker only, and the map is left as `cleanup` left it -/
theorem ask_ready_immediate (y : Sys) (c : Nat) (a : Bytes) (h : Hdr) (m : Bytes)
    (ha : a.length = 36) (hd : decodeHdr? a = some h)
    (hl : lookup h.id (cleanup y.now y.st).msgs = some (.ready m)) :
    step y (.frame c a) = ({ y with st := cleanup y.now y.st }, [(c, m)], .ok) := by
  simp [step, startSend, hd, hdr_size, ha, recv_ready hl]

example : (step (run {} [.service (pubF id0 5 [7]), .tick 4]).1 (.frame 3 (askF id0 1))).2.1 = [(3, pubF id0 5 [7])] := by
  decide

/-- **on publication**: a publication under an id with registered waiters delivers exactly one byte-identical copy
    per registered ask, to exactly those connections, and stores the frame -/
theorem publish_delivers_to_waiters (y : Sys) (op : Op) (f : Bytes) (h : Hdr) (exp : Nat) (conns : List Nat)
    (hop : op = .service f ∨ ∃ c, op = .frame c f) (hf : 36 < f.length) (hd : decodeHdr? f = some h)
    (hl : lookup h.id (cleanup y.now y.st).msgs = some (.waiters exp conns)) :
    (step y op).2.1 = conns.map (fun c => (c, f)) ∧
      lookup h.id (step y op).1.st.msgs = some (.ready f) ∧ (step y op).2.2 = .ok := by
  have h36 : ¬ f.length = 36 := by omega
  have h36' : ¬ f.length ≤ 36 := by omega
  rcases hop with rfl | ⟨c, rfl⟩
  · simp [step, serviceSend, hd, hdr_size, h36', send_waiters hl, lookup_insert]
  · simp [step, startSend, hd, hdr_size, h36, send_waiters hl, lookup_insert]

example : (step (run {} [.frame 1 (askF id0 9), .frame 2 (askF id0 9), .frame 1 (askF id0 9)]).1
    (.service (pubF id0 5 [7]))).2.1 = [(1, pubF id0 5 [7]), (2, pubF id0 5 [7]), (1, pubF id0 5 [7])] := by decide

/-- **later publications are ignored**: a publication under an id whose message is stored delivers nothing and
    leaves the stored frame (and everything else) as `cleanup` left it -/
theorem first_publication_wins (y : Sys) (op : Op) (f : Bytes) (h : Hdr) (m : Bytes)
    (hop : op = .service f ∨ ∃ c, op = .frame c f) (hf : 36 < f.length) (hd : decodeHdr? f = some h)
    (hl : lookup h.id (cleanup y.now y.st).msgs = some (.ready m)) :
    (step y op).2.1 = [] ∧ (step y op).1.st = cleanup y.now y.st ∧
      lookup h.id (step y op).1.st.msgs = some (.ready m) := by
  have h36 : ¬ f.length = 36 := by omega
  have h36' : ¬ f.length ≤ 36 := by omega
  rcases hop with rfl | ⟨c, rfl⟩
  · simp [step, serviceSend, hd, hdr_size, h36', send_ready hl, hl]
  · simp [step, startSend, hd, hdr_size, h36, send_ready hl, hl]

example : (run {} [.service (pubF id0 5 [7]), .frame 4 (pubF id0 50 [8]), .frame 3 (askF id0 1)]).2
    = [[], [], [(3, pubF id0 5 [7])]] := by decide

/-! ### global: who receives what -/

/--
**No connection receives a message it did not ask for, and only published bytes are delivered.**
For every history and every delivery `(c, f)` among the outputs of its `k`-th operation: `f` is longer than a header
and carries some id `i`; connection `c` sent, at a position `j ≤ k`, a header-only frame `a` whose id field is `i`
(the ask being answered); and `f` is byte-identical to a frame published at some position `j' ≤ k`.
-/
theorem only_askers (ops : List Op) (k : Nat) (ds : List Delivery) (hk : (run {} ops).2[k]? = some ds)
    (c : Nat) (f : Bytes) (hd : (c, f) ∈ ds) :
    ∃ h, decodeHdr? f = some h ∧ 36 < f.length ∧
      (∃ j a ttl fl, j ≤ k ∧ ops[j]? = some (.frame c a) ∧ a.length = 36 ∧ decodeHdr? a = some ⟨h.id, ttl, fl⟩) ∧
      (∃ j, j ≤ k ∧ (ops[j]? = some (.service f) ∨ ∃ c', ops[j]? = some (.frame c' f))) := by
  rw [run_outputs_getElem?] at hk
  cases hop : ops[k]? with
  | none => simp [hop] at hk
  | some op =>
    simp only [hop, Option.map_some, Option.some.injEq] at hk
    subst hk
    obtain ⟨hwf, hkey, hhist⟩ := reachable (ops.take k)
    have hmem : ∀ o, o ∈ ops.take k ∨ o = op → ∃ j, j ≤ k ∧ ops[j]? = some o := by
      rintro o (ho | rfl)
      · obtain ⟨j, hj⟩ := List.mem_iff_getElem?.1 ho
        rw [List.getElem?_take] at hj
        by_cases hjk : j < k
        · exact ⟨j, by omega, by simpa [hjk] using hj⟩
        · simp [hjk] at hj
      · exact ⟨k, Nat.le_refl _, hop⟩
    -- turn the Boolean vocabulary into frames
    have asks_frame : ∀ o i, Op.asks c i o = true →
        ∃ a ttl fl, o = .frame c a ∧ a.length = 36 ∧ decodeHdr? a = some ⟨i, ttl, fl⟩ := by
      intro o i ho
      cases o with
      | frame c' a =>
        simp only [Op.asks, decide_eq_true_eq] at ho
        obtain ⟨rfl, ha, hi⟩ := ho
        cases hda : decodeHdr? a with
        | none => simp [hdrId, hda] at hi
        | some hh =>
          simp [hdrId, hda] at hi; subst hi
          exact ⟨a, hh.ttl, hh.flags, rfl, ha, hda⟩
      | service b => simp [Op.asks] at ho
      | tick n => simp [Op.asks] at ho
    have pub_frame : ∀ o, Op.publishesFrame f o = true → o = .service f ∨ ∃ c', o = .frame c' f := by
      intro o ho
      cases o with
      | frame c' g => simp only [Op.publishesFrame, decide_eq_true_eq] at ho; exact Or.inr ⟨c', by rw [ho.2]⟩
      | service g => simp only [Op.publishesFrame, decide_eq_true_eq] at ho; exact Or.inl (by rw [ho.2])
      | tick n => simp [Op.publishesFrame] at ho
    obtain ⟨i, hi, hlen, hsrc⟩ := step_delivery hkey hd
    cases hdf : decodeHdr? f with
    | none => simp [hdrId, hdf] at hi
    | some h =>
      simp [hdrId, hdf] at hi; subst hi
      refine ⟨h, rfl, hlen, ?_, ?_⟩
      · -- the ask
        rcases hsrc with ⟨hask, _⟩ | ⟨_, exp, conns, hl, hc⟩
        · obtain ⟨a, ttl, fl, rfl, ha, hda⟩ := asks_frame op _ hask
          obtain ⟨j, hj, hjo⟩ := hmem _ (Or.inr rfl)
          exact ⟨j, a, ttl, fl, hj, hjo, ha, hda⟩
        · obtain ⟨o, ho, hask⟩ := hhist.2 _ _ _ (lookup_cleanup_some hl) c hc
          obtain ⟨a, ttl, fl, rfl, ha, hda⟩ := asks_frame o _ hask
          obtain ⟨j, hj, hjo⟩ := hmem _ (Or.inl ho)
          exact ⟨j, a, ttl, fl, hj, hjo, ha, hda⟩
      · -- the publication
        rcases hsrc with ⟨_, hl⟩ | ⟨hpub, _⟩
        · obtain ⟨o, ho, hpub⟩ := hhist.1 _ _ (lookup_cleanup_some hl)
          obtain ⟨j, hj, hjo⟩ := hmem _ (Or.inl ho)
          rcases pub_frame o hpub with rfl | ⟨c', rfl⟩
          · exact ⟨j, hj, Or.inl hjo⟩
          · exact ⟨j, hj, Or.inr ⟨c', hjo⟩⟩
        · obtain ⟨j, hj, hjo⟩ := hmem _ (Or.inr rfl)
          rcases pub_frame op hpub with rfl | ⟨c', rfl⟩
          · exact ⟨j, hj, Or.inl hjo⟩
          · exact ⟨j, hj, Or.inr ⟨c', hjo⟩⟩

example : (run {} [.frame 1 (askF id0 10), .frame 2 (askF id1 10), .service (pubF id0 2 [7])]).2
    = [[], [], [(1, pubF id0 2 [7])]] := by decide        -- connection 2 asked for another id: nothing for it

/--
**At most one copy per ask.**  For every history, connection `c` and id `i`: the number of deliveries to `c` of frames
whose header carries `i` is at most the number of header-only frames with id `i` that `c` sent.
-/
theorem at_most_once_per_ask (ops : List Op) (c : Nat) (i : Id) :
    ((run {} ops).2.flatten.countP fun d => decide (d.1 = c ∧ (decodeHdr? d.2).map (·.id) = some i)) ≤
      ops.countP fun op => match op with
        | .frame c' a => decide (c' = c ∧ a.length = 36 ∧ (decodeHdr? a).map (·.id) = some i)
        | _ => false := by
  have h := run_count (y := {}) Keyed_init ops c i
  have h0 : pending ({} : Sys).st c i = 0 := rfl
  have e : (fun op : Op => match op with
        | .frame c' a => decide (c' = c ∧ a.length = 36 ∧ (decodeHdr? a).map (·.id) = some i)
        | _ => false) = Op.asks c i := by
    funext op; cases op <;> rfl
  rw [e]
  have : deliveredTo c i (run {} ops).2.flatten ≤ List.countP (Op.asks c i) ops := by omega
  exact this

-- one ask, two publications (the second after the first expired): one copy only
example : (run {} [.frame 1 (askF id0 10), .service (pubF id0 1 [7]), .tick 5, .service (pubF id0 1 [8])]).2
    = [[], [(1, pubF id0 1 [7])], [], []] := by decide

/-! ### global: an unanswered ask stays registered for its whole time-to-live, and is then served -/

/--
**Registered until the ttl.**  Connection `c` asks for `i` with ttl `d` at time `t` (after any history `pre`) and is
not answered immediately.  Then for every continuation `cont` in which nobody publishes `i` and which ends before
`t + d`:  right after the ask the entry of `i` is `waiters exp₀ (conns₀ ++ [c])` with `t + d ≤ exp₀`, and after `cont`
it is still a waiters entry whose connection list is `conns₀ ++ [c]` extended by every later asker of `i`, in order —
so `c` is registered once per unanswered ask, none is lost, none duplicated — with deadline the maximum of `exp₀` and
the later asks' deadlines.
-/
theorem registered_until_ttl (pre : List Op) (c : Nat) (a : Bytes) (i : Id) (d fl : Nat) (cont : List Op)
    (ha : a.length = 36) (hd : decodeHdr? a = some ⟨i, d, fl⟩)
    (hun : (step (run {} pre).1 (.frame c a)).2.1 = [])
    (hnp : ∀ op ∈ cont, op.publishes i = false)
    (ht : (run {} (pre ++ .frame c a :: cont)).1.now < (run {} pre).1.now + d) :
    ∃ exp₀ conns₀,
      lookup i (run {} (pre ++ [.frame c a])).1.st.msgs = some (.waiters exp₀ (conns₀ ++ [c])) ∧
      (run {} pre).1.now + d ≤ exp₀ ∧
      lookup i (run {} (pre ++ .frame c a :: cont)).1.st.msgs =
        some (.waiters ((askDeadlines i (run {} pre).1.now cont).foldl max exp₀) (conns₀ ++ [c] ++ askers i cont)) := by
  have hwf := WF_reach pre
  generalize hy : (run {} pre).1 = y at *
  have hstep : (step y (.frame c a)).1 = { y with st := (recv y.st c i d y.now).1 } ∧
      (step y (.frame c a)).2.1 = (recv y.st c i d y.now).2 := by
    simp [step, startSend, hd, hdr_size, ha]
  have hrun1 : (run {} (pre ++ [.frame c a])).1 = (step y (.frame c a)).1 := by
    rw [run_append, hy]; rfl
  have hrun2 : (run {} (pre ++ .frame c a :: cont)).1 = (run (step y (.frame c a)).1 cont).1 := by
    rw [run_append, hy]; rfl
  rw [hstep.2, recv_deliveries] at hun
  -- the entry right after the ask
  have key : ∃ exp₀ conns₀, lookup i (step y (.frame c a)).1.st.msgs = some (.waiters exp₀ (conns₀ ++ [c])) ∧
      y.now + d ≤ exp₀ := by
    rw [hstep.1]; simp only [lookup_recv, if_true]
    rcases entry_cases (lookup i (cleanup y.now y.st).msgs) with ⟨m, hl⟩ | ⟨exp, conns, hl⟩ | hl
    · rw [hl] at hun; simp at hun
    · rw [hl]; exact ⟨_, conns, rfl, Nat.le_max_left _ _⟩
    · rw [hl]; exact ⟨_, [], rfl, Nat.le_refl _⟩
  obtain ⟨exp₀, conns₀, hl1, hexp⟩ := key
  refine ⟨exp₀, conns₀, by rw [hrun1]; exact hl1, hexp, ?_⟩
  rw [hrun2] at ht ⊢
  have hnow : (step y (.frame c a)).1.now = y.now := by simp [step_now, Op.secs]
  have := waiters_run (WF_step hwf _) hl1 cont hnp (alive_of_final_lt cont (by omega))
  rw [hnow] at this
  exact this

/--
**Served if published in time.**  In the situation of `registered_until_ttl`, a publication of a frame `f` under `i` as
the next operation — hence at a time `< t + d` — delivers `f` to exactly the registered connections: `c` receives one
byte-identical copy for this ask (plus one per other still-registered ask of its own: `conns₀.count c` earlier ones,
and its later ones in `cont`); together with `at_most_once_per_ask`: exactly one per ask.
-/
theorem exactly_once_if_published_in_time (pre : List Op) (c : Nat) (a : Bytes) (i : Id) (d fl : Nat)
    (cont : List Op) (pubop : Op) (f : Bytes) (h : Hdr)
    (ha : a.length = 36) (hd : decodeHdr? a = some ⟨i, d, fl⟩)
    (hun : (step (run {} pre).1 (.frame c a)).2.1 = [])
    (hnp : ∀ op ∈ cont, op.publishes i = false)
    (ht : (run {} (pre ++ .frame c a :: cont)).1.now < (run {} pre).1.now + d)
    (hop : pubop = .service f ∨ ∃ c', pubop = .frame c' f) (hf : 36 < f.length)
    (hdf : decodeHdr? f = some h) (hi : h.id = i) :
    ∃ conns₀, (step (run {} (pre ++ .frame c a :: cont)).1 pubop).2.1 =
        (conns₀ ++ [c] ++ askers i cont).map (fun c' => (c', f)) ∧
      (c, f) ∈ (step (run {} (pre ++ .frame c a :: cont)).1 pubop).2.1 ∧
      ((step (run {} (pre ++ .frame c a :: cont)).1 pubop).2.1.countP fun x => decide (x.1 = c)) =
        conns₀.count c + 1 + (askers i cont).count c := by
  obtain ⟨exp₀, conns₀, _, hexp, hl⟩ := registered_until_ttl pre c a i d fl cont ha hd hun hnp ht
  have hwf := WF_reach (pre ++ .frame c a :: cont)
  generalize (run {} (pre ++ .frame c a :: cont)).1 = y at *
  have hge := foldl_max_ge (askDeadlines i (run {} pre).1.now cont) exp₀
  have hc := (lookup_cleanup_waiters hwf y.now i _ _).2 ⟨hl, by omega⟩
  subst hi
  have hdel := (publish_delivers_to_waiters y pubop f h _ _ hop hf hdf hc).1
  refine ⟨conns₀, hdel, ?_, ?_⟩
  · rw [hdel]; exact List.mem_map.2 ⟨c, by simp, rfl⟩
  · rw [hdel, List.countP_map]
    have : ((fun x : Nat × Bytes => decide (x.1 = c)) ∘ fun c' => (c', f)) = fun c' => c' == c := by
      funext c'; by_cases hcc : c' = c <;> simp [Function.comp, hcc]
    rw [this, ← List.count_eq_countP' (a := c)]
    simp only [List.count_append, List.count_singleton_self]

-- registered (once per unanswered ask) while the clock is below 0 + 10, whatever else happens
example : lookup id0 (run {} [.frame 1 (askF id0 10), .tick 3, .frame 2 (askF id1 1), .frame 1 (askF id0 1),
    .tick 6, .frame 5 (askF id1 0)]).1.st.msgs = some (.waiters 10 [1, 1]) := by decide
-- ask at 0 with ttl 10; other traffic; publication at time 9 < 10 reaches the asker (twice: it asked twice) ...
example : (run {} [.frame 1 (askF id0 10), .tick 3, .frame 2 (askF id1 1), .frame 1 (askF id0 1), .tick 6,
    .service (pubF id0 2 [7])]).2 = [[], [], [], [], [], [(1, pubF id0 2 [7]), (1, pubF id0 2 [7])]] := by decide
-- ... while at time 10 = t + d the ask's time-to-live has elapsed: nothing is delivered
example : (run {} [.frame 1 (askF id0 10), .tick 10, .service (pubF id0 2 [7])]).2 = [[], [], []] := by decide
-- the brief's scenario: ask at 0 ttl 10; tick 3; publish ttl 2 (delivered); tick 3; a new ask finds nothing stored
example : (run {} [.frame 1 (askF id0 10), .tick 3, .service (pubF id0 2 [7]), .tick 3, .frame 2 (askF id0 1)]).2
    = [[], [], [(1, pubF id0 2 [7])], [], []] := by decide

end SlVerif.C15
