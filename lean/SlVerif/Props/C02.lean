import SlVerif.Proofs.RvoleAdv
import SlVerif.Props.C01
/-
  C02 — "An honest round-two message is always accepted.  A message altered in transit (any flipped bit, overwritten or
  swapped field, or content spliced from another session or run, without re-deriving the check values) is never accepted
  with wrong shares: if it touches the masked values, the check value or the check digest the receiver aborts, otherwise
  it aborts or the relation c + d = a*b is intact.  A sender that re-derives a self-consistent message for an input
  deviating at chosen gadget positions, under a guess of the receiver's choice bits there, is accepted only when every
  guess is right (the protocol's inherent selective-failure bound), and then a zero bit leaves the shares unaffected."

  Model: SlVerif/Model/Rvole.lean at `m := Id` with an ARBITRARY oracle `h`.  The receiver's state is `st = (sid, β, v_x)`;
  the round-two message is `msg = (a_tilde, eta, mu_hash)` (raw bytes).  `Accepted r` = "`process` returned `Ok`".
    checkDigest h sid β vx msg   the digest the receiver compares `mu_hash` with — a function of a_tilde and eta only
    sharesOf h sid β vx msg      the shares it outputs when it accepts       — a function of a_tilde only

  Proved for EVERY oracle, state and message:
    accept_iff, verdict                     the receiver accepts iff `mu_hash = checkDigest` and eta is canonically encoded
    eta_noncanonical_rejected               a non-canonical encoding of the check value (x + q) ⇒ Err          [unconditional]
    honest_accepted                         OT-extension variant, all inputs / tapes / seed sets (via C01.ext, C03.main)
    mu_hash_tamper_rejected                 any change of `mu_hash` alone (every bit flip, overwrite) ⇒ Err   [unconditional]
    accepted_implies_relation_if_atilde_untouched
                                            a_tilde untouched ⇒ Err, or the honest shares (so c + d = a·b is intact)
    selective_failure_zero_bits             adversarial sender accepted with β_j = 0 in all deviating rows ⇒ honest shares
    selective_failure_sound                 all guesses right ⇒ accepted                                         [unconditional]
  Proved under NAMED random-oracle hypotheses (`_partial`; each names the hash fact it needs):
    eta_tamper_rejected_partial             needs: β ≠ 0, the decoded check value really changed, and the mu hash separates
                                            the two lists of mu' values (collision-freeness on ONE pair of transcripts)
    selective_failure_partial               accept ↔ every guess right; needs: `θ·(a'_j − a) ≠ 0` in the deviating rows
                                            (θ = H(a_tilde) is a hash output) and the mu hash separates the adversary's list
                                            from the receiver's list
  NOT proved (random-oracle gap, stated here for the record): a change of `a_tilde` changes θ = H(a_tilde) to an unrelated
  hash output; that the receiver's new mu' list then misses the one digest in the message is a statement about merlin as
  a random oracle (for SOME `h`, e.g. constant `h`, every message with `mu_hash = h(·)` is accepted).  This case is
  covered by the correspondence stream (every single bit of a_tilde in the thorough tier).
-/
namespace SlVerif.C02
open SlVerif SlVerif.Rvole SlVerif.Generated

variable (h : Query → Id Bytes)

/-- **C02, the verdict**: what `RVOLEReceiver::process` returns, for every message -/
theorem verdict (st : RecvState) (msg : Msg2) :
    receiverProcess (m := Id) h st msg =
      if msg.muHash = checkDigest h st.sid st.beta st.vx msg ∧ etaCanonical msg.eta = true
      then .ok (sharesOf h st.sid st.beta st.vx msg) else .error checkFailed := by
  rw [receiverProcess_id, receiverCore_eq]

/-- **C02, acceptance criterion**: the receiver accepts iff the digest of its own mu' values is the `mu_hash` field and
    every `eta[k]` is canonically encoded (big-endian value below the group order) -/
theorem accept_iff (st : RecvState) (msg : Msg2) :
    Accepted (receiverProcess (m := Id) h st msg)
      ↔ msg.muHash = checkDigest h st.sid st.beta st.vx msg ∧ etaCanonical msg.eta = true := by
  rw [receiverProcess_id]; exact accepted_iff h _ _ _ _

/-- **C02, the check value has ONE accepted encoding** (unconditional): a message in which some `eta[k]` is not the
    canonical encoding of a scalar (big-endian value ≥ q, e.g. `x + q` for the honest `x`) is rejected, whatever the rest
    of the message is. -/
theorem eta_noncanonical_rejected (st : RecvState) (msg : Msg2) (e : Bytes) (he : e ∈ msg.eta)
    (hge : secpQ ≤ beToNat e) :
    receiverProcess (m := Id) h st msg = .error checkFailed := by
  rw [receiverProcess_id]
  apply rejected_of_noncanonical
  unfold etaCanonical
  rw [List.all_eq_false]
  exact ⟨e, he, by simp [Nat.not_lt.mpr hge]⟩

/-- **C02, first sentence** (OT-extension variant): an honest round-two message is always accepted — every oracle,
    session id, input vector, pair of tapes and seed sets in the all-but-one relation. -/
theorem honest_accepted (sid : Bytes) (encKeys decKeys : List (List Bytes)) (rc : List ℕ) (a : List ℕ)
    (tapeR tapeS : Tape) (hlen : L_BYTES ≤ tapeR.length) (hbytes : ∀ x ∈ tapeR, x < 256)
    (hseeds : ∀ i < LAMBDA_C_DIV_SOFT_SPOKEN_K, ∀ j < SOFT_SPOKEN_Q, j ≠ rc.getD i 0 →
      SoftSpoken.keyAt decKeys i j = SoftSpoken.keyAt encKeys i j) :
    ∃ c msg tS,
      senderProcess (m := Id) h sid rc decKeys a (receiverNew (m := Id) h sid encKeys tapeR).2.1 tapeS = .ok (c, msg, tS) ∧
      Accepted (receiverProcess (m := Id) h (receiverNew (m := Id) h sid encKeys tapeR).1 msg) := by
  obtain ⟨c, msg, tS, hs, d, hd, _⟩ := C01.ext h sid encKeys decKeys rc a tapeR tapeS hlen hbytes hseeds
  exact ⟨c, msg, tS, hs, d, hd⟩

/-- **C02, the check digest is bound** (unconditional): if `msg` is accepted, every message that differs from it ONLY in
    `mu_hash` (any flipped bit, any overwrite of that field) is rejected. -/
theorem mu_hash_tamper_rejected (st : RecvState) (msg msg' : Msg2)
    (hacc : Accepted (receiverProcess (m := Id) h st msg))
    (hA : msg'.aTilde = msg.aTilde) (hE : msg'.eta = msg.eta) (hH : msg'.muHash ≠ msg.muHash) :
    receiverProcess (m := Id) h st msg' = .error checkFailed := by
  rw [accept_iff] at hacc
  rw [receiverProcess_id]
  apply rejected_of_ne
  have : checkDigest h st.sid st.beta st.vx msg' = checkDigest h st.sid st.beta st.vx msg := by
    unfold checkDigest; rw [hA, hE]
  rw [this, ← hacc.1]
  exact hH

/-- the same for the bit-flip operator of the driver on a well-formed message: a flip inside `mu_hash` -/
theorem mu_hash_bitflip_rejected (st : RecvState) (msg : Msg2)
    (hacc : Accepted (receiverProcess (m := Id) h st msg))
    (heta : (msg.eta.flatMap id).length = RHO * KAPPA_BYTES) (hetaw : ∀ e ∈ msg.eta, e.length = KAPPA_BYTES)
    (hetal : msg.eta.length = RHO) (hmu : msg.muHash.length = 64)
    (pos : ℕ) (hlo : 8 * (XI * L_BATCH_PLUS_RHO * KAPPA_BYTES) + 8 * (RHO * KAPPA_BYTES) ≤ pos)
    (hhi : pos < 8 * (XI * L_BATCH_PLUS_RHO * KAPPA_BYTES) + 8 * (RHO * KAPPA_BYTES) + 8 * 64) :
    receiverProcess (m := Id) h st (tamperBitFast msg pos) = .error checkFailed := by
  -- with RHO = 1 the serialised tail is eta[0] ++ mu_hash; the flip hits byte `32 + k` of it, k < 64
  have hRHO : RHO = 1 := rfl
  have hK : KAPPA_BYTES = 32 := rfl
  obtain ⟨e0, he0⟩ : ∃ e0, msg.eta = [e0] := by
    match hm : msg.eta, hetal with
    | [e0], _ => exact ⟨e0, rfl⟩
    | [], hl => rw [hRHO] at hl; cases hl
    | _ :: _ :: _, hl => rw [hRHO] at hl; simp at hl
  have he0len : e0.length = 32 := by rw [← hK]; exact hetaw e0 (by rw [he0]; exact List.mem_singleton_self _)
  set ab := 8 * (XI * L_BATCH_PLUS_RHO * KAPPA_BYTES) with hab
  have hge : ¬ pos < ab := by omega
  have hq : (pos - ab) / 8 = 32 + ((pos - ab) / 8 - 32) := by rw [hRHO, hK] at hlo; omega
  have hk64 : (pos - ab) / 8 - 32 < 64 := by rw [hRHO, hK] at hlo hhi; omega
  have htail : flipBit (msg.eta.flatMap id ++ msg.muHash) (pos - ab)
      = e0 ++ msg.muHash.modify ((pos - ab) / 8 - 32) (· ^^^ (1 <<< ((pos - ab) % 8))) := by
    unfold flipBit
    rw [he0]
    simp only [List.flatMap_cons, List.flatMap_nil, List.append_nil, id]
    rw [hq, ← he0len, modify_append_right', he0len, ← hq]
  apply mu_hash_tamper_rejected h st msg _ hacc
  · unfold tamperBitFast; simp only; rw [if_neg hge]
  · unfold tamperBitFast; simp only; rw [if_neg hge]; simp only
    rw [htail, hRHO, hK, he0]
    show chunks 32 1 (e0 ++ _) = [e0]
    unfold chunks chunks
    rw [List.take_left' he0len]
  · unfold tamperBitFast; simp only; rw [if_neg hge]; simp only
    rw [htail, hRHO, hK, Nat.one_mul, List.drop_left' he0len]
    intro e
    have hlen : (msg.muHash.modify ((pos - ab) / 8 - 32) (· ^^^ (1 <<< ((pos - ab) % 8)))).length = 64 := by
      rw [List.length_modify]; exact hmu
    rw [List.take_of_length_le (by rw [hlen])] at e
    have hidx : (pos - ab) / 8 - 32 < msg.muHash.length := by rw [hmu]; exact hk64
    have := congrArg (fun l => l[(pos - ab) / 8 - 32]?) e
    simp only [List.getElem?_modify_eq, List.getElem?_eq_getElem hidx] at this
    replace this : msg.muHash[(pos - ab) / 8 - 32] ^^^ (1 <<< ((pos - ab) % 8)) = msg.muHash[(pos - ab) / 8 - 32] := by
      simpa using this
    -- x ^^^ 2^r = x is impossible
    have hx : msg.muHash[(pos - ab) / 8 - 32] ^^^ (1 <<< ((pos - ab) % 8)) ^^^ msg.muHash[(pos - ab) / 8 - 32]
        = msg.muHash[(pos - ab) / 8 - 32] ^^^ msg.muHash[(pos - ab) / 8 - 32] := by rw [this]
    rw [Nat.xor_comm (msg.muHash[(pos - ab) / 8 - 32]) _, Nat.xor_assoc, Nat.xor_self, Nat.xor_zero] at hx
    have : 0 < 1 <<< ((pos - ab) % 8) := by rw [Nat.one_shiftLeft]; exact Nat.two_pow_pos _
    omega

/-- **C02, "otherwise it aborts or the relation is intact"** (unconditional): a message whose `a_tilde` is that of an
    accepted message `msg` — whatever was done to `eta` and `mu_hash` — is rejected or yields exactly the shares of `msg`. -/
theorem accepted_implies_relation_if_atilde_untouched (st : RecvState) (msg msg' : Msg2) (d d' : List ℕ)
    (hA : msg'.aTilde = msg.aTilde)
    (hd : receiverProcess (m := Id) h st msg = .ok d) (hd' : receiverProcess (m := Id) h st msg' = .ok d') :
    d' = d := by
  rw [receiverProcess_id] at hd hd'
  rw [shares_of_accepted h _ _ _ _ _ hd, shares_of_accepted h _ _ _ _ _ hd']
  unfold sharesOf
  rw [hA]

/-- …in particular against an honest OT-extension run: the relation `c + d' = a·b` still holds for whatever the receiver
    outputs on a message with the honest `a_tilde`. -/
theorem relation_intact_if_atilde_untouched (sid : Bytes) (encKeys decKeys : List (List Bytes)) (rc : List ℕ)
    (a : List ℕ) (tapeR tapeS : Tape) (hlen : L_BYTES ≤ tapeR.length) (hbytes : ∀ x ∈ tapeR, x < 256)
    (hseeds : ∀ i < LAMBDA_C_DIV_SOFT_SPOKEN_K, ∀ j < SOFT_SPOKEN_Q, j ≠ rc.getD i 0 →
      SoftSpoken.keyAt decKeys i j = SoftSpoken.keyAt encKeys i j) :
    ∃ c msg tS,
      senderProcess (m := Id) h sid rc decKeys a (receiverNew (m := Id) h sid encKeys tapeR).2.1 tapeS = .ok (c, msg, tS) ∧
      ∀ msg' d', msg'.aTilde = msg.aTilde →
        receiverProcess (m := Id) h (receiverNew (m := Id) h sid encKeys tapeR).1 msg' = .ok d' →
        ∀ i < L_BATCH, (c.getD i 0 + d'.getD i 0) % secpQ
          = (a.getD i 0 * (receiverNew (m := Id) h sid encKeys tapeR).2.2.1) % secpQ := by
  obtain ⟨c, msg, tS, hs, d, hd, hrel⟩ := C01.ext h sid encKeys decKeys rc a tapeR tapeS hlen hbytes hseeds
  refine ⟨c, msg, tS, hs, ?_⟩
  intro msg' d' hA hd' i hi
  rw [accepted_implies_relation_if_atilde_untouched h _ msg msg' d d' hA hd hd']
  exact hrel i hi

/-- **C02, the check value is bound** (partial).  If `msg` is accepted and `msg'` differs from it only in `eta`, with a
    different DECODED check value in some column, the receiver has at least one choice bit 1, and the mu hash separates
    the two lists of mu' values, then `msg'` is rejected.
    Beyond the property's wording: `hbit` (for β = 0 the receiver never reads `eta`: every verifier of this protocol
    accepts; probability 2^-512, run as a directed excluded point by the stream), `hsep` (collision-freeness of merlin on
    one pair of transcripts).  `hval` says the check value changed as a scalar; for canonically encoded `eta` that is the
    same as the bytes changing, and a non-canonical `eta` (x + q) is rejected unconditionally
    (`eta_noncanonical_rejected`; before the repair of the receivers it was accepted — finding D10). -/
theorem eta_tamper_rejected_partial (st : RecvState) (msg msg' : Msg2)
    (hacc : Accepted (receiverProcess (m := Id) h st msg))
    (hA : msg'.aTilde = msg.aTilde) (hH : msg'.muHash = msg.muHash)
    (k : ℕ) (hk : k < RHO) (hval : (msg'.eta.map ofBe).getD k 0 % secpQ ≠ (msg.eta.map ofBe).getD k 0 % secpQ)
    (j : ℕ) (hj : j < XI) (hbit : bitAt st.beta j = true)
    (hsep : muHashOf (m := Id) h st.sid (recvMuList h st.sid st.beta st.vx msg')
              = muHashOf (m := Id) h st.sid (recvMuList h st.sid st.beta st.vx msg) →
            recvMuList h st.sid st.beta st.vx msg' = recvMuList h st.sid st.beta st.vx msg) :
    receiverProcess (m := Id) h st msg' = .error checkFailed := by
  rw [accept_iff] at hacc
  rw [receiverProcess_id]
  apply rejected_of_ne
  intro e
  rw [hH, hacc.1, checkDigest_eq, checkDigest_eq] at e
  have hl := hsep e.symm
  unfold recvMuList at hl
  rw [hA, muReceiver_eq, muReceiver_eq] at hl
  have he := List.map_inj_left.mp hl (j, k) (mem_muIdx_of hj hk)
  unfold muRecvEntry at he
  simp only [hbit, if_true] at he
  have hz := congrArg (fun x : ℕ => (x : Zq)) he
  simp only [cast_subq] at hz
  have hz' : (((msg'.eta.map ofBe).getD k 0 : ℕ) : Zq) = (((msg.eta.map ofBe).getD k 0 : ℕ) : Zq) := by
    linear_combination -hz
  exact hval ((ZMod.natCast_eq_natCast_iff' _ _ _).mp hz')

/-! ### the calibrated adversarial sender -/

/-- **C02, selective failure, soundness of the adversary's construction** (unconditional in the hash): if the OT relation
    holds and every guess is right, the re-derived deviating message IS accepted. -/
theorem selective_failure_sound (sid beta : Bytes) (v0 v1 vx : List (List Bytes)) (a : List ℕ) (tape : Tape)
    (devs : List Dev) (g : List ℕ)
    (hOT : ∀ j < XI, ∀ i < L_BATCH_PLUS_RHO,
      (vx.getD j []).getD i [] = if bitAt beta j then (v1.getD j []).getD i [] else (v0.getD j []).getD i [])
    (hright : ∀ j < XI, ∀ d, devAt devs j = some d → bitAt beta j = d.guess) :
    Accepted (receiverCore (m := Id) h sid beta vx (advCore (m := Id) h sid g v0 v1 a tape devs).2.1) := by
  rw [accepted_iff, checkDigest_eq]
  have hl := (adv_lists_eq_iff h sid beta v0 v1 vx a tape devs g (OTRel_of_bytes beta v0 v1 vx hOT)).mpr
    (fun j hj k _ d hd => Or.inl (hright j hj d hd))
  rw [hl, advCore_id]
  exact ⟨rfl, etaFinal_canonical _ _ _⟩

/-- **C02, selective failure** (partial).  Under the OT relation: the re-derived deviating message is accepted IFF every
    guess of the receiver's choice bit in a deviating row is right.
    Beyond the property's wording: `hvis` — the deviation is visible to the check, `θ·(a'_j − a) ≠ 0` for the deviating
    rows (θ is the hash of the deviating a_tilde; for a'_j = a nothing deviates) — and `hsep` — the mu hash separates the
    adversary's list of mu values from the receiver's list of mu' values (collision-freeness on one pair of transcripts). -/
theorem selective_failure_partial (sid beta : Bytes) (v0 v1 vx : List (List Bytes)) (a : List ℕ) (tape : Tape)
    (devs : List Dev) (g : List ℕ)
    (hOT : ∀ j < XI, ∀ i < L_BATCH_PLUS_RHO,
      (vx.getD j []).getD i [] = if bitAt beta j then (v1.getD j []).getD i [] else (v0.getD j []).getD i [])
    (hvis : ∀ j < XI, ∀ d, devAt devs j = some d → ∀ k < RHO,
      ((devShift (advTheta h sid v0 v1 a tape devs) a d.a' k : ℕ) : Zq) ≠ 0)
    (hsep : muHashOf (m := Id) h sid (recvMuList h sid beta vx (advCore (m := Id) h sid g v0 v1 a tape devs).2.1)
              = muHashOf (m := Id) h sid (advMuList h sid v0 v1 a tape devs) →
            recvMuList h sid beta vx (advCore (m := Id) h sid g v0 v1 a tape devs).2.1 = advMuList h sid v0 v1 a tape devs) :
    Accepted (receiverCore (m := Id) h sid beta vx (advCore (m := Id) h sid g v0 v1 a tape devs).2.1)
      ↔ ∀ j < XI, ∀ d, devAt devs j = some d → bitAt beta j = d.guess := by
  constructor
  · intro hacc j hj d hd
    rw [accepted_iff, checkDigest_eq] at hacc
    have hmu : (advCore (m := Id) h sid g v0 v1 a tape devs).2.1.muHash
        = muHashOf (m := Id) h sid (advMuList h sid v0 v1 a tape devs) := by rw [advCore_id]; rfl
    have hl := hsep (by rw [← hacc.1, hmu])
    have := (adv_lists_eq_iff h sid beta v0 v1 vx a tape devs g (OTRel_of_bytes beta v0 v1 vx hOT)).mp hl
      j hj 0 rho_pos d hd
    exact this.resolve_right (hvis j hj d hd 0 rho_pos)
  · exact selective_failure_sound h sid beta v0 v1 vx a tape devs g hOT

/-- **C02, "a zero bit leaves the shares unaffected"** (unconditional): if the receiver's choice bit is 0 in every
    deviating row and the deviating message is accepted, the receiver's shares are exactly those of the honest message
    for the same tapes (`advCore … []` is the honest sender, `advCore_nil`). -/
theorem selective_failure_zero_bits (sid beta : Bytes) (v0 v1 vx : List (List Bytes)) (a : List ℕ) (tape : Tape)
    (devs : List Dev) (g : List ℕ) (d d' : List ℕ)
    (hz : ∀ j < XI, ∀ dv, devAt devs j = some dv → bitAt beta j = false)
    (hd : receiverCore (m := Id) h sid beta vx (senderCore (m := Id) h sid g v0 v1 a tape).2.1 = .ok d)
    (hd' : receiverCore (m := Id) h sid beta vx (advCore (m := Id) h sid g v0 v1 a tape devs).2.1 = .ok d') :
    d' = d := by
  rw [shares_of_accepted h _ _ _ _ _ hd, shares_of_accepted h _ _ _ _ _ hd', ← advCore_nil]
  unfold sharesOf
  rw [advCore_id, advCore_id]
  dsimp only
  exact adv_shares_zero_bits _ beta _ v0 v1 a tape devs hz

/-- **C02, selective failure, OT-extension variant** (partial): `advSender` against `RVOLEReceiver::process` after an
    honest round one, for all oracles, session ids, inputs, tapes, seed sets and deviation sets. -/
theorem selective_failure_ext_partial (sid : Bytes) (encKeys decKeys : List (List Bytes)) (rc : List ℕ) (a : List ℕ)
    (tapeR tapeS : Tape) (devs : List Dev) (hlen : L_BYTES ≤ tapeR.length) (hbytes : ∀ x ∈ tapeR, x < 256)
    (hseeds : ∀ i < LAMBDA_C_DIV_SOFT_SPOKEN_K, ∀ j < SOFT_SPOKEN_Q, j ≠ rc.getD i 0 →
      SoftSpoken.keyAt decKeys i j = SoftSpoken.keyAt encKeys i j) :
    ∃ so c msg tS,
      SoftSpoken.senderProcess (m := Id) h sid rc decKeys (receiverNew (m := Id) h sid encKeys tapeR).2.1 = .ok so ∧
      advSender (m := Id) h sid rc decKeys a (receiverNew (m := Id) h sid encKeys tapeR).2.1 tapeS devs
        = some (c, msg, tS) ∧
      ((∀ j < XI, ∀ d, devAt devs j = some d → ∀ k < RHO,
          ((devShift (advTheta h sid so.v_0 so.v_1 a tapeS devs) a d.a' k : ℕ) : Zq) ≠ 0) →
       (muHashOf (m := Id) h sid (recvMuList h sid (receiverNew (m := Id) h sid encKeys tapeR).1.beta
            (receiverNew (m := Id) h sid encKeys tapeR).1.vx msg)
          = muHashOf (m := Id) h sid (advMuList h sid so.v_0 so.v_1 a tapeS devs) →
        recvMuList h sid (receiverNew (m := Id) h sid encKeys tapeR).1.beta
            (receiverNew (m := Id) h sid encKeys tapeR).1.vx msg = advMuList h sid so.v_0 so.v_1 a tapeS devs) →
       (Accepted (receiverProcess (m := Id) h (receiverNew (m := Id) h sid encKeys tapeR).1 msg)
          ↔ ∀ j < XI, ∀ d, devAt devs j = some d →
              bitAt (receiverNew (m := Id) h sid encKeys tapeR).1.beta j = d.guess)) := by
  have hβlen : (Tape.take tapeR L_BYTES).1.length = L_BYTES := by
    show (List.take L_BYTES tapeR).length = L_BYTES
    rw [List.length_take]; exact Nat.min_eq_left hlen
  have hβb : ∀ x ∈ (Tape.take tapeR L_BYTES).1, x < 256 := fun x hx => hbytes x (List.mem_of_mem_take hx)
  obtain ⟨so, hso, hvx, _⟩ := C03.main h sid encKeys decKeys rc (Tape.take tapeR L_BYTES).1 (Tape.take tapeR L_BYTES).2
    hβlen hβb hseeds
  have hOT : ∀ j < XI, ∀ i < L_BATCH_PLUS_RHO,
      (((SoftSpoken.receiverProcess (m := Id) h sid encKeys (Tape.take tapeR L_BYTES).1
          (Tape.take tapeR L_BYTES).2).2.1.v_x).getD j []).getD i []
        = if bitAt (Tape.take tapeR L_BYTES).1 j then (so.v_1.getD j []).getD i [] else (so.v_0.getD j []).getD i [] :=
    fun j hj i hi => hvx j hj i hi
  rw [receiverNew_id]
  dsimp only
  have hadv : advSender (m := Id) h sid rc decKeys a
      (SoftSpoken.receiverProcess (m := Id) h sid encKeys (Tape.take tapeR L_BYTES).1 (Tape.take tapeR L_BYTES).2).1
      tapeS devs = some (advCore (m := Id) h sid (gadgetVec (m := Id) h sid) so.v_0 so.v_1 a tapeS devs) := by
    unfold advSender
    show (match SoftSpoken.senderProcess (m := Id) h sid rc decKeys _ with
          | .error _ => _ | .ok so => _) = _
    rw [hso]
    rfl
  refine ⟨so, (advCore (m := Id) h sid (gadgetVec (m := Id) h sid) so.v_0 so.v_1 a tapeS devs).1,
    (advCore (m := Id) h sid (gadgetVec (m := Id) h sid) so.v_0 so.v_1 a tapeS devs).2.1,
    (advCore (m := Id) h sid (gadgetVec (m := Id) h sid) so.v_0 so.v_1 a tapeS devs).2.2, hso, hadv, ?_⟩
  intro hvis hsep
  rw [receiverProcess_id]
  dsimp only
  exact selective_failure_partial h sid _ so.v_0 so.v_1 _ a tapeS devs _ hOT hvis hsep

/-! ### non-vacuity -/

/-- `mu_hash_tamper_rejected` is not vacuous: for every oracle there is an accepted message (the honest one), and
    flipping `mu_hash` to a different value gets it rejected -/
example :
    ∃ st msg, Accepted (receiverProcess (m := Id) h st msg) ∧
      ∀ x, x ≠ msg.muHash → receiverProcess (m := Id) h st { msg with muHash := x } = .error checkFailed := by
  obtain ⟨c, msg, tS, _, hacc⟩ := honest_accepted h [] [] [] [] [0, 1] (List.replicate 80 0) []
    (by rw [List.length_replicate]; exact Nat.le_of_ble_eq_true rfl)
    (by intro x hx; rw [List.eq_of_mem_replicate hx]; exact Nat.lt_of_sub_eq_succ rfl) (fun _ _ _ _ _ => rfl)
  exact ⟨_, msg, hacc, fun x hx => mu_hash_tamper_rejected h _ msg _ hacc rfl rfl hx⟩

/-- the hypotheses of `selective_failure_partial` are satisfiable and both sides of the equivalence occur: with no
    deviation every guess is (vacuously) right and the message is accepted -/
example (sid beta : Bytes) (v0 v1 vx : List (List Bytes)) (a : List ℕ) (tape : Tape) (g : List ℕ)
    (hOT : ∀ j < XI, ∀ i < L_BATCH_PLUS_RHO,
      (vx.getD j []).getD i [] = if bitAt beta j then (v1.getD j []).getD i [] else (v0.getD j []).getD i []) :
    Accepted (receiverCore (m := Id) h sid beta vx (advCore (m := Id) h sid g v0 v1 a tape []).2.1) :=
  selective_failure_sound h sid beta v0 v1 vx a tape [] g hOT (fun _ _ _ hd => by cases hd)

end SlVerif.C02
