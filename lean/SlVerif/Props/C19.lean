import SlVerif.Proofs.Gf128Reduce
import SlVerif.Proofs.Gf128Field
import SlVerif.Proofs.Gf128Bytes
/-
  C19 — "the 128-bit binary-field product is the GF(2^128) multiplication".

  `Gf.mul` (SlVerif/Model/Gf128.lean) is the executable model of
  `binary_field_multiply_gf_2_128` (crates/sl-oblivious/src/soft_spoken/mul_poly.rs): right-to-left
  comb with the code's `W`,`T`, then the byte-wise fold with the code's taps, bytes never cleared,
  result = low 16 bytes.  Its constants are regenerated from the Rust source on every run
  (SlVerif/Generated/Params.lean); the proofs below only go through for the values that make the
  statement true.

  Dictionary (defined in SlVerif/Proofs/Gf128.lean, characterised by `toPoly_coeff` below):
    `toPoly n : (ZMod 2)[X]`  — bit `i` of `n` is the coefficient of `X^i`;
    `P = X^128 + X^7 + X^2 + X + 1`.
  Through the little-endian byte ↔ ℕ map (`leToNat`), bit `i` of byte `j` is the coefficient of
  `X^(8j+i)` (`byte_layout`).

  All theorems quantify over every pair/triple of 128-bit operands: no enumeration, no sampling.
-/
open Polynomial

namespace SlVerif.C19
open SlVerif

/-! ### the dictionary is what it claims to be -/

/-- `toPoly n` has coefficient 1 at `X^i` exactly when bit `i` of `n` is set. -/
theorem toPoly_coeff (n i : ℕ) : (toPoly n).coeff i = if n.testBit i then 1 else 0 :=
  coeff_toPoly n i

/-- `toPoly` is injective (on all of ℕ, in particular below `2^128`). -/
theorem toPoly_injOn {a b : ℕ} : a < 2 ^ 128 → b < 2 ^ 128 → toPoly a = toPoly b → a = b :=
  fun _ _ h => toPoly_injective h

/-- the modulus is the polynomial of the Rust doc comment, it is monic of degree 128 -/
theorem P_def : P = X ^ 128 + X ^ 7 + X ^ 2 + X + 1 := by unfold P; rfl

theorem P_monic_degree : P.Monic ∧ P.degree = (128 : ℕ) := ⟨P_monic, P_degree⟩

/-- bit `i` of byte `j` (little-endian byte string) is bit `8j+i` of the integer, i.e. holds the
    coefficient of `x^(8j+i)`. -/
theorem byte_layout (bs : List ℕ) (hb : ∀ x ∈ bs, x < 256) (j i : ℕ) (hj : j < bs.length)
    (hi : i < 8) : (SlVerif.leToNat bs).testBit (8 * j + i) = (bs[j]).testBit i :=
  leToNat_testBit bs hb j i hj hi

/-! ### main theorem -/

/-- **C19.**  For all 128-bit `a`, `b`, the model of `binary_field_multiply_gf_2_128` returns the
    (unique, 128-bit) representative of `a·b mod P` in `GF(2)[X]`. -/
theorem mul_spec (a b : ℕ) (ha : a < 2 ^ 128) (hb : b < 2 ^ 128) :
    toPoly (Gf.mul a b) = (toPoly a * toPoly b) %ₘ P ∧ Gf.mul a b < 2 ^ 128 := by
  have hWT : Generated.GF_W * Generated.GF_T = 128 := by decide
  have hprod : toPoly (Gf.clmulComb Generated.GF_W Generated.GF_T a b) = toPoly a * toPoly b :=
    toPoly_clmulComb_eq_mul _ _ a b (by rw [hWT]; exact ha)
  have hlt : Gf.clmulComb Generated.GF_W Generated.GF_T a b < 2 ^ 256 :=
    lt_two_pow_of_degree_lt (by rw [hprod]; exact degree_mul_toPoly_lt ha hb)
  refine ⟨?_, reduce_lt _⟩
  show toPoly (Gf.reduce _) = _
  rw [toPoly_reduce _ hlt, hprod]

/-- The independent bit-serial reference `specMul` (shift-and-add, reduction after every doubling)
    meets the same specification … -/
theorem specMul_spec (a b : ℕ) (ha : a < 2 ^ 128) (hb : b < 2 ^ 128) :
    toPoly (Gf.specMul a b) = (toPoly a * toPoly b) %ₘ P ∧ Gf.specMul a b < 2 ^ 128 := by
  have h := specMulAux_spec a (toPoly b) 128 0 b 0 hb (by norm_num) (by rw [pow_zero, one_mul])
    (by simp [lowPoly, toPoly_zero])
  rw [specMul_eq a b hb]
  refine ⟨?_, h.1⟩
  rw [← modP_self_of_lt h.1, h.2, Nat.zero_add, lowPoly, ← toPoly_eq_sum_range a 128 ha]

/-- … hence agrees with the model everywhere: `specMul` is a sound executable oracle for the
    right-hand side of `mul_spec`. -/
theorem mul_eq_specMul (a b : ℕ) (ha : a < 2 ^ 128) (hb : b < 2 ^ 128) :
    Gf.mul a b = Gf.specMul a b :=
  toPoly_injective ((mul_spec a b ha hb).1.trans (specMul_spec a b ha hb).1.symm)

/-! ### field-multiplication laws, as corollaries -/

theorem mul_comm (a b : ℕ) (ha : a < 2 ^ 128) (hb : b < 2 ^ 128) : Gf.mul a b = Gf.mul b a :=
  toPoly_injective (by
    rw [(mul_spec a b ha hb).1, (mul_spec b a hb ha).1, _root_.mul_comm])

theorem mul_assoc (a b c : ℕ) (ha : a < 2 ^ 128) (hb : b < 2 ^ 128) (hc : c < 2 ^ 128) :
    Gf.mul (Gf.mul a b) c = Gf.mul a (Gf.mul b c) := by
  obtain ⟨hab, hab'⟩ := mul_spec a b ha hb
  obtain ⟨hbc, hbc'⟩ := mul_spec b c hb hc
  apply toPoly_injective
  rw [(mul_spec _ c hab' hc).1, (mul_spec a _ ha hbc').1, hab, hbc]
  calc (toPoly a * toPoly b %ₘ P * toPoly c) %ₘ P
      = (toPoly a * toPoly b * toPoly c) %ₘ P := modP_mul_congr (modP_modP _) rfl
    _ = (toPoly a * (toPoly b * toPoly c)) %ₘ P := by rw [_root_.mul_assoc]
    _ = (toPoly a * (toPoly b * toPoly c %ₘ P)) %ₘ P := modP_mul_congr rfl (modP_modP _).symm

theorem mul_xor_left (a b c : ℕ) (ha : a < 2 ^ 128) (hb : b < 2 ^ 128) (hc : c < 2 ^ 128) :
    Gf.mul (a ^^^ b) c = Gf.mul a c ^^^ Gf.mul b c :=
  toPoly_injective (by
    rw [(mul_spec _ c (Nat.xor_lt_two_pow ha hb) hc).1, toPoly_xor, toPoly_xor,
      (mul_spec a c ha hc).1, (mul_spec b c hb hc).1, add_mul, add_modByMonic])

theorem mul_xor_right (a b c : ℕ) (ha : a < 2 ^ 128) (hb : b < 2 ^ 128) (hc : c < 2 ^ 128) :
    Gf.mul a (b ^^^ c) = Gf.mul a b ^^^ Gf.mul a c :=
  toPoly_injective (by
    rw [(mul_spec a _ ha (Nat.xor_lt_two_pow hb hc)).1, toPoly_xor, toPoly_xor,
      (mul_spec a b ha hb).1, (mul_spec a c ha hc).1, mul_add, add_modByMonic])

theorem mul_one (a : ℕ) (ha : a < 2 ^ 128) : Gf.mul a 1 = a :=
  toPoly_injective (by
    rw [(mul_spec a 1 ha (by norm_num)).1, toPoly_one, _root_.mul_one, modP_self_of_lt ha])

theorem one_mul (a : ℕ) (ha : a < 2 ^ 128) : Gf.mul 1 a = a :=
  toPoly_injective (by
    rw [(mul_spec 1 a (by norm_num) ha).1, toPoly_one, _root_.one_mul, modP_self_of_lt ha])

/-! ### the literal byte-array model

  `Gf.mulBytes` (SlVerif/Model/Gf128Bytes.lean) follows the Rust statement by statement on u8 arrays:
  the three nested loops with the `mask`, the in-place 17-byte shift with carry, the seven tap
  statements in source order with per-byte truncation, `c[..16]`.  It is proved equal to the
  integer-level model, so everything above holds for it. -/

/-- For all 16-byte inputs the byte-array model returns the little-endian bytes of `Gf.mul` of the
    little-endian values. -/
theorem mulBytes_eq (a b : Bytes) (ha : a.length = 16) (hb : b.length = 16)
    (hab : ∀ x ∈ a ++ b, x < 256) :
    Gf.mulBytes a b = natToLe 16 (Gf.mul (leToNat a) (leToNat b)) :=
  mulBytes_eq_natToLe a b ha hb hab

/-- **C19 at byte level.**  The result is 16 bytes whose little-endian value is the representative
    of the product of the operands' values modulo `P`. -/
theorem mulBytes_spec (a b : Bytes) (ha : a.length = 16) (hb : b.length = 16)
    (hab : ∀ x ∈ a ++ b, x < 256) :
    toPoly (leToNat (Gf.mulBytes a b)) = (toPoly (leToNat a) * toPoly (leToNat b)) %ₘ P
      ∧ (Gf.mulBytes a b).length = 16 ∧ ∀ x ∈ Gf.mulBytes a b, x < 256 := by
  have hA : leToNat a < 2 ^ 128 := by
    have := leToNat_lt a (fun x hx => hab x (List.mem_append_left _ hx)); rwa [ha] at this
  have hB : leToNat b < 2 ^ 128 := by
    have := leToNat_lt b (fun x hx => hab x (List.mem_append_right _ hx)); rwa [hb] at this
  obtain ⟨h1, h2⟩ := mul_spec _ _ hA hB
  rw [mulBytes_eq a b ha hb hab]
  refine ⟨?_, natToLe_length _ _, natToLe_bytes _ _⟩
  rw [leToNat_natToLe, Nat.mod_eq_of_lt h2, h1]

/-! ### GF(2^128) is a FIELD: the modulus is irreducible

    Rabin's test (SlVerif/Proofs/Gf128Field.lean): the kernel evaluates, on the proved model `Gf.mul`,
    128 modular squarings of `X` (`X^(2^128) ≡ X mod P`) and one product with an inverse certificate
    (`gcd(X^(2^64) − X, P) = 1`); Mathlib's theory of finite fields does the rest. -/

/-- **`P = X^128 + X^7 + X^2 + X + 1` is irreducible over GF(2)**: `(ZMod 2)[X] / P` is the field GF(2^128) and
    `Gf.mul` (= `binary_field_multiply_gf_2_128`) is its multiplication on canonical representatives. -/
theorem P_irreducible : Irreducible P := P_irreducible'

/-- the two computations behind it, as polynomial facts -/
theorem P_rabin : P ∣ (X : (ZMod 2)[X]) ^ (2 ^ 128) - X ∧ IsCoprime ((X : (ZMod 2)[X]) ^ (2 ^ 64) - X) P :=
  ⟨P_dvd_X_pow_sub_X, coprime_X_pow_64⟩

set_option maxRecDepth 4000 in
/-- no zero divisors: the product of 128-bit elements is 0 exactly when a factor is 0 -/
theorem mul_eq_zero_iff (a b : ℕ) (ha : a < 2 ^ 128) (hb : b < 2 ^ 128) :
    Gf.mul a b = 0 ↔ a = 0 ∨ b = 0 := by
  have hzero : ∀ n, n < 2 ^ 128 → P ∣ toPoly n → n = 0 := by
    intro n hn hdvd
    apply toPoly_injective
    rw [toPoly_zero]
    exact Polynomial.eq_zero_of_dvd_of_degree_lt hdvd (by rw [P_degree]; exact degree_toPoly_lt hn)
  constructor
  · intro h0
    have hm := (mul_spec a b ha hb).1
    rw [h0, toPoly_zero] at hm
    have hdvd : P ∣ toPoly a * toPoly b := (Polynomial.modByMonic_eq_zero_iff_dvd P_monic).mp hm.symm
    rcases P_irreducible.prime.dvd_or_dvd hdvd with h | h
    · exact Or.inl (hzero a ha h)
    · exact Or.inr (hzero b hb h)
  · rintro (rfl | rfl)
    · apply toPoly_injective
      rw [(mul_spec 0 b (by norm_num) hb).1, toPoly_zero, zero_mul, Polynomial.zero_modByMonic]
    · apply toPoly_injective
      rw [(mul_spec a 0 ha (by norm_num)).1, toPoly_zero, mul_zero, Polynomial.zero_modByMonic]

/-- cancellation: multiplication by a non-zero element is injective -/
theorem mul_left_cancel (a b c : ℕ) (ha : a < 2 ^ 128) (hb : b < 2 ^ 128) (hc : c < 2 ^ 128) (ha0 : a ≠ 0)
    (h : Gf.mul a b = Gf.mul a c) : b = c := by
  have hx : Gf.mul a (b ^^^ c) = 0 := by
    rw [mul_xor_right a b c ha hb hc, h, Nat.xor_self]
  rcases (mul_eq_zero_iff a (b ^^^ c) ha (Nat.xor_lt_two_pow hb hc)).mp hx with h0 | h0
  · exact absurd h0 ha0
  · exact Nat.xor_eq_zero_iff.mp h0

/-- … hence every non-zero element has an inverse: `b ↦ Gf.mul a b` is a bijection of the 128-bit values -/
theorem mul_left_bijective (a : ℕ) (ha : a < 2 ^ 128) (ha0 : a ≠ 0) :
    ∀ y < 2 ^ 128, ∃ b < 2 ^ 128, Gf.mul a b = y := by
  intro y hy
  let f : Fin (2 ^ 128) → Fin (2 ^ 128) := fun b => ⟨Gf.mul a b, (mul_spec a b ha b.isLt).2⟩
  have hinj : Function.Injective f := by
    intro b c hbc
    exact Fin.ext (mul_left_cancel a b c ha b.isLt c.isLt ha0 (congrArg Fin.val hbc))
  obtain ⟨b, hb⟩ := (Finite.injective_iff_surjective.mp hinj) ⟨y, hy⟩
  exact ⟨b, b.isLt, congrArg Fin.val hb⟩

/-! ### non-vacuity: the statements are about the running model, on concrete operands -/

/-- `x^127 · x = x^128 ≡ x^7 + x^2 + x + 1`: the reduction really happens (0x87). -/
example : Gf.mul (2 ^ 127) 2 = 0x87 := by decide +kernel

/-- a dense case, evaluated: all-ones squared; model and bit-serial reference give the same value -/
example : Gf.mul (2 ^ 128 - 1) (2 ^ 128 - 1) = Gf.specMul (2 ^ 128 - 1) (2 ^ 128 - 1)
    ∧ Gf.mul (2 ^ 128 - 1) (2 ^ 128 - 1) ≠ 0 := by
  decide +kernel

/-- the hypotheses of `mul_spec` are satisfiable and its conclusion is not trivially true:
    the product of two non-zero 128-bit elements is non-zero here, and differs from the integer
    product. -/
example : ∃ a b, a < 2 ^ 128 ∧ b < 2 ^ 128 ∧ Gf.mul a b ≠ 0 ∧ Gf.mul a b ≠ a * b :=
  ⟨2 ^ 127, 2, by norm_num, by norm_num, by decide +kernel, by decide +kernel⟩

/-- the byte-level hypotheses are satisfiable and the conclusion is about concrete bytes:
    `x^127 · x` on byte strings gives the byte `0x87` followed by 15 zero bytes. -/
example : Gf.mulBytes (natToLe 16 (2 ^ 127)) (natToLe 16 2) = natToLe 16 0x87 := by
  rw [mulBytes_eq _ _ (natToLe_length _ _) (natToLe_length _ _)
    (by intro x hx; rcases List.mem_append.mp hx with h | h <;> exact natToLe_bytes _ _ x h),
    leToNat_natToLe, leToNat_natToLe]
  decide +kernel

/-- the field theorems are not vacuous: `X` (= 2) is non-zero, so it has an inverse among the 128-bit values, and the
    kernel-checked certificate of the Rabin test is a genuine inverse pair of non-trivial elements -/
example : (∃ b < 2 ^ 128, Gf.mul 2 b = 1) ∧ Gf.mul inv64 (sqIter 64 2 ^^^ 2) = 1 ∧ sqIter 128 2 = 2 :=
  ⟨mul_left_bijective 2 (by norm_num) (by norm_num) 1 (by norm_num), inv64_check, sqIter_128⟩

end SlVerif.C19
