import SlVerif.Proofs.VerEncToy
import Mathlib.Data.Nat.Prime.Basic
/-
  C09.  For every scalar x (including 0, 1, order-1 and scalars whose byte encoding begins or ends with zero bytes), label,
  permitted security parameter and RSA key, on secp256k1 and on edwards25519, the produced proof verifies against
  Q = x*G and decryption with the RSA private key returns x.  Serialising the proof and parsing it back yields an object
  that verifies, decrypts and re-serialises identically; security parameters outside 128..=256 are refused with an error.

  Model: `SlVerif.VerEnc` (Model/VerEnc.lean) — `encryptWithProof`, `verify`, `decrypt`, `toBytes`, `fromBytes`, with the
  label integer, `(m·L) mod n`, the modular inverse (`modInv?`, extended Euclid), `BigUint::to_bytes_be` (`toBytesBE`),
  scalar encodings (big-endian for k256, little-endian for curve25519-dalek, but READ big-endian by the crate on both),
  the zero padding of decrypted integers and the wire format all as verified Lean code.  SHA-256, the group and raw
  PKCS#1 v1.5 are an ARBITRARY pure oracle `h : Query → Bytes` (`m := Id`); what is assumed about `h` is written out:
    `CurveOracle h cp G`   group laws for the curve of `cp` on canonical/decodable encodings (Proofs/VerEncGroup.lean)
    `RsaOracle h key B`    PKCS#1 v1.5 encrypts every integer below `B` and decryption returns the message
                           (true for a k-byte modulus with B = 256^(k-11); the theorems need B = 2^512, i.e. k ≥ 75:
                           every modulus of at least 600 bits, in particular 1024/2048/3072/4096)
    `ShaSized h`           digests are 32 bytes
    `gcd(label integer, n) = 1`, `2^256 ≤ n`.
  "enc is a function of (key, seed, msg)" needs no hypothesis: `h` is a function.
  All statements are for EVERY scalar `x < order`, every label (any length), every parameter, every tape, every `n`.
-/
namespace SlVerif.C09
open SlVerif SlVerif.VerEnc

/-! ## wire format -/

/-- `from_bytes(to_bytes(p)) = Ok(p)` for every well-formed proof object `p` (32-byte seed, `128 ≤ security_param ≤ 256`
    slots and openings, points of the curve's size, ciphertexts of one common size `< 2^16`, reduced scalars) -/
theorem wire_roundtrip {cp : CurveParams} (hg : cp.Good) {p : Proof} (hw : WF cp p) :
    ∃ d, toBytes cp p = .ok d ∧ fromBytes cp d = .ok p :=
  fromBytes_toBytes hg hw

/-- `to_bytes` of a parsed proof is the input: parsing loses nothing (bytes are `< 256`) -/
theorem wire_roundtrip_bytes {cp : CurveParams} {d : Bytes} {p : Proof} (hb : ∀ x ∈ d, x < 256)
    (h : fromBytes cp d = .ok p) : toBytes cp p = .ok d ∧ WF cp p :=
  ⟨toBytes_fromBytes hb h, fromBytes_wf hb h⟩

/-- both curves satisfy the side conditions on the constants -/
theorem curves_good : secp.Good ∧ ed.Good := ⟨secp_good, ed_good⟩

/-! ## security parameter -/

/-- `encrypt_with_proof` refuses every security parameter outside `128..=256` (whatever the primitives answer, before
    any slot is made) -/
theorem param_refused (h : Query → Bytes) (cp : CurveParams) (x : ℕ) (key : Bytes) (n : ℕ) (label : Bytes) (sp : ℕ)
    (tape : Tape) (hsp : sp < 128 ∨ 256 < sp) :
    encryptP h cp x key n label (some sp) tape = .err .invalidSizeParam :=
  encryptP_refused h cp x key n label (some sp) tape hsp

/-- …and so does `from_bytes` (repair of D7): a parsed proof has `128 ≤ security_param ≤ 256`, exactly that many slots and
    openings; a serialised proof declaring any other parameter is an error -/
theorem param_refused_wire {cp : CurveParams} {d : Bytes} {p : Proof} (h : fromBytes cp d = .ok p) :
    128 ≤ p.param ∧ p.param ≤ 256 ∧ p.slots.length = p.param ∧ p.opens.length = p.param := by
  obtain ⟨_, a, b, c, e, _⟩ := fromBytes_shape h
  exact ⟨a, b, c, e⟩

theorem param_refused_wire_err (cp : CurveParams) (d : Bytes)
    (hsp : beToNat ((d.drop 32).take 2) < 128 ∨ 256 < beToNat ((d.drop 32).take 2)) :
    ∃ e, fromBytes cp d = .err e := by
  cases hr : fromBytes cp d with
  | ok p =>
    obtain ⟨_, _, _, h128, h256, hsp', _⟩ := fromBytes_ok hr
    omega
  | err e => exact ⟨e, rfl⟩
  | panic w => exact absurd hr (fromBytes_no_panic cp d w)

/-! ## completeness -/

/-- **C09, main clause.**  On secp256k1 and on edwards25519, for every reduced scalar `x`, label, tape, permitted
    parameter (`None` = 128) and key: `encrypt_with_proof` returns a proof `p` that verifies against `Q = x·G` and whose
    decryption is `x` — unconditionally: scalars or nonces whose integer encodings are short (leading zero bytes of the
    repr read big-endian) are padded back (repair of D9). -/
theorem complete {h : Query → Bytes} {cp : CurveParams} (hcp : cp = secp ∨ cp = ed) {G : Type} [AddCommGroup G]
    (co : CurveOracle h cp G) {key : Bytes} (hr : RsaOracle h key (2 ^ 512)) (hsha : ShaSized h) {n : ℕ}
    (hn : 2 ^ 256 ≤ n) {label : Bytes} (hco : Nat.gcd (labelIntP h label) n = 1) {x : ℕ} (hx : x < cp.order)
    (param : Option ℕ) (hp : 128 ≤ param.getD 128 ∧ param.getD 128 ≤ 256) (tape : Tape) :
    ∃ p tape', encryptP h cp x key n label param tape = .ok (p, tape') ∧
      verifyP h cp p (h (.ecMulGen cp.curve x)) key n label = .ok () ∧
      decryptP h cp p (h (.ecMulGen cp.curve x)) key n label = .ok x := by
  obtain ⟨p, t, h1, _, _, _, _, _, h2, h3⟩ := complete_aux hcp co hr hsha hn hco hx param hp tape
  exact ⟨p, t, h1, h2, h3⟩

/-- **C09, second clause.**  If moreover ciphertexts under this key have one common length `E < 2^16` (the modulus size),
    the honest proof is well-formed, so serialising and parsing gives back THE SAME object — which therefore verifies,
    decrypts to `x` and re-serialises to the same bytes. -/
theorem complete_wire {h : Query → Bytes} {cp : CurveParams} (hcp : cp = secp ∨ cp = ed) {G : Type} [AddCommGroup G]
    (co : CurveOracle h cp G) {key : Bytes} (hr : RsaOracle h key (2 ^ 512)) (hsha : ShaSized h) {n : ℕ}
    (hn : 2 ^ 256 ≤ n) {label : Bytes} (hco : Nat.gcd (labelIntP h label) n = 1) {x : ℕ} (hx : x < cp.order)
    (param : Option ℕ) (hp : 128 ≤ param.getD 128 ∧ param.getD 128 ≤ 256) (tape : Tape)
    {E : ℕ} (hE : E < 65536) (hlen : ∀ sd m, (h (.rsaEnc key sd m)).length = E) :
    ∃ p tape' d, encryptP h cp x key n label param tape = .ok (p, tape') ∧ toBytes cp p = .ok d ∧
      fromBytes cp d = .ok p ∧
      (∀ p', fromBytes cp d = .ok p' →
        verifyP h cp p' (h (.ecMulGen cp.curve x)) key n label = .ok () ∧
        decryptP h cp p' (h (.ecMulGen cp.curve x)) key n label = .ok x ∧ toBytes cp p' = .ok d) := by
  have hg : cp.Good := by rcases hcp with rfl | rfl; exact secp_good; exact ed_good
  obtain ⟨p, t, h1, hpar, hsl, hol, holt, ⟨hseed, hslots⟩, h2, h3⟩ := complete_aux hcp co hr hsha hn hco hx param hp tape
  have hw : WF cp p := by
    refine ⟨hseed, by omega, by omega, hsl, hol, ⟨E, hE, ?_⟩, holt⟩
    intro s hs
    obtain ⟨⟨r, hr1⟩, ⟨sd, m, hr2⟩, ⟨sd', m', hr3⟩⟩ := hslots s hs
    refine ⟨?_, ?_, ?_⟩
    · rw [hr1]; exact co.canon_length (co.canon_mulGen r)
    · rw [hr2]; exact hlen _ _
    · rw [hr3]; exact hlen _ _
  obtain ⟨d, hd1, hd2⟩ := fromBytes_toBytes hg hw
  refine ⟨p, t, d, h1, hd1, hd2, ?_⟩
  intro p' hp'
  rw [hd2] at hp'
  cases hp'
  exact ⟨h2, h3, hd1⟩

/-! ## building blocks that hold for every oracle -/

/-- `BigUint::from_bytes_be(v.to_bytes_be()) = v`, and padding the minimal encoding of a value below `256^len` to `len`
    bytes is its `len`-byte big-endian encoding (why the repair of D9 is correct) -/
theorem bigint_codec (v len : ℕ) (hl : 0 < len) (hv : v < 256 ^ len) :
    beToNat (toBytesBE v) = v ∧ padLeft len (toBytesBE v) = natToBe len v :=
  ⟨toBytesBE_val v, padLeft_toBytesBE hl hv⟩

/-- `mod_inverse` returns an inverse exactly for units, and label removal undoes label multiplication below `n` -/
theorem label_inverse {L n : ℕ} (hn : 0 < n) :
    (Nat.gcd L n = 1 → ∃ i, modInv? L n = some i ∧ ∀ m, m < n → (m * L % n) * i % n = m) ∧
    (Nat.gcd L n ≠ 1 → modInv? L n = none) := by
  refine ⟨fun hc => ?_, modInv?_none⟩
  obtain ⟨i, h1, _, h3⟩ := modInv?_spec hn hc
  exact ⟨i, h1, fun m hm => unlabel hm h3⟩

/-- the coprimality hypothesis of `complete` holds for every RSA modulus `n = p·q` whose primes exceed the (non-zero)
    256-bit label integer — every real key of 1024 bits and more; only a label whose SHA-256 digest is all zero escapes
    (then every plaintext is 0 and nothing can be decrypted: `InvalidLabel`) -/
theorem label_coprime_of_rsa_modulus {L p q : ℕ} (hp : p.Prime) (hq : q.Prime) (hL : 0 < L) (hLp : L < p) (hLq : L < q) :
    Nat.gcd L (p * q) = 1 :=
  Nat.Coprime.mul_right ((Nat.coprime_of_lt_prime hL.ne' hLp hp).symm) ((Nat.coprime_of_lt_prime hL.ne' hLq hq).symm)

/-- `decode_scalar(s.to_repr()) = Some(s)` on both curves, for every reduced scalar (incl. 0, 1, order-1, zero bytes at
    either end of the repr) -/
theorem scalar_codec {cp : CurveParams} (hcp : cp = secp ∨ cp = ed) {s : ℕ} (hs : s < cp.order) :
    decodeScalar cp (cp.repr s) = some s ∧ (cp.repr s).length = 32 := by
  rcases hcp with rfl | rfl
  · exact ⟨decodeScalar_repr secp_good hs, repr_length _ _⟩
  · exact ⟨decodeScalar_repr ed_good hs, repr_length _ _⟩

/-! ## non-vacuity -/

/-- the hypotheses of `complete` / `complete_wire` are satisfiable on both curves, for every `x`, label, parameter, tape:
    the toy oracle (group `ZMod order`, generator 1) satisfies all of them, with any modulus `n ≥ 2^256` (here `2^256` itself) -/
example (x : ℕ) (hx : x < secpQ) (label : Bytes) (tape : Tape) :
    ∃ p tape', encryptP (Toy.h secp) secp x [4, 0] (2 ^ 256) label none tape = .ok (p, tape') ∧
      verifyP (Toy.h secp) secp p (Toy.h secp (.ecMulGen .secp256k1 x)) [4, 0] (2 ^ 256) label = .ok () ∧
      decryptP (Toy.h secp) secp p (Toy.h secp (.ecMulGen .secp256k1 x)) [4, 0] (2 ^ 256) label = .ok x :=
  complete (Or.inl rfl) (Toy.co (Or.inl rfl)) (Toy.rsa _ _ _) (Toy.sha _)
    (le_refl _) (Toy.label_coprime _ _ _) hx none (by simp) tape

example (x : ℕ) (hx : x < edL) (label : Bytes) (tape : Tape) :
    ∃ p tape', encryptP (Toy.h ed) ed x [4, 0] (2 ^ 256) label (some 256) tape = .ok (p, tape') ∧
      verifyP (Toy.h ed) ed p (Toy.h ed (.ecMulGen .ed25519 x)) [4, 0] (2 ^ 256) label = .ok () ∧
      decryptP (Toy.h ed) ed p (Toy.h ed (.ecMulGen .ed25519 x)) [4, 0] (2 ^ 256) label = .ok x :=
  complete (Or.inr rfl) (Toy.co (Or.inr rfl)) (Toy.rsa _ _ _) (Toy.sha _)
    (le_refl _) (Toy.label_coprime _ _ _) hx (some 256) (by simp) tape

/-- well-formed proofs exist (so `wire_roundtrip` is not vacuous): 128 empty-ciphertext slots of 33 zero bytes -/
example : WF secp { seed := List.replicate 32 0,
                    slots := List.replicate 128 { gR := List.replicate 33 0, encXR := [], encR := [] },
                    opens := List.replicate 128 0, param := 128 } :=
  ⟨by simp, by simp, by simp, by simp, by simp,
   ⟨0, by norm_num, by intro s hs; rw [List.mem_replicate] at hs; rw [hs.2]; exact ⟨rfl, rfl, rfl⟩⟩,
   by intro s hs; rw [List.mem_replicate] at hs; rw [hs.2]; decide⟩

/-- `param_refused` is about real inputs: 127 and 257 are refused -/
example (h : Query → Bytes) (tape : Tape) :
    encryptP h secp 1 [] 5 [] (some 127) tape = .err .invalidSizeParam ∧
    encryptP h ed 1 [] 5 [] (some 257) tape = .err .invalidSizeParam :=
  ⟨param_refused h secp 1 [] 5 [] 127 tape (by omega), param_refused h ed 1 [] 5 [] 257 tape (by omega)⟩

end SlVerif.C09
