import SlVerif.Props.C15
/-
  C16 — "A published message stays available until its own time-to-live has elapsed and is not dropped early by the
  expiry of an unrelated or earlier ask; a waiting ask stays registered until the latest time-to-live among the asks
  it joined.  After any relay operation performed at time T, the relay holds no entry whose lifetime ended before T,
  so its memory is bounded by the live entries."

  Model / vocabulary: see Props/C15.lean.  The expiry of a stored message is the time of its `.pub` heap entry
  (`pubExp`; unique by the reachable-state invariant `WF`), the deadline of a waiters entry is the `exp` it stores.

  A *relay operation* (`op.isRelay`) is one that reaches `Inner::recv` / `Inner::send`: a connection frame of at least
  36 bytes or a service frame of more than 36 bytes.  Shorter frames are rejected (`Err(MessageSendError)`) resp.
  ignored before the relay's lock is taken; they and clock ticks leave the state untouched, so nothing is cleaned up
  by them — that is why the "after any relay operation" statements are about `isRelay` operations.

  Tie: `cleanup(now)` pops `when ≤ now` *before* the operation pushes `now + ttl`; hence after an operation at `T` every
  heap entry is `> T` except possibly the one pushed by this very operation with ttl 0 (`no_expired_entry_after_op`).
-/
namespace SlVerif.C16
open SlVerif SlVerif.Relay
open SlVerif.C15 (id0 id1 askF pubF)

/-! ### after an operation at time T nothing older than T is left -/

/--
For every history `pre` and relay operation `op` executed after it at time `T`: the resulting state satisfies the
invariant `Inv T` (one map entry per id; every stored message has exactly one `.pub` heap entry, and there is no other
`.pub` entry; every waiters entry is non-empty and the heap holds `⟨exp, id, ask⟩` for it; nothing in the heap is due
before `T`).  Explicitly: a stored message's expiry is `≥ T`, a waiters entry's deadline is `≥ T`, and the heap is what
`cleanup T` left of the old heap — all of it strictly later than `T` — plus at most the single entry pushed by `op`
itself (time `T + ttl`, so it equals `T` only for ttl 0).
-/
theorem no_expired_entry_after_op (pre : List Op) (op : Op) (hr : op.isRelay = true) :
    let y := (run {} pre).1
    let T := y.now
    let s := (step y op).1.st
    Inv T s ∧
    (∀ i m, lookup i s.msgs = some (.ready m) →
        (⟨pubExp i s.heap, i, .pub⟩ : Expire) ∈ s.heap ∧ T ≤ pubExp i s.heap) ∧
    (∀ i exp conns, lookup i s.msgs = some (.waiters exp conns) → T ≤ exp) ∧
    (∀ e ∈ s.heap, T ≤ e.when_) ∧
    (∃ rest, (∀ e ∈ rest, e ∈ y.st.heap ∧ T < e.when_) ∧
        (s.heap = rest ∨ ∃ e, pushOf T op = some e ∧ s.heap = rest ++ [e])) := by
  intro y T s
  have hwf : WF y.st := WF_reach pre
  have hinv : Inv T s := by
    rcases step_cases y op with ⟨c, a, h, rfl, ha, hd, hs, _⟩ | ⟨f, h, hop, hf, hd, hs, _⟩ | ⟨_, _, hnr⟩
    · show Inv y.now (step y _).1.st; rw [hs]; exact Inv_recv hwf ..
    · show Inv y.now (step y _).1.st; rw [hs]; exact Inv_send hwf ..
    · rw [hnr] at hr; cases hr
  refine ⟨hinv, fun i m hl => ⟨hinv.1.pubExp_mem hl, hinv.ready_exp hl⟩, fun i exp conns hl => hinv.waiters_exp hl,
    hinv.2, (cleanup T y.st).heap, fun e he => mem_cleanup_heap.1 he, ?_⟩
  rcases step_heap y op with ⟨hnr, _⟩ | ⟨_, h⟩
  · rw [hnr] at hr; cases hr
  · exact h

-- publish id0 (ttl 2) and id1 (ttl 9) at 0; at time 5 any relay operation (here an ask for a third id) leaves no
-- trace of id0: neither its map entry nor its heap entry
example : (run {} [.service (pubF id0 2 [7]), .service (pubF id1 9 [8]), .tick 5,
    .frame 1 (askF (List.replicate 32 2) 0)]).1.st
    = { msgs := [(List.replicate 32 2, .waiters 5 [1]), (id1, .ready (pubF id1 9 [8]))],
        heap := [⟨9, id1, .pub⟩, ⟨5, List.replicate 32 2, .ask⟩] } := by decide

/-- rejected / ignored frames and ticks are not relay operations: they do not touch the state (no cleanup either) -/
theorem non_relay_op_is_noop (y : Sys) (op : Op) (hr : op.isRelay = false) :
    (step y op).1.st = y.st ∧ (step y op).2.1 = [] := by
  rcases step_heap y op with ⟨_, h⟩ | ⟨h, _⟩
  · refine ⟨h, ?_⟩
    rcases step_cases y op with ⟨c, a, hh, rfl, ha, _⟩ | ⟨f, hh, hop, hf, _⟩ | ⟨_, hd, _⟩
    · simp [Op.isRelay, ha] at hr
    · rcases hop with rfl | ⟨c, rfl⟩ <;> simp [Op.isRelay] at hr <;> omega
    · exact hd
  · rw [h] at hr; cases hr

/--
**Memory is bounded by the live entries.**  After a relay operation at time `T` following any history `pre`:
the map has at most as many entries as the heap; every heap entry was pushed by a distinct ask / publication of the
history whose lifetime `time + ttl` has not ended before `T` (`pushes 0 H` lists the potential pushes of a history
started at time 0, in order, at most one per operation and none for non-relay operations).
-/
theorem size_le_live_entries (pre : List Op) (op : Op) (hr : op.isRelay = true) :
    let T := (run {} pre).1.now
    let s := (run {} (pre ++ [op])).1.st
    s.msgs.length ≤ s.heap.length ∧
    s.heap.length ≤ ((pushes 0 (pre ++ [op])).filter fun e => decide (T ≤ e.when_)).length ∧
    (pushes 0 (pre ++ [op])).length ≤ (pre ++ [op]).countP Op.isRelay := by
  intro T s
  have hwf : WF s := WF_reach _
  refine ⟨hwf.msgs_length_le, ?_, pushes_length_le _ _⟩
  have hsub := heap_sublist_pushes (pre ++ [op])
  have hs : s = (step (run {} pre).1 op).1.st := by
    show (run {} (pre ++ [op])).1.st = _; rw [run_append]; rfl
  have hall := (no_expired_entry_after_op pre op hr).2.2.2.1
  have : s.heap = s.heap.filter fun e => decide (T ≤ e.when_) := by
    symm; apply List.filter_eq_self.2; intro e he; rw [hs] at he; simpa using hall e he
  rw [this]
  exact (List.Sublist.filter _ hsub).length_le

/-- at any point of any history (not only right after a relay operation) -/
theorem size_le_history (ops : List Op) :
    (run {} ops).1.st.msgs.length ≤ (run {} ops).1.st.heap.length ∧
    (run {} ops).1.st.heap.length ≤ ops.countP Op.isRelay :=
  ⟨(WF_reach ops).msgs_length_le,
    Nat.le_trans (heap_sublist_pushes ops).length_le (pushes_length_le _ _)⟩

-- 3 asks + 1 publication so far, but at time 20 only the last ask (deadline 25) is live: one map entry, one heap entry
example : let s := (run {} [.frame 1 (askF id0 3), .frame 2 (askF id1 4), .service (pubF id0 5 [1]), .tick 20,
    .frame 3 (askF id1 5)]).1.st; s.msgs.length = 1 ∧ s.heap.length = 1 := by decide

/-! ### a published message lives exactly as long as its own time-to-live -/

/--
**Kept.**  A publication of `f` (id `h.id`, ttl `h.ttl`) at time `t` that stores its frame (nothing was stored under the
id when it acted) is still there, unchanged, after every continuation that ends before `t + ttl` — whatever else
happens: asks for this or other ids with any ttl, their expiries (earlier asks for the same id leave stale `.ask`
heap entries behind; popping them does not touch a stored message), other publications, re-publications.
-/
theorem ready_kept_until_ttl (pre : List Op) (pubop : Op) (f : Bytes) (h : Hdr) (cont : List Op)
    (hop : pubop = .service f ∨ ∃ c, pubop = .frame c f) (hf : 36 < f.length) (hd : decodeHdr? f = some h)
    (hstored : ∀ m, lookup h.id (cleanup (run {} pre).1.now (run {} pre).1.st).msgs ≠ some (.ready m))
    (ht : (run {} (pre ++ pubop :: cont)).1.now < (run {} pre).1.now + h.ttl) :
    lookup h.id (run {} (pre ++ pubop :: cont)).1.st.msgs = some (.ready f) := by
  have hwf : WF (run {} pre).1.st := WF_reach pre
  have hrun : (run {} (pre ++ pubop :: cont)).1 = (run (step (run {} pre).1 pubop).1 cont).1 := by
    rw [run_append]; rfl
  generalize (run {} pre).1 = y at *
  have hstep : (step y pubop).1 = { y with st := (send y.st h.id h.ttl f y.now).1 } := by
    have h36 : ¬ f.length = 36 := by omega
    have h36' : ¬ f.length ≤ 36 := by omega
    rcases hop with rfl | ⟨c, rfl⟩
    · simp [step, serviceSend, hd, hdr_size, h36']
    · simp [step, startSend, hd, hdr_size, h36]
  obtain ⟨h1, h2⟩ := send_stores hwf (ttl := h.ttl) (frame := f) hstored
  rw [hrun] at ht ⊢
  have hwf' := WF_step hwf pubop
  rw [hstep] at ht hwf' ⊢
  exact (ready_run hwf' h1 cont (by rw [h2]; exact ht)).1

/--
**Dropped.**  In the same situation, once the clock has reached `t + ttl` (here: `k` more seconds pass), the next relay
operation first removes the message: nothing is stored under the id when it acts — an ask is registered as a waiter
instead of being answered — and if a frame is stored under the id afterwards, it is the one this operation published.
-/
theorem ready_dropped_after_ttl (pre : List Op) (pubop : Op) (f : Bytes) (h : Hdr) (cont : List Op) (k : Nat) (op : Op)
    (hop : pubop = .service f ∨ ∃ c, pubop = .frame c f) (hf : 36 < f.length) (hd : decodeHdr? f = some h)
    (hstored : ∀ m, lookup h.id (cleanup (run {} pre).1.now (run {} pre).1.st).msgs ≠ some (.ready m))
    (ht : (run {} (pre ++ pubop :: cont)).1.now < (run {} pre).1.now + h.ttl)
    (hk : (run {} pre).1.now + h.ttl ≤ (run {} (pre ++ pubop :: cont)).1.now + k) (hr : op.isRelay = true) :
    let y := (run {} (pre ++ pubop :: cont ++ [.tick k])).1
    lookup h.id (cleanup y.now y.st).msgs = none ∧
    ∀ g, lookup h.id (step y op).1.st.msgs = some (.ready g) → op.publishesFrame g = true := by
  intro y
  have hwf0 : WF (run {} pre).1.st := WF_reach pre
  have hwf : WF (run {} (pre ++ pubop :: cont)).1.st := WF_reach _
  have hkept := ready_kept_until_ttl pre pubop f h cont hop hf hd hstored ht
  -- the expiry recorded in the heap is `t + ttl`
  have hexp : pubExp h.id (run {} (pre ++ pubop :: cont)).1.st.heap = (run {} pre).1.now + h.ttl := by
    have hrun : (run {} (pre ++ pubop :: cont)).1 = (run (step (run {} pre).1 pubop).1 cont).1 := by
      rw [run_append]; rfl
    rw [hrun] at ht ⊢
    generalize (run {} pre).1 = y0 at *
    have hstep : (step y0 pubop).1 = { y0 with st := (send y0.st h.id h.ttl f y0.now).1 } := by
      have h36 : ¬ f.length = 36 := by omega
      have h36' : ¬ f.length ≤ 36 := by omega
      rcases hop with rfl | ⟨c, rfl⟩
      · simp [step, serviceSend, hd, hdr_size, h36']
      · simp [step, startSend, hd, hdr_size, h36]
    obtain ⟨h1, h2⟩ := send_stores hwf0 (ttl := h.ttl) (frame := f) hstored
    have hwf' := WF_step hwf0 pubop
    rw [hstep] at ht hwf' ⊢
    rw [(ready_run hwf' h1 cont (by rw [h2]; exact ht)).2, h2]
  have hy : y = { (run {} (pre ++ pubop :: cont)).1 with now := (run {} (pre ++ pubop :: cont)).1.now + k } := by
    show (run {} (pre ++ pubop :: cont ++ [.tick k])).1 = _
    rw [run_append]; rfl
  have hnone : lookup h.id (cleanup y.now y.st).msgs = none := by
    rw [hy]; exact ready_expired hwf hkept (by rw [hexp]; exact hk)
  exact ⟨hnone, fun g hg => (ready_after_none hnone hg hr).1⟩

-- publish id0 with ttl 5 at time 1.  Meanwhile: an earlier ask for id0 (ttl 1) and an unrelated ask (id1, ttl 2)
-- expire — at time 5 the message is still served; at time 6 = 1 + 5 it is gone and the asker is queued instead.
example : (run {} [.frame 1 (askF id0 1), .tick 1, .service (pubF id0 5 [7]), .frame 2 (askF id1 2), .tick 4,
    .frame 3 (askF id0 1), .tick 1, .frame 4 (askF id0 1)]).2
    = [[], [], [], [], [], [(3, pubF id0 5 [7])], [], []] := by decide
example : lookup id0 (run {} [.frame 1 (askF id0 1), .tick 1, .service (pubF id0 5 [7]), .frame 2 (askF id1 2), .tick 4,
    .frame 3 (askF id0 1), .tick 1, .frame 4 (askF id0 1)]).1.st.msgs = some (.waiters 7 [4]) := by decide

/-! ### a waiters entry lives until the latest deadline among the asks that joined it -/

/-- the first ask for an id with nothing stored creates the waiters entry with its own deadline -/
theorem waiters_created (pre : List Op) (c : Nat) (a : Bytes) (h : Hdr) (ha : a.length = 36)
    (hd : decodeHdr? a = some h)
    (hn : lookup h.id (cleanup (run {} pre).1.now (run {} pre).1.st).msgs = none) :
    lookup h.id (run {} (pre ++ [.frame c a])).1.st.msgs = some (.waiters ((run {} pre).1.now + h.ttl) [c]) := by
  have : (run {} (pre ++ [.frame c a])).1 = (step (run {} pre).1 (.frame c a)).1 := by rw [run_append]; rfl
  rw [this]
  simp [step, startSend, hd, hdr_size, ha, recv_none hn, lookup_insert]

/--
**Kept until the latest deadline.**  From any reachable state in which `i` has a waiters entry `(exp, conns)`: let `cont`
be any continuation in which nobody publishes `i` and in which every relay operation happens strictly before the
entry's *current* deadline — the maximum of `exp` and of `time + ttl` of the asks for `i` executed so far in `cont`.
Then the entry is still there; its connection list is `conns` followed by every asker of `i` in `cont` (in order, one
per ask), and its stored deadline *equals* that maximum.  In particular the expiry of earlier asks with a shorter
ttl (whose `.ask` heap entries are popped on the way) and of unrelated ids does not remove it.
-/
theorem waiters_kept_until_max_ttl (pre : List Op) (i : Id) (exp : Nat) (conns : List Nat) (cont : List Op)
    (hl : lookup i (run {} pre).1.st.msgs = some (.waiters exp conns))
    (hnp : ∀ op ∈ cont, op.publishes i = false)
    (halive : ∀ j op, cont[j]? = some op → op.isRelay = true →
        (run (run {} pre).1 (cont.take j)).1.now <
          (askDeadlines i (run {} pre).1.now (cont.take j)).foldl max exp) :
    lookup i (run {} (pre ++ cont)).1.st.msgs =
      some (.waiters ((askDeadlines i (run {} pre).1.now cont).foldl max exp) (conns ++ askers i cont)) := by
  have := waiters_run (WF_reach pre) hl cont hnp halive
  rw [run_append]; exact this

/-- the stored deadline is the maximum: at least the old one and every joined ask's `time + ttl`, and one of them -/
theorem stored_deadline_is_max (i : Id) (t exp : Nat) (cont : List Op) :
    let E := (askDeadlines i t cont).foldl max exp
    exp ≤ E ∧ (∀ x ∈ askDeadlines i t cont, x ≤ E) ∧ (E = exp ∨ E ∈ askDeadlines i t cont) :=
  ⟨foldl_max_ge _ _, fun _ hx => foldl_max_mem_le _ _ hx, foldl_max_eq _ _⟩

/-- a continuation that ends before the deadline stored at its start is a special case -/
theorem waiters_kept_until_stored_deadline (pre : List Op) (i : Id) (exp : Nat) (conns : List Nat) (cont : List Op)
    (hl : lookup i (run {} pre).1.st.msgs = some (.waiters exp conns))
    (hnp : ∀ op ∈ cont, op.publishes i = false)
    (ht : (run {} (pre ++ cont)).1.now < exp) :
    lookup i (run {} (pre ++ cont)).1.st.msgs =
      some (.waiters ((askDeadlines i (run {} pre).1.now cont).foldl max exp) (conns ++ askers i cont)) :=
  waiters_kept_until_max_ttl pre i exp conns cont hl hnp
    (alive_of_final_lt cont (by rw [run_append] at ht; exact ht))

/-- **Dropped** at the deadline: a relay operation at a time `≥ exp` removes the waiters entry before acting -/
theorem waiters_dropped_after_deadline (pre : List Op) (i : Id) (exp : Nat) (conns : List Nat) (k : Nat)
    (hl : lookup i (run {} pre).1.st.msgs = some (.waiters exp conns))
    (hk : exp ≤ (run {} pre).1.now + k) :
    let y := (run {} (pre ++ [.tick k])).1
    lookup i (cleanup y.now y.st).msgs = none := by
  intro y
  have hwf : WF (run {} pre).1.st := WF_reach pre
  have hy : y = { (run {} pre).1 with now := (run {} pre).1.now + k } := by
    show (run {} (pre ++ [.tick k])).1 = _; rw [run_append]; rfl
  rw [hy]
  rcases entry_cases (lookup i (cleanup ((run {} pre).1.now + k) (run {} pre).1.st).msgs) with
    ⟨m, h⟩ | ⟨e, cs, h⟩ | h
  · have := lookup_cleanup_some h; rw [hl] at this; cases this
  · have h' := (lookup_cleanup_waiters hwf _ _ _ _).1 h
    rw [hl] at h'; simp at h'; omega
  · exact h

-- conn 1 asks at 0 with ttl 2, conn 2 joins at 1 with ttl 9 (deadline 10).  At time 5 — after the first ask's own
-- ttl and its heap entry's pop — both are still registered with deadline 10, and a publication at 9 serves both ...
example : lookup id0 (run {} [.frame 1 (askF id0 2), .tick 1, .frame 2 (askF id0 9), .tick 4,
    .frame 3 (askF id1 0)]).1.st.msgs = some (.waiters 10 [1, 2]) := by decide
example : (run {} [.frame 1 (askF id0 2), .tick 1, .frame 2 (askF id0 9), .tick 4, .frame 3 (askF id1 0), .tick 4,
    .service (pubF id0 1 [7])]).2 = [[], [], [], [], [], [], [(1, pubF id0 1 [7]), (2, pubF id0 1 [7])]] := by decide
-- ... while at time 10 the entry is dropped and nobody is served
example : (run {} [.frame 1 (askF id0 2), .tick 1, .frame 2 (askF id0 9), .tick 9,
    .service (pubF id0 1 [7])]).2 = [[], [], [], [], []] := by decide

end SlVerif.C16
