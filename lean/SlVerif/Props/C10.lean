import SlVerif.Proofs.VerEncToy
import SlVerif.Props.C09
/-
  C10.  A proof is accepted only in the context it was made for: verification fails when the claimed public point, the
  label or the RSA public key differ from those used by the prover, for forged proofs in which any opened scalar
  disagrees with the commitment or the ciphertext it opens, and (for a non-zero secret) when any byte of the serialised
  proof is altered.  Whenever verification succeeds, including for adversarially built proofs in which some unopened
  ciphertexts are garbage, decryption with the matching private key returns the discrete logarithm of the claimed point.

  Model and assumptions as in C09 (`Model/VerEnc.lean` at `m := Id`, arbitrary pure oracle `h`).  What is proved here:
    * `decrypt_sound`, `decrypt_sound_group`   whatever `decrypt` returns is a discrete logarithm of the claimed point — ALL
                                   proof objects, all oracles (no assumption for the byte form)
    * `verify_opened_consistent`   `verify = Ok` IFF every slot's opened scalar matches its commitment relation and
                                   re-encrypts (this label, key, seed) to the ciphertext the challenge selects
    * `good_slot_recovers`         one slot whose two ciphertexts decrypt and decode to r, x+r with (x+r-r)·G = Q suffices for
                                   `decrypt = Ok(dlog Q)` — garbage elsewhere is skipped (repair of D8), short encodings are
                                   padded (repair of D9)
    * `no_panic`                   `from_bytes` never panics; `verify` and `decrypt` never panic on a parsed proof
                                   (repair of D7: at most 256 slots)
    * `tampered_opening_rejected`  an altered opened scalar is ALWAYS rejected (full strength: openings are not hashed)
    * `verify_point_binding_partial`, `verify_point_binding_mixed_partial`, `context_changes_challenge_input_partial`
                                   context binding CONDITIONAL on challenge bits / on the hash separating its inputs.

  NOT provable for an arbitrary oracle, and why (the cut-and-choose gap):  "verify = Ok ⇒ some slot is good".  A prover
  who guesses all `k = security_param` challenge bits can make every UNOPENED ciphertext garbage; the guess is right with
  probability 2^-k per hash evaluation (2^-128 … 2^-256), and a prover corrupting only `j` slots succeeds with 2^-j per
  attempt (the harness adversary does exactly this, by grinding, for j ≤ 10).  So
      FULL STATEMENT (not a theorem):  verifyP h cp p q key n label = .ok () → ∃ v, decryptP … = .ok v ∧ v·G = Q
  holds only up to that probability over the random oracle; `good_slot_recovers` + `verify_opened_consistent` isolate the
  deterministic part: every opened side is consistent, and ONE slot whose unopened side is also honest suffices.
  Likewise "a changed label / key / slot byte is rejected" holds up to the probability that the new challenge opens, in
  every slot, a side that happens to be consistent — the `_partial` theorems state the deterministic core.
-/
namespace SlVerif.C10
open SlVerif SlVerif.VerEnc

/-! ## soundness of decryption -/

/-- **whatever `decrypt` returns is a discrete logarithm of the claimed point** — for every proof object (honest,
    parsed, adversarial), every oracle, every key/label: `decrypt = Ok(v)` implies `v·G` has the encoding `q`, and `v` is
    the candidate `x+r-r` of one of the slots.  No assumption. -/
theorem decrypt_sound (h : Query → Bytes) (cp : CurveParams) (p : Proof) (q key : Bytes) (n : ℕ) (label : Bytes) (v : ℕ)
    (hd : decryptP h cp p q key n label = .ok v) : h (.ecMulGen cp.curve v) = q := by
  rw [decryptP_eq] at hd
  split at hd
  · cases hd
  · exact (decryptSlots_sound h cp q key n _ p.slots v hd).1

/-- the same in the group: `v • G = Q` -/
theorem decrypt_sound_group {h : Query → Bytes} {cp : CurveParams} {G : Type} [AddCommGroup G] (co : CurveOracle h cp G)
    (p : Proof) (q key : Bytes) (n : ℕ) (label : Bytes) (v : ℕ)
    (hd : decryptP h cp p q key n label = .ok v) : v • co.gen = co.dec q := by
  rw [← decrypt_sound h cp p q key n label v hd, co.mulGen]

/-! ## what a successful verification means -/

/-- **`verify = Ok` iff every opened scalar is consistent**: for every slot `i < security_param` there are the slot, the
    opened scalar `s`, the challenge bit and `e = Enc(label, key, seed; s)` with `g_r` decodable and
    bit 1: `Q + g_r = s·G` and `enc_x_r = e`;  bit 0: `g_r = s·G` and `enc_r = e` (as canonical encodings). -/
theorem verify_opened_consistent (h : Query → Bytes) (cp : CurveParams) (p : Proof) (q key : Bytes) (n : ℕ) (label : Bytes) :
    verifyP h cp p q key n label = .ok () ↔
      ∀ i, i < p.param → SlotOK h cp p q key n (labelIntP h label) (chalP h q label p.slots) i := by
  rw [verifyP_eq, verifyFrom_ok_iff]
  constructor
  · intro hv i hi; exact hv i (Nat.zero_le _) (by omega)
  · intro hv i _ hi; exact hv i (by omega)

/-- the group reading: in every slot the opened scalar `s` satisfies `s·G = g_r` (bit 0) resp. `s·G = Q + g_r` (bit 1) and
    re-encrypts to the ciphertext of that side.  Hence a forged proof with ONE opened scalar that disagrees with its
    commitment or with the ciphertext it opens is rejected. -/
theorem verify_opened_consistent_group {h : Query → Bytes} {cp : CurveParams} {G : Type} [AddCommGroup G]
    (co : CurveOracle h cp G) {p : Proof} {q key : Bytes} {n : ℕ} {label : Bytes} (hq : co.Valid q)
    (hv : verifyP h cp p q key n label = .ok ()) {i : ℕ} (hi : i < p.param) :
    ∃ slot s bit, p.slots[i]? = some slot ∧ p.opens[i]? = some s ∧
      extractBit (chalP h q label p.slots) i = some bit ∧ co.Valid slot.gR ∧
      encP h key n (labelIntP h label) p.seed (cp.repr s) = some (if bit then slot.encXR else slot.encR) ∧
      (bit = true → co.dec q + co.dec slot.gR = s • co.gen) ∧ (bit = false → co.dec slot.gR = s • co.gen) :=
  SlotOK.group co hq ((verify_opened_consistent h cp p q key n label).1 hv i hi)

/-- contrapositive, as the property states it: an opened scalar that is inconsistent ⇒ verification fails -/
theorem inconsistent_opening_rejected (h : Query → Bytes) (cp : CurveParams) (p : Proof) (q key : Bytes) (n : ℕ)
    (label : Bytes) {i : ℕ} (hi : i < p.param)
    (hbad : ¬ SlotOK h cp p q key n (labelIntP h label) (chalP h q label p.slots) i) :
    verifyP h cp p q key n label ≠ .ok () :=
  fun hv => hbad ((verify_opened_consistent h cp p q key n label).1 hv i hi)

/-! ## one good slot is enough -/

/-- **garbage elsewhere does not matter**: if the proof has `security_param` slots and SOME slot is good (both
    ciphertexts decrypt, un-label, pad and decode to `r`, `x+r`, and `(x+r-r)·G = Q`), `decrypt` returns `Ok(v)` with
    `v·G = Q` — whatever the other slots contain (undecryptable bytes, encryptions of non-scalars, of wrong scalars, of
    values with short encodings).  In particular whenever verification succeeded AND one unopened side is honest. -/
theorem good_slot_recovers (h : Query → Bytes) (cp : CurveParams) (p : Proof) (q key : Bytes) (n : ℕ) (label : Bytes)
    (hlen : p.slots.length = p.param) (hg : ∃ s ∈ p.slots, GoodSlot h cp q key n (labelIntP h label) s) :
    ∃ v, decryptP h cp p q key n label = .ok v ∧ h (.ecMulGen cp.curve v) = q := by
  obtain ⟨v, hv⟩ := decryptSlots_good h cp q key n (labelIntP h label) p.slots hg
  have hd : decryptP h cp p q key n label = .ok v := by
    rw [decryptP_eq, if_neg (by simp [hlen])]; exact hv
  exact ⟨v, hd, decrypt_sound h cp p q key n label v hd⟩

/-- …and that `v` is THE discrete logarithm `x` of `Q = x·G` when the generator has exact order `cp.order` -/
theorem good_slot_recovers_dlog {h : Query → Bytes} {cp : CurveParams} {G : Type} [AddCommGroup G]
    (co : CurveOracle h cp G) (hinj : co.GenInj) (hpos : 0 < cp.order) (p : Proof) (key : Bytes) (n : ℕ) (label : Bytes)
    {x : ℕ} (hx : x < cp.order) (hlen : p.slots.length = p.param)
    (hg : ∃ s ∈ p.slots, GoodSlot h cp (h (.ecMulGen cp.curve x)) key n (labelIntP h label) s) :
    decryptP h cp p (h (.ecMulGen cp.curve x)) key n label = .ok x := by
  obtain ⟨v, hd, hv⟩ := good_slot_recovers h cp p _ key n label hlen hg
  have hvlt : v < cp.order := by
    rw [decryptP_eq, if_neg (by simp [hlen])] at hd
    obtain ⟨_, _, _, r, xr, _, _, rfl⟩ := decryptSlots_sound h cp _ key n _ p.slots v hd
    exact Nat.mod_lt _ hpos
  have := congrArg co.dec hv
  rw [co.mulGen, co.mulGen] at this
  rw [hd, hinj v x hvlt hx this]

/-- a verified proof with one good slot decrypts to the discrete logarithm of the claimed point (the two previous
    theorems combined in the form of the property; `verify = Ok` is not even needed) -/
theorem verified_good_slot_recovers (h : Query → Bytes) (cp : CurveParams) (p : Proof) (q key : Bytes) (n : ℕ)
    (label : Bytes) (hlen : p.slots.length = p.param) (_hv : verifyP h cp p q key n label = .ok ())
    (hg : ∃ s ∈ p.slots, GoodSlot h cp q key n (labelIntP h label) s) :
    ∃ v, decryptP h cp p q key n label = .ok v ∧ h (.ecMulGen cp.curve v) = q :=
  good_slot_recovers h cp p q key n label hlen hg

/-! ## no panics -/

/-- **no entry point panics**: `from_bytes` on any byte string; `verify` and `decrypt` on any parsed proof, for any
    claimed point, key, label and any behaviour of the primitives.  (Before the repair of D7 a parsed proof could carry
    more than 256 slots and `verify` indexed past the 32-byte challenge.) -/
theorem no_panic (h : Query → Bytes) (cp : CurveParams) (d : Bytes) (w : String) :
    fromBytes cp d ≠ .panic w ∧
    ∀ p, fromBytes cp d = .ok p → ∀ (q key : Bytes) (n : ℕ) (label : Bytes),
      verifyP h cp p q key n label ≠ .panic w ∧ decryptP h cp p q key n label ≠ .panic w := by
  refine ⟨fromBytes_no_panic cp d w, ?_⟩
  intro p hp q key n label
  obtain ⟨_, _, h256, hs, ho, _⟩ := fromBytes_shape hp
  constructor
  · rw [verifyP_eq]
    exact verifyFrom_no_panic h cp p q key n _ _ p.param 0 (by omega) (by omega) (by omega) w
  · rw [decryptP_eq]
    split
    · simp
    · exact decryptSlots_no_panic h cp q key n _ p.slots w

/-- `decrypt` never panics on ANY proof object; `verify` can only panic through an index: never when the object has
    `security_param ≤ 256` slots and openings -/
theorem no_panic_objects (h : Query → Bytes) (cp : CurveParams) (p : Proof) (q key : Bytes) (n : ℕ) (label : Bytes)
    (w : String) :
    decryptP h cp p q key n label ≠ .panic w ∧
    (p.param ≤ p.slots.length → p.param ≤ p.opens.length → p.param ≤ 256 → verifyP h cp p q key n label ≠ .panic w) := by
  constructor
  · rw [decryptP_eq]
    split
    · simp
    · exact decryptSlots_no_panic h cp q key n _ p.slots w
  · intro h1 h2 h3
    rw [verifyP_eq]
    exact verifyFrom_no_panic h cp p q key n _ _ p.param 0 (by omega) (by omega) (by omega) w

/-! ## binding -/

/-- **an altered opened scalar is always rejected** (this part of "any byte of the serialised proof is altered" needs no
    probability: the last `32·k` bytes are not hashed, so the challenge is unchanged, and `s ↦ s·G` is injective on
    reduced scalars; an alteration that makes the scalar non-canonical is refused by `from_bytes`) -/
theorem tampered_opening_rejected {h : Query → Bytes} {cp : CurveParams} {G : Type} [AddCommGroup G]
    (co : CurveOracle h cp G) (hinj : co.GenInj) {p : Proof} {q key : Bytes} {n : ℕ} {label : Bytes}
    (hq : co.Valid q) (hv : verifyP h cp p q key n label = .ok ()) {i s s' : ℕ} (hi : i < p.param)
    (hs : p.opens[i]? = some s) (hlt : s < cp.order) (hlt' : s' < cp.order) (hne : s' ≠ s) :
    verifyP h cp { p with opens := p.opens.set i s' } q key n label ≠ .ok () :=
  VerEnc.tampered_opening_rejected co hinj hq hv hi hs hlt hlt' hne

/-- FULL STATEMENT (not provable for an arbitrary `h`): `verifyP … q … = .ok () → q' ≠ q → verifyP … q' … ≠ .ok ()`.
    PROVED: if the proof is accepted for `q` and for `q'` (any labels, any keys) and some slot is opened on the `x+r` side
    in both verifications, then `q'` and `q` are the same point.  MISSING: that the two challenges — SHA-256 of different
    inputs — share a 1-bit among the first `k` bits (fails with probability (3/4)^k for independent uniform challenges). -/
theorem verify_point_binding_partial {h : Query → Bytes} {cp : CurveParams} {G : Type} [AddCommGroup G]
    (co : CurveOracle h cp G) {p : Proof} {q q' key key' : Bytes} {n n' : ℕ} {label label' : Bytes}
    (hq : co.Canon q) (hq' : co.Canon q')
    (hv : verifyP h cp p q key n label = .ok ()) (hv' : verifyP h cp p q' key' n' label' = .ok ())
    {i : ℕ} (hi : i < p.param)
    (hb : extractBit (chalP h q label p.slots) i = some true)
    (hb' : extractBit (chalP h q' label' p.slots) i = some true) : q = q' :=
  co.dec_inj hq hq' (verify_point_binding co (co.canon_valid hq) (co.canon_valid hq') hv hv' hi hb hb')

/-- PROVED (the mixed case): accepted for `q` with slot `i` opened on the `x+r` side and for `q'` with slot `i` opened on
    the `r` side forces `q` to be the identity, i.e. the secret to be zero.  Together with the previous theorem: for a
    NON-ZERO secret and `q' ≠ q`, both verifications can only succeed if NO slot is opened on the `x+r` side in the
    verification for `q`, i.e. if the challenge for `q` is zero on all of its first `k` bits (probability 2^-k). -/
theorem verify_point_binding_mixed_partial {h : Query → Bytes} {cp : CurveParams} {G : Type} [AddCommGroup G]
    (co : CurveOracle h cp G) {p : Proof} {q q' key key' : Bytes} {n n' : ℕ} {label label' : Bytes}
    (hq : co.Valid q) (hq' : co.Valid q')
    (hv : verifyP h cp p q key n label = .ok ()) (hv' : verifyP h cp p q' key' n' label' = .ok ())
    {i : ℕ} (hi : i < p.param)
    (hb : extractBit (chalP h q label p.slots) i = some true)
    (hb' : extractBit (chalP h q' label' p.slots) i = some false) : co.dec q = 0 :=
  verify_point_binding_mixed co hq hq' hv hv' hi hb hb'

/-- FULL STATEMENT (not provable): a changed label / claimed point / slot byte makes `verify` fail.
    PROVED: the challenge is `h` applied to an input that DETERMINES the claimed point, the slots' bytes and the label
    (given the point size) — so if `h` separates these inputs (collision-freeness of SHA-256 on them), every such change
    changes the challenge.  MISSING: that a different challenge leads to rejection (probability gap as above). -/
theorem context_changes_challenge_input_partial {q q' label label' : Bytes} {slots slots' : List Slot}
    (hlen : q.length = q'.length) (hsl : (slots.flatMap Slot.bytes).length = (slots'.flatMap Slot.bytes).length)
    (e : ascii "Verified-RSA-encryption" ++ q ++ slots.flatMap Slot.bytes ++ label =
         ascii "Verified-RSA-encryption" ++ q' ++ slots'.flatMap Slot.bytes ++ label') :
    q = q' ∧ slots.flatMap Slot.bytes = slots'.flatMap Slot.bytes ∧ label = label' := by
  rw [List.append_assoc, List.append_assoc, List.append_assoc, List.append_assoc] at e
  have e1 := List.append_cancel_left e
  obtain ⟨a, b⟩ := List.append_inj e1 hlen
  obtain ⟨c, d⟩ := List.append_inj b hsl
  exact ⟨a, c, d⟩

/-- …hence, under collision-freeness of `h` on the two inputs, the challenges of two different contexts differ -/
theorem context_changes_challenge_partial (h : Query → Bytes) {q q' label label' : Bytes} {slots : List Slot}
    (hlen : q.length = q'.length)
    (hinj : chalP h q label slots = chalP h q' label' slots →
      ascii "Verified-RSA-encryption" ++ q ++ slots.flatMap Slot.bytes ++ label =
      ascii "Verified-RSA-encryption" ++ q' ++ slots.flatMap Slot.bytes ++ label')
    (hne : q ≠ q' ∨ label ≠ label') : chalP h q label slots ≠ chalP h q' label' slots := by
  intro e
  obtain ⟨a, _, c⟩ := context_changes_challenge_input_partial hlen rfl (hinj e)
  rcases hne with hne | hne
  · exact hne a
  · exact hne c

/-! ## non-vacuity -/

/-- verified, decryptable proofs exist for the toy oracle (both curves), so `decrypt_sound`, `verify_opened_consistent`,
    `good_slot_recovers` and `no_panic` speak about something: take the honest proof of C09 -/
example (x : ℕ) (hx : x < edL) (label : Bytes) (tape : Tape) :
    ∃ p, verifyP (Toy.h ed) ed p (Toy.h ed (.ecMulGen .ed25519 x)) [4, 0] (2 ^ 256) label = .ok () ∧
      decryptP (Toy.h ed) ed p (Toy.h ed (.ecMulGen .ed25519 x)) [4, 0] (2 ^ 256) label = .ok x ∧
      x • (Toy.co (cp := ed) (Or.inr rfl)).gen = (Toy.co (cp := ed) (Or.inr rfl)).dec (Toy.h ed (.ecMulGen .ed25519 x)) := by
  obtain ⟨p, _, _, hv, hd⟩ := C09.complete (Or.inr rfl) (Toy.co (Or.inr rfl)) (Toy.rsa ed [4, 0] _) (Toy.sha _)
    (le_refl (2 ^ 256)) (Toy.label_coprime _ label _) hx none (by simp) tape
  exact ⟨p, hv, hd, decrypt_sound_group (Toy.co (Or.inr rfl)) p _ _ _ _ x hd⟩

/-- the hypotheses of the binding theorems are satisfiable: the toy generator is injective on reduced scalars -/
example : (Toy.co (cp := secp) (Or.inl rfl)).GenInj ∧ (Toy.co (cp := ed) (Or.inr rfl)).GenInj :=
  ⟨Toy.genInj _, Toy.genInj _⟩

/-- a good slot exists in the honest proof, so the hypothesis of `good_slot_recovers` is satisfiable -/
example (x : ℕ) (hx : x < secpQ) (label : Bytes) (tape : Tape) :
    ∃ p : Proof, p.slots.length = p.param ∧
      ∃ s ∈ p.slots, GoodSlot (Toy.h secp) secp (Toy.h secp (.ecMulGen .secp256k1 x)) [4, 0] (2 ^ 256)
        (labelIntP (Toy.h secp) label) s := by
  obtain ⟨p, _, _, _, hd⟩ := C09.complete (Or.inl rfl) (Toy.co (Or.inl rfl)) (Toy.rsa secp [4, 0] _) (Toy.sha _)
    (le_refl (2 ^ 256)) (Toy.label_coprime _ label _) hx none (by simp) tape
  rw [decryptP_eq] at hd
  split at hd
  · cases hd
  · rename_i hl
    obtain ⟨hq, s, hs, r, xr, h1, h2, h3⟩ := decryptSlots_sound _ _ _ _ _ _ p.slots x hd
    exact ⟨p, by simpa using hl, s, hs, r, xr, h1, h2, h3 ▸ hq⟩

/-- rejected proofs exist: with an empty slot list and `security_param = 128`, slot 0 is not consistent -/
example (h : Query → Bytes) (q key label : Bytes) (n : ℕ) :
    verifyP h secp { seed := [], slots := [], opens := [], param := 128 } q key n label ≠ .ok () :=
  inconsistent_opening_rejected h secp _ q key n label (i := 0) (by norm_num)
    (by rintro ⟨slot, s, bit, e, h1, _⟩; simp at h1)

end SlVerif.C10
