import SlVerif.Proofs.FqTransfer
/-
  FIELD.  Two sentences that used to be in the trusted base are theorems:

  (1) the order `q` of secp256k1 (`secpQ`) and the order `ℓ` of the prime-order subgroup of edwards25519 (`edL`) are
      prime numbers (Pratt certificates checked by the kernel, Proofs/Primes.lean);
  (2) the executable scalar type `Fq` that the driver runs (Model/Field.lean: naturals reduced `% secpQ`, inversion by
      Fermat through square-and-multiply) is the field `Z_q = ZMod secpQ`: `Fq.toZ` commutes with every operation of
      the `FieldOps Fq` interface, is injective on canonical representatives, and every operation returns a canonical
      representative (Proofs/FqField.lean).

  Consequently the algebraic theorems proved over an arbitrary Mathlib field (C20, C13) hold for the exact type the
  driver executes: the generic models are natural under `FieldOpsHom` maps (Proofs/FqTransfer.lean), so running the
  model on `Fq` and reading the result in `Z_q` is the same as running it on `Z_q`, where C20/C13 apply.
-/
namespace SlVerif.FieldFacts
open SlVerif SlVerif.Mat

/-- the order of the secp256k1 group is prime -/
theorem secpQ_prime : Nat.Prime SlVerif.secpQ := SlVerif.secpQ_prime

/-- the order of the prime-order subgroup of edwards25519 is prime -/
theorem edL_prime : Nat.Prime SlVerif.edL := SlVerif.edL_prime

/-- `ZMod secpQ` is a field (this is where `secpQ_prime` enters) -/
noncomputable example : Field (ZMod secpQ) := inferInstance

/-- `Fq.toZ` is a homomorphism of `FieldOps` structures from the executable `Fq` to the field `ZMod secpQ` -/
theorem toZ_hom : FieldOpsHom Fq.toZ := Fq.toZ_hom

/-- the same, written out with the field operations of `ZMod secpQ` -/
theorem toZ_ops :
    Fq.toZ FieldOps.zero = 0 ∧ Fq.toZ FieldOps.one = 1 ∧
    (∀ a b, Fq.toZ (FieldOps.add a b) = Fq.toZ a + Fq.toZ b) ∧
    (∀ a, Fq.toZ (FieldOps.neg a) = - Fq.toZ a) ∧
    (∀ a b, Fq.toZ (FieldOps.sub a b) = Fq.toZ a - Fq.toZ b) ∧
    (∀ a b, Fq.toZ (FieldOps.mul a b) = Fq.toZ a * Fq.toZ b) ∧
    (∀ a, Fq.toZ (FieldOps.inv a) = (Fq.toZ a)⁻¹) ∧
    (∀ n : ℕ, Fq.toZ (FieldOps.ofNat n) = (n : ZMod secpQ)) ∧
    (∀ a, FieldOps.isZero a = true ↔ Fq.toZ a = 0) ∧
    (∀ a (n : ℕ), Fq.toZ (FieldOps.pow a n) = Fq.toZ a ^ n) ∧
    (∀ l : List Fq, Fq.toZ (FieldOps.sum l) = (l.map Fq.toZ).sum) :=
  ⟨Fq.toZ_zero, Fq.toZ_one, Fq.toZ_add, Fq.toZ_neg, Fq.toZ_sub, Fq.toZ_mul, Fq.toZ_inv, Fq.toZ_ofNat,
    Fq.isZero_iff, Fq.toZ_pow, Fq.toZ_sum⟩

/-- `toZ` is injective on canonical representatives, and onto -/
theorem toZ_bijective_on_canon :
    (∀ a b : Fq, a.val < secpQ → b.val < secpQ → Fq.toZ a = Fq.toZ b → a = b) ∧
    (∀ z : ZMod secpQ, (Fq.ofZ z).val < secpQ ∧ Fq.toZ (Fq.ofZ z) = z) :=
  ⟨fun _ _ ha hb h => Fq.toZ_inj ha hb h, fun z => ⟨Fq.canon_ofZ z, Fq.toZ_ofZ z⟩⟩

/-- every operation returns a canonical representative, whatever its arguments -/
theorem ops_canonical :
    (FieldOps.zero : Fq).val < secpQ ∧ (FieldOps.one : Fq).val < secpQ ∧
    (∀ a b : Fq, (FieldOps.add a b).val < secpQ) ∧ (∀ a : Fq, (FieldOps.neg a).val < secpQ) ∧
    (∀ a b : Fq, (FieldOps.sub a b).val < secpQ) ∧ (∀ a b : Fq, (FieldOps.mul a b).val < secpQ) ∧
    (∀ a : Fq, (FieldOps.inv a).val < secpQ) ∧ (∀ n : ℕ, (FieldOps.ofNat n : Fq).val < secpQ) ∧
    (∀ (a : Fq) (n : ℕ), (FieldOps.pow a n).val < secpQ) ∧ (∀ l : List Fq, (FieldOps.sum l).val < secpQ) :=
  ⟨Fq.canon_zero, Fq.canon_one, Fq.canon_add, Fq.canon_neg, Fq.canon_sub, Fq.canon_mul, Fq.canon_inv,
    Fq.canon_ofNat, Fq.canon_pow, Fq.canon_sum⟩

/-- naturality of the matrix model: for every `FieldOpsHom φ`, running the model on the image is the image of the
    model's outcome (same branch, same messages) -/
theorem determinant_natural {F K : Type} [FieldOps F] [FieldOps K] {φ : F → K} (h : FieldOpsHom φ) (n : ℕ)
    (A : Mat.M F n) : Mat.determinant n (Mat.map φ A) = (Mat.determinant n A).map φ :=
  Mat.determinant_map h n A

theorem inverse_natural {F K : Type} [FieldOps F] [FieldOps K] {φ : F → K} (h : FieldOpsHom φ) (n : ℕ)
    (A : Mat.M F n) : Mat.inverse n (Mat.map φ A) = (Mat.inverse n A).map (Mat.map φ) :=
  Mat.inverse_map h n A

/-- C20 at the executable type: the model returns `Ok(d)`, `d` canonical, representing the Leibniz determinant of the
    matrix of classes -/
theorem determinant_correct (n : ℕ) (A : Mat.M Fq n) :
    ∃ d, Mat.determinant n A = .ok d ∧ Fq.toZ d = (toMatrix (Mat.map Fq.toZ A)).det :=
  Fq.determinant_correct n A

theorem determinant_eq (n : ℕ) (A : Mat.M Fq n) :
    Mat.determinant n A = .ok (Fq.ofZ (toMatrix (Mat.map Fq.toZ A)).det) :=
  Fq.determinant_eq n A

/-- C20 (inverse) at the executable type -/
theorem inverse_correct (n : ℕ) (hn : 1 ≤ n) (A : Mat.M Fq n) (h : (toMatrix (Mat.map Fq.toZ A)).det ≠ 0) :
    ∃ B, Mat.inverse n A = .ok B ∧
      toMatrix (Mat.map Fq.toZ B) * toMatrix (Mat.map Fq.toZ A) = 1 ∧
      toMatrix (Mat.map Fq.toZ A) * toMatrix (Mat.map Fq.toZ B) = 1 :=
  Fq.inverse_correct n hn A h

/-- … with the hypothesis on the executable side: the computed determinant passes the code's zero test -/
theorem inverse_correct' (n : ℕ) (hn : 1 ≤ n) (A : Mat.M Fq n) (d : Fq) (hd : Mat.determinant n A = .ok d)
    (hz : FieldOps.isZero d = false) :
    ∃ B, Mat.inverse n A = .ok B ∧
      toMatrix (Mat.map Fq.toZ B) * toMatrix (Mat.map Fq.toZ A) = 1 ∧
      toMatrix (Mat.map Fq.toZ A) * toMatrix (Mat.map Fq.toZ B) = 1 :=
  Fq.inverse_correct' n hn A d hd hz

theorem inverse_singular (n : ℕ) (hn : 1 ≤ n) (A : Mat.M Fq n) (h : (toMatrix (Mat.map Fq.toZ A)).det = 0) :
    ∃ w, Mat.inverse n A = .panic w :=
  Fq.inverse_singular n hn A h

/-- C13 at the executable type -/
theorem factorialRange_eq (s e : ℕ) (h : s ≤ e) :
    Fq.toZ (Math.factorialRange s e : Fq) = ((e.descFactorial (e - s) : ℕ) : ZMod secpQ) :=
  Fq.factorialRange_eq s e h

theorem derivativeAt_eq (coeffs : List Fq) (n : ℕ) (x : Fq) :
    Fq.toZ (Math.derivativeAt coeffs n x) =
      Polynomial.eval (Fq.toZ x) (Polynomial.derivative^[n] (Math.ofCoeffs (coeffs.map Fq.toZ))) :=
  Fq.derivativeAt_eq coeffs n x

theorem evaluateAt_eq (coeffs : List Fq) (x : Fq) :
    Fq.toZ (Math.evaluateAt coeffs x) = Polynomial.eval (Fq.toZ x) (Math.ofCoeffs (coeffs.map Fq.toZ)) :=
  Fq.evaluateAt_eq coeffs x

/-! ### non-vacuity -/

/-- the executable inverse of 2 is `(q+1)/2` (a 256-bit value computed by the model's square-and-multiply, evaluated
    by the kernel), it is canonical, and in `Z_q` it is `2⁻¹`: `2⁻¹ * 2 = 1` -/
example :
    FieldOps.inv (⟨2⟩ : Fq) = ⟨(secpQ + 1) / 2⟩ ∧ (FieldOps.inv (⟨2⟩ : Fq)).val < secpQ ∧
      Fq.toZ (FieldOps.inv (⟨2⟩ : Fq)) = (2 : ZMod secpQ)⁻¹ ∧
      FieldOps.mul (FieldOps.inv (⟨2⟩ : Fq)) ⟨2⟩ = FieldOps.one ∧ FieldOps.inv (⟨0⟩ : Fq) = FieldOps.zero := by
  refine ⟨by decide +kernel, Fq.canon_inv _, ?_, by decide +kernel, by decide +kernel⟩
  rw [Fq.toZ_inv]; congr 1

/-- `toZ` is not injective off the canonical representatives (`⟨q⟩` and `⟨0⟩` both represent 0), and `isZero` sees it -/
example : Fq.toZ ⟨secpQ⟩ = Fq.toZ ⟨0⟩ ∧ (⟨secpQ⟩ : Fq) ≠ ⟨0⟩ ∧ FieldOps.isZero (⟨secpQ⟩ : Fq) = true := by
  refine ⟨?_, by decide, by decide +kernel⟩
  change ((secpQ : ℕ) : ZMod secpQ) = ((0 : ℕ) : ZMod secpQ)
  simp

/-- a concrete 3×3 matrix over `Fq` whose (0,0) entry is zero (elimination starts with a row exchange) and with the
    entry `q-3` (= −3): the model, run by the kernel on `Fq`, returns `q-2` (= −2), which is not zero, so the hypotheses
    of `inverse_correct'` hold and `inverse` returns a two-sided inverse modulo `q` -/
example :
    let A : Mat.M Fq 3 := #v[#v[⟨0⟩, ⟨1⟩, ⟨2⟩], #v[⟨1⟩, ⟨0⟩, ⟨3⟩], #v[⟨4⟩, ⟨secpQ - 3⟩, ⟨8⟩]]
    Mat.findPivot A = some 0 ∧ Mat.determinant 3 A = .ok ⟨secpQ - 2⟩ ∧
      (toMatrix (Mat.map Fq.toZ A)).det = -2 ∧
      ∃ B, Mat.inverse 3 A = .ok B ∧
        toMatrix (Mat.map Fq.toZ B) * toMatrix (Mat.map Fq.toZ A) = 1 ∧
        toMatrix (Mat.map Fq.toZ A) * toMatrix (Mat.map Fq.toZ B) = 1 := by
  intro A
  have hd : Mat.determinant 3 A = .ok ⟨secpQ - 2⟩ := by decide +kernel
  refine ⟨by decide +kernel, hd, ?_, inverse_correct' 3 (by norm_num) A _ hd (by decide +kernel)⟩
  obtain ⟨d, hd', hz⟩ := determinant_correct 3 A
  rw [hd] at hd'; cases hd'
  rw [← hz]
  change ((secpQ - 2 : ℕ) : ZMod secpQ) = -2
  rw [Nat.cast_sub (by decide)]
  simp

/-- a singular matrix over `Fq`: determinant `Ok(0)`, `inverse` panics -/
example :
    let A : Mat.M Fq 2 := #v[#v[⟨1⟩, ⟨2⟩], #v[⟨2⟩, ⟨4⟩]]
    Mat.determinant 2 A = .ok ⟨0⟩ ∧ ∃ w, Mat.inverse 2 A = .panic w := by
  intro A
  have hd : Mat.determinant 2 A = .ok ⟨0⟩ := by decide +kernel
  exact ⟨hd, inverse_singular 2 (by norm_num) A ((Fq.det_eq_zero_iff hd).2 (by decide +kernel))⟩

/-- the Pratt certificates are about the actual constants: `secpQ` is the 256-bit k256 scalar modulus -/
example : secpQ = 115792089237316195423570985008687907852837564279074904382605163141518161494337 ∧
    edL = 2 ^ 252 + 27742317777372353535851937790883648493 := by decide

end SlVerif.FieldFacts
