import SlVerif.Proofs.Endemic
import Mathlib.Data.ZMod.Basic
import Mathlib.Algebra.Field.ZMod
/-
  C05 — Endemic base OT (crates/sl-oblivious/src/endemic_ot.rs), theorems about the model `SlVerif.Endemic` at
  `m := Id` for a pure oracle `h`.  Assumed about `h`: its secp256k1 queries are a module over a field
  (`GroupOracle`: scalar multiplication, addition, negation, generator multiples; computed points decode and have one
  encoding).  NOT assumed: anything about merlin — `h_function` and `h_function_2` are arbitrary functions.  The
  "matches neither key" statements are therefore proved from written-out inequalities between group elements and
  no-collision hypotheses on `h_function_2`; that these hold except with negligible probability is the random-oracle
  argument of the Endemic OT paper and is NOT formalised (the harness stream C05 checks the conclusions on the real
  hashes).
-/
namespace SlVerif.C05
open SlVerif SlVerif.Endemic

variable (h : Query → Bytes)
variable {F G : Type} [Field F] [AddCommGroup G] [Module F G]

/-- **C05, first sentence (chosen key).**  For every session id (any length) and every pair of random tapes: the
    sender reports no decode error, the receiver reports no decode error, both hold 256 entries, and for each of the
    256 instances the receiver's key equals the sender's key selected by the receiver's choice bit.
    Needs only `t_a·(t_b·G) = t_b·(t_a·G)`, the canonical encoding of computed points and the determinism of the two
    hashes. -/
theorem main (go : GroupOracle h F G) (sid : Bytes) (tapeR tapeS : Tape) :
    let rn := recvNew (m := Id) h sid tapeR
    let sp := sendProcess (m := Id) h sid rn.2.1 tapeS
    sp.1.err = false ∧
    ∃ rk, recvProcess (m := Id) h rn.1 sp.1.msg2 = some rk ∧ rk.length = Generated.LAMBDA_C ∧
      sp.1.keys.length = Generated.LAMBDA_C ∧
      ∀ idx < Generated.LAMBDA_C, ∃ k kp, rk[idx]? = some k ∧ sp.1.keys[idx]? = some kp ∧
        k = if extractBit rn.1.choiceBits idx = 0 then kp.1 else kp.2 := by
  intro rn sp
  simp only [rn, sp, recvNew_id, sendProcess_id]
  exact exchange_correct h go sid _ _ _ _

/-- **error iff some point fails to decode (sender)**: for EVERY oracle and every message 1, `process` returns
    `Err("Decode error")` exactly when one of the 512 encodings is refused by `decode_point`. -/
theorem send_error_iff (sid : Bytes) (msg1 : List (Bytes × Bytes)) (tb : List Nat) :
    (sendWith (m := Id) h sid msg1 tb).err = true ↔
      ∃ idx < Generated.LAMBDA_C, h (.ecValid K1 (msg1.getD idx (identity33, identity33)).1) ≠ [1] ∨
        h (.ecValid K1 (msg1.getD idx (identity33, identity33)).2) ≠ [1] := by
  rw [sendWith_id]
  simp only [List.any_map, List.any_eq_true, List.mem_range, Function.comp]
  constructor
  · rintro ⟨idx, hidx, he⟩
    refine ⟨idx, hidx, ?_⟩
    rw [sendInst_id, decodePoint_id, decodePoint_id] at he
    simp only [List.getD_eq_getElem?_getD] at he ⊢
    by_cases h1 : h (.ecValid K1 (msg1[idx]?.getD (identity33, identity33)).1) = [1]
    · by_cases h2 : h (.ecValid K1 (msg1[idx]?.getD (identity33, identity33)).2) = [1]
      · simp [h1, h2] at he
      · exact Or.inr h2
    · exact Or.inl h1
  · rintro ⟨idx, hidx, he⟩
    refine ⟨idx, hidx, ?_⟩
    rw [sendInst_id, decodePoint_id, decodePoint_id]
    simp only [List.getD_eq_getElem?_getD] at he ⊢
    rcases he with he | he <;> simp [he]

/-- **error iff some point fails to decode (receiver)**: only the slot selected by the choice bit is decoded -/
theorem recv_error_iff (st : RecvState) (msg2 : List (Bytes × Bytes)) :
    recvProcess (m := Id) h st msg2 = none ↔
      ∃ idx < Generated.LAMBDA_C,
        h (.ecValid K1 (if extractBit st.choiceBits idx = 0 then (msg2.getD idx (identity33, identity33)).1
                          else (msg2.getD idx (identity33, identity33)).2)) ≠ [1] := by
  rw [recvProcess_id]
  have hany : ((@List.map Nat (Bool × Bytes) (fun idx => recvProcInst (m := Id) h idx (extractBit st.choiceBits idx) (st.tA.getD idx 0)
        (msg2.getD idx (identity33, identity33))) (List.range Generated.LAMBDA_C)).any (·.1)) = true ↔
      ∃ idx < Generated.LAMBDA_C,
        h (.ecValid K1 (if extractBit st.choiceBits idx = 0 then (msg2.getD idx (identity33, identity33)).1
                          else (msg2.getD idx (identity33, identity33)).2)) ≠ [1] := by
    simp only [List.any_map, List.any_eq_true, List.mem_range, Function.comp]
    constructor
    · rintro ⟨idx, hidx, he⟩
      refine ⟨idx, hidx, ?_⟩
      rw [recvProcInst_id, decodePoint_id] at he
      intro hv
      simp only [List.getD_eq_getElem?_getD] at he hv
      simp [hv] at he
    · rintro ⟨idx, hidx, he⟩
      refine ⟨idx, hidx, ?_⟩
      rw [recvProcInst_id, decodePoint_id]
      simp only [List.getD_eq_getElem?_getD] at he ⊢
      simp [he]
  constructor
  · intro hn
    apply hany.mp
    by_contra hc
    rw [if_neg hc] at hn
    cases hn
  · intro he
    rw [if_pos (hany.mpr he)]

/-- `h_function_2` does not collide on two given points -/
def H2NoCollision (idx : Nat) (x y : Bytes) : Prop := H2 h idx x = H2 h idx y → x = y

/-- **C05, first sentence (other key), partial.**
    Full statement: in an honest exchange the receiver's key differs from the sender's other key, for all tapes.
    Proved here, per instance, under: the sender's other scalar is non-zero in Z_q (`t_b' ≠ 0`; on the tape with
    `t_b_0 = t_b_1 = 0` both sender keys are `H2(idx, identity)` and the claim is FALSE), the hash-to-curve value
    `h_function(1-c, idx, sid, r_choice)` is not the one point `(t_b'⁻¹ t_a t_b − r_o)·G` (random-oracle gap: the
    value is fixed only after `r_choice` is, so this fails with probability 1/q), and `h_function_2` does not collide
    on the two Diffie–Hellman points. -/
theorem other_differs_partial (go : GroupOracle h F G) (sid : Bytes) (idx bit tA rO tb0 tb1 : Nat) (hb : bit ≤ 1)
    (ht : ((if bit = 0 then tb1 else tb0 : Nat) : F) ≠ 0)
    (hgap : go.dec (Hf h (1 - bit) idx sid (rChoiceOf h sid idx bit tA rO))
      ≠ (((if bit = 0 then tb1 else tb0 : Nat) : F)⁻¹ * ((tA : F) * ((if bit = 0 then tb0 else tb1 : Nat) : F)) - (rO : F)) • go.gen)
    (hcol : H2NoCollision h idx (ptOther h sid sid idx bit tA rO (if bit = 0 then tb1 else tb0))
      (ptRecv h tA (if bit = 0 then tb0 else tb1))) :
    let si := sendInst (m := Id) h sid idx (recvInst (m := Id) h sid idx bit tA rO) tb0 tb1
    (recvProcInst (m := Id) h idx bit tA si.mb).2 ≠ (if bit = 0 then si.rho.2 else si.rho.1) := by
  intro si
  obtain ⟨_, hr, _, ho⟩ := inst_shape h go sid sid idx bit tA rO tb0 tb1 hb
  simp only [si]
  rw [hr, ho]
  intro e
  exact ptOther_ne h go sid sid idx bit tA rO _ _ ht hgap (hcol e.symm)

/-- **C05, second sentence (different session ids), partial.**
    Full statement: if the two sides use different session ids the receiver's keys match neither sender key, for all
    tapes.  Proved here, per instance, for a receiver under `sidR` and a sender under `sidS`, under: both sender
    scalars non-zero in Z_q, the two `h_function` values `h_function(c, idx, sidS, r_other)` and
    `h_function(c, idx, sidR, r_other)` are different points (the session id is hashed into the transcript; that
    different transcripts give different points is the random-oracle gap), the gap condition for the other key as in
    `other_differs_partial`, and no collision of `h_function_2` on the points involved. -/
theorem session_binding_partial (go : GroupOracle h F G) (sidR sidS : Bytes) (idx bit tA rO tb0 tb1 : Nat) (hb : bit ≤ 1)
    (htc : ((if bit = 0 then tb0 else tb1 : Nat) : F) ≠ 0)
    (hto : ((if bit = 0 then tb1 else tb0 : Nat) : F) ≠ 0)
    (hH : go.dec (Hf h bit idx sidS (rOtherOf h rO)) ≠ go.dec (Hf h bit idx sidR (rOtherOf h rO)))
    (hgap : go.dec (Hf h (1 - bit) idx sidS (rChoiceOf h sidR idx bit tA rO))
      ≠ (((if bit = 0 then tb1 else tb0 : Nat) : F)⁻¹ * ((tA : F) * ((if bit = 0 then tb0 else tb1 : Nat) : F)) - (rO : F)) • go.gen)
    (hcolC : H2NoCollision h idx (ptChosen h sidR sidS idx bit tA rO (if bit = 0 then tb0 else tb1))
      (ptRecv h tA (if bit = 0 then tb0 else tb1)))
    (hcolO : H2NoCollision h idx (ptOther h sidR sidS idx bit tA rO (if bit = 0 then tb1 else tb0))
      (ptRecv h tA (if bit = 0 then tb0 else tb1))) :
    let si := sendInst (m := Id) h sidS idx (recvInst (m := Id) h sidR idx bit tA rO) tb0 tb1
    (recvProcInst (m := Id) h idx bit tA si.mb).2 ≠ si.rho.1 ∧ (recvProcInst (m := Id) h idx bit tA si.mb).2 ≠ si.rho.2 := by
  intro si
  obtain ⟨_, hr, hc, ho⟩ := inst_shape h go sidR sidS idx bit tA rO tb0 tb1 hb
  have h1 : (recvProcInst (m := Id) h idx bit tA si.mb).2 ≠ (if bit = 0 then si.rho.1 else si.rho.2) := by
    simp only [si]; rw [hr, hc]
    intro e
    exact ptChosen_ne h go sidR sidS idx bit tA rO _ htc hH (hcolC e.symm)
  have h2 : (recvProcInst (m := Id) h idx bit tA si.mb).2 ≠ (if bit = 0 then si.rho.2 else si.rho.1) := by
    simp only [si]; rw [hr, ho]
    intro e
    exact ptOther_ne h go sidR sidS idx bit tA rO _ _ hto hgap (hcolO e.symm)
  have hb' : bit = 0 ∨ bit = 1 := by omega
  rcases hb' with rfl | rfl
  · exact ⟨by simpa using h1, by simpa using h2⟩
  · exact ⟨by simpa using h2, by simpa using h1⟩

/-- **C05, second sentence (message 2 of another session), partial.**  The receiver (state `t_a`, bit `c`) is handed
    `m_b' = t_b'·G` produced with other randomness; its key is `H2(idx, t_a·t_b'·G)`, the honest sender holds
    `H2(idx, t_a·t_b·G)` for the choice bit.  These differ when `t_a ≠ 0`, `t_b' ≠ t_b` in Z_q, `G ≠ 0` and
    `h_function_2` does not collide on the two points.  (Message 2 does not contain the session id: a substituted
    message 2 is detected only through the freshness of `t_b`.) -/
theorem msg2_substitution_partial (go : GroupOracle h F G) (idx tA tb tb' : Nat)
    (hgen : go.gen ≠ 0) (hta : (tA : F) ≠ 0) (hne : (tb' : F) ≠ (tb : F))
    (hcol : H2NoCollision h idx (ptRecv h tA tb') (ptRecv h tA tb)) :
    H2 h idx (ptRecv h tA tb') ≠ H2 h idx (ptRecv h tA tb) := by
  intro e
  have := congrArg go.dec (hcol e)
  rw [dec_ptRecv h go, dec_ptRecv h go] at this
  have hz : ((tA : F) * ((tb' : F) - (tb : F))) • go.gen = 0 := by
    rw [mul_sub, sub_smul, this, sub_self]
  exact smul_ne_zero_of (mul_ne_zero hta (sub_ne_zero.mpr hne)) hgen hz

/-- **msg1_instance_substitution_partial** (C05, second sentence: an entry of message 1 moved to another instance of
    the SAME session).  The entry `[r_0, r_1]` the receiver produced for instance `i` (choice bit `bit`, scalars `tA`,
    `rO`) is put at position `i'`; the sender processes it there with scalars `tb0, tb1`, the receiver processes the
    answer with ITS state of instance `i'` (choice bit `bit'`, scalar `tA'`).  The batch index `i'` is hashed into both
    `h_function` calls of the sender, so each sender key is `H2(i', t_b·(r_b + h_function(b, i', sid, r_{1-b})))` with a
    hash-to-curve value that was never used by the receiver.  Proved: the receiver's key matches NEITHER sender key,
    under: both sender scalars non-zero in Z_q; for each slot the hash-to-curve value at batch index `i'` is not the
    one point `(t_b⁻¹·t_a'·t_b^c)·G − r_b` (random-oracle gap, probability 1/q each); `h_function_2` does not collide
    on the points involved.  (`i ≠ i'` is what makes the gap hypotheses plausible; it is not used formally.) -/
theorem msg1_instance_substitution_partial (go : GroupOracle h F G) (sid : Bytes) (i i' bit tA rO bit' tA' tb0 tb1 : Nat)
    (hb : bit ≤ 1) (ht0 : (tb0 : F) ≠ 0) (ht1 : (tb1 : F) ≠ 0)
    (hgap0 : go.dec (Hf h 0 i' sid (recvInst (m := Id) h sid i bit tA rO).2)
      ≠ ((tb0 : F)⁻¹ * ((tA' : F) * ((if bit' = 0 then tb0 else tb1 : Nat) : F))) • go.gen
        - go.dec (recvInst (m := Id) h sid i bit tA rO).1)
    (hgap1 : go.dec (Hf h 1 i' sid (recvInst (m := Id) h sid i bit tA rO).1)
      ≠ ((tb1 : F)⁻¹ * ((tA' : F) * ((if bit' = 0 then tb0 else tb1 : Nat) : F))) • go.gen
        - go.dec (recvInst (m := Id) h sid i bit tA rO).2)
    (hcol0 : H2NoCollision h i' (ptSend h sid i' 0 (recvInst (m := Id) h sid i bit tA rO).1 (recvInst (m := Id) h sid i bit tA rO).2 tb0)
      (ptRecv h tA' (if bit' = 0 then tb0 else tb1)))
    (hcol1 : H2NoCollision h i' (ptSend h sid i' 1 (recvInst (m := Id) h sid i bit tA rO).2 (recvInst (m := Id) h sid i bit tA rO).1 tb1)
      (ptRecv h tA' (if bit' = 0 then tb0 else tb1))) :
    let si := sendInst (m := Id) h sid i' (recvInst (m := Id) h sid i bit tA rO) tb0 tb1
    (recvProcInst (m := Id) h i' bit' tA' si.mb).2 ≠ si.rho.1 ∧ (recvProcInst (m := Id) h i' bit' tA' si.mb).2 ≠ si.rho.2 := by
  intro si
  -- the entry consists of two computed points
  obtain ⟨q0, q1, hq0, hq1, he⟩ : ∃ q0 q1, IsGroupOp q0 ∧ IsGroupOp q1 ∧ recvInst (m := Id) h sid i bit tA rO = (h q0, h q1) := by
    rw [recvInst_id]
    have hb' : bit = 0 ∨ bit = 1 := by omega
    rcases hb' with rfl | rfl
    · exact ⟨_, _, by trivial, by trivial, rfl⟩
    · exact ⟨_, _, by trivial, by trivial, rfl⟩
  simp only [si]
  rw [he] at hgap0 hgap1 hcol0 hcol1 ⊢
  rw [sendInst_computed h go sid i' q0 q1 hq0 hq1, recvProcInst_computed h go]
  simp only
  constructor
  · intro e
    exact ptSend_ne h go sid i' 0 _ _ tb0 tA' _ ht0 hgap0 (hcol0 e.symm)
  · intro e
    exact ptSend_ne h go sid i' 1 _ _ tb1 tA' _ ht1 hgap1 (hcol1 e.symm)

/-- **msg2_independent_of_sid** (for EVERY oracle): message 2 and the sender's consumption of its random tape depend
    only on the tape — not on the session id, not on message 1.  (`m_b = t_b·G`; this is why a substituted message 2 is
    detected only through the freshness of `t_b`, see `msg2_substitution_partial`.) -/
theorem msg2_independent_of_sid (sid sid' : Bytes) (msg1 msg1' : List (Bytes × Bytes)) (tape : Tape) :
    (sendProcess (m := Id) h sid msg1 tape).1.msg2 = (sendProcess (m := Id) h sid' msg1' tape).1.msg2 ∧
    (sendProcess (m := Id) h sid msg1 tape).2 = (sendProcess (m := Id) h sid' msg1' tape).2 := by
  rw [sendProcess_id, sendProcess_id, sendWith_id, sendWith_id]
  refine ⟨?_, rfl⟩
  simp only [List.map_map]
  apply List.map_congr_left
  intro idx _
  simp only [Function.comp, sendInst_id]

/-- **decode_accepts_identity_and_compact** (what `ecValid` has to answer for the model's "error iff" to match the
    Rust; the harness stream C05 checks that the real `decode_point` behaves so).  `decode_point` is `ecValid`: ANY
    encoding the oracle accepts — for k256's `GroupEncoding::from_bytes` that includes, besides tags 02/03, the 33 zero
    bytes (identity) and the SEC1 compact tag 05 — decodes without error, and the model continues with its re-encoding
    `ecMul p 1` (which, for a `GroupOracle`, denotes the same group element: accepted encodings need not be canonical).
    In particular, if the oracle accepts the identity encoding, neither the sender nor the receiver rejects an
    all-identity message. -/
theorem decode_accepts_identity_and_compact :
    (∀ p : Bytes, h (.ecValid K1 p) = [1] → decodePoint (m := Id) h p = (true, h (.ecMul K1 p 1))) ∧
    (∀ p : Bytes, h (.ecValid K1 p) ≠ [1] → decodePoint (m := Id) h p = (false, identity33)) ∧
    (h (.ecValid K1 identity33) = [1] → ∀ (sid : Bytes) (tb : List Nat) (st : RecvState),
      (sendWith (m := Id) h sid (List.replicate Generated.LAMBDA_C (identity33, identity33)) tb).err = false ∧
      (recvProcess (m := Id) h st (List.replicate Generated.LAMBDA_C (identity33, identity33))).isSome) := by
  refine ⟨?_, ?_, ?_⟩
  · intro p hp; rw [decodePoint_id, if_pos hp]
  · intro p hp; rw [decodePoint_id, if_neg hp]
  · intro hid sid tb st
    constructor
    · cases he : (sendWith (m := Id) h sid (List.replicate Generated.LAMBDA_C (identity33, identity33)) tb).err with
      | false => rfl
      | true =>
        obtain ⟨idx, hidx, hbad⟩ := (send_error_iff h sid _ tb).mp he
        have : (List.replicate Generated.LAMBDA_C (identity33, identity33)).getD idx (identity33, identity33) = (identity33, identity33) := by
          simp [List.getD_eq_getElem?_getD, List.getElem?_replicate, hidx]
        rw [this] at hbad
        rcases hbad with hbad | hbad <;> exact absurd hid hbad
    · cases he : recvProcess (m := Id) h st (List.replicate Generated.LAMBDA_C (identity33, identity33)) with
      | some _ => rfl
      | none =>
        obtain ⟨idx, hidx, hbad⟩ := (recv_error_iff h st _).mp he
        have : (List.replicate Generated.LAMBDA_C (identity33, identity33)).getD idx (identity33, identity33) = (identity33, identity33) := by
          simp [List.getD_eq_getElem?_getD, List.getElem?_replicate, hidx]
        rw [this] at hbad
        simp only [ite_self] at hbad
        exact absurd hid hbad

/-- accepted encodings denote group elements: the re-encoding used by the model is the same element -/
theorem decode_same_element (go : GroupOracle h F G) (p : Bytes) (hp : h (.ecValid K1 p) = [1]) :
    go.dec (decodePoint (m := Id) h p).2 = go.dec p := by
  rw [(decode_accepts_identity_and_compact h).1 p hp, go.mul]
  simp

/-! ### non-vacuity: a toy oracle that satisfies `GroupOracle` (the group is Z/3 with generator 1, a point is one
    byte, merlin answers with the sum of the message bytes — so the session id matters), on which every hypothesis of
    the partial theorems is checked by evaluation -/

def toyDec (b : Bytes) : ZMod 3 := ((b.headD 0 : Nat) : ZMod 3)
def toyEnc (x : ZMod 3) : Bytes := [x.val]
def toyVal : Query → ZMod 3
  | .ecMulGen _ k => (k : ZMod 3)
  | .ecMul _ p k => (k : ZMod 3) * toyDec p
  | .ecAdd _ p q => toyDec p + toyDec q
  | .ecNeg _ p => - toyDec p
  | _ => 0
def dataSum : List TOp → Nat
  | [] => 0
  | .msg _ d :: r => d.sum + dataSum r
  | _ :: r => dataSum r
def toyH : Query → Bytes
  | .merlin t => [dataSum t.ops]
  | .ecValid _ _ => [1]
  | q => toyEnc (toyVal q)

theorem toyDec_enc (x : ZMod 3) : toyDec (toyEnc x) = x := by
  simp [toyDec, toyEnc]

theorem toyH_group (q : Query) (hq : IsGroupOp q) : toyH q = toyEnc (toyVal q) := by
  cases q <;> first | rfl | exact False.elim hq

def toyOracle : GroupOracle toyH (ZMod 3) (ZMod 3) where
  dec := toyDec
  gen := 1
  mulGen := by intro k; simp [toyH, toyVal, toyDec_enc]
  mul := by intro p k; simp [toyH, toyVal, toyDec_enc]
  add := by intro p q; simp [toyH, toyVal, toyDec_enc]
  neg := by intro p; simp [toyH, toyVal, toyDec_enc]
  valid := by intro q _; rfl
  canon := by
    intro q q' hq hq' e
    rw [toyH_group q hq, toyH_group q' hq', toyDec_enc, toyDec_enc] at e
    rw [toyH_group q hq, toyH_group q' hq', e]

/-- `main` applies: `GroupOracle` is satisfiable -/
example (sid : Bytes) (tapeR tapeS : Tape) :
    (sendProcess (m := Id) toyH sid (recvNew (m := Id) toyH sid tapeR).2.1 tapeS).1.err = false :=
  (main toyH toyOracle sid tapeR tapeS).1

/-- `send_error_iff` / `recv_error_iff`: both directions occur (an oracle that refuses every encoding errs, the toy
    oracle accepts every encoding) -/
example : (sendWith (m := Id) (fun _ => []) [] [] []).err = true :=
  (send_error_iff (fun _ => []) [] [] []).mpr ⟨0, by decide, Or.inl (by decide)⟩
example : ¬ (sendWith (m := Id) toyH [] [] []).err = true := by
  rw [send_error_iff]; rintro ⟨idx, _, hbad | hbad⟩ <;> exact hbad rfl
example : recvProcess (m := Id) (fun _ => []) { choiceBits := [], tA := [] } [] = none :=
  (recv_error_iff (fun _ => []) _ []).mpr ⟨0, by decide, by decide⟩

/-- `other_differs_partial`: its hypotheses hold for sid = [2], idx 0, bit 1, t_a = 2, r_o = 2, t_b = (1, 1) -/
example :
    let si := sendInst (m := Id) toyH [2] 0 (recvInst (m := Id) toyH [2] 0 1 2 2) 1 1
    (recvProcInst (m := Id) toyH 0 1 2 si.mb).2 ≠ si.rho.1 :=
  other_differs_partial toyH toyOracle [2] 0 1 2 2 1 1 (by decide) (by decide) (by simp [toyOracle]; decide) (by unfold H2NoCollision; decide)

/-- `session_binding_partial`: its hypotheses hold for sidR = [], sidS = [1], idx 0, bit 1, t_a = 2, r_o = 1, t_b = (1, 1) -/
example :
    let si := sendInst (m := Id) toyH [1] 0 (recvInst (m := Id) toyH [] 0 1 2 1) 1 1
    (recvProcInst (m := Id) toyH 0 1 2 si.mb).2 ≠ si.rho.1 ∧ (recvProcInst (m := Id) toyH 0 1 2 si.mb).2 ≠ si.rho.2 :=
  session_binding_partial toyH toyOracle [] [1] 0 1 2 1 1 1 (by decide) (by decide) (by decide) (by decide)
    (by simp [toyOracle]; decide) (by unfold H2NoCollision; decide) (by unfold H2NoCollision; decide)

/-- `msg2_substitution_partial`: t_a = 1, t_b' = 2, t_b = 1 -/
example : H2 toyH 0 (ptRecv toyH 1 2) ≠ H2 toyH 0 (ptRecv toyH 1 1) :=
  msg2_substitution_partial toyH toyOracle 0 1 1 2 (by decide) (by decide) (by decide) (by unfold H2NoCollision; decide)

/-- `msg1_instance_substitution_partial`: entry of instance 0 (bit 1, t_a = 2, r_o = 1) moved to instance 1, whose
    receiver state is bit 1, t_a' = 2; sender scalars (1, 1) -/
example :
    let si := sendInst (m := Id) toyH [] 1 (recvInst (m := Id) toyH [] 0 1 2 1) 1 1
    (recvProcInst (m := Id) toyH 1 1 2 si.mb).2 ≠ si.rho.1 ∧ (recvProcInst (m := Id) toyH 1 1 2 si.mb).2 ≠ si.rho.2 :=
  msg1_instance_substitution_partial toyH toyOracle [] 0 1 1 2 1 1 2 1 1 (by decide) (by decide) (by decide)
    (by simp [toyOracle]; decide) (by simp [toyOracle]; decide) (by unfold H2NoCollision; decide)
    (by unfold H2NoCollision; decide)

/-- `msg2_independent_of_sid`, `decode_accepts_identity_and_compact`: the toy oracle accepts every encoding, so the
    premise of the third part is satisfiable; an oracle that accepts nothing shows the second part is not vacuous -/
example : (sendProcess (m := Id) toyH [1] [] [9, 9]).1.msg2 = (sendProcess (m := Id) toyH [2, 3] [([5], [6])] [9, 9]).1.msg2 :=
  (msg2_independent_of_sid toyH [1] [2, 3] [] [([5], [6])] [9, 9]).1
example : (sendWith (m := Id) toyH [] (List.replicate Generated.LAMBDA_C (identity33, identity33)) []).err = false :=
  ((decode_accepts_identity_and_compact toyH).2.2 rfl [] [] { choiceBits := [], tA := [] }).1
example : decodePoint (m := Id) (fun _ => []) [5] = (false, identity33) :=
  (decode_accepts_identity_and_compact (fun _ => [])).2.1 [5] (by decide)

end SlVerif.C05
