import SlVerif.Proofs.PprfAll
/-
  C06 — all-but-one PPRF (crates/sl-oblivious/src/soft_spoken/all_but_one.rs), theorems about the model
  `SlVerif.Pprf` at `m := Id` for an ARBITRARY pure oracle `h` (merlin is not assumed to be anything: the positive
  statements hold for every behaviour of the hash; the negative ones name the collision-freeness they need).
-/
namespace SlVerif.C06
open SlVerif SlVerif.Pprf

/-- "consistent base-OT outputs": the sender's 256 key pairs and the receiver's 256 keys are LAMBDA_C_BYTES long
    (the Rust types) and the receiver's key is the sender's key for its choice bit -/
structure BaseOT (keys : List (Bytes × Bytes)) (bits : Bytes) (dks : List Bytes) : Prop where
  len : ∀ i < Generated.LAMBDA_C, (keys.getD i ([], [])).1.length = KB ∧ (keys.getD i ([], [])).2.length = KB
  cons : ∀ i < Generated.LAMBDA_C, dks.getD i [] = sel (extractBit bits i) (keys.getD i ([], []))

theorem extractBit_le (bits : Bytes) (i : Nat) : extractBit bits i ≤ 1 := by
  unfold extractBit; omega

theorem baseOT_tree {keys : List (Bytes × Bytes)} {bits : Bytes} {dks : List Bytes} (hb : BaseOT keys bits dks)
    (j : Nat) (hj : j < NT) : Consistent (treeKeys keys j) (treeBit bits j) (treeDk dks j) := by
  intro i hi
  have hlt : j * K + i < Generated.LAMBDA_C := by
    have hi' : i < 4 := hi
    have hj' : j < 64 := hj
    show j * 4 + i < 256
    omega
  exact ⟨extractBit_le _ _, (hb.len _ hlt).1, (hb.len _ hlt).2, hb.cons _ hlt⟩

variable (h : Query → Bytes) (sid : Bytes)

/-- per-tree result of the receiver on the honest message (total function used to name the results) -/
def recvTree (bits : Bytes) (dks : List Bytes) (keys : List (Bytes × Bytes)) (j : Nat) : Nat × List Bytes :=
  (evalTree (m := Id) h sid (treeBit bits j) (treeDk dks j) (buildTree (m := Id) h sid (treeKeys keys j)).2).getD (0, [])

/-- **C06, first sentence.**  From consistent base-OT outputs, for every session id and every behaviour of the hash:
    `eval_pprf` accepts the message of `build_pprf`; for each of the 64 trees `random_choices[j]` is
    `y* = ystarOf (choice bits of the tree)` — the path of complemented choice bits — which is `< 16`; both sides hold
    16 leaves; the receiver's leaf equals the sender's leaf at every index `y ≠ y*`; and at `y*` the receiver holds
    32 zero bytes (`punctured_slot`). -/
theorem main (keys : List (Bytes × Bytes)) (bits : Bytes) (dks : List Bytes) (hb : BaseOT keys bits dks) :
    ∃ r, evalPprf (m := Id) h sid bits dks (buildPprf (m := Id) h sid keys).2 = .ok r ∧ r.length = NT ∧
      ∀ j < NT, ∃ ystar sstar leaves,
        r[j]? = some (ystar, sstar) ∧ (buildPprf (m := Id) h sid keys).1[j]? = some leaves ∧
        ystar = ystarOf (treeBit bits j) ∧ ystar < Q ∧ sstar.length = Q ∧ leaves.length = Q ∧
        (∀ y, y ≠ ystar → sstar[y]? = leaves[y]?) ∧ sstar[ystar]? = some (zeros KB) := by
  let R : Nat × TreeMsg → Nat × List Bytes := fun p =>
    (evalTree (m := Id) h sid (treeBit bits p.1) (treeDk dks p.1) p.2).getD (0, [])
  have hout : ∀ j < NT, ((buildPprf (m := Id) h sid keys).2).getD j { t := [], sTilda := [], tTilda := [] }
      = (buildTree (m := Id) h sid (treeKeys keys j)).2 := by
    intro j hj
    rw [buildPprf_id]
    simp [List.getD_eq_getElem?_getD, hj]
  have hev : evalPprf (m := Id) h sid bits dks (buildPprf (m := Id) h sid keys).2
      = .ok (((List.range NT).map fun j => (j, (buildTree (m := Id) h sid (treeKeys keys j)).2)).map R) := by
    unfold evalPprf
    have hl : ((List.range NT).map fun j => (j, ((buildPprf (m := Id) h sid keys).2).getD j { t := [], sTilda := [], tTilda := [] }))
        = (List.range NT).map fun j => (j, (buildTree (m := Id) h sid (treeKeys keys j)).2) := by
      apply List.map_congr_left
      intro j hj
      rw [hout j (List.mem_range.mp hj)]
    rw [hl]
    apply evalTrees_ok
    intro p hp
    obtain ⟨j, hj, rfl⟩ := List.mem_map.mp hp
    obtain ⟨sstar, he, _, _⟩ := tree_correct h sid _ _ _ (baseOT_tree hb j (List.mem_range.mp hj))
    simp only [R]
    rw [he]; rfl
  refine ⟨_, hev, by simp, ?_⟩
  intro j hj
  obtain ⟨sstar, he, hinv, hlen⟩ := tree_correct h sid _ _ _ (baseOT_tree hb j hj)
  refine ⟨ystarOf (treeBit bits j), sstar, (buildTree (m := Id) h sid (treeKeys keys j)).1, ?_, ?_, rfl,
    ystarOf_lt _ (fun i _ => extractBit_le _ _), by rw [hinv.len, hlen], hlen, hinv.eq, hinv.hole⟩
  · simp [hj, R, he]
  · rw [buildPprf_id]
    simp [hj]

/-- **punctured_slot**: what the receiver holds at the punctured index is the all-zero string — in particular it is
    the sender's leaf there only if that leaf is itself all-zero (an event the random-oracle model gives 2^-256). -/
theorem punctured_slot (keys : List (Bytes × Bytes)) (bits : Bytes) (dks : List Bytes) (hb : BaseOT keys bits dks)
    (r : List (Nat × List Bytes))
    (hr : evalPprf (m := Id) h sid bits dks (buildPprf (m := Id) h sid keys).2 = .ok r) (j : Nat) (hj : j < NT) :
    ∃ ystar sstar, r[j]? = some (ystar, sstar) ∧ sstar[ystar]? = some (zeros KB) := by
  obtain ⟨r', hr', _, hall⟩ := main h sid keys bits dks hb
  rw [hr] at hr'
  cases hr'
  obtain ⟨ystar, sstar, _, h1, _, _, _, _, _, _, h2⟩ := hall j hj
  exact ⟨ystar, sstar, h1, h2⟩

/-- results of accepted trees, for ANY message -/
theorem evalTrees_ok_inv (bits : Bytes) (dks : List Bytes) :
    ∀ (l : List (Nat × TreeMsg)) (r : List (Nat × List Bytes)),
      evalTrees (m := Id) h sid bits dks l = .ok r →
      r.length = l.length ∧ ∀ (k : Nat) (p : Nat × TreeMsg), l[k]? = some p →
        ∃ x, r[k]? = some x ∧ evalTree (m := Id) h sid (treeBit bits p.1) (treeDk dks p.1) p.2 = some x := by
  intro l
  induction l with
  | nil => intro r hr; rw [evalTrees_nil] at hr; cases hr; exact ⟨rfl, by simp⟩
  | cons p rest ih =>
    intro r hr
    obtain ⟨j, msg⟩ := p
    rw [evalTrees_cons] at hr
    cases hev : evalTree (m := Id) h sid (treeBit bits j) (treeDk dks j) msg with
    | none => rw [hev] at hr; cases hr
    | some x =>
      rw [hev] at hr
      simp only at hr
      cases hrest : evalTrees (m := Id) h sid bits dks rest with
      | error e => rw [hrest] at hr; cases hr
      | ok rs =>
        rw [hrest] at hr
        cases hr
        obtain ⟨hl, hall⟩ := ih rs hrest
        refine ⟨by simp [hl], ?_⟩
        intro k p hp
        cases k with
        | zero => simp at hp; subst hp; exact ⟨x, by simp, hev⟩
        | succ k => simp at hp; simpa using hall k p hp

/-- **ystar_lt_q**: for EVERY PPRF message (honest or not) that `eval_pprf` accepts, there are 64 results, every
    `random_choices[j]` is the complemented-path index of tree j's choice bits, it is `< SOFT_SPOKEN_Q`, and
    `otp_dec_keys[j]` has `SOFT_SPOKEN_Q` entries. -/
theorem ystar_lt_q (bits : Bytes) (dks : List Bytes) (out : List TreeMsg) (r : List (Nat × List Bytes))
    (hr : evalPprf (m := Id) h sid bits dks out = .ok r) :
    r.length = NT ∧ ∀ j < NT, ∃ s, r[j]? = some (ystarOf (treeBit bits j), s) ∧ ystarOf (treeBit bits j) < Q ∧ s.length = Q := by
  unfold evalPprf at hr
  obtain ⟨hlen, hall⟩ := evalTrees_ok_inv h sid bits dks _ r hr
  simp only [List.length_map, List.length_range] at hlen
  refine ⟨hlen, ?_⟩
  intro j hj
  obtain ⟨⟨y, s⟩, hx, hev⟩ := hall j (j, out.getD j { t := [], sTilda := [], tTilda := [] }) (by simp [hj])
  obtain ⟨hy, hs⟩ := evalTree_ystar h sid _ _ _ y s hev
  exact ⟨s, by rw [hx, hy], ystarOf_lt _ (fun i _ => extractBit_le _ _), hs⟩

end SlVerif.C06
