import SlVerif.Proofs.PprfAdv
/-
  C06 — all-but-one PPRF (crates/sl-oblivious/src/soft_spoken/all_but_one.rs), theorems about the model
  `SlVerif.Pprf` at `m := Id` for an ARBITRARY pure oracle `h` (merlin is not assumed to be anything: the positive
  statements hold for every behaviour of the hash; the negative ones name the collision-freeness they need).
-/
namespace SlVerif.C06
open SlVerif SlVerif.Pprf

/-- "consistent base-OT outputs": the sender's 256 key pairs and the receiver's 256 keys are LAMBDA_C_BYTES long
    (the Rust types) and the receiver's key is the sender's key for its choice bit -/
structure BaseOT (keys : List (Bytes × Bytes)) (bits : Bytes) (dks : List Bytes) : Prop where
  len : ∀ i < Generated.LAMBDA_C, (keys.getD i ([], [])).1.length = KB ∧ (keys.getD i ([], [])).2.length = KB
  cons : ∀ i < Generated.LAMBDA_C, dks.getD i [] = sel (extractBit bits i) (keys.getD i ([], []))

theorem baseOT_tree {keys : List (Bytes × Bytes)} {bits : Bytes} {dks : List Bytes} (hb : BaseOT keys bits dks)
    (j : Nat) (hj : j < NT) : Consistent (treeKeys keys j) (treeBit bits j) (treeDk dks j) := by
  intro i hi
  have hlt : j * K + i < Generated.LAMBDA_C := by
    have hi' : i < 4 := hi
    have hj' : j < 64 := hj
    show j * 4 + i < 256
    omega
  exact ⟨extractBit_le _ _, (hb.len _ hlt).1, (hb.len _ hlt).2, hb.cons _ hlt⟩

variable (h : Query → Bytes) (sid : Bytes)

/-- **C06, first sentence.**  From consistent base-OT outputs, for every session id and every behaviour of the hash:
    `eval_pprf` accepts the message of `build_pprf`; for each of the 64 trees `random_choices[j]` is
    `y* = ystarOf (choice bits of the tree)` — the path of complemented choice bits — which is `< 16`; both sides hold
    16 leaves; the receiver's leaf equals the sender's leaf at every index `y ≠ y*`; and at `y*` the receiver holds
    32 zero bytes (`punctured_slot`). -/
theorem main (keys : List (Bytes × Bytes)) (bits : Bytes) (dks : List Bytes) (hb : BaseOT keys bits dks) :
    ∃ r, evalPprf (m := Id) h sid bits dks (buildPprf (m := Id) h sid keys).2 = .ok r ∧ r.length = NT ∧
      ∀ j < NT, ∃ ystar sstar leaves,
        r[j]? = some (ystar, sstar) ∧ (buildPprf (m := Id) h sid keys).1[j]? = some leaves ∧
        ystar = ystarOf (treeBit bits j) ∧ ystar < Q ∧ sstar.length = Q ∧ leaves.length = Q ∧
        (∀ y, y ≠ ystar → sstar[y]? = leaves[y]?) ∧ sstar[ystar]? = some (zeros KB) := by
  let R : Nat × TreeMsg → Nat × List Bytes := fun p =>
    (evalTree (m := Id) h sid (treeBit bits p.1) (treeDk dks p.1) p.2).getD (0, [])
  have hout : ∀ j < NT, ((buildPprf (m := Id) h sid keys).2).getD j { t := [], sTilda := [], tTilda := [] }
      = (buildTree (m := Id) h sid (treeKeys keys j)).2 := by
    intro j hj
    rw [buildPprf_id]
    simp [List.getD_eq_getElem?_getD, hj]
  have hev : evalPprf (m := Id) h sid bits dks (buildPprf (m := Id) h sid keys).2
      = .ok (((List.range NT).map fun j => (j, (buildTree (m := Id) h sid (treeKeys keys j)).2)).map R) := by
    unfold evalPprf
    have hl : ((List.range NT).map fun j => (j, ((buildPprf (m := Id) h sid keys).2).getD j { t := [], sTilda := [], tTilda := [] }))
        = (List.range NT).map fun j => (j, (buildTree (m := Id) h sid (treeKeys keys j)).2) := by
      apply List.map_congr_left
      intro j hj
      rw [hout j (List.mem_range.mp hj)]
    rw [hl]
    apply evalTrees_ok
    intro p hp
    obtain ⟨j, hj, rfl⟩ := List.mem_map.mp hp
    obtain ⟨sstar, he, _, _⟩ := tree_correct h sid _ _ _ (baseOT_tree hb j (List.mem_range.mp hj))
    simp only [R]
    rw [he]; rfl
  refine ⟨_, hev, by simp, ?_⟩
  intro j hj
  obtain ⟨sstar, he, hinv, hlen⟩ := tree_correct h sid _ _ _ (baseOT_tree hb j hj)
  refine ⟨ystarOf (treeBit bits j), sstar, (buildTree (m := Id) h sid (treeKeys keys j)).1, ?_, ?_, rfl,
    ystarOf_lt _ (fun i _ => extractBit_le _ _), by rw [hinv.len, hlen], hlen, hinv.eq, hinv.hole⟩
  · simp [hj, R, he]
  · rw [buildPprf_id]
    simp [hj]

/-- **punctured_slot**: what the receiver holds at the punctured index is the all-zero string — in particular it is
    the sender's leaf there only if that leaf is itself all-zero (an event the random-oracle model gives 2^-256). -/
theorem punctured_slot (keys : List (Bytes × Bytes)) (bits : Bytes) (dks : List Bytes) (hb : BaseOT keys bits dks)
    (r : List (Nat × List Bytes))
    (hr : evalPprf (m := Id) h sid bits dks (buildPprf (m := Id) h sid keys).2 = .ok r) (j : Nat) (hj : j < NT) :
    ∃ ystar sstar, r[j]? = some (ystar, sstar) ∧ sstar[ystar]? = some (zeros KB) := by
  obtain ⟨r', hr', _, hall⟩ := main h sid keys bits dks hb
  rw [hr] at hr'
  cases hr'
  obtain ⟨ystar, sstar, _, h1, _, _, _, _, _, _, h2⟩ := hall j hj
  exact ⟨ystar, sstar, h1, h2⟩

/-- **ystar_lt_q**: for EVERY PPRF message (honest or not) that `eval_pprf` accepts, there are 64 results, every
    `random_choices[j]` is the complemented-path index of tree j's choice bits, it is `< SOFT_SPOKEN_Q`, and
    `otp_dec_keys[j]` has `SOFT_SPOKEN_Q` entries. -/
theorem ystar_lt_q (bits : Bytes) (dks : List Bytes) (out : List TreeMsg) (r : List (Nat × List Bytes))
    (hr : evalPprf (m := Id) h sid bits dks out = .ok r) :
    r.length = NT ∧ ∀ j < NT, ∃ s, r[j]? = some (ystarOf (treeBit bits j), s) ∧ ystarOf (treeBit bits j) < Q ∧ s.length = Q := by
  unfold evalPprf at hr
  obtain ⟨hlen, hall⟩ := evalTrees_ok_inv h sid bits dks _ r hr
  simp only [List.length_map, List.length_range] at hlen
  refine ⟨hlen, ?_⟩
  intro j hj
  obtain ⟨⟨y, s⟩, hx, hev⟩ := hall j (j, out.getD j { t := [], sTilda := [], tTilda := [] }) (by simp [hj])
  obtain ⟨hy, hs⟩ := evalTree_ystar h sid _ _ _ y s hev
  exact ⟨s, by rw [hx, hy], ystarOf_lt _ (fun i _ => extractBit_le _ _), hs⟩

/-! ### tampering with the message of one tree (trees are evaluated independently; `evalTrees_err` lifts a rejected
    tree to a rejected message) -/

/-- **unused_word_tamper_harmless**: the receiver reads, at level i, only the correction word on the side of its
    choice bit; a message that differs from `msg` only in the OTHER words (in any bits) gives exactly the same
    verdict and the same leaves — for every message, every oracle. -/
theorem unused_word_tamper_harmless (bit : Nat → Nat) (dk : Nat → Bytes) (msg msg' : TreeMsg)
    (hs : msg'.sTilda = msg.sTilda) (ht : msg'.tTilda = msg.tTilda)
    (hw : ∀ k < K - 1, sel (bit (k+1)) (msg'.t.getD k ([], [])) = sel (bit (k+1)) (msg.t.getD k ([], []))) :
    evalTree (m := Id) h sid bit dk msg' = evalTree (m := Id) h sid bit dk msg := by
  have hl : ∀ (y : Nat) (s : List Bytes), evalLevels (m := Id) h sid bit dk levels msg'.t y s
      = evalLevels (m := Id) h sid bit dk levels msg.t y s := by
    intro y s
    apply evalLevels_congr
    intro k hk
    rw [levels_eq] at hk ⊢
    have := hw k hk
    match k, hk with
    | 0, _ => exact this
    | 1, _ => exact this
    | 2, _ => exact this
  rw [evalTree_id, evalTree_id, hs, ht, hl]

/-- single-bit (or any) corruption `delta` of the word on the side the receiver does not use -/
theorem unused_word_bitflip_harmless (bit : Nat → Nat) (dk : Nat → Bytes) (msg : TreeMsg) (level side : Nat) (delta : Bytes)
    (hl : 1 ≤ level) (hside : side ≤ 1) (hbit : bit level ≤ 1) (hne : side ≠ bit level) :
    evalTree (m := Id) h sid bit dk { msg with t := corruptWord msg.t level side delta }
      = evalTree (m := Id) h sid bit dk msg := by
  refine unused_word_tamper_harmless h sid bit dk msg { msg with t := corruptWord msg.t level side delta } rfl rfl ?_
  intro k _
  simp only [corruptWord]
  rw [List.getD_eq_getElem?_getD, List.getElem?_set]
  by_cases hk : level - 1 = k
  · have hlev : level = k + 1 := by omega
    subst hlev
    simp only [Nat.add_sub_cancel, if_true]
    by_cases hin : k < msg.t.length
    · simp only [hin, if_true, Option.getD_some]
      have h1 : side = 0 ∨ side = 1 := by omega
      have h2 : bit (k+1) = 0 ∨ bit (k+1) = 1 := by omega
      rcases h1 with rfl | rfl <;> rcases h2 with h2 | h2 <;> simp [sel, h2] at hne ⊢
    · have : msg.t.getD k ([], []) = ([], []) := by
        simp [List.getD_eq_getElem?_getD, List.getElem?_eq_none (Nat.le_of_not_lt hin)]
      simp [hin, this]
  · simp [hk, List.getD_eq_getElem?_getD]

/-- **stilda_tamper_rejected** (unconditional): a message that the receiver accepts is rejected as soon as its
    `s_tilda` is replaced by anything else — in particular after any single bit flip in `s_tilda`. -/
theorem stilda_tamper_rejected (bit : Nat → Nat) (dk : Nat → Bytes) (msg : TreeMsg) (x : Bytes)
    (hacc : (evalTree (m := Id) h sid bit dk msg).isSome) (hx : x ≠ msg.sTilda) :
    evalTree (m := Id) h sid bit dk { msg with sTilda := x } = none := by
  rw [evalTree_accept_iff] at hacc
  rw [evalTree_id]
  simp only
  rw [hacc, if_pos (fun e => hx e.symm)]

/-- **ttilda_tamper_rejected_partial**.
    Full statement: any change of `t_tilda` of an accepted message is rejected.
    Proved under ONE named hypothesis `hcol`: the final hash does not collide on the two vectors the receiver hashes
    (original and tampered message; they differ exactly in the slot of the punctured index). `t_tilda` values are 2·LAMBDA_C_BYTES long (the Rust type). -/
theorem ttilda_tamper_rejected_partial (bit : Nat → Nat) (dk : Nat → Bytes) (msg : TreeMsg) (x : Bytes)
    (hb : ∀ i < K, bit i ≤ 1) (hlen : msg.tTilda.length = 2 * KB) (hxlen : x.length = 2 * KB)
    (hacc : (evalTree (m := Id) h sid bit dk msg).isSome) (hx : x ≠ msg.tTilda)
    (hcol :
      let e := evalLevels (m := Id) h sid bit dk levels msg.t (evalInit (bit 0) (dk 0)).1 (evalInit (bit 0) (dk 0)).2
      Hh h sid (vecR h sid e.1 e.2 x) = Hh h sid (vecR h sid e.1 e.2 msg.tTilda) →
        vecR h sid e.1 e.2 x = vecR h sid e.1 e.2 msg.tTilda) :
    evalTree (m := Id) h sid bit dk { msg with tTilda := x } = none := by
  rw [evalTree_accept_iff] at hacc
  rw [evalTree_id]
  simp only
  rw [if_pos]
  intro e
  rw [← hacc] at e
  have hv := hcol e
  -- the two vectors differ in the punctured slot
  have hlt : (evalLevels (m := Id) h sid bit dk levels msg.t (evalInit (bit 0) (dk 0)).1 (evalInit (bit 0) (dk 0)).2).1
      < (evalLevels (m := Id) h sid bit dk levels msg.t (evalInit (bit 0) (dk 0)).1 (evalInit (bit 0) (dk 0)).2).2.length := by
    rw [evalLevels_fst, evalLevels_length, levels_eq]
    have := ystarOf_lt bit hb
    rw [ystarOf_eq, levels_eq] at this
    have h2 : (evalInit (bit 0) (dk 0)).2.length = 2 := by unfold evalInit; split <;> rfl
    rw [h2]
    exact this
  have hs := congrArg (fun v : List Bytes => v[(evalLevels (m := Id) h sid bit dk levels msg.t (evalInit (bit 0) (dk 0)).1 (evalInit (bit 0) (dk 0)).2).1]?) hv
  simp only [vecR_slot h sid _ _ _ hlt, Option.some.injEq] at hs
  apply hx
  refine othF_inj _ (2*KB) _ _ _ _ ?_ hxlen hlen hs
  intro y hy
  rw [List.getD_eq_getElem?_getD, maskAt_getElem?, List.getElem?_map, List.getElem?_eq_getElem hy]
  simp only [Option.map_some, Option.getD_some]
  split
  · exact P_len h sid _
  · exact zeros_length _

/-- **used_word_tamper_rejected_partial**.
    Full statement: a change (any bits) of a correction word the receiver DOES read, in an accepted message, is
    rejected — at every level.
    Proved for the LAST level (`t[K-2][c]`, `c` the receiver's last choice bit), where the changed word moves exactly
    one leaf (the sibling of the punctured one), under two named no-collision hypotheses: `hP` — the per-leaf proof
    hash does not collide between a leaf of the original evaluation and a leaf of the tampered one; `hcol` — the final
    hash does not collide on the two proof vectors.  For the upper levels the changed node is expanded by the PRG first,
    so the same argument additionally needs the PRG not to collide on the two seeds; not formalised (the harness
    flips every bit of every word). -/
theorem used_word_tamper_rejected_partial (bit : Nat → Nat) (dk : Nat → Bytes) (msg : TreeMsg) (delta : Bytes)
    (hb : ∀ i < K, bit i ≤ 1) (ht : msg.t.length = K - 1)
    (hw : (sel (bit 3) (msg.t.getD 2 ([], []))).length = KB) (hdk : (dk 3).length = KB)
    (hdl : delta.length = KB) (hδ : delta ≠ zeros KB)
    (hacc : (evalTree (m := Id) h sid bit dk msg).isSome)
    (hP : ∀ a ∈ (evalLevels (m := Id) h sid bit dk levels msg.t (evalInit (bit 0) (dk 0)).1 (evalInit (bit 0) (dk 0)).2).2,
      ∀ b ∈ (evalLevels (m := Id) h sid bit dk levels (corruptWord msg.t 3 (bit 3) delta) (evalInit (bit 0) (dk 0)).1 (evalInit (bit 0) (dk 0)).2).2,
      P h sid a = P h sid b → a = b)
    (hcol :
      let e := evalLevels (m := Id) h sid bit dk levels msg.t (evalInit (bit 0) (dk 0)).1 (evalInit (bit 0) (dk 0)).2
      let e' := evalLevels (m := Id) h sid bit dk levels (corruptWord msg.t 3 (bit 3) delta) (evalInit (bit 0) (dk 0)).1 (evalInit (bit 0) (dk 0)).2
      Hh h sid (vecR h sid e'.1 e'.2 msg.tTilda) = Hh h sid (vecR h sid e.1 e.2 msg.tTilda) →
        vecR h sid e'.1 e'.2 msg.tTilda = vecR h sid e.1 e.2 msg.tTilda) :
    evalTree (m := Id) h sid bit dk { msg with t := corruptWord msg.t 3 (bit 3) delta } = none := by
  -- the three correction words
  obtain ⟨w1, w2, w3, hws⟩ : ∃ w1 w2 w3, msg.t = [w1, w2, w3] := by
    match hm : msg.t, ht with
    | [a, b, c], _ => exact ⟨a, b, c, rfl⟩
  have hb3 : bit 3 ≤ 1 := hb 3 (by decide)
  have hx3 := xor_one_le _ hb3
  rw [hws] at hP hcol hw ⊢
  have hcw : corruptWord [w1, w2, w3] 3 (bit 3) delta
      = [w1, w2, if bit 3 = 0 then (xorBytes w3.1 delta, w3.2) else (w3.1, xorBytes w3.2 delta)] := by
    simp [corruptWord]
  simp only [List.getD_cons_succ, List.getD_cons_zero] at hw
  rw [hcw] at hP hcol ⊢
  rw [evalTree_accept_iff, hws] at hacc
  -- unfold the three levels on both sides; the first two are identical
  have hun : ∀ w : Bytes × Bytes, evalLevels (m := Id) h sid bit dk levels [w1, w2, w] (evalInit (bit 0) (dk 0)).1 (evalInit (bit 0) (dk 0)).2
      = (2 * (evalLevels (m := Id) h sid bit dk [1, 2] [w1, w2] (evalInit (bit 0) (dk 0)).1 (evalInit (bit 0) (dk 0)).2).1 + (1 ^^^ bit 3),
         stepR h sid (bit 3) w (dk 3)
          (evalLevels (m := Id) h sid bit dk [1, 2] [w1, w2] (evalInit (bit 0) (dk 0)).1 (evalInit (bit 0) (dk 0)).2).1
          (evalLevels (m := Id) h sid bit dk [1, 2] [w1, w2] (evalInit (bit 0) (dk 0)).1 (evalInit (bit 0) (dk 0)).2).2) := by
    intro w
    rw [levels_eq]
    simp only [evalLevels_cons, evalLevels_nil, List.headD_cons, List.tail_cons]
  have hY : (evalLevels (m := Id) h sid bit dk [1, 2] [w1, w2] (evalInit (bit 0) (dk 0)).1 (evalInit (bit 0) (dk 0)).2).1
      < (evalLevels (m := Id) h sid bit dk [1, 2] [w1, w2] (evalInit (bit 0) (dk 0)).1 (evalInit (bit 0) (dk 0)).2).2.length := by
    rw [evalLevels_fst, evalLevels_length]
    have h0 := xor_one_le _ (hb 0 (by decide))
    have h1 := xor_one_le _ (hb 1 (by decide))
    have h2 := xor_one_le _ (hb 2 (by decide))
    have hl : (evalInit (bit 0) (dk 0)).2.length = 2 := by unfold evalInit; split <;> rfl
    have hf : (evalInit (bit 0) (dk 0)).1 = bit 0 ^^^ 1 := rfl
    rw [hl, hf, Nat.xor_comm]
    simp only [List.foldl_cons, List.foldl_nil, List.length_cons, List.length_nil]
    omega
  rw [hun] at hP hcol hacc
  rw [hun] at hP hcol
  rw [evalTree_id]
  simp only
  rw [hun, if_pos]
  generalize (evalLevels (m := Id) h sid bit dk [1, 2] [w1, w2] (evalInit (bit 0) (dk 0)).1 (evalInit (bit 0) (dk 0)).2).1 = Y
    at hP hcol hacc hY ⊢
  generalize (evalLevels (m := Id) h sid bit dk [1, 2] [w1, w2] (evalInit (bit 0) (dk 0)).1 (evalInit (bit 0) (dk 0)).2).2 = S
    at hP hcol hacc hY ⊢
  simp only at hP hcol hacc ⊢
  intro e
  rw [← hacc] at e
  have hv := hcol e
  -- compare the two proof vectors at the sibling of the punctured leaf
  have hzne : 2 * Y + bit 3 ≠ 2 * Y + (1 ^^^ bit 3) := by omega
  have hs := congrArg (fun v : List Bytes => v[2 * Y + bit 3]?) hv
  simp only [vecR_getElem?_ne h sid _ _ _ _ hzne, List.getElem?_map, stepR_corr h sid _ _ _ _ _ hY hb3, Option.map_some,
    Option.some.injEq] at hs
  rw [sel_corrupt _ hb3, corrOf_xor] at hs
  have hmem1 : corrOf h sid (bit 3) (sel (bit 3) w3) (dk 3) Y S ∈ stepR h sid (bit 3) w3 (dk 3) Y S :=
    List.mem_of_getElem? (stepR_corr h sid _ _ _ _ _ hY hb3)
  have hmem2 : xorBytes delta (corrOf h sid (bit 3) (sel (bit 3) w3) (dk 3) Y S)
      ∈ stepR h sid (bit 3) (if bit 3 = 0 then (xorBytes w3.1 delta, w3.2) else (w3.1, xorBytes w3.2 delta)) (dk 3) Y S := by
    have := stepR_corr h sid (bit 3) (if bit 3 = 0 then (xorBytes w3.1 delta, w3.2) else (w3.1, xorBytes w3.2 delta)) (dk 3) Y S hY hb3
    rw [sel_corrupt _ hb3, corrOf_xor] at this
    exact List.mem_of_getElem? this
  have heq := hP _ hmem1 _ hmem2 hs.symm
  have hcl := corrOf_length h sid (bit 3) (sel (bit 3) w3) (dk 3) Y S hw hdk
  exact xor_delta_ne delta _ (by rw [hdl, hcl]) (by rw [hcl]; exact hδ) heq.symm

/-- **used_word_tamper_changes_leaf** (every level).  The correction word `t[level-1][c]` that the receiver reads
    (`c` = its choice bit of that level) is XORed with a non-zero `delta`.  Hypotheses: `PrgNoCollision` — the tree PRG
    (two challenges on one transcript, 32 → 64 bytes) has no collision on 32-byte seeds; the word read and the
    receiver's base-OT key of that level are 32 bytes long (the Rust types).  Then the punctured index is unchanged and
    at least one LEARNED leaf changes, and it lies below the node derived from the changed word: `z` shares with `y*`
    the ancestor of depth `level` but not the ancestor of depth `level+1`. -/
theorem used_word_tamper_changes_leaf (hG : PrgNoCollision h sid) (bit : Nat → Nat) (dk : Nat → Bytes) (msg : TreeMsg)
    (level : Nat) (delta : Bytes)
    (hb : ∀ i < K, bit i ≤ 1) (ht : msg.t.length = K - 1) (hl1 : 1 ≤ level) (hl2 : level ≤ K - 1)
    (hw : (sel (bit level) (msg.t.getD (level - 1) ([], []))).length = KB) (hdk : (dk level).length = KB)
    (hdl : delta.length = KB) (hδ : delta ≠ zeros KB) :
    ∃ z, z ≠ ystarOf bit ∧ z < Q ∧
      (evalLevels (m := Id) h sid bit dk levels msg.t (evalInit (bit 0) (dk 0)).1 (evalInit (bit 0) (dk 0)).2).2[z]? ≠
        (evalLevels (m := Id) h sid bit dk levels (corruptWord msg.t level (bit level) delta)
          (evalInit (bit 0) (dk 0)).1 (evalInit (bit 0) (dk 0)).2).2[z]? ∧
      z / 2 ^ (K - level) = ystarOf bit / 2 ^ (K - level) ∧
      z / 2 ^ (K - 1 - level) ≠ ystarOf bit / 2 ^ (K - 1 - level) := by
  have hb0 := hb 0 (by decide)
  have hb1 := hb 1 (by decide)
  have hb2 := hb 2 (by decide)
  have hb3 := hb 3 (by decide)
  have ht3 : msg.t.length = 3 := ht
  have hlen : (evalLevels (m := Id) h sid bit dk levels msg.t (evalInit (bit 0) (dk 0)).1 (evalInit (bit 0) (dk 0)).2).2.length = Q := by
    rw [evalLevels_length, levels_eq]
    have : (evalInit (bit 0) (dk 0)).2.length = 2 := by unfold evalInit; split <;> rfl
    rw [this]; rfl
  have key : ∀ (pre post : List Nat) (l : Nat), levels = pre ++ l :: post → pre.length < 3 →
      (∀ i ∈ pre, bit i ≤ 1) → bit l ≤ 1 → (∀ i ∈ post, bit i ≤ 1) →
      (sel (bit l) (msg.t.getD pre.length ([], []))).length = KB → (dk l).length = KB →
      ∃ z, z ≠ ystarOf bit ∧ z < Q ∧
        (evalLevels (m := Id) h sid bit dk levels msg.t (evalInit (bit 0) (dk 0)).1 (evalInit (bit 0) (dk 0)).2).2[z]? ≠
          (evalLevels (m := Id) h sid bit dk levels (corruptWord msg.t (pre.length + 1) (bit l) delta)
            (evalInit (bit 0) (dk 0)).1 (evalInit (bit 0) (dk 0)).2).2[z]? ∧
        z / 2 ^ (post.length + 1) = ystarOf bit / 2 ^ (post.length + 1) ∧
        z / 2 ^ post.length ≠ ystarOf bit / 2 ^ post.length := by
    intro pre post l hlv hpl hbpre hbl hbpost hw' hdk'
    obtain ⟨z, hz, hne, hsome, hd1, hd2⟩ := tamper_changes_levels h sid hG bit dk pre post l hlv msg.t delta
      (by rw [ht3]; exact hpl) hb0 hbpre hbl hbpost hw' hdk' hdl hδ
    refine ⟨z, hz, ?_, hne, hd1, hd2⟩
    rcases Nat.lt_or_ge z Q with hq | hq
    · exact hq
    · rw [List.getElem?_eq_none (by rw [hlen]; exact hq)] at hsome
      cases hsome
  have hcase : level = 1 ∨ level = 2 ∨ level = 3 := by
    have : K - 1 = 3 := rfl
    omega
  rcases hcase with rfl | rfl | rfl
  · exact key [] [2, 3] 1 (by rw [levels_eq]; rfl) (by decide) (by simp) hb1
      (by intro i hi; simp at hi; rcases hi with rfl | rfl <;> assumption) hw hdk
  · exact key [1] [3] 2 (by rw [levels_eq]; rfl) (by decide)
      (by intro i hi; simp at hi; subst hi; assumption) hb2
      (by intro i hi; simp at hi; subst hi; assumption) hw hdk
  · exact key [1, 2] [] 3 (by rw [levels_eq]; rfl) (by decide)
      (by intro i hi; simp at hi; rcases hi with rfl | rfl <;> assumption) hb3 (by simp) hw hdk

/-- **used_word_tamper_rejected_anylevel_partial** (every level; `used_word_tamper_rejected_partial` is the
    last-level instance with a weaker PRG-free hypothesis set).
    Full statement: a change of a correction word the receiver reads, in an accepted message, is rejected.
    Proved under exactly three named hypotheses: `PrgNoCollision` (tree PRG, 32-byte seeds); `hP` — the per-leaf
    proof hash does not collide between a leaf of the original evaluation and a leaf of the tampered one; `hcol` — the
    final hash does not collide on the two proof vectors.  Word / key / delta lengths are the Rust types. -/
theorem used_word_tamper_rejected_anylevel_partial (hG : PrgNoCollision h sid) (bit : Nat → Nat) (dk : Nat → Bytes)
    (msg : TreeMsg) (level : Nat) (delta : Bytes)
    (hb : ∀ i < K, bit i ≤ 1) (ht : msg.t.length = K - 1) (hl1 : 1 ≤ level) (hl2 : level ≤ K - 1)
    (hw : (sel (bit level) (msg.t.getD (level - 1) ([], []))).length = KB) (hdk : (dk level).length = KB)
    (hdl : delta.length = KB) (hδ : delta ≠ zeros KB)
    (hacc : (evalTree (m := Id) h sid bit dk msg).isSome)
    (hP : ∀ a ∈ (evalLevels (m := Id) h sid bit dk levels msg.t (evalInit (bit 0) (dk 0)).1 (evalInit (bit 0) (dk 0)).2).2,
      ∀ b ∈ (evalLevels (m := Id) h sid bit dk levels (corruptWord msg.t level (bit level) delta) (evalInit (bit 0) (dk 0)).1 (evalInit (bit 0) (dk 0)).2).2,
      P h sid a = P h sid b → a = b)
    (hcol :
      let e := evalLevels (m := Id) h sid bit dk levels msg.t (evalInit (bit 0) (dk 0)).1 (evalInit (bit 0) (dk 0)).2
      let e' := evalLevels (m := Id) h sid bit dk levels (corruptWord msg.t level (bit level) delta) (evalInit (bit 0) (dk 0)).1 (evalInit (bit 0) (dk 0)).2
      Hh h sid (vecR h sid e'.1 e'.2 msg.tTilda) = Hh h sid (vecR h sid e.1 e.2 msg.tTilda) →
        vecR h sid e'.1 e'.2 msg.tTilda = vecR h sid e.1 e.2 msg.tTilda) :
    evalTree (m := Id) h sid bit dk { msg with t := corruptWord msg.t level (bit level) delta } = none := by
  obtain ⟨z, hz, _, hne, _, _⟩ := used_word_tamper_changes_leaf h sid hG bit dk msg level delta hb ht hl1 hl2 hw hdk hdl hδ
  rw [evalTree_accept_iff] at hacc
  rw [evalTree_id]
  simp only
  rw [if_pos]
  intro e
  rw [← hacc] at e
  have hv := hcol e
  have h1 : (evalLevels (m := Id) h sid bit dk levels msg.t (evalInit (bit 0) (dk 0)).1 (evalInit (bit 0) (dk 0)).2).1 = ystarOf bit := by
    rw [evalLevels_fst, ystarOf_eq]; rfl
  have h2 : (evalLevels (m := Id) h sid bit dk levels (corruptWord msg.t level (bit level) delta) (evalInit (bit 0) (dk 0)).1 (evalInit (bit 0) (dk 0)).2).1 = ystarOf bit := by
    rw [evalLevels_fst, ystarOf_eq]; rfl
  have hs := congrArg (fun v : List Bytes => v[z]?) hv
  have hz1 := hz
  have hz2 := hz
  rw [← h1] at hz1
  rw [← h2] at hz2
  simp only [vecR_getElem?_ne h sid _ _ _ _ hz1, vecR_getElem?_ne h sid _ _ _ _ hz2, List.getElem?_map] at hs
  apply hne
  generalize (evalLevels (m := Id) h sid bit dk levels msg.t (evalInit (bit 0) (dk 0)).1 (evalInit (bit 0) (dk 0)).2).2 = L at hP hs ⊢
  generalize (evalLevels (m := Id) h sid bit dk levels (corruptWord msg.t level (bit level) delta) (evalInit (bit 0) (dk 0)).1 (evalInit (bit 0) (dk 0)).2).2 = L' at hP hs ⊢
  cases ha : L[z]? with
  | none => rw [ha] at hs; cases hb' : L'[z]? with
    | none => rfl
    | some b => rw [hb'] at hs; cases hs
  | some a =>
    rw [ha] at hs
    cases hb' : L'[z]? with
    | none => rw [hb'] at hs; cases hs
    | some b =>
      rw [hb'] at hs
      simp only [Option.map_some, Option.some.injEq] at hs
      rw [hP a (List.mem_of_getElem? ha) b (List.mem_of_getElem? hb') hs.symm]

/-- **selective_failure_partial** (the "accepted" direction, unconditional in the hashes).
    Full statement (checked exhaustively by the harness grid, see `Pprf.advAccepts`): the message of `advTree` —
    wrong correction word `t[level-1][side]`, `t_tilda`/`s_tilda` re-derived for a guessed receiver path — is accepted
    IFF the guess is right in the sense of `advAccepts`.  Proved: it IS accepted by the receiver whose choice bits are
    the guess (any keys, any level/side/delta, any oracle), and that receiver reports the guessed punctured index.
    The "only if" direction needs collision-freeness of all three hashes and is not formalised. -/
theorem selective_failure_partial (keys : Nat → Bytes × Bytes) (level side : Nat) (delta : Bytes) (guess : Nat → Nat)
    (hg : ∀ i < K, guess i ≤ 1) :
    ∃ s, evalTree (m := Id) h sid guess (fun i => sel (guess i) (keys i))
        (advTree (m := Id) h sid keys level side delta guess) = some (ystarOf guess, s) := by
  have key : ∀ (e : Nat × List Bytes) (x : Bytes), e.1 < e.2.length →
      Hh h sid (vecR h sid e.1 e.2 (((e.2.set e.1 x).map (P h sid)).foldl xorBytes (zeros (2*KB))))
        = Hh h sid ((e.2.set e.1 x).map (P h sid)) := by
    intro e x hlt
    rw [vecR_eq' h sid (e.2.set e.1 x) e.2 e.1 (by simp) (by simpa using hlt)
      (by intro y hy; rw [List.getElem?_set, if_neg (fun e' => hy (Eq.symm e'))])]
  have hlt : ∀ ws, (evalLevels (m := Id) h sid guess (fun i => sel (guess i) (keys i)) levels ws
        (evalInit (guess 0) (sel (guess 0) (keys 0))).1 (evalInit (guess 0) (sel (guess 0) (keys 0))).2).1
      < (evalLevels (m := Id) h sid guess (fun i => sel (guess i) (keys i)) levels ws
        (evalInit (guess 0) (sel (guess 0) (keys 0))).1 (evalInit (guess 0) (sel (guess 0) (keys 0))).2).2.length := by
    intro ws
    rw [evalLevels_fst, evalLevels_length, levels_eq]
    have := ystarOf_lt guess hg
    rw [ystarOf_eq, levels_eq] at this
    have h2 : (evalInit (guess 0) (sel (guess 0) (keys 0))).2.length = 2 := by unfold evalInit; split <;> rfl
    rw [h2]
    exact this
  have hE := hlt (corruptWord (buildTree (m := Id) h sid keys).2.t level side delta)
  have hsome : (evalTree (m := Id) h sid guess (fun i => sel (guess i) (keys i))
      (advTree (m := Id) h sid keys level side delta guess)).isSome := by
    rw [evalTree_accept_iff, advTree_id]
    simp only
    generalize evalLevels (m := Id) h sid guess (fun i => sel (guess i) (keys i)) levels
      (corruptWord (buildTree (m := Id) h sid keys).2.t level side delta)
      (evalInit (guess 0) (sel (guess 0) (keys 0))).1 (evalInit (guess 0) (sel (guess 0) (keys 0))).2 = e at hE ⊢
    exact key e _ hE
  obtain ⟨⟨y, s⟩, hys⟩ := Option.isSome_iff_exists.mp hsome
  obtain ⟨hy, _⟩ := evalTree_ystar h sid _ _ _ y s hys
  exact ⟨s, by rw [hys, hy]⟩

/-- **selective_failure_accepts** (the "if" direction of the adversarial-sender claim, UNCONDITIONAL in the hashes).
    The receiver's base-OT outputs are consistent with the keys the adversary built its tree from.  Whenever
    `Pprf.advAccepts level side guess bit` holds — the guess avoids the corrupted word and so does the receiver; or the
    guess reads it and the receiver's path is the guessed one (at the last level: up to the last bit) — the message of
    `advTree` is accepted, for every oracle, every `delta`. -/
theorem selective_failure_accepts (keys : Nat → Bytes × Bytes) (bit : Nat → Nat) (dk : Nat → Bytes)
    (hc : Consistent keys bit dk) (guess : Nat → Nat) (hg : ∀ i < K, guess i ≤ 1) (level side : Nat) (delta : Bytes)
    (hl1 : 1 ≤ level) (hl2 : level ≤ K - 1) (hs : side ≤ 1)
    (hA : advAccepts level side guess bit = true) :
    (evalTree (m := Id) h sid bit dk (advTree (m := Id) h sid keys level side delta guess)).isSome := by
  rw [advAccepts_iff] at hA
  have hr : ∀ i < K, bit i ≤ 1 := fun i hi => (hc i hi).1
  have hcase : level = 1 ∨ level = 2 ∨ level = 3 := by
    have : K - 1 = 3 := rfl
    omega
  rcases hcase with rfl | rfl | rfl
  · exact adv_accepts_generic h sid keys bit dk hc guess hg [] [2, 3] (by rw [levels_eq]; rfl) side hs delta
      (ystar_prefix bit guess hr hg 1 (by decide)) (by decide) hA
  · exact adv_accepts_generic h sid keys bit dk hc guess hg [1] [3] (by rw [levels_eq]; rfl) side hs delta
      (ystar_prefix bit guess hr hg 2 (by decide)) (by decide) hA
  · exact adv_accepts_generic h sid keys bit dk hc guess hg [1, 2] [] (by rw [levels_eq]; rfl) side hs delta
      (ystar_prefix bit guess hr hg 3 (by decide)) (by decide) hA

/-- **selective_failure_iff_partial**: the message of the adversarial sender (`advTree`: correction word
    `t[level-1][side]` XORed with a non-zero `delta`, `t_tilda`/`s_tilda` re-derived for the guessed path) is accepted
    by a receiver with consistent base-OT outputs IFF `Pprf.advAccepts level side guess bit`.
    The "if" direction is unconditional (`selective_failure_accepts`).  The "only if" direction uses exactly:
    * `hG` — `PrgNoCollision`: the tree PRG has no collision on 32-byte seeds;
    * `hP` — the per-leaf proof hash does not collide between a leaf the receiver computes and a leaf of the
      adversary's vector `advLeaves`;
    * `hcol` — the final hash does not collide on the receiver's proof vector and the adversary's;
    * `hSame` — only for the cases "the guess reads the word, the level is not the last one, the receiver's path agrees
      with the guess up to that level but not everywhere": there the two leaf vectors differ iff a XOR of PRG outputs
      on related seeds is non-zero (e.g. level 1, paths differing in the last bit only: a 6-term XOR), which is NOT a
      collision statement; the hypothesis asks for a position where they differ.  In all other cases (guess avoids the
      word; last level; paths separating before the corrupted level) no such hypothesis is needed. -/
theorem selective_failure_iff_partial (hG : PrgNoCollision h sid) (keys : Nat → Bytes × Bytes) (bit : Nat → Nat)
    (dk : Nat → Bytes) (hc : Consistent keys bit dk) (guess : Nat → Nat) (hg : ∀ i < K, guess i ≤ 1)
    (level side : Nat) (delta : Bytes) (hl1 : 1 ≤ level) (hl2 : level ≤ K - 1) (hs : side ≤ 1)
    (hdl : delta.length = KB) (hδ : delta ≠ zeros KB)
    (hcol : Hh h sid (vecR h sid (ystarOf bit) (recvEval h sid keys level side delta bit dk).2
        (((advLeaves h sid keys level side delta guess).map (P h sid)).foldl xorBytes (zeros (2*KB))))
        = Hh h sid ((advLeaves h sid keys level side delta guess).map (P h sid)) →
      vecR h sid (ystarOf bit) (recvEval h sid keys level side delta bit dk).2
        (((advLeaves h sid keys level side delta guess).map (P h sid)).foldl xorBytes (zeros (2*KB)))
        = (advLeaves h sid keys level side delta guess).map (P h sid))
    (hP : ∀ a ∈ (recvEval h sid keys level side delta bit dk).2, ∀ b ∈ advLeaves h sid keys level side delta guess,
      P h sid a = P h sid b → a = b)
    (hSame : guess level = side → level < K - 1 → (∀ i < level, bit i = guess i) → ¬ (∀ i < K, bit i = guess i) →
      ∃ y, y ≠ ystarOf bit ∧ (recvEval h sid keys level side delta bit dk).2[y]? ≠
        (advLeaves h sid keys level side delta guess)[y]?) :
    (evalTree (m := Id) h sid bit dk (advTree (m := Id) h sid keys level side delta guess)).isSome ↔
      advAccepts level side guess bit = true := by
  constructor
  · intro hacc
    have heq := adv_leaves_of_accept h sid keys level side delta guess bit dk hcol hP hacc
    rw [advAccepts_iff]
    have hr : ∀ i < K, bit i ≤ 1 := fun i hi => (hc i hi).1
    have hcase : level = 1 ∨ level = 2 ∨ level = 3 := by
      have : K - 1 = 3 := rfl
      omega
    rcases hcase with rfl | rfl | rfl
    · exact adv_rejects_generic h sid keys bit dk hc guess hg [] [2, 3] (by rw [levels_eq]; rfl) side hs delta
        (ystar_prefix bit guess hr hg 1 (by decide)) hG hdl hδ hSame heq
    · exact adv_rejects_generic h sid keys bit dk hc guess hg [1] [3] (by rw [levels_eq]; rfl) side hs delta
        (ystar_prefix bit guess hr hg 2 (by decide)) hG hdl hδ hSame heq
    · exact adv_rejects_generic h sid keys bit dk hc guess hg [1, 2] [] (by rw [levels_eq]; rfl) side hs delta
        (ystar_prefix bit guess hr hg 3 (by decide)) hG hdl hδ hSame heq
  · exact selective_failure_accepts h sid keys bit dk hc guess hg level side delta hl1 hl2 hs

/-! ### non-vacuity -/

/-- a toy hash: one byte, the sum of all message bytes of the transcript (so it depends on seeds, leaves and sid) -/
def dataSum : List TOp → Nat
  | [] => 0
  | .msg _ d :: r => d.sum + dataSum r
  | _ :: r => dataSum r
def toyH : Query → Bytes
  | .merlin t => [dataSum t.ops % 256]
  | _ => []

def toyKeys : List (Bytes × Bytes) := (List.range 256).map fun i => (List.replicate 32 (i % 7), List.replicate 32 (i % 5 + 10))
def toyBits : Bytes := List.replicate 32 0x5a
def toyDks : List Bytes := (List.range 256).map fun i => sel (extractBit toyBits i) (toyKeys.getD i ([], []))

theorem toyBase : BaseOT toyKeys toyBits toyDks := by
  constructor
  · intro i hi
    have hi' : i < 256 := hi
    simp [toyKeys, List.getD_eq_getElem?_getD, hi']
    rfl
  · intro i hi
    have hi' : i < 256 := hi
    simp [toyDks, List.getD_eq_getElem?_getD, hi']

/-- `main`, `punctured_slot`, `ystar_lt_q`: consistent base-OT outputs exist, so an accepted message exists -/
example : ∃ r, evalPprf (m := Id) toyH [1, 2, 3] toyBits toyDks (buildPprf (m := Id) toyH [1, 2, 3] toyKeys).2 = .ok r ∧
    r.length = NT := by
  obtain ⟨r, hr, hl, _⟩ := main toyH [1, 2, 3] toyKeys toyBits toyDks toyBase
  exact ⟨r, hr, hl⟩

def toyTreeKeys : Nat → Bytes × Bytes := fun i => (List.replicate 32 (i + 1), List.replicate 32 (i + 9))
def toyBit : Nat → Nat := fun i => i % 2
def toyDk : Nat → Bytes := fun i => sel (toyBit i) (toyTreeKeys i)

theorem toyConsistent : Consistent toyTreeKeys toyBit toyDk := by
  intro i hi
  have : i < 4 := hi
  refine ⟨by unfold toyBit; omega, by simp [toyTreeKeys]; rfl, by simp [toyTreeKeys]; rfl, rfl⟩

/-- the statement about the punctured slot has content: with the toy hash the sender's leaf at the receiver's
    punctured index (10 for choice bits 0,1,0,1) is not the all-zero string the receiver holds there -/
example : ystarOf toyBit = 10 ∧ (buildTree (m := Id) toyH [7] toyTreeKeys).1.getD 10 [] ≠ zeros KB := by decide

/-- `unused_word_tamper_harmless`: two different messages that agree on the words the receiver reads -/
example : evalTree (m := Id) toyH [] (fun _ => 0) (fun _ => [])
      { t := [([1], [2]), ([3], [4]), ([5], [6])], sTilda := [], tTilda := [] }
    = evalTree (m := Id) toyH [] (fun _ => 0) (fun _ => [])
      { t := [([1], [9]), ([3], [8]), ([5], [7])], sTilda := [], tTilda := [] } :=
  unused_word_tamper_harmless toyH [] _ _ _ _ rfl rfl (by decide)

example : evalTree (m := Id) toyH [] toyBit toyDk
      { (buildTree (m := Id) toyH [] toyTreeKeys).2 with
        t := corruptWord (buildTree (m := Id) toyH [] toyTreeKeys).2.t 2 1 [0, 0, 128] }
    = evalTree (m := Id) toyH [] toyBit toyDk (buildTree (m := Id) toyH [] toyTreeKeys).2 :=
  unused_word_bitflip_harmless toyH [] toyBit toyDk _ 2 1 _ (by decide) (by decide) (by decide) (by decide)

theorem toyAccepted : (evalTree (m := Id) toyH [] toyBit toyDk (buildTree (m := Id) toyH [] toyTreeKeys).2).isSome := by
  obtain ⟨s, hs, _⟩ := tree_correct toyH [] toyTreeKeys toyBit toyDk toyConsistent
  rw [hs]; rfl

/-- `stilda_tamper_rejected`: an accepted message exists and `s_tilda` can be changed -/
example : evalTree (m := Id) toyH [] toyBit toyDk { (buildTree (m := Id) toyH [] toyTreeKeys).2 with sTilda := [] } = none :=
  stilda_tamper_rejected toyH [] toyBit toyDk _ [] toyAccepted (by decide)

/-- `ttilda_tamper_rejected_partial`: all hypotheses hold for the toy hash and a flipped bit of `t_tilda` -/
example : evalTree (m := Id) toyH [] toyBit toyDk
    { (buildTree (m := Id) toyH [] toyTreeKeys).2 with
      tTilda := flipBit (buildTree (m := Id) toyH [] toyTreeKeys).2.tTilda 3 } = none :=
  ttilda_tamper_rejected_partial toyH [] toyBit toyDk _ _ (by decide) (by decide) (by decide) toyAccepted (by decide)
    (by decide)

/-- `used_word_tamper_rejected_partial`: all hypotheses hold for the toy hash and a flipped bit of the last used word -/
example : evalTree (m := Id) toyH [] toyBit toyDk
    { (buildTree (m := Id) toyH [] toyTreeKeys).2 with
      t := corruptWord (buildTree (m := Id) toyH [] toyTreeKeys).2.t 3 (toyBit 3) (1 :: List.replicate 31 0) } = none :=
  used_word_tamper_rejected_partial toyH [] toyBit toyDk _ _ (by decide) (by decide) (by decide) (by decide) (by decide)
    (by decide) toyAccepted (by decide) (by decide)

/-- a toy hash without collisions on short inputs: the answer is the data of the last message of the transcript
    (so the tree PRG maps a 32-byte seed `a` to `(a, a)`) -/
def lastMsg (ops : List TOp) : Bytes := ops.foldl (fun acc op => match op with | .msg _ d => d | _ => acc) []
def toyInj : Query → Bytes
  | .merlin t => lastMsg t.ops
  | _ => []

theorem fixLen_self (a : Bytes) (n : Nat) (ha : a.length = n) : fixLen n a = a := by
  unfold fixLen; rw [← ha]; simp

theorem toyInj_prg : PrgNoCollision toyInj [] := by
  intro a b ha hb e
  have h1 : G toyInj [] a = (fixLen KB a, fixLen KB a) := rfl
  have h2 : G toyInj [] b = (fixLen KB b, fixLen KB b) := rfl
  rw [h1, h2, fixLen_self a KB ha, fixLen_self b KB hb] at e
  exact (Prod.ext_iff.mp e).1

def bitX : Nat → Nat := fun i => if i = 1 then 1 else 0
def dkX : Nat → Bytes := fun i => sel (bitX i) (toyTreeKeys i)

theorem toyConsistentX : Consistent toyTreeKeys bitX dkX := by
  intro i hi
  refine ⟨by unfold bitX; split <;> omega, by simp [toyTreeKeys]; rfl, by simp [toyTreeKeys]; rfl, rfl⟩

theorem toyAcceptedX : (evalTree (m := Id) toyInj [] bitX dkX (buildTree (m := Id) toyInj [] toyTreeKeys).2).isSome := by
  obtain ⟨s, hs, _⟩ := tree_correct toyInj [] toyTreeKeys bitX dkX toyConsistentX
  rw [hs]; rfl

/-- `used_word_tamper_changes_leaf` / `used_word_tamper_rejected_anylevel_partial`: all hypotheses hold for the toy
    hash, level 1 (the first correction word), one flipped bit -/
example : ∃ z, z ≠ ystarOf bitX ∧ z < Q ∧
    (evalLevels (m := Id) toyInj [] bitX dkX levels (buildTree (m := Id) toyInj [] toyTreeKeys).2.t (evalInit (bitX 0) (dkX 0)).1 (evalInit (bitX 0) (dkX 0)).2).2[z]? ≠
      (evalLevels (m := Id) toyInj [] bitX dkX levels (corruptWord (buildTree (m := Id) toyInj [] toyTreeKeys).2.t 1 (bitX 1) (1 :: List.replicate 31 0))
        (evalInit (bitX 0) (dkX 0)).1 (evalInit (bitX 0) (dkX 0)).2).2[z]? ∧
    z / 2 ^ (K - 1) = ystarOf bitX / 2 ^ (K - 1) ∧ z / 2 ^ (K - 1 - 1) ≠ ystarOf bitX / 2 ^ (K - 1 - 1) :=
  used_word_tamper_changes_leaf toyInj [] toyInj_prg bitX dkX _ 1 _ (by decide) (by decide) (by decide) (by decide)
    (by decide) (by decide) (by decide) (by decide)

example : evalTree (m := Id) toyInj [] bitX dkX
    { (buildTree (m := Id) toyInj [] toyTreeKeys).2 with
      t := corruptWord (buildTree (m := Id) toyInj [] toyTreeKeys).2.t 1 (bitX 1) (1 :: List.replicate 31 0) } = none :=
  used_word_tamper_rejected_anylevel_partial toyInj [] toyInj_prg bitX dkX _ 1 _ (by decide) (by decide) (by decide)
    (by decide) (by decide) (by decide) (by decide) (by decide) toyAcceptedX (by decide) (by decide)

/-- `selective_failure_partial`: the adversarial message for the guess 1,0,1,0 with a wrong word at level 2, side 0 -/
example : ∃ s, evalTree (m := Id) toyH [5] (fun i => (i + 1) % 2) (fun i => sel ((i + 1) % 2) (toyTreeKeys i))
    (advTree (m := Id) toyH [5] toyTreeKeys 2 0 (List.replicate 32 255) (fun i => (i + 1) % 2)) = some (5, s) :=
  selective_failure_partial toyH [5] toyTreeKeys 2 0 _ _ (by intro i _; omega)

/-- `selective_failure_accepts`: last level, the receiver (bits 0,1,0,0) agrees with the guess (0,1,0,1) except in the
    last bit — accepted although the guess of the full path is wrong -/
example : (evalTree (m := Id) toyInj [] bitX dkX
    (advTree (m := Id) toyInj [] toyTreeKeys 3 1 (1 :: List.replicate 31 0) (fun i => if i = 1 ∨ i = 3 then 1 else 0))).isSome :=
  selective_failure_accepts toyInj [] toyTreeKeys bitX dkX toyConsistentX _ (by decide) 3 1 _ (by decide) (by decide)
    (by decide) (by decide)

/-- `selective_failure_iff_partial`: all hypotheses hold for the toy hash; guess (0,0,0,1) reads the corrupted word of
    the last level, the receiver (0,1,0,0) leaves the guessed path at level 1: rejected -/
example : (evalTree (m := Id) toyInj [] bitX dkX
      (advTree (m := Id) toyInj [] toyTreeKeys 3 1 (1 :: List.replicate 31 0) (fun i => if i = 3 then 1 else 0))).isSome ↔
    advAccepts 3 1 (fun i => if i = 3 then 1 else 0) bitX = true :=
  selective_failure_iff_partial toyInj [] toyInj_prg toyTreeKeys bitX dkX toyConsistentX _ (by decide) 3 1 _ (by decide)
    (by decide) (by decide) (by decide) (by decide) (by decide) (by decide) (fun _ hlt => absurd hlt (by decide))

example : advAccepts 3 1 (fun i => if i = 3 then 1 else 0) bitX = false := by decide

end SlVerif.C06
