import SlVerif.Proofs.NoPanic
import SlVerif.Proofs.RvoleAdv
import SlVerif.Props.C04
import SlVerif.Props.C10
import SlVerif.Props.C12
/-
  C11  "Whatever bytes a remote party supplies as a serialised verifiable-encryption proof, a serialised Paillier key or
        ciphertext, a base-OT, PPRF, OT-extension or VOLE protocol message, a relay frame, or a BIP32 root key and path,
        the receiving call terminates and returns either an error or a well-defined value.  It never panics, overflows,
        indexes out of bounds or leaves shared state (such as the relay's lock) unusable for other callers."

  What a Lean theorem can say here, and what it cannot.

  (A) Entry points whose MODEL has an explicit panic outcome (the model mirrors every `unwrap` / `expect` / index / assert
      of the Rust that depends on the input).  For these we prove, for ALL byte strings, that the panic outcome is never
      produced:
        * relay          `relay_start_send_no_panic`, `relay_service_send_no_panic`, `relay_history_no_panic`,
                         `hdr_decode_total` — `Model/Relay.lean`.  About the lock: the model has NO poisoned state; the only
                         way the Rust can poison its mutex is a panic while the guard is alive, i.e. exactly the
                         `SendResult.panic` outcome, which is never produced; and after ANY history of arbitrary frames the
                         state satisfies the reachable-state invariant `Relay.WF` (one entry per id, heap and map agree).
        * Paillier wire  `paillier_pk_no_panic`, `paillier_sk_no_panic`, `paillier_*_bin_no_panic`, `paillier_*_hex_no_panic`
                         — `Model/PaillierWire.lean`: admitted ⇔ odd, and behind the guard no `DynResidueParams::new` /
                         `NonZero::unwrap` / `wrapping_div` panic site is reachable.
        * VerEnc         `venc_no_panic`, `venc_objects_no_panic` (= `C10.no_panic`, `C10.no_panic_objects`).
        * BIP32          `bip32_derive_no_panic`, `bip32_child_no_panic`, `bip32_to_string_no_panic` (= the C12 theorems).
  (B) Entry points whose model is a TOTAL function returning `Except` / `Option` (base OT, PPRF, OT extension, RVOLE):
      "the model never panics" would be vacuous.  For these the theorems below state the ERROR CLASSIFICATION — exactly
      which messages are answered with `Err` — and panic-freedom OF THE RUST (array indexing, integer overflow, internals
      of k256 / merlin / bytemuck) is established by the differential stream `harness/src/c11.rs` ONLY, which runs the
      real code with overflow checks and debug assertions enabled on random, constant, boundary and mutated messages:
        * `eot_sender_err_iff`, `eot_receiver_err_iff`   some point (resp. some CHOSEN point) does not decode
        * `pprf_err_iff`                                  some tree's digest check fails
        * `ss_sender_accept_iff`  (= `C04.accept_iff`)    every row check holds
        * `rvole_receiver_verdict` (same statement as `C02.verdict`; proved here from `Proofs/RvoleAdv.lean`
                                                          so that this module does not depend on the C01/C02 import chain)
                                                          the mu digest equals the `mu_hash` field
  (C) External parsers (k256 point decoding, `derivation-path`, bytemuck, serde_json / bincode framing) have no model;
      the stream applies the no-panic predicate to them directly.

  Every statement quantifies over ALL byte lists / naturals; models are tied to the Rust by their own streams and by
  the C11 stream (outcome class, and full output where the driver prints it).
-/
namespace SlVerif.C11
open SlVerif

/-! ## relay frames -/
section Relay
open SlVerif.Relay

/-- `MessageRelay::start_send` on ANY frame, in ANY state: `Ok` or `Err(MessageSendError)`, never a panic under the lock;
    the error is returned exactly for frames shorter than a header, before the lock is taken -/
theorem relay_start_send_no_panic (s : State) (conn : Nat) (frame : Bytes) (now : Nat) :
    (startSend s conn frame now).2.2 ≠ .panic ∧
    (startSend s conn frame now).2.2 = (if frame.length < 36 then .sendError else .ok) :=
  ⟨startSend_ne_panic s conn frame now, startSend_result s conn frame now⟩

/-- `SimpleMessageRelay::send` on ANY frame, in ANY state, returns normally (after the repair of D6) -/
theorem relay_service_send_no_panic (s : State) (frame : Bytes) (now : Nat) :
    (serviceSend s frame now).2.2 ≠ .panic ∧ (serviceSend s frame now).2.2 = .ok :=
  ⟨serviceSend_ne_panic s frame now, serviceSend_ok s frame now⟩

/-- after ANY history of arbitrary frames / service sends / clock advances, the NEXT operation — whatever its bytes —
    does not panic, and the state before and after it satisfies the reachable-state invariant of `Proofs/Relay.lean`:
    the relay stays usable for every later caller -/
theorem relay_history_no_panic (ops : List Op) (op : Op) :
    WF (run {} ops).1.st ∧ (step (run {} ops).1 op).2.2 ≠ .panic ∧ WF (step (run {} ops).1 op).1.st :=
  ⟨WF_reach ops, step_ne_panic _ op, WF_step (WF_reach ops) op⟩

/-- `<&MsgHdr>::try_from(&[u8])` is total: `Err(())` exactly below 36 bytes, otherwise the three fields -/
theorem hdr_decode_total (f : Bytes) :
    (decodeHdr? f = none ↔ f.length < 36) ∧
    (36 ≤ f.length → decodeHdr? f = some ⟨f.take 32, leToNat ((f.drop 32).take 2), leToNat ((f.drop 34).take 2)⟩) :=
  ⟨decodeHdr?_none_iff f, decodeHdr?_eq_some⟩

example : (startSend {} 0 (List.replicate 35 255) 0).2.2 = .sendError := by decide
example : (startSend {} 0 (List.replicate 36 255) 0).2.2 = .ok := by decide
example : (serviceSend {} [] 7).2.2 = .ok := by decide
example : (run {} [.frame 0 (List.replicate 36 0), .service (List.replicate 40 0), .frame 1 []]).1.st.msgs.length = 1 := by decide

end Relay

/-! ## Paillier keys and ciphertexts on the wire -/
section Paillier
open SlVerif.PaillierWire

/-- `Deserialize for PK2048`: never a panic; admitted exactly for odd N (N = 0 is refused by `NonZero`, even N by the guard) -/
theorem paillier_pk_no_panic (n : Nat) :
    (∀ w, pkAdmit n ≠ .panic w) ∧ (pkAdmit n = .ok ↔ n % 2 = 1) := by
  rw [pkAdmit_eq]
  constructor
  · intro w; split <;> [simp; (split <;> simp)]
  · constructor
    · intro h
      split at h
      · cases h
      · split at h
        · cases h
        · omega
    · intro h
      rw [if_neg (by omega), if_neg (by omega)]

/-- `Deserialize for SK2048`: never a panic; admitted exactly for odd p and odd q greater than one
    (p = 1 or q = 1 gives phi = 0: fix commit 49f7cdb) -/
theorem paillier_sk_no_panic (p q : Nat) :
    (∀ w, skAdmit p q ≠ .panic w) ∧ (skAdmit p q = .ok ↔ p % 2 = 1 ∧ q % 2 = 1 ∧ p ≠ 1 ∧ q ≠ 1) := by
  rw [skAdmit_eq]
  constructor
  · intro w; split <;> simp
  · constructor
    · intro h; split at h
      · assumption
      · cases h
    · intro h; rw [if_pos h]

/-- the binary (bincode) forms, ANY byte string -/
theorem paillier_bin_no_panic (b : Bytes) (w : String) :
    pkAdmitBin b ≠ .panic w ∧ skAdmitBin b ≠ .panic w ∧ ctAdmitBin b ≠ .panic w := by
  refine ⟨?_, ?_, ?_⟩
  · unfold pkAdmitBin; split
    · simp
    · exact (paillier_pk_no_panic _).1 w
  · unfold skAdmitBin; split
    · simp
    · exact (paillier_sk_no_panic _ _).1 w
  · unfold ctAdmitBin; split <;> simp

/-- the hex-string (JSON) forms, ANY character strings -/
theorem paillier_hex_no_panic (s s' : List Char) (w : String) :
    pkAdmitHex s ≠ .panic w ∧ skAdmitHex s s' ≠ .panic w ∧ ctAdmitHex s ≠ .panic w := by
  refine ⟨?_, ?_, ?_⟩
  · unfold pkAdmitHex; split
    · simp
    · exact (paillier_pk_no_panic _).1 w
  · unfold skAdmitHex; split
    · exact (paillier_sk_no_panic _ _).1 w
    · simp
  · unfold ctAdmitHex; split <;> simp

/-- non-vacuity: WITHOUT the guards the code behind them does panic (this is the defect the fix commit repaired) -/
example : pkFromMinimal 4 = .panic "modulus must be odd" := by decide
example : fromPq 2 3 = .panic "modulus must be odd" := by decide
example : fromPq 0 0 = .panic "modulus must be odd" := by decide
example : pkAdmit 4 = .err "invalid Paillier public key: N must be odd" ∧ pkAdmit 0 ≠ .ok ∧ pkAdmit 15 = .ok ∧ skAdmit 3 5 = .ok ∧ skAdmit 1 1 ≠ .ok ∧ skAdmit 1 3 ≠ .ok := by decide
example (b : Bytes) (hb : b.length < 256) : pkAdmitBin b = .err "unexpected end of input" := by
  unfold pkAdmitBin; rw [if_pos (by simpa [N_BYTES] using hb)]
example (b : Bytes) (hb : 256 ≤ b.length) (ho : leToNat (b.take 256) % 2 = 1) : pkAdmitBin b = .ok := by
  unfold pkAdmitBin
  rw [if_neg (by simp only [N_BYTES]; omega)]
  exact (paillier_pk_no_panic _).2.2 ho

/-- `bytemuck::try_from_bytes` and `<&MsgId>::try_from`: wrong lengths are errors -/
theorem pod_admit (size len : Nat) (w : String) :
    podAdmit size len ≠ .panic w ∧ (podAdmit size len = .ok ↔ len = size) ∧
    msgIdAdmit len ≠ .panic w ∧ (msgIdAdmit len = .ok ↔ 32 ≤ len) := by
  unfold podAdmit msgIdAdmit
  refine ⟨?_, ?_, ?_, ?_⟩
  · split <;> simp
  · split <;> simp_all
  · split <;> simp
  · split <;> simp <;> omega

end Paillier

/-! ## verifiable encryption (re-export of the owner's theorems) -/
section VerEnc
open SlVerif.VerEnc

/-- `from_bytes` never panics on ANY byte string; `verify` and `decrypt` never panic on a parsed proof — any claimed
    point, key, label, any behaviour of the primitives (`C10.no_panic`) -/
theorem venc_no_panic (h : Query → Bytes) (cp : CurveParams) (d : Bytes) (w : String) :
    fromBytes cp d ≠ .panic w ∧
    ∀ p, fromBytes cp d = .ok p → ∀ (q key : Bytes) (n : ℕ) (label : Bytes),
      verifyP h cp p q key n label ≠ .panic w ∧ decryptP h cp p q key n label ≠ .panic w :=
  C10.no_panic h cp d w

/-- proof OBJECTS not obtained from bytes: `decrypt` never panics; `verify` only through an index, never when the object
    has `security_param ≤ 256` slots and openings (`C10.no_panic_objects`) -/
theorem venc_objects_no_panic (h : Query → Bytes) (cp : CurveParams) (p : Proof) (q key : Bytes) (n : ℕ) (label : Bytes)
    (w : String) :
    decryptP h cp p q key n label ≠ .panic w ∧
    (p.param ≤ p.slots.length → p.param ≤ p.opens.length → p.param ≤ 256 → verifyP h cp p q key n label ≠ .panic w) :=
  C10.no_panic_objects h cp p q key n label w

/-- non-vacuity: the model's panic outcome is reachable for objects that `from_bytes` refuses (257 slots: the challenge
    has 256 bits) -/
example : extractBit (List.replicate 32 0) 256 = none ∧ extractBit (List.replicate 32 0) 255 = some false := by decide
example : toBytes secp { seed := [], slots := [], opens := [], param := 0 } = .panic "proofs[0]: index out of bounds" := rfl

end VerEnc

/-! ## BIP32 (re-export of the C12 theorems) -/
section Bip32
open SlVerif.Bip32

variable {h : Query → Bytes} {G : Type} [AddCommGroup G] [Module Zq G]

/-- `derive_xpub`: `Ok` or `Err`, whatever the chain code, prefix and path (any length, any components), for every
    root key that `ProjectivePoint` can hold (`C12.no_panic`) -/
theorem bip32_derive_no_panic (go : GroupOracle h G) (v : ℕ) {root : Bytes} (cc : Bytes) (path : List ℕ)
    (hr : go.Canon root) (m : String) : deriveXpubP h v root cc path ≠ .panic m :=
  C12.no_panic go v cc path hr m

/-- `derive_child_pubkey` has no panic path, for ANY parent bytes, chain code and index (`C12.child_never_panics`) -/
theorem bip32_child_no_panic (h : Query → Bytes) (parent cc : Bytes) (i : ℕ) :
    (∀ m, deriveChildP h parent cc i ≠ .panic m) ∧
      (isNormal i = false → deriveChildP h parent cc i = .err .hardenedChildNotSupported) :=
  C12.child_never_panics h parent cc i

/-- `XPubKey::to_string` on a derived key never hits its `expect` (`C12.to_string_no_panic`) -/
theorem bip32_to_string_no_panic (go : GroupOracle h G) (hl : HashLens h) {v : ℕ} {root cc : Bytes} {path : List ℕ}
    {x : XPub} (hr : go.Canon root) (hcc : cc.length = 32) (e : deriveXpubP h v root cc path = .ok x) :
    toStringP h x false = .ok (bytesToHex (serialize x)) ∧
    toStringP h x true = .ok (String.ofList (base58Encode
      (serialize x ++ (h (.sha256 (h (.sha256 (serialize x))))).take 4))) :=
  C12.to_string_no_panic go hl hr hcc e

end Bip32

/-! ## error classification of the OT / VOLE entry points (total models) -/
section Classification

/-- `EndemicOTSender::process` = `Err("Decode error")` iff some point of message 1 fails `decode_point` -/
theorem eot_sender_err_iff (h : Query → Bytes) (sid : Bytes) (msg1 : List (Bytes × Bytes)) (tape : Tape) :
    (Endemic.sendProcess (m := Id) h sid msg1 tape).1.err = true ↔
      ∃ idx, idx < Generated.LAMBDA_C ∧
        ¬ (h (.ecValid .secp256k1 (msg1.getD idx (Endemic.identity33, Endemic.identity33)).1) = [1] ∧
           h (.ecValid .secp256k1 (msg1.getD idx (Endemic.identity33, Endemic.identity33)).2) = [1]) :=
  Endemic.sendProcess_err_iff h sid msg1 tape

/-- `EndemicOTReceiver::process` = `Err("Decode error")` iff the CHOSEN point of some instance fails `decode_point` -/
theorem eot_receiver_err_iff (h : Query → Bytes) (st : Endemic.RecvState) (msg2 : List (Bytes × Bytes)) :
    Endemic.recvProcess (m := Id) h st msg2 = none ↔
      ∃ idx, idx < Generated.LAMBDA_C ∧
        ¬ h (.ecValid .secp256k1
            (if Endemic.extractBit st.choiceBits idx = 0 then (msg2.getD idx (Endemic.identity33, Endemic.identity33)).1
             else (msg2.getD idx (Endemic.identity33, Endemic.identity33)).2)) = [1] :=
  Endemic.recvProcess_err_iff h st msg2

/-- `eval_pprf` = `Err("Invalid proof")` iff the digest check of some tree fails -/
theorem pprf_err_iff (h : Query → Bytes) (sid bits : Bytes) (dks : List Bytes) (out : List Pprf.TreeMsg) :
    (∃ e, Pprf.evalPprf (m := Id) h sid bits dks out = .error e) ↔
      ∃ j, j < Pprf.NT ∧ Pprf.evalTree (m := Id) h sid (Pprf.treeBit bits j) (Pprf.treeDk dks j)
                      (out.getD j { t := [], sTilda := [], tTilda := [] }) = none :=
  Pprf.evalPprf_err_iff h sid bits dks out

/-- `SoftSpokenOTSender::process` accepts iff every row check holds (`C04.accept_iff`); otherwise the ban error -/
theorem ss_sender_accept_iff (h : Query → Id Bytes) (sid : Bytes) (rc : List ℕ) (decKeys : List (List Bytes))
    (msg : SoftSpoken.Round1Output) :
    ((∃ so, SoftSpoken.senderProcess (m := Id) h sid rc decKeys msg = .ok so) ↔
      ∀ i < Generated.LAMBDA_C,
        SoftSpoken.checkRow (SoftSpoken.chiAll (m := Id) h sid msg.u)
            ((SoftSpoken.sendWRows (SoftSpoken.sendExpand (m := Id) h sid rc decKeys) rc msg.u).getD i 0)
          = msg.t.getD i 0 ^^^ SoftSpoken.mask ((SoftSpoken.packedNabla rc).testBit i) msg.x) ∧
    (SoftSpoken.senderProcess (m := Id) h sid rc decKeys msg = .error .abortProtocolAndBanReceiver ↔
      ¬ ∃ so, SoftSpoken.senderProcess (m := Id) h sid rc decKeys msg = .ok so) :=
  ⟨C04.accept_iff h sid rc decKeys msg, C04.ban_iff_not_accepted h sid rc decKeys msg⟩

/-- `RVOLEReceiver::process`: `Ok(shares)` if the digest of the receiver's own mu' values is the `mu_hash` field (and,
    after the fix for non-canonical check values, every `eta[k]` is a canonical scalar encoding),
    `Err("Consistency check failed")` otherwise (the statement of `C02.verdict`) -/
theorem rvole_receiver_verdict (h : Query → Id Bytes) (st : Rvole.RecvState) (msg : Rvole.Msg2) :
    Rvole.receiverProcess (m := Id) h st msg =
      if msg.muHash = Rvole.checkDigest h st.sid st.beta st.vx msg ∧ Rvole.etaCanonical msg.eta = true
      then .ok (Rvole.sharesOf h st.sid st.beta st.vx msg) else .error Rvole.checkFailed :=
  by rw [Rvole.receiverProcess_id, Rvole.receiverCore_eq]

end Classification

end SlVerif.C11
