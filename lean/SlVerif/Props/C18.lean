import SlVerif.Proofs.Ct
import SlVerif.Generated.CtSkel
/-
  C18.  "Operations that process long-term or per-session secrets and are written to be constant-time (Paillier
  encryption, both decryption paths, constant-time scalar multiplication and N-th-root extraction; PPRF evaluation;
  OT-extension sender processing; VOLE sender and receiver processing) execute the same number of times every
  source-level branch and loop body for all values of the secrets, plaintexts, ciphertexts and randomness.  Only public
  size parameters (the bit lengths of N, p^2 and q^2) may influence it."

  Reading.  `Generated.skel_<op>` is the control-flow skeleton that `tools/ctskel` extracts from the CURRENT source of
  the operation on every check (sites = function bodies, loop bodies, closure bodies, branch arms; everything not
  declared public in tools/ctskel/ops.json is secret).  `Ct.exec I p σ : Site → Nat` counts the executions of every site
  for a state `σ = (public part, secret part)`; `I` interprets trip counts (functions of the PUBLIC state only),
  public conditions, secret values and abort conditions and is ARBITRARY in every theorem, as is the type of secrets.

  For each operation:
    `<op>_checked : Ct.check skel_<op> = true`   (kernel evaluation: no secret-dependent node, recursively through calls)
    `<op>_ct`      : any two states with the same public part (and, where the skeleton contains them, every one-hot
                     secret in range and no declassified abort taken — i.e. honest runs) give the same count at
                     every site.
  The five Paillier operations have neither one-hot comparisons nor abort points: `<op>_ct_all` is unconditional.

  What this does NOT say: machine-level timing, cache behaviour (secret-dependent array indices are listed as notes by
  the translator), compiler-introduced branches, and the inside of external crates (`ext` nodes; crypto-bigint / subtle
  line counts are compared across secrets by the measurement part of the check, tools/ct_check.py).
-/
namespace SlVerif.C18
open SlVerif SlVerif.Ct SlVerif.Generated

set_option maxRecDepth 8192

variable {S : Type}

/-! ### the checker accepts the nine listed operations (evaluated by the kernel on the generated skeletons) -/

theorem encrypt_with_r_checked : Ct.check skel_encrypt_with_r = true := by decide
theorem decrypt_checked : Ct.check skel_decrypt = true := by decide
theorem decrypt_fast_checked : Ct.check skel_decrypt_fast = true := by decide
theorem mul_checked : Ct.check skel_mul = true := by decide
theorem extract_n_root_checked : Ct.check skel_extract_n_root = true := by decide
theorem eval_pprf_checked : Ct.check skel_eval_pprf = true := by decide
theorem ot_sender_process_checked : Ct.check skel_ot_sender_process = true := by decide
theorem rvole_sender_process_checked : Ct.check skel_rvole_sender_process = true := by decide
theorem rvole_receiver_process_checked : Ct.check skel_rvole_receiver_process = true := by decide

/-- NEGATIVE CONTROL: the known variable-time sibling `mul_vartime` (`bits_vartime` of the secret plaintext, then
    `pow_bounded_exp` with that secret bound) is rejected. -/
example : Ct.check skel_mul_vartime = false := by decide

/-! ### count equality for all pairs of executions that differ only in secrets -/

/-- Paillier encryption `PK::encrypt_with_r` (public: `self.n`). -/
theorem encrypt_with_r_ct (I : Interp S) (σ₁ σ₂ : State S) (hp : σ₁.pub = σ₂.pub)
    (r₁ : InRange I skel_encrypt_with_r σ₁) (r₂ : InRange I skel_encrypt_with_r σ₂)
    (a₁ : NoAbort I skel_encrypt_with_r σ₁) (a₂ : NoAbort I skel_encrypt_with_r σ₂) :
    exec I skel_encrypt_with_r σ₁ = exec I skel_encrypt_with_r σ₂ :=
  Ct.sound I _ encrypt_with_r_checked σ₁ σ₂ hp r₁ r₂ a₁ a₂

/-- Paillier decryption `SK::decrypt`. -/
theorem decrypt_ct (I : Interp S) (σ₁ σ₂ : State S) (hp : σ₁.pub = σ₂.pub)
    (r₁ : InRange I skel_decrypt σ₁) (r₂ : InRange I skel_decrypt σ₂)
    (a₁ : NoAbort I skel_decrypt σ₁) (a₂ : NoAbort I skel_decrypt σ₂) :
    exec I skel_decrypt σ₁ = exec I skel_decrypt σ₂ :=
  Ct.sound I _ decrypt_checked σ₁ σ₂ hp r₁ r₂ a₁ a₂

/-- CRT decryption `SK::decrypt_fast` (+ `mp`, `decompose`, `recombine`). -/
theorem decrypt_fast_ct (I : Interp S) (σ₁ σ₂ : State S) (hp : σ₁.pub = σ₂.pub)
    (r₁ : InRange I skel_decrypt_fast σ₁) (r₂ : InRange I skel_decrypt_fast σ₂)
    (a₁ : NoAbort I skel_decrypt_fast σ₁) (a₂ : NoAbort I skel_decrypt_fast σ₂) :
    exec I skel_decrypt_fast σ₁ = exec I skel_decrypt_fast σ₂ :=
  Ct.sound I _ decrypt_fast_checked σ₁ σ₂ hp r₁ r₂ a₁ a₂

/-- constant-time scalar multiplication `PK::mul`. -/
theorem mul_ct (I : Interp S) (σ₁ σ₂ : State S) (hp : σ₁.pub = σ₂.pub)
    (r₁ : InRange I skel_mul σ₁) (r₂ : InRange I skel_mul σ₂)
    (a₁ : NoAbort I skel_mul σ₁) (a₂ : NoAbort I skel_mul σ₂) :
    exec I skel_mul σ₁ = exec I skel_mul σ₂ :=
  Ct.sound I _ mul_checked σ₁ σ₂ hp r₁ r₂ a₁ a₂

/-- N-th-root extraction `SK::extract_n_root`. -/
theorem extract_n_root_ct (I : Interp S) (σ₁ σ₂ : State S) (hp : σ₁.pub = σ₂.pub)
    (r₁ : InRange I skel_extract_n_root σ₁) (r₂ : InRange I skel_extract_n_root σ₂)
    (a₁ : NoAbort I skel_extract_n_root σ₁) (a₂ : NoAbort I skel_extract_n_root σ₂) :
    exec I skel_extract_n_root σ₁ = exec I skel_extract_n_root σ₂ :=
  Ct.sound I _ extract_n_root_checked σ₁ σ₂ hp r₁ r₂ a₁ a₂

/-- PPRF evaluation `eval_pprf` (abort point: the proof digest check). -/
theorem eval_pprf_ct (I : Interp S) (σ₁ σ₂ : State S) (hp : σ₁.pub = σ₂.pub)
    (r₁ : InRange I skel_eval_pprf σ₁) (r₂ : InRange I skel_eval_pprf σ₂)
    (a₁ : NoAbort I skel_eval_pprf σ₁) (a₂ : NoAbort I skel_eval_pprf σ₂) :
    exec I skel_eval_pprf σ₁ = exec I skel_eval_pprf σ₂ :=
  Ct.sound I _ eval_pprf_checked σ₁ σ₂ hp r₁ r₂ a₁ a₂

/-- OT-extension sender `SoftSpokenOTSender::process` (+ `transpose_bool_matrix`); one-hot on `random_choices[i]`,
    abort point: the consistency check. -/
theorem ot_sender_process_ct (I : Interp S) (σ₁ σ₂ : State S) (hp : σ₁.pub = σ₂.pub)
    (r₁ : InRange I skel_ot_sender_process σ₁) (r₂ : InRange I skel_ot_sender_process σ₂)
    (a₁ : NoAbort I skel_ot_sender_process σ₁) (a₂ : NoAbort I skel_ot_sender_process σ₂) :
    exec I skel_ot_sender_process σ₁ = exec I skel_ot_sender_process σ₂ :=
  Ct.sound I _ ot_sender_process_checked σ₁ σ₂ hp r₁ r₂ a₁ a₂

/-- VOLE sender `RVOLESender::process` (calls the OT-extension sender; `?` on its result is an abort point). -/
theorem rvole_sender_process_ct (I : Interp S) (σ₁ σ₂ : State S) (hp : σ₁.pub = σ₂.pub)
    (r₁ : InRange I skel_rvole_sender_process σ₁) (r₂ : InRange I skel_rvole_sender_process σ₂)
    (a₁ : NoAbort I skel_rvole_sender_process σ₁) (a₂ : NoAbort I skel_rvole_sender_process σ₂) :
    exec I skel_rvole_sender_process σ₁ = exec I skel_rvole_sender_process σ₂ :=
  Ct.sound I _ rvole_sender_process_checked σ₁ σ₂ hp r₁ r₂ a₁ a₂

/-- VOLE receiver `RVOLEReceiver::process` (+ `generate_gadget_vec`); abort point: the mu-hash check. -/
theorem rvole_receiver_process_ct (I : Interp S) (σ₁ σ₂ : State S) (hp : σ₁.pub = σ₂.pub)
    (r₁ : InRange I skel_rvole_receiver_process σ₁) (r₂ : InRange I skel_rvole_receiver_process σ₂)
    (a₁ : NoAbort I skel_rvole_receiver_process σ₁) (a₂ : NoAbort I skel_rvole_receiver_process σ₂) :
    exec I skel_rvole_receiver_process σ₁ = exec I skel_rvole_receiver_process σ₂ :=
  Ct.sound I _ rvole_receiver_process_checked σ₁ σ₂ hp r₁ r₂ a₁ a₂

/-! ### unconditional form for the Paillier operations (no one-hot comparison, no abort point in their skeletons) -/

theorem encrypt_with_r_ct_all (I : Interp S) (σ₁ σ₂ : State S) (hp : σ₁.pub = σ₂.pub) :
    exec I skel_encrypt_with_r σ₁ = exec I skel_encrypt_with_r σ₂ :=
  Ct.sound_plain I _ encrypt_with_r_checked (by decide) (by decide) σ₁ σ₂ hp

theorem decrypt_ct_all (I : Interp S) (σ₁ σ₂ : State S) (hp : σ₁.pub = σ₂.pub) :
    exec I skel_decrypt σ₁ = exec I skel_decrypt σ₂ :=
  Ct.sound_plain I _ decrypt_checked (by decide) (by decide) σ₁ σ₂ hp

theorem decrypt_fast_ct_all (I : Interp S) (σ₁ σ₂ : State S) (hp : σ₁.pub = σ₂.pub) :
    exec I skel_decrypt_fast σ₁ = exec I skel_decrypt_fast σ₂ :=
  Ct.sound_plain I _ decrypt_fast_checked (by decide) (by decide) σ₁ σ₂ hp

theorem mul_ct_all (I : Interp S) (σ₁ σ₂ : State S) (hp : σ₁.pub = σ₂.pub) :
    exec I skel_mul σ₁ = exec I skel_mul σ₂ :=
  Ct.sound_plain I _ mul_checked (by decide) (by decide) σ₁ σ₂ hp

theorem extract_n_root_ct_all (I : Interp S) (σ₁ σ₂ : State S) (hp : σ₁.pub = σ₂.pub) :
    exec I skel_extract_n_root σ₁ = exec I skel_extract_n_root σ₂ :=
  Ct.sound_plain I _ extract_n_root_checked (by decide) (by decide) σ₁ σ₂ hp

/-! ### the range obligation of the one-hot idiom

  `SoftSpokenOTSender::process` contains `for (j, rx_j) in r_x.iter_mut().enumerate() { if j ==
  seed_ot_results.random_choices[i] as usize {..} else {..} }`.  The `then` arm runs exactly once per instance of the
  loop iff `random_choices[i] < SOFT_SPOKEN_Q` (= the length of `r_x`).  That bound is what C06 proves about the
  output of `eval_pprf` (`C06.ystar_lt_q`: the punctured index written to `random_choices[j]` is `< SOFT_SPOKEN_Q`);
  here it is the explicit hypothesis `hq`: for every one-hot pair (loop, secret) of the skeleton, in every state, the
  secret is below the loop's trip count.  `Ct.hotPairs` lists the pairs (exactly one in the current source). -/

/-- range obligation discharged from the bound on `random_choices` -/
theorem oneHot_range (I : Interp S) (σ : State S)
    (hq : ∀ l k, (l, k) ∈ hotPairs skel_ot_sender_process → ∀ τ : State S, I.secretIdx k (τ.bind l 0) < I.trip l τ.pub) :
    InRange I skel_ot_sender_process σ :=
  inRange_of_hotPairs I _ σ hq

/-- the same through `RVOLESender::process`, which calls the OT-extension sender -/
theorem oneHot_range_rvole (I : Interp S) (σ : State S)
    (hq : ∀ l k, (l, k) ∈ hotPairs skel_rvole_sender_process → ∀ τ : State S, I.secretIdx k (τ.bind l 0) < I.trip l τ.pub) :
    InRange I skel_rvole_sender_process σ :=
  inRange_of_hotPairs I _ σ hq

/-- OT-extension sender, with the side conditions in their source-level form: `random_choices[i] < SOFT_SPOKEN_Q` and
    the consistency check passes (honest receiver). -/
theorem ot_sender_process_ct_honest (I : Interp S) (σ₁ σ₂ : State S) (hp : σ₁.pub = σ₂.pub)
    (hq : ∀ l k, (l, k) ∈ hotPairs skel_ot_sender_process → ∀ τ : State S, I.secretIdx k (τ.bind l 0) < I.trip l τ.pub)
    (hab : ∀ c, c ∈ abortIds skel_ot_sender_process → ∀ τ : State S, I.abortCond c τ = false) :
    exec I skel_ot_sender_process σ₁ = exec I skel_ot_sender_process σ₂ :=
  ot_sender_process_ct I σ₁ σ₂ hp (oneHot_range I σ₁ hq) (oneHot_range I σ₂ hq)
    (noAbort_of_abortIds I _ σ₁ hab) (noAbort_of_abortIds I _ σ₂ hab)

/-- the other skeletons contain no one-hot comparison: their range obligation is empty -/
example : hotPairs skel_eval_pprf = [] ∧ hotPairs skel_rvole_receiver_process = [] ∧
    hotPairs skel_rvole_sender_process = hotPairs skel_ot_sender_process ∧ (hotPairs skel_ot_sender_process).length = 1 := by decide

/-! ### non-vacuity -/

/-- every site of every listed skeleton is in the site table (file:line), i.e. the skeletons talk about source lines -/
example : ∀ p ∈ [skel_encrypt_with_r, skel_decrypt, skel_decrypt_fast, skel_mul, skel_extract_n_root, skel_eval_pprf,
    skel_ot_sender_process, skel_rvole_sender_process, skel_rvole_receiver_process],
    ∀ s ∈ Ct.sites p, (siteTable.lookup s).isSome = true := by decide

/-- the skeletons are not trivial: the OT sender, `eval_pprf` and both VOLE operations have abort points
    (counted through calls; stated as lower bounds so that a harmless restructuring of the source does not break it); the listed skeletons together mention more than 60 sites -/
example : 0 < (abortIds skel_ot_sender_process).length ∧ 0 < (abortIds skel_eval_pprf).length ∧
    0 < (abortIds skel_rvole_receiver_process).length ∧ 0 < (abortIds skel_rvole_sender_process).length ∧
    60 < (Ct.sites skel_rvole_sender_process ++ Ct.sites skel_eval_pprf ++ Ct.sites skel_rvole_receiver_process ++
          Ct.sites skel_decrypt_fast).length := by decide

/-- toy interpretation: every loop runs 4 times, the secret value is the secret state itself, nothing aborts -/
def toyI : Interp Nat where
  trip := fun _ _ => 4
  cond := fun _ _ => true
  secretIdx := fun _ σ => σ.sec
  secCond := fun _ σ => σ.sec % 2 == 1
  secTrip := fun _ σ => σ.sec
  abortCond := fun _ _ => false

/-- the shape of the OT sender's first loop nest -/
def toyHot : Stmt := .loopPub 0 (.block [.site 0, .loopPub 1 (.block [.site 1, .oneHot 0 1 0 (.site 2) (.site 3)])])

/-- the hypotheses of `sound` are satisfiable with DIFFERENT secrets (1 vs 3), and the counts are what one expects:
    4 outer iterations, 16 inner, `then` arm 4 = once per inner loop instance, `else` arm 12 -/
example : Ct.check toyHot = true ∧ InRange toyI toyHot ⟨fun _ => 0, 1⟩ ∧ InRange toyI toyHot ⟨fun _ => 0, 3⟩ ∧
    (exec toyI toyHot ⟨fun _ => 0, 1⟩ 0, exec toyI toyHot ⟨fun _ => 0, 1⟩ 1, exec toyI toyHot ⟨fun _ => 0, 1⟩ 2,
      exec toyI toyHot ⟨fun _ => 0, 1⟩ 3) = (4, 16, 4, 12) ∧
    (exec toyI toyHot ⟨fun _ => 0, 3⟩ 0, exec toyI toyHot ⟨fun _ => 0, 3⟩ 1, exec toyI toyHot ⟨fun _ => 0, 3⟩ 2,
      exec toyI toyHot ⟨fun _ => 0, 3⟩ 3) = (4, 16, 4, 12) := by
  refine ⟨by decide, ?_, ?_, by decide, by decide⟩ <;>
    simp [InRange, toyHot, Stmt.block, hotIds, toyI, State.bind]

/-- the range hypothesis is NEEDED: with an out-of-range secret (7 ≥ 4) the `then` arm never runs and the counts differ
    from those of an in-range secret although the checker accepts the program -/
example : exec toyI toyHot ⟨fun _ => 0, 7⟩ 2 = 0 ∧ exec toyI toyHot ⟨fun _ => 0, 1⟩ 2 = 4 := by decide

/-- the checker's rejections are meaningful: a secret branch, a secret trip count and a one-hot comparison outside
    its loop are rejected, and for each there are two states with equal public parts and different counts -/
example : Ct.check (.ifSec 0 (.site 1) (.site 2)) = false ∧
    exec toyI (.ifSec 0 (.site 1) (.site 2)) ⟨fun _ => 0, 0⟩ 1 ≠ exec toyI (.ifSec 0 (.site 1) (.site 2)) ⟨fun _ => 0, 1⟩ 1 ∧
    Ct.check (.loopSec 0 (.site 1)) = false ∧
    exec toyI (.loopSec 0 (.site 1)) ⟨fun _ => 0, 2⟩ 1 ≠ exec toyI (.loopSec 0 (.site 1)) ⟨fun _ => 0, 5⟩ 1 ∧
    Ct.check (.loopPub 0 (.loopPub 1 (.oneHot 0 0 0 (.site 1) (.site 2)))) = false ∧
    Ct.check (.loopPub 0 (.oneHot 0 0 0 (.loopPub 1 (.site 1)) .skip)) = false ∧
    Ct.check (.seq (.site 0) (.extVartime "bits_vartime")) = false ∧ Ct.check (.call "f" (.exitSec 0)) = false := by decide

end SlVerif.C18
