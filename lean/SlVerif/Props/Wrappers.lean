import SlVerif.Proofs.Wrappers
/-
  Relay wrappers and message identifiers (extension of the C15 / C17 coverage): theorems about
  SlVerif/Model/Wrappers.lean, the model of the parts of crates/sl-mpc-mate/src/{message.rs, coord.rs,
  coord/stats.rs, coord/adversary.rs} that the relay model and the buffering-wrapper model do not cover.
  The model is tied to the code by harness stream `CW` (harness/src/c21w.rs; it runs as part of `./check C17`).

  Quantification.  Every theorem holds for ALL arguments: all tags and parameters, all byte strings, all
  oracles (= every behaviour of SHA-256), all inner relays (any script of `poll_next` results, `Pending` and end of
  stream included; any relay state), all screenplays (any drop rules, any injections with any PURE condition), all
  scripts of send / ask / skipped-feed / poll / clock operations by any number of parties.  Nothing is enumerated.

  Vocabulary (defined in SlVerif/Proofs/Wrappers.lean):
    `sentBy c ops`        the frames connection `c` handed to its sink (`Relay::ask` hands over `AskMsg::allocate`)
    `sentAll ops`         the frames handed to any sink
    `recvBy c ops outs`   the frames the polls of connection `c` returned
    `nonPollOuts ops outs` the outputs of the operations that are not polls
    `injectedCount y ops` how many polls of the run delivered an injection
    `bareRun`             a scripted inner relay under the same operations, without wrapper
-/
namespace SlVerif.CW
open SlVerif SlVerif.Wrappers
open SlVerif.Relay (Id Hdr decodeHdr? allocateMessage MESSAGE_HEADER_SIZE SendResult)

/-! ### fixtures for the non-vacuity examples -/

def idA : Id := List.replicate 32 0xA1
def idB : Id := List.replicate 32 0xB2
def pubA : Bytes := allocateMessage idA 5 1 [7]
def pubB : Bytes := allocateMessage idB 5 1 [8, 9]
def short : Bytes := [1, 2, 3]

/-! ### message tags -/

/-- `tag1(t, p)` is the little-endian tag followed by the little-endian parameter (both as `u32`) -/
theorem tag1_bytes (t p : Nat) : tag1 t p = natToLe 4 t ++ natToLe 4 p := by
  unfold tag1
  have ht : t % 2 ^ 32 < 2 ^ 32 := Nat.mod_lt _ (by decide)
  have hp : p % 2 ^ 32 < 2 ^ 32 := Nat.mod_lt _ (by decide)
  rw [tag1_word _ _ ht, tag_eq_of_lt _ (by omega), show (8 : Nat) = 4 + 4 from rfl, natToLe4_word _ _ ht]
  have e : (2 : Nat) ^ 32 = 256 ^ 4 := by decide
  rw [e, natToLe_mod, natToLe_mod]

example : tag1 0x10203040 0xAABBCCDD = [0x40, 0x30, 0x20, 0x10, 0xDD, 0xCC, 0xBB, 0xAA] := by decide

/-- different (tag, parameter) pairs give different tags -/
theorem tag1_injective (t p t' p' : Nat) (ht : t < 2 ^ 32) (hp : p < 2 ^ 32) (ht' : t' < 2 ^ 32) (hp' : p' < 2 ^ 32)
    (h : tag1 t p = tag1 t' p') : t = t' ∧ p = p' := by
  rw [tag1_bytes, tag1_bytes] at h
  have hl : (natToLe 4 t).length = (natToLe 4 t').length := by simp [natToLe_length]
  obtain ⟨h1, h2⟩ := List.append_inj h hl
  have e : (256 : Nat) ^ 4 = 2 ^ 32 := by decide
  exact ⟨natToLe_inj 4 t t' (by omega) (by omega) h1, natToLe_inj 4 p p' (by omega) (by omega) h2⟩

example : tag1 1 0 ≠ tag1 0 1 := by decide

/-- `tag2(t, p1, p2)` is `tag1` with the two 16-bit parameters packed into one 32-bit parameter -/
theorem tag2_eq_tag1 (t p1 p2 : Nat) (h1 : p1 < 2 ^ 16) (h2 : p2 < 2 ^ 16) :
    tag2 t p1 p2 = tag1 t (p1 + 2 ^ 16 * p2) := by
  unfold tag2 tag1
  have ht : t % 2 ^ 32 < 2 ^ 32 := Nat.mod_lt _ (by decide)
  rw [Nat.mod_eq_of_lt h1, Nat.mod_eq_of_lt h2, tag2_word _ _ _ ht h1, tag1_word _ _ ht]
  have : (p1 + 2 ^ 16 * p2) % 2 ^ 32 = p1 + 2 ^ 16 * p2 := Nat.mod_eq_of_lt (by omega)
  rw [this]
  apply congrArg tag
  omega

example : tag2 0x10203040 0xEEFF 0xDEAD = tag1 0x10203040 0xDEADEEFF := by decide

/-- the byte layout of `tag2` -/
theorem tag2_bytes (t p1 p2 : Nat) (h1 : p1 < 2 ^ 16) (h2 : p2 < 2 ^ 16) :
    tag2 t p1 p2 = natToLe 4 t ++ (natToLe 2 p1 ++ natToLe 2 p2) := by
  rw [tag2_eq_tag1 t p1 p2 h1 h2, tag1_bytes, natToLe_append 2 2 (p1 + 2 ^ 16 * p2)]
  have e1 : natToLe 2 (p1 + 2 ^ 16 * p2) = natToLe 2 p1 := by
    rw [← natToLe_mod 2 (p1 + 2 ^ 16 * p2)]; congr 1; simp only [Nat.reducePow] at h1 ⊢; omega
  have e2 : (p1 + 2 ^ 16 * p2) / 256 ^ 2 = p2 := by simp only [Nat.reducePow] at h1 ⊢; omega
  rw [e1, e2]

example : tag2 0x10203040 0xEEFF 0xDEAD = [0x40, 0x30, 0x20, 0x10, 0xFF, 0xEE, 0xAD, 0xDE] := by decide

/-- different (tag, parameter, parameter) triples give different tags -/
theorem tag2_injective (t p1 p2 t' p1' p2' : Nat) (ht : t < 2 ^ 32) (ht' : t' < 2 ^ 32)
    (h1 : p1 < 2 ^ 16) (h2 : p2 < 2 ^ 16) (h1' : p1' < 2 ^ 16) (h2' : p2' < 2 ^ 16)
    (h : tag2 t p1 p2 = tag2 t' p1' p2') : t = t' ∧ p1 = p1' ∧ p2 = p2' := by
  rw [tag2_eq_tag1 _ _ _ h1 h2, tag2_eq_tag1 _ _ _ h1' h2'] at h
  have := tag1_injective t _ t' _ ht (by omega) ht' (by omega) h
  omega

example : tag2 7 1 0 ≠ tag2 7 0 1 := by decide

/-- a tag is 8 bytes -/
theorem tag_length (t : Nat) : (tag t).length = 8 := by simp [tag, natToLe_length]

example : (tag (2 ^ 64 + 5)).length = 8 ∧ tag (2 ^ 64 + 5) = tag 5 := by decide

/-! ### message ids -/

/-- `MsgId::broadcast` is `MsgId::new` without receiver -/
theorem msgIdBroadcast_eq {m : Type → Type} [Monad m] (O : Query → m Bytes) (inst sender tg : Bytes) :
    msgIdBroadcast O inst sender tg = msgIdNew O inst sender none tg := rfl

/-- an id depends on (sender, receiver) only through their concatenation — whatever SHA-256 does -/
theorem msgIdNew_concat {m : Type → Type} [Monad m] (O : Query → m Bytes) (inst tg s s' : Bytes) (r r' : Option Bytes)
    (h : s ++ r.getD [] = s' ++ r'.getD []) : msgIdNew O inst s r tg = msgIdNew O inst s' r' tg := by
  unfold msgIdNew msgIdPreimage
  rw [List.append_assoc tg s, List.append_assoc tg s', h]

/-- OBSERVATION (unframed hashing; not one of the twenty properties): moving bytes from the end of the sender to
    the front of the receiver does not change the id -/
theorem msgId_split_collision {m : Type → Type} [Monad m] (O : Query → m Bytes) (inst tg a b c : Bytes) :
    msgIdNew O inst (a ++ b) (some c) tg = msgIdNew O inst a (some (b ++ c)) tg :=
  msgIdNew_concat O inst tg _ _ _ _ (by simp)

/-- … and an empty receiver is the same as no receiver -/
theorem msgIdNew_some_nil {m : Type → Type} [Monad m] (O : Query → m Bytes) (inst tg s : Bytes) :
    msgIdNew O inst s (some []) tg = msgIdNew O inst s none tg :=
  msgIdNew_concat O inst tg _ _ _ _ rfl

/-- concrete witness: (sender [1,2], receiver [3]) and (sender [1], receiver [2,3]) are different pairs with one id,
    for every hash function `h` -/
example (h : Query → Bytes) :
    (([1, 2] : Bytes), some ([3] : Bytes)) ≠ ([1], some [2, 3]) ∧
    msgIdNew (m := Id) h idA [1, 2] (some [3]) (tag 9) = msgIdNew (m := Id) h idA [1] (some [2, 3]) (tag 9) :=
  ⟨by decide, msgId_split_collision (m := Id) h idA (tag 9) [1] [2] [3]⟩

/-- with tags, senders and instances of fixed lengths (8-byte tags, party keys of one length, 32-byte instances)
    the hashed bytes determine every component: different (tag, sender, receiver, instance) hash different bytes -/
theorem msgIdPreimage_injective (i i' s s' t t' : Bytes) (r r' : Option Bytes)
    (ht : t.length = t'.length) (hs : s.length = s'.length) (hi : i.length = i'.length)
    (h : msgIdPreimage i s r t = msgIdPreimage i' s' r' t') :
    t = t' ∧ s = s' ∧ r.getD [] = r'.getD [] ∧ i = i' := by
  unfold msgIdPreimage at h
  have hlen := congrArg List.length h
  simp only [List.length_append] at hlen
  have hr : (r.getD []).length = (r'.getD []).length := by omega
  obtain ⟨h123, h4⟩ := List.append_inj h (by simp only [List.length_append]; omega)
  obtain ⟨h12, h3⟩ := List.append_inj h123 (by simp only [List.length_append]; omega)
  obtain ⟨h1, h2⟩ := List.append_inj h12 ht
  exact ⟨h1, h2, h3, h4⟩

example : msgIdPreimage idA [1, 2] (some [3]) (tag 9) ≠ msgIdPreimage idA [1, 3] (some [3]) (tag 9) := by decide

/-- `MsgId::try_from(bytes)`: the first 32 bytes of a slice of at least 32 bytes, nothing else -/
theorem msgIdTryFrom_some (b : Bytes) (h : 32 ≤ b.length) : msgIdTryFrom b = some (b.take 32) := by
  unfold msgIdTryFrom
  rw [if_neg (by rw [id_size]; omega)]; rfl

theorem msgIdTryFrom_none (b : Bytes) (h : b.length < 32) : msgIdTryFrom b = none := by
  unfold msgIdTryFrom
  rw [if_pos (by rw [id_size]; omega)]

example : msgIdTryFrom pubA = some idA := by decide
example : msgIdTryFrom (List.replicate 31 0) = none := by decide

/-! ### `AskMsg::allocate`, `Relay::ask`, `MaybeFeed::skip` -/

/-- an ASK is exactly the 36-byte header: id, ttl (16 bits, little endian), flags 0 -/
theorem askAllocate_bytes (id : Id) (ttl : Nat) :
    askAllocate id ttl = id ++ natToLe 2 (ttl % 2 ^ 16) ++ [0, 0] := askAllocate_eq id ttl

theorem askAllocate_size (id : Id) (hid : id.length = 32) (ttl : Nat) :
    (askAllocate id ttl).length = MESSAGE_HEADER_SIZE := askAllocate_length id hid ttl

/-- … it decodes back to (id, ttl mod 2^16, 0) -/
theorem askAllocate_decode (id : Id) (hid : id.length = 32) (ttl : Nat) :
    decodeHdr? (askAllocate id ttl) = some ⟨id, ttl % 2 ^ 16, 0⟩ := by
  rw [decodeHdr?_of_le (by rw [askAllocate_length id hid]; exact Nat.le_refl _), askAllocate_eq]
  have hl : (natToLe 2 (ttl % 2 ^ 16)).length = 2 := natToLe_length _ _
  have e1 : (id ++ natToLe 2 (ttl % 2 ^ 16) ++ [0, 0]).take 32 = id := by
    rw [List.append_assoc, List.take_append_of_le_length (by omega), List.take_of_length_le (by omega)]
  have e2 : (id ++ natToLe 2 (ttl % 2 ^ 16) ++ [0, 0]).drop 32 = natToLe 2 (ttl % 2 ^ 16) ++ [0, 0] := by
    rw [List.append_assoc, List.drop_append_of_le_length (by omega), List.drop_of_length_le (by omega)]; rfl
  have e3 : (id ++ natToLe 2 (ttl % 2 ^ 16) ++ [0, 0]).drop 34 = [0, 0] := by
    rw [show 34 = 32 + 2 from rfl, ← List.drop_drop, e2, List.drop_append_of_le_length (by omega),
      List.drop_of_length_le (by omega)]; rfl
  rw [e1, e2, e3, List.take_append_of_le_length (by omega), List.take_of_length_le (by omega),
    leToNat_natToLe2 _ (Nat.mod_lt _ (by decide))]
  rfl

example : decodeHdr? (askAllocate idA 70000) = some ⟨idA, 4464, 0⟩ := by decide

/-- … and the relay treats it as an ASK (`Inner::recv`), never as a publication -/
theorem askAllocate_is_ask (s : Relay.State) (c : Nat) (id : Id) (hid : id.length = 32) (ttl now : Nat) :
    Relay.startSend s c (askAllocate id ttl) now =
      ((Relay.recv s c id (ttl % 2 ^ 16) now).1, (Relay.recv s c id (ttl % 2 ^ 16) now).2, .ok) := by
  unfold Relay.startSend
  rw [askAllocate_decode id hid, askAllocate_size id hid]
  simp

example : (Relay.startSend {} 4 (askAllocate idA 3) 10).1.msgs = [(idA, .waiters 13 [4])] := by decide

/-- `Relay::ask(id, ttl)` is the feed of `AskMsg::allocate(id, ttl)` — on a plain connection and through both
    wrappers; a skipped feed resolves `Ok(())` and changes nothing -/
theorem ask_is_send (n : Net) (ys : StatsSys) (ye : EvilSys) (c : Nat) (id : Id) (ttl : Nat) :
    rawStep n (.ask c id ttl) = rawStep n (.send c (askAllocate id ttl)) ∧
    statsStep ys (.ask c id ttl) = statsStep ys (.send c (askAllocate id ttl)) ∧
    evilStep ye (.ask c id ttl) = evilStep ye (.send c (askAllocate id ttl)) := ⟨rfl, rfl, rfl⟩

theorem skip_is_noop (n : Net) (ys : StatsSys) (ye : EvilSys) (c : Nat) :
    rawStep n (.skip c) = (n, .sent .ok) ∧ statsStep ys (.skip c) = (ys, .sent .ok) ∧
    evilStep ye (.skip c) = (ye, .sent .ok) := ⟨rfl, rfl, rfl⟩

example : (runWith rawStep (Net.new 2) [.ask 0 idA 3, .skip 1, .send 1 pubA, .poll 0]).2 =
    [.sent .ok, .sent .ok, .sent .ok, .polled (.ready pubA)] := by decide

/-! ### `RelayStats`: transparency and counters -/

/-- one poll through the wrapper returns exactly what the inner relay returns and consumes exactly what it consumes -/
theorem stats_poll_transparent (st : Stats) (inner : List Ev) : (st.pollNext inner).2 = pollInner inner :=
  stats_pollNext_snd st inner

/-- the item reaches the inner sink unaltered -/
theorem stats_send_unaltered (st : Stats) (item : Bytes) : (st.startSend item).2 = item := rfl

example : (({} : Stats).pollNext [.msg short, .pending]).2 = ([.pending], .ready short) := by decide

/-- **transparency**: for every script of every number of parties, wrapping every connection in `RelayStats` changes
    neither an output (frames delivered in order, `Pending`, results of sends) nor the relay and the connections -/
theorem stats_run_transparent (y : StatsSys) (ops : List Op) :
    (runWith statsStep y ops).2 = (runWith rawStep y.net ops).2 ∧
    (runWith statsStep y ops).1.net = (runWith rawStep y.net ops).1 := by
  induction ops generalizing y with
  | nil => exact ⟨rfl, rfl⟩
  | cons op ops ih =>
      rw [runWith_cons, runWith_cons]
      obtain ⟨h1, h2⟩ := statsStep_raw y op
      obtain ⟨i1, i2⟩ := ih (statsStep y op).1
      rw [h1] at i1 i2
      exact ⟨by simp only [i1, h2], i2⟩

example : (runWith statsStep (StatsSys.new 2) [.ask 0 idA 3, .send 1 pubA, .send 1 short, .poll 0, .poll 0]).2 =
    [.sent .ok, .sent .ok, .sent .sendError, .polled (.ready pubA), .polled .pending] := by decide

/-- **counters**: after any script, for every wrapped connection `c`:
    `send_count` grew by the number of frames `c` sent and `send_size` by the sum of their lengths (refused frames
    included: the wrapper counts before the inner sink judges), `recv_count` / `recv_size` likewise for the frames its
    polls returned, and `wait_times` lists the ids of exactly the received frames that have a header, in order -/
theorem stats_counts (y : StatsSys) (ops : List Op) (c : Nat) (hc : c < y.stats.length) :
    let r := runWith statsStep y ops
    (r.1.statsOf c).sendCount = (y.statsOf c).sendCount + (sentBy c ops).length ∧
    (r.1.statsOf c).sendSize = (y.statsOf c).sendSize + sumLen (sentBy c ops) ∧
    (r.1.statsOf c).recvCount = (y.statsOf c).recvCount + (recvBy c ops r.2).length ∧
    (r.1.statsOf c).recvSize = (y.statsOf c).recvSize + sumLen (recvBy c ops r.2) ∧
    (r.1.statsOf c).waitIds = (y.statsOf c).waitIds ++ (recvBy c ops r.2).filterMap hdrId? := by
  induction ops generalizing y with
  | nil => simp [runWith, sentBy, recvBy, sumLen]
  | cons op ops ih =>
      intro r
      have hlen : c < (statsStep y op).1.stats.length := by rw [statsStep_length]; exact hc
      have ih' := ih (statsStep y op).1 hlen
      have hst := statsStep_statsOf y op c hc
      simp only [] at ih'
      have hr : r = ((runWith statsStep (statsStep y op).1 ops).1,
          (statsStep y op).2 :: (runWith statsStep (statsStep y op).1 ops).2) := runWith_cons ..
      rw [hr]
      simp only []
      rw [hst] at ih'
      obtain ⟨a1, a2, a3, a4, a5⟩ := ih'
      rw [a1, a2, a3, a4, a5]
      generalize (runWith statsStep (statsStep y op).1 ops).2 = outs
      generalize (statsStep y op).2 = o
      generalize y.statsOf c = st
      cases op with
      | send c' f =>
          by_cases h : c' = c
          · simp [statsEffect, h, sentBy, recvBy, Stats.startSend, sumLen]; omega
          · simp [statsEffect, h, sentBy, recvBy]
      | ask c' id ttl =>
          by_cases h : c' = c
          · simp [statsEffect, h, sentBy, recvBy, Stats.startSend, sumLen]; omega
          · simp [statsEffect, h, sentBy, recvBy]
      | skip c' => cases o <;> simp [statsEffect, sentBy, recvBy]
      | tick k => cases o <;> simp [statsEffect, sentBy, recvBy]
      | poll c' =>
          cases o with
          | sent r => simp [statsEffect, sentBy, recvBy]
          | ticked => simp [statsEffect, sentBy, recvBy]
          | polled p =>
              cases p with
              | closed => simp [statsEffect, sentBy, recvBy]
              | pending => simp [statsEffect, sentBy, recvBy]
              | ready b =>
                  by_cases h : c' = c
                  · subst h
                    refine ⟨?_, ?_, ?_, ?_, ?_⟩ <;> simp [statsEffect, sentBy, recvBy, Stats.onRecv, sumLen] <;>
                      (try omega) <;> (cases hb : hdrId? b <;> simp [hb])
                  · simp [statsEffect, h, sentBy, recvBy]

/-- from a fresh system the counters ARE those numbers -/
theorem stats_counts_fresh (n : Nat) (ops : List Op) (c : Nat) (hc : c < n) :
    let r := runWith statsStep (StatsSys.new n) ops
    (r.1.statsOf c).sendCount = (sentBy c ops).length ∧
    (r.1.statsOf c).sendSize = sumLen (sentBy c ops) ∧
    (r.1.statsOf c).recvCount = (recvBy c ops r.2).length ∧
    (r.1.statsOf c).recvSize = sumLen (recvBy c ops r.2) ∧
    (r.1.statsOf c).waitIds = (recvBy c ops r.2).filterMap hdrId? := by
  have h := stats_counts (StatsSys.new n) ops c (by simp [StatsSys.new]; exact hc)
  have h0 : (StatsSys.new n).statsOf c = {} := by
    simp [StatsSys.new, StatsSys.statsOf, List.getD_eq_getElem?_getD, hc]
  simp only [h0] at h
  simpa using h

example : ((runWith statsStep (StatsSys.new 2) [.ask 0 idA 3, .send 1 pubA, .send 1 short, .poll 0, .poll 0]).1.stats) =
    [{ sendCount := 1, sendSize := 36, recvCount := 1, recvSize := 37, waitIds := [idA] },
     { sendCount := 2, sendSize := 40 }] := by decide

/-- `RelayStats` over ANY inner relay (a script of `poll_next` results with `Pending` points and end of stream, a sink
    with any verdict function): outputs, remaining script and the frames that reach the sink are those of the inner
    relay alone -/
theorem mock_run_transparent (accept : Bytes → SendResult) (y : MockSys) (ops : List MockOp) :
    (mockRun accept y ops).2 = (bareRun accept y.script ops).2 ∧
    (mockRun accept y ops).1.script = (bareRun accept y.script ops).1 ∧
    (mockRun accept y ops).1.sunk = y.sunk ++ mockSent ops := by
  induction ops generalizing y with
  | nil => simp [mockRun, bareRun, mockSent]
  | cons op ops ih =>
      rw [mockRun_cons]
      cases op with
      | poll =>
          obtain ⟨i1, i2, i3⟩ := ih (mockStep accept y .poll).1
          have h2 := stats_pollNext_snd y.stats y.script
          have e1 : (mockStep accept y .poll).1.script = (pollInner y.script).1 := by
            show (y.stats.pollNext y.script).2.1 = _; rw [h2]
          have e2 : (mockStep accept y .poll).2 = .polled (pollInner y.script).2 := by
            show Out.polled (y.stats.pollNext y.script).2.2 = _; rw [h2]
          have e3 : (mockStep accept y .poll).1.sunk = y.sunk := rfl
          rw [e1] at i1 i2
          rw [e3] at i3
          refine ⟨?_, ?_, ?_⟩
          · simp only [i1, e2, bareRun]
          · simp only [i2, bareRun]
          · simp only [i3, mockSent]
      | send f =>
          obtain ⟨i1, i2, i3⟩ := ih (mockStep accept y (.send f)).1
          have e1 : (mockStep accept y (.send f)).1.script = y.script := rfl
          have e2 : (mockStep accept y (.send f)).2 = .sent (accept f) := rfl
          have e3 : (mockStep accept y (.send f)).1.sunk = y.sunk ++ [f] := rfl
          rw [e1] at i1 i2
          rw [e3] at i3
          refine ⟨?_, ?_, ?_⟩
          · simp only [i1, e2, bareRun]
          · simp only [i2, bareRun]
          · simp only [i3, mockSent, List.append_assoc, List.singleton_append]

/-- … and the counters count exactly the frames sent and the frames the polls returned -/
theorem mock_counts (accept : Bytes → SendResult) (y : MockSys) (ops : List MockOp) :
    let r := mockRun accept y ops
    r.1.stats.sendCount = y.stats.sendCount + (mockSent ops).length ∧
    r.1.stats.sendSize = y.stats.sendSize + sumLen (mockSent ops) ∧
    r.1.stats.recvCount = y.stats.recvCount + (mockRecv r.2).length ∧
    r.1.stats.recvSize = y.stats.recvSize + sumLen (mockRecv r.2) ∧
    r.1.stats.waitIds = y.stats.waitIds ++ (mockRecv r.2).filterMap hdrId? := by
  induction ops generalizing y with
  | nil => simp [mockRun, mockSent, mockRecv, sumLen]
  | cons op ops ih =>
      intro r
      have hr : r = ((mockRun accept (mockStep accept y op).1 ops).1,
          (mockStep accept y op).2 :: (mockRun accept (mockStep accept y op).1 ops).2) := mockRun_cons ..
      rw [hr]
      have ih' := ih (mockStep accept y op).1
      simp only [] at ih' ⊢
      obtain ⟨a1, a2, a3, a4, a5⟩ := ih'
      rw [a1, a2, a3, a4, a5]
      generalize (mockRun accept (mockStep accept y op).1 ops).2 = outs
      cases op with
      | send f =>
          refine ⟨?_, ?_, ?_, ?_, ?_⟩ <;> simp [mockStep, Stats.startSend, mockSent, mockRecv, sumLen] <;> omega
      | poll =>
          have h1 := stats_pollNext_fst y.stats y.script
          have h2 := stats_pollNext_snd y.stats y.script
          have e1 : (mockStep accept y .poll).1.stats = (y.stats.pollNext y.script).1 := rfl
          have e2 : (mockStep accept y .poll).2 = .polled (pollInner y.script).2 := by
            show Out.polled (y.stats.pollNext y.script).2.2 = _; rw [h2]
          rw [e1, e2, h1]
          cases (pollInner y.script).2 with
          | closed => simp [mockSent, mockRecv]
          | pending => simp [mockSent, mockRecv]
          | ready b =>
              refine ⟨?_, ?_, ?_, ?_, ?_⟩ <;> simp [Stats.onRecv, mockSent, mockRecv, sumLen] <;>
                (try omega) <;> (cases hb : hdrId? b <;> simp [hb])

example : let r := mockRun (fun _ => .ok) { script := [.msg short, .pending, .msg pubA, .closed] } [.poll, .poll, .send short, .poll, .poll]
    r.2 = [.polled (.ready short), .polled .pending, .sent .ok, .polled (.ready pubA), .polled .closed] ∧
    r.1.stats = { sendCount := 1, sendSize := 3, recvCount := 2, recvSize := 40, waitIds := [idA] } := by decide

/-! ### `EvilPlay` / `EvilMessageRelay`: one call -/

/-- fixtures: drop `idA` for party 1 only and `idB` for everybody; two injections -/
def playX : EvilPlay :=
  { drops := [(idA, some 1), (idB, none)]
    injects := [⟨[0xEE, 0], (Cond.seen idA).eval⟩, ⟨[0xEE, 1], (Cond.party 1).eval⟩] }

/-- **drop rule**: a received frame is dropped iff it has a header whose id matches a rule made for every party
    (`None`) or for this party -/
theorem dropsFrame_iff (p : EvilPlay) (party : Nat) (msg : Bytes) :
    p.dropsFrame party msg = true ↔
      ∃ h, decodeHdr? msg = some h ∧ ∃ r ∈ p.drops, r.1 = h.id ∧ (r.2 = none ∨ r.2 = some party) :=
  dropsFrame_iff' p party msg

/-- a frame shorter than a header is never dropped -/
theorem dropsFrame_short (p : EvilPlay) (party : Nat) (msg : Bytes) (h : msg.length < 36) :
    p.dropsFrame party msg = false := by
  unfold EvilPlay.dropsFrame; rw [hdrId?_of_lt h]

example : playX.dropsFrame 1 pubA = true ∧ playX.dropsFrame 0 pubA = false ∧ playX.dropsFrame 0 pubB = true ∧
    ({ drops := [(List.replicate 32 1, none)] } : EvilPlay).dropsFrame 0 (List.replicate 35 1) = false := by decide

/-- **receive loop**: one poll skips exactly the leading inner frames that match a drop rule for this party and then
    returns whatever the inner relay returns next (a frame, `Pending`, end of stream) -/
theorem recvLoop_eq (p : EvilPlay) (party : Nat) (inner : List Ev) :
    p.recvLoop party inner = pollInner (inner.dropWhile (skipped p party)) :=
  recvLoop_eq_dropWhile p party inner

/-- … so a frame is returned iff it is the first inner frame that matches no rule, everything before it having
    been dropped -/
theorem recvLoop_ready_iff (p : EvilPlay) (party : Nat) (inner rest : List Ev) (m : Bytes) :
    p.recvLoop party inner = (rest, .ready m) ↔
      ∃ ds : List Bytes, inner = ds.map Ev.msg ++ Ev.msg m :: rest ∧ (∀ d ∈ ds, p.dropsFrame party d = true) ∧
        p.dropsFrame party m = false := by
  constructor
  · intro h
    induction inner with
    | nil => simp [EvilPlay.recvLoop] at h
    | cons e r ih =>
        cases e with
        | pending => simp [EvilPlay.recvLoop] at h
        | closed => simp [EvilPlay.recvLoop] at h
        | msg a =>
            by_cases hd : p.dropsFrame party a = true
            · simp only [EvilPlay.recvLoop, hd, if_true] at h
              obtain ⟨ds, e1, e2, e3⟩ := ih h
              refine ⟨a :: ds, by simp [e1], ?_, e3⟩
              intro d hm
              rcases List.mem_cons.mp hm with rfl | hm
              · exact hd
              · exact e2 d hm
            · simp only [EvilPlay.recvLoop, hd] at h
              simp only [Bool.false_eq_true, if_false, Prod.mk.injEq, Poll.ready.injEq] at h
              obtain ⟨rfl, rfl⟩ := h
              exact ⟨[], by simp, by simp, by simpa using hd⟩
  · rintro ⟨ds, rfl, hds, hm⟩
    induction ds with
    | nil => simp [EvilPlay.recvLoop, hm]
    | cons d ds ih =>
        have hd := hds d (by simp)
        simp only [List.map_cons, List.cons_append, EvilPlay.recvLoop, hd, if_true]
        exact ih (fun x hx => hds x (by simp [hx]))

example : playX.recvLoop 1 [.msg pubA, .msg pubB, .msg short, .msg pubA] = ([.msg pubA], .ready short) := by decide
example : playX.recvLoop 0 [.msg pubB, .pending, .msg pubA] = ([.msg pubA], .pending) := by decide

/-- **injections**: `injection(party)` either finds no condition that holds and changes nothing, or it returns the
    message of the FIRST injection whose condition holds for the current seen set and this party, and removes
    that injection (the remaining ones are the others, reordered by `swap_remove`) -/
theorem injection_spec (p : EvilPlay) (party : Nat) :
    (p.injection party = (p, none) ∧ ∀ inj ∈ p.injects, inj.cond p.seen party = false) ∨
    (∃ i inj p', p.injection party = (p', some inj.msg) ∧ p.injects[i]? = some inj ∧
        inj.cond p.seen party = true ∧
        (∀ j, j < i → ∀ inj', p.injects[j]? = some inj' → inj'.cond p.seen party = false) ∧
        p'.injects.Perm (p.injects.eraseIdx i) ∧ p'.seen = p.seen ∧ p'.drops = p.drops) := by
  rcases injection_cases p party with h | ⟨i, inj, hg, ht, hb, h⟩
  · exact Or.inl h
  · have hi : i < p.injects.length := (List.getElem?_eq_some_iff.mp hg).1
    exact Or.inr ⟨i, inj, _, h, hg, ht, hb, swapRemove_perm p.injects i hi, rfl, rfl⟩

/-- an injection is delivered only if its condition holds at that poll -/
theorem injection_only_if_cond (p p' : EvilPlay) (party : Nat) (msg : Bytes) (h : p.injection party = (p', some msg)) :
    ∃ inj ∈ p.injects, inj.msg = msg ∧ inj.cond p.seen party = true := by
  rcases injection_spec p party with ⟨h0, _⟩ | ⟨i, inj, p'', h1, hg, ht, _⟩
  · rw [h0] at h; simp at h
  · rw [h1] at h
    simp only [Prod.mk.injEq, Option.some.injEq] at h
    exact ⟨inj, List.mem_of_getElem? hg, h.2, ht⟩

/-- … and whenever some condition holds, an injection IS delivered (injections are never postponed) -/
theorem injection_if_cond (p : EvilPlay) (party : Nat) (inj : Inject) (hm : inj ∈ p.injects)
    (hc : inj.cond p.seen party = true) : (p.injection party).2.isSome = true := by
  rcases injection_spec p party with ⟨_, h0⟩ | ⟨i, inj', p', h1, _⟩
  · rw [h0 inj hm] at hc; cases hc
  · rw [h1]; rfl

/-- an injection comes BEFORE any relayed frame of that poll: the inner relay is not even polled -/
theorem pollNext_injection_first (p p' : EvilPlay) (party : Nat) (msg : Bytes) (inner : List Ev)
    (h : p.injection party = (p', some msg)) : p.pollNext party inner = (p', inner, .ready msg) :=
  pollNext_of_injection inner h

/-- without a due injection the poll is the receive loop -/
theorem pollNext_no_injection (p : EvilPlay) (party : Nat) (inner : List Ev)
    (h : ∀ inj ∈ p.injects, inj.cond p.seen party = false) :
    p.pollNext party inner = (p, (p.recvLoop party inner).1, (p.recvLoop party inner).2) :=
  pollNext_of_no_injection inner (injection_of_none (firstTrue_none_of_all_false h))

example : (playX.pollNext 1 [.msg pubB]).2 = ([.msg pubB], .ready [0xEE, 1]) ∧
    (playX.pollNext 0 [.msg pubB, .msg short]).2 = ([], .ready short) ∧
    ((playX.pollNext 1 []).1.pollNext 1 [.msg short]).2 = ([], .ready short) := by decide

/-- **sending**: the frame reaches the inner sink unaltered, the rules and injections are untouched, and the seen
    set gains the id of the frame iff the frame has a header -/
theorem startSend_spec (p : EvilPlay) (msg : Bytes) :
    (p.startSend msg).2 = msg ∧ (p.startSend msg).1.drops = p.drops ∧
    (p.startSend msg).1.injects.length = p.injects.length ∧
    (∀ x, x ∈ (p.startSend msg).1.seen ↔ x ∈ p.seen ∨ hdrId? msg = some x) ∧
    (p.seen.Nodup → (p.startSend msg).1.seen.Nodup) := startSend_fields p msg

/-- a frame shorter than a header is never recorded as seen -/
theorem startSend_short (p : EvilPlay) (msg : Bytes) (h : msg.length < 36) : (p.startSend msg).1 = p := by
  unfold EvilPlay.startSend; rw [hdrId?_of_lt h]

example : (playX.startSend pubA).1.seen = [idA] ∧ (playX.startSend short).1.seen = [] ∧
    ((playX.startSend pubA).1.startSend pubA).1.seen = [idA] := by decide

/-! ### `EvilMessageRelay`: whole scripts -/

/-- **identity**: with no drop rules and no injections the adversarial relay is the plain relay, for every script of
    every number of parties: same outputs, same relay state, same connection queues -/
theorem evil_identity (y : EvilSys) (ops : List Op) (hd : y.play.drops = []) (hi : y.play.injects = []) :
    (runWith evilStep y ops).2 = (runWith rawStep y.net ops).2 ∧
    (runWith evilStep y ops).1.net = (runWith rawStep y.net ops).1 := by
  induction ops generalizing y with
  | nil => exact ⟨rfl, rfl⟩
  | cons op ops ih =>
      rw [runWith_cons, runWith_cons]
      have hstep : (evilStep y op).1.net = (rawStep y.net op).1 ∧ (evilStep y op).2 = (rawStep y.net op).2 ∧
          (evilStep y op).1.play.drops = [] ∧ (evilStep y op).1.play.injects = [] := by
        have hinj : ∀ c, y.play.injection c = (y.play, none) := fun c =>
          injection_of_none (by rw [hi]; rfl)
        cases op with
        | send c f =>
            have := startSend_fields y.play f
            refine ⟨rfl, rfl, by rw [(evilStep_send y c f).2.2, this.2.1, hd], ?_⟩
            rw [(evilStep_send y c f).2.2]
            exact List.eq_nil_of_length_eq_zero (by rw [this.2.2.1, hi]; rfl)
        | ask c id ttl =>
            have := startSend_fields y.play (askAllocate id ttl)
            refine ⟨rfl, rfl, ?_, ?_⟩
            · show (y.play.startSend (askAllocate id ttl)).1.drops = []; rw [this.2.1, hd]
            · show (y.play.startSend (askAllocate id ttl)).1.injects = []
              exact List.eq_nil_of_length_eq_zero (by rw [this.2.2.1, hi]; rfl)
        | skip c => exact ⟨rfl, rfl, hd, hi⟩
        | tick k => exact ⟨rfl, rfl, hd, hi⟩
        | poll c =>
            have hp := pollNext_of_no_injection (y.net.inboxOf c) (hinj c)
            rw [recvLoop_of_no_rules y.play c _ hd] at hp
            obtain ⟨e1, e2, e3⟩ := evilStep_poll y c
            rw [hp] at e1 e2 e3
            exact ⟨e1, e2, by rw [e3]; exact hd, by rw [e3]; exact hi⟩
      obtain ⟨h1, h2, h3, h4⟩ := hstep
      obtain ⟨i1, i2⟩ := ih (evilStep y op).1 h3 h4
      rw [h1] at i1 i2
      exact ⟨by simp only [i1, h2], i2⟩

example : (runWith evilStep (EvilSys.new 2 {}) [.ask 0 idA 3, .send 1 pubA, .poll 0, .poll 1]).2 =
    [.sent .ok, .sent .ok, .polled (.ready pubA), .polled .pending] := by decide

/-- **sending is never blocked or altered**: whatever the screenplay, the relay behind the adversarial wrapper goes
    through exactly the states it goes through without the wrapper, and every send / ask / skipped feed returns
    exactly what it returns without the wrapper (polls move no relay state) -/
theorem evil_sends_transparent (y : EvilSys) (n : Net) (ops : List Op) (h : n.sys = y.net.sys) :
    (runWith evilStep y ops).1.net.sys = (runWith rawStep n ops).1.sys ∧
    nonPollOuts ops (runWith evilStep y ops).2 = nonPollOuts ops (runWith rawStep n ops).2 := by
  induction ops generalizing y n with
  | nil => exact ⟨h.symm, rfl⟩
  | cons op ops ih =>
      rw [runWith_cons, runWith_cons]
      have hstep : (rawStep n op).1.sys = (evilStep y op).1.net.sys ∧
          (isPoll op = false → (evilStep y op).2 = (rawStep n op).2) := by
        cases op with
        | send c f =>
            have e := evilStep_send y c f
            have := startSend_fields y.play f
            refine ⟨?_, fun _ => ?_⟩
            · show (n.send c f).1.sys = _
              rw [e.1, (net_send_sys n c f).1, (net_send_sys y.net c f).1, h]
            · show _ = Out.sent (n.send c f).2
              rw [e.2.1, (net_send_sys n c f).2, (net_send_sys y.net c f).2, h]
        | ask c id ttl =>
            have e := evilStep_send y c (askAllocate id ttl)
            refine ⟨?_, fun _ => ?_⟩
            · show (n.send c (askAllocate id ttl)).1.sys = (evilStep y (.send c (askAllocate id ttl))).1.net.sys
              rw [e.1, (net_send_sys n c _).1, (net_send_sys y.net c _).1, h]
            · show (evilStep y (.send c (askAllocate id ttl))).2 = Out.sent (n.send c (askAllocate id ttl)).2
              rw [e.2.1, (net_send_sys n c _).2, (net_send_sys y.net c _).2, h]
        | skip c => exact ⟨h, fun _ => rfl⟩
        | tick k =>
            refine ⟨?_, fun _ => rfl⟩
            show (Relay.step n.sys (.tick k)).1 = (Relay.step y.net.sys (.tick k)).1
            rw [h]
        | poll c =>
            refine ⟨?_, fun hp => by cases hp⟩
            rw [(evilStep_poll y c).1]; exact h
      obtain ⟨h1, h2⟩ := hstep
      obtain ⟨i1, i2⟩ := ih (evilStep y op).1 (rawStep n op).1 h1
      refine ⟨i1, ?_⟩
      simp only [nonPollOuts]
      cases hp : isPoll op with
      | true => simpa using i2
      | false => simp [h2 hp, i2]

example : nonPollOuts [.send 0 pubA, .poll 1, .send 1 short] [.sent .ok, .polled .pending, .sent .sendError] =
    [.sent .ok, .sent .sendError] := by decide

/-- the drop rules never change during a run -/
theorem evil_drops_fixed (y : EvilSys) (ops : List Op) : (runWith evilStep y ops).1.play.drops = y.play.drops := by
  induction ops generalizing y with
  | nil => rfl
  | cons op ops ih =>
      rw [runWith_cons]; simp only []
      rw [ih, evilStep_play]
      cases op with
      | send c f => exact (startSend_fields y.play f).2.1
      | ask c id ttl => exact (startSend_fields y.play _).2.1
      | skip c => rfl
      | tick k => rfl
      | poll c => exact (injection_fields y.play c).2.1

/-- **seen** = the ids of the sent frames that have a header (added to whatever was seen before), as a set without
    repetitions — frames of every party, refused frames and `Relay::ask` frames included -/
theorem evil_seen (y : EvilSys) (ops : List Op) (x : Id) :
    x ∈ (runWith evilStep y ops).1.play.seen ↔ x ∈ y.play.seen ∨ x ∈ (sentAll ops).filterMap hdrId? := by
  induction ops generalizing y with
  | nil => simp [runWith, sentAll]
  | cons op ops ih =>
      rw [runWith_cons]; simp only []
      rw [ih, evilStep_play]
      cases op with
      | send c f =>
          rw [(startSend_fields y.play f).2.2.2.1 x]
          cases hf : hdrId? f <;> simp [sentAll, hf, or_assoc, eq_comm]
      | ask c id ttl =>
          rw [(startSend_fields y.play _).2.2.2.1 x]
          cases hf : hdrId? (askAllocate id ttl) <;> simp [sentAll, hf, or_assoc, eq_comm]
      | skip c => simp [sentAll]
      | tick k => simp [sentAll]
      | poll c => rw [(injection_fields y.play c).1]; simp [sentAll]

theorem evil_seen_nodup (y : EvilSys) (ops : List Op) (h : y.play.seen.Nodup) :
    (runWith evilStep y ops).1.play.seen.Nodup := by
  induction ops generalizing y with
  | nil => exact h
  | cons op ops ih =>
      rw [runWith_cons]; simp only []
      apply ih
      rw [evilStep_play]
      cases op with
      | send c f => exact (startSend_fields y.play f).2.2.2.2 h
      | ask c id ttl => exact (startSend_fields y.play _).2.2.2.2 h
      | skip c => exact h
      | tick k => exact h
      | poll c => rw [(injection_fields y.play c).1]; exact h

example : (runWith evilStep (EvilSys.new 2 playX) [.send 0 pubA, .send 1 short, .ask 1 idB 1, .send 0 pubA]).1.play.seen =
    [idA, idB] := by decide

/-- **every injection is delivered at most once**: each delivery consumes its injection record — the deliveries
    of a run plus the injections still waiting are the injections of the screenplay -/
theorem evil_injections_conserved (y : EvilSys) (ops : List Op) :
    injectedCount y ops + (runWith evilStep y ops).1.play.injects.length = y.play.injects.length := by
  induction ops generalizing y with
  | nil => simp [injectedCount, runWith]
  | cons op ops ih =>
      rw [runWith_cons]; simp only [injectedCount]
      have := ih (evilStep y op).1
      have hl : (evilStep y op).1.play.injects.length + (if injectedAt y op then 1 else 0) = y.play.injects.length := by
        rw [evilStep_play]
        cases op with
        | send c f => simpa [injectedAt] using (startSend_fields y.play f).2.2.1
        | ask c id ttl => simpa [injectedAt] using (startSend_fields y.play _).2.2.1
        | skip c => simp [injectedAt]
        | tick k => simp [injectedAt]
        | poll c => exact (injection_fields y.play c).2.2
      omega

example : injectedCount (EvilSys.new 2 playX) [.poll 1, .poll 1, .send 0 pubA, .poll 0, .poll 0, .poll 1] = 2 ∧
    (runWith evilStep (EvilSys.new 2 playX) [.poll 1, .poll 1, .send 0 pubA, .poll 0, .poll 0, .poll 1]).2 =
      [.polled (.ready [0xEE, 1]), .polled .pending, .sent .ok, .polled (.ready [0xEE, 0]), .polled .pending,
       .polled .pending] := by decide

end SlVerif.CW
