import SlVerif.Proofs.SoftSpokenRun
/-
  C03 — "After one honest run of the OT-extension protocol, for each extended transfer and each of its message slots
  the receiver's output equals the sender's output for the receiver's choice bit and differs from the sender's output
  for the opposite bit, and the choice bits recorded in the receiver's output are the ones it asked for.  This holds
  for every choice vector (including all-zero and all-one), every session id and every all-but-one seed set."

  Model: SlVerif/Model/SoftSpoken.lean (`receiverProcess`, `senderProcess` = SoftSpokenOTReceiver::process,
  SoftSpokenOTSender::process of crates/sl-oblivious/src/soft_spoken/soft_spoken_ot.rs), taken at `m := Id` with an
  ARBITRARY pure oracle `h` for merlin: the theorems hold for every behaviour of the transcript hash.  All sizes are the
  constants regenerated from params.rs (SlVerif/Generated/Params.lean).

  Dictionary: `extractBit choices j` is `choices.extract_bit(j)` of the Rust (byte j/8, bit j%8);
  `keyAt keys i j` is `keys[i][j]`; `rc` are the sender's punctured indices `random_choices`; `xs.getD j []` is `xs[j]`.
-/
namespace SlVerif.C03
open SlVerif SlVerif.SoftSpoken SlVerif.Generated

/-- `choices.extract_bit(j)` -/
def extractBit (bs : Bytes) (j : ℕ) : Bool := (bs.getD (j / 8) 0).testBit (j % 8)

/-- **C03, equality part and recorded choices.**  For every oracle, session id, choice vector (any 64 bytes), rng tape
    and every pair of seed sets in the all-but-one relation (`decKeys[i][j] = encKeys[i][j]` for `j ≠ δ_i`; the punctured
    key itself and the range of `δ_i` are irrelevant — in particular every `δ_i < 16`):
    the sender accepts, and for every extended transfer `j < L` and slot `k < OT_WIDTH` the receiver's string is the
    sender's string for the receiver's choice bit; the recorded choices are the requested ones. -/
theorem main (h : Query → Id Bytes) (sid : Bytes) (encKeys decKeys : List (List Bytes)) (rc : List ℕ)
    (choices : Bytes) (tape : Tape)
    (hlen : choices.length = L_BYTES) (hbytes : ∀ x ∈ choices, x < 256)
    (hseeds : ∀ i < LAMBDA_C_DIV_SOFT_SPOKEN_K, ∀ j < SOFT_SPOKEN_Q, j ≠ rc.getD i 0 →
      keyAt decKeys i j = keyAt encKeys i j) :
    ∃ so, senderProcess (m := Id) h sid rc decKeys (receiverProcess (m := Id) h sid encKeys choices tape).1 = .ok so ∧
      (∀ j < L, ∀ k < OT_WIDTH,
        ((receiverProcess (m := Id) h sid encKeys choices tape).2.1.v_x.getD j []).getD k []
          = if extractBit choices j then (so.v_1.getD j []).getD k [] else (so.v_0.getD j []).getD k []) ∧
      (receiverProcess (m := Id) h sid encKeys choices tape).2.1.choices = choices := by
  rw [receiverProcess_id]
  simp only []
  set c := (extChoices choices tape).1 with hc
  set rsR := expR h sid encKeys with hrsR
  set u := (List.range LAMBDA_C_DIV_SOFT_SPOKEN_K).map fun i => recvU (at2 rsR i) c with hu
  set V := recvVRows rsR with hV
  set chi := chiP h sid u with hchi
  have hchiok : ChiOk chi := chiP_ok h sid u
  set W := sendWRows (expS h sid rc decKeys) rc u with hW
  have hrows : ∀ k < LAMBDA_C, W.getD k 0 = V.getD k 0 ^^^ mask ((packedNabla rc).testBit k) c := by
    intro k hk
    exact sendWRows_getD h sid rc encKeys decKeys hseeds u (fun _ => c)
      (fun i hi => by rw [hu, getD_map_range, if_pos hi]) k hk
  have hcheck : checkAll chi W (packedNabla rc) { u := u, x := checkRow chi c, t := V.map (checkRow chi) } = true := by
    rw [checkAll_iff]
    intro i hi
    have ht : (V.map (checkRow chi)).getD i 0 = checkRow chi (V.getD i 0) := by
      have := List.getD_map V 0 (n := i) (checkRow chi)
      rwa [checkRow_zero chi hchiok] at this
    show checkRow chi (W.getD i 0) = (V.map (checkRow chi)).getD i 0 ^^^ _
    rw [ht, hrows i hi, checkRow_W chi hchiok]
  refine ⟨senderOut h sid rc W, ?_, ?_, by first | rfl | trivial⟩
  · rw [senderProcess_id]
    show (if checkAll chi W (packedNabla rc) _ = true then _ else _) = _
    rw [if_pos hcheck]
  · intro j hj k _
    have hz := zeta_eq V W c (packedNabla rc) (length_recvVRows _) (length_sendWRows _ _ _)
      (packedNabla_lt rc) hrows j hj
    have hbit : c.testBit j = extractBit choices j := extChoices_testBit choices tape hlen hbytes j hj
    show ((randP h sid ((transpose V).take L)).getD j []).getD k [] = _
    rw [randP_getD h sid _ j (by rw [length_take_transpose]; exact hj)]
    cases hb : extractBit choices j
    · rw [if_neg (by simp), senderOut_v0 h sid rc W j hj, hz, hbit, hb, mask_false, Nat.xor_zero]
    · rw [if_pos rfl, senderOut_v1 h sid rc W j hj, hz, hbit, hb, mask_true, Nat.xor_assoc, Nat.xor_self,
        Nat.xor_zero]

/-
  Full statement of the inequality part: "… and differs from the sender's output for the opposite bit", for every
  oracle.  It is FALSE for some oracles and seed sets, so only a conditional form can be proved:
    * if all punctured indices are 0 then `packed_nabla = 0` and `v_0 = v_1` in any implementation of the protocol
      (the excluded point; probability 2^-256 over the seed OT) — hypothesis `packedNabla rc ≠ 0`;
    * the two strings are the oracle's answers to two DIFFERENT queries (the randomisation transcripts over ψ_j and
      ψ_j ⊕ nabla); that they differ is a random-oracle fact about merlin/STROBE-128 (collision probability 2^-256 per
      string), not a fact about this code — hypothesis `hinj`: the oracle does not collide on the k-th challenges of
      the randomisation transcripts of transfer j.
  GAP (named): collision-freeness of the transcript hash on the randomisation queries; and `nabla ≠ 0`.
-/

/-- **C03, inequality part (partial: under `nabla ≠ 0` and collision-freeness of the oracle on the randomisation
    queries).** -/
theorem other_differs_partial (h : Query → Id Bytes) (sid : Bytes) (encKeys decKeys : List (List Bytes))
    (rc : List ℕ) (choices : Bytes) (tape : Tape)
    (hlen : choices.length = L_BYTES) (hbytes : ∀ x ∈ choices, x < 256)
    (hseeds : ∀ i < LAMBDA_C_DIV_SOFT_SPOKEN_K, ∀ j < SOFT_SPOKEN_Q, j ≠ rc.getD i 0 →
      keyAt decKeys i j = keyAt encKeys i j)
    (hnabla : packedNabla rc ≠ 0)
    (hinj : ∀ j < L, ∀ k < OT_WIDTH, ∀ r r', h (randQ sid j r k) = h (randQ sid j r' k) →
      randQ sid j r k = randQ sid j r' k) :
    ∃ so, senderProcess (m := Id) h sid rc decKeys (receiverProcess (m := Id) h sid encKeys choices tape).1 = .ok so ∧
      ∀ j < L, ∀ k < OT_WIDTH,
        ((receiverProcess (m := Id) h sid encKeys choices tape).2.1.v_x.getD j []).getD k []
          ≠ if extractBit choices j then (so.v_0.getD j []).getD k [] else (so.v_1.getD j []).getD k [] := by
  obtain ⟨so, hso, _, _⟩ := main h sid encKeys decKeys rc choices tape hlen hbytes hseeds
  refine ⟨so, hso, ?_⟩
  rw [receiverProcess_id] at hso ⊢
  simp only [] at hso ⊢
  set c := (extChoices choices tape).1 with hc
  set rsR := expR h sid encKeys with hrsR
  set u := (List.range LAMBDA_C_DIV_SOFT_SPOKEN_K).map fun i => recvU (at2 rsR i) c with hu
  set V := recvVRows rsR with hV
  set W := sendWRows (expS h sid rc decKeys) rc u with hW
  have hrows : ∀ k < LAMBDA_C, W.getD k 0 = V.getD k 0 ^^^ mask ((packedNabla rc).testBit k) c := by
    intro k hk
    exact sendWRows_getD h sid rc encKeys decKeys hseeds u (fun _ => c)
      (fun i hi => by rw [hu, getD_map_range, if_pos hi]) k hk
  have hso' : so = senderOut h sid rc W := by
    rw [senderProcess_id] at hso
    split at hso
    · exact (Except.ok.inj hso).symm
    · cases hso
  subst hso'
  intro j hj k hk
  have hz := zeta_eq V W c (packedNabla rc) (length_recvVRows _) (length_sendWRows _ _ _)
    (packedNabla_lt rc) hrows j hj
  have hbit : c.testBit j = extractBit choices j := extChoices_testBit choices tape hlen hbytes j hj
  set ψ := ((transpose V).take L).getD j 0 with hψ
  have hψlt : ψ < 2 ^ LAMBDA_C := by
    rw [hψ, getD_take_transpose _ _ hj]
    have := transposeRow_lt V j
    rwa [length_recvVRows] at this
  have hother : (if extractBit choices j then ((senderOut h sid rc W).v_0.getD j []).getD k []
      else ((senderOut h sid rc W).v_1.getD j []).getD k []) = h (randQ sid j (ψ ^^^ packedNabla rc) k) := by
    cases hb : extractBit choices j
    · rw [if_neg (by simp), senderOut_v1 h sid rc W j hj, hz, hbit, hb, mask_false, Nat.xor_zero,
        challenges_id_getD h _ _ _ _ k hk]
      rfl
    · rw [if_pos rfl, senderOut_v0 h sid rc W j hj, hz, hbit, hb, mask_true, challenges_id_getD h _ _ _ _ k hk]
      rfl
  rw [hother]
  show ((randP h sid ((transpose V).take L)).getD j []).getD k [] ≠ _
  rw [randP_getD h sid _ j (by rw [length_take_transpose]; exact hj), challenges_id_getD h _ _ _ _ k hk]
  intro heq
  have hq := hinj j hj k hk ψ (ψ ^^^ packedNabla rc) heq
  have := randQ_inj sid j k ψ (ψ ^^^ packedNabla rc) hψlt
    (Nat.xor_lt_two_pow hψlt (packedNabla_lt rc)) hq
  have h0 : ψ ^^^ 0 = ψ ^^^ packedNabla rc := by rw [Nat.xor_zero]; exact this
  exact hnabla (xor_right_inj'.mp h0).symm

/-! ### non-vacuity -/

/-- the hypotheses of `main` are satisfiable (the seed sets of `generate_all_but_one_seed_ot`: equal keys except the
    zeroed punctured one) and the conclusion is not trivially true: acceptance is a real condition — there are messages
    the model's sender bans (here: honest check values against a `t` row that is off by one). -/
example : (∀ i < LAMBDA_C_DIV_SOFT_SPOKEN_K, ∀ j < SOFT_SPOKEN_Q, j ≠ ([] : List ℕ).getD i 0 →
      keyAt [[[0]]] i j = keyAt [[[1]]] i j)
    ∧ checkAll [] [] 0 { u := [], x := 0, t := [1] } = false := by
  refine ⟨?_, by decide⟩
  intro i _ j _ hj
  have hj0 : j ≠ 0 := by simpa using hj
  obtain ⟨j', rfl⟩ := Nat.exists_eq_succ_of_ne_zero hj0
  cases i <;> simp [keyAt]

/-- the pure cores compute what the Rust computes on a small instance: one block, the sender's row equals the
    receiver's row xor (bit of δ)·c — evaluated, with δ = 5, bit 0 and bit 1 -/
example : sendW (fun j => if j = 5 then 0 else j * 7 + 1) 5 (recvU (fun j => j * 7 + 1) 0xabc) 0
      = recvV (fun j => j * 7 + 1) 0 ^^^ 0xabc
    ∧ sendW (fun j => if j = 5 then 0 else j * 7 + 1) 5 (recvU (fun j => j * 7 + 1) 0xabc) 1
      = recvV (fun j => j * 7 + 1) 1 := by decide

/-- the collision-freeness hypothesis `hinj` of `other_differs_partial` is satisfiable: an oracle that answers a
    transcript with the concatenation of its message payloads does not collide on the randomisation queries
    (and `packedNabla rc ≠ 0` holds e.g. for `rc = [1]`, see C04) -/
example : ∃ h : Query → Id Bytes, ∀ (sid : Bytes) (j k r r' : ℕ),
    h (randQ sid j r k) = h (randQ sid j r' k) → randQ sid j r k = randQ sid j r' k := by
  refine ⟨fun q => match q with
    | .merlin t => t.ops.flatMap fun op => match op with
        | .msg _ d => d
        | _ => []
    | _ => [], ?_⟩
  intro sid j k r r' heq
  have hpay : ∀ x : ℕ, (List.replicate x (TOp.chal [] KAPPA_BYTES)).flatMap (fun op => match op with
      | .msg _ d => d
      | _ => []) = [] := by
    intro x; induction x with
    | zero => rfl
    | succ x ih => rw [List.replicate_succ, List.flatMap_cons, ih]; rfl
  simp only [randQ, randT, Transcript.appendMessage, Transcript.appendU64, Transcript.new, List.nil_append,
    List.flatMap_cons, List.append_nil, hpay, List.cons_append] at heq
  have hrow : natToLe LAMBDA_C_BYTES r = natToLe LAMBDA_C_BYTES r' := List.append_cancel_left heq
  simp only [randQ, randT, Transcript.appendMessage, hrow]

end SlVerif.C03
