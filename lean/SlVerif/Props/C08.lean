import SlVerif.Proofs.PaillierModel
/-
  C08 — Paillier homomorphic operations (`add`, `mul`, `mul_vartime`) on the executable model `SlVerif.Paillier`,
  for every width `P` and every key in `ValidKey P p q`.  Right-hand sides are plain `Nat` arithmetic.
-/
namespace SlVerif.C08
open SlVerif SlVerif.Paillier

/-- `add(c1, c2) = c1 c2 mod N²` (any `c1`, `c2`, any `p`, `q`) -/
theorem add_spec (P p q c1 c2 : Nat) : add (fromPQ P p q) c1 c2 = c1 * c2 % (p * q) ^ 2 := by
  rw [pow_two]; exact add_eq c1 c2

/-- `mul(c, k) = c^k mod N²` for every scalar that fits `Uint<M>` -/
theorem mul_spec_width (P p q c : Nat) {k : Nat} (hk : k < 2 ^ (2 * P)) :
    mul P (fromPQ P p q) c k = c ^ k % (p * q) ^ 2 := by
  rw [pow_two]; exact mul_eq c hk

/-- `mul(c, k) = c^k mod N²` for every plaintext scalar `k < N` -/
theorem mul_spec {P p q : Nat} (hv : ValidKey P p q) (c : Nat) {k : Nat} (hk : k < p * q) :
    mul P (fromPQ P p q) c k = c ^ k % (p * q) ^ 2 :=
  mul_spec_width P p q c (lt_trans hk hv.n_lt)

/-- the variable-time and the constant-time scalar multiplications return the same ciphertext -/
theorem mul_vartime_eq (P p q c : Nat) {k : Nat} (hk : k < 2 ^ (2 * P)) :
    mulVartime P (fromPQ P p q) c k = mul P (fromPQ P p q) c k := by
  rw [mulVartime_eq c hk, mul_eq c hk]

/-- `decrypt(add(Enc(m1), Enc(m2))) = (m1 + m2) mod N`, wrap-around included -/
theorem add_decrypt {P p q : Nat} (hk : ValidKey P p q) {m1 m2 r1 r2 : Nat} (h1 : m1 < p * q) (h2 : m2 < p * q)
    (hr1 : Nat.Coprime r1 (p * q)) (hr2 : Nat.Coprime r2 (p * q)) :
    decrypt P (fromPQ P p q)
      (add (fromPQ P p q) (encryptWithR P (fromPQ P p q) m1 r1) (encryptWithR P (fromPQ P p q) m2 r2))
      = (m1 + m2) % (p * q) :=
  decrypt_of_modEq hk (Nat.Coprime.mul_left hr1 hr2) (add_enc_modEq hk h1 h2 r1 r2)

/-- the same through the CRT path -/
theorem add_decrypt_fast {P p q : Nat} (hk : ValidKey P p q) {m1 m2 r1 r2 : Nat} (h1 : m1 < p * q)
    (h2 : m2 < p * q) (hr1 : Nat.Coprime r1 (p * q)) (hr2 : Nat.Coprime r2 (p * q)) :
    decryptFast P (fromPQ P p q)
      (add (fromPQ P p q) (encryptWithR P (fromPQ P p q) m1 r1) (encryptWithR P (fromPQ P p q) m2 r2))
      = (m1 + m2) % (p * q) :=
  decryptFast_of_modEq hk (Nat.Coprime.mul_left hr1 hr2) (add_enc_modEq hk h1 h2 r1 r2)

/-- `decrypt(mul(Enc(m1), k)) = (k m1) mod N`, wrap-around included -/
theorem mul_decrypt {P p q : Nat} (hk : ValidKey P p q) {m1 k r1 : Nat} (h1 : m1 < p * q) (hkk : k < p * q)
    (hr1 : Nat.Coprime r1 (p * q)) :
    decrypt P (fromPQ P p q) (mul P (fromPQ P p q) (encryptWithR P (fromPQ P p q) m1 r1) k)
      = (k * m1) % (p * q) :=
  decrypt_of_modEq hk (Nat.Coprime.pow_left k hr1) (mul_enc_modEq hk h1 (lt_trans hkk hk.n_lt) r1)

/-- the same through the CRT path -/
theorem mul_decrypt_fast {P p q : Nat} (hk : ValidKey P p q) {m1 k r1 : Nat} (h1 : m1 < p * q)
    (hkk : k < p * q) (hr1 : Nat.Coprime r1 (p * q)) :
    decryptFast P (fromPQ P p q) (mul P (fromPQ P p q) (encryptWithR P (fromPQ P p q) m1 r1) k)
      = (k * m1) % (p * q) :=
  decryptFast_of_modEq hk (Nat.Coprime.pow_left k hr1) (mul_enc_modEq hk h1 (lt_trans hkk hk.n_lt) r1)

/-- the harness-side conclusion predicates are the same formulas -/
theorem spec_add_eq (N c1 c2 : Nat) : specAdd N c1 c2 = c1 * c2 % N ^ 2 := specAdd_eq N c1 c2
theorem spec_mul_eq (N c k : Nat) : specMul N c k = c ^ k % N ^ 2 := specMul_eq N c k

/-! non-vacuity: a wrapping sum and a wrapping product under the key (11, 13), N = 143 -/

example : decrypt 8 (fromPQ 8 11 13)
      (add (fromPQ 8 11 13) (encryptWithR 8 (fromPQ 8 11 13) 100 2) (encryptWithR 8 (fromPQ 8 11 13) 90 3)) = 47
    ∧ decrypt 8 (fromPQ 8 11 13) (mul 8 (fromPQ 8 11 13) (encryptWithR 8 (fromPQ 8 11 13) 100 2) 5) = 71
    ∧ mulVartime 8 (fromPQ 8 11 13) 19021 5 = mul 8 (fromPQ 8 11 13) 19021 5 := by decide

end SlVerif.C08
