import SlVerif.Drv.Gf128
import SlVerif.Drv.Matrix
import SlVerif.Drv.Math
import SlVerif.Drv.Paillier
import SlVerif.Drv.Relay
import SlVerif.Drv.Buffered
import SlVerif.Drv.OracleIO
import SlVerif.Drv.Dlog
import SlVerif.Drv.VerEnc
import SlVerif.Drv.Endemic
import SlVerif.Drv.Pprf
import SlVerif.Drv.Bip32
import SlVerif.Drv.SoftSpoken
import SlVerif.Drv.Rvole
import SlVerif.Drv.C11
import SlVerif.Drv.Wrappers
/-
  sldriver: line-protocol server around the executable models.
  request:  `<ns> <op> <args…>`           (one line)
  reply:    zero or more `?<query>` lines (oracle questions, answered by the harness with one line each)
            then exactly one `=<result>` line; `=!bad-op` when the request is not understood.
-/
open SlVerif

def dispatch (O : Query → IO Bytes) (toks : List String) : IO String := do
  match toks with
  | "gf" :: rest => pure ((Drv.Gf.handle rest).getD "!bad-op")
  | "mat" :: rest => pure ((Drv.Matrix.handle rest).getD "!bad-op")
  | "math" :: rest => pure ((Drv.Math.handle rest).getD "!bad-op")
  | "pai" :: rest => pure ((Drv.Paillier.handle rest).getD "!bad-op")
  | "relay" :: rest => pure ((Drv.Relay.handle rest).getD "!bad-op")
  | "buf" :: rest => pure ((Drv.Buffered.handle rest).getD "!bad-op")
  | "dlog" :: rest => do pure ((← Drv.Dlog.handle O rest).getD "!bad-op")
  | "eot" :: rest => do pure ((← Drv.Endemic.handle O rest).getD "!bad-op")
  | "pprf" :: rest => do pure ((← Drv.Pprf.handle O rest).getD "!bad-op")
  | "ss" :: rest => do pure ((← Drv.SoftSpoken.handle O rest).getD "!bad-op")
  | "bip32" :: rest => do pure ((← Drv.Bip32.handle O rest).getD "!bad-op")
  | "venc" :: rest => do pure ((← Drv.VerEnc.handle O rest).getD "!bad-op")
  | "rvole" :: rest => do pure ((← Drv.Rvole.handle O rest).getD "!bad-op")
  | "c11" :: rest => pure ((Drv.C11.handle rest).getD "!bad-op")
  | "wrap" :: rest => do pure ((← Drv.Wrappers.handle O rest).getD "!bad-op")
  | ["ping"] => pure "pong"
  | _ => pure "!bad-op"

partial def loop (hin hout : IO.FS.Stream) : IO Unit := do
  let line ← hin.getLine
  if line.isEmpty then return ()
  let toks := (line.trimAscii.toString.splitOn " ").filter (· ≠ "")
  let r ← dispatch (Drv.ioOracle hin hout) toks
  hout.putStrLn ("=" ++ r)
  hout.flush
  loop hin hout

def main : IO Unit := do
  loop (← IO.getStdin) (← IO.getStdout)
