//! `slnative`: reads lines `<a hex> <b hex>` (16 bytes each) and prints the GF(2^128) product computed by sl-oblivious built with
//! `-C target-cpu=native`; the C19 stream compares it with the product of the default build.
use sl_oblivious::soft_spoken::verif_binary_field_multiply_gf_2_128 as gfmul;
use std::io::{BufRead, Write};
fn main() {
    let stdin = std::io::stdin();
    let out = std::io::stdout();
    let mut out = out.lock();
    for line in stdin.lock().lines() {
        let Ok(line) = line else { break };
        let mut it = line.split_whitespace();
        let (Some(a), Some(b)) = (it.next(), it.next()) else { let _ = writeln!(out, "bad"); continue };
        let (Ok(a), Ok(b)) = (hex::decode(a), hex::decode(b)) else { let _ = writeln!(out, "bad"); continue };
        let (Ok(a), Ok(b)): (Result<[u8; 16], _>, Result<[u8; 16], _>) = (a.try_into(), b.try_into()) else { let _ = writeln!(out, "bad"); continue };
        let r = std::panic::catch_unwind(|| gfmul(&a, &b));
        let _ = match r { Ok(p) => writeln!(out, "{}", hex::encode(p)), Err(_) => writeln!(out, "panic") };
    }
}
