#!/bin/sh
# Build the framework from files on disk only (offline). Run once after a fresh restore.
set -e
cd "$(dirname "$0")"
export CARGO_NET_OFFLINE=true
python3 tools/gen_params.py
MODS=$(python3 -c "
import json
r = json.load(open('registry.json'))
print(' '.join(sorted({m for e in r.values() if not e.get('disabled') for m in e['lean_modules']})))")
(cd lean && lake build $MODS sldriver)
(cd harness && cargo build --release --offline)
# C18: skeleton translator (also built on demand by tools/gen_params.py) and the coverage-instrumented harness
(cd tools/ctskel && cargo build --release --offline)
cp -n /repo/Cargo.lock harness-cov/Cargo.lock 2>/dev/null || true
(cd harness-cov && cargo +nightly build --release --offline)
# C19: the same crate under a second build configuration (-C target-cpu=native)
cp -n /repo/Cargo.lock harness-native/Cargo.lock 2>/dev/null || true
(cd harness-native && cargo build --release --offline)
echo "setup done"
