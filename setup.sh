#!/bin/sh
# Build the framework from files on disk only (offline). Run once after a fresh restore.
set -e
cd "$(dirname "$0")"
export CARGO_NET_OFFLINE=true
python3 tools/gen_params.py
MODS=$(python3 -c "
import json
r = json.load(open('registry.json'))
print(' '.join(sorted({m for e in r.values() if not e.get('disabled') for m in e['lean_modules']})))")
(cd lean && lake build $MODS sldriver)
(cd harness && cargo build --release --offline)
echo "setup done"
