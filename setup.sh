#!/bin/sh
# Build the framework from files on disk only (offline). Run once after a fresh restore.
set -e
cd "$(dirname "$0")"
export CARGO_NET_OFFLINE=true
python3 tools/gen_params.py
(cd lean && lake build)
(cd harness && cargo build --release --offline)
echo "setup done"
