namespace Relay
abbrev Id := Nat
abbrev Conn := Nat
inductive Kind | ask | pub deriving DecidableEq, Repr
inductive Entry
  | ready (msg : List UInt8)
  | waiters (exp : Nat) (conns : List Conn)
  deriving Repr

structure State where
  msgs : List (Id × Entry)
  heap : List (Nat × Id × Kind)      -- multiset; order irrelevant (proved)
  deriving Repr

def lookup (m : List (Id × Entry)) (id : Id) : Option Entry := (m.find? (·.1 == id)).map (·.2)
def erase (m : List (Id × Entry)) (id : Id) : List (Id × Entry) := m.filter (·.1 != id)
def insert (m : List (Id × Entry)) (id : Id) (e : Entry) : List (Id × Entry) := (id, e) :: erase m id

/-- should a due heap item (id, kind) remove the entry? -/
def removes (now : Nat) (kind : Kind) : Entry → Bool
  | .ready _ => kind == .pub
  | .waiters exp _ => kind == .ask && exp ≤ now

def cleanupOne (now : Nat) (m : List (Id × Entry)) (h : Nat × Id × Kind) : List (Id × Entry) :=
  match lookup m h.2.1 with
  | some e => if removes now h.2.2 e then erase m h.2.1 else m
  | none => m

def cleanup (now : Nat) (s : State) : State :=
  let due := s.heap.filter (·.1 ≤ now)
  { msgs := due.foldl (cleanupOne now) s.msgs, heap := s.heap.filter (fun h => ¬ h.1 ≤ now) }

def publish (s : State) (id : Id) (ttl : Nat) (msg : List UInt8) (now : Nat) : State × List (Conn × List UInt8) :=
  let s := cleanup now s
  match lookup s.msgs id with
  | some (.waiters _ cs) => ({ msgs := insert s.msgs id (.ready msg), heap := (now+ttl, id, .pub) :: s.heap }, cs.map (·, msg))
  | some (.ready _) => (s, [])
  | none => ({ msgs := insert s.msgs id (.ready msg), heap := (now+ttl, id, .pub) :: s.heap }, [])

def ask (s : State) (c : Conn) (id : Id) (ttl : Nat) (now : Nat) : State × List (Conn × List UInt8) :=
  let s := cleanup now s
  match lookup s.msgs id with
  | some (.ready m) => (s, [(c, m)])
  | some (.waiters prev cs) => ({ msgs := insert s.msgs id (.waiters (max (now+ttl) prev) (cs ++ [c])), heap := (now+ttl, id, .ask) :: s.heap }, [])
  | none => ({ msgs := insert s.msgs id (.waiters (now+ttl) [c]), heap := (now+ttl, id, .ask) :: s.heap }, [])

/-- invariant: every entry has a matching heap item carrying its expiry; keys distinct -/
def Inv (s : State) : Prop :=
  (s.msgs.map (·.1)).Nodup ∧
  ∀ id e, (id, e) ∈ s.msgs →
    match e with
    | .ready _ => ∃ w, (w, id, Kind.pub) ∈ s.heap ∧ ∀ w', (w', id, Kind.pub) ∈ s.heap → w' = w
    | .waiters exp _ => (exp, id, Kind.ask) ∈ s.heap

/-- expiry of an entry as recorded by the heap -/
def live (now : Nat) (s : State) : Prop :=
  ∀ id e, (id, e) ∈ s.msgs →
    match e with
    | .ready _ => ∀ w, (w, id, Kind.pub) ∈ s.heap → now < w
    | .waiters exp _ => now < exp
end Relay
