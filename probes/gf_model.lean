namespace Gf
/-- right-to-left comb, Nat level -/
def clmulComb (a b : Nat) : Nat :=
  (List.range 8).foldl (fun c k =>
    (List.range 16).foldl (fun c j =>
      if a.testBit (8*j+k) then c ^^^ ((b <<< k) <<< (8*j)) else c) c) 0

def foldByte (c : Nat) (i : Nat) : Nat :=
  let byte := (c >>> (8*i)) &&& 0xff
  c ^^^ ((byte ^^^ (byte <<< 1) ^^^ (byte <<< 2) ^^^ (byte <<< 7)) <<< (8*(i-16)))

def reduce (c : Nat) : Nat :=
  ((List.range' 16 16).reverse.foldl foldByte c) % 2^128

def mul (a b : Nat) : Nat := reduce (clmulComb a b)
end Gf
