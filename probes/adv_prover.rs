// Scratch probe (design round): adversarial prover against sl-verifiable-enc.
// mode 0: slot 0's UNopened ciphertext is garbage (challenge ground)  -> verify ok, decrypt = DecError   (D8)
// mode 1: every nonce r has a zero leading byte                        -> verify ok, decrypt = DecError   (D9)
// mode 2: 257 self-consistent slots                                    -> verify panics (index 32 of 32) (D7)
// deps: sl-verifiable-enc (path), k256, rand, rand_chacha, sha2
use k256::{elliptic_curve::{group::GroupEncoding, PrimeField}, ProjectivePoint, Scalar};
use rand::{RngCore, SeedableRng};
use sha2::{Digest, Sha256};
use sl_verifiable_enc::{
    rsa::{traits::PublicKeyParts, BigUint, Pkcs1v15Encrypt, RsaPrivateKey, RsaPublicKey},
    VerifiableRsaEncryption,
};

fn label_int(label: &[u8]) -> BigUint {
    let mut h = Sha256::new();
    h.update(b"SL-label-for-RSA");
    h.update(label);
    BigUint::from_bytes_be(&h.finalize())
}
fn enc(m: &[u8], label: &[u8], pk: &RsaPublicKey, seed: [u8; 32]) -> Vec<u8> {
    let mut rng = rand_chacha::ChaCha20Rng::from_seed(seed);
    let pt = (BigUint::from_bytes_be(m) * label_int(label)) % pk.n();
    pk.encrypt(&mut rng, Pkcs1v15Encrypt, &pt.to_bytes_be()).unwrap()
}
fn prove(x: Scalar, pk: &RsaPublicKey, label: &[u8], rng: &mut impl RngCore, mode: u8) -> Vec<u8> {
    let n = if mode == 2 { 257 } else { 128 };
    let q = ProjectivePoint::GENERATOR * x;
    loop {
        let mut seed = [0u8; 32];
        rng.fill_bytes(&mut seed);
        let mut rs = vec![];
        let mut slots: Vec<(Vec<u8>, Vec<u8>, Vec<u8>)> = vec![];
        let garbage_side = (rng.next_u32() & 1) as u8; // 0 = enc_r, 1 = enc_x_r
        for i in 0..n {
            let r = loop {
                let mut b = [0u8; 32];
                rng.fill_bytes(&mut b);
                if mode == 1 { b[0] = 0; }
                if let Some(s) = Option::<Scalar>::from(Scalar::from_repr(b.into())) { break s; }
            };
            let gr = (ProjectivePoint::GENERATOR * r).to_bytes().to_vec();
            let mut er = enc(&r.to_repr(), label, pk, seed);
            let mut exr = enc(&(x + r).to_repr(), label, pk, seed);
            if mode == 0 && i == 0 {
                let g: Vec<u8> = (0..er.len()).map(|k| if k == 0 { 0 } else { 0x5a }).collect();
                if garbage_side == 0 { er = g } else { exr = g }
            }
            rs.push(r);
            slots.push((gr, exr, er));
        }
        let mut h = Sha256::new();
        h.update(b"Verified-RSA-encryption");
        h.update(q.to_bytes());
        for s in &slots { h.update(&s.0); h.update(&s.1); h.update(&s.2); }
        h.update(label);
        let ch: [u8; 32] = h.finalize().into();
        let bit = |i: usize| if i < 256 { (ch[i >> 3] >> (i & 7)) & 1 } else { 0 };
        if mode == 0 {
            let opened_is_r = bit(0) == 0;
            let garbage_is_r = garbage_side == 0;
            if opened_is_r == garbage_is_r { continue; } // grind until the garbage side stays unopened
        }
        let mut out = seed.to_vec();
        out.extend_from_slice(&(n as u16).to_be_bytes());
        out.extend_from_slice(&33u16.to_be_bytes());
        out.extend_from_slice(&(slots[0].1.len() as u16).to_be_bytes());
        out.extend_from_slice(&32u16.to_be_bytes());
        for s in &slots { out.extend_from_slice(&s.0); out.extend_from_slice(&s.1); out.extend_from_slice(&s.2); }
        for i in 0..n {
            let o = if bit(i) == 0 { rs[i] } else { x + rs[i] };
            out.extend_from_slice(&o.to_repr());
        }
        return out;
    }
}
fn main() {
    std::panic::set_hook(Box::new(|_| {}));
    let mut rng = rand_chacha::ChaCha20Rng::seed_from_u64(7);
    let sk = RsaPrivateKey::new(&mut rng, 1024).unwrap();
    let pk = sk.to_public_key();
    let x = Scalar::from(123456789u64);
    let q = ProjectivePoint::GENERATOR * x;
    let label = b"lbl";
    for mode in 0..3u8 {
        let bytes = prove(x, &pk, label, &mut rng, mode);
        let r = std::panic::catch_unwind(|| {
            let p = VerifiableRsaEncryption::<ProjectivePoint>::from_bytes(&bytes).map_err(|e| format!("{e:?}"))?;
            let v = p.verify(&q, &pk, label).is_ok();
            let d = p.decrypt(&q, &sk, label).map(|v| v == x).map_err(|e| format!("{e:?}"));
            Ok::<_, String>((v, d))
        });
        // observed on the pinned tree:
        // mode 0: Ok(Ok((true, Err("DecError"))))   mode 1: Ok(Ok((true, Err("DecError"))))   mode 2: Err("PANIC")
        println!("mode {mode}: {:?}", r.map_err(|_| "PANIC"));
    }
}
