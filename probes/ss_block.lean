/-! probe: monad-polymorphic oracle model + Id-proof; SoftSpoken per-block identity -/
namespace Probe

abbrev Row (n : Nat) := BitVec n

def xorAll {n : Nat} (l : List (Row n)) : Row n := l.foldl (· ^^^ ·) 0

def mask {n : Nat} (b : Bool) (r : Row n) : Row n := if b then r else 0

/-- oracle-batched query helper -/
def askAll {m : Type → Type} [Monad m] {Q A : Type} (H : Q → m A) (qs : List Q) : m (List A) := qs.mapM H

theorem askAll_id {Q A : Type} (h : Q → A) (qs : List Q) :
    askAll (m := Id) (fun q => pure (h q)) qs = pure (qs.map h) := by
  unfold askAll
  induction qs with
  | nil => rfl
  | cons q qs ih => simp [List.mapM_cons, ih]

variable {n : Nat}

/-- receiver side for one block: r : Fin 16 → Row, choice c -/
def recvU (r : Nat → Row n) (c : Row n) : Row n := xorAll ((List.range 16).map r) ^^^ c
def recvV (r : Nat → Row n) (b : Nat) : Row n := xorAll ((List.range 16).map fun x => mask (x.testBit b) (r x))
/-- sender: knows r x for x ≠ δ (zero at δ) -/
def sendW (r : Nat → Row n) (δ : Nat) (u : Row n) (b : Nat) : Row n :=
  xorAll ((List.range 16).map fun x => mask ((δ ^^^ x).testBit b) (if x = δ then 0 else r x)) ^^^ mask (δ.testBit b) u

theorem xorAll_map_xor (l : List Nat) (f g : Nat → Row n) :
    xorAll (l.map fun x => f x ^^^ g x) = xorAll (l.map f) ^^^ xorAll (l.map g) := by
  unfold xorAll
  suffices ∀ a b : Row n, (l.map fun x => f x ^^^ g x).foldl (· ^^^ ·) (a ^^^ b) =
      (l.map f).foldl (· ^^^ ·) a ^^^ (l.map g).foldl (· ^^^ ·) b by simpa using this 0 0
  induction l with
  | nil => intro a b; rfl
  | cons x xs ih =>
    intro a b
    simp only [List.map_cons, List.foldl_cons]
    rw [← ih]; congr 1
    ext i; simp [Bool.xor_assoc, Bool.xor_left_comm]

theorem block_identity (r : Nat → Row n) (c : Row n) (δ b : Nat) (hδ : δ < 16) :
    sendW r δ (recvU r c) b = recvV r b ^^^ mask (δ.testBit b) c := by
  have hterm : ∀ x, mask ((δ ^^^ x).testBit b) (if x = δ then 0 else r x)
      = mask (δ.testBit b) (r x) ^^^ mask (x.testBit b) (r x) := by
    intro x
    by_cases hx : x = δ
    · subst hx; simp [mask]
    · simp only [hx, if_false, Nat.testBit_xor, mask]
      cases δ.testBit b <;> cases x.testBit b <;> simp
  have hmask_xorAll : ∀ (t : Bool) (l : List Nat), xorAll (l.map fun x => mask t (r x)) = mask t (xorAll (l.map r)) := by
    intro t l; cases t <;> simp [mask, xorAll]
    induction l with
    | nil => rfl
    | cons x xs ih => simpa using ih
  unfold sendW recvU recvV
  simp only [hterm, xorAll_map_xor, hmask_xorAll]
  cases δ.testBit b <;> simp [mask]
  ext i; simp [Bool.xor_assoc, Bool.xor_comm, Bool.xor_left_comm]
end Probe
