fn main() {
    let sk = sl_paillier::SK2048::from_pq(&11u8.into(), &17u8.into());
    let a: Vec<String> = std::env::args().collect();
    let m: u8 = a[1].parse().unwrap(); let r: u8 = a[2].parse().unwrap(); let vt = a[3] == "vt";
    let pm = sk.message(&[m]).unwrap();
    let c = sk.encrypt_with_r(&pm, &r.into());
    let d = sk.decrypt_fast(&c); let d2 = sk.decrypt(&c);
    let c2 = if vt { sk.mul_vartime(&c, &pm) } else { sk.mul(&c, &pm) };
    let ip = sk.extract_n_root_init_params();
    let root = sk.extract_n_root(&sk.encrypt_with_r(&sk.message(&[0]).unwrap(), &r.into()).to_uint().resize(), &ip);
    println!("{:?} {:?} {} {}", d == pm, d2 == pm, c2.to_uint().bits_vartime(), root.bits_vartime());
}
