import Mathlib.Algebra.Polynomial.Basic
import Mathlib.Algebra.Polynomial.Coeff
import Mathlib.Data.ZMod.Basic
import Mathlib.Algebra.CharP.Two
import Mathlib.Data.Nat.Bitwise
import Mathlib.Data.Nat.Size
open Polynomial

/-- GF(2)[x] polynomial of a natural number's bits -/
noncomputable def toPoly (n : ℕ) : (ZMod 2)[X] :=
  ∑ i ∈ Finset.range (n.size), if n.testBit i then X ^ i else 0

theorem coeff_toPoly (n i : ℕ) : (toPoly n).coeff i = if n.testBit i then 1 else 0 := by
  unfold toPoly
  rw [finsetSum_coeff]
  simp only [apply_ite (fun p : (ZMod 2)[X] => p.coeff i), coeff_X_pow, coeff_zero]
  by_cases h : i < n.size
  · rw [Finset.sum_eq_single i]
    · simp
    · intro b _ hb; simp [Ne.symm hb]
    · intro hi; exact absurd (Finset.mem_range.mpr h) hi
  · have : n.testBit i = false := Nat.testBit_eq_false_of_lt (lt_of_lt_of_le (Nat.lt_size_self n) (Nat.pow_le_pow_right (by norm_num) (not_lt.mp h)))
    rw [this]
    simp only [Bool.false_eq_true, if_false]
    apply Finset.sum_eq_zero
    intro b hb
    have : i ≠ b := by have := Finset.mem_range.mp hb; omega
    simp [this]

theorem toPoly_xor (a b : ℕ) : toPoly (a ^^^ b) = toPoly a + toPoly b := by
  ext i
  simp only [coeff_toPoly, coeff_add, Nat.testBit_xor]
  cases a.testBit i <;> cases b.testBit i <;> simp <;> decide

theorem toPoly_shiftLeft (a k : ℕ) : toPoly (a <<< k) = X ^ k * toPoly a := by
  ext i
  simp only [coeff_toPoly, coeff_X_pow_mul', Nat.testBit_shiftLeft]
  by_cases h : k ≤ i <;> simp [h]
