/-! probe: counting semantics + static count with soundness (C18) -/
namespace Ct
abbrev Site := Nat
abbrev Counts := Site → Nat
def Counts.zero : Counts := fun _ => 0
def Counts.add (a b : Counts) : Counts := fun s => a s + b s
def Counts.smul (n : Nat) (a : Counts) : Counts := fun s => n * a s
def Counts.one (s : Site) : Counts := fun t => if t = s then 1 else 0

/-- secrets are an arbitrary function from names to values -/
abbrev Sec := Nat → Nat

inductive Stmt
  | site (s : Site)
  | seq (a b : Stmt)
  | rep (n : Nat) (body : Stmt)                    -- loop with public trip count
  | oneHot (n : Nat) (secret : Nat) (t e : Stmt)   -- for j in 0..n { if j == sec[secret] {t} else {e} }
  | ifSec (secret : Nat) (t e : Stmt)              -- genuine secret branch (never count-constant in general)

/-- concrete counting semantics under a secret assignment -/
def exec (σ : Sec) : Stmt → Counts
  | .site s => Counts.one s
  | .seq a b => (exec σ a).add (exec σ b)
  | .rep n b => Counts.smul n (exec σ b)
  | .oneHot n k t e =>
      (List.range n).foldl (fun c j => c.add (if j = σ k then exec σ t else exec σ e)) Counts.zero
  | .ifSec k t e => if σ k ≠ 0 then exec σ t else exec σ e

/-- static count; refuses on secret branches -/
def staticCount : Stmt → Option Counts
  | .site s => some (Counts.one s)
  | .seq a b => match staticCount a, staticCount b with
      | some x, some y => some (x.add y)
      | _, _ => none
  | .rep n b => match staticCount b with
      | some x => some (Counts.smul n x)
      | none => none
  | .oneHot n _ t e => match staticCount t, staticCount e with
      | some x, some y => if n = 0 then none else some (x.add (Counts.smul (n-1) y))
      | _, _ => none
  | .ifSec _ _ _ => none

/-- range assumption collected from the program -/
def InRange (σ : Sec) : Stmt → Prop
  | .site _ => True
  | .seq a b => InRange σ a ∧ InRange σ b
  | .rep _ b => InRange σ b
  | .oneHot n k t e => σ k < n ∧ InRange σ t ∧ InRange σ e
  | .ifSec _ t e => InRange σ t ∧ InRange σ e

theorem onehot_fold (n v : Nat) (x y : Counts) (hv : v < n) :
    (List.range n).foldl (fun c j => c.add (if j = v then x else y)) Counts.zero
      = x.add (Counts.smul (n-1) y) := by
  funext s
  have key : ∀ m, ((List.range m).foldl (fun c j => c.add (if j = v then x else y)) Counts.zero) s
      = (if v < m then x s + (m-1) * y s else m * y s) := by
    intro m
    induction m with
    | zero => simp [Counts.zero]
    | succ m ih =>
      rw [List.range_succ, List.foldl_append]
      simp only [List.foldl_cons, List.foldl_nil, Counts.add, ih]
      by_cases h1 : v < m
      · have : m ≠ v := by omega
        have h2 : v < m + 1 := by omega
        simp only [h1, h2, this, if_true, if_false]
        cases m with
        | zero => omega
        | succ k => simp [Nat.add_mul]; omega
      · by_cases h3 : m = v
        · subst h3; simp [Nat.mul_comm]; omega
        · have h2 : ¬ v < m + 1 := by omega
          simp only [h1, h2, h3, if_false]; simp [Nat.add_mul]
  rw [key n]; simp [hv, Counts.add, Counts.smul]

theorem sound (σ : Sec) : ∀ (p : Stmt) (c : Counts), staticCount p = some c → InRange σ p → exec σ p = c
  | .site s, c, h, _ => by simpa [staticCount, exec] using h
  | .seq a b, c, h, hr => by
      unfold staticCount at h
      split at h
      · rename_i x y hx hy
        simp only [Option.some.injEq] at h
        simp [exec, sound σ a x hx hr.1, sound σ b y hy hr.2, h]
      · contradiction
  | .rep n b, c, h, hr => by
      unfold staticCount at h
      split at h
      · rename_i x hx
        simp only [Option.some.injEq] at h
        simp [exec, sound σ b x hx hr, h]
      · contradiction
  | .oneHot n k t e, c, h, hr => by
      unfold staticCount at h
      split at h
      · rename_i x y hx hy
        split at h
        · contradiction
        · simp only [Option.some.injEq] at h
          simp only [exec, sound σ t x hx hr.2.1, sound σ e y hy hr.2.2]
          rw [onehot_fold n (σ k) x y hr.1, h]
      · contradiction
  | .ifSec _ _ _, c, h, _ => by simp [staticCount] at h

/-- the property: two secret assignments give equal counts -/
theorem count_const (p : Stmt) (c : Counts) (h : staticCount p = some c) (σ₁ σ₂ : Sec)
    (h₁ : InRange σ₁ p) (h₂ : InRange σ₂ p) : exec σ₁ p = exec σ₂ p := by
  rw [sound σ₁ p c h h₁, sound σ₂ p c h h₂]
end Ct
