import Mathlib.LinearAlgebra.Matrix.Determinant.Basic
import Mathlib.Tactic.FieldSimp
import Mathlib.Tactic.Ring
open Matrix

variable {F : Type} [Field F]

/-- one Bareiss step on an (n+2)x(n+2) matrix with non-zero pivot A 0 0 -/
def bStep {n : ℕ} (A : Matrix (Fin (n+2)) (Fin (n+2)) F) (prev : F) : Matrix (Fin (n+1)) (Fin (n+1)) F :=
  fun j k => (A j.succ k.succ * A 0 0 - A j.succ 0 * A 0 k.succ) / prev

/-- det A = p * det (Schur complement) -/
theorem det_schur {n : ℕ} (A : Matrix (Fin (n+2)) (Fin (n+2)) F) (hp : A 0 0 ≠ 0) :
    A.det = A 0 0 * (Matrix.of fun (j k : Fin (n+1)) => A j.succ k.succ - A j.succ 0 / A 0 0 * A 0 k.succ).det := by
  -- eliminate column 0 below the pivot
  let c : Fin (n+2) → F := fun i => Fin.cases 0 (fun j => - (A j.succ 0 / A 0 0)) i
  let B : Matrix (Fin (n+2)) (Fin (n+2)) F := fun i j => A i j + c i * A 0 j
  have hB : B.det = A.det :=
    det_eq_of_forall_row_eq_smul_add_const c 0 (by simp [c]) (fun i j => rfl)
  rw [← hB, det_succ_column_zero, Fin.sum_univ_succ]
  have hcol : ∀ i : Fin (n+1), B i.succ 0 = 0 := by
    intro i; simp only [B, c, Fin.cases_succ]; field_simp; ring
  simp only [hcol, mul_zero, zero_mul, Finset.sum_const_zero, add_zero, Fin.val_zero, pow_zero, one_mul]
  have h00 : B 0 0 = A 0 0 := by simp [B, c]
  rw [h00]; congr 1
  congr 1; ext j k
  show A j.succ k.succ + (Fin.cases 0 (fun j => - (A j.succ 0 / A 0 0)) j.succ : F) * A 0 k.succ = _
  simp only [Fin.cases_succ, of_apply]
  ring

theorem det_bStep {n : ℕ} (A : Matrix (Fin (n+2)) (Fin (n+2)) F) (prev : F) (hp : A 0 0 ≠ 0) (hprev : prev ≠ 0) :
    (bStep A prev).det = (A 0 0 / prev) ^ (n+1) * (A.det / A 0 0) := by
  have : bStep A prev = (A 0 0 / prev) • (Matrix.of fun (j k : Fin (n+1)) => A j.succ k.succ - A j.succ 0 / A 0 0 * A 0 k.succ) := by
    ext j k; simp only [bStep, Matrix.smul_apply, of_apply, smul_eq_mul]; field_simp
  rw [this, det_smul, det_schur A hp, Fintype.card_fin]; field_simp
