import Lp
def hexDigit (c : Char) : Nat :=
  if c.isDigit then c.toNat - '0'.toNat else if 'a' ≤ c ∧ c ≤ 'f' then c.toNat - 'a'.toNat + 10 else 0
def parseHex (s : String) : Nat := s.foldl (fun n c => n*16 + hexDigit c) 0

partial def loop (h : IO.FS.Stream) (child : IO.Process.Child ⟨.piped, .piped, .inherit⟩) : IO Unit := do
  let line ← h.getLine
  if line.isEmpty then return ()
  match line.trimAscii.toString.splitOn " " with
  | ["mul", a, b] =>
      IO.println (Nat.toDigits 16 (Gf.mul (parseHex a) (parseHex b)) |> String.ofList)
  | ["ask", q] =>
      child.stdin.putStrLn q
      child.stdin.flush
      let ans ← child.stdout.getLine
      IO.println s!"oracle:{ans.trimAscii}"
  | _ => IO.println "bad-op"
  loop h child

def main : IO Unit := do
  let child ← IO.Process.spawn { cmd := "cat", stdin := .piped, stdout := .piped, stderr := .inherit }
  loop (← IO.getStdin) child
