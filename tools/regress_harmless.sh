#!/bin/bash
# re-run every HARMLESS seeded rewrite (rounds h, i) against its property's quick check (+ C18 where it touches a listed
# constant-time operation): every line must say quiet.  Never run while another check is running (patches /repo).
cd /verif
for d in seeded/*-h seeded/*-i; do
  id=$(basename $d); p=${id%%-*}
  props="$p"
  case "$id" in C03-h|C19-h|C07-h|C01-i|C02-i|C04-i|C06-i|C08-i) props="$p C18";; C15-h|C16-i) props="$p C16 C15";; C20-h|C13-h) props="C20 C13";; esac
  for q in $(echo $props | tr ' ' '\n' | sort -u); do
    out=$(tools/try_seed.sh /verif/$d $q 2>&1 | grep -E "^check|VIOLATION" | tr '\n' ' ')
    case "$out" in *VIOLATION*|"") echo "ALARM $id $q: $out";; *) echo "quiet $id $q";; esac
  done
done
