#!/usr/bin/env python3
"""
tools/seed_round.py <round-letter> [ids…]   — process one round of seeded changes produced in scratch worktrees
/tmp/seed<round>-<ID> (each with out/patch.diff, out/meta.json, demo/):
  1. copy out/ to /verif/seeded/<ID>-<round>/
  2. confirm in the worktree: crate tests pass with the change; demo fails with it and passes without it
  3. apply the patch to /repo, run the property's quick check, revert (tools/try_seed.sh)
  4. write /verif/seeded/<ID>-<round>/lead.json and print one summary line per seed
Never run while a thorough run is in progress (step 3 patches /repo).
"""
import json, os, re, shutil, subprocess, sys

R = sys.argv[1]
IDS = sys.argv[2:] or [f"C{i:02d}" for i in range(1, 21)]
CRATE = {**{f"C{i:02d}": "sl-oblivious" for i in (1, 2, 3, 4, 5, 6, 14, 19)}, "C07": "sl-paillier", "C08": "sl-paillier",
         "C09": "sl-verifiable-enc", "C10": "sl-verifiable-enc", **{f"C{i}": "sl-mpc-mate" for i in (12, 13, 15, 16, 17, 20)}}
EXTRA = {"sl-verifiable-enc": ["--lib"], "sl-mpc-mate": ["--features", "simple-relay"]}
ALSO = {"C01": ["C06"], "C20": ["C13"], "C15": ["C16"], "C16": ["C15"], "C03": ["C04"]}
# round "h" = HARMLESS rewrites (the property still holds): the demo passes with and without the change and every check must stay quiet
HARMLESS = R in ("h", "i")
if HARMLESS:
    ALSO = {"C15": ["C16", "C11"], "C20": ["C13"], "C19": ["C04"], "C07": ["C08", "C18"], "C03": ["C04", "C01"], "C05": ["C06", "C01"], "C18": ["C07", "C08"],
            "C09": ["C10", "C11"], "C12": ["C11"], "C13": ["C20"], "C14": ["C05"], "C17": ["C11"],
            "C16": ["C15", "C11"], "C11": ["C09", "C10"], "C06": ["C01", "C18"], "C01": ["C02", "C18"], "C02": ["C01"], "C04": ["C03", "C18"], "C08": ["C07", "C18"], "C10": ["C09", "C11"]}


def sh(cmd, cwd=None, env=None, timeout=3600):
    e = dict(os.environ, CARGO_NET_OFFLINE="true"); e.update(env or {})
    p = subprocess.run(cmd, cwd=cwd, env=e, shell=isinstance(cmd, str), stdout=subprocess.PIPE, stderr=subprocess.STDOUT, text=True, timeout=timeout)
    return p.returncode, p.stdout


def demo(wt, flags):
    env = {"CARGO_TARGET_DIR": f"{wt}/target"}
    if flags is not None: env["RUSTFLAGS"] = flags
    d = f"{wt}/demo"
    if os.path.exists(f"{d}/src/main.rs") and not os.path.isdir(f"{d}/tests"):
        rc, out = sh(["cargo", "run", "--offline", "--release"], cwd=d, env=env)
    else:
        rc, out = sh(["cargo", "test", "--offline", "--release"], cwd=d, env=env)
    return rc, out


def changed_crate(wt):
    rc, out = sh("git diff --stat -- crates | head -3", cwd=wt)
    m = re.search(r"crates/([a-z\-]+)/", out)
    return m.group(1) if m else None


for pid in IDS:
    wt = f"/tmp/seed{R}-{pid}"
    dst = f"/verif/seeded/{pid}-{R}"
    res = {"seed": f"{pid}-{R}"}
    if not os.path.exists(f"{wt}/out/patch.diff"):
        print(f"{pid}-{R}: no patch"); continue
    shutil.rmtree(dst, ignore_errors=True); shutil.copytree(f"{wt}/out", dst)
    crate = CRATE.get(pid) or changed_crate(wt) or "sl-oblivious"
    # --- confirm
    rc, out = sh(["cargo", "test", "--offline", "--release", "-p", crate] + EXTRA.get(crate, []), cwd=wt, env={"CARGO_TARGET_DIR": f"{wt}/target"})
    res["crate_tests_with_change"] = "pass" if rc == 0 else "FAIL: " + out[-300:]
    flags = None
    meta = open(f"{dst}/meta.json").read()
    if "instrument-coverage" in meta: flags = "-C instrument-coverage"
    elif "sl_crypto_verif" in meta and "RUSTFLAGS" in meta: flags = "--cfg sl_crypto_verif"
    rc1, o1 = demo(wt, flags)
    if rc1 != 0 and ("unresolved" in o1 or "cannot find" in o1 or "no function or associated item" in o1) and flags is None:
        flags = "--cfg sl_crypto_verif"; rc1, o1 = demo(wt, flags)
    sh("git diff -- crates > .seed.patch && git apply -R .seed.patch", cwd=wt)
    rc2, o2 = demo(wt, flags)
    sh("git apply .seed.patch", cwd=wt)
    res["demo_with_change"] = ("fails" if rc1 != 0 else "PASSES(!)") if not HARMLESS else ("passes" if rc1 == 0 else "FAILS(!): " + o1[-300:])
    res["demo_without_change"] = "passes" if rc2 == 0 else "FAILS(!): " + o2[-300:]
    res["demo_rustflags"] = flags
    # --- try against the checks
    res["checks"] = {}
    for prop in [pid] + ALSO.get(pid, []):
        rc, out = sh(["/verif/tools/try_seed.sh", dst, prop], cwd="/verif")
        line = next((l for l in out.splitlines() if l.startswith("check ")), out[-200:])
        viol = [l for l in out.splitlines() if l.startswith("VIOLATION")]
        m = re.search(r"(\d+) divergences, (\d+) predicate failures", line)
        res["checks"][prop] = {"violations": len(viol), "no_failing_input": any("no-failing-input-found" in v for v in viol),
                               "divergences": int(m.group(1)) if m else None, "pred_failures": int(m.group(2)) if m else None, "line": line[:200]}
    json.dump(res, open(f"{dst}/lead.json", "w"), indent=1)
    own = res["checks"][pid]
    verdict = "CAUGHT" if own["violations"] and not own["no_failing_input"] else ("NO-INPUT" if own["violations"] else "MISSED")
    if HARMLESS:
        alarms = [k for k, v in res["checks"].items() if v["violations"] or v["divergences"] is None]
        verdict = "QUIET" if not alarms else "ALARM(" + ",".join(alarms) + ")"
    print(f"{pid}-{R}: confirm[{res['crate_tests_with_change'][:4]},{res['demo_with_change']},{res['demo_without_change'][:6]}] {verdict} " +
          " ".join(f"{k}:{v['divergences']}d/{v['pred_failures']}p" for k, v in res["checks"].items()), flush=True)
