#!/bin/bash
# re-run a SAMPLE (every Nth, default 7) of the breaking seeds against their property's quick check: every line must say caught.
# Never run while another check is running (patches /repo).
cd /verif
N=${1:-7}; OFF=${2:-0}; i=0
for d in seeded/C??-[a-gjk]; do
  i=$((i+1)); [ $(( (i + OFF) % N )) -eq 0 ] || continue
  id=$(basename $d); p=${id%%-*}
  [ "$id" = "C05-j" ] && { echo "skip   $id (documented as not caught)"; continue; }
  out=$(tools/try_seed.sh /verif/$d $p 2>&1 | grep -E "^check|VIOLATION" | tr '\n' ' ')
  case "$out" in *no-failing-input-found*) echo "NOINPUT $id: $out";; *VIOLATION*) echo "caught $id";; *) echo "MISSED $id: $out";; esac
done
