#!/bin/sh
# tools/run_all.sh [quick|thorough] [ids…] — run every registered check on the current tree, 3 at a time; summary at the end
cd /verif
TIER="${1:-quick}"; [ $# -gt 0 ] && shift
IDS="$*"; [ -z "$IDS" ] && IDS=$(python3 -c "import json;print(' '.join(c['property_id'] for c in json.load(open('MANIFEST.json'))['checks']))")
mkdir -p .build/runall
echo $IDS | tr ' ' '\n' | xargs -P 3 -I{} sh -c "./check {} --tier $TIER > .build/runall/{}.log 2>&1; echo \"{} rc=\$? \$(tail -1 .build/runall/{}.log)\""
