#!/bin/sh
# tools/try_seed.sh <seed-dir> <property> [<property>...]
# Applies <seed-dir>/patch.diff to /repo, runs the quick check of each property, records the outcome in
# <seed-dir>/result-<property>.txt, and ALWAYS reverts /repo afterwards.
set -u
SEED="$1"; shift
cd /verif
if [ -n "$(git -C /repo status --porcelain --untracked-files=no)" ]; then echo "/repo has uncommitted changes; refusing"; exit 2; fi
git -C /repo apply "$SEED/patch.diff" || { echo "patch does not apply"; exit 2; }
# evidence files are rewritten by every run: keep the ones from the unchanged tree
BK=/verif/.build/evidence-backup.$$; mkdir -p /verif/.build; rm -rf "$BK"; cp -r /verif/evidence "$BK"
trap 'git -C /repo checkout -- . ; rm -rf /verif/evidence; mv "$BK" /verif/evidence; echo "[/repo and evidence restored]"' EXIT INT TERM
for P in "$@"; do
  echo "=== $P with $(basename $SEED)"
  ./check "$P" --tier quick > "$SEED/result-$P.txt" 2>&1
  echo "rc=$?" >> "$SEED/result-$P.txt"
  tail -4 "$SEED/result-$P.txt"
done
