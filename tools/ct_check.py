#!/usr/bin/env python3
"""
C18 runner (registry.json: "runner": "tools/ct_check.py"), invoked by ./check as
    tools/ct_check.py --tier T --seed S --out report.json [--scale K] [--replay FILE]
and writing the same report JSON shape as the harness binary `slh` (harness/src/report.rs::to_json).

Steps (every run, against the CURRENT working tree of $VERIF_REPO, default /repo):
  1. build + run the syn translator tools/ctskel  -> lean/SlVerif/Generated/CtSkel.lean, .build/ctskel.json
  2. build the coverage harness harness-cov (cargo +nightly, -C instrument-coverage --cfg sl_crypto_verif)
  3. for each of the 9 listed operations: run `slcov <op> <i> <tier>` for the secret indices, compare per-line counts
     across secrets, and compare the skeleton's predicted site counts with the measured ones   (tools/ct_measure.py)
  4. negative control: mul_vartime must be rejected by the translator AND its crypto-bigint counts must differ between
     k = 1 and k = N-1.
Report: divergence   = translator broken / skeleton contains rejected (secret-dependent) nodes / skeleton's predicted
                       counts differ from the measured ones / a skeleton site is unknown to the coverage data /
                       the negative control is no longer detected;
        pred_failure = two secret indices of one operation with different counts on a repo line or a crypto-bigint / subtle
                       line; `request` = the two slcov command lines (a concrete replay: the pair of inputs).
"""
import json, os, shutil, subprocess, sys, time

ROOT = os.path.dirname(os.path.dirname(os.path.abspath(__file__)))
sys.path.insert(0, os.path.join(ROOT, "tools"))
import ct_measure as cm

BUILD = os.path.join(ROOT, ".build")
REPO = os.environ.get("VERIF_REPO", "/repo")
SCRATCH = os.path.realpath(REPO) != "/repo"
CTSKEL_DIR = os.path.join(ROOT, "tools", "ctskel")
CTSKEL_BIN = os.path.join(BUILD, "cargo-ctskel", "release", "ctskel")
COV_DIR = os.path.join(ROOT, "harness-cov")
ENV = dict(os.environ, CARGO_NET_OFFLINE="true")
RULE = ("one case = one execution of one listed operation under coverage instrumentation on inputs whose public part is fixed per operation and "
        "whose secret part is selected by the secret index; non-trivial = distinct (operation, secret input description)")


def sh(cmd, cwd, env=ENV, timeout=3600):
    p = subprocess.run(cmd, cwd=cwd, env=env, stdout=subprocess.PIPE, stderr=subprocess.STDOUT, text=True, timeout=timeout)
    out = "\n".join(l for l in p.stdout.splitlines() if "conda" not in l.lower() or "warning" not in l.lower())
    return p.returncode, out


def run_translator(lean_out=None, json_out=None):
    """-> (ok, log, json path)"""
    rc, out = sh(["cargo", "build", "--release", "--offline"], CTSKEL_DIR)
    if rc != 0 or not os.path.exists(CTSKEL_BIN):
        return False, "tools/ctskel does not build:\n" + out[-2000:], None
    json_out = json_out or (os.path.join(BUILD, "ctskel-scratch.json") if SCRATCH else os.path.join(BUILD, "ctskel.json"))
    cmd = [CTSKEL_BIN, "--repo", REPO, "--out-json", json_out]
    lean_out = lean_out or os.environ.get("VERIF_CTSKEL_LEAN") or (os.path.join(BUILD, "CtSkel-scratch.lean") if SCRATCH else None)
    if lean_out: cmd += ["--out-lean", lean_out]
    rc, out = sh(cmd, ROOT)
    return rc == 0, out, json_out


def build_cov():
    """-> (binary or None, log)"""
    if not SCRATCH:
        d, target = COV_DIR, os.path.join(BUILD, "cargo-cov")
        if not os.path.exists(os.path.join(d, "Cargo.lock")) and os.path.exists(os.path.join(REPO, "Cargo.lock")):
            shutil.copy(os.path.join(REPO, "Cargo.lock"), os.path.join(d, "Cargo.lock"))
    else:
        # scratch tree: same sources, path dependencies rewritten, separate target directory
        d, target = os.path.join(BUILD, "cov-scratch"), os.path.join(BUILD, "cargo-cov-scratch")
        os.makedirs(os.path.join(d, "src"), exist_ok=True)
        os.makedirs(os.path.join(d, ".cargo"), exist_ok=True)
        toml = open(os.path.join(COV_DIR, "Cargo.toml")).read().replace("/repo/", os.path.realpath(REPO) + "/")
        open(os.path.join(d, "Cargo.toml"), "w").write(toml)
        for f in os.listdir(os.path.join(COV_DIR, "src")):
            shutil.copy(os.path.join(COV_DIR, "src", f), os.path.join(d, "src", f))
        cfg = open(os.path.join(COV_DIR, ".cargo", "config.toml")).read().replace("/verif/.build/cargo-cov", target)
        open(os.path.join(d, ".cargo", "config.toml"), "w").write(cfg)
        lock = os.path.join(COV_DIR, "Cargo.lock")
        if os.path.exists(lock): shutil.copy(lock, os.path.join(d, "Cargo.lock"))
    rc, out = sh(["cargo", "+nightly", "build", "--release"], d)
    binary = os.path.join(target, "release", "slcov")
    if rc != 0 or not os.path.exists(binary):
        return None, out[-4000:]
    return binary, out[-300:]


def all_rejected(skel, op, seen=None):
    """rejected nodes of op's skeleton, recursively through calls"""
    seen = seen if seen is not None else set()
    if op in seen or op not in skel["ops"]: return []
    seen.add(op)
    out = [f"{op}: {r}" for r in skel["ops"][op]["rejected_local"]]
    def calls(ns):
        for n in ns:
            if n["k"] == "call": yield n["op"]
            for key in ("body", "t", "e"):
                if key in n: yield from calls(n[key])
            for a in n.get("arms", []): yield from calls(a)
    for c in calls(skel["ops"][op]["tree"]):
        out += all_rejected(skel, c, seen)
    return out


def describe_rejected(skel, text):
    """add file:line to `ifSec cond#7` style descriptions"""
    import re
    m = re.search(r"(cond|loop)#(\d+)", text)
    if m:
        tab = skel["conds"] if m.group(1) == "cond" else skel["loops"]
        e = next((x for x in tab if x["id"] == int(m.group(2))), None)
        if e: return f"{text} at {e['file']}:{e['line']} `{e.get('text') or e.get('header')}`"
    return text


class Report:
    def __init__(self, tier, seed):
        self.r = {"property": "C18", "tier": tier, "seed": seed, "evaluations": 0, "distinct_nontrivial": 0, "rule": RULE, "streams": {},
                  "histogram": {}, "samples": [], "n_divergences": 0, "divergences": [], "n_pred_failures": 0, "pred_failures": [],
                  "exhaustive": [], "notes": [], "search_rounds": 0}
        self.distinct = set()
    def diverge(self, stream, index, request, impl, model, key, what):
        self.r["n_divergences"] += 1
        if len(self.r["divergences"]) < 8:
            self.r["divergences"].append({"stream": stream, "index": index, "request": request, "impl": impl[:4000], "model": model[:4000], "key": key, "what": what})
    def pred_fail(self, stream, index, request, impl, model, key, what):
        self.r["n_pred_failures"] += 1
        if len(self.r["pred_failures"]) < 40 and sum(1 for g in self.r["pred_failures"] if g["key"] == key) < 2:
            self.r["pred_failures"].append({"stream": stream, "index": index, "request": request, "impl": impl[:4000], "model": model[:4000], "key": key, "what": what})
    def hist(self, k): self.r["histogram"][k] = self.r["histogram"].get(k, 0) + 1
    def write(self, path):
        self.r["distinct_nontrivial"] = len(self.distinct)
        json.dump(self.r, open(path, "w"), indent=1)


def absorb(rep, res, stream):
    """one measure_op result into the report"""
    import re
    op = res["op"]
    for run in res["runs"]:
        rep.r["evaluations"] += 1
        rep.r["streams"][stream] = rep.r["streams"].get(stream, 0) + 1
        m = re.search(r"inputs=\[(.*)\]", run["stdout"])
        if m:
            rep.distinct.add((stream, m.group(1)))
            for tok in m.group(1).split():
                if "=" in tok and not tok.startswith("bits="): rep.hist(f"{op}:{tok}")
    if res["runs"] and len(rep.r["samples"]) < 6:
        rep.r["samples"].append({"stream": stream, "cmd": res["runs"][-1]["cmd"], "result": res["runs"][-1]["stdout"], "lines_compared": res.get("lines_compared"),
                                 "skeleton_tie": res.get("tie")})
    for e in res["harness_errors"]:
        rep.diverge(stream, 0, [e.split(":")[0]], e, "slcov runs the operation on an honest input and exits 0", f"{op}:harness-error",
                    f"the coverage harness could not run {op}: {e}")
    for f in res["failures"]:
        idx = int(f["b"].split()[2])
        what = (f"{op}: per-line execution counts differ between two executions that differ only in secrets: {f['n_lines']} "
                f"{'repo' if f['kind'] == 'repo' else 'crypto-bigint/subtle'} line(s), e.g. {f['first']}  [{f['a_inputs']}] vs [{f['b_inputs']}]")
        rep.pred_fail(stream, idx, [f["a"], f["b"]], "; ".join(f["lines"]), "identical execution count on every line for all secret values",
                      f"{op}:{f['kind']}-lines-differ", what)
    for p in res["tie_problems"]:
        rep.diverge(stream, 0, [res["runs"][0]["cmd"]] if res["runs"] else [], p, "skeleton prediction = measured region count at every site",
                    f"{op}:skeleton-tie", f"{op}: generated skeleton and coverage measurement disagree: {p}")
    for crate, e in res["dependency_lines_differing"].items():
        note = f"dependency_lines_differing {stream}: {crate}: {e['lines']} line(s) differ across secrets (not counted as a violation), e.g. {e['example']}"
        if note not in rep.r["notes"] and len(rep.r["notes"]) < 60: rep.r["notes"].append(note)


def main():
    a = sys.argv[1:]
    tier, seed, out, scale, replay = "quick", 1, None, 1, None
    i = 0
    while i < len(a):
        if a[i] == "--tier": tier = a[i + 1]
        elif a[i] == "--seed": seed = int(a[i + 1])
        elif a[i] == "--out": out = a[i + 1]
        elif a[i] == "--scale": scale = max(1, int(a[i + 1]))
        elif a[i] == "--replay": replay = a[i + 1]
        elif a[i] == "--driver": pass
        else: print("ct_check: unknown argument", a[i], file=sys.stderr); sys.exit(2)
        i += 2
    if not out: print(__doc__); sys.exit(2)
    t0 = time.time()
    rep = Report(tier, seed)

    # 1. translator
    ok, tlog, skel_path = run_translator()
    skel = None
    if not ok:
        rep.diverge("translator", 0, [f"{CTSKEL_BIN} --repo {REPO}"], tlog[-3000:], "every configured function is found and analysed", "translator-broken",
                    "tools/ctskel failed (a listed function was not found or could not be analysed): " + tlog.strip().splitlines()[-1] if tlog.strip() else "tools/ctskel failed")
    else:
        skel = json.load(open(skel_path))
        rep.r["notes"].append(tlog.strip().splitlines()[-1])
        for op in cm.LISTED:
            for rj in all_rejected(skel, op):
                d = describe_rejected(skel, rj)
                rep.diverge("skeleton", 0, [f"slcov {op} 0 {tier}"], d, "no secret-dependent node (Ct.check = true)", f"{op}:rejected-node",
                            f"the skeleton extracted from the current source of {op} contains a secret-dependent node: {d}")
        for n in skel["notes"][:40]:
            rep.r["notes"].append("translator: " + n)

    # 2. coverage harness
    binary, blog = build_cov()
    if binary is None:
        print("ct_check: harness-cov does not build against " + REPO + ":\n" + blog, file=sys.stderr)
        rep.diverge("build", 0, ["cargo +nightly build --release (harness-cov)"], blog[-3000:], "builds", "harness-cov-build",
                    "the coverage harness does not build against the current tree")
        rep.write(out)
        sys.exit(1)

    # replay: re-run exactly the two recorded command lines
    if replay:
        rj = json.load(open(replay))
        cmds = [l for l in rj.get("request_lines", []) if l.startswith("slcov ")]
        if len(cmds) >= 2:
            import tempfile
            wd = tempfile.mkdtemp(prefix="ctcov-", dir=BUILD)
            ra, rb = [cm.run_one(binary, *c.split()[1:4], wd) for c in cmds[:2]]
            os.rmdir(wd)
            op = cmds[0].split()[1]
            rep.r["evaluations"] = 2
            rep.r["streams"][op] = 2
            d = cm.diff_counts(ra["counts"], rb["counts"], REPO)
            for kind in ("repo", "substrate"):
                if d[kind]:
                    x = d[kind][0]
                    rep.pred_fail(op, 0, cmds[:2], "; ".join(f"{y[1]}:{y[2]} {y[3]} vs {y[4]}" for y in d[kind][:12]),
                                  "identical execution count on every line for all secret values", f"{op}:{kind}-lines-differ",
                                  f"{op}: {len(d[kind])} line(s) differ, e.g. {x[1]}:{x[2]} executed {x[3]} vs {x[4]} times")
        else:
            rep.r["notes"].append("replay file has no pair of slcov command lines; nothing re-run")
        rep.write(out)
        sys.exit(1 if (rep.r["n_divergences"] or rep.r["n_pred_failures"]) else 0)

    # 3. measurement
    n = (16 if tier == "quick" else 64)
    off = 1000 + (seed % 997) * 1000
    indices = list(range(n)) + [off + k for k in range(n * (scale - 1))]
    if seed != 1 and scale == 1:
        indices = list(range(n // 2)) + [off + k for k in range(n - n // 2)]
    sizes = ["2048"] if tier == "quick" else ["2048", "1024", "512"]
    for op in cm.LISTED:
        for kb in (sizes if op in cm.PAILLIER_OPS else [None]):
            targ = tier if kb in (None, "2048") else f"{tier}:{kb}"
            stream = op if kb in (None, "2048") else f"{op}:{kb}"
            res = cm.measure_op(op, indices, targ, binary, skel, REPO)
            absorb(rep, res, stream)

    # 4. negative control
    nc = cm.measure_op("mul_vartime", [1, 3], tier, binary, None, REPO)
    rep.r["evaluations"] += len(nc["runs"])
    rep.r["streams"]["negative-control:mul_vartime"] = len(nc["runs"])
    nc_measured = any(f["kind"] == "substrate" for f in nc["failures"])
    nc_static = bool(skel) and bool(all_rejected(skel, "mul_vartime"))
    if nc_measured and (nc_static or not skel):
        nl = sum(f["n_lines"] for f in nc["failures"] if f["kind"] == "substrate")
        rep.r["notes"].append(f"negative control mul_vartime: rejected by the translator (extVartime) and measured: {nl} crypto-bigint line(s) differ between k = 1 and k = N-1")
    else:
        rep.diverge("negative-control", 0, [r["cmd"] for r in nc["runs"]], f"static={nc_static} measured={nc_measured} errors={nc['harness_errors']}",
                    "mul_vartime is rejected by the checker and its crypto-bigint counts differ between k = 1 and k = N-1", "negative-control",
                    "the negative control mul_vartime is no longer detected (the check has lost its sensitivity)")
    rep.r["notes"].append(f"secret indices per operation: {len(indices)}; Paillier key sizes: {', '.join(sizes)}; tree: {REPO}; wall {time.time() - t0:.1f}s")
    rep.write(out)
    print(f"ct_check: {rep.r['evaluations']} runs, {rep.r['n_divergences']} divergences, {rep.r['n_pred_failures']} predicate failures, {time.time() - t0:.1f}s")
    sys.exit(1 if (rep.r["n_divergences"] or rep.r["n_pred_failures"]) else 0)


if __name__ == "__main__":
    main()
