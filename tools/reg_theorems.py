#!/usr/bin/env python3
"""tools/reg_theorems.py Cxx [module ...] — register in registry.json every theorem declared in lean/SlVerif/Props/Cxx.lean
(namespace SlVerif.Cxx, top-level `theorem name`), and set the lean module list."""
import json, re, sys, os
ROOT = os.path.join(os.path.dirname(os.path.abspath(__file__)), "..")
prop = sys.argv[1]
mods = sys.argv[2:] or [f"SlVerif.Props.{prop}"]
names = []
for m in mods:
    src = open(os.path.join(ROOT, "lean", *m.split(".")) + ".lean").read()
    ns = []
    for line in src.splitlines():
        mm = re.match(r"^namespace\s+(\S+)", line)
        if mm: ns.append(mm.group(1)); continue
        mm = re.match(r"^end\s+(\S+)", line)
        if mm and ns and ns[-1].endswith(mm.group(1)): ns.pop(); continue
        mm = re.match(r"^(?:protected\s+)?theorem\s+([^\s:({\[]+)", line)
        if mm and not mm.group(1).startswith("_root_"):
            full = ".".join(ns + [mm.group(1)])
            if full not in names: names.append(full)
reg = json.load(open(os.path.join(ROOT, "registry.json")))
reg[prop]["lean_modules"] = mods
reg[prop]["theorems"] = names
json.dump(reg, open(os.path.join(ROOT, "registry.json"), "w"), indent=1)
print(prop, len(names), "theorems:", " ".join(n.split(".")[-1] for n in names))
