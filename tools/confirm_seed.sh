#!/bin/sh
# tools/confirm_seed.sh <worktree> <crate> [cargo test extra args]  — confirm a seeded change in its scratch worktree:
# existing tests of <crate> pass with the change; demo fails with it and passes without it.
W="$1"; CRATE="$2"; shift 2
export CARGO_NET_OFFLINE=true CARGO_TARGET_DIR="$W/target"
cd "$W" || exit 2
echo "## with change: crate tests"; cargo test --offline -p "$CRATE" "$@" 2>&1 | grep -E '^test result|FAILED|error(\[|:)' | head -8
echo "## with change: demo"; (cd demo && RUSTFLAGS="${DEMO_RUSTFLAGS:-}" cargo test --offline --release 2>&1 | grep -E '^test result|error(\[|:)' | head -6)
# (git stash is shared between worktrees: use the patch itself)
git diff -- crates > "$W/.seed.patch"; git apply -R "$W/.seed.patch" || exit 2
echo "## WITHOUT change: demo"; (cd demo && RUSTFLAGS="${DEMO_RUSTFLAGS:-}" cargo test --offline --release 2>&1 | grep -E '^test result|error(\[|:)' | head -6)
git apply "$W/.seed.patch"
git diff --stat -- crates | tail -2
