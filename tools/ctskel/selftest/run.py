#!/usr/bin/env python3
"""Regression test of the translator's classification rules on a synthetic crate (selftest/crates/x/src/lib.rs):
every `bad_*` function must contain a rejected node, every `ok_*` function none.  Exit 0 = as expected."""
import json, os, re, subprocess, sys, tempfile
here = os.path.dirname(os.path.abspath(__file__))
root = os.path.join(here, "..", "..", "..")
exe = os.path.join(root, ".build", "cargo-ctskel", "release", "ctskel")
src = open(os.path.join(here, "crates/x/src/lib.rs")).read()
fns = re.findall(r"pub fn (\w+)\(", src)
base = json.load(open(os.path.join(here, "..", "ops.json")))
# names ending in _m are methods of `K` (public field self.n unless the name says nopub)
base["functions"] = [({"op": f, "listed": True, "file": "crates/x/src/lib.rs", "impl": "K", "fn": f, "public": [] if "nopub" in f else ["self.n"], "callee_as": []} if f.endswith("_m") else
                      {"op": f, "listed": True, "file": "crates/x/src/lib.rs", "impl": None, "fn": f, "public": ["n"], "callee_as": [f]}) for f in fns]
with tempfile.TemporaryDirectory() as d:
    json.dump(base, open(os.path.join(d, "ops.json"), "w"))
    p = subprocess.run([exe, "--repo", here, "--ops", os.path.join(d, "ops.json"), "--out-lean", os.path.join(d, "o.lean"), "--out-json", os.path.join(d, "o.json")],
                       stdout=subprocess.PIPE, stderr=subprocess.STDOUT, text=True)
    if p.returncode != 0: print(p.stdout); sys.exit(2)
    j = json.load(open(os.path.join(d, "o.json")))
bad = 0
def rejected(op, seen=()):
    """local rejections plus those of every op reached through `call` nodes (what Ct.check sees)"""
    o = j["ops"][op]; out = list(o["rejected_local"])
    def calls(t):
        for n in t:
            if isinstance(n, dict):
                if n.get("k") == "call" and n.get("op") not in seen: yield n["op"]
                for v in n.values():
                    if isinstance(v, list): yield from calls(v)
    for c in calls(o["tree"]):
        if c in j["ops"]: out += [f"via {c}: {r}" for r in rejected(c, seen + (op,))]
    return out
for op in fns:
    rej = rejected(op)
    ok = (op.startswith("bad_") == bool(rej))
    if not ok: bad += 1
    print(f"{'ok  ' if ok else 'FAIL'} {op:20s} {'rejected' if rej else 'accepted'} {rej}")
sys.exit(1 if bad else 0)
