pub mod consts {
    pub const LAMBDA_C: usize = 256;
}
