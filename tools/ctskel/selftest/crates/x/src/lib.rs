pub fn ok_loops(n: usize, s: &[u8; 16], k: u8) -> u8 {
    let mut acc = 0u8;
    for i in 0..n { for j in 0..(1 << i) { acc ^= s[j & 15]; } }
    s.iter().enumerate().for_each(|(i, b)| { acc ^= b.wrapping_add(i as u8); });
    let v: u8 = (0..n).map(|i| s[i & 15]).fold(0, |a, b| a ^ b);
    for j in 0..16 { if j == k as usize { acc ^= 1; } else { acc ^= 2; } }
    acc ^ v
}
pub fn bad_trip(n: usize, k: u8) -> u8 { let mut a = 0; for _ in 0..k { a += 1; } a }
pub fn bad_if(n: usize, k: u8) -> u8 { if k & 1 == 1 { 1 } else { 2 } }
pub fn bad_short(n: usize, k: u8, l: u8) -> bool { k == 1 && l == 2 }
pub fn bad_match(n: usize, k: Option<u8>) -> u8 { match k { Some(x) => x, None => 0 } }
pub fn bad_iflet(n: usize, k: Option<u8>) -> u8 { if let Some(x) = k { x } else { 0 } }
pub fn bad_try(n: usize, k: Result<u8, ()>) -> Result<u8, ()> { let x = k?; Ok(x) }
pub fn bad_while(n: usize, mut k: u8) -> u8 { let mut a = 0; while k > 0 { k >>= 1; a += 1; } a }
pub fn bad_any(n: usize, s: &[u8]) -> bool { s.iter().any(|b| *b != 0) }
pub fn bad_filter(n: usize, s: &[u8]) -> usize { s.iter().filter(|b| **b != 0).count() }
pub fn bad_take(n: usize, s: &[u8], k: u8) -> u8 { s.iter().take(k as usize).fold(0, |a, b| a ^ b) }
pub fn bad_onehot_nested(n: usize, k: u8) -> u8 { let mut a = 0; for j in 0..16 { for _ in 0..2 { if j == k as usize { a += 1; } } } a }
pub fn bad_onehot_arm(n: usize, k: u8) -> u8 { let mut a = 0; for j in 0..16 { if j == k as usize { for _ in 0..j { a += 1; } } } a }
pub fn bad_onehot_self(n: usize, s: &[u8; 16]) -> u8 { let mut a = 0; for j in 0..16 { if j == s[j] as usize { a += 1; } } a }
pub fn bad_taint(n: usize, k: u8) -> u8 { let mut m = n; m = k as usize; let mut a = 0; for _ in 0..m { a += 1; } a }
pub fn bad_taint_loop(n: usize, k: u8) -> u8 { let mut m = n; let mut a = 0; for _ in 0..4 { for _ in 0..m { a += 1; } m = k as usize; } a }
pub fn bad_mutarg(n: usize, k: u8) -> u8 { let mut m = n; fill(&mut m, k); let mut a = 0; for _ in 0..m { a += 1; } a }
pub fn bad_then(n: usize, k: bool) -> Option<u8> { k.then(|| 1) }
pub fn bad_ret_loop(n: usize, s: &[u8]) -> u8 { for i in 0..n { if i == 3 { return 1; } } 0 }
pub fn bad_assert(n: usize, k: u8) { assert!(k != 0); }
pub fn bad_cmp(n: usize, a: &[u8; 4], b: &[u8; 4]) -> bool { a == b }
pub fn bad_lz(n: usize, k: u64) -> u32 { k.leading_zeros() }
pub fn ok_pub_if(n: usize, k: u8) -> u8 { if n > 3 { k } else { 0 } }
pub fn ok_lz(n: usize, k: u64) -> u32 { n.leading_zeros() }
fn fill(m: &mut usize, k: u8) { *m = k as usize; }

// ARRAY-MAP: <[T; N]>::map on an array literal (direct or through an immutable binding) is a loop of syntactic length
pub fn ok_array_map(n: usize, a: u64, b: u64) -> [u64; 2] { [a, b].map(|x| x.wrapping_mul(3)) }
pub fn ok_array_map_let(n: usize, a: u64, b: u64) -> [u64; 2] { let h = [a, b]; h.map(|x| x.wrapping_mul(3)) }
pub fn bad_array_map_body(n: usize, a: u64, b: u64) -> [u64; 2] { [a, b].map(|x| if x > 3 { x } else { 0 }) }
pub fn bad_option_map(n: usize, a: Option<u64>) -> Option<u64> { a.map(|x| x + 1) }
pub fn bad_mut_array_map(n: usize, a: Option<u64>) -> Option<u64> { let mut h = [a, a]; let k = h[0]; k.map(|x| x + 1) }
// SELF-INHERIT: helper methods called on the caller's own `self` see the caller's public fields (and only those)
pub struct K { n: u64, d: u64 }
impl K {
    fn help_n(&self) -> u32 { self.n.leading_zeros() }
    fn help_d(&self) -> u32 { self.d.leading_zeros() }
    pub fn ok_self_helper_m(&self) -> u32 { self.help_n() }
    pub fn bad_self_helper_m(&self) -> u32 { self.help_d() }
    pub fn bad_self_helper_nopub_m(&self) -> u32 { self.help_n() }
}

// CALL-SITE: an automatically analysed helper sees a parameter as public when the first call site passes a public argument
fn helper_bits(bits: usize, k: u64) -> u64 { if bits == 0 { return 1; } let mut a = k; for _ in 0..bits { a = a.wrapping_mul(3); } a }
pub fn ok_callsite_pub(n: usize, k: u64) -> u64 { helper_bits(n, k) }
fn helper_bits2(bits: usize, k: u64) -> u64 { if bits == 0 { return 1; } k }
pub fn bad_callsite_sec(n: usize, k: u64) -> u64 { helper_bits2(k as usize, k) }
// ABORT-TRY-HELPER: `?` on a checking helper whose own skeleton has the abort point
fn checker(a: &[u8; 4], b: &[u8; 4]) -> Result<(), ()> { if a.ct_ne(b).into() { return Err(()); } Ok(()) }
pub fn ok_try_helper(n: usize, a: &[u8; 4], b: &[u8; 4]) -> Result<u8, ()> { checker(a, b)?; Ok(1) }
fn not_checker(a: &[u8; 4]) -> Result<u8, ()> { Ok(a[0]) }
pub fn bad_try_plain(n: usize, a: &[u8; 4]) -> Result<u8, ()> { let x = not_checker(a)?; Ok(x) }
// GUARD-RETURN: only a top-level public guard; a secret guard or a guard inside a loop stays rejected
pub fn ok_guard_return(n: usize, k: u64) -> u64 { if n == 0 { return 1; } k.wrapping_mul(3) }
pub fn bad_guard_return_secret(n: usize, k: u64) -> u64 { if k == 0 { return 1; } k.wrapping_mul(3) }
pub fn bad_guard_return_in_loop(n: usize, k: u64) -> u64 { for i in 0..n { if i == 2 { return 1; } } k }
// CALL-SITE is only used when the helper NEEDS a public parameter: a helper accepted with all parameters secret serves every caller
fn helper_any(p: u64, k: u64) -> u64 { p.wrapping_mul(k) }
pub fn ok_callsite_first_pub(n: usize, k: u64) -> u64 { helper_any(n as u64, k) }
pub fn ok_callsite_then_sec(n: usize, k: u64) -> u64 { helper_any(k, k) }
// CHOICE-VAR: the abort condition may go through a let-bound Choice; ITER-VAR: a let-bound iterator keeps its trip count
pub fn ok_choice_var(n: usize, a: &[u8; 4], b: &[u8; 4]) -> Result<u8, ()> { let same = a.ct_eq(b); if (!same).into() { return Err(()); } Ok(1) }
pub fn bad_nonchoice_var(n: usize, a: &[u8; 4], b: &[u8; 4]) -> Result<u8, ()> { let same = a[0] > b[0]; if same.into() { return Err(()); } Ok(1) }
pub fn ok_iter_var(n: usize, a: &[u8; 4], b: &[u8; 4]) -> u8 { let rows = a.iter().zip(b.iter()); let mut s = 0u8; for (x, y) in rows { s ^= x ^ y; } s }
pub fn ok_chunks_exact_mut(n: usize, a: &mut [u8; 8]) { for c in a.chunks_exact_mut(2) { c[0] ^= c[1]; } }
