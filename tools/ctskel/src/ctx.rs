//! Per-function analysis context: scopes, bindings, taint (public/secret) of expressions.
use quote::ToTokens;
use std::collections::{HashMap, HashSet};
use syn::spanned::Spanned;
use syn::{Expr, Pat};

use crate::node::Node;

/// a binding is identified by the source position of its identifier
pub type BindId = (usize, usize);

#[derive(Clone)]
pub struct Binding {
    pub id: BindId,
    pub mutable: bool,
}

#[derive(Clone)]
pub struct LoopFrame {
    pub id: u32,
    /// binding of the loop index (range variable / enumerate index / from_fn index), if any
    pub index: Option<BindId>,
    /// span start of the body block whose direct statements may hold a one-hot `if`
    pub body_pos: (usize, usize),
    pub public: bool,
}

pub struct FnCtx {
    pub op: String,
    pub file: String,
    pub impl_ty: Option<String>,
    pub public_paths: HashSet<String>,
    pub const_generics: HashSet<String>,
    pub scopes: Vec<HashMap<String, Binding>>,
    pub secret: HashSet<BindId>,
    pub closures: Vec<HashMap<String, Vec<Node>>>,
    pub loops: Vec<LoopFrame>,
    pub closure_pub_params: HashMap<String, Vec<bool>>,
    /// immutable `let x = [a, b, ..];` bindings: x is an array of that (syntactic) length
    pub array_lits: HashMap<BindId, usize>,
    /// CHOICE-VAR: `let c = <expr containing ct_eq / ct_ne / another choice variable>;` — c is a `subtle::Choice`
    pub choice_vars: HashSet<BindId>,
    /// ITER-VAR: immutable `let it = <iterator expression with a known trip count>;`
    pub iter_vars: HashMap<BindId, crate::walk::IterInfo>,
    /// GUARD-RETURN: position of the one `return` that is modelled by putting the rest of the function into the else arm
    pub allow_return_at: Option<(usize, usize)>,
    /// >0 while inside a loop / closure body (a `return`/`break`/`continue` there is an exit)
    pub depth_loop: u32,
    /// >0 while inside code controlled by a secret (arms of rejected / one-hot branches, secret loops)
    pub depth_sec: u32,
    /// >0 while inside any branch arm
    pub depth_branch: u32,
    /// final pass: allocate ids and record tables
    pub emit: bool,
    pub changed: bool,
    /// statements that are direct children of the current innermost loop body (positions)
    pub direct_stmt: Option<(usize, usize)>,
}

pub fn norm(ts: impl ToTokens) -> String {
    ts.to_token_stream().to_string()
}

pub fn squash(ts: impl ToTokens) -> String {
    norm(ts).chars().filter(|c| !c.is_whitespace()).collect()
}

pub fn pos_of<T: Spanned>(t: &T) -> (usize, usize) {
    let s = t.span().start();
    (s.line, s.column + 1)
}

pub fn end_of<T: Spanned>(t: &T) -> (usize, usize) {
    let s = t.span().end();
    (s.line, s.column + 1)
}

pub fn strip(e: &Expr) -> &Expr {
    match e {
        Expr::Paren(p) => strip(&p.expr),
        Expr::Group(g) => strip(&g.expr),
        _ => e,
    }
}

/// strip parens, references, derefs and casts
pub fn strip_all(e: &Expr) -> &Expr {
    match e {
        Expr::Paren(p) => strip_all(&p.expr),
        Expr::Group(g) => strip_all(&g.expr),
        Expr::Reference(r) => strip_all(&r.expr),
        Expr::Cast(c) => strip_all(&c.expr),
        Expr::Unary(u) if matches!(u.op, syn::UnOp::Deref(_)) => strip_all(&u.expr),
        _ => e,
    }
}

/// `a.b.0` / `self.n` as text, if the expression is a pure field path
pub fn path_text(e: &Expr) -> Option<String> {
    match strip(e) {
        Expr::Path(p) if p.qself.is_none() && p.path.segments.len() == 1 => Some(p.path.segments[0].ident.to_string()),
        Expr::Field(f) => {
            let b = path_text(&f.base)?;
            let m = match &f.member {
                syn::Member::Named(i) => i.to_string(),
                syn::Member::Unnamed(i) => i.index.to_string(),
            };
            Some(format!("{b}.{m}"))
        }
        Expr::Reference(r) => path_text(&r.expr),
        Expr::Unary(u) if matches!(u.op, syn::UnOp::Deref(_)) => path_text(&u.expr),
        _ => None,
    }
}

/// the local variable at the root of a place expression (`x` in `x.a[i].b`, `*x`, `&mut x[..]`)
pub fn root_ident(e: &Expr) -> Option<String> {
    match e {
        Expr::Path(p) if p.qself.is_none() && p.path.segments.len() == 1 => Some(p.path.segments[0].ident.to_string()),
        Expr::Field(f) => root_ident(&f.base),
        Expr::Index(i) => root_ident(&i.expr),
        Expr::Paren(p) => root_ident(&p.expr),
        Expr::Group(g) => root_ident(&g.expr),
        Expr::Reference(r) => root_ident(&r.expr),
        Expr::Unary(u) => root_ident(&u.expr),
        Expr::MethodCall(m) => root_ident(&m.receiver), // x.as_mut()[..], x.iter_mut()
        Expr::Cast(c) => root_ident(&c.expr),
        Expr::Try(t) => root_ident(&t.expr),
        _ => None,
    }
}

pub fn is_screaming(s: &str) -> bool {
    s.chars().any(|c| c.is_ascii_uppercase()) && s.chars().all(|c| c.is_ascii_uppercase() || c.is_ascii_digit() || c == '_')
}

pub fn pat_idents(p: &Pat, out: &mut Vec<(String, BindId, bool)>) {
    match p {
        Pat::Ident(i) => {
            let s = i.ident.span().start();
            out.push((i.ident.to_string(), (s.line, s.column + 1), i.mutability.is_some() || i.by_ref.is_some() && i.mutability.is_some()));
            if let Some((_, sub)) = &i.subpat {
                pat_idents(sub, out)
            }
        }
        Pat::Tuple(t) => t.elems.iter().for_each(|e| pat_idents(e, out)),
        Pat::TupleStruct(t) => t.elems.iter().for_each(|e| pat_idents(e, out)),
        Pat::Struct(s) => s.fields.iter().for_each(|f| pat_idents(&f.pat, out)),
        Pat::Slice(s) => s.elems.iter().for_each(|e| pat_idents(e, out)),
        Pat::Reference(r) => pat_idents(&r.pat, out),
        Pat::Type(t) => pat_idents(&t.pat, out),
        Pat::Paren(p) => pat_idents(&p.pat, out),
        Pat::Or(o) => o.cases.iter().for_each(|e| pat_idents(e, out)),
        _ => {}
    }
}

impl FnCtx {
    pub fn push_scope(&mut self) {
        self.scopes.push(HashMap::new());
        self.closures.push(HashMap::new());
    }
    pub fn pop_scope(&mut self) {
        self.scopes.pop();
        self.closures.pop();
    }
    pub fn lookup(&self, name: &str) -> Option<&Binding> {
        self.scopes.iter().rev().find_map(|s| s.get(name))
    }
    pub fn lookup_closure(&self, name: &str) -> Option<&Vec<Node>> {
        // a closure name shadowed by a later variable of the same name is not a closure any more
        for (s, c) in self.scopes.iter().rev().zip(self.closures.iter().rev()) {
            if let Some(n) = c.get(name) {
                return Some(n);
            }
            if s.contains_key(name) {
                return None;
            }
        }
        None
    }
    pub fn bind(&mut self, name: &str, id: BindId, mutable: bool, public: bool) {
        if !public {
            self.mark(id);
        }
        self.scopes.last_mut().unwrap().insert(name.to_string(), Binding { id, mutable });
    }
    pub fn bind_pat(&mut self, p: &Pat, public: bool) {
        let mut v = vec![];
        pat_idents(p, &mut v);
        for (n, id, m) in v {
            self.bind(&n, id, m, public);
        }
    }
    pub fn mark(&mut self, id: BindId) {
        if self.secret.insert(id) {
            self.changed = true;
        }
    }
    /// the variable at the root of place `e` becomes secret
    pub fn taint_root(&mut self, e: &Expr) {
        if let Some(r) = root_ident(e) {
            if let Some(b) = self.lookup(&r) {
                let id = b.id;
                self.mark(id);
            }
        }
    }
    pub fn root_mutable(&self, e: &Expr) -> bool {
        match root_ident(e).and_then(|r| self.lookup(&r).cloned()) {
            Some(b) => b.mutable,
            None => true,
        }
    }

    pub fn ident_public(&self, name: &str) -> bool {
        if name == "self" {
            return self.public_paths.contains("self");
        }
        if let Some(b) = self.lookup(name) {
            return !self.secret.contains(&b.id);
        }
        if self.public_paths.contains(name) {
            return true;
        }
        is_screaming(name) || self.const_generics.contains(name)
    }

    /// is the VALUE of `e` a function of public data only?  Unknown ⇒ secret.
    pub fn is_pub(&self, e: &Expr) -> bool {
        match e {
            Expr::Lit(_) => true,
            Expr::Paren(p) => self.is_pub(&p.expr),
            Expr::Group(g) => self.is_pub(&g.expr),
            Expr::Path(p) => {
                if p.qself.is_some() {
                    return false;
                }
                if p.path.segments.len() == 1 {
                    self.ident_public(&p.path.segments[0].ident.to_string())
                } else {
                    // Type::CONST, Uint::<M>::BITS, Scalar::ZERO: type-level constants (also enum variants / fn items)
                    true
                }
            }
            Expr::Field(f) => {
                if let Some(t) = path_text(e) {
                    // any prefix listed public makes the whole path public
                    let parts: Vec<&str> = t.split('.').collect();
                    for k in 1..=parts.len() {
                        if self.public_paths.contains(&parts[..k].join(".")) {
                            return true;
                        }
                    }
                }
                self.is_pub(&f.base)
            }
            Expr::Index(i) => self.is_pub(&i.expr) && self.is_pub(&i.index),
            Expr::Reference(r) => self.is_pub(&r.expr),
            Expr::Unary(u) => self.is_pub(&u.expr),
            Expr::Cast(c) => self.is_pub(&c.expr),
            Expr::Binary(b) => self.is_pub(&b.left) && self.is_pub(&b.right),
            Expr::Range(r) => r.start.as_ref().map_or(true, |s| self.is_pub(s)) && r.end.as_ref().map_or(true, |s| self.is_pub(s)),
            Expr::Tuple(t) => t.elems.iter().all(|x| self.is_pub(x)),
            Expr::Array(t) => t.elems.iter().all(|x| self.is_pub(x)),
            Expr::Repeat(r) => self.is_pub(&r.expr) && self.is_pub(&r.len),
            Expr::MethodCall(m) => {
                let name = m.method.to_string();
                if name == "len" && m.args.is_empty() {
                    // allow-rule LEN: lengths of arrays / slices / Vecs are public size parameters
                    return true;
                }
                self.is_pub(&m.receiver) && m.args.iter().all(|a| self.is_pub(a))
            }
            Expr::Call(c) => {
                // a call of a let-bound closure captures its environment: unknown ⇒ secret
                if let Expr::Path(p) = strip(&c.func) {
                    if p.path.segments.len() == 1 && self.lookup(&p.path.segments[0].ident.to_string()).is_some() {
                        return false;
                    }
                }
                c.args.iter().all(|a| self.is_pub(a))
            }
            Expr::Struct(s) => s.fields.iter().all(|f| self.is_pub(&f.expr)) && s.rest.as_ref().map_or(true, |r| self.is_pub(r)),
            _ => false,
        }
    }

    /// does `e` mention local variable `name` (syntactically)?
    pub fn mentions(e: &Expr, name: &str) -> bool {
        norm(e).split(|c: char| !(c.is_alphanumeric() || c == '_')).any(|t| t == name)
    }
}
