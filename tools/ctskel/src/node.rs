//! Skeleton nodes + Lean / JSON printers.
use serde_json::{json, Value};

#[derive(Clone, Debug)]
pub enum Node {
    Site(u32),
    LoopPub { id: u32, body: Vec<Node> },
    IfPub { id: u32, t: Vec<Node>, e: Vec<Node> },
    OneHot { id: u32, l: u32, k: u32, t: Vec<Node>, e: Vec<Node> },
    AbortIf { id: u32, body: Vec<Node> },
    /// call of an analysed top-level function: refers to `skel_<op>`
    Call { op: String },
    /// call of a let-bound closure of the same function: body inlined
    CallInline { name: String, body: Vec<Node> },
    Ext(String),
    ExtVartime(String, String),
    SecArg(String, String),
    IfSec { id: u32, t: Vec<Node>, e: Vec<Node> },
    LoopSec { id: u32, body: Vec<Node> },
    WhileSec { id: u32, body: Vec<Node> },
    MatchSec { id: u32, arms: Vec<Vec<Node>> },
    ExitSec(u32),
}

fn lean_str(s: &str) -> String {
    let mut o = String::from("\"");
    for c in s.chars() {
        match c {
            '"' => o.push_str("\\\""),
            '\\' => o.push_str("\\\\"),
            '\n' => o.push(' '),
            c if (c as u32) < 0x20 || (c as u32) > 0x7e => o.push('?'),
            c => o.push(c),
        }
    }
    o.push('"');
    o
}

pub fn lean_block(ns: &[Node], ind: usize) -> String {
    if ns.is_empty() {
        return ".skip".into();
    }
    if ns.len() == 1 {
        return lean_node(&ns[0], ind);
    }
    let pad = " ".repeat(ind + 2);
    let mut s = String::from(".block [\n");
    for (i, n) in ns.iter().enumerate() {
        s.push_str(&pad);
        s.push_str(&lean_node(n, ind + 2));
        if i + 1 < ns.len() {
            s.push(',');
        }
        s.push('\n');
    }
    s.push_str(&" ".repeat(ind));
    s.push(']');
    s
}

fn par(s: String) -> String {
    if s.starts_with('(') || !s.contains(' ') && !s.contains('\n') { s } else { format!("({s})") }
}

pub fn lean_node(n: &Node, ind: usize) -> String {
    match n {
        Node::Site(s) => format!(".site {s}"),
        Node::LoopPub { id, body } => format!(".loopPub {id} {}", par(lean_block(body, ind))),
        Node::IfPub { id, t, e } => format!(".ifPub {id} {} {}", par(lean_block(t, ind)), par(lean_block(e, ind))),
        Node::OneHot { id, l, k, t, e } => {
            format!(".oneHot {id} {l} {k} {} {}", par(lean_block(t, ind)), par(lean_block(e, ind)))
        }
        Node::AbortIf { id, body } => format!(".abortIf {id} {}", par(lean_block(body, ind))),
        Node::Call { op } => format!(".call {} skel_{op}", lean_str(op)),
        Node::CallInline { name, body } => format!(".call {} {}", lean_str(name), par(lean_block(body, ind))),
        Node::Ext(f) => format!(".ext {}", lean_str(f)),
        Node::ExtVartime(f, _) => format!(".extVartime {}", lean_str(f)),
        Node::SecArg(f, _) => format!(".secArg {}", lean_str(f)),
        Node::IfSec { id, t, e } => format!(".ifSec {id} {} {}", par(lean_block(t, ind)), par(lean_block(e, ind))),
        Node::LoopSec { id, body } => format!(".loopSec {id} {}", par(lean_block(body, ind))),
        Node::WhileSec { id, body } => format!(".whileSec {id} {}", par(lean_block(body, ind))),
        Node::MatchSec { id, arms } => {
            // right-nested chain: matchSec id arm1 (matchSec id arm2 (... skip))
            let mut s = String::from(".skip");
            for a in arms.iter().rev() {
                s = format!(".matchSec {id} {} {}", par(lean_block(a, ind)), par(s));
            }
            s
        }
        Node::ExitSec(c) => format!(".exitSec {c}"),
    }
}

pub fn json_block(ns: &[Node]) -> Value {
    Value::Array(ns.iter().map(json_node).collect())
}

pub fn json_node(n: &Node) -> Value {
    match n {
        Node::Site(s) => json!({"k": "site", "id": s}),
        Node::LoopPub { id, body } => json!({"k": "loopPub", "id": id, "body": json_block(body)}),
        Node::IfPub { id, t, e } => json!({"k": "ifPub", "id": id, "t": json_block(t), "e": json_block(e)}),
        Node::OneHot { id, l, k, t, e } => json!({"k": "oneHot", "id": id, "l": l, "sec": k, "t": json_block(t), "e": json_block(e)}),
        Node::AbortIf { id, body } => json!({"k": "abortIf", "id": id, "body": json_block(body)}),
        Node::Call { op } => json!({"k": "call", "op": op}),
        Node::CallInline { name, body } => json!({"k": "callInline", "name": name, "body": json_block(body)}),
        Node::Ext(f) => json!({"k": "ext", "name": f}),
        Node::ExtVartime(f, w) => json!({"k": "extVartime", "name": f, "where": w}),
        Node::SecArg(f, w) => json!({"k": "secArg", "name": f, "where": w}),
        Node::IfSec { id, t, e } => json!({"k": "ifSec", "id": id, "t": json_block(t), "e": json_block(e)}),
        Node::LoopSec { id, body } => json!({"k": "loopSec", "id": id, "body": json_block(body)}),
        Node::WhileSec { id, body } => json!({"k": "whileSec", "id": id, "body": json_block(body)}),
        Node::MatchSec { id, arms } => json!({"k": "matchSec", "id": id, "arms": arms.iter().map(|a| json_block(a)).collect::<Vec<_>>()}),
        Node::ExitSec(c) => json!({"k": "exitSec", "id": c}),
    }
}

/// straight-line (mirror of `Ct.straight`; calls are resolved by the caller-supplied oracle)
pub fn straight(ns: &[Node], call_ok: &dyn Fn(&str) -> bool) -> bool {
    ns.iter().all(|n| match n {
        Node::Site(_) | Node::Ext(_) => true,
        Node::Call { op } => call_ok(op),
        Node::CallInline { body, .. } => straight(body, call_ok),
        _ => false,
    })
}

/// rejected nodes with a description (mirror of `Ct.check`, used for messages only — Lean decides)
pub fn rejected(ns: &[Node], out: &mut Vec<String>) {
    for n in ns {
        match n {
            Node::Site(_) | Node::Ext(_) | Node::Call { .. } => {}
            Node::LoopPub { body, .. } | Node::AbortIf { body, .. } | Node::CallInline { body, .. } => rejected(body, out),
            Node::IfPub { t, e, .. } | Node::OneHot { t, e, .. } => { rejected(t, out); rejected(e, out) }
            Node::ExtVartime(f, w) => out.push(format!("extVartime {f} at {w}")),
            Node::SecArg(f, w) => out.push(format!("secArg {f} at {w}")),
            Node::IfSec { id, t, e } => { out.push(format!("ifSec cond#{id}")); rejected(t, out); rejected(e, out) }
            Node::LoopSec { id, body } => { out.push(format!("loopSec loop#{id}")); rejected(body, out) }
            Node::WhileSec { id, body } => { out.push(format!("whileSec loop#{id}")); rejected(body, out) }
            Node::MatchSec { id, arms } => { out.push(format!("matchSec cond#{id}")); for a in arms { rejected(a, out) } }
            Node::ExitSec(c) => out.push(format!("exitSec cond#{c}")),
        }
    }
}
