//! The skeleton extractor proper: one pass over a function body = taint update + node emission.
use serde_json::{json, Value};
use syn::{BinOp, Block, Expr, ExprClosure, ExprIf, ExprMethodCall, Pat, Stmt};

use crate::ctx::*;
use crate::node::{self, Node};
use crate::Tr;

#[derive(Clone)]
pub struct IterInfo {
    pub public: bool,
    pub elem_public: bool,
    pub enum_outer: bool,
    pub is_range: bool,
    pub trip: Value,
    pub why: String,
}

pub struct Pending<'a> {
    pub cl: &'a ExprClosure,
    pub elem_public: bool,
    pub enum_outer: bool,
    pub is_range: bool,
    pub method: String,
}

const ITER_SOURCES: &[&str] = &["iter", "iter_mut", "into_iter", "chunks", "chunks_exact", "chunks_mut", "chunks_exact_mut", "rchunks", "rchunks_exact", "rchunks_mut", "rchunks_exact_mut", "windows", "bytes", "chars", "drain"];
const ITER_ADAPT_SAME: &[&str] = &["enumerate", "rev", "copied", "cloned", "by_ref", "peekable", "fuse"];
const ITER_ADAPT_N: &[&str] = &["take", "skip", "step_by"];
const ITER_LAZY_CLOSURE: &[&str] = &["map", "inspect"];
const ITER_DATA_DEP: &[&str] = &["filter", "filter_map", "take_while", "skip_while", "map_while", "flat_map", "flatten", "scan", "dedup"];
const ITER_FULL_CLOSURE: &[&str] = &["for_each", "fold"];
const ITER_SHORT_CLOSURE: &[&str] = &["any", "all", "find", "find_map", "position", "rposition", "try_for_each", "try_fold", "max_by", "min_by", "max_by_key", "min_by_key", "reduce"];
const ITER_PARTIAL: &[&str] = &["next", "nth", "next_back", "peek"];
const OPTION_CLOSURE: &[&str] = &["then", "map", "and_then", "or_else", "unwrap_or_else", "map_err", "ok_or_else", "map_or", "map_or_else", "is_some_and", "is_ok_and", "filter", "inspect", "get_or_insert_with", "unwrap_or_default"];
const PRIMS: &[&str] = &["u8", "u16", "u32", "u64", "u128", "usize", "i8", "i16", "i32", "i64", "i128", "isize", "bool", "char"];
const MACRO_OK: &[&str] = &["vec", "println", "eprintln", "format", "print", "eprint", "write", "writeln", "dbg", "matches", "todo", "unimplemented", "unreachable", "panic"];
const MACRO_ASSERT: &[&str] = &["assert", "assert_eq", "assert_ne", "debug_assert", "debug_assert_eq", "debug_assert_ne"];

/// source position whose coverage region is executed exactly once per execution of the block: the start of the first
/// statement — for a leading `for` loop the iterator expression (the `for` keyword / pattern belong to the loop's own
/// regions); a leading `while`/`loop` has no such position (site is then not compared with the measurement)
pub fn site_anchor(b: &Block) -> ((usize, usize), bool) {
    match b.stmts.first() {
        None => (pos_of(b), false),
        Some(Stmt::Expr(Expr::ForLoop(f), _)) => (pos_of(&*f.expr), true),
        Some(Stmt::Expr(Expr::While(_), _)) | Some(Stmt::Expr(Expr::Loop(_), _)) => (pos_of(b), false),
        Some(s) => (pos_of(s), true),
    }
}

fn path_name(p: &syn::Path) -> String {
    p.segments.iter().map(|s| s.ident.to_string()).collect::<Vec<_>>().join("::")
}

fn is_prim_cast(e: &Expr) -> bool {
    match strip(e) {
        Expr::Cast(c) => PRIMS.contains(&squash(&c.ty).as_str()),
        Expr::Lit(_) => true,
        Expr::Unary(u) => is_prim_cast(&u.expr),
        _ => false,
    }
}

impl Tr {
    // ---------------------------------------------------------------- ids / tables
    fn loc(&self, cx: &FnCtx, pos: (usize, usize)) -> String {
        format!("{}:{}", cx.file, pos.0)
    }
    pub fn new_site(&mut self, cx: &FnCtx, kind: &str, pos: (usize, usize), end: (usize, usize), header: &str) -> u32 {
        if !cx.emit {
            return 0;
        }
        let id = self.sites.len() as u32;
        self.sites.push(json!({"id": id, "op": cx.op, "file": cx.file, "line": pos.0, "col": pos.1, "end_line": end.0, "end_col": end.1,
                               "kind": kind, "header": header}));
        id
    }
    fn new_loop(&mut self, cx: &FnCtx, pos: (usize, usize), header: &str, trip: &Value, public: bool, why: &str, var: Option<String>) -> u32 {
        if !cx.emit {
            return 0;
        }
        let id = self.loops.len() as u32;
        self.loops.push(json!({"id": id, "op": cx.op, "file": cx.file, "line": pos.0, "header": header, "trip": trip, "public": public,
                               "rule": why, "var": var}));
        id
    }
    fn new_cond(&mut self, cx: &FnCtx, pos: (usize, usize), kind: &str, text: &str) -> u32 {
        if !cx.emit {
            return 0;
        }
        let id = self.conds.len() as u32;
        self.conds.push(json!({"id": id, "op": cx.op, "file": cx.file, "line": pos.0, "kind": kind, "text": text}));
        id
    }
    fn new_secret(&mut self, cx: &FnCtx, pos: (usize, usize), text: &str) -> u32 {
        if !cx.emit {
            return 0;
        }
        let id = self.secrets.len() as u32;
        self.secrets.push(json!({"id": id, "op": cx.op, "file": cx.file, "line": pos.0, "text": text}));
        id
    }
    fn note(&mut self, cx: &FnCtx, s: String) {
        if cx.emit && !self.notes.contains(&s) {
            self.notes.push(s);
        }
    }

    // ---------------------------------------------------------------- blocks
    /// statements of a block in a fresh scope; `site`: (kind, header) if the block is a counted site
    pub fn walk_block(&mut self, cx: &mut FnCtx, b: &Block, site: Option<(&str, &str)>, direct_of_loop: bool) -> Vec<Node> {
        cx.push_scope();
        let mut out = vec![];
        if let Some((kind, header)) = site {
            let (pos, anchored) = site_anchor(b);
            let end = end_of(b);
            let kind = if b.stmts.is_empty() { format!("{kind}-empty") } else if !anchored { format!("{kind}-unanchored") } else { kind.to_string() };
            out.push(Node::Site(self.new_site(cx, &kind, pos, end, header)));
        }
        for s in &b.stmts {
            if direct_of_loop {
                if let Stmt::Expr(e, _) = s {
                    cx.direct_stmt = Some(pos_of(e));
                }
            }
            out.extend(self.walk_stmt(cx, s));
            cx.direct_stmt = None;
        }
        cx.pop_scope();
        out
    }

    /// body of a loop / closure: a block (with direct statements) or a single expression
    fn walk_body(&mut self, cx: &mut FnCtx, body: &Expr, kind: &str, header: &str) -> Vec<Node> {
        match body {
            Expr::Block(b) if b.label.is_none() => self.walk_block(cx, &b.block, Some((kind, header)), true),
            _ => {
                let mut out = vec![Node::Site(self.new_site(cx, kind, pos_of(body), end_of(body), header))];
                cx.direct_stmt = Some(pos_of(body));
                out.extend(self.walk_expr(cx, body));
                cx.direct_stmt = None;
                out
            }
        }
    }

    pub fn walk_stmt(&mut self, cx: &mut FnCtx, s: &Stmt) -> Vec<Node> {
        match s {
            Stmt::Local(l) => {
                let mut out = vec![];
                let mut public = false;
                if let Some(init) = &l.init {
                    // let-bound closure = local function
                    if let (Expr::Closure(c), Pat::Ident(pi)) = (strip(&init.expr), &l.pat) {
                        let body = self.walk_closure_fn(cx, c, &pi.ident.to_string());
                        let pubs: Vec<bool> = c.inputs.iter().map(|p| matches!(p, Pat::Type(t) if PRIMS.contains(&squash(&t.ty).as_str()))).collect();
                        cx.closure_pub_params.insert(pi.ident.to_string(), pubs);
                        cx.bind_pat(&l.pat, false);
                        cx.closures.last_mut().unwrap().insert(pi.ident.to_string(), body);
                        return out;
                    }
                    out.extend(self.walk_expr(cx, &init.expr));
                    public = cx.is_pub(&init.expr);
                    // `let a = &mut x…` : alias — writes through `a` are not tracked, so `x` is treated as secret
                    if let Expr::Reference(r) = strip(&init.expr) {
                        if r.mutability.is_some() {
                            public = false;
                        }
                    }
                    if let Some((_, div)) = &init.diverge {
                        // let-else: a branch on the initialiser
                        let id = self.new_cond(cx, pos_of(&init.expr), "let-else", &norm(&init.expr));
                        let arm = self.walk_expr(cx, div);
                        if public {
                            out.push(Node::IfPub { id, t: vec![], e: arm });
                        } else {
                            out.push(Node::MatchSec { id, arms: vec![vec![], arm] });
                        }
                    }
                }
                cx.bind_pat(&l.pat, public);
                // CHOICE-VAR / ITER-VAR bookkeeping
                if let (Some(init), Pat::Ident(pi)) = (&l.init, &l.pat) {
                    let is_choice = self.mentions_choice(cx, &init.expr);
                    let info = if pi.mutability.is_none() && matches!(strip(&init.expr), Expr::MethodCall(_) | Expr::Call(_)) {
                        let (mut tmp, mut pend) = (vec![], vec![]);
                        self.analyse_iter(cx, &init.expr, false, &mut tmp, &mut pend)
                    } else { None };
                    if let Some(b) = cx.lookup(&pi.ident.to_string()) {
                        let id = b.id;
                        if is_choice { cx.choice_vars.insert(id); }
                        if let Some(i) = info { cx.iter_vars.insert(id, i); }
                    }
                }
                // ARRAY-MAP bookkeeping: an immutable binding of an array literal has that literal's length
                if let (Some(init), Pat::Ident(pi)) = (&l.init, &l.pat) {
                    if let (Expr::Array(a), None) = (strip(&init.expr), &pi.mutability) {
                        if let Some(b) = cx.lookup(&pi.ident.to_string()) {
                            let id = b.id;
                            cx.array_lits.insert(id, a.elems.len());
                        }
                    }
                }
                out
            }
            Stmt::Item(syn::Item::Const(c)) => {
                let s = c.ident.span().start();
                let public = cx.is_pub(&c.expr);
                cx.bind(&c.ident.to_string(), (s.line, s.column + 1), false, public);
                vec![]
            }
            Stmt::Item(_) => vec![],
            Stmt::Expr(e, _) => self.walk_expr(cx, e),
            Stmt::Macro(m) => self.walk_macro(cx, &m.mac),
        }
    }

    /// a let-bound closure: analysed once in the defining environment, inlined at each call
    fn walk_closure_fn(&mut self, cx: &mut FnCtx, c: &ExprClosure, name: &str) -> Vec<Node> {
        cx.push_scope();
        for p in &c.inputs {
            // allow-rule CLOSURE-PARAM: a parameter annotated with a primitive integer type is assumed public; every call is checked
            let public = matches!(p, Pat::Type(t) if PRIMS.contains(&squash(&t.ty).as_str()));
            cx.bind_pat(p, public);
        }
        let saved = cx.loops.clone();
        cx.loops.clear();
        cx.depth_loop += 1;
        let header = format!("closure {name} = |{}|", c.inputs.iter().map(|p| norm(p)).collect::<Vec<_>>().join(", "));
        let body = self.walk_body_plain(cx, &c.body, "closure", &header);
        cx.depth_loop -= 1;
        cx.loops = saved;
        cx.pop_scope();
        body
    }

    /// like walk_body but nothing in it is a "direct statement of a loop"
    fn walk_body_plain(&mut self, cx: &mut FnCtx, body: &Expr, kind: &str, header: &str) -> Vec<Node> {
        match body {
            Expr::Block(b) if b.label.is_none() => self.walk_block(cx, &b.block, Some((kind, header)), false),
            _ => {
                let mut out = vec![Node::Site(self.new_site(cx, kind, pos_of(body), end_of(body), header))];
                out.extend(self.walk_expr(cx, body));
                out
            }
        }
    }

    fn walk_macro(&mut self, cx: &mut FnCtx, m: &syn::Macro) -> Vec<Node> {
        let name = path_name(&m.path);
        let last = name.rsplit("::").next().unwrap_or("").to_string();
        let args: Option<Vec<Expr>> = m
            .parse_body_with(syn::punctuated::Punctuated::<Expr, syn::Token![,]>::parse_terminated)
            .ok()
            .map(|p| p.into_iter().collect());
        let wh = self.loc(cx, pos_of(m));
        match args {
            Some(args) => {
                let mut out = vec![];
                let mut all_pub = true;
                for a in &args {
                    out.extend(self.walk_expr(cx, a));
                    all_pub &= cx.is_pub(a);
                }
                if MACRO_ASSERT.contains(&last.as_str()) || last == "matches" || last == "panic" || last == "unreachable" {
                    if !all_pub {
                        let id = self.new_cond(cx, pos_of(m), "macro", &format!("{last}!({})", norm(&m.tokens)));
                        out.push(Node::ExitSec(id));
                    }
                } else if !MACRO_OK.contains(&last.as_str()) {
                    out.push(Node::ExtVartime(format!("{last}! (unanalysed macro)"), wh));
                }
                out
            }
            None => vec![Node::ExtVartime(format!("{last}! (unparsable macro body)"), wh)],
        }
    }

    // ---------------------------------------------------------------- iterators
    /// classify an iterator expression.  `allow_place`: a plain place expression counts as a container (for-loop base, zip arg)
    pub fn analyse_iter<'a>(&mut self, cx: &mut FnCtx, e: &'a Expr, allow_place: bool, nodes: &mut Vec<Node>, pending: &mut Vec<Pending<'a>>) -> Option<IterInfo> {
        match e {
            Expr::Paren(p) => self.analyse_iter(cx, &p.expr, allow_place, nodes, pending),
            Expr::Group(g) => self.analyse_iter(cx, &g.expr, allow_place, nodes, pending),
            Expr::Range(r) => {
                nodes.extend(r.start.as_ref().map(|s| self.walk_expr(cx, s)).unwrap_or_default());
                nodes.extend(r.end.as_ref().map(|s| self.walk_expr(cx, s)).unwrap_or_default());
                let public = cx.is_pub(e) && r.end.is_some();
                Some(IterInfo {
                    public,
                    elem_public: public,
                    enum_outer: false,
                    is_range: true,
                    trip: json!({"kind": "range", "start": r.start.as_ref().map(|s| norm(s)).unwrap_or("0".into()),
                                 "end": r.end.as_ref().map(|s| norm(s)), "incl": matches!(r.limits, syn::RangeLimits::Closed(_))}),
                    why: "RANGE: literal/const/public bounds".into(),
                })
            }
            Expr::MethodCall(m) => {
                let name = m.method.to_string();
                let n = name.as_str();
                if ITER_SOURCES.contains(&n) {
                    // a source applied to an iterator (e.g. `(0..n).into_iter()`) keeps it; applied to a container: its length
                    if let Some(i) = self.analyse_iter(cx, &m.receiver, false, nodes, pending) {
                        return Some(i);
                    }
                    nodes.extend(self.walk_expr(cx, &m.receiver));
                    let mut public = true;
                    for a in &m.args {
                        nodes.extend(self.walk_expr(cx, a));
                        public &= cx.is_pub(a);
                    }
                    let mutating = n.ends_with("_mut") || n == "drain";
                    if mutating {
                        cx.taint_root(&m.receiver);
                    }
                    return Some(IterInfo {
                        public,
                        elem_public: cx.is_pub(&m.receiver) && !mutating,
                        enum_outer: false,
                        is_range: false,
                        trip: json!({"kind": "len", "of": norm(&m.receiver), "via": n, "args": m.args.iter().map(|a| norm(a)).collect::<Vec<_>>()}),
                        why: "LEN: length of an array/slice/Vec is a public size".into(),
                    });
                }
                if ITER_ADAPT_SAME.contains(&n) {
                    let mut i = self.analyse_iter(cx, &m.receiver, false, nodes, pending)?;
                    i.enum_outer = n == "enumerate";
                    if n == "rev" || n == "enumerate" {
                        i.is_range = false || (n == "rev" && i.is_range);
                    }
                    return Some(i);
                }
                if ITER_ADAPT_N.contains(&n) {
                    let mut i = self.analyse_iter(cx, &m.receiver, false, nodes, pending)?;
                    for a in &m.args {
                        nodes.extend(self.walk_expr(cx, a));
                        if !cx.is_pub(a) {
                            i.public = false;
                            i.why = format!("{n}(n) with secret n");
                        }
                    }
                    i.trip = json!({"kind": n, "n": m.args.first().map(|a| norm(a)), "of": i.trip});
                    i.enum_outer = false;
                    i.is_range = false;
                    return Some(i);
                }
                if n == "zip" || n == "chain" {
                    let mut i = self.analyse_iter(cx, &m.receiver, false, nodes, pending)?;
                    let a = m.args.first()?;
                    let j = match self.analyse_iter(cx, a, true, nodes, pending) {
                        Some(j) => j,
                        None => {
                            nodes.extend(self.walk_expr(cx, a));
                            IterInfo { public: false, elem_public: false, enum_outer: false, is_range: false, trip: json!({"kind": "unknown"}), why: "zip with unknown iterator".into() }
                        }
                    };
                    i.public &= j.public;
                    i.elem_public &= j.elem_public;
                    i.enum_outer = false;
                    i.is_range = false;
                    i.trip = json!({"kind": n, "a": i.trip, "b": j.trip});
                    return Some(i);
                }
                if ITER_LAZY_CLOSURE.contains(&n) {
                    if let Some(Expr::Closure(c)) = m.args.first().map(strip) {
                        let mut i = self.analyse_iter(cx, &m.receiver, false, nodes, pending)?;
                        pending.push(Pending { cl: c, elem_public: i.elem_public, enum_outer: i.enum_outer, is_range: i.is_range, method: name.clone() });
                        i.elem_public = false;
                        i.enum_outer = false;
                        i.is_range = false;
                        return Some(i);
                    }
                    return None;
                }
                if ITER_DATA_DEP.contains(&n) {
                    let mut i = self.analyse_iter(cx, &m.receiver, false, nodes, pending)?;
                    if let Some(Expr::Closure(c)) = m.args.first().map(strip) {
                        pending.push(Pending { cl: c, elem_public: i.elem_public, enum_outer: i.enum_outer, is_range: i.is_range, method: name.clone() });
                    }
                    i.public = false;
                    i.why = format!("{n}: number of items depends on the data");
                    i.elem_public = false;
                    i.enum_outer = false;
                    i.is_range = false;
                    i.trip = json!({"kind": "unknown"});
                    return Some(i);
                }
                None
            }
            Expr::Call(c) => {
                // a repo function declared `returns_iter`
                let fname = match strip(&c.func) {
                    Expr::Path(p) => path_name(&p.path),
                    _ => return None,
                };
                let op = self.resolve_path_call(cx, &fname)?;
                let skel = self.done.get(&op)?;
                let info = skel.tail_iter.clone()?;
                nodes.extend(self.walk_expr(cx, e));
                Some(IterInfo { elem_public: false, enum_outer: false, is_range: false, ..info })
            }
            Expr::Reference(r) if allow_place => {
                if r.mutability.is_some() {
                    cx.taint_root(&r.expr);
                }
                nodes.extend(self.walk_expr(cx, &r.expr));
                Some(IterInfo {
                    public: true,
                    elem_public: cx.is_pub(&r.expr) && r.mutability.is_none(),
                    enum_outer: false,
                    is_range: false,
                    trip: json!({"kind": "len", "of": norm(&r.expr), "via": "into_iter"}),
                    why: "LEN: length of an array/slice/Vec is a public size".into(),
                })
            }
            Expr::Path(p) if p.path.get_ident().and_then(|i| cx.lookup(&i.to_string())).map_or(false, |b| cx.iter_vars.contains_key(&b.id)) => {
                // ITER-VAR: an immutable binding of an iterator expression analysed at its `let`
                let id = p.path.get_ident().and_then(|i| cx.lookup(&i.to_string())).map(|b| b.id)?;
                cx.iter_vars.get(&id).cloned()
            }
            Expr::Path(_) | Expr::Field(_) | Expr::Index(_) if allow_place => {
                nodes.extend(self.walk_expr(cx, e));
                Some(IterInfo {
                    public: true,
                    elem_public: cx.is_pub(e),
                    enum_outer: false,
                    is_range: false,
                    trip: json!({"kind": "len", "of": norm(e), "via": "into_iter"}),
                    why: "LEN: length of an array/slice/Vec is a public size".into(),
                })
            }
            _ => None,
        }
    }

    /// bind the parameters of an iterator closure / for-pattern; returns the index binding if there is one
    fn bind_iter_pat(&mut self, cx: &mut FnCtx, p: &Pat, chain_public: bool, elem_public: bool, enum_outer: bool, is_range: bool) -> Option<(BindId, String)> {
        let p = match p {
            Pat::Type(t) => &*t.pat,
            Pat::Paren(pp) => &*pp.pat,
            _ => p,
        };
        if enum_outer {
            if let Pat::Tuple(t) = p {
                if t.elems.len() == 2 {
                    let mut idx = None;
                    if let Pat::Ident(i) = &t.elems[0] {
                        let s = i.ident.span().start();
                        cx.bind(&i.ident.to_string(), (s.line, s.column + 1), i.mutability.is_some(), chain_public);
                        if chain_public {
                            idx = Some(((s.line, s.column + 1), i.ident.to_string()));
                        }
                    } else {
                        cx.bind_pat(&t.elems[0], chain_public);
                    }
                    cx.bind_pat(&t.elems[1], elem_public);
                    return idx;
                }
            }
            cx.bind_pat(p, false);
            return None;
        }
        if is_range {
            if let Pat::Ident(i) = p {
                let s = i.ident.span().start();
                cx.bind(&i.ident.to_string(), (s.line, s.column + 1), i.mutability.is_some(), chain_public);
                return if chain_public { Some(((s.line, s.column + 1), i.ident.to_string())) } else { None };
            }
        }
        cx.bind_pat(p, elem_public && chain_public);
        None
    }

    /// a closure executed once per item of an iterator chain
    fn closure_loop(&mut self, cx: &mut FnCtx, c: &ExprClosure, public: bool, elem_public: bool, enum_outer: bool, is_range: bool,
                    trip: &Value, why: &str, method: &str, n_acc: usize) -> Node {
        cx.push_scope();
        // fold: first parameter is the accumulator (secret unless proven otherwise — not attempted)
        for p in c.inputs.iter().take(n_acc) {
            cx.bind_pat(p, false);
        }
        let mut index = None;
        for p in c.inputs.iter().skip(n_acc) {
            index = self.bind_iter_pat(cx, p, public, elem_public, enum_outer, is_range);
        }
        let header = format!(".{method}(|{}|)", c.inputs.iter().map(|p| norm(p)).collect::<Vec<_>>().join(", "));
        let id = self.new_loop(cx, pos_of(c), &header, trip, public, why, index.as_ref().map(|x| x.1.clone()));
        let body_pos = match &*c.body {
            Expr::Block(b) => pos_of(&b.block),
            b => pos_of(b),
        };
        cx.loops.push(LoopFrame { id, index: index.map(|x| x.0), body_pos, public });
        cx.depth_loop += 1;
        let body = self.walk_body(cx, &c.body, "closure-body", &header);
        cx.depth_loop -= 1;
        cx.loops.pop();
        cx.pop_scope();
        if public { Node::LoopPub { id, body } } else { Node::LoopSec { id, body } }
    }

    pub fn flush_pending(&mut self, cx: &mut FnCtx, pending: Vec<Pending>, info: &IterInfo, out: &mut Vec<Node>) {
        for p in pending {
            let n = self.closure_loop(cx, p.cl, info.public, p.elem_public, p.enum_outer, p.is_range, &info.trip, &info.why, &p.method, 0);
            out.push(n);
        }
    }

    // ---------------------------------------------------------------- calls
    /// resolve `f` / `Type::f` / `Self::f` to an analysed op (analysing it on demand)
    pub fn resolve_path_call(&mut self, cx: &FnCtx, fname: &str) -> Option<String> {
        let segs: Vec<&str> = fname.split("::").collect();
        let last = *segs.last()?;
        let ty = if segs.len() >= 2 { Some(segs[segs.len() - 2]) } else { None };
        let ty = match ty {
            Some("Self") => cx.impl_ty.clone(),
            Some(t) => Some(t.to_string()),
            None => None,
        };
        let key = match &ty {
            Some(t) => format!("{t}::{last}"),
            None => last.to_string(),
        };
        let mut found = None;
        for f in &self.cfg_fns {
            if f.callee_as.iter().any(|c| *c == key) {
                found = Some(f.op.clone());
            }
        }
        if found.is_none() {
            // automatic: a repo function reached by an explicit path
            let is_repo = match &ty {
                Some(t) => self.repo_types.contains(t) && self.repo.iter().any(|r| r.impl_ty.as_deref() == Some(t) && r.name == last),
                None => self.repo.iter().filter(|r| r.impl_ty.is_none() && r.name == last).count() == 1
                    && self.cfg_fns.iter().all(|f| f.auto || !(f.impl_ty.is_none() && f.fn_name == last)),
            };
            if is_repo {
                found = Some(self.auto_fn(ty.as_deref(), last));
            }
        }
        let op = found?;
        match self.analyse(&op) {
            Ok(()) => Some(op),
            Err(e) => {
                self.errors.push(e);
                None
            }
        }
    }

    fn resolve_method_call(&mut self, cx: &FnCtx, m: &ExprMethodCall) -> Option<String> {
        let name = m.method.to_string();
        let on_self = matches!(strip(&m.receiver), Expr::Path(p) if p.path.is_ident("self"));
        let mut found = None;
        for f in &self.cfg_fns {
            if f.callee_as.iter().any(|c| *c == format!(".{name}") || (on_self && *c == format!("self.{name}"))) {
                found = Some(f.op.clone());
            }
        }
        if found.is_none() && on_self {
            let cands: Vec<Option<String>> = self.repo.iter().filter(|r| r.name == name && r.impl_ty.is_some() && r.has_self).map(|r| r.impl_ty.clone()).collect();
            let own = cands.iter().any(|t| *t == cx.impl_ty);
            if own {
                // SELF-INHERIT: a helper method of the same type called on the caller's own `self` sees the same public fields
                let mut inherit: Vec<String> = cx.public_paths.iter().filter(|p| p.as_str() == "self" || p.starts_with("self.")).cloned().collect();
                inherit.sort();
                found = Some(self.auto_fn_pub(cx.impl_ty.as_deref(), &name, inherit));
            } else if cands.len() == 1 {
                found = Some(self.auto_fn(cands[0].as_deref(), &name));
            }
        }
        let op = found?;
        match self.analyse(&op) {
            Ok(()) => Some(op),
            Err(e) => {
                self.errors.push(e);
                None
            }
        }
    }

    /// check the arguments passed for the callee's PUBLIC parameters
    fn sec_arg_check(&mut self, cx: &FnCtx, op: &str, recv: Option<&Expr>, args: &[&Expr], wh: &str, out: &mut Vec<Node>) {
        let Some(sk) = self.done.get(op) else { return };
        let params = sk.params.clone();
        let publics = sk.public.clone();
        for p in publics {
            if let Some(rest) = p.strip_prefix("self") {
                let ok = match recv {
                    Some(r) => {
                        if let Some(t) = path_text(r) {
                            let full = format!("{t}{rest}");
                            let parts: Vec<&str> = full.split('.').collect();
                            (1..=parts.len()).any(|k| cx.public_paths.contains(&parts[..k].join("."))) || cx.is_pub(r)
                        } else {
                            cx.is_pub(r)
                        }
                    }
                    None => false,
                };
                if !ok {
                    out.push(Node::SecArg(format!("{op}: receiver field `{p}` is assumed public by the callee"), wh.to_string()));
                }
                continue;
            }
            let root = p.split('.').next().unwrap_or("");
            if let Some(ix) = params.iter().position(|q| q == root) {
                if let Some(a) = args.get(ix) {
                    if !cx.is_pub(a) {
                        out.push(Node::SecArg(format!("{op}: secret argument for public parameter `{p}`"), wh.to_string()));
                    }
                }
            }
        }
    }

    fn vartime_name(&self, name: &str) -> bool {
        self.vt_suffixes.iter().any(|s| name.ends_with(s.as_str())) || self.vt_names.contains(name)
    }

    fn taint_mut_args(&mut self, cx: &mut FnCtx, any_secret: bool, args: &[&Expr]) {
        for a in args {
            if let Expr::Reference(r) = strip(a) {
                if r.mutability.is_some() {
                    // allow-rule conservative: anything lent mutably is treated as written with secret data
                    let _ = any_secret;
                    cx.taint_root(&r.expr);
                }
            }
        }
    }

    // ---------------------------------------------------------------- expressions
    pub fn walk_expr(&mut self, cx: &mut FnCtx, e: &Expr) -> Vec<Node> {
        let mut out = vec![];
        match e {
            Expr::Lit(_) | Expr::Path(_) | Expr::Infer(_) => {}
            Expr::Continue(_) | Expr::Break(_) => {
                if let Expr::Break(b) = e {
                    if let Some(x) = &b.expr {
                        out.extend(self.walk_expr(cx, x));
                    }
                }
                let id = self.new_cond(cx, pos_of(e), "exit", &norm(e));
                out.push(Node::ExitSec(id));
            }
            Expr::Paren(p) => return self.walk_expr(cx, &p.expr),
            Expr::Group(g) => return self.walk_expr(cx, &g.expr),
            Expr::Array(a) => a.elems.iter().for_each(|x| out.extend(self.walk_expr(cx, x))),
            Expr::Tuple(a) => a.elems.iter().for_each(|x| out.extend(self.walk_expr(cx, x))),
            Expr::Repeat(r) => {
                out.extend(self.walk_expr(cx, &r.expr));
                out.extend(self.walk_expr(cx, &r.len));
            }
            Expr::Struct(s) => {
                s.fields.iter().for_each(|f| out.extend(self.walk_expr(cx, &f.expr)));
                if let Some(r) = &s.rest {
                    out.extend(self.walk_expr(cx, r));
                }
            }
            Expr::Reference(r) => {
                if r.mutability.is_some() {
                    cx.taint_root(&r.expr);
                }
                out.extend(self.walk_expr(cx, &r.expr));
            }
            Expr::Unary(u) => out.extend(self.walk_expr(cx, &u.expr)),
            Expr::Cast(c) => out.extend(self.walk_expr(cx, &c.expr)),
            Expr::Field(f) => out.extend(self.walk_expr(cx, &f.base)),
            Expr::Index(i) => {
                out.extend(self.walk_expr(cx, &i.expr));
                out.extend(self.walk_expr(cx, &i.index));
                if !cx.is_pub(&i.index) {
                    let s = format!("secret-dependent index (memory access pattern, not control flow): {} `{}`", self.loc(cx, pos_of(e)), norm(e));
                    self.note(cx, s);
                }
            }
            Expr::Range(r) => {
                if let Some(s) = &r.start {
                    out.extend(self.walk_expr(cx, s));
                }
                if let Some(s) = &r.end {
                    out.extend(self.walk_expr(cx, s));
                }
            }
            Expr::Assign(a) => {
                out.extend(self.walk_expr(cx, &a.right));
                out.extend(self.walk_expr(cx, &a.left));
                let idx_secret = Self::place_has_secret_index(cx, &a.left);
                if !cx.is_pub(&a.right) || idx_secret || cx.depth_sec > 0 {
                    cx.taint_root(&a.left);
                }
            }
            Expr::Binary(b) => {
                let lp = cx.is_pub(&b.left);
                let rp = cx.is_pub(&b.right);
                match b.op {
                    BinOp::And(_) | BinOp::Or(_) => {
                        out.extend(self.walk_expr(cx, &b.left));
                        let r = self.walk_expr(cx, &b.right);
                        if !lp || !rp {
                            let id = self.new_cond(cx, pos_of(e), "short-circuit", &norm(e));
                            out.push(Node::IfSec { id, t: r, e: vec![] });
                        } else if !r.is_empty() {
                            let id = self.new_cond(cx, pos_of(e), "short-circuit-pub", &norm(e));
                            out.push(Node::IfPub { id, t: r, e: vec![] });
                        }
                    }
                    BinOp::Eq(_) | BinOp::Ne(_) | BinOp::Lt(_) | BinOp::Le(_) | BinOp::Gt(_) | BinOp::Ge(_) => {
                        out.extend(self.walk_expr(cx, &b.left));
                        out.extend(self.walk_expr(cx, &b.right));
                        if (!lp || !rp) && !is_prim_cast(&b.left) && !is_prim_cast(&b.right) {
                            // allow-rule PRIMCMP: a comparison with a literal or a primitive cast is a primitive (branch-free) comparison
                            out.push(Node::ExtVartime(format!("comparison `{}` on secret operands of unknown (non-primitive?) type", norm(&b.op)), self.loc(cx, pos_of(e))));
                        }
                    }
                    _ => {
                        out.extend(self.walk_expr(cx, &b.left));
                        out.extend(self.walk_expr(cx, &b.right));
                        let is_assign = matches!(b.op, BinOp::AddAssign(_) | BinOp::SubAssign(_) | BinOp::MulAssign(_) | BinOp::DivAssign(_)
                            | BinOp::RemAssign(_) | BinOp::BitXorAssign(_) | BinOp::BitAndAssign(_) | BinOp::BitOrAssign(_) | BinOp::ShlAssign(_) | BinOp::ShrAssign(_));
                        if is_assign && (!rp || Self::place_has_secret_index(cx, &b.left) || cx.depth_sec > 0) {
                            cx.taint_root(&b.left);
                        }
                        if matches!(b.op, BinOp::Div(_) | BinOp::Rem(_) | BinOp::DivAssign(_) | BinOp::RemAssign(_)) && (!lp || !rp) {
                            out.push(Node::Ext(format!("operator {} (secret operand)", norm(&b.op))));
                        }
                    }
                }
            }
            Expr::Block(b) => out.extend(self.walk_block(cx, &b.block, None, false)),
            Expr::Unsafe(b) => out.extend(self.walk_block(cx, &b.block, None, false)),
            Expr::Const(b) => out.extend(self.walk_block(cx, &b.block, None, false)),
            Expr::Let(l) => out.extend(self.walk_expr(cx, &l.expr)),
            Expr::Macro(m) => out.extend(self.walk_macro(cx, &m.mac)),
            Expr::If(i) => out.extend(self.walk_if(cx, i)),
            Expr::Match(m) => {
                out.extend(self.walk_expr(cx, &m.expr));
                let public = cx.is_pub(&m.expr);
                let id = self.new_cond(cx, pos_of(e), "match", &norm(&m.expr));
                let mut arms = vec![];
                if !public {
                    cx.depth_sec += 1;
                }
                for a in &m.arms {
                    cx.push_scope();
                    cx.bind_pat(&a.pat, public);
                    let mut n = vec![Node::Site(self.new_site(cx, "arm", pos_of(&*a.body), end_of(&*a.body), &format!("match {} {{ {} => }}", norm(&m.expr), norm(&a.pat))))];
                    if let Some((_, g)) = &a.guard {
                        n.extend(self.walk_expr(cx, g));
                        if !cx.is_pub(g) && public {
                            let gid = self.new_cond(cx, pos_of(&**g), "match-guard", &norm(g));
                            n.push(Node::IfSec { id: gid, t: vec![], e: vec![] });
                        }
                    }
                    n.extend(self.walk_expr(cx, &a.body));
                    cx.pop_scope();
                    arms.push(n);
                }
                if !public {
                    cx.depth_sec -= 1;
                    out.push(Node::MatchSec { id, arms });
                } else {
                    // public scrutinee: chain of public branches
                    let mut chain: Vec<Node> = vec![];
                    for a in arms.into_iter().rev() {
                        chain = vec![Node::IfPub { id, t: a, e: chain }];
                    }
                    out.extend(chain);
                }
            }
            Expr::ForLoop(f) => {
                let mut pending = vec![];
                let info = self.analyse_iter(cx, &f.expr, true, &mut out, &mut pending);
                let info = match info {
                    Some(i) => i,
                    None => {
                        out.extend(self.walk_expr(cx, &f.expr));
                        IterInfo { public: false, elem_public: false, enum_outer: false, is_range: false, trip: json!({"kind": "unknown"}),
                                   why: "iterator expression not recognised as public-length".into() }
                    }
                };
                self.flush_pending(cx, pending, &info, &mut out);
                cx.push_scope();
                let index = self.bind_iter_pat(cx, &f.pat, info.public, info.elem_public, info.enum_outer, info.is_range);
                let header = format!("for {} in {}", norm(&f.pat), norm(&f.expr));
                let id = self.new_loop(cx, pos_of(e), &header, &info.trip, info.public, &info.why, index.as_ref().map(|x| x.1.clone()));
                cx.loops.push(LoopFrame { id, index: index.map(|x| x.0), body_pos: pos_of(&f.body), public: info.public });
                cx.depth_loop += 1;
                if !info.public {
                    cx.depth_sec += 1;
                }
                let body = self.walk_block(cx, &f.body, Some(("loop-body", &header)), true);
                if !info.public {
                    cx.depth_sec -= 1;
                }
                cx.depth_loop -= 1;
                cx.loops.pop();
                cx.pop_scope();
                out.push(if info.public { Node::LoopPub { id, body } } else { Node::LoopSec { id, body } });
            }
            Expr::While(w) => {
                let is_let = matches!(strip(&w.cond), Expr::Let(_));
                let c = self.walk_expr(cx, &w.cond);
                let public = !is_let && cx.is_pub(&w.cond);
                let header = format!("while {}", norm(&w.cond));
                let id = self.new_loop(cx, pos_of(e), &header, &json!({"kind": "unknown"}), public, "WHILE: public condition", None);
                cx.loops.push(LoopFrame { id, index: None, body_pos: pos_of(&w.body), public });
                cx.depth_loop += 1;
                if !public {
                    cx.depth_sec += 1;
                }
                cx.push_scope();
                if let Expr::Let(l) = strip(&w.cond) {
                    cx.bind_pat(&l.pat, false);
                }
                let mut body = c;
                body.extend(self.walk_block(cx, &w.body, Some(("loop-body", &header)), false));
                cx.pop_scope();
                if !public {
                    cx.depth_sec -= 1;
                }
                cx.depth_loop -= 1;
                cx.loops.pop();
                out.push(if public { Node::LoopPub { id, body } } else { Node::WhileSec { id, body } });
            }
            Expr::Loop(l) => {
                let id = self.new_loop(cx, pos_of(e), "loop", &json!({"kind": "unknown"}), false, "loop: exits are data dependent", None);
                cx.depth_loop += 1;
                cx.depth_sec += 1;
                let body = self.walk_block(cx, &l.body, Some(("loop-body", "loop")), false);
                cx.depth_sec -= 1;
                cx.depth_loop -= 1;
                out.push(Node::WhileSec { id, body });
            }
            Expr::Try(t) => {
                let inner = strip(&t.expr);
                let mut listed = None;
                // ABORT-TRY: `?` on the result of another LISTED operation, or (ABORT-TRY-HELPER) of an analysed repo function
                // whose own skeleton contains an abort point: the helper's declassified consistency-check exit propagated
                match inner {
                    Expr::Call(c) => {
                        if let Expr::Path(p) = strip(&c.func) {
                            self.pending_arg_pub = Some(c.args.iter().map(|a| cx.is_pub(a)).collect());
                            let r = self.resolve_path_call(cx, &path_name(&p.path));
                            self.pending_arg_pub = None;
                            if let Some(op) = r {
                                if self.done.get(&op).map_or(false, |s| s.listed) || self.skel_has_abort(&op, 0) {
                                    listed = Some(op);
                                }
                            }
                        }
                    }
                    Expr::MethodCall(m) => {
                        self.pending_arg_pub = Some(m.args.iter().map(|a| cx.is_pub(a)).collect());
                        let r = self.resolve_method_call(cx, m);
                        self.pending_arg_pub = None;
                        if let Some(op) = r {
                            if self.done.get(&op).map_or(false, |s| s.listed) || self.skel_has_abort(&op, 0) {
                                listed = Some(op);
                            }
                        }
                    }
                    _ => {}
                }
                out.extend(self.walk_expr(cx, &t.expr));
                if let Some(op) = listed {
                    // allow-rule ABORT-TRY: `?` on the result of another LISTED operation = its declassified abort propagated
                    let id = self.new_cond(cx, pos_of(e), "abort-try", &format!("{op}(..)?"));
                    out.push(Node::AbortIf { id, body: vec![] });
                } else if !cx.is_pub(&t.expr) {
                    let id = self.new_cond(cx, pos_of(e), "try", &norm(e));
                    out.push(Node::ExitSec(id));
                }
            }
            Expr::Return(r) => {
                if let Some(x) = &r.expr {
                    out.extend(self.walk_expr(cx, x));
                }
                if cx.allow_return_at == Some(pos_of(e)) && cx.depth_loop == 0 && cx.depth_sec == 0 {
                    // GUARD-RETURN: modelled by the enclosing ifPub
                } else if cx.depth_loop > 0 || cx.depth_sec > 0 || cx.depth_branch > 0 {
                    let id = self.new_cond(cx, pos_of(e), "early-return", &norm(e));
                    out.push(Node::ExitSec(id));
                }
            }
            Expr::Closure(c) => {
                // a closure in an unrecognised position: how often it runs is unknown ⇒ rejected
                let header = format!("closure |{}| (unknown caller)", c.inputs.iter().map(|p| norm(p)).collect::<Vec<_>>().join(", "));
                let n = self.closure_loop(cx, c, false, false, false, false, &json!({"kind": "unknown"}), "closure passed to an unanalysed callee", &header, 0);
                out.push(n);
            }
            Expr::Call(c) => out.extend(self.walk_call(cx, e, c)),
            Expr::MethodCall(m) => out.extend(self.walk_method(cx, e, m)),
            Expr::Async(_) | Expr::Await(_) | Expr::TryBlock(_) | Expr::Yield(_) | Expr::Verbatim(_) => {
                out.push(Node::ExtVartime("unsupported expression kind".into(), self.loc(cx, pos_of(e))));
            }
            _ => {
                out.push(Node::ExtVartime("unsupported expression kind".into(), self.loc(cx, pos_of(e))));
            }
        }
        out
    }

    fn place_has_secret_index(cx: &FnCtx, e: &Expr) -> bool {
        match e {
            Expr::Index(i) => !cx.is_pub(&i.index) || Self::place_has_secret_index(cx, &i.expr),
            Expr::Field(f) => Self::place_has_secret_index(cx, &f.base),
            Expr::Paren(p) => Self::place_has_secret_index(cx, &p.expr),
            Expr::Unary(u) => Self::place_has_secret_index(cx, &u.expr),
            _ => false,
        }
    }

    /// the statements of a FUNCTION body.  allow-rule GUARD-RETURN: a top-level `if <public cond> { ..; return X; }` without else
    /// is modelled exactly: `ifPub c {then} {rest of the function}` — the early return is public control flow.
    pub fn walk_fn_stmts(&mut self, cx: &mut FnCtx, stmts: &[Stmt]) -> Vec<Node> {
        let mut out = vec![];
        for (k, s) in stmts.iter().enumerate() {
            if let Stmt::Expr(Expr::If(i), _) = s {
                let cond = strip(&i.cond);
                let last_ret = match i.then_branch.stmts.last() {
                    Some(Stmt::Expr(r @ Expr::Return(_), _)) => Some(pos_of(r)),
                    _ => None,
                };
                if let (None, Some(rpos), false) = (&i.else_branch, last_ret, matches!(cond, Expr::Let(_))) {
                    if cx.is_pub(cond) && !self.is_abort_cond(cx, cond) && cx.depth_loop == 0 && cx.depth_sec == 0 && cx.depth_branch == 0 {
                        let cond_txt = norm(cond);
                        let header = format!("if {cond_txt}");
                        out.extend(self.walk_expr(cx, cond));
                        let id = self.new_cond(cx, pos_of(i), "if-public (guard return)", &cond_txt);
                        cx.depth_branch += 1;
                        cx.allow_return_at = Some(rpos);
                        let t = self.walk_block(cx, &i.then_branch, Some(("then", &header)), false);
                        cx.allow_return_at = None;
                        cx.depth_branch -= 1;
                        let e = self.walk_fn_stmts(cx, &stmts[k + 1..]);
                        out.push(Node::IfPub { id, t, e });
                        return out;
                    }
                }
            }
            out.extend(self.walk_stmt(cx, s));
        }
        out
    }

    // ---------------------------------------------------------------- if
    fn walk_if(&mut self, cx: &mut FnCtx, i: &ExprIf) -> Vec<Node> {
        let mut out = vec![];
        let direct = cx.direct_stmt == Some(pos_of(i));
        cx.direct_stmt = None;
        let cond = strip(&i.cond);
        let cond_txt = norm(cond);
        let header = format!("if {cond_txt}");

        // (1) declassified consistency check: `if <.. ct_ne/ct_eq ..>.into() { return Err(..) }`
        if i.else_branch.is_none() && self.is_abort_cond(cx, cond) && Self::is_return_err_block(&i.then_branch) {
            out.extend(self.walk_expr(cx, cond));
            let id = self.new_cond(cx, pos_of(i), "abort", &cond_txt);
            let site = self.new_site(cx, "abort-body", i.then_branch.stmts.first().map(|s| pos_of(s)).unwrap_or(pos_of(&i.then_branch)), end_of(&i.then_branch), &header);
            out.push(Node::AbortIf { id, body: vec![Node::Site(site)] });
            return out;
        }

        // if-let
        if let Expr::Let(l) = cond {
            out.extend(self.walk_expr(cx, &l.expr));
            let public = cx.is_pub(&l.expr);
            let id = self.new_cond(cx, pos_of(i), "if-let", &cond_txt);
            if !public {
                cx.depth_sec += 1;
            }
            cx.depth_branch += 1;
            cx.push_scope();
            cx.bind_pat(&l.pat, public);
            let t = self.walk_block(cx, &i.then_branch, Some(("then", &header)), false);
            cx.pop_scope();
            let e = self.walk_else(cx, i, &header);
            cx.depth_branch -= 1;
            if !public {
                cx.depth_sec -= 1;
                out.push(Node::MatchSec { id, arms: vec![t, e] });
            } else {
                out.push(Node::IfPub { id, t, e });
            }
            return out;
        }

        // (2) one-hot: `if j == <secret> {A} else {B}` directly in the body of the public loop over j
        if direct {
            if let Some(fr) = cx.loops.last().cloned() {
                if let (true, Some(ix), Expr::Binary(b)) = (fr.public, fr.index, cond) {
                    let (is_eq, is_ne) = (matches!(b.op, BinOp::Eq(_)), matches!(b.op, BinOp::Ne(_)));
                    if is_eq || is_ne {
                        let is_idx = |x: &Expr| -> Option<String> {
                            if let Expr::Path(p) = strip_all(x) {
                                if p.path.segments.len() == 1 {
                                    let n = p.path.segments[0].ident.to_string();
                                    if cx.lookup(&n).map(|b| b.id) == Some(ix) {
                                        return Some(n);
                                    }
                                }
                            }
                            None
                        };
                        let pick = if let Some(n) = is_idx(&b.left) { Some((n, &*b.right)) } else if let Some(n) = is_idx(&b.right) { Some((n, &*b.left)) } else { None };
                        if let Some((jname, sec)) = pick {
                            if !cx.is_pub(sec) && !FnCtx::mentions(sec, &jname) {
                                let pre = self.walk_expr(cx, sec);
                                cx.depth_sec += 1;
                                cx.depth_branch += 1;
                                let t = self.walk_block(cx, &i.then_branch, Some(("then", &header)), false);
                                let e = self.walk_else(cx, i, &header);
                                cx.depth_branch -= 1;
                                cx.depth_sec -= 1;
                                let done = &self.done;
                                let call_ok = |op: &str| done.get(op).map_or(false, |s| s.straight);
                                if node::straight(&t, &call_ok) && node::straight(&e, &call_ok) && node::straight(&pre, &call_ok) {
                                    // allow-rule ONEHOT
                                    let id = self.new_cond(cx, pos_of(i), "one-hot", &cond_txt);
                                    let k = self.new_secret(cx, pos_of(sec), &norm(sec));
                                    out.extend(pre);
                                    let (t, e) = if is_eq { (t, e) } else { (e, t) };
                                    out.push(Node::OneHot { id, l: fr.id, k, t, e });
                                } else {
                                    let id = self.new_cond(cx, pos_of(i), "if-secret (one-hot shape but arms not straight-line)", &cond_txt);
                                    out.extend(pre);
                                    out.push(Node::IfSec { id, t, e });
                                }
                                return out;
                            }
                        }
                    }
                }
            }
        }

        // (3) public / (4) secret
        out.extend(self.walk_expr(cx, cond));
        let public = cx.is_pub(cond);
        let id = self.new_cond(cx, pos_of(i), if public { "if-public" } else { "if-secret" }, &cond_txt);
        if !public {
            cx.depth_sec += 1;
        }
        cx.depth_branch += 1;
        let t = self.walk_block(cx, &i.then_branch, Some(("then", &header)), false);
        let e = self.walk_else(cx, i, &header);
        cx.depth_branch -= 1;
        if !public {
            cx.depth_sec -= 1;
        }
        out.push(if public { Node::IfPub { id, t, e } } else { Node::IfSec { id, t, e } });
        out
    }

    fn walk_else(&mut self, cx: &mut FnCtx, i: &ExprIf, header: &str) -> Vec<Node> {
        match &i.else_branch {
            None => vec![],
            Some((_, e)) => match &**e {
                Expr::Block(b) => self.walk_block(cx, &b.block, Some(("else", &format!("{header} else"))), false),
                other => self.walk_expr(cx, other), // else if …
            },
        }
    }

    fn is_abort_cond(&self, cx: &FnCtx, c: &Expr) -> bool {
        // `<X>.into()` or `bool::from(<X>)` where X calls ct_ne / ct_eq
        let inner = match strip(c) {
            Expr::MethodCall(m) if m.method == "into" && m.args.is_empty() => &*m.receiver,
            Expr::Call(call) if squash(&call.func) == "bool::from" && call.args.len() == 1 => &call.args[0],
            _ => return false,
        };
        self.mentions_choice(cx, inner)
    }

    /// the expression calls ct_eq / ct_ne (ops.json `abort_predicates`) or mentions a CHOICE-VAR
    fn mentions_choice(&self, cx: &FnCtx, e: &Expr) -> bool {
        let t = norm(e);
        t.split(|ch: char| !(ch.is_alphanumeric() || ch == '_')).any(|w| {
            self.abort_preds.iter().any(|p| w == p) || cx.lookup(w).map_or(false, |b| cx.choice_vars.contains(&b.id))
        })
    }

    fn is_return_err_block(b: &Block) -> bool {
        if b.stmts.len() != 1 {
            return false;
        }
        let e = match &b.stmts[0] {
            Stmt::Expr(e, _) => e,
            _ => return false,
        };
        if let Expr::Return(r) = e {
            if let Some(x) = &r.expr {
                if let Expr::Call(c) = strip(x) {
                    return squash(&c.func) == "Err";
                }
            }
        }
        false
    }

    // ---------------------------------------------------------------- calls
    fn walk_call(&mut self, cx: &mut FnCtx, e: &Expr, c: &syn::ExprCall) -> Vec<Node> {
        let mut out = vec![];
        let wh = self.loc(cx, pos_of(e));
        let fname = match strip(&c.func) {
            Expr::Path(p) => path_name(&p.path),
            other => {
                out.extend(self.walk_expr(cx, other));
                "<expr>".to_string()
            }
        };
        let args: Vec<&Expr> = c.args.iter().collect();
        // array::from_fn(|i| ..): one execution of the closure per array element (length = type-level constant)
        if fname.ends_with("array::from_fn") || fname == "from_fn" {
            if let Some(Expr::Closure(cl)) = args.first().map(|a| strip(a)) {
                let trip = json!({"kind": "array-type-len"});
                let n = self.closure_loop(cx, cl, true, true, false, true, &trip, "FROM_FN: array length is a type-level constant", "array::from_fn", 0);
                out.push(n);
                return out;
            }
        }
        let any_secret = args.iter().any(|a| !cx.is_pub(a));
        for a in &args {
            if let Expr::Closure(_) = strip(a) {
                // handled by the generic closure rule (rejected)
            }
            out.extend(self.walk_expr(cx, a));
        }
        self.taint_mut_args(cx, any_secret, &args);
        // let-bound closure
        if !fname.contains("::") {
            if let Some(body) = cx.lookup_closure(&fname).cloned() {
                if let Some(pubs) = cx.closure_pub_params.get(&fname).cloned() {
                    for (k, p) in pubs.iter().enumerate() {
                        if *p && args.get(k).map_or(false, |a| !cx.is_pub(a)) {
                            out.push(Node::SecArg(format!("closure {fname}: secret argument for primitive-typed parameter {k}"), wh.clone()));
                        }
                    }
                }
                out.push(Node::CallInline { name: format!("closure {fname}"), body });
                return out;
            }
        }
        self.pending_arg_pub = Some(args.iter().map(|a| cx.is_pub(a)).collect());
        let resolved = self.resolve_path_call(cx, &fname);
        self.pending_arg_pub = None;
        if let Some(op) = resolved {
            self.sec_arg_check(cx, &op, None, &args, &wh, &mut out);
            out.push(Node::Call { op });
            return out;
        }
        let last = fname.rsplit("::").next().unwrap_or("");
        if self.ctor_no_call.iter().any(|c| *c == fname) || last.chars().next().map_or(false, |ch| ch.is_uppercase()) {
            return out; // tuple-struct / enum constructor
        }
        if self.vartime_name(last) && any_secret {
            out.push(Node::ExtVartime(fname, wh));
        } else {
            if self.repo_fn_names.contains(last) && !fname.contains("::") {
                let s = format!("{}: call `{fname}` treated as external although a repo fn named `{last}` exists (no unique path match)", cx.op);
                self.note(cx, s);
            }
            out.push(Node::Ext(fname));
        }
        out
    }

    fn walk_method(&mut self, cx: &mut FnCtx, e: &Expr, m: &ExprMethodCall) -> Vec<Node> {
        let mut out = vec![];
        let name = m.method.to_string();
        let n = name.as_str();
        let wh = self.loc(cx, pos_of(&m.method));
        let args: Vec<&Expr> = m.args.iter().collect();
        let closure_arg = args.iter().rev().find_map(|a| if let Expr::Closure(c) = strip(a) { Some(c) } else { None });

        // ---- iterator consumers with a closure
        if let Some(cl) = closure_arg {
            if ITER_FULL_CLOSURE.contains(&n) || ITER_SHORT_CLOSURE.contains(&n) {
                let mut pending = vec![];
                if let Some(mut info) = self.analyse_iter(cx, &m.receiver, false, &mut out, &mut pending) {
                    for a in &args {
                        if !matches!(strip(a), Expr::Closure(_)) {
                            out.extend(self.walk_expr(cx, a));
                        }
                    }
                    if ITER_SHORT_CLOSURE.contains(&n) {
                        // short-circuiting consumer: the number of items consumed depends on the closure's results
                        cx.push_scope();
                        for p in &cl.inputs {
                            cx.bind_pat(p, info.elem_public && info.public);
                        }
                        let res_pub = cx.is_pub(&cl.body);
                        cx.pop_scope();
                        if !res_pub {
                            info.public = false;
                            info.why = format!("{n}: stops at a secret-dependent item");
                        }
                        info.trip = json!({"kind": "unknown"});
                    }
                    self.flush_pending(cx, pending, &info, &mut out);
                    let n_acc = if n == "fold" || n == "try_fold" { 1 } else { 0 };
                    let node = self.closure_loop(cx, cl, info.public, info.elem_public, info.enum_outer, info.is_range, &info.trip, &info.why, n, n_acc);
                    out.push(node);
                    return out;
                }
            }
            // lazy adaptor chain used as a value (e.g. returned, or consumed by sum()/collect() below)
            if ITER_LAZY_CLOSURE.contains(&n) || ITER_DATA_DEP.contains(&n) {
                let mut pending = vec![];
                if let Some(info) = self.analyse_iter(cx, e, false, &mut out, &mut pending) {
                    // allow-rule LAZY: a lazily mapped iterator is assumed to be consumed completely by whoever receives it
                    self.flush_pending(cx, pending, &info, &mut out);
                    return out;
                }
            }
            // allow-rule ARRAY-MAP: `[a, b].map(closure)` / `x.map(closure)` with `let x = [a, b];` (immutable): `<[T; N]>::map` runs
            // the closure exactly N times (N = the literal's length), whatever the elements are
            if n == "map" {
                let len = match strip(&m.receiver) {
                    Expr::Array(a) => Some(a.elems.len()),
                    Expr::Path(p) => p.path.get_ident().and_then(|i| cx.lookup(&i.to_string())).and_then(|b| cx.array_lits.get(&b.id).copied()),
                    _ => None,
                };
                if let Some(len) = len {
                    out.extend(self.walk_expr(cx, &m.receiver));
                    let elem_public = cx.is_pub(&m.receiver);
                    let trip = json!({"kind": "array-literal-len", "n": len});
                    let node = self.closure_loop(cx, cl, true, elem_public, false, false, &trip, "ARRAY-MAP: the receiver is an array literal, its length is syntactic", "map", 0);
                    out.push(node);
                    return out;
                }
            }
            if OPTION_CLOSURE.contains(&n) {
                // Option/Result/bool combinator: the closure runs iff the receiver has the right variant
                out.extend(self.walk_expr(cx, &m.receiver));
                let public = cx.is_pub(&m.receiver);
                for a in &args {
                    if !matches!(strip(a), Expr::Closure(_)) {
                        out.extend(self.walk_expr(cx, a));
                    }
                }
                let id = self.new_cond(cx, pos_of(&m.method), "combinator", &format!("{} . {n}(closure)", norm(&m.receiver)));
                cx.push_scope();
                for p in &cl.inputs {
                    cx.bind_pat(p, public);
                }
                cx.depth_branch += 1;
                if !public {
                    cx.depth_sec += 1;
                }
                let body = self.walk_body_plain(cx, &cl.body, "closure-body", &format!(".{n}(closure)"));
                if !public {
                    cx.depth_sec -= 1;
                }
                cx.depth_branch -= 1;
                cx.pop_scope();
                out.push(if public { Node::IfPub { id, t: body, e: vec![] } } else { Node::MatchSec { id, arms: vec![body, vec![]] } });
                return out;
            }
        }

        // ---- iterator consumers without closure: walk the chain (lazy closures inside are loops)
        {
            let mut pending = vec![];
            let mut tmp = vec![];
            if let Some(mut info) = self.analyse_iter(cx, &m.receiver, false, &mut tmp, &mut pending) {
                out.extend(tmp);
                for a in &args {
                    out.extend(self.walk_expr(cx, a));
                }
                if ITER_PARTIAL.contains(&n) && !pending.is_empty() {
                    info.public = false;
                    info.why = format!("{n}(): lazily mapped iterator consumed partially");
                }
                self.flush_pending(cx, pending, &info, &mut out);
                let any_secret = !info.elem_public || args.iter().any(|a| !cx.is_pub(a));
                if self.vartime_name(n) && any_secret {
                    out.push(Node::ExtVartime(format!("{n} (on an iterator over secret items)"), wh));
                } else {
                    out.push(Node::Ext(format!(".{n}")));
                }
                return out;
            }
        }

        // ---- ordinary method call
        out.extend(self.walk_expr(cx, &m.receiver));
        for a in &args {
            out.extend(self.walk_expr(cx, a));
        }
        let recv_pub = cx.is_pub(&m.receiver);
        let args_secret = args.iter().any(|a| !cx.is_pub(a));
        self.taint_mut_args(cx, args_secret, &args);
        if (args_secret || cx.depth_sec > 0) && cx.root_mutable(&m.receiver) {
            // a method with a secret argument may store it in a mutable receiver
            cx.taint_root(&m.receiver);
        }
        if n.ends_with("_mut") {
            cx.taint_root(&m.receiver);
        }
        self.pending_arg_pub = Some(args.iter().map(|a| cx.is_pub(a)).collect());
        let resolved = self.resolve_method_call(cx, m);
        self.pending_arg_pub = None;
        if let Some(op) = resolved {
            self.sec_arg_check(cx, &op, Some(&m.receiver), &args, &wh, &mut out);
            out.push(Node::Call { op });
            return out;
        }
        if ITER_ADAPT_SAME.contains(&n) || ITER_SOURCES.contains(&n) {
            return out; // pure adaptor without consumer
        }
        let any_secret = !recv_pub || args_secret;
        if self.vartime_name(n) && any_secret {
            out.push(Node::ExtVartime(format!(".{n}"), wh));
            return out;
        }
        if let Some(ix) = self.bound_args.get(n).cloned() {
            for k in ix {
                if let Some(a) = args.get(k) {
                    if !cx.is_pub(a) {
                        out.push(Node::ExtVartime(format!(".{n}: running time depends on argument {k} = `{}` which is secret", norm(a)), wh.clone()));
                        return out;
                    }
                }
            }
        }
        if self.repo_fn_names.contains(n) && !matches!(n, "new" | "from" | "default" | "into") {
            let s = format!("{}: method `.{n}` on a non-self receiver treated as external (no type inference) although a repo fn named `{n}` exists", cx.op);
            self.note(cx, s);
        }
        out.push(Node::Ext(format!(".{n}")));
        out
    }
}
