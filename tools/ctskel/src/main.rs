fn main(){ let f = syn::parse_file("fn a(){ let x = 1; }").unwrap(); use syn::spanned::Spanned; println!("{:?}", f.items[0].span().start().line); }
