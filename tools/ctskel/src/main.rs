//! ctskel — C18 control-flow skeleton extractor.
//!
//!   ctskel [--repo DIR] [--ops FILE] [--out-lean FILE] [--out-json FILE]
//!
//! Parses the Rust sources of the repo (default $VERIF_REPO or /repo), and for every function of `ops.json` (and every
//! repo function they call) emits a control-flow skeleton `def skel_<op> : Ct.Stmt` into Generated/CtSkel.lean plus a
//! JSON description (site / loop / condition tables, trees) for tools/ct_measure.py.
//! Exit code: 0 ok; 2 = a configured function was not found / could not be analysed (broken translator).
mod ctx;
mod node;
mod walk;

use ctx::*;
use node::Node;
use serde_json::{json, Value};
use std::collections::{BTreeMap, HashMap, HashSet};
use std::path::{Path, PathBuf};
use walk::IterInfo;

#[derive(Clone)]
pub struct FnCfg {
    pub op: String,
    pub listed: bool,
    pub negative_control: bool,
    pub file: String,
    pub impl_ty: Option<String>,
    pub fn_name: String,
    pub public: Vec<String>,
    pub callee_as: Vec<String>,
    pub returns_iter: bool,
    pub auto: bool,
}

pub struct RepoFn {
    pub file: String,
    pub impl_ty: Option<String>,
    pub name: String,
    pub has_self: bool,
    pub params: Vec<syn::Pat>,
    pub const_generics: Vec<String>,
    pub block: syn::Block,
    pub line: usize,
}

pub struct FnSkel {
    pub nodes: Vec<Node>,
    pub params: Vec<String>,
    pub public: Vec<String>,
    pub listed: bool,
    pub straight: bool,
    pub tail_iter: Option<IterInfo>,
    pub cfg: FnCfg,
    pub passes: usize,
}

pub struct Tr {
    pub cfg_fns: Vec<FnCfg>,
    pub repo: Vec<RepoFn>,
    pub repo_types: HashSet<String>,
    pub repo_fn_names: HashSet<String>,
    pub done: BTreeMap<String, FnSkel>,
    pub order: Vec<String>,
    pub in_progress: Vec<String>,
    pub sites: Vec<Value>,
    pub loops: Vec<Value>,
    pub conds: Vec<Value>,
    pub secrets: Vec<Value>,
    pub notes: Vec<String>,
    pub errors: Vec<String>,
    pub vt_suffixes: Vec<String>,
    pub vt_names: HashSet<String>,
    pub bound_args: HashMap<String, Vec<usize>>,
    pub abort_preds: Vec<String>,
    pub ctor_no_call: Vec<String>,
    /// publicness of the arguments of the call that is being resolved (CALL-SITE rule for automatically analysed callees)
    pub pending_arg_pub: Option<Vec<bool>>,
}

fn type_name(t: &syn::Type) -> Option<String> {
    match t {
        syn::Type::Path(p) => p.path.segments.last().map(|s| s.ident.to_string()),
        syn::Type::Reference(r) => type_name(&r.elem),
        _ => None,
    }
}

fn is_cfg_test(attrs: &[syn::Attribute]) -> bool {
    attrs.iter().any(|a| a.path().is_ident("cfg") && squash(&a.meta).contains("test"))
}

fn const_generics(g: &syn::Generics) -> Vec<String> {
    g.params.iter().filter_map(|p| if let syn::GenericParam::Const(c) = p { Some(c.ident.to_string()) } else { None }).collect()
}

fn add_fn(out: &mut Vec<RepoFn>, file: &str, impl_ty: Option<String>, sig: &syn::Signature, block: &syn::Block, extra_consts: &[String]) {
    let mut params = vec![];
    let mut has_self = false;
    for a in &sig.inputs {
        match a {
            syn::FnArg::Receiver(_) => has_self = true,
            syn::FnArg::Typed(t) => params.push((*t.pat).clone()),
        }
    }
    let mut cg = const_generics(&sig.generics);
    cg.extend(extra_consts.iter().cloned());
    out.push(RepoFn { file: file.to_string(), impl_ty, name: sig.ident.to_string(), has_self, params, const_generics: cg, block: block.clone(),
                      line: sig.ident.span().start().line });
}

fn index_items(items: &[syn::Item], file: &str, out: &mut Vec<RepoFn>, types: &mut HashSet<String>) {
    for it in items {
        match it {
            syn::Item::Fn(f) if !is_cfg_test(&f.attrs) => add_fn(out, file, None, &f.sig, &f.block, &[]),
            syn::Item::Impl(i) if !is_cfg_test(&i.attrs) => {
                let ty = type_name(&i.self_ty);
                let cg = const_generics(&i.generics);
                for ii in &i.items {
                    if let syn::ImplItem::Fn(f) = ii {
                        if !is_cfg_test(&f.attrs) {
                            add_fn(out, file, ty.clone(), &f.sig, &f.block, &cg);
                        }
                    }
                }
            }
            syn::Item::Trait(t) => {
                types.insert(t.ident.to_string());
                for ti in &t.items {
                    if let syn::TraitItem::Fn(f) = ti {
                        if let Some(b) = &f.default {
                            add_fn(out, file, Some(t.ident.to_string()), &f.sig, b, &[]);
                        }
                    }
                }
            }
            syn::Item::Struct(s) => {
                types.insert(s.ident.to_string());
            }
            syn::Item::Enum(s) => {
                types.insert(s.ident.to_string());
            }
            syn::Item::Mod(m) if !is_cfg_test(&m.attrs) => {
                if let Some((_, items)) = &m.content {
                    index_items(items, file, out, types);
                }
            }
            _ => {}
        }
    }
}

fn rs_files(dir: &Path, out: &mut Vec<PathBuf>) {
    if let Ok(rd) = std::fs::read_dir(dir) {
        let mut es: Vec<_> = rd.flatten().map(|e| e.path()).collect();
        es.sort();
        for p in es {
            if p.is_dir() {
                rs_files(&p, out);
            } else if p.extension().map_or(false, |e| e == "rs") {
                out.push(p);
            }
        }
    }
}

impl Tr {
    pub fn auto_fn(&mut self, ty: Option<&str>, name: &str) -> String { self.auto_fn_pub(ty, name, vec![]) }

    /// `inherit`: public `self.*` paths of the caller, for a method called on the caller's own `self` (same object, so the
    /// same fields are public).  The analysis is memoised per op: a later caller whose `self` lacks one of these paths gets
    /// a `secArg` node from `sec_arg_check` (rejected), never a silently wrong skeleton.
    pub fn auto_fn_pub(&mut self, ty: Option<&str>, name: &str, inherit: Vec<String>) -> String {
        let argpub = self.pending_arg_pub.take();
        let base = match ty {
            Some(t) => format!("auto_{t}_{name}"),
            None => format!("auto_{name}"),
        };
        self.ensure_auto_cfg(&base, ty, name, inherit.clone());
        // phase 1: every parameter secret (plus the inherited `self.*` paths).  If the helper is accepted like that, no caller
        // has to pass anything public.
        if self.analyse(&base).is_ok() && !self.skel_rejected(&base, 0) {
            return base;
        }
        // phase 2 (CALL-SITE): the helper needs public parameters (a loop bound, a guard): analyse a variant in which exactly the
        // parameters that THIS call site passes public arguments for are public.  The variant is named after them, so a call
        // site with other public arguments gets its own variant, and `sec_arg_check` verifies every call against its variant.
        let mut names = vec![];
        if let (Some(ap), Some(r)) = (argpub, self.repo.iter().find(|r| r.impl_ty.as_deref() == ty && r.name == name)) {
            for (k, p) in r.params.iter().enumerate() {
                let mut v = vec![];
                pat_idents(p, &mut v);
                if let (Some(true), Some((n, _, _))) = (ap.get(k).copied(), v.first()) {
                    names.push(n.clone());
                }
            }
        }
        if names.is_empty() {
            return base;
        }
        let op = format!("{base}__pub_{}", names.join("_"));
        let mut public = inherit;
        public.extend(names);
        self.ensure_auto_cfg(&op, ty, name, public);
        op
    }

    fn ensure_auto_cfg(&mut self, op: &str, ty: Option<&str>, name: &str, public: Vec<String>) {
        if self.cfg_fns.iter().any(|f| f.op == op) {
            return;
        }
        let file = self.repo.iter().find(|r| r.impl_ty.as_deref() == ty && r.name == name).map(|r| r.file.clone()).unwrap_or_default();
        self.cfg_fns.push(FnCfg { op: op.to_string(), listed: false, negative_control: false, file, impl_ty: ty.map(|s| s.to_string()), fn_name: name.to_string(),
                                  public, callee_as: vec![], returns_iter: false, auto: true });
    }

    /// the skeleton of `op` (through call nodes) contains a rejected node
    pub fn skel_rejected(&self, op: &str, depth: usize) -> bool {
        fn go(tr: &Tr, ns: &[Node], depth: usize) -> bool {
            ns.iter().any(|n| match n {
                Node::ExtVartime(..) | Node::SecArg(..) | Node::IfSec { .. } | Node::LoopSec { .. } | Node::WhileSec { .. } | Node::MatchSec { .. } | Node::ExitSec(_) => true,
                Node::Call { op } => depth < 16 && tr.skel_rejected(op, depth + 1),
                Node::LoopPub { body, .. } | Node::CallInline { body, .. } | Node::AbortIf { body, .. } => go(tr, body, depth),
                Node::IfPub { t, e, .. } | Node::OneHot { t, e, .. } => go(tr, t, depth) || go(tr, e, depth),
                _ => false,
            })
        }
        self.done.get(op).map_or(true, |s| go(self, &s.nodes, depth))
    }

    /// the skeleton of `op` (through call nodes) contains an abort point
    pub fn skel_has_abort(&self, op: &str, depth: usize) -> bool {
        fn go(tr: &Tr, ns: &[Node], depth: usize) -> bool {
            ns.iter().any(|n| match n {
                Node::AbortIf { .. } => true,
                Node::Call { op } => depth < 16 && tr.skel_has_abort(op, depth + 1),
                Node::LoopPub { body, .. } | Node::CallInline { body, .. } | Node::LoopSec { body, .. } | Node::WhileSec { body, .. } => go(tr, body, depth),
                Node::IfPub { t, e, .. } | Node::OneHot { t, e, .. } | Node::IfSec { t, e, .. } => go(tr, t, depth) || go(tr, e, depth),
                Node::MatchSec { arms, .. } => arms.iter().any(|a| go(tr, a, depth)),
                _ => false,
            })
        }
        self.done.get(op).map_or(false, |s| go(self, &s.nodes, depth))
    }

    /// analyse one configured function (memoised); Err = cannot be analysed
    pub fn analyse(&mut self, op: &str) -> Result<(), String> {
        if self.done.contains_key(op) {
            return Ok(());
        }
        if self.in_progress.iter().any(|o| o == op) {
            return Err(format!("recursive call cycle through `{op}`: {:?}", self.in_progress));
        }
        let cfg = self.cfg_fns.iter().find(|f| f.op == op).cloned().ok_or_else(|| format!("op `{op}` is not configured"))?;
        let cands: Vec<usize> = self.repo.iter().enumerate()
            .filter(|(_, r)| r.file == cfg.file && r.impl_ty == cfg.impl_ty && r.name == cfg.fn_name).map(|(i, _)| i).collect();
        if cands.len() != 1 {
            return Err(format!("function `{}{}` not found (or ambiguous: {} matches) in {}",
                               cfg.impl_ty.as_ref().map(|t| format!("{t}::")).unwrap_or_default(), cfg.fn_name, cands.len(), cfg.file));
        }
        self.in_progress.push(op.to_string());
        let rf = &self.repo[cands[0]];
        let block = rf.block.clone();
        let params = rf.params.clone();
        let line = rf.line;
        let mut cx = FnCtx {
            op: op.to_string(), file: cfg.file.clone(), impl_ty: cfg.impl_ty.clone(),
            public_paths: cfg.public.iter().cloned().collect(), const_generics: rf.const_generics.iter().cloned().collect(),
            scopes: vec![], secret: HashSet::new(), closures: vec![], loops: vec![], closure_pub_params: HashMap::new(), array_lits: HashMap::new(), choice_vars: HashSet::new(), iter_vars: HashMap::new(), allow_return_at: None, depth_loop: 0, depth_sec: 0, depth_branch: 0,
            emit: false, changed: false, direct_stmt: None,
        };
        let mut param_names = vec![];
        for p in &params {
            let mut v = vec![];
            pat_idents(p, &mut v);
            param_names.push(v.first().map(|x| x.0.clone()).unwrap_or_default());
        }
        let header = format!("fn {}{}", cfg.impl_ty.as_ref().map(|t| format!("{t}::")).unwrap_or_default(), cfg.fn_name);
        let mut passes = 0;
        let mut nodes;
        let mut tail_iter = None;
        loop {
            passes += 1;
            cx.changed = false;
            cx.scopes.clear();
            cx.closures.clear();
            cx.push_scope();
            for p in &params {
                let mut v = vec![];
                pat_idents(p, &mut v);
                for (n, id, m) in v {
                    let public = cfg.public.iter().any(|q| *q == n);
                    // `x: &mut T` parameters are mutable places
                    cx.bind(&n, id, m || true, public);
                }
            }
            nodes = vec![];
            let (pos, anchored) = walk::site_anchor(&block);
            nodes.push(Node::Site(self.new_site(&cx, if anchored { "fn" } else { "fn-unanchored" }, pos, end_of(&block), &header)));
            cx.push_scope();
            let nst = block.stmts.len();
            if !cfg.returns_iter {
                // function body with GUARD-RETURN handling (see walk_fn_stmts)
                nodes.extend(self.walk_fn_stmts(&mut cx, &block.stmts));
            }
            for (k, s) in block.stmts.iter().enumerate() {
                if !cfg.returns_iter { break; }
                if cfg.returns_iter && k + 1 == nst {
                    if let syn::Stmt::Expr(e, None) = s {
                        let mut pend = vec![];
                        let mut tmp = vec![];
                        if let Some(info) = self.analyse_iter(&mut cx, e, false, &mut tmp, &mut pend) {
                            nodes.extend(tmp);
                            self.flush_pending(&mut cx, pend, &info, &mut nodes);
                            tail_iter = Some(info);
                            continue;
                        }
                    }
                }
                nodes.extend(self.walk_stmt(&mut cx, s));
            }
            cx.pop_scope();
            cx.pop_scope();
            if cx.emit {
                break;
            }
            if !cx.changed || passes > 50 {
                cx.emit = true; // one more pass, now allocating ids
            }
        }
        self.in_progress.pop();
        let _ = line;
        if cfg.returns_iter && tail_iter.is_none() {
            return Err(format!("`{op}` is configured returns_iter but its tail expression is not a recognised iterator chain"));
        }
        let done = &self.done;
        let call_ok = |o: &str| done.get(o).map_or(false, |s| s.straight);
        let straight = node::straight(&nodes, &call_ok);
        self.done.insert(op.to_string(), FnSkel { nodes, params: param_names, public: cfg.public.clone(), listed: cfg.listed, straight, tail_iter, cfg, passes });
        self.order.push(op.to_string());
        Ok(())
    }
}

fn main() {
    let args: Vec<String> = std::env::args().collect();
    let here = std::env::current_exe().ok();
    let _ = here;
    let mut repo = std::env::var("VERIF_REPO").unwrap_or_else(|_| "/repo".into());
    let root = PathBuf::from(env!("CARGO_MANIFEST_DIR"));
    let mut ops = root.join("ops.json");
    let mut out_lean = root.join("../../lean/SlVerif/Generated/CtSkel.lean");
    let mut out_json = root.join("../../.build/ctskel.json");
    let mut i = 1;
    while i < args.len() {
        match args[i].as_str() {
            "--repo" => { repo = args[i + 1].clone(); i += 2 }
            "--ops" => { ops = PathBuf::from(&args[i + 1]); i += 2 }
            "--out-lean" => { out_lean = PathBuf::from(&args[i + 1]); i += 2 }
            "--out-json" => { out_json = PathBuf::from(&args[i + 1]); i += 2 }
            a => { eprintln!("ctskel: unknown argument {a}"); std::process::exit(2) }
        }
    }
    let cfg: Value = match std::fs::read_to_string(&ops).map_err(|e| e.to_string()).and_then(|s| serde_json::from_str(&s).map_err(|e| e.to_string())) {
        Ok(v) => v,
        Err(e) => { eprintln!("ctskel: cannot read {}: {e}", ops.display()); std::process::exit(2) }
    };
    let strs = |v: &Value| -> Vec<String> { v.as_array().map(|a| a.iter().filter_map(|x| x.as_str().map(|s| s.to_string())).collect()).unwrap_or_default() };
    let mut cfg_fns = vec![];
    for f in cfg["functions"].as_array().cloned().unwrap_or_default() {
        cfg_fns.push(FnCfg {
            op: f["op"].as_str().unwrap_or("").to_string(),
            listed: f["listed"].as_bool().unwrap_or(false),
            negative_control: f["negative_control"].as_bool().unwrap_or(false),
            file: f["file"].as_str().unwrap_or("").to_string(),
            impl_ty: f["impl"].as_str().map(|s| s.to_string()),
            fn_name: f["fn"].as_str().unwrap_or("").to_string(),
            public: strs(&f["public"]),
            callee_as: strs(&f["callee_as"]),
            returns_iter: f["returns_iter"].as_bool().unwrap_or(false),
            auto: false,
        });
    }
    // index the repo
    let mut files = vec![];
    let crates = Path::new(&repo).join("crates");
    if let Ok(rd) = std::fs::read_dir(&crates) {
        let mut cs: Vec<_> = rd.flatten().map(|e| e.path()).collect();
        cs.sort();
        for c in cs {
            rs_files(&c.join("src"), &mut files);
        }
    }
    if files.is_empty() {
        eprintln!("ctskel: no sources under {}", crates.display());
        std::process::exit(2);
    }
    let mut repo_fns = vec![];
    let mut types = HashSet::new();
    for p in &files {
        let rel = p.strip_prefix(&repo).unwrap_or(p).to_string_lossy().to_string();
        let src = std::fs::read_to_string(p).unwrap_or_default();
        match syn::parse_file(&src) {
            Ok(f) => index_items(&f.items, &rel, &mut repo_fns, &mut types),
            Err(e) => {
                if cfg_fns.iter().any(|c| c.file == rel) {
                    eprintln!("ctskel: {rel} does not parse: {e}");
                    std::process::exit(2);
                }
            }
        }
    }
    let repo_fn_names = repo_fns.iter().map(|r| r.name.clone()).collect();
    let mut bound_args = HashMap::new();
    if let Some(o) = cfg["bound_args"].as_object() {
        for (k, v) in o {
            if let Some(a) = v.as_array() {
                bound_args.insert(k.clone(), a.iter().filter_map(|x| x.as_u64().map(|n| n as usize)).collect());
            }
        }
    }
    let mut tr = Tr {
        cfg_fns, repo: repo_fns, repo_types: types, repo_fn_names, done: BTreeMap::new(), order: vec![], in_progress: vec![],
        sites: vec![], loops: vec![], conds: vec![], secrets: vec![], notes: vec![], errors: vec![],
        vt_suffixes: strs(&cfg["vartime_methods"]["suffixes"]), vt_names: strs(&cfg["vartime_methods"]["names"]).into_iter().collect(),
        bound_args, abort_preds: strs(&cfg["abort_predicates"]), ctor_no_call: strs(&cfg["constructors_no_call"]),
        pending_arg_pub: None,
    };
    let todo: Vec<String> = tr.cfg_fns.iter().filter(|f| f.listed || f.negative_control).map(|f| f.op.clone()).collect();
    let mut failed = false;
    for op in &todo {
        if let Err(e) = tr.analyse(op) {
            tr.errors.push(e);
        }
    }
    for e in &tr.errors {
        eprintln!("ctskel: ERROR {e}");
        failed = true;
    }
    if failed {
        // never leave a stale skeleton behind: the generated module must not compile when the translator is broken
        let msg: Vec<String> = tr.errors.iter().map(|e| e.replace('"', "'")).collect();
        let stub = format!("/- GENERATED by tools/ctskel — TRANSLATOR FAILED, see stderr of tools/ctskel -/\nimport SlVerif.Model.Ct\n\
                            namespace SlVerif.Generated\n/-- {} -/\ntheorem ctskel_translator_failed : (0 : Nat) = 1 := by decide\nend SlVerif.Generated\n", msg.join("; "));
        write_if_changed(&out_lean, &stub);
        let _ = std::fs::remove_file(&out_json);
        std::process::exit(2);
    }

    // ---- Lean
    let mut l = String::new();
    l.push_str("/- GENERATED by tools/ctskel from the repo sources — do not edit (regenerated on every check) -/\n");
    l.push_str("import SlVerif.Model.Ct\nnamespace SlVerif.Generated\nopen SlVerif.Ct\n\n");
    for op in &tr.order {
        let s = &tr.done[op];
        l.push_str(&format!("/-- {}{} ({}){} -/\n", s.cfg.impl_ty.as_ref().map(|t| format!("{t}::")).unwrap_or_default(), s.cfg.fn_name, s.cfg.file,
                            if s.cfg.public.is_empty() { String::new() } else { format!("; public: {}", s.cfg.public.join(", ")) }));
        l.push_str(&format!("def skel_{op} : Stmt :=\n  {}\n\n", node::lean_block(&s.nodes, 2)));
    }
    l.push_str("/-- site id ↦ `file:line kind header` -/\ndef siteTable : List (Nat × String) := [\n");
    let esc = |s: &str| s.replace('\\', "\\\\").replace('"', "\\\"");
    for (k, s) in tr.sites.iter().enumerate() {
        l.push_str(&format!("  ({}, \"{}:{} [{}] {}\"){}\n", s["id"], s["file"].as_str().unwrap_or(""), s["line"], s["kind"].as_str().unwrap_or(""),
                            esc(s["header"].as_str().unwrap_or("")), if k + 1 < tr.sites.len() { "," } else { "" }));
    }
    l.push_str("]\n\n/-- loop id ↦ `file:line header ; rule` -/\ndef loopTable : List (Nat × String) := [\n");
    for (k, s) in tr.loops.iter().enumerate() {
        l.push_str(&format!("  ({}, \"{}:{} {} ; {}\"){}\n", s["id"], s["file"].as_str().unwrap_or(""), s["line"], esc(s["header"].as_str().unwrap_or("")),
                            esc(s["rule"].as_str().unwrap_or("")), if k + 1 < tr.loops.len() { "," } else { "" }));
    }
    l.push_str("]\n\n/-- condition id ↦ `file:line kind text` -/\ndef condTable : List (Nat × String) := [\n");
    for (k, s) in tr.conds.iter().enumerate() {
        l.push_str(&format!("  ({}, \"{}:{} [{}] {}\"){}\n", s["id"], s["file"].as_str().unwrap_or(""), s["line"], s["kind"].as_str().unwrap_or(""),
                            esc(s["text"].as_str().unwrap_or("")), if k + 1 < tr.conds.len() { "," } else { "" }));
    }
    l.push_str("]\n\n/-- secret id ↦ the secret expression compared against a loop index -/\ndef secretTable : List (Nat × String) := [\n");
    for (k, s) in tr.secrets.iter().enumerate() {
        l.push_str(&format!("  ({}, \"{}:{} {}\"){}\n", s["id"], s["file"].as_str().unwrap_or(""), s["line"], esc(s["text"].as_str().unwrap_or("")),
                            if k + 1 < tr.secrets.len() { "," } else { "" }));
    }
    l.push_str("]\n\nend SlVerif.Generated\n");
    write_if_changed(&out_lean, &l);

    // ---- JSON
    let mut ops_json = serde_json::Map::new();
    for op in &tr.order {
        let s = &tr.done[op];
        let mut rej = vec![];
        node::rejected(&s.nodes, &mut rej);
        ops_json.insert(op.clone(), json!({
            "listed": s.listed, "negative_control": s.cfg.negative_control, "auto": s.cfg.auto, "file": s.cfg.file, "impl": s.cfg.impl_ty, "fn": s.cfg.fn_name,
            "public": s.cfg.public, "params": s.params, "straight": s.straight, "taint_passes": s.passes,
            "rejected_local": rej, "tree": node::json_block(&s.nodes),
        }));
    }
    let j = json!({"repo": repo, "order": tr.order, "ops": ops_json, "sites": tr.sites, "loops": tr.loops, "conds": tr.conds, "secrets": tr.secrets, "notes": tr.notes});
    write_if_changed(&out_json, &(serde_json::to_string_pretty(&j).unwrap() + "\n"));
    let n_rej: usize = tr.order.iter().map(|op| { let mut r = vec![]; node::rejected(&tr.done[op].nodes, &mut r); r.len() }).sum();
    println!("ctskel: {} functions ({} listed), {} sites, {} loops, {} conditions, {} rejected nodes -> {}", tr.order.len(),
             tr.done.values().filter(|s| s.listed).count(), tr.sites.len(), tr.loops.len(), tr.conds.len(), n_rej, out_lean.display());
}

fn write_if_changed(p: &Path, text: &str) {
    if let Some(d) = p.parent() {
        let _ = std::fs::create_dir_all(d);
    }
    if std::fs::read_to_string(p).map_or(true, |old| old != text) {
        if let Err(e) = std::fs::write(p, text) {
            eprintln!("ctskel: cannot write {}: {e}", p.display());
            std::process::exit(2);
        }
    }
}
