#!/usr/bin/env python3
"""
C18 measurement tie: per-line execution counts of ONE operation across secret-varied inputs.

  tools/ct_measure.py <op> [--indices 0,1,2 | --n 8] [--tier quick|thorough[:keybits]] [--bin PATH] [--skel PATH] [--repo DIR]

For every secret index i the coverage binary `slcov <op> <i> <tier>` (harness-cov, built with -C instrument-coverage)
runs the operation ONCE on inputs whose public part depends on <op> only and whose secret part depends on i; the counters
are reset after input generation and written right after the operation returns.  The profile is converted with
`llvm-profdata merge` + `llvm-cov export -format=lcov` and the per-line counts are compared ACROSS secret indices:
  (a) lines of the repo (crates/*/src): must be identical                         -> otherwise a property failure
  (b) lines of the constant-time substrate crypto-bigint / subtle: identical     -> otherwise a property failure
  (c) lines of other dependency crates (k256, merlin, keccak, rand...): reported as dependency_lines_differing
lines of the harness binary itself are ignored.  Additionally (skeleton tie) the execution count of every `site` of the
generated skeleton is predicted by interpreting the skeleton (trip counts from the source's constants; array-length
loops inferred once from the measurement) and compared with the measured region count at the site's source position.
"""
import concurrent.futures, glob, json, os, re, subprocess, sys, tempfile, time

ROOT = os.path.dirname(os.path.dirname(os.path.abspath(__file__)))
BUILD = os.path.join(ROOT, ".build")
DEFAULT_BIN = os.path.join(BUILD, "cargo-cov", "release", "slcov")
DEFAULT_SKEL = os.path.join(BUILD, "ctskel.json")
SUBSTRATE = ("crypto-bigint", "subtle")
PAILLIER_OPS = ("encrypt_with_r", "decrypt", "decrypt_fast", "mul", "extract_n_root", "mul_vartime")
LISTED = ("encrypt_with_r", "decrypt", "decrypt_fast", "mul", "extract_n_root", "eval_pprf", "ot_sender_process",
          "rvole_sender_process", "rvole_receiver_process")


def llvm_tool(name):
    for d in sorted(glob.glob(os.path.expanduser("~/.rustup/toolchains/nightly-*/lib/rustlib/*/bin")), reverse=True):
        p = os.path.join(d, name)
        if os.path.exists(p): return p
    raise RuntimeError(f"{name} not found under ~/.rustup/toolchains/nightly-*/lib/rustlib/*/bin")


def classify(path, repo):
    """-> (kind, crate) with kind in repo | self | substrate | dep"""
    rp = os.path.realpath(repo)
    if path.startswith(repo + "/") or path.startswith(rp + "/"):
        return "repo", "repo"
    if "/harness-cov/" in path or "/cov-scratch" in path:
        return "self", "slcov"
    m = re.search(r"/registry/src/[^/]+/([^/]+?)-\d[^/]*/", path)
    crate = m.group(1) if m else "?"
    return ("substrate" if crate in SUBSTRATE else "dep"), crate


def parse_lcov(text):
    files, cur = {}, None
    for l in text.splitlines():
        if l.startswith("SF:"):
            cur = files.setdefault(l[3:], {})
        elif l.startswith("DA:") and cur is not None:
            a = l[3:].split(",")
            c = int(a[1])
            if c: cur[int(a[0])] = cur.get(int(a[0]), 0) + c
    return {f: d for f, d in files.items() if d}


def run_one(binary, op, idx, tier, workdir, want_segments=None):
    """run slcov once; returns dict(cmd, rc, stdout, counts{file:{line:count}}, segments{file:[..]})"""
    tag = f"{op}-{idx}-{tier.replace(':', '_')}-{os.getpid()}"
    raw = os.path.join(workdir, tag + ".profraw")
    prof = os.path.join(workdir, tag + ".profdata")
    cmd = [binary, op, str(idx), tier]
    env = dict(os.environ, LLVM_PROFILE_FILE=raw)
    p = subprocess.run(cmd, env=env, stdout=subprocess.PIPE, stderr=subprocess.PIPE, text=True)
    out = {"cmd": "slcov " + " ".join(cmd[1:]), "rc": p.returncode, "stdout": p.stdout.strip().splitlines()[-1] if p.stdout.strip() else "",
           "stderr": p.stderr.strip()[-400:], "counts": {}, "segments": {}}
    try:
        if p.returncode != 0 or not os.path.exists(raw):
            return out
        m = subprocess.run([llvm_tool("llvm-profdata"), "merge", "-sparse", raw, "-o", prof], stdout=subprocess.PIPE, stderr=subprocess.STDOUT, text=True)
        if m.returncode != 0:
            out["rc"] = 90; out["stderr"] = m.stdout[-400:]; return out
        e = subprocess.run([llvm_tool("llvm-cov"), "export", "-format=lcov", "-instr-profile", prof, binary], stdout=subprocess.PIPE, stderr=subprocess.PIPE, text=True)
        if e.returncode != 0:
            out["rc"] = 91; out["stderr"] = e.stderr[-400:]; return out
        out["counts"] = parse_lcov(e.stdout)
        if want_segments:
            j = subprocess.run([llvm_tool("llvm-cov"), "export", "-format=text", "-instr-profile", prof, binary] + list(want_segments),
                               stdout=subprocess.PIPE, stderr=subprocess.PIPE, text=True)
            if j.returncode == 0:
                for f in json.loads(j.stdout)["data"][0]["files"]:
                    out["segments"][f["filename"]] = f["segments"]
    finally:
        for f in (raw, prof):
            if os.path.exists(f): os.remove(f)
    return out


def diff_counts(a, b, repo):
    """lines whose counts differ between two runs, grouped by class"""
    d = {"repo": [], "substrate": [], "dep": []}
    for f in sorted(set(a) | set(b)):
        kind, crate = classify(f, repo)
        if kind == "self": continue
        la, lb = a.get(f, {}), b.get(f, {})
        for ln in sorted(set(la) | set(lb)):
            if la.get(ln, 0) != lb.get(ln, 0):
                d[kind].append((crate, f, ln, la.get(ln, 0), lb.get(ln, 0)))
    return d


# ---------------------------------------------------------------------------------------------- skeleton prediction

def rust_to_py(expr):
    e = re.sub(r"\b(\d+)_?(usize|u8|u16|u32|u64|i32|i64)\b", r"\1", expr)
    e = re.sub(r"\bas\s+(usize|u8|u16|u32|u64|i32|i64)\b", "", e)
    e = re.sub(r"\.\s*pow\s*\(", "**(", e)
    e = e.replace("/", "//")
    return e


def source_consts(repo, relfile):
    sys.path.insert(0, os.path.join(ROOT, "tools"))
    import gen_params
    env = gen_params.consts(gen_params.strip_comments(open(os.path.join(repo, "crates/sl-oblivious/src/params.rs")).read()))
    try:
        src = gen_params.strip_comments(open(os.path.join(repo, relfile)).read())
        env.update(gen_params.consts(src, env))
        # `const XI: usize = L;`
        for m in re.finditer(r"\bconst\s+([A-Z_0-9]+)\s*:\s*usize\s*=\s*([A-Z_0-9]+)\s*;", src):
            if m.group(2) in env: env[m.group(1)] = env[m.group(2)]
    except OSError:
        pass
    return env


def eval_int(expr, env):
    if expr is None: return None
    e = rust_to_py(expr)
    if not re.fullmatch(r"[\sA-Za-z_0-9+\-*/()<>]+", e): return None
    try:
        v = eval(e, {"__builtins__": {}}, dict(env))
        return int(v) if isinstance(v, int) and not isinstance(v, bool) else None
    except Exception:
        return None


class Predictor:
    def __init__(self, skel, repo):
        self.skel = skel
        self.repo = repo
        self.loops = {l["id"]: l for l in skel["loops"]}
        self.sites = {s["id"]: s for s in skel["sites"]}
        self.consts = {}
        self.inferred = {}

    def env_for(self, op):
        f = self.skel["ops"][op]["file"]
        if f not in self.consts: self.consts[f] = source_consts(self.repo, f)
        return dict(self.consts[f])

    def trip(self, lid, env):
        """-> (trip or None, start)"""
        t = self.loops[lid]["trip"]
        if t.get("kind") == "range":
            a, b = eval_int(t["start"], env), eval_int(t["end"], env)
            if a is None or b is None: return None, 0
            return max(0, b - a + (1 if t.get("incl") else 0)), a
        if lid in self.inferred and self.inferred[lid] >= 0: return self.inferred[lid], 0
        return None, 0          # unknown, or marked -1 = not inferable (trip varies between instances): body not predicted

    def mentions(self, nodes, var):
        if var is None: return False
        pat = re.compile(r"\b" + re.escape(var) + r"\b")
        def go(ns):
            for n in ns:
                k = n["k"]
                if k in ("loopPub", "loopSec", "whileSec"):
                    t = self.loops[n["id"]]["trip"]
                    if pat.search(json.dumps(t)): return True
                    if go(n["body"]): return True
                elif k in ("ifPub", "oneHot", "ifSec"):
                    if go(n["t"]) or go(n["e"]): return True
                elif k in ("abortIf", "callInline"):
                    if go(n["body"]): return True
                elif k == "matchSec":
                    if any(go(a) for a in n["arms"]): return True
            return False
        return go(nodes)

    def walk(self, nodes, mult, env, op, hot):
        """hot = (loop id, instances, trip, j) of the innermost enclosing loop"""
        for n in nodes:
            k = n["k"]
            if k == "site":
                if self.unknown_depth == 0: self.pred[n["id"]] = self.pred.get(n["id"], 0) + mult
                else: self.nopred.add(n["id"])
            elif k == "loopPub" and self.unknown_depth > 0:
                # reached below something whose multiplicity is unknown in this pass: its visit count is incomplete, so
                # its trip count must not be inferred from the measurement yet
                self.seen_unknown.add(n["id"])
                self.walk(n["body"], 0, env, op, None)
            elif k == "loopPub":
                lid = n["id"]
                self.visits[lid] = self.visits.get(lid, 0) + mult
                t, start = self.trip(lid, env)
                if t is None:
                    self.pending.add(lid)
                    self.mark_nopred(n["body"])
                    continue
                var = self.loops[lid].get("var")
                if self.mentions(n["body"], var):
                    for j in range(t):
                        e2 = dict(env); e2[var] = start + j
                        self.walk(n["body"], mult, e2, op, (lid, mult, t, j))
                else:
                    self.walk(n["body"], mult * t, env, op, (lid, mult, t, None))
            elif k == "oneHot":
                if hot and hot[0] == n["l"]:
                    lid, inst, t, j = hot
                    if j is None:
                        self.walk(n["t"], inst, env, op, None)
                        self.walk(n["e"], inst * (t - 1), env, op, None)
                    else:
                        self.walk(n["t"] if j == 0 else n["e"], mult, env, op, None)
                else:
                    self.mark_nopred(n["t"]); self.mark_nopred(n["e"])
            elif k == "abortIf":
                self.walk(n["body"], 0, env, op, None)
            elif k == "call":
                self.walk(self.skel["ops"][n["op"]]["tree"], mult, self.env_for(n["op"]), n["op"], None)
            elif k == "callInline":
                self.walk(n["body"], mult, env, op, None)
            elif k in ("ifPub", "ifSec"):
                self.mark_nopred(n["t"]); self.mark_nopred(n["e"])
            elif k in ("loopSec", "whileSec"):
                self.mark_nopred(n["body"])
            elif k == "matchSec":
                for a in n["arms"]: self.mark_nopred(a)

    def mark_nopred(self, nodes):
        self.unknown_depth += 1
        self.walk(nodes, 0, {}, None, None)
        self.unknown_depth -= 1

    def predict(self, op, measured):
        """measured: site id -> count (or None).  Returns (pred{site:count}, nopred set, problems[])"""
        problems = []
        self.unpredicted = []
        for _ in range(12):
            self.pred, self.nopred, self.visits, self.pending, self.unknown_depth = {}, set(), {}, set(), 0
            self.seen_unknown = set()
            self.walk(self.skel["ops"][op]["tree"], 1, self.env_for(op), op, None)
            new = False
            for lid in sorted(self.pending):
                if lid in self.inferred: continue
                if lid in self.seen_unknown: continue      # also occurs below a not-yet-resolved loop: wait for a later pass
                body_site = self.first_site(lid)
                v = self.visits.get(lid, 0)
                m = measured.get(body_site)
                if body_site is None or m is None: continue
                if v == 0:
                    self.inferred[lid] = 0
                elif m % v == 0:
                    self.inferred[lid] = m // v
                else:
                    # the trip count of this loop is not a constant the skeleton knows (e.g. `for n in level..2 * level` with a
                    # public `level` that changes between instances): nothing can be predicted for its body, which is then
                    # compared only ACROSS secret values (the property itself), not against the skeleton's prediction
                    self.unpredicted.append(f"loop#{lid} ({self.loops[lid]['file']}:{self.loops[lid]['line']} `{self.loops[lid]['header']}`): measured body count {m} "
                                            f"over {v} loop instances — public trip count varies between instances, body not predicted")
                    self.inferred[lid] = -1
                    continue
                new = True
            if not new: break
        for lid in list(self.inferred):
            if self.inferred[lid] == -1: del self.inferred[lid]
        return self.pred, self.nopred, problems

    def first_site(self, lid):
        def find(ns):
            for n in ns:
                if n["k"] in ("loopPub", "loopSec", "whileSec") and n["id"] == lid:
                    return n["body"][0]["id"] if n["body"] and n["body"][0]["k"] == "site" else None
                for key in ("body", "t", "e"):
                    if key in n:
                        r = find(n[key])
                        if r is not None: return r
                for a in n.get("arms", []):
                    r = find(a)
                    if r is not None: return r
            return None
        for o in self.skel["ops"].values():
            r = find(o["tree"])
            if r is not None: return r
        return None


def seg_count(segs, line, col, end_line, end_col):
    """execution count of the coverage region that covers source position (line, col); None if there is none"""
    best = None
    for s in segs:
        if (s[0], s[1]) <= (line, col): best = s
        else: break
    if best is not None and best[3]:
        return best[2]
    # not inside a counted region: first region entry inside the block
    for s in segs:
        if (s[0], s[1]) >= (line, col) and (s[0], s[1]) <= (end_line, end_col) and s[3] and s[4]:
            return s[2]
    return None


def reach_sites(skel, op):
    seen, ops = [], set()
    def go(ns):
        for n in ns:
            if n["k"] == "site": seen.append(n["id"])
            if n["k"] == "call" and n["op"] not in ops:
                ops.add(n["op"]); go(skel["ops"][n["op"]]["tree"])
            for key in ("body", "t", "e"):
                if key in n: go(n[key])
            for a in n.get("arms", []): go(a)
    go(skel["ops"][op]["tree"])
    return sorted(set(seen))


def skeleton_tie(skel, op, run0, repo):
    """compare the skeleton's predicted site counts with run0's measured region counts.
       -> (problems[], info dict)"""
    problems = []
    if op not in skel["ops"]:
        return [f"operation {op} has no skeleton"], {}
    sites = {s["id"]: s for s in skel["sites"]}
    measured = {}
    for sid in reach_sites(skel, op):
        s = sites[sid]
        path = os.path.join(repo, s["file"])
        segs = run0["segments"].get(path) or run0["segments"].get(os.path.realpath(path))
        if segs is None:
            measured[sid] = None
            continue
        measured[sid] = seg_count(segs, s["line"], s["col"], s["end_line"], s["end_col"])
    P = Predictor(skel, repo)
    pred, nopred, probs = P.predict(op, measured)
    problems += probs
    checked = 0
    for sid in reach_sites(skel, op):
        s = sites[sid]
        where = f"site#{sid} {s['file']}:{s['line']} [{s['kind']}] {s['header']}"
        if s["kind"].endswith("-empty") or s["kind"].endswith("-unanchored"): continue
        m = measured.get(sid)
        if m is None:
            problems.append(f"{where}: no coverage region at this position (skeleton site unknown to the coverage data)")
            continue
        if sid in pred and sid not in nopred:
            checked += 1
            if pred[sid] != m:
                problems.append(f"{where}: skeleton predicts {pred[sid]} executions, measured {m}")
    return problems, {"sites": len(reach_sites(skel, op)), "sites_predicted_and_equal": checked - sum(1 for p in problems if "predicts" in p),
                      "inferred_trips": {str(k): v for k, v in P.inferred.items()}, "unpredicted_loops": P.unpredicted}


# ---------------------------------------------------------------------------------------------- one operation

def measure_op(op, indices, tier, binary=DEFAULT_BIN, skel=None, repo="/repo", workers=None, workdir=None):
    """-> dict(op, tier, runs[], pairs_differing[], dependency_lines_differing{}, tie_problems[], ...)"""
    workdir = workdir or tempfile.mkdtemp(prefix="ctcov-", dir=BUILD if os.path.isdir(BUILD) else None)
    repo_files = sorted({os.path.join(repo, o["file"]) for o in (skel or {"ops": {}})["ops"].values()}) if skel else None
    res = {"op": op, "tier": tier, "runs": [], "failures": [], "dependency_lines_differing": {}, "tie_problems": [], "harness_errors": []}
    t0 = time.time()
    with concurrent.futures.ThreadPoolExecutor(max_workers=workers or min(16, os.cpu_count() or 4)) as ex:
        futs = {i: ex.submit(run_one, binary, op, i, tier, workdir, repo_files if (k == 0 and skel) else None) for k, i in enumerate(indices)}
        runs = {i: f.result() for i, f in futs.items()}
    try: os.rmdir(workdir)
    except OSError: pass
    for i in indices:
        r = runs[i]
        res["runs"].append({"index": i, "cmd": r["cmd"], "rc": r["rc"], "stdout": r["stdout"]})
        if r["rc"] != 0 or not r["counts"]:
            res["harness_errors"].append(f"{r['cmd']}: rc={r['rc']} {r['stderr']}")
    ok = [i for i in indices if runs[i]["rc"] == 0 and runs[i]["counts"]]
    if not ok:
        return res
    base = ok[0]
    n_lines = {"repo": 0, "substrate": 0, "dep": 0}
    for f, d in runs[base]["counts"].items():
        k, _ = classify(f, repo)
        if k != "self": n_lines[k] += len(d)
    res["lines_compared"] = n_lines
    for i in ok[1:]:
        d = diff_counts(runs[base]["counts"], runs[i]["counts"], repo)
        for kind in ("repo", "substrate"):
            if d[kind]:
                crate, f, ln, ca, cb = d[kind][0]
                res["failures"].append({"kind": kind, "a": runs[base]["cmd"], "b": runs[i]["cmd"], "a_inputs": runs[base]["stdout"], "b_inputs": runs[i]["stdout"],
                                        "n_lines": len(d[kind]), "crates": sorted({x[0] for x in d[kind]}),
                                        "first": f"{f}:{ln} executed {ca} vs {cb} times",
                                        "lines": [f"{x[1]}:{x[2]} {x[3]} vs {x[4]}" for x in d[kind][:12]]})
        for crate, f, ln, ca, cb in d["dep"]:
            e = res["dependency_lines_differing"].setdefault(crate, {"lines": 0, "example": f"{f}:{ln} {ca} vs {cb} ({runs[base]['cmd']} | {runs[i]['cmd']})"})
            e["lines"] += 1
    if skel:
        probs, info = skeleton_tie(skel, op, runs[base], repo)
        res["tie_problems"] = probs
        res["tie"] = info
    res["wall_s"] = round(time.time() - t0, 2)
    return res


def main():
    a = sys.argv[1:]
    if not a or a[0].startswith("-"):
        print(__doc__); sys.exit(2)
    op, n, indices, tier, binary, skelp, repo = a[0], 8, None, "quick", DEFAULT_BIN, DEFAULT_SKEL, os.environ.get("VERIF_REPO", "/repo")
    i = 1
    while i < len(a):
        if a[i] == "--n": n = int(a[i + 1])
        elif a[i] == "--indices": indices = [int(x) for x in a[i + 1].split(",")]
        elif a[i] == "--tier": tier = a[i + 1]
        elif a[i] == "--bin": binary = a[i + 1]
        elif a[i] == "--skel": skelp = a[i + 1]
        elif a[i] == "--repo": repo = a[i + 1]
        else: print("unknown argument", a[i]); sys.exit(2)
        i += 2
    skel = json.load(open(skelp)) if os.path.exists(skelp) else None
    r = measure_op(op, indices or list(range(n)), tier, binary, skel, repo)
    for x in r["runs"]: print(" ", x["cmd"], "->", x["stdout"] or f"rc={x['rc']}")
    print(json.dumps({k: v for k, v in r.items() if k != "runs"}, indent=1))
    sys.exit(1 if (r["failures"] or r["tie_problems"] or r["harness_errors"]) else 0)


if __name__ == "__main__":
    main()
