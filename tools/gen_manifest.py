#!/usr/bin/env python3
"""registry.json -> MANIFEST.json (kept valid at all times; run after editing registry.json)"""
import json, os
ROOT = os.path.join(os.path.dirname(os.path.abspath(__file__)), "..")
reg = json.load(open(os.path.join(ROOT, "registry.json")))
props = [json.loads(l) for l in open(os.path.join(ROOT, "properties.jsonl")) if l.strip()]
na_path = os.path.join(ROOT, "not_applicable.json")
na = json.load(open(na_path)) if os.path.exists(na_path) else {}
repo_commits = [l.split()[0] for l in os.popen("git -C /repo log --format='%h %s' 702fcb3..HEAD").read().splitlines() if " verif hook" in l]
checks = []
for p in props:
    pid = p["id"]
    if pid not in reg or reg[pid].get("disabled"): continue
    e = reg[pid]
    checks.append({
        "property_id": pid,
        "quick_cmd": f"./check {pid} --tier quick",
        "thorough_cmd": f"./check {pid} --tier thorough",
        "evidence_file": f"/verif/evidence/{pid}.json",
        "replay_cmd_template": f"./check {pid} --replay {{path}}",
        "engine": "lean4-proof+correspondence",
        "level_claimed": {"category": "proof", "text": e["level_text"], "design_ref": e.get("design_ref", "DESIGN.md §5 " + pid)},
        "level_note": e["level_note"],
        "technique": e.get("technique", "Lean 4 theorems about an executable model + differential correspondence check of the model against the Rust"),
    })
man = {
    "version": 1,
    "setup_cmd": "./setup.sh",
    "hooks": {
        "guard": "sl_crypto_verif",
        "enable": "RUSTFLAGS='--cfg sl_crypto_verif' (set in /verif/harness/.cargo/config.toml; the harness crate has path dependencies on /repo/crates/*)",
        "baseline_off_cmd": "cd /repo && cargo nextest run --workspace --no-fail-fast --offline  (fallback: cargo test --workspace --no-fail-fast --offline --lib --tests; the README doctests of sl-verifiable-enc do not compile on the pinned tree either and are not part of the 36-test baseline)",
        "source_commits": repo_commits,
        "add_only": True,
    },
    "engines": [{"name": "lean4-proof+correspondence", "path": "/verif/check",
                 "serves_properties": [c["property_id"] for c in checks],
                 "kind_free_text": "Lean 4 (kernel-checked theorems about executable models in /verif/lean) + Rust harness /verif/harness running the real crates and the compiled Lean model driver on the same inputs through a line protocol"}],
    "checks": checks,
    "not_applicable": [{"property_id": p["id"], "reason": na.get(p["id"], "check not built yet in this round (work in progress; see DESIGN.md §8 build order) — not a claim that the technique cannot apply")}
                       for p in props if p["id"] not in [c["property_id"] for c in checks]],
    "notes": "All checks share one entry point (./check <id>) and one Lean project; see DESIGN.md. known_findings.jsonl lists fixed/known defects.",
}
json.dump(man, open(os.path.join(ROOT, "MANIFEST.json"), "w"), indent=1)
print("MANIFEST.json:", len(checks), "checks,", len(man["not_applicable"]), "not claimed")
