//! C07 / C08: sl-paillier vs. the Lean model (Model/Paillier.lean), four limb configurations.
//! Predicates on the implementation's own outputs use the proved spec functions of the driver
//! (`pai specenc/specadd/specmul` = (1+mN)·r^N mod N², c1·c2 mod N², c^k mod N² on Lean's arbitrary-precision Nat)
//! and num-bigint-dig for r^N mod N and little-endian byte values.
use crate::{driver::Driver, report::{Failure, Report}, rng::case_rng, Opts};
use crypto_bigint::{Encoding, U1024, U128, U2048, U256, U4096, U512};
use num_bigint_dig::BigUint;
use rand::{Rng, RngCore};
use serde_json::json;
use sl_paillier::{RawCiphertext, SK};
use std::panic::{catch_unwind, AssertUnwindSafe};

fn hx(b: &[u8]) -> String { let s = hex::encode(b); let t = s.trim_start_matches('0'); if t.is_empty() { "0".into() } else { t.to_string() } }
fn big(h: &str) -> BigUint { BigUint::parse_bytes(h.as_bytes(), 16).unwrap() }
fn bhex(b: &BigUint) -> String { hx(&b.to_bytes_be()) }

/// `context`: request lines of the calls made just before on the same thread (cross-key sequences), prepended to a failure's replay lines
struct Ctx<'a> { drv: &'a mut Driver, rep: &'a mut Report, prop: &'a str, context: Vec<String> }

impl<'a> Ctx<'a> {
    /// one comparison: implementation value vs model answer (+ optional spec answer as predicate)
    fn cmp(&mut self, stream: &str, req: String, got: String, spec_req: Option<String>, key: &str, what: &str, nontrivial: bool) {
        let idx = self.rep.case(stream, if nontrivial { Some(&req) } else { None });
        let model = self.drv.ask(&req);
        if idx < 1 { self.rep.sample(json!({"stream": stream, "request": req, "impl": got, "model": model})); }
        if let Some(sr) = spec_req {
            let spec = self.drv.ask(&sr);
            if got != spec {
                self.rep.pred_fail(Failure { stream: stream.into(), index: idx, request: self.context.iter().cloned().chain([req.clone(), sr]).collect(), impl_out: got.clone(), model_out: spec, key: key.into(), what: what.into() });
            }
        }
        if got != model {
            self.rep.diverge(Failure { stream: stream.into(), index: idx, request: self.context.iter().cloned().chain([req]).collect(), impl_out: got, model_out: model, key: format!("{key}:model"), what: format!("Lean model and sl-paillier disagree ({stream})") });
        }
    }
    fn pred(&mut self, stream: &str, ok: bool, req: String, got: String, want: String, key: &str, what: &str) {
        if !ok {
            self.rep.pred_fail(Failure { stream: stream.into(), index: 0, request: vec![req], impl_out: got, model_out: want, key: key.into(), what: what.into() });
        }
    }
}

macro_rules! cfg_impl {
    ($name:ident, $UC:ty, $UM:ty, $UP:ty, $pbits:expr) => {
        mod $name {
            use super::*;
            type Sk = SK<{ <$UC>::LIMBS }, { <$UM>::LIMBS }, { <$UP>::LIMBS }>;
            pub const PBITS: usize = $pbits;
            fn um(b: &BigUint) -> $UM { let v = b.to_bytes_be(); let mut a = vec![0u8; <$UM>::BYTES]; let n = v.len().min(a.len()); a[<$UM>::BYTES - n..].copy_from_slice(&v[v.len() - n..]); <$UM>::from_be_slice(&a) }
            fn uc(b: &BigUint) -> $UC { let v = b.to_bytes_be(); let mut a = vec![0u8; <$UC>::BYTES]; let n = v.len().min(a.len()); a[<$UC>::BYTES - n..].copy_from_slice(&v[v.len() - n..]); <$UC>::from_be_slice(&a) }
            fn up(b: &BigUint) -> $UP { let v = b.to_bytes_be(); let mut a = vec![0u8; <$UP>::BYTES]; let n = v.len().min(a.len()); a[<$UP>::BYTES - n..].copy_from_slice(&v[v.len() - n..]); <$UP>::from_be_slice(&a) }
            fn hm(u: &$UM) -> String { hx(&u.to_be_bytes()) }
            fn hc(u: &$UC) -> String { hx(&u.to_be_bytes()) }

            pub fn gen_prime(rng: &mut (impl rand::CryptoRng + RngCore), bits: usize) -> BigUint {
                let p: $UP = crypto_primes::generate_prime_with_rng(rng, Some(bits));
                BigUint::from_bytes_be(&p.to_be_bytes())
            }

            /// all operations for one key and one (m1, m2, k, r1, r2) tuple
            /// `ops_inner` under catch_unwind: a panic of an operation on ADMITTED operands is a failure of the property's conclusion
            pub fn ops(cx: &mut Ctx, tag: &str, p: &BigUint, q: &BigUint, m1: &BigUint, m2: &BigUint, k: &BigUint, r1: &BigUint, r2: &BigUint, light: bool) {
                let r = catch_unwind(AssertUnwindSafe(|| ops_inner(&mut *cx, tag, p, q, m1, m2, k, r1, r2, light)));
                if r.is_err() {
                    let req = format!("pai enc {} {} {} {} {}", PBITS, bhex(p), bhex(q), bhex(m1), bhex(r1));
                    cx.pred(&format!("{tag}:panic"), false, req, "panic".into(), "a result".into(), "paillier:panic-on-admitted-operands", "a Paillier operation panics on admitted operands (key, plaintext below N, randomiser, scalar below N)");
                }
            }
            fn ops_inner(cx: &mut Ctx, tag: &str, p: &BigUint, q: &BigUint, m1: &BigUint, m2: &BigUint, k: &BigUint, r1: &BigUint, r2: &BigUint, light: bool) {
                let sk: Sk = match catch_unwind(AssertUnwindSafe(|| Sk::from_pq(&up(p), &up(q)))) { Ok(s) => s, Err(_) => { cx.rep.notes.push(format!("from_pq panicked for p={} q={}", bhex(p), bhex(q))); return; } };
                let pk = sk.public_key();
                let n = p * q; let nn = &n * &n;
                let pre = format!("{} {} {}", PBITS, bhex(p), bhex(q));
                let c7 = cx.prop == "C07";
                let msg = |m: &BigUint| pk.into_message(&um(m)).expect("m < N");
                // --- encryption
                let c1 = pk.encrypt_with_r(&msg(m1), &um(r1));
                let c2 = pk.encrypt_with_r(&msg(m2), &um(r2));
                let c1h = hc(&c1.to_uint()); let c2h = hc(&c2.to_uint());
                if c7 {
                    cx.cmp(&format!("{tag}:enc"), format!("pai enc {pre} {} {}", bhex(m1), bhex(r1)), c1h.clone(), Some(format!("pai specenc {pre} {} {}", bhex(m1), bhex(r1))), "paillier:enc!=spec", "ciphertext differs from (1+mN)·r^N mod N²", true);
                    let d = sk.decrypt(&c1); let df = sk.decrypt_fast(&c1);
                    cx.cmp(&format!("{tag}:dec"), format!("pai dec {pre} {c1h}"), hm(&d.to_uint()), None, "paillier:dec", "", true);
                    cx.cmp(&format!("{tag}:decfast"), format!("pai decfast {pre} {c1h}"), hm(&df.to_uint()), None, "paillier:decfast", "", true);
                    cx.pred(&format!("{tag}:dec"), hm(&d.to_uint()) == bhex(m1), format!("pai dec {pre} {c1h}"), hm(&d.to_uint()), bhex(m1), "paillier:decrypt(enc m)!=m", "standard decryption of an honest ciphertext does not return the plaintext");
                    cx.pred(&format!("{tag}:decfast"), hm(&df.to_uint()) == bhex(m1), format!("pai decfast {pre} {c1h}"), hm(&df.to_uint()), bhex(m1), "paillier:decrypt_fast(enc m)!=m", "CRT decryption of an honest ciphertext does not return the plaintext");
                    // paths agree on an arbitrary ciphertext coprime to N (here: c1*c2+... any unit): use r2^2 * (1+N*m2) style value c2 and a raw unit
                    let raw = (r2 * r2 + BigUint::from(1u8)) % &nn;
                    if num_integer_gcd(&raw, &n) {
                        let rc = RawCiphertext::from(uc(&raw));
                        let a = sk.decrypt(&rc); let b = sk.decrypt_fast(&rc);
                        cx.cmp(&format!("{tag}:dec-raw"), format!("pai dec {pre} {}", bhex(&raw)), hm(&a.to_uint()), None, "paillier:dec", "", true);
                        cx.cmp(&format!("{tag}:decfast-raw"), format!("pai decfast {pre} {}", bhex(&raw)), hm(&b.to_uint()), None, "paillier:decfast", "", true);
                        cx.pred(&format!("{tag}:paths-agree"), a == b, format!("pai decfast {pre} {}", bhex(&raw)), hm(&b.to_uint()), hm(&a.to_uint()), "paillier:paths-disagree", "decrypt and decrypt_fast disagree on a ciphertext coprime to N");
                    }
                    // n-th root
                    if !light {
                        let z = r1.modpow(&n, &n);
                        let root = sk.extract_n_root(&um(&z), &sk.extract_n_root_init_params());
                        cx.cmp(&format!("{tag}:nroot"), format!("pai nroot {pre} {}", bhex(&z)), hm(&root), None, "paillier:nroot", "", true);
                        cx.pred(&format!("{tag}:nroot"), hm(&root) == bhex(r1), format!("pai nroot {pre} {}", bhex(&z)), hm(&root), bhex(r1), "paillier:nroot!=r", "N-th root extraction of r^N mod N does not return r");
                    }
                } else {
                    // --- homomorphic operations (C08)
                    let s = pk.add(&c1, &c2);
                    cx.cmp(&format!("{tag}:add"), format!("pai add {pre} {c1h} {c2h}"), hc(&s.to_uint()), Some(format!("pai specadd {pre} {c1h} {c2h}")), "paillier:add!=c1*c2", "add result differs from c1·c2 mod N²", true);
                    let ds = hm(&sk.decrypt(&s).to_uint()); let want = bhex(&((m1 + m2) % &n));
                    cx.pred(&format!("{tag}:add"), ds == want, format!("pai add {pre} {c1h} {c2h}"), ds.clone(), want, "paillier:dec(add)!=m1+m2", "sum of ciphertexts does not decrypt to (m1+m2) mod N");
                    let pm = pk.mul(&c1, &msg(k)); let pv = pk.mul_vartime(&c1, &msg(k));
                    cx.cmp(&format!("{tag}:mul"), format!("pai mul {pre} {c1h} {}", bhex(k)), hc(&pm.to_uint()), Some(format!("pai specmul {pre} {c1h} {}", bhex(k))), "paillier:mul!=c^k", "mul result differs from c^k mod N²", true);
                    cx.cmp(&format!("{tag}:mulvt"), format!("pai mulvt {pre} {c1h} {}", bhex(k)), hc(&pv.to_uint()), None, "paillier:mulvt", "", true);
                    cx.pred(&format!("{tag}:mulvt"), pm == pv, format!("pai mulvt {pre} {c1h} {}", bhex(k)), hc(&pv.to_uint()), hc(&pm.to_uint()), "paillier:mul!=mul_vartime", "constant-time and variable-time scalar multiplication differ");
                    let dm = hm(&sk.decrypt(&pm).to_uint()); let want = bhex(&((k * m1) % &n));
                    cx.pred(&format!("{tag}:mul"), dm == want, format!("pai mul {pre} {c1h} {}", bhex(k)), dm.clone(), want, "paillier:dec(mul)!=k*m1", "scalar multiple does not decrypt to (k·m1) mod N");
                }
                // special and UNREDUCED operands (RawCiphertext::from_uint / from_be_bytes / serde do not validate):
                // the neutral element 1, 0, N^2-1, N^2, c1 + N^2, all-ones — in every pairing with c1 and with each other
                if !c7 && !light {
                    let width = BigUint::from(1u8) << (4 * PBITS);
                    let c1n = big(&c1h);
                    let specials: Vec<BigUint> = vec![BigUint::from(0u8), BigUint::from(1u8), &nn - 1u8, nn.clone(), (&c1n + &nn) % &width, &width - 1u8, c1n.clone()];
                    for (i, x) in specials.iter().enumerate() { for (j, y) in specials.iter().enumerate() {
                        if (i + j) % 2 == 1 && i > 1 && j > 1 { continue; }
                        let r = pk.add(&RawCiphertext::from(uc(x)), &RawCiphertext::from(uc(y)));
                        cx.cmp(&format!("{tag}:add-special"), format!("pai add {pre} {} {}", bhex(x), bhex(y)), hc(&r.to_uint()), Some(format!("pai specadd {pre} {} {}", bhex(x), bhex(y))), "paillier:add!=c1*c2", "add result differs from c1·c2 mod N² (special / unreduced operands)", true);
                    } }
                    for x in &specials { for kk in [BigUint::from(0u8), BigUint::from(1u8), BigUint::from(2u8)] {
                        if kk >= n { continue; }
                        let r = pk.mul(&RawCiphertext::from(uc(x)), &msg(&kk));
                        cx.cmp(&format!("{tag}:mul-special"), format!("pai mul {pre} {} {}", bhex(x), bhex(&kk)), hc(&r.to_uint()), Some(format!("pai specmul {pre} {} {}", bhex(x), bhex(&kk))), "paillier:mul!=c^k", "mul result differs from c^k mod N² (special / unreduced operands)", true);
                    } }
                }
                let _ = nn;
            }

            /// the homomorphic operations on RAW operands (c, c2 < 2^width, k < N): used to apply the very same operands
            /// under several keys in a row on one thread — the results are functions of (key, operands) only
            pub fn raw_ops(cx: &mut Ctx, tag: &str, p: &BigUint, q: &BigUint, c: &BigUint, c2: &BigUint, k: &BigUint) {
                let sk: Sk = match catch_unwind(AssertUnwindSafe(|| Sk::from_pq(&up(p), &up(q)))) { Ok(s) => s, Err(_) => return };
                let pk = sk.public_key();
                let pre = format!("{} {} {}", PBITS, bhex(p), bhex(q));
                let Some(km) = pk.into_message(&um(k)) else { return };
                let (rc, rc2) = (RawCiphertext::from(uc(c)), RawCiphertext::from(uc(c2)));
                let pv = pk.mul_vartime(&rc, &km);
                cx.cmp(&format!("{tag}:mulvt"), format!("pai mulvt {pre} {} {}", bhex(c), bhex(k)), hc(&pv.to_uint()), Some(format!("pai specmul {pre} {} {}", bhex(c), bhex(k))), "paillier:mulvt!=c^k", "mul_vartime result differs from c^k mod N² (same operands under another key just before)", true);
                let pm = pk.mul(&rc, &km);
                cx.cmp(&format!("{tag}:mul"), format!("pai mul {pre} {} {}", bhex(c), bhex(k)), hc(&pm.to_uint()), Some(format!("pai specmul {pre} {} {}", bhex(c), bhex(k))), "paillier:mul!=c^k", "mul result differs from c^k mod N² (same operands under another key just before)", true);
                let s = pk.add(&rc, &rc2);
                cx.cmp(&format!("{tag}:add"), format!("pai add {pre} {} {}", bhex(c), bhex(c2)), hc(&s.to_uint()), Some(format!("pai specadd {pre} {} {}", bhex(c), bhex(c2))), "paillier:add!=c1*c2", "add result differs from c1·c2 mod N² (same operands under another key just before)", true);
                cx.context.push(format!("pai rawops {pre} {} {} {}", bhex(c), bhex(c2), bhex(k)));
            }

            /// C07 counterpart of `raw_ops`: the same plaintext / randomiser / raw ciphertext / root argument under several keys
            pub fn raw_ops7(cx: &mut Ctx, tag: &str, p: &BigUint, q: &BigUint, m: &BigUint, r: &BigUint, c: &BigUint) {
                let sk: Sk = match catch_unwind(AssertUnwindSafe(|| Sk::from_pq(&up(p), &up(q)))) { Ok(s) => s, Err(_) => return };
                let pk = sk.public_key();
                let pre = format!("{} {} {}", PBITS, bhex(p), bhex(q));
                let Some(mm) = pk.into_message(&um(m)) else { return };
                let e = pk.encrypt_with_r(&mm, &um(r));
                cx.cmp(&format!("{tag}:enc"), format!("pai enc {pre} {} {}", bhex(m), bhex(r)), hc(&e.to_uint()), Some(format!("pai specenc {pre} {} {}", bhex(m), bhex(r))), "paillier:enc!=spec", "ciphertext differs from (1+mN)·r^N mod N² (same operands under another key just before)", true);
                let rc = RawCiphertext::from(uc(c));
                let (d, df) = (sk.decrypt(&rc), sk.decrypt_fast(&rc));
                cx.cmp(&format!("{tag}:dec"), format!("pai dec {pre} {}", bhex(c)), hm(&d.to_uint()), None, "paillier:dec", "", true);
                cx.cmp(&format!("{tag}:decfast"), format!("pai decfast {pre} {}", bhex(c)), hm(&df.to_uint()), None, "paillier:decfast", "", true);
                let (de, dfe) = (sk.decrypt(&e), sk.decrypt_fast(&e));
                cx.pred(&format!("{tag}:dec"), hm(&de.to_uint()) == bhex(m) && hm(&dfe.to_uint()) == bhex(m), format!("pai dec {pre} {}", hc(&e.to_uint())), format!("{} / {}", hm(&de.to_uint()), hm(&dfe.to_uint())), bhex(m), "paillier:decrypt(enc m)!=m", "decryption of an honest ciphertext does not return the plaintext (same operands under another key just before)");
                cx.context.push(format!("pai rawops7 {pre} {} {} {}", bhex(m), bhex(r), bhex(c)));
            }

            /// key-level checks: public fields, serialised round trip (2048 only elsewhere), message admission
            pub fn key_checks(cx: &mut Ctx, tag: &str, p: &BigUint, q: &BigUint, rng: &mut impl RngCore) {
                let sk: Sk = Sk::from_pq(&up(p), &up(q));
                let pk = sk.public_key();
                let pre = format!("{} {} {}", PBITS, bhex(p), bhex(q));
                let n = p * q;
                let got = format!("{},{},{}", hm(&pk.get_n()), hc(pk.get_nn()), hm(sk.get_phi()));
                let req = format!("pai key {pre}");
                let idx = cx.rep.case(&format!("{tag}:key"), Some(&req));
                let model = cx.drv.ask(&req);
                let m3: Vec<&str> = model.split(',').take(3).collect();
                if got != m3.join(",") { cx.rep.diverge(Failure { stream: format!("{tag}:key"), index: idx, request: vec![req], impl_out: got, model_out: model.clone(), key: "paillier:key:model".into(), what: "n, nn, phi differ".into() }); }
                // restored-from-minimal key behaves identically
                let min = sk.to_minimal();
                let sk2: Sk = min.into();
                let c = pk.encrypt_with_r(&pk.into_message(&um(&(BigUint::from(7u8) % &n))).unwrap(), &um(&(BigUint::from(2u8))));
                cx.pred(&format!("{tag}:restore"), sk2.decrypt(&c) == sk.decrypt(&c) && sk2.decrypt_fast(&c) == sk.decrypt_fast(&c) && sk2.get_phi() == sk.get_phi(), format!("pai key {pre}"), "restored key behaves differently".into(), "identical".into(), "paillier:restore", "a key restored from its minimal form behaves differently");
                if cx.prop != "C07" { return; }
                // byte strings of any length
                let bytes_len = <$UM>::BYTES;
                let nle = n.to_bytes_le();
                let mut cases: Vec<Vec<u8>> = vec![vec![], vec![0], vec![1], nle.clone(), (&n - 1u8).to_bytes_le(), (&n + 1u8).to_bytes_le()];
                let mut padded = (&n - 1u8).to_bytes_le(); padded.resize(bytes_len + 3, 0); cases.push(padded.clone());
                let mut over = vec![0u8; bytes_len]; over.push(1); cases.push(over);                       // value 2^(8*BYTES) >= N, low part 0
                let mut over2 = vec![5u8]; over2.resize(2 * bytes_len + 3, 0); *over2.last_mut().unwrap() = 1; cases.push(over2);   // low part 5 < N, high byte set
                cases.push(vec![0xff; bytes_len]); cases.push(vec![0xff; bytes_len - 1]); cases.push(vec![0u8; 2 * bytes_len + 3]);
                // small admissible value followed by excess bytes of every shape a combining guard could mishandle:
                // single, pair of equal bytes (XOR-cancelling), sum-to-zero, only the last, zero then non-zero
                for tail in [vec![1u8], vec![0x5a, 0x5a], vec![1, 2, 3], vec![0x80, 0, 0x80], vec![0xff, 0x01], vec![0, 0, 0, 7], vec![0, 0], vec![0xff; 4]] {
                    let mut b = vec![3u8]; b.resize(bytes_len, 0); b.extend_from_slice(&tail); cases.push(b);
                }
                for _ in 0..12 { let l = rng.gen_range(0..2 * bytes_len + 4); let mut b = vec![0u8; l]; rng.fill_bytes(&mut b); if rng.gen_bool(0.5) { let keep = rng.gen_range(0..=l.min(nle.len())); for x in b[keep..].iter_mut() { *x = 0; } } cases.push(b); }
                for b in cases {
                    let req = format!("pai message {pre} {}", if b.is_empty() { "-".into() } else { hex::encode(&b) });
                    let got = match pk.message(&b) { Some(m) => format!("some:{}", hm(&m.to_uint())), None => "none".into() };
                    let v = BigUint::from_bytes_le(&b);
                    let want = if v < n { format!("some:{}", bhex(&v)) } else { "none".into() };
                    let idx = cx.rep.case(&format!("{tag}:message"), Some(&req));
                    cx.rep.hist(if b.len() > bytes_len { "message:longer-than-width" } else { "message:within-width" });
                    let model = cx.drv.ask(&req);
                    if got != want { cx.rep.pred_fail(Failure { stream: format!("{tag}:message"), index: idx, request: vec![req.clone()], impl_out: got.clone(), model_out: want, key: if b.len() > bytes_len { "paillier:message-truncates".into() } else { "paillier:message-admission".into() }, what: "a byte string is admitted as plaintext although its little-endian value is not below N (or rejected although it is)".into() }); }
                    if got != model { cx.rep.diverge(Failure { stream: format!("{tag}:message"), index: idx, request: vec![req], impl_out: got, model_out: model, key: "paillier:message:model".into(), what: "Lean model Paillier.message and PK::message disagree".into() }); }
                }
            }
        }
    };
}

fn num_integer_gcd(a: &BigUint, n: &BigUint) -> bool { use num_bigint_dig::ModInverse; a.clone().mod_inverse(n).is_some() }

cfg_impl!(c128, U512, U256, U128, 128);
cfg_impl!(c256, U1024, U512, U256, 256);
cfg_impl!(c512, U2048, U1024, U512, 512);
cfg_impl!(c1024, U4096, U2048, U1024, 1024);

fn unit_below(rng: &mut impl RngCore, n: &BigUint) -> BigUint {
    loop { let mut b = vec![0u8; n.to_bytes_be().len() + 1]; rng.fill_bytes(&mut b); let r = BigUint::from_bytes_be(&b) % n; if r > BigUint::from(0u8) && num_integer_gcd(&r, n) { return r; } }
}
fn below(rng: &mut impl RngCore, n: &BigUint) -> BigUint { let mut b = vec![0u8; n.to_bytes_be().len() + 1]; rng.fill_bytes(&mut b); BigUint::from_bytes_be(&b) % n }

fn valid_toy(p: u32, q: u32) -> bool {
    fn gcd(a: u64, b: u64) -> u64 { if b == 0 { a } else { gcd(b, a % b) } }
    p != q && gcd((p * q) as u64, ((p - 1) * (q - 1)) as u64) == 1
}

fn serde_2048(cx: &mut Ctx, p: &BigUint, q: &BigUint) {
    use sl_paillier::{PK2048, SK2048};
    let up = |b: &BigUint| { let v = b.to_bytes_be(); let mut a = vec![0u8; 128]; a[128 - v.len()..].copy_from_slice(&v); U1024::from_be_slice(&a) };
    let sk = SK2048::from_pq(&up(p), &up(q));
    let pk = sk.public_key();
    let j = serde_json::to_string(&sk).unwrap(); let sk2: SK2048 = serde_json::from_str(&j).unwrap();
    let b = bincode::serialize(&sk).unwrap(); let sk3: SK2048 = bincode::deserialize(&b).unwrap();
    let pj = serde_json::to_string(&pk).unwrap(); let pk2: PK2048 = serde_json::from_str(&pj).unwrap();
    let m = pk.message(&[9, 8, 7]).unwrap();
    let r = U2048::from_u64(123456789);
    let c = pk.encrypt_with_r(&m, &r);
    let ok = pk2.encrypt_with_r(&m, &r) == c && sk2.decrypt(&c) == m && sk3.decrypt_fast(&c) == m && sk2.get_phi() == sk.get_phi() && sk3.to_minimal() == sk.to_minimal();
    cx.rep.case("serde-2048", Some("json+bincode"));
    cx.pred("serde-2048", ok, "pai key 1024 …".into(), "restored key/ciphertext differ".into(), "identical behaviour".into(), "paillier:serde", "a key restored from its serialised form (JSON / bincode) behaves differently");
}

pub fn replay(drv: &mut Driver, rep: &mut Report, lines: &[String], prop: &str) {
    // re-run the implementation side for the request classes that are self-contained
    let mut cx = Ctx { drv, rep, prop, context: vec![] };
    let mut saw_raw = false;
    for l in lines {
        let t: Vec<&str> = l.split(' ').collect();
        if t.len() >= 5 && t[0] == "pai" {
            let pb: usize = t[2].parse().unwrap_or(0); let (p, q) = (big(t[3]), big(t[4]));
            let one = BigUint::from(1u8);
            let arg = |i: usize| t.get(i).map(|h| big(h)).unwrap_or_else(|| BigUint::from(1u8));
            macro_rules! go { ($m:ident) => { match t[1] {
                "message" => { let mut r = case_rng(1, "replay"); $m::key_checks(&mut cx, "replay", &p, &q, &mut r) }
                "enc" if !saw_raw => $m::ops(&mut cx, "replay", &p, &q, &arg(5), &one, &one, &arg(6), &one, false),
                "mulvt" | "mul" if saw_raw => { let keep = std::mem::take(&mut cx.context); $m::raw_ops(&mut cx, "replay", &p, &q, &arg(5), &one, &arg(6)); cx.context = keep; }
                "add" if saw_raw => { let keep = std::mem::take(&mut cx.context); $m::raw_ops(&mut cx, "replay", &p, &q, &arg(5), &arg(6), &BigUint::from(2u8)); cx.context = keep; }
                "rawops7" => { saw_raw = true; let keep = std::mem::take(&mut cx.context); $m::raw_ops7(&mut cx, "replay", &p, &q, &arg(5), &arg(6), &arg(7)); cx.context = keep; }
                "enc" if saw_raw => { let keep = std::mem::take(&mut cx.context); $m::raw_ops7(&mut cx, "replay", &p, &q, &arg(5), &arg(6), &one); cx.context = keep; }
                "dec" | "decfast" if saw_raw => { let keep = std::mem::take(&mut cx.context); $m::raw_ops7(&mut cx, "replay", &p, &q, &one, &one, &arg(5)); cx.context = keep; }
                "rawops" => { saw_raw = true; let keep = std::mem::take(&mut cx.context); $m::raw_ops(&mut cx, "replay", &p, &q, &arg(5), &arg(6), &arg(7)); cx.context = keep; }
                "specmul" | "specadd" => {}
                _ => { let mut r = case_rng(1, "replay"); let n = &p * &q; let (m1, m2, k, r1, r2) = (below(&mut r, &n), below(&mut r, &n), below(&mut r, &n), unit_below(&mut r, &n), unit_below(&mut r, &n)); $m::ops(&mut cx, "replay", &p, &q, &m1, &m2, &k, &r1, &r2, false) }
            } } }
            match pb { 128 => go!(c128), 256 => go!(c256), 512 => go!(c512), 1024 => go!(c1024), _ => {} }
        }
    }
}

pub fn run(o: &Opts, drv: &mut Driver, rep: &mut Report, prop: &str) {
    let thorough = o.tier == "thorough";
    let mut rng = case_rng(o.seed, "c07");
    let mut cx = Ctx { drv, rep, prop, context: vec![] };
    let b = |v: u32| BigUint::from(v);
    // ---- toy keys: exhaustive over (m, r) [C07] / (m1, m2, k) [C08]
    let primes = [3u32, 5, 7, 11, 13, 17, 19, 23, 29, 31];
    let exhaustive_bound = if thorough { 13 } else { 7 };
    for &p in &primes { for &q in &primes {
        if !valid_toy(p, q) { continue; }
        let n = p * q;
        let units: Vec<u32> = (1..n).filter(|r| r % p != 0 && r % q != 0).collect();
        if p <= exhaustive_bound && q <= exhaustive_bound {
            if prop == "C07" {
                for m in 0..n { for &r in &units { c128::ops(&mut cx, "toy-exhaustive", &b(p), &b(q), &b(m), &b(0), &b(1), &b(r), &b(1), n > 40); } }
            } else {
                let step = if thorough { 1 } else { 3 };
                for m1 in 0..n { for m2 in (0..n).step_by(step) { let k = (m1 * 7 + m2 * 3 + 1) % n; c128::ops(&mut cx, "toy-exhaustive", &b(p), &b(q), &b(m1), &b(m2), &b(k), &b(units[(m1 as usize) % units.len()]), &b(units[(m2 as usize) % units.len()]), true); } }
                for k in 0..n { for m1 in (0..n).step_by(step) { c128::ops(&mut cx, "toy-exhaustive", &b(p), &b(q), &b(m1), &b(n - 1), &b(k), &b(units[(k as usize) % units.len()]), &b(1), true); } }
            }
        } else if thorough || (p + q) % 5 == (o.seed % 5) as u32 {
            for m in [0, 1, n / 2, n - 1] { for &r in units.iter().step_by((units.len() / 6).max(1)) { c128::ops(&mut cx, "toy-sampled", &b(p), &b(q), &b(m), &b(n - 1 - m), &b((m * 5 + 1) % n), &b(r), &b(units[units.len() - 1]), false); } }
        }
        if p <= 7 && q <= 7 { c128::key_checks(&mut cx, "toy", &b(p), &b(q), &mut rng); }
    } }
    cx.rep.exhaustive.push(format!("all valid toy keys with primes <= {exhaustive_bound}: every plaintext x every unit randomiser (C07) / plaintext pairs and scalars (C08)"));
    // ---- real sizes, four limb configurations, p<q and p>q, 2k- and (2k-1)-bit moduli, primes narrower than the limb width
    macro_rules! sized { ($m:ident, $nkeys:expr, $ncases:expr) => {{
        for kidx in 0..$nkeys {
            let bits = if kidx % 3 == 2 { $m::PBITS - 5 } else { $m::PBITS };
            let (mut p, mut q) = ($m::gen_prime(&mut rng, bits), $m::gen_prime(&mut rng, bits));
            if p == q { continue; }
            if (kidx % 2 == 0) != (p < q) { std::mem::swap(&mut p, &mut q); }
            let n = &p * &q;
            let tag = format!("P{}", $m::PBITS);
            cx.rep.hist(&format!("{tag}:{}:N-bits={}", if p < q { "p<q" } else { "p>q" }, if n.bits() == 2 * bits { "2k" } else { "2k-1" }));
            $m::key_checks(&mut cx, &tag, &p, &q, &mut rng);
            // plaintexts placed relative to the key: m* = -N^-1 mod 2^W (W = width of the plaintext integer type) makes the low
            // half of 1 + m*N all ones (a carry into the high half), m = (2^W - 1) / N … ; with their neighbours, when below N
            {
                use num_bigint_dig::ModInverse;
                let w = BigUint::from(1u8) << (2 * $m::PBITS);
                let one = BigUint::from(1u8);
                let mut specials: Vec<BigUint> = vec![];
                if let Some(inv) = (&n % &w).mod_inverse(&w).and_then(|i| i.to_biguint()) { let ms = (&w - inv) % &w; specials.push(ms); }
                specials.push((&w - &one) / &n); specials.push(&w / &n); specials.push(&n >> 1); specials.push((&n >> 1) + &one);
                for ms in specials { for d in [0i32, -1, 1] {
                    let m = if d == 0 { ms.clone() } else if d < 0 { if ms == BigUint::from(0u8) { continue } else { &ms - &one } } else { &ms + &one };
                    if m >= n { continue; }
                    cx.rep.hist(&format!("{tag}:key-relative plaintext"));
                    let (r1, r2) = (unit_below(&mut rng, &n), unit_below(&mut rng, &n));
                    $m::ops(&mut cx, &tag, &p, &q, &m, &(&n - &one), &m, &r1, &r2, true);
                } }
            }
            // scalars (and plaintexts) at machine-word boundaries: 2^e - 1, 2^e, 2^e + 1 for e = 31, 32, 63, 64, 127, 128
            {
                let wb: Vec<BigUint> = [31u32, 32, 63, 64, 127, 128].iter().flat_map(|e| { let t = BigUint::from(1u8) << (*e as usize); vec![&t - 1u8, t.clone(), &t + 1u8] }).filter(|x| x < &n).collect();
                for kk in wb {
                    let (r1, r2) = (unit_below(&mut rng, &n), unit_below(&mut rng, &n));
                    cx.rep.hist(&format!("{tag}:word-boundary scalar"));
                    $m::ops(&mut cx, &tag, &p, &q, &below(&mut rng, &n), &kk, &kk, &r1, &r2, true);
                }
            }
            for c in 0..$ncases {
                let one = BigUint::from(1u8); let zero = BigUint::from(0u8);
                let (m1, m2, k) = match c % 5 { 0 => (zero.clone(), &n - &one, one.clone()), 1 => (&n - &one, &n - &one, &n - &one), 2 => (one.clone(), zero.clone(), zero.clone()), 3 => (below(&mut rng, &n), &n - &one, BigUint::from(1u8) << (bits - 3)), _ => (below(&mut rng, &n), below(&mut rng, &n), below(&mut rng, &n)) };
                let r1 = if c % 7 == 3 { &n - &one } else if c % 7 == 5 { one.clone() } else { unit_below(&mut rng, &n) };
                let r2 = unit_below(&mut rng, &n);
                $m::ops(&mut cx, &tag, &p, &q, &m1, &m2, &k, &r1, &r2, false);
            }
        }
    }} }
    let s = o.scale as usize;
    if thorough { sized!(c128, 6, 80 * s); sized!(c256, 4, 60 * s); sized!(c512, 3, 40 * s); sized!(c1024, 2, 25 * s); }
    else { sized!(c128, 3, 12 * s); sized!(c256, 2, 8 * s); sized!(c512, 2, 5 * s); sized!(c1024, 1, 3 * s); }
    if prop == "C07" {
        let (p, q) = (c1024::gen_prime(&mut rng, 1024), c1024::gen_prime(&mut rng, 1024));
        serde_2048(&mut cx, &p, &q);
        // ---- the SAME (plaintext, randomiser, raw ciphertext) under several keys in a row on one thread
        macro_rules! cross7 { ($m:ident, $rounds:expr) => {{
            let keys: Vec<(BigUint, BigUint)> = (0..3).map(|i| { let bits = if i == 2 { $m::PBITS - 5 } else { $m::PBITS }; ($m::gen_prime(&mut rng, bits), $m::gen_prime(&mut rng, bits)) }).filter(|(p, q)| p != q).collect();
            let nmin = keys.iter().map(|(p, q)| p * q).min().unwrap();
            for _ in 0..$rounds {
                let (m, r, c) = (below(&mut rng, &nmin), unit_below(&mut rng, &nmin), below(&mut rng, &(&nmin * &nmin)));
                cx.context.clear();
                for i in [0usize, 1, 0, 2, 1] { if let Some((p, q)) = keys.get(i) { if num_integer_gcd(&r, &(p * q)) && num_integer_gcd(&c, &(p * q)) { $m::raw_ops7(&mut cx, &format!("cross-key-P{}", $m::PBITS), p, q, &m, &r, &c); } } }
            }
        }} }
        if thorough { cross7!(c128, 20 * s); cross7!(c256, 10 * s); cross7!(c512, 6 * s); cross7!(c1024, 3 * s); }
        else { cross7!(c128, 4 * s); cross7!(c256, 2 * s); cross7!(c512, 1 * s); cross7!(c1024, 1 * s); }
        cx.context.clear();
    } else {
        // ---- the SAME operands under several keys in a row (A, B, A, C, B …): add / mul / mul_vartime are functions of
        //      (key, operands); whatever a call leaves behind (a memo, a cached modulus) must not reach the next key
        let toys: Vec<(u32, u32)> = primes.iter().flat_map(|&p| primes.iter().map(move |&q| (p, q))).filter(|&(p, q)| valid_toy(p, q) && p * q >= 15).collect();
        for round in 0..(if thorough { 40 } else { 6 }) * o.scale as usize {
            let (c, c2, k) = (b(rng.gen_range(2..200)), b(rng.gen_range(1..200)), b(rng.gen_range(2..15)));
            cx.context.clear();
            for i in 0..5 { let (p, q) = toys[(round * 7 + i * 3 + (i % 2) * round) % toys.len()]; c128::raw_ops(&mut cx, "cross-key-toy", &b(p), &b(q), &c, &c2, &k); }
        }
        macro_rules! cross { ($m:ident, $rounds:expr) => {{
            let keys: Vec<(BigUint, BigUint)> = (0..3).map(|i| { let bits = if i == 2 { $m::PBITS - 5 } else { $m::PBITS }; ($m::gen_prime(&mut rng, bits), $m::gen_prime(&mut rng, bits)) }).filter(|(p, q)| p != q).collect();
            let nmin = keys.iter().map(|(p, q)| p * q).min().unwrap();
            for _ in 0..$rounds {
                let (c, c2) = (below(&mut rng, &(&nmin * &nmin)), below(&mut rng, &(&nmin * &nmin)));
                let k = if rng.gen_bool(0.5) { BigUint::from(rng.gen_range(2u32..1000)) } else { below(&mut rng, &nmin) };
                cx.context.clear();
                for i in [0usize, 1, 0, 2, 1] { if let Some((p, q)) = keys.get(i) { $m::raw_ops(&mut cx, &format!("cross-key-P{}", $m::PBITS), p, q, &c, &c2, &k); } }
            }
        }} }
        if thorough { cross!(c128, 20 * s); cross!(c256, 10 * s); cross!(c512, 6 * s); cross!(c1024, 3 * s); }
        else { cross!(c128, 4 * s); cross!(c256, 2 * s); cross!(c512, 1 * s); cross!(c1024, 1 * s); }
        cx.context.clear();
    }
}
