//! C01 / C02: random vector OLE — rvole.rs (OT-extension variant, "ext") and rvole_ot_variant.rs (base-OT variant,
//! "ot") vs. the Lean model (Model/Rvole.lean, driver namespace `rvole`) through the merlin / secp256k1 oracle.
//!   C01: one honest exchange; receiver-new, sender-process, receiver-process are each compared with the model
//!        (messages, b, c, d, tape consumption) and the conclusion  c_i + d_i == a_i * b  is judged with k256 on the
//!        implementation's own outputs.  Seeds of the ext variant: synthetic (`generate_all_but_one_seed_ot`) or the
//!        real pipeline EndemicOT -> build_pprf / eval_pprf (also compared with the model's `pipelineSeeds`).
//!   C02: honest message accepted; a message altered in transit (bit flips, overwrites, swaps, splices from another
//!        session / run) => Err, or — when only the base-OT part of the variant's message was touched — Err or
//!        c + d == a*b intact; the calibrated adversarial sender (Lean `advSender`) is accepted iff every guess of the
//!        receiver's choice bit is right, and then d is the honest d when all the guessed bits are 0.
//! Scenario lines (replayable; all tapes and synthetic seeds are regenerated from `<seed>`):
//!   `c01 <ext|ot> <syn|pipe|na> <sid> <a0> <a1> <seed> <tweak> <kind> [<args>]`
//!   kind: honest | flip <positions> | mut <name> <pseed> | splice <other> <region> | adv <devs>
use crate::{c20::{sc_from_hex, sc_hex}, driver::Driver, oracle, report::{Failure, Report}, rng::{case_rng, TapeRng}, Opts};
use k256::Scalar;
use rand::{seq::SliceRandom, Rng, RngCore};
use rand_core::SeedableRng;
use serde_json::json;
use sl_oblivious::{
    endemic_ot::{EndemicOTMsg1, EndemicOTMsg2, EndemicOTReceiver, EndemicOTSender},
    params::consts::*,
    rvole, rvole_ot_variant as otv,
    soft_spoken::{build_pprf, eval_pprf, generate_all_but_one_seed_ot, PPRFOutput, ReceiverOTSeed, Round1Output, SenderOTSeed},
    utils::ExtractBit,
};
use std::collections::HashMap;
use std::panic::{catch_unwind, AssertUnwindSafe};
use std::rc::Rc;

const XI: usize = L;
const A_BYTES: usize = XI * L_BATCH_PLUS_RHO * KAPPA_BYTES;     // a_tilde
const E_BYTES: usize = RHO * KAPPA_BYTES;                       // eta
const H_BYTES: usize = 64;                                      // mu_hash
const CORE_BYTES: usize = A_BYTES + E_BYTES + H_BYTES;          // RVOLEOutput
const OT_MSG: usize = LAMBDA_C * 66;                            // EndemicOTMsg1 / EndemicOTMsg2
const ROW: usize = L_BATCH_PLUS_RHO * KAPPA_BYTES;
const EXT_RTAPE: usize = L_BYTES + (L_PRIME_BYTES - L_BYTES);
const EOT_RTAPE: usize = 128 + 512 * 32;

fn clip(s: &str) -> String { if s.len() > 300 { format!("{}…[{}]", &s[..300], s.len()) } else { s.to_string() } }
fn flip(m: &mut [u8], pos: usize) { m[pos / 8] ^= 1 << (pos % 8); }
fn sc2(v: &[Scalar; 2]) -> String { format!("{},{}", sc_hex(&v[0]), sc_hex(&v[1])) }
fn relation_ok(a: &[Scalar; 2], b: &Scalar, c: &[Scalar; 2], d: &[Scalar; 2]) -> bool { (0..2).all(|i| c[i] + d[i] == a[i] * b) }

#[derive(Clone, Copy, PartialEq, Eq, Debug)]
pub enum Variant { Ext, Ot }
impl Variant {
    fn s(self) -> &'static str { match self { Variant::Ext => "ext", Variant::Ot => "ot" } }
    /// offset of the RVOLEOutput-shaped tail inside the round-two message
    fn core_off(self) -> usize { match self { Variant::Ext => 0, Variant::Ot => 2 * OT_MSG } }
    fn msg_len(self) -> usize { self.core_off() + CORE_BYTES }
}

// ------------------------------------------------------------------ oracle

/// `oracle::answer`, except that a merlin query whose operations extend those of the previous merlin query (the 512
/// successive challenges of the gadget vector on one growing transcript) continues from the saved transcript state
/// instead of re-hashing the common prefix.  Same library, same answers.
fn answer(q: &str) -> String {
    use std::cell::RefCell;
    thread_local! { static LAST: RefCell<Option<(String, String, merlin::Transcript)>> = RefCell::new(None); }
    let Some(rest) = q.strip_prefix("merlin ") else { return oracle::answer(q) };
    let (init, ops) = rest.split_once(' ').unwrap_or((rest, ""));
    if ops.len() < 4096 { return oracle::answer(q); }
    LAST.with(|l| {
        let mut l = l.borrow_mut();
        let (mut t, tail) = match l.as_ref() {
            Some((i, o, t)) if i == init && ops.len() > o.len() && ops.starts_with(o.as_str()) && ops.as_bytes()[o.len()] == b';' => (t.clone(), &ops[o.len() + 1..]),
            _ => (merlin::Transcript::new(leak(&unhex(init))), ops),
        };
        let mut last = vec![];
        for op in tail.split(';').filter(|s| !s.is_empty()) {
            let f: Vec<&str> = op.split(':').collect();
            match f[0] {
                "m" => t.append_message(leak(&unhex(f[1])), &unhex(f[2])),
                "u" => t.append_u64(leak(&unhex(f[1])), f[2].parse().expect("u64")),
                "c" => { let mut buf = vec![0u8; f[2].parse().expect("len")]; t.challenge_bytes(leak(&unhex(f[1])), &mut buf); last = buf; }
                x => panic!("oracle: bad transcript op {x}"),
            }
        }
        *l = Some((init.to_string(), ops.to_string(), t));
        if last.is_empty() { "-".into() } else { hex::encode(last) }
    })
}
fn unhex(h: &str) -> Vec<u8> { if h == "-" { vec![] } else { hex::decode(h).expect("oracle: bad hex") } }
/// merlin wants `&'static [u8]` labels: intern them (a handful of distinct labels)
fn leak(b: &[u8]) -> &'static [u8] {
    use std::cell::RefCell;
    thread_local! { static T: RefCell<HashMap<Vec<u8>, &'static [u8]>> = RefCell::new(HashMap::new()); }
    T.with(|t| *t.borrow_mut().entry(b.to_vec()).or_insert_with(|| Box::leak(b.to_vec().into_boxed_slice())))
}

// ------------------------------------------------------------------ deterministic material of a scenario

fn chacha(seed: u64, tag: &[u8; 4]) -> rand_chacha::ChaCha20Rng {
    let mut s = [0u8; 32]; s[..8].copy_from_slice(&seed.to_le_bytes()); s[8..12].copy_from_slice(tag);
    rand_chacha::ChaCha20Rng::from_seed(s)
}

/// (receiver tape, sender tape).
/// tweak 0: random; 1: beta all-0; 2: beta all-1; 3: ext: all-zero tapes (eta0 = 0) / ot: first scalar draw of every
/// party >= q (rejection sampling retries); 4: ext: all-FF tapes; 5: eta0 = 0, beta random (ext: all-zero sender tape; ot: the
/// sender tape is zero after the two base-OT senders' draws)
/// 6: beta with whole 64-bit words zero (each with probability 1/2); 7: beta one-hot; 8: beta with 3 of 4 bytes zero
fn structured_beta(beta: &mut [u8], seed: u64, tweak: u32) {
    let mut rng = chacha(seed ^ 0x6265_7461, b"c01b");
    match tweak {
        6 => { let mut any = false; for w in beta.chunks_mut(8) { if rng.next_u32() & 1 == 0 { w.iter_mut().for_each(|b| *b = 0); any = true; } }
               if !any { beta[..8].iter_mut().for_each(|b| *b = 0); } }
        7 => { beta.iter_mut().for_each(|b| *b = 0); let j = (rng.next_u32() as usize) % (beta.len() * 8); beta[j / 8] = 1 << (j % 8); }
        8 => { for b in beta.iter_mut() { if rng.next_u32() & 3 != 0 { *b = 0; } } }
        _ => {}
    }
}
fn tapes(v: Variant, seed: u64, tweak: u32) -> (Vec<u8>, Vec<u8>) {
    let mut rng = chacha(seed, b"c01t");
    match v {
        Variant::Ext => {
            let mut r = vec![0u8; EXT_RTAPE + 8]; rng.fill_bytes(&mut r);
            let mut s = vec![0u8; 64 * RHO + 8]; rng.fill_bytes(&mut s);
            match tweak {
                1 => r[..L_BYTES].iter_mut().for_each(|b| *b = 0),
                2 => r[..L_BYTES].iter_mut().for_each(|b| *b = 0xff),
                3 => { r.iter_mut().for_each(|b| *b = 0); s.iter_mut().for_each(|b| *b = 0); }
                4 => { r.iter_mut().for_each(|b| *b = 0xff); s.iter_mut().for_each(|b| *b = 0xff); }
                5 => s.iter_mut().for_each(|b| *b = 0),
                6..=8 => structured_beta(&mut r[..L_BYTES], seed, tweak),
                _ => {}
            }
            (r, s)
        }
        Variant::Ot => {
            let mut r = vec![0u8; 2 * EOT_RTAPE + 1024]; rng.fill_bytes(&mut r);
            let mut s = vec![0u8; 2 * 512 * 32 + 64 * RHO + 1024]; rng.fill_bytes(&mut s);
            match tweak {
                1 => { for h in 0..2 { r[h * EOT_RTAPE..h * EOT_RTAPE + 128].iter_mut().for_each(|b| *b = 0); } }
                2 => { for h in 0..2 { r[h * EOT_RTAPE..h * EOT_RTAPE + 128].iter_mut().for_each(|b| *b = 0xff); } }
                3 => { r[128..160].iter_mut().for_each(|b| *b = 0xff); s[..32].iter_mut().for_each(|b| *b = 0xff); }
                6..=8 => { for h in 0..2 { structured_beta(&mut r[h * EOT_RTAPE..h * EOT_RTAPE + 128], seed + h as u64, tweak); } }
                5 => s[2 * 512 * 32..].iter_mut().for_each(|b| *b = 0),      // the eta0 draws (after the two base-OT senders' draws) are zero
                // 9: zero exponents of the base-OT SENDERS in a few slots (both points of the slot are the identity: an honest message)
                9 => { for o in [0usize, 64 * 255, 512 * 32 + 64 * 3] { s[o..o + 64].iter_mut().for_each(|b| *b = 0); } }
                _ => {}
            }
            (r, s)
        }
    }
}

#[derive(Clone)]
struct Seeds { s: Box<SenderOTSeed>, r: Box<ReceiverOTSeed> }
fn enc_hex(sd: &Seeds) -> String { hex::encode(bytemuck::bytes_of(&*sd.s)) }
fn dec_hex(sd: &Seeds) -> String { hex::encode(bytemuck::bytes_of(&sd.r.otp_dec_keys)) }
fn rc_hex(sd: &Seeds) -> String { hex::encode(sd.r.random_choices) }

fn synthetic_seeds(seed: u64) -> Seeds {
    let (s, r) = generate_all_but_one_seed_ot(&mut chacha(seed, b"c01s"));
    Seeds { s: Box::new(s), r: Box::new(r) }
}

fn pipe_tapes(seed: u64) -> (Vec<u8>, Vec<u8>) {
    let mut rng = chacha(seed, b"c01p");
    let mut r = vec![0u8; EOT_RTAPE + 512]; rng.fill_bytes(&mut r);
    let mut s = vec![0u8; 512 * 32 + 512]; rng.fill_bytes(&mut s);
    (r, s)
}

/// seeds from the real pipeline: EndemicOT (base OT) -> build_pprf / eval_pprf (all-but-one OT), all under `sid`
fn pipeline_seeds(seed: u64, sid: &[u8]) -> Option<Seeds> {
    let (tr, ts) = pipe_tapes(seed);
    catch_unwind(AssertUnwindSafe(|| {
        let mut msg1 = EndemicOTMsg1::default();
        let recv = EndemicOTReceiver::new(sid, &mut msg1, &mut TapeRng::new(tr));
        let mut msg2 = EndemicOTMsg2::default();
        let sender_out = EndemicOTSender::process(sid, &msg1, &mut msg2, &mut TapeRng::new(ts)).ok()?;
        let recv_out = recv.process(&msg2).ok()?;
        let mut s = Box::new(SenderOTSeed::default());
        let mut r = Box::new(ReceiverOTSeed::default());
        let mut pprf = PPRFOutput::default();
        build_pprf(sid, &sender_out, &mut s, &mut pprf);
        eval_pprf(sid, &recv_out, &pprf, &mut r).ok()?;
        Some(Seeds { s, r })
    })).ok().flatten()
}

// ------------------------------------------------------------------ the real code

type Shares = [Scalar; 2];

fn ext_recv_new(sid: &[u8; 32], s: &SenderOTSeed, tape: &[u8]) -> Option<(Box<rvole::RVOLEReceiver>, Vec<u8>, Scalar, usize)> {
    catch_unwind(AssertUnwindSafe(|| {
        let mut r1 = Box::new(Round1Output::default());
        let mut rng = TapeRng::new(tape.to_vec());
        let (st, b) = rvole::RVOLEReceiver::new(*sid, s, &mut r1, &mut rng);
        (st, bytemuck::bytes_of(&*r1).to_vec(), b, rng.used)
    })).ok()
}

/// Some(Ok((c, RVOLEOutput bytes, tape used))) | Some(Err(())) = AbortProtocolAndBanReceiver | None = panic
fn ext_send(sid: &[u8], r: &ReceiverOTSeed, a: &Shares, r1: &[u8], tape: &[u8]) -> Option<Result<(Shares, Vec<u8>, usize), ()>> {
    catch_unwind(AssertUnwindSafe(|| {
        let m: Box<Round1Output> = Box::new(bytemuck::pod_read_unaligned(r1));
        let mut out = Box::new(rvole::RVOLEOutput::default());
        let mut rng = TapeRng::new(tape.to_vec());
        match rvole::RVOLESender::process(sid, r, a, &m, &mut out, &mut rng) {
            Ok(c) => {
                // out-buffer probe
                let mut out2 = Box::new(rvole::RVOLEOutput::default());
                bytemuck::bytes_of_mut(&mut *out2).iter_mut().for_each(|b| *b = crate::report::dirty_fill(tape));
                if rvole::RVOLESender::process(sid, r, a, &m, &mut out2, &mut TapeRng::new(tape.to_vec())).is_ok() && bytemuck::bytes_of(&*out2) != bytemuck::bytes_of(&*out) { crate::report::outbuf_dependence("RVOLESender::process(RVOLEOutput)"); }
                Ok((c, bytemuck::bytes_of(&*out).to_vec(), rng.used)) }
            Err(_) => Err(()),
        }
    })).ok()
}

fn ext_recv_proc(st: &rvole::RVOLEReceiver, msg: &[u8]) -> Option<Result<Shares, String>> {
    catch_unwind(AssertUnwindSafe(|| {
        let m: Box<rvole::RVOLEOutput> = Box::new(bytemuck::pod_read_unaligned(msg));
        st.process(&m).map_err(|e| e.to_string())
    })).ok()
}

struct OtRecv { st: Box<otv::RVOLEReceiver>, ra: Box<EndemicOTReceiver>, rb: Box<EndemicOTReceiver> }

/// `RVOLEReceiver::process` of the variant consumes the two boxed base-OT receivers, which are not `Clone`:
/// bitwise duplicate (plain arrays of bytes and scalars, no heap pointers)
fn dup(r: &EndemicOTReceiver) -> Box<EndemicOTReceiver> { Box::new(unsafe { std::ptr::read(r) }) }

fn ot_recv_new(sid: &[u8; 32], tape: &[u8]) -> Option<(OtRecv, Vec<u8>, Scalar, usize)> {
    catch_unwind(AssertUnwindSafe(|| {
        let mut m1 = Box::new(otv::RVOLEMsg1::default());
        let mut rng = TapeRng::new(tape.to_vec());
        let (st, ra, rb, b) = otv::RVOLEReceiver::new(*sid, &mut m1, &mut rng);
        {
            let mut m2 = Box::new(otv::RVOLEMsg1::default());
            bytemuck::bytes_of_mut(&mut *m2).iter_mut().for_each(|b| *b = crate::report::dirty_fill(tape));
            let _ = otv::RVOLEReceiver::new(*sid, &mut m2, &mut TapeRng::new(tape.to_vec()));
            if bytemuck::bytes_of(&*m2) != bytemuck::bytes_of(&*m1) { crate::report::outbuf_dependence("RVOLEReceiver::new(RVOLEMsg1), base-OT variant"); }
        }
        (OtRecv { st, ra, rb }, bytemuck::bytes_of(&*m1).to_vec(), b, rng.used)
    })).ok()
}

/// (Ok(c) | Err(reason), the RVOLEMsg2 buffer as left by the call, tape used)
fn ot_send(sid: &[u8], a: &Shares, msg1: &[u8], tape: &[u8]) -> Option<(Result<Shares, String>, Vec<u8>, usize)> {
    catch_unwind(AssertUnwindSafe(|| {
        let m1: Box<otv::RVOLEMsg1> = Box::new(bytemuck::pod_read_unaligned(msg1));
        let mut out = Box::new(otv::RVOLEMsg2::default());
        let mut rng = TapeRng::new(tape.to_vec());
        let r = otv::RVOLESender::process(sid, a, &m1, &mut out, &mut rng).map_err(|e| e.to_string());
        if r.is_ok() {
            let mut out2 = Box::new(otv::RVOLEMsg2::default());
            bytemuck::bytes_of_mut(&mut *out2).iter_mut().for_each(|b| *b = crate::report::dirty_fill(tape));
            if otv::RVOLESender::process(sid, a, &m1, &mut out2, &mut TapeRng::new(tape.to_vec())).is_ok() && bytemuck::bytes_of(&*out2) != bytemuck::bytes_of(&*out) { crate::report::outbuf_dependence("RVOLESender::process(RVOLEMsg2), base-OT variant"); }
        }
        (r, bytemuck::bytes_of(&*out).to_vec(), rng.used)
    })).ok()
}

fn ot_recv_proc(r: &OtRecv, msg2: &[u8]) -> Option<Result<Shares, String>> {
    catch_unwind(AssertUnwindSafe(|| {
        let m: Box<otv::RVOLEMsg2> = Box::new(bytemuck::pod_read_unaligned(msg2));
        r.st.process(&m, dup(&r.ra), dup(&r.rb)).map_err(|e| e.to_string())
    })).ok()
}

fn res_str(r: &Option<Result<Shares, String>>) -> String {
    match r { None => "panic".into(), Some(Ok(d)) => format!("ok:{}", sc2(d)), Some(Err(e)) => format!("err:{}", e.replace(' ', "_")) }
}

// ------------------------------------------------------------------ an honest exchange (cached)

#[derive(Clone, PartialEq, Eq, Hash, Debug)]
pub struct Key { v: &'static str, prov: String, sid: [u8; 32], a: [String; 2], seed: u64, tweak: u32 }
impl Key {
    fn variant(&self) -> Variant { if self.v == "ext" { Variant::Ext } else { Variant::Ot } }
    fn line(&self) -> String { format!("c01 {} {} {} {} {} {} {}", self.v, self.prov, hex::encode(self.sid), self.a[0], self.a[1], self.seed, self.tweak) }
    fn a(&self) -> Shares { [sc_from_hex(&self.a[0]).unwrap_or(Scalar::ZERO), sc_from_hex(&self.a[1]).unwrap_or(Scalar::ZERO)] }
}

pub struct Base {
    key: Key, a: Shares, tape_s: Vec<u8>,
    seeds: Option<Seeds>, r1: Vec<u8>,                 // ext: seeds and round-one message; ot: RVOLEMsg1 in r1
    ext: Option<Box<rvole::RVOLEReceiver>>, ot: Option<OtRecv>,
    /// the receiver's state as the model wants it: ext `<beta> <v_x>`, ot `<beta> <t_a of a> <t_a of b>`
    mstate: String,
    beta: Vec<u8>, b: Scalar, msg2: Vec<u8>, c: Shares, d: Shares,
}
impl Base {
    fn recv(&self, msg: &[u8]) -> Option<Result<Shares, String>> {
        match (&self.ext, &self.ot) { (Some(st), _) => ext_recv_proc(st, msg), (_, Some(r)) => ot_recv_proc(r, msg), _ => None }
    }
    fn proc_req(&self, msg: &[u8]) -> String {
        format!("rvole {} {} {} {}", if self.ext.is_some() { "recvproc" } else { "otrecvproc" }, hex::encode(self.key.sid), self.mstate, hex::encode(msg))
    }
    fn beta_bit(&self, j: usize) -> bool { self.beta.extract_bit(j) }
}

struct Ctx<'a> { drv: &'a mut Driver, rep: &'a mut Report, cache: HashMap<Key, Option<Rc<Base>>>, pipe_checked: u32, pipe_budget: u32 }

impl<'a> Ctx<'a> {
    fn ask(&mut self, req: &str) -> String {
        let t = std::time::Instant::now();
        let q0 = self.drv.oracle_queries;
        let r = self.drv.ask_with(req, &mut |q| answer(q));
        if std::env::var("RVOLE_TIMING").is_ok() { let op: Vec<&str> = req.splitn(3, ' ').collect(); eprintln!("  model {} {}: {:?}, {} queries", op[0], op[1], t.elapsed(), self.drv.oracle_queries - q0); }
        r
    }
    fn diverge(&mut self, stream: &str, idx: u64, line: &str, key: &str, what: &str, imp: &str, model: &str) {
        self.rep.diverge(Failure { stream: stream.into(), index: idx, request: vec![line.to_string()], impl_out: clip(imp), model_out: clip(model), key: key.into(), what: what.into() });
    }
    fn pred(&mut self, stream: &str, idx: u64, line: &str, key: &str, what: String, imp: &str, expect: &str) {
        self.rep.pred_fail(Failure { stream: stream.into(), index: idx, request: vec![line.to_string()], impl_out: clip(imp), model_out: expect.into(), key: key.into(), what });
    }

    /// the honest exchange of `key`: the three steps of the real code, each compared with the model, and the
    /// conclusions "accepted" (C02) and c + d = a*b (C01) on the implementation's outputs
    fn base(&mut self, key: &Key) -> Option<Rc<Base>> {
        if let Some(b) = self.cache.get(key) { return b.clone(); }
        let b = self.build(key).map(Rc::new);
        self.cache.insert(key.clone(), b.clone());
        b
    }

    fn build(&mut self, key: &Key) -> Option<Base> {
        let v = key.variant();
        let line = format!("{} honest", key.line());
        let stream = format!("honest-{}-{}", key.v, key.prov);
        let idx = self.rep.case(&stream, Some(&line));
        let a = key.a();
        let (tape_r, tape_s) = tapes(v, key.seed, key.tweak);
        let sid_h = hex::encode(key.sid);
        let a_s = format!("{},{}", key.a[0], key.a[1]);
        self.rep.hist(&format!("variant:{}", key.v));
        self.rep.hist(&format!("seeds:{}", key.prov));
        self.rep.hist(&format!("tape-tweak:{}", key.tweak));
        for i in 0..2 { self.rep.hist(&format!("a{}:{}", i, class_of(&a[i]))); }
        self.rep.hist(&format!("sid:{}", if key.sid == [0u8; 32] { "all-00" } else if key.sid == [0xff; 32] { "all-ff" } else { "other" }));
        match v {
            Variant::Ext => {
                let seeds = if key.prov == "pipe" {
                    let sd = pipeline_seeds(key.seed, &key.sid);
                    if sd.is_none() { self.pred(&stream, idx, &line, "rvole:pipeline-failed", "the honest base-OT + PPRF pipeline returned Err".into(), "Err", "Ok"); }
                    let sd = sd?;
                    if self.pipe_checked < self.pipe_budget {
                        self.pipe_checked += 1;
                        let (tr, ts) = pipe_tapes(key.seed);
                        let model = self.ask(&format!("rvole pipeline {} {} {}", sid_h, hex::encode(tr), hex::encode(ts)));
                        let imp = format!("ok:{}:{}:{}", enc_hex(&sd), rc_hex(&sd), dec_hex(&sd));
                        self.rep.hist("pipeline:compared-with-model");
                        if imp != model { self.diverge(&stream, idx, &line, "rvole:pipeline-model", "Lean pipelineSeeds (Endemic -> Pprf) and the real EndemicOT -> build_pprf/eval_pprf pipeline disagree", &imp, &model); }
                    }
                    sd
                } else if key.prov.starts_with("syn:") {
                    // synthetic seeds with EVERY punctured index set to one value ("syn:0" = all zero: what the pipeline yields when the
                    // base-OT choice bits are all ones; "syn:15" = all fifteen)
                    let d: u8 = key.prov[4..].parse().unwrap_or(0);
                    let mut sd = synthetic_seeds(key.seed);
                    for i in 0..sd.r.random_choices.len() { sd.r.otp_dec_keys[i] = sd.s.otp_enc_keys[i]; sd.r.random_choices[i] = d; sd.r.otp_dec_keys[i][d as usize] = [0u8; 32]; }
                    sd
                } else { synthetic_seeds(key.seed) };
                // ---- receiver, round one
                let got = ext_recv_new(&key.sid, &seeds.s, &tape_r);
                let req = format!("rvole recvnew {} {} {}", sid_h, enc_hex(&seeds), hex::encode(&tape_r));
                let model = self.ask(&req);
                let imp = match &got { None => "panic".to_string(), Some((st, r1, b, used)) => {
                    let sb = bytemuck::bytes_of(&**st);
                    format!("{}:{}:{}:{}:{}", hex::encode(r1), sc_hex(b), hex::encode(&sb[32..32 + L_BYTES]), hex::encode(&sb[32 + 2 * L_BYTES..]), used) } };
                if imp != model { self.diverge(&stream, idx, &line, "rvole:recvnew-model", "Lean receiverNew and RVOLEReceiver::new disagree (round-one message, b, beta, v_x, tape)", &imp, &model); }
                if got.is_none() { self.pred(&stream, idx, &line, "rvole:honest-panic:ext", "RVOLEReceiver::new panics in an honest run (this build checks arithmetic overflow)".into(), "panic", "b, round-one message"); }
                let (st, r1, b, used) = got?;
                if used != EXT_RTAPE { self.rep.hist("unexpected-receiver-tape-consumption"); }
                let sb = bytemuck::bytes_of(&*st).to_vec();
                if sb[32..32 + L_BYTES] != sb[32 + L_BYTES..32 + 2 * L_BYTES] { self.pred(&stream, idx, &line, "rvole:choices-ne-beta", "the choices handed to the OT extension are not beta".into(), "", ""); }
                let beta = sb[32..32 + L_BYTES].to_vec();
                let mstate = format!("{} {}", hex::encode(&beta), hex::encode(&sb[32 + 2 * L_BYTES..]));
                // ---- sender
                let sgot = ext_send(&key.sid, &seeds.r, &a, &r1, &tape_s);
                let sreq = format!("rvole send {} {} {} {} {} {}", sid_h, rc_hex(&seeds), dec_hex(&seeds), a_s, hex::encode(&r1), hex::encode(&tape_s));
                let smodel = self.ask(&sreq);
                let simp = match &sgot { None => "panic".to_string(), Some(Err(())) => "ban".into(), Some(Ok((c, m, u))) => format!("ok:{}:{}:{}", sc2(c), hex::encode(m), u) };
                if simp != smodel { self.diverge(&stream, idx, &line, "rvole:send-model", "Lean senderProcess and RVOLESender::process disagree (c, RVOLEOutput, tape)", &simp, &smodel); }
                let (c, msg2, _) = match sgot { Some(Ok(x)) => x, _ => { self.pred(&stream, idx, &line, "rvole:honest-round1-rejected", "the sender rejects an honest round-one message".into(), &simp, "ok"); return None; } };
                let base = Base { key: key.clone(), a, tape_s, seeds: Some(seeds), r1, ext: Some(st), ot: None, mstate, beta, b, msg2, c, d: [Scalar::ZERO; 2] };
                self.finish(base, &stream, idx, &line)
            }
            Variant::Ot => {
                let got = ot_recv_new(&key.sid, &tape_r);
                let req = format!("rvole otrecvnew {} {}", sid_h, hex::encode(&tape_r));
                let model = self.ask(&req);
                let f: Vec<&str> = model.split(':').collect();
                if f.len() != 6 { self.diverge(&stream, idx, &line, "rvole:otrecvnew-model", "malformed model answer", "", &model); return None; }
                let imp = match &got { None => "panic".to_string(), Some((r, m1, b, used)) => {
                    let sb = bytemuck::bytes_of(&*r.st);
                    format!("{}:{}:{}:{}", hex::encode(m1), sc_hex(b), hex::encode(&sb[32..32 + L_BYTES]), used) } };
                let mdl = format!("{}:{}:{}:{}", f[0], f[1], f[2], f[5]);
                if imp != mdl { self.diverge(&stream, idx, &line, "rvole:otrecvnew-model", "Lean receiverNewOt and RVOLEReceiver::new (base-OT variant) disagree (RVOLEMsg1, b, beta, tape)", &imp, &mdl); }
                if got.is_none() { self.pred(&stream, idx, &line, "rvole:honest-panic:ot", "RVOLEReceiver::new (base-OT variant) panics in an honest run (this build checks arithmetic overflow)".into(), "panic", "b, RVOLEMsg1"); }
                let (r, m1, b, _) = got?;
                let beta = bytemuck::bytes_of(&*r.st)[32..32 + L_BYTES].to_vec();
                let mstate = format!("{} {} {}", hex::encode(&beta), f[3], f[4]);
                let sgot = ot_send(&key.sid, &a, &m1, &tape_s);
                let sreq = format!("rvole otsend {} {} {} {}", sid_h, a_s, hex::encode(&m1), hex::encode(&tape_s));
                let smodel = self.ask(&sreq);
                let simp = match &sgot { None => "panic".to_string(), Some((Ok(c), m, u)) => format!("ok:{}:{}:{}", sc2(c), hex::encode(m), u), Some((Err(e), m, u)) => format!("err:{}:{}:{}", e.replace(' ', "_"), hex::encode(m), u) };
                if simp != smodel { self.diverge(&stream, idx, &line, "rvole:otsend-model", "Lean senderProcessOt and RVOLESender::process (base-OT variant) disagree (c, RVOLEMsg2, tape)", &simp, &smodel); }
                let (c, msg2) = match sgot { Some((Ok(c), m, _)) => (c, m), _ => { self.pred(&stream, idx, &line, "rvole:honest-round1-rejected", "the sender rejects an honest RVOLEMsg1".into(), &simp, "ok"); return None; } };
                let base = Base { key: key.clone(), a, tape_s, seeds: None, r1: m1, ext: None, ot: Some(r), mstate, beta, b, msg2, c, d: [Scalar::ZERO; 2] };
                self.finish(base, &stream, idx, &line)
            }
        }
    }

    /// receiver, round two, on the honest message + the two conclusions
    fn finish(&mut self, mut base: Base, stream: &str, idx: u64, line: &str) -> Option<Base> {
        let got = base.recv(&base.msg2);
        let imp = res_str(&got);
        let model = self.ask(&base.proc_req(&base.msg2));
        if imp != model { self.diverge(stream, idx, line, "rvole:recvproc-model", "Lean receiverProcess and RVOLEReceiver::process disagree (honest message)", &imp, &model); }
        let ones = (0..XI).filter(|j| base.beta_bit(*j)).count();
        self.rep.hist(if ones == 0 { "beta:all-0" } else if ones == XI { "beta:all-1" } else { "beta:mixed" });
        self.rep.hist(if bool::from(k256::elliptic_curve::Field::is_zero(&base.b)) { "b:zero" } else { "b:nonzero" });
        match got {
            Some(Ok(d)) => {
                base.d = d;
                if !relation_ok(&base.a, &base.b, &base.c, &d) {
                    self.pred(stream, idx, line, &format!("rvole:relation:{}", base.key.v), format!("c_i + d_i != a_i * b on the outputs of an honest {} exchange", base.key.v), &format!("a={} b={} c={} d={}", sc2(&base.a), sc_hex(&base.b), sc2(&base.c), sc2(&d)), "c+d == a*b");
                }
                if idx < 1 { self.rep.sample(json!({"scenario": line, "b": sc_hex(&base.b), "c": sc2(&base.c), "d": sc2(&d), "a": sc2(&base.a)})); }
                Some(base)
            }
            _ => { self.pred(stream, idx, line, &format!("rvole:honest-rejected:{}", base.key.v), "an honest round-two message is not accepted".into(), &imp, "ok"); None }
        }
    }
}

fn rand_scalar(rng: &mut dyn RngCore) -> Scalar {
    use k256::elliptic_curve::{bigint::Encoding, ops::Reduce};
    let mut b = [0u8; 32]; rng.fill_bytes(&mut b);
    <Scalar as Reduce<k256::U256>>::reduce(k256::U256::from_be_bytes(b))
}

fn class_of(x: &Scalar) -> &'static str {
    if *x == Scalar::ZERO { "0" } else if *x == Scalar::ONE { "1" } else if *x == -Scalar::ONE { "q-1" } else { "random" }
}

// ------------------------------------------------------------------ C02: tampering in transit

/// judge one altered message on the implementation's own output; `name` = class of the alteration
fn judge(cx: &mut Ctx, base: &Base, stream: &str, idx: u64, line: &str, name: &str, msg: &[u8], got: &Option<Result<Shares, String>>) {
    let off = base.key.variant().core_off();
    let touches_core = msg[off..] != base.msg2[off..];
    // EXCLUDED POINT (probability 2^-512): with beta = 0 no verifier of this protocol reads eta (it only enters as beta_j * eta)
    let eo = off + A_BYTES;
    if base.beta.iter().all(|b| *b == 0) && msg[..eo] == base.msg2[..eo] && msg[eo + E_BYTES..] == base.msg2[eo + E_BYTES..] {
        cx.rep.hist("excluded-point:beta=0 (eta is never read)");
        if let Some(Ok(d)) = got { if !relation_ok(&base.a, &base.b, &base.c, d) { cx.pred(stream, idx, line, "rvole:excluded-point-relation", "eta altered at beta = 0: accepted with shares violating the relation".into(), &res_str(got), "c+d == a*b"); } }
        return;
    }
    match got {
        None => cx.pred(stream, idx, line, &format!("rvole:tamper-panic:{name}"), format!("the receiver panics on an altered round-two message ({name})"), "panic", "Err"),
        Some(Err(_)) => cx.rep.hist("tamper-verdict:err"),
        Some(Ok(d)) => {
            if touches_core {
                cx.pred(stream, idx, line, &format!("rvole:tamper-accepted:{}:{name}", base.key.v), format!("a round-two message altered in a_tilde / eta / mu_hash ({name}) is accepted"), &res_str(got), "Err");
            } else if !relation_ok(&base.a, &base.b, &base.c, d) {
                cx.pred(stream, idx, line, &format!("rvole:tamper-wrong-shares:{}:{name}", base.key.v), format!("an altered round-two message ({name}) is accepted with shares violating c + d = a*b"), &res_str(got), "Err or c+d == a*b");
            } else { cx.rep.hist("tamper-verdict:accepted-relation-intact(base-OT part only)"); }
        }
    }
}

fn region_of(v: Variant, pos_bit: usize) -> &'static str {
    let byte = pos_bit / 8;
    let off = v.core_off();
    if byte < off { if byte < OT_MSG { "ot_msg2_a" } else { "ot_msg2_b" } }
    else if byte < off + A_BYTES { "a_tilde" } else if byte < off + A_BYTES + E_BYTES { "eta" } else { "mu_hash" }
}

fn parse_positions(s: &str) -> Vec<usize> {
    let mut v = vec![];
    for it in s.split(',') {
        let p: Vec<&str> = it.split('-').collect();
        match p.len() {
            1 => if let Ok(x) = usize::from_str_radix(p[0], 16) { v.push(x) },
            2 => if let (Ok(a), Ok(b)) = (usize::from_str_radix(p[0], 16), usize::from_str_radix(p[1], 16)) { v.extend(a..b) },
            _ => {}
        }
    }
    v
}

/// single-bit flips at `positions`: the real receiver on each; model verdicts (and outputs, if accepted) in one
/// batched `rvole flips` request
fn flips(cx: &mut Ctx, base: &Base, stream: &str, positions: &[usize], items: &str) {
    let v = base.key.variant();
    let req = format!("rvole {} {} {} {} {}", if v == Variant::Ext { "flips" } else { "otflips" }, hex::encode(base.key.sid), base.mstate, hex::encode(&base.msg2), items);
    let model = cx.ask(&req);
    let mv: Vec<&str> = model.split(',').collect();
    if mv.len() != positions.len() {
        cx.diverge(stream, 0, &format!("{} flip {}", base.key.line(), items), "rvole:flips-model", "the model answered a different number of verdicts", &format!("{} positions", positions.len()), &model);
        return;
    }
    for (n, &pos) in positions.iter().enumerate() {
        let line = format!("{} flip {:x}", base.key.line(), pos);
        let idx = cx.rep.case(stream, Some(&line));
        let reg = region_of(v, pos);
        cx.rep.hist(&format!("flip:{}:{}", base.key.v, reg));
        let mut m = base.msg2.clone(); flip(&mut m, pos);
        let got = base.recv(&m);
        judge(cx, base, stream, idx, &line, &format!("bitflip-{reg}"), &m, &got);
        let imp = match &got { None => "p".to_string(), Some(Err(e)) => if e == "Decode error" { "e".into() } else { "0".into() }, Some(Ok(d)) => format!("1/{}/{}", sc_hex(&d[0]), sc_hex(&d[1])) };
        if imp != mv[n] { cx.diverge(stream, idx, &line, "rvole:flips-model", &format!("model and implementation differ on the message with bit {pos} ({reg}) flipped"), &imp, mv[n]); }
    }
}

/// named alterations of the round-two message, derived from (name, pseed); returns None for an unknown name.
/// `model_op` = the Lean tamper operator producing the same bytes (ext variant), when there is one
fn mutation(base: &Base, name: &str, pseed: u64) -> Option<(Vec<u8>, Option<String>)> {
    let v = base.key.variant();
    let off = v.core_off();
    let mut rng = chacha(pseed, b"c02m");
    let mut m = base.msg2.clone();
    let hexm = hex::encode(&base.msg2);
    let row = |j: usize| off + j * ROW;
    let ent = |j: usize, i: usize| off + j * ROW + i * KAPPA_BYTES;
    let eta = off + A_BYTES; let muh = off + A_BYTES + E_BYTES;
    let mut op: Option<String> = None;
    let set = |m: &mut Vec<u8>, o: usize, data: Vec<u8>, op: &mut Option<String>| { m[o..o + data.len()].copy_from_slice(&data); if v == Variant::Ext { *op = Some(format!("rvole tamper set {} {:x} {}", hexm, o, hex::encode(&data))); } };
    let swap = |m: &mut Vec<u8>, o1: usize, o2: usize, len: usize, op: &mut Option<String>| { let x = base.msg2[o1..o1 + len].to_vec(); let y = base.msg2[o2..o2 + len].to_vec(); m[o1..o1 + len].copy_from_slice(&y); m[o2..o2 + len].copy_from_slice(&x); if v == Variant::Ext { *op = Some(format!("rvole tamper swap {} {:x} {:x} {:x}", hexm, o1, o2, len)); } };
    let (field, rest) = name.split_once(':').unwrap_or((name, ""));
    let target = |rng: &mut rand_chacha::ChaCha20Rng| -> Option<(usize, usize)> { match rest {
        "entry" => Some((ent(rng.gen_range(0..XI), rng.gen_range(0..L_BATCH)), KAPPA_BYTES)),
        "check-entry" => Some((ent(rng.gen_range(0..XI), L_BATCH), KAPPA_BYTES)),
        "row" => Some((row(rng.gen_range(0..XI)), ROW)),
        "first-row" => Some((row(0), ROW)), "last-row" => Some((row(XI - 1), ROW)),
        "a_tilde" => Some((off, A_BYTES)),
        "eta" => Some((eta, E_BYTES)), "mu_hash" => Some((muh, H_BYTES)),
        "eta+mu_hash" => Some((eta, E_BYTES + H_BYTES)),
        _ if rest.starts_with("entry@") => { let (j, i) = rest[6..].split_once('.')?; Some((ent(j.parse().ok()?, i.parse().ok()?), KAPPA_BYTES)) }
        _ => None } };
    match field {
        "multibit" => { let w: usize = rest.parse().ok()?; let mut ps: Vec<usize> = (off * 8..v.msg_len() * 8).collect(); ps.shuffle(&mut rng); for &p in &ps[..w] { flip(&mut m, p); } }
        "overwrite-random" => { let (o, l) = target(&mut rng)?; let mut d = vec![0u8; l]; rng.fill_bytes(&mut d); set(&mut m, o, d, &mut op); }
        "overwrite-zero" => { let (o, l) = target(&mut rng)?; set(&mut m, o, vec![0u8; l], &mut op); }
        "overwrite-ff" => { let (o, l) = target(&mut rng)?; set(&mut m, o, vec![0xff; l], &mut op); }
        "complement" => { let (o, l) = target(&mut rng)?; let d: Vec<u8> = base.msg2[o..o + l].iter().map(|b| !*b).collect(); set(&mut m, o, d, &mut op); }
        "increment" => { // the scalar + 1 (big-endian), a minimal arithmetic change
            let (o, l) = target(&mut rng)?; let mut d = base.msg2[o..o + l.min(KAPPA_BYTES)].to_vec(); let mut i = d.len(); loop { i -= 1; d[i] = d[i].wrapping_add(1); if d[i] != 0 || i == 0 { break; } } set(&mut m, o, d, &mut op); }
        "noncanonical" => { // the same scalar in its second 256-bit encoding x + q (exists only for x < 2^256 - q)
            let (o, _) = target(&mut rng)?;
            const Q: [u8; 32] = [0xFF,0xFF,0xFF,0xFF,0xFF,0xFF,0xFF,0xFF,0xFF,0xFF,0xFF,0xFF,0xFF,0xFF,0xFF,0xFE,0xBA,0xAE,0xDC,0xE6,0xAF,0x48,0xA0,0x3B,0xBF,0xD2,0x5E,0x8C,0xD0,0x36,0x41,0x41];
            let mut d = base.msg2[o..o + KAPPA_BYTES].to_vec(); let mut carry = 0u16;
            for i in (0..32).rev() { let t = d[i] as u16 + Q[i] as u16 + carry; d[i] = t as u8; carry = t >> 8; }
            if carry != 0 { return Some((m, None)); }      // no second encoding: no-op
            set(&mut m, o, d, &mut op); }
        "overwrite-byte" => { let o = off + rng.gen_range(0..CORE_BYTES); let d = vec![base.msg2[o].wrapping_add(1 + rng.gen_range(0..255u8))]; set(&mut m, o, d, &mut op); }
        "swap" => match rest {
            "rows" => { let i = rng.gen_range(0..XI); let j = (i + 1 + rng.gen_range(0..XI - 1)) % XI; swap(&mut m, row(i), row(j), ROW, &mut op); }
            "adjacent-rows" => { let i = rng.gen_range(0..XI - 1); swap(&mut m, row(i), row(i + 1), ROW, &mut op); }
            "batch-entries" => { let j = rng.gen_range(0..XI); swap(&mut m, ent(j, 0), ent(j, 1), KAPPA_BYTES, &mut op); }
            "entry-with-check-entry" => { let j = rng.gen_range(0..XI); swap(&mut m, ent(j, 0), ent(j, L_BATCH), KAPPA_BYTES, &mut op); }
            "entry-with-eta" => { let j = rng.gen_range(0..XI); swap(&mut m, ent(j, L_BATCH), eta, KAPPA_BYTES, &mut op); }
            "mu_hash-halves" => swap(&mut m, muh, muh + 32, 32, &mut op),
            "ot-instances" if v == Variant::Ot => { let i = rng.gen_range(0..LAMBDA_C); let j = (i + 1 + rng.gen_range(0..LAMBDA_C - 1)) % LAMBDA_C; let h = rng.gen_range(0..2) * OT_MSG; swap(&mut m, h + 66 * i, h + 66 * j, 66, &mut op); }
            "ot-messages" if v == Variant::Ot => swap(&mut m, 0, OT_MSG, OT_MSG, &mut op),
            _ => return None },
        "rotate" => match rest {
            "rows" => m[off..off + A_BYTES].rotate_left(ROW),
            "entries" => m[off..off + A_BYTES].rotate_left(KAPPA_BYTES),
            "one-byte" => m[off..].rotate_left(1),
            _ => return None },
        // base-OT part of the variant's message: slot `c` = the one the receiver reads, `u` = the other one
        "ot" if v == Variant::Ot => {
            let j = rng.gen_range(0..XI); let bit = base.beta_bit(j) as usize;
            let (h, k) = if j < LAMBDA_C { (0, j) } else { (OT_MSG, j - LAMBDA_C) };
            let (what, slot) = rest.rsplit_once('@')?;
            let s = if slot == "chosen" { bit } else { 1 - bit };
            let o = h + 66 * k + 33 * s;
            match what {
                "negate" => m[o] ^= 1,
                "identity" => m[o..o + 33].iter_mut().for_each(|b| *b = 0),
                "tag04" => m[o] = 4,
                "compact05" => m[o] = 5,
                "random-x" => rng.fill_bytes(&mut m[o + 1..o + 33]),
                "other-slot-copy" => { let src = base.msg2[h + 66 * k + 33 * (1 - s)..h + 66 * k + 33 * (2 - s)].to_vec(); m[o..o + 33].copy_from_slice(&src); }
                _ => return None }
        }
        _ => return None,
    }
    Some((m, op))
}

pub const MUTATIONS: [&str; 36] = [
    "multibit:2", "multibit:3", "multibit:8", "multibit:64",
    "overwrite-random:entry", "overwrite-random:check-entry", "overwrite-random:row", "overwrite-random:a_tilde", "overwrite-random:eta", "overwrite-random:mu_hash", "overwrite-random:eta+mu_hash",
    "overwrite-zero:entry", "overwrite-zero:row", "overwrite-zero:a_tilde", "overwrite-zero:eta", "overwrite-zero:mu_hash",
    "overwrite-ff:entry", "overwrite-ff:eta", "complement:entry", "complement:first-row", "complement:last-row", "complement:eta", "complement:mu_hash",
    "increment:entry", "increment:check-entry", "increment:eta", "overwrite-byte",
    "swap:rows", "swap:adjacent-rows", "swap:batch-entries", "swap:entry-with-check-entry", "swap:entry-with-eta", "swap:mu_hash-halves",
    "rotate:rows", "rotate:entries", "rotate:one-byte",
];
pub const OT_MUTATIONS: [&str; 14] = [
    "swap:ot-instances", "swap:ot-messages",
    "ot:negate@chosen", "ot:identity@chosen", "ot:tag04@chosen", "ot:compact05@chosen", "ot:random-x@chosen", "ot:other-slot-copy@chosen",
    "ot:negate@other", "ot:identity@other", "ot:tag04@other", "ot:compact05@other", "ot:random-x@other", "ot:other-slot-copy@other",
];

/// one altered message: real receiver, model receiver, predicate
fn altered(cx: &mut Ctx, base: &Base, stream: &str, line: &str, name: &str, msg: &[u8], model_op: Option<String>) {
    if msg == &base.msg2[..] { cx.rep.hist("mut:skipped-noop"); return; }
    let idx = cx.rep.case(stream, Some(line));
    cx.rep.hist(&format!("mut:{}:{name}", base.key.v));
    if let Some(op) = model_op {
        let bytes = cx.ask(&op);
        if bytes != hex::encode(msg) { cx.diverge(stream, idx, line, "rvole:tamper-model", &format!("the Lean tamper operator and the harness build different messages ({name})"), &clip(&hex::encode(msg)), &bytes); }
    }
    let got = base.recv(msg);
    judge(cx, base, stream, idx, line, name, msg, &got);
    let imp = res_str(&got);
    let model = cx.ask(&base.proc_req(msg));
    if imp != model { cx.diverge(stream, idx, line, "rvole:recvproc-model", &format!("Lean receiverProcess and RVOLEReceiver::process disagree on an altered message ({name})"), &imp, &model); }
}

/// the key of the exchange a splice takes its content from
fn other_key(k: &Key, other: &str) -> Option<Key> {
    let mut o = k.clone();
    match other {
        "other-session" => { o.sid[(k.seed % 32) as usize] ^= 1 << (k.seed % 8); }                 // same seeds, inputs and tapes under another session id
        "other-session-other-run" => { o.sid = [0x5a; 32]; o.seed = k.seed ^ 0x1111; }
        "other-run" => { o.seed = k.seed ^ 0x2222; if o.prov == "pipe" { o.prov = "syn".into(); } } // same session id, fresh seeds / tapes
        "other-tapes" => { o.tweak = if k.tweak == 0 { 2 } else { 0 }; }                            // same seeds, other beta / other eta0
        "other-input" => { o.a = [sc_hex(&(k.a()[0] + Scalar::ONE)), sc_hex(&(k.a()[1] - Scalar::ONE))]; } // same OT state, other input
        _ => return None,
    }
    Some(o)
}

fn splice_region(v: Variant, region: &str) -> Option<(usize, usize)> {
    let off = v.core_off();
    Some(match region {
        "a_tilde" => (off, A_BYTES), "one-row" => (off + 7 * ROW, ROW), "one-entry" => (off + 3 * ROW + KAPPA_BYTES, KAPPA_BYTES),
        "check-column-entry" => (off + 5 * ROW + L_BATCH * KAPPA_BYTES, KAPPA_BYTES),
        "eta" => (off + A_BYTES, E_BYTES), "mu_hash" => (off + A_BYTES + E_BYTES, H_BYTES), "eta+mu_hash" => (off + A_BYTES, E_BYTES + H_BYTES),
        "a_tilde+eta" => (off, A_BYTES + E_BYTES), "core" => (off, CORE_BYTES), "whole" => (0, v.msg_len()),
        "ot_msg2_a" if v == Variant::Ot => (0, OT_MSG), "ot_msg2" if v == Variant::Ot => (0, 2 * OT_MSG),
        _ => return None })
}
pub const SPLICE_REGIONS: [&str; 10] = ["a_tilde", "one-row", "one-entry", "check-column-entry", "eta", "mu_hash", "eta+mu_hash", "a_tilde+eta", "core", "whole"];

fn splice(cx: &mut Ctx, base: &Base, other: &str, region: &str) {
    let v = base.key.variant();
    let line = format!("{} splice {} {}", base.key.line(), other, region);
    let Some(ok) = other_key(&base.key, other) else { return };
    let Some((o, l)) = splice_region(v, region) else { return };
    let Some(ob) = cx.base(&ok) else { return };
    let mut m = base.msg2.clone();
    m[o..o + l].copy_from_slice(&ob.msg2[o..o + l]);
    let name = format!("splice-{other}:{region}");
    if other == "other-input" && (region == "core" || region == "whole") {
        // EXCLUDED POINT: the complete check-carrying part of the message of a run that shares the whole OT state
        // (same seeds, same round one, same eta0) but has another input is an honest message for that input: every
        // verifier accepts it and the shares are those of the other input.
        let idx = cx.rep.case("excluded-point", Some(&line));
        cx.rep.hist("excluded-point:whole-message-of-same-OT-state-other-input");
        let got = base.recv(&m);
        let model = cx.ask(&base.proc_req(&m));
        if res_str(&got) != model { cx.diverge("excluded-point", idx, &line, "rvole:recvproc-model", "model/implementation differ at the excluded point", &res_str(&got), &model); }
        if let Some(Ok(d)) = got { if !relation_ok(&ob.a, &base.b, &ob.c, &d) { cx.pred("excluded-point", idx, &line, "rvole:excluded-point-relation", "the message for another input is accepted but the shares do not satisfy the relation for that input".into(), &sc2(&d), "c' + d = a' * b"); } }
        return;
    }
    let op = if v == Variant::Ext { Some(format!("rvole tamper splice {} {} {:x} {:x}", hex::encode(&base.msg2), hex::encode(&ob.msg2), o, l)) } else { None };
    altered(cx, base, "splice", &line, &name, &m, op);
}

// ------------------------------------------------------------------ C02: the calibrated adversarial sender

#[derive(Clone, Debug)]
struct Dev { j: usize, a: Shares, guess: bool }
fn devs_str(d: &[Dev]) -> String { if d.is_empty() { "-".into() } else { d.iter().map(|x| format!("{:x}:{}:{}:{}", x.j, sc_hex(&x.a[0]), sc_hex(&x.a[1]), x.guess as u8)).collect::<Vec<_>>().join(",") } }
fn parse_devs(s: &str) -> Option<Vec<Dev>> {
    if s == "-" { return Some(vec![]); }
    s.split(',').map(|it| { let f: Vec<&str> = it.split(':').collect(); if f.len() != 4 { return None; }
        Some(Dev { j: usize::from_str_radix(f[0], 16).ok()?, a: [sc_from_hex(f[1])?, sc_from_hex(f[2])?], guess: f[3] == "1" }) }).collect()
}

/// all deviation sets against one base: messages from the Lean `advSender` (one batched request), each transported
/// into the real receiver and judged
fn adversaries(cx: &mut Ctx, base: &Base, sets: &[(String, Vec<Dev>)]) {
    if sets.is_empty() { return; }
    let v = base.key.variant();
    let sid_h = hex::encode(base.key.sid);
    let a_s = format!("{},{}", base.key.a[0], base.key.a[1]);
    let all: Vec<String> = sets.iter().map(|(_, d)| devs_str(d)).collect();
    // a single set is sent as `<set>;<set>` so that the batched arm (shared OT layer) is exercised as well as the entry point
    let req = match v {
        Variant::Ext => { let sd = base.seeds.as_ref().unwrap(); format!("rvole adv {} {} {} {} {} {} {}", sid_h, rc_hex(sd), dec_hex(sd), a_s, hex::encode(&base.r1), hex::encode(&base.tape_s), all.join(";")) }
        Variant::Ot => format!("rvole otadv {} {} {} {} {}", sid_h, a_s, hex::encode(&base.r1), hex::encode(&base.tape_s), all.join(";")),
    };
    let ans = cx.ask(&req);
    let msgs: Vec<Vec<u8>> = ans.split(',').filter_map(|h| hex::decode(h).ok()).filter(|m| m.len() == v.msg_len()).collect();
    if msgs.len() != sets.len() { cx.diverge("adversary", 0, &format!("{} adv {}", base.key.line(), all.join(";")), "rvole:adv-model", "advSender did not return one message per deviation set", &format!("{} sets", sets.len()), &ans); return; }
    let off = v.core_off();
    for ((tag, devs), m) in sets.iter().zip(&msgs) {
        let line = format!("{} adv {}", base.key.line(), devs_str(devs));
        let idx = cx.rep.case("adversary", Some(&line));
        cx.rep.hist(&format!("adv:{}:{tag}", base.key.v));
        let deviating: Vec<&Dev> = devs.iter().filter(|d| d.a != base.a).collect();
        // the message really deviates as claimed: rows outside J are the honest rows, the batch entries of the rows in J are
        // the honest ones + (a'_j - a), the check column and the base-OT part are honest
        let mut shape_ok = m[..off] == base.msg2[..off];
        for j in 0..XI {
            let dv = devs.iter().find(|d| d.j == j);
            for i in 0..L_BATCH_PLUS_RHO {
                let o = off + j * ROW + i * KAPPA_BYTES;
                let hon = sc_from_hex(&hex::encode(&base.msg2[o..o + 32])); let got = sc_from_hex(&hex::encode(&m[o..o + 32]));
                let exp = match (dv, hon) { (Some(d), Some(h)) if i < L_BATCH => Some(h + d.a[i] - base.a[i]), (_, h) => h };
                if got != exp || got.is_none() { shape_ok = false; }
            }
        }
        if !shape_ok { cx.diverge("adversary", idx, &line, "rvole:adv-model", "advSender's a_tilde is not the honest one shifted by a'_j - a in the rows of J", "", ""); }
        if devs.is_empty() && m != &base.msg2 { cx.diverge("adversary", idx, &line, "rvole:adv-model", "advSender without deviation differs from the honest message of the implementation", "", ""); }
        let expect_accept = deviating.iter().all(|d| d.guess == base.beta_bit(d.j));
        let got = base.recv(m);
        let imp = res_str(&got);
        let model = cx.ask(&base.proc_req(m));
        if imp != model { cx.diverge("adversary", idx, &line, "rvole:recvproc-model", &format!("Lean receiverProcess and RVOLEReceiver::process disagree on an adversarial message ({tag})"), &imp, &model); }
        let accepted = matches!(got, Some(Ok(_)));
        cx.rep.hist(if accepted { "adv-verdict:accepted" } else { "adv-verdict:err" });
        if accepted != expect_accept || got.is_none() {
            cx.pred("adversary", idx, &line, &format!("rvole:selective-failure:{}:{}", base.key.v, if expect_accept { "right-guess-rejected" } else { "wrong-guess-accepted" }), format!("re-derived deviating message ({tag}) must be accepted iff every guess of the receiver's choice bit is right"), &imp, if expect_accept { "accepted" } else { "Err" });
        }
        if let Some(Ok(d)) = &got {
            if deviating.iter().all(|x| !base.beta_bit(x.j)) {
                cx.rep.hist("adv:accepted-with-all-deviating-bits-0");
                if *d != base.d { cx.pred("adversary", idx, &line, &format!("rvole:selective-failure:{}:zero-bit-shares", base.key.v), format!("deviating message accepted with beta_j = 0 in every deviating row ({tag}) but the receiver's shares differ from the honest ones"), &sc2(d), &sc2(&base.d)); }
            } else { cx.rep.hist("adv:accepted-with-a-deviating-bit-1"); if *d == base.d && !deviating.is_empty() { cx.rep.hist("adv:bit-1-deviation-without-effect"); } }
        }
    }
}

/// the grid |J| in {1,2,3} x guesses right / wrong x beta_j = 0 / 1 for one base
fn adversary_grid(rng: &mut impl RngCore, base: &Base, thorough: bool) -> Vec<(String, Vec<Dev>)> {
    let zeros: Vec<usize> = (0..XI).filter(|j| !base.beta_bit(*j)).collect();
    let ones: Vec<usize> = (0..XI).filter(|j| base.beta_bit(*j)).collect();
    let mut sets: Vec<(String, Vec<Dev>)> = vec![("no-deviation".into(), vec![])];
    let alt = |rng: &mut dyn RngCore, kind: usize, a: &Shares| -> Shares { match kind % 5 {
        0 => [a[0] + Scalar::ONE, a[1]], 1 => [a[0], a[1] - Scalar::ONE],
        2 => [rand_scalar(&mut *rng), rand_scalar(&mut *rng)],
        3 => if *a == [Scalar::ZERO; 2] { [Scalar::ONE, Scalar::ONE] } else { [Scalar::ZERO; 2] },
        _ => [-a[0] - Scalar::ONE, a[1] + a[1] + Scalar::ONE] } };
    let pick = |rng: &mut dyn RngCore, pool: &Vec<usize>, n: usize| -> Vec<usize> { let mut p = pool.clone(); p.shuffle(&mut *rng); p.truncate(n); p };
    let mut kind = 0usize;
    let mut mk = |rng: &mut dyn RngCore, js: &[usize], wrong: &[usize]| -> Vec<Dev> {
        js.iter().enumerate().map(|(n, &j)| { kind += 1; Dev { j, a: alt(rng, kind, &base.a), guess: base.beta_bit(j) ^ wrong.contains(&n) } }).collect() };
    let reps = if thorough { 4 } else { 1 };
    for _ in 0..reps {
        // |J| = 1
        for (pool, bt) in [(&zeros, "beta=0"), (&ones, "beta=1")] {
            if pool.is_empty() { continue; }
            let j = pick(rng, pool, 1);
            sets.push((format!("1:{bt}:right"), mk(rng, &j, &[])));
            let j = pick(rng, pool, 1);
            sets.push((format!("1:{bt}:wrong"), mk(rng, &j, &[0])));
        }
        for j in [0usize, XI - 1, XI / 2 - 1, XI / 2] { if thorough || j == 0 || j == XI - 1 { sets.push(("1:edge-position:right".into(), mk(rng, &[j], &[]))); } }
        // |J| = 2, 3
        for n in [2usize, 3] {
            if zeros.len() >= n { let js = pick(rng, &zeros, n); sets.push((format!("{n}:all-beta=0:right"), mk(rng, &js, &[]))); }
            if ones.len() >= n { let js = pick(rng, &ones, n); sets.push((format!("{n}:all-beta=1:right"), mk(rng, &js, &[]))); }
            if !zeros.is_empty() && ones.len() >= n - 1 {
                let mut js = pick(rng, &ones, n - 1); js.extend(pick(rng, &zeros, 1)); js.shuffle(rng);
                sets.push((format!("{n}:mixed:right"), mk(rng, &js, &[])));
                let w = rng.gen_range(0..n);
                sets.push((format!("{n}:mixed:one-wrong"), mk(rng, &js, &[w])));
                if thorough { sets.push((format!("{n}:mixed:all-wrong"), mk(rng, &js, &(0..n).collect::<Vec<_>>()))); }
            }
        }
    }
    // a "deviation" to the same input with a wrong guess: nothing deviates, accepted
    if let Some(&j) = ones.first().or(zeros.first()) { sets.push(("1:same-input:wrong-guess".into(), vec![Dev { j, a: base.a, guess: !base.beta_bit(j) }])); }
    sets
}

// ------------------------------------------------------------------ scenarios (run and replay)

fn parse_key(t: &[&str]) -> Option<Key> {
    if t.len() < 9 || t[0] != "c01" { return None; }
    let v = match t[1] { "ext" => "ext", "ot" => "ot", _ => return None };
    let mut sid = [0u8; 32]; let s = hex::decode(t[3]).ok()?; if s.len() != 32 { return None; } sid.copy_from_slice(&s);
    Some(Key { v, prov: t[2].into(), sid, a: [sc_hex(&sc_from_hex(t[4])?), sc_hex(&sc_from_hex(t[5])?)], seed: t[6].parse().ok()?, tweak: t[7].parse().ok()? })
}

fn scenario(cx: &mut Ctx, l: &str) {
    let t: Vec<&str> = l.split(' ').collect();
    let Some(key) = parse_key(&t) else { return };
    let Some(base) = cx.base(&key) else { return };
    match (t[8], t.len()) {
        ("honest", _) => {}
        ("flip", 10) => { let ps: Vec<usize> = parse_positions(t[9]).into_iter().filter(|p| *p < key.variant().msg_len() * 8).collect();
            if !ps.is_empty() { let items: Vec<String> = ps.iter().map(|p| format!("{p:x}")).collect(); flips(cx, &base, "bitflip", &ps, &items.join(",")); } }
        ("mut", 11) => { if let (Some((m, op)), pseed) = (t[10].parse().ok().and_then(|p| mutation(&base, t[9], p)), t[10]) { altered(cx, &base, "field-mutation", &format!("{} mut {} {}", key.line(), t[9], pseed), t[9], &m, op); } }
        ("splice", 11) => splice(cx, &base, t[9], t[10]),
        ("adv", 10) => { if let Some(d) = parse_devs(t[9]) { adversaries(cx, &base, &[("replay".into(), d)]); } }
        _ => {}
    }
}

pub fn replay(drv: &mut Driver, rep: &mut Report, lines: &[String], _prop: &str) {
    let mut cx = Ctx { drv, rep, cache: HashMap::new(), pipe_checked: 0, pipe_budget: 1 };
    for l in lines { scenario(&mut cx, l); }
}

fn special_scalar(rng: &mut impl RngCore, k: usize) -> Scalar {
    match k % 4 { 0 => Scalar::ZERO, 1 => Scalar::ONE, 2 => -Scalar::ONE, _ => rand_scalar(rng) }
}

fn gen_sid(rng: &mut impl RngCore, k: usize) -> [u8; 32] {
    let mut s = [0u8; 32];
    match k % 5 { 0 => {} 1 => s = [0xff; 32], _ => rng.fill_bytes(&mut s) }
    s
}

fn key_of(v: Variant, prov: &str, sid: [u8; 32], a: &Shares, seed: u64, tweak: u32) -> Key {
    Key { v: v.s(), prov: prov.into(), sid, a: [sc_hex(&a[0]), sc_hex(&a[1])], seed, tweak }
}

fn run_c01(o: &Opts, cx: &mut Ctx) {
    let mut rng = case_rng(o.seed, "c01");
    let thorough = o.tier == "thorough";
    cx.pipe_budget = if thorough { 4 } else { 1 };
    // every pair (a0, a1) in {0, 1, q-1, random}^2; per pair >= 2 tapes; variants / seed provenances rotate so that every
    // value of a_i meets every (variant, provenance), session ids all-00 / all-FF / random rotate independently
    let rounds = (if thorough { 2 } else { 1 }) * o.scale as usize;
    let mut n = 0usize;
    for round in 0..rounds {
        for k0 in 0..4 { for k1 in 0..4 {
            let a = [special_scalar(&mut rng, k0), special_scalar(&mut rng, k1)];
            // quick tier: the diagonal pairs run the base-OT variant, (0,2) (2,0) (1,3) (3,1) the pipeline seeds, the other
            // eight pairs the synthetic seeds; thorough tier: every pair on all three
            let combos: Vec<(Variant, &str)> = if thorough { vec![(Variant::Ext, "syn"), (Variant::Ext, "pipe"), (Variant::Ot, "na")] }
                else if (k0 + round) % 4 == k1 { vec![(Variant::Ot, "na")] } else if (k0 + k1) % 2 == 0 { vec![(Variant::Ext, "pipe")] } else { vec![(Variant::Ext, "syn")] };
            for (v, prov) in combos {
                for tp in 0..2 {
                    let sid = gen_sid(&mut rng, n);
                    let tweak = if tp == 0 { 0 } else { [1u32, 2, 3, 4, 6, 7, 8, 0][(n / 2) % 8] };
                    let tweak = if v == Variant::Ot && tweak == 4 { 0 } else { tweak };
                    let key = key_of(v, prov, sid, &a, rng.next_u64() >> 1, tweak);
                    cx.cache.clear();
                    scenario(cx, &format!("{} honest", key.line()));
                    n += 1;
                }
            }
        } }
    }
    // ---- honest exchanges in which a VALUE ON THE WIRE is the scalar 0: eta = 0 (a = (0, 0) and eta0 = 0), and a masked value
    //      a_tilde[j][i] = (t0 - t1)[j][i] + a_i = 0 for the sender input a_i = -(t0 - t1)[j][i].  Zero is an ordinary field
    //      element: the receiver must accept and the shares must satisfy the relation.
    for v in [Variant::Ext, Variant::Ot] {
        let prov = if v == Variant::Ot { "na" } else { "syn" };
        let key = key_of(v, prov, gen_sid(&mut rng, 40), &[Scalar::ZERO, Scalar::ZERO], rng.next_u64() >> 1, 5);
        cx.cache.clear();
        cx.rep.hist("zero-on-the-wire:eta");
        scenario(cx, &format!("{} honest", key.line()));
        let a0 = [special_scalar(&mut rng, 3), special_scalar(&mut rng, 3)];
        let (sid, seed) = (gen_sid(&mut rng, 41), rng.next_u64() >> 1);
        cx.cache.clear();
        let Some(b0) = cx.base(&key_of(v, prov, sid, &a0, seed, 0)) else { continue };
        for (j, i) in [(rng.gen_range(0..XI), 0usize), (XI - 1, 1)] {
            let o = v.core_off() + j * ROW + i * KAPPA_BYTES;
            let Some(x) = sc_from_hex(&hex::encode(&b0.msg2[o..o + KAPPA_BYTES])) else { continue };
            let mut a = a0; a[i] = a0[i] - x;
            cx.cache.clear();
            cx.rep.hist("zero-on-the-wire:a_tilde entry");
            scenario(cx, &format!("{} honest", key_of(v, prov, sid, &a, seed, 0).line()));
        }
    }
    // ---- base-OT variant: sender exponents that are zero in a few slots (identity points on the wire, an honest message)
    {
        let a = [special_scalar(&mut rng, 3), special_scalar(&mut rng, 3)];
        let key = key_of(Variant::Ot, "na", gen_sid(&mut rng, 60), &a, rng.next_u64() >> 1, 9);
        cx.cache.clear();
        cx.rep.hist("zero-on-the-wire:identity points in the base-OT reply");
        scenario(cx, &format!("{} honest", key.line()));
    }
    // ---- seed sets whose punctured indices are all equal (all 0 / all 15): honest exchanges must go through
    for d in [0u8, 15] {
        let a = [special_scalar(&mut rng, 3), special_scalar(&mut rng, 1)];
        let key = key_of(Variant::Ext, if d == 0 { "syn:0" } else { "syn:15" }, gen_sid(&mut rng, 50 + d as usize), &a, rng.next_u64() >> 1, 0);
        cx.cache.clear();
        cx.rep.hist("seed-set:all-punctured-indices-equal");
        scenario(cx, &format!("{} honest", key.line()));
    }
    // ---- dense beta (all ones) under SEVERAL session ids: b = <g, beta> then sums all 512 gadget elements, and the gadget vector
    //      depends on the session id — sums near the top of any accumulator's range show for some ids only
    for k in 0..(if thorough { 8 } else { 4 }) {
        let a = [special_scalar(&mut rng, 3), special_scalar(&mut rng, k % 4)];
        let mut sid = [k as u8; 32]; if k % 2 == 1 { rng.fill_bytes(&mut sid); }
        let key = key_of(Variant::Ot, "na", sid, &a, rng.next_u64() >> 1, 2);
        cx.cache.clear();
        cx.rep.hist("dense-beta:several-session-ids:ot");
        scenario(cx, &format!("{} honest", key.line()));
        if k < 2 { let key = key_of(Variant::Ext, "syn", sid, &a, rng.next_u64() >> 1, 2); cx.cache.clear(); cx.rep.hist("dense-beta:several-session-ids:ext"); scenario(cx, &format!("{} honest", key.line())); }
    }
    // consecutive sessions on ONE thread whose ids are related (shared prefixes of 8/9/16/31 bytes, ids differing in one
    // late byte, the same id again, all-zero then one-hot): the functions are specified as pure in (session id, inputs,
    // tapes), so anything carried over from the previous session (a cache, a reused buffer) shows here
    let mut base = [0u8; 32]; rng.fill_bytes(&mut base);
    let mut fam: Vec<[u8; 32]> = vec![base];
    for cut in [31usize, 16, 9, 8] { let mut s = base; for b in s[cut..].iter_mut() { *b = rng.next_u32() as u8; } fam.push(s); }
    { let mut s = base; s[31] ^= 1; fam.push(s); }
    fam.push(base);
    fam.push([0u8; 32]);
    for pos in [31usize, 9, 0] { let mut s = [0u8; 32]; s[pos] = 1; fam.push(s); }
    let reps = if thorough { 3 } else { 1 };
    for r in 0..reps {
        let a = [special_scalar(&mut rng, 3), special_scalar(&mut rng, (r % 4) as usize)];
        for (i, sid) in fam.iter().enumerate() {
            let (v, prov) = if i % 4 == 3 { (Variant::Ot, "na") } else { (Variant::Ext, "syn") };
            let key = key_of(v, prov, *sid, &a, rng.next_u64() >> 1, 0);
            // NOT clearing any implementation-side state between these: only the harness cache
            cx.cache.clear();
            cx.rep.hist("related-session-ids");
            scenario(cx, &format!("{} honest", key.line()));
        }
    }
}

/// every single-bit flip of the RVOLEOutput of one honest ext exchange, real receiver only (16 threads); the model's
/// verdicts are compared on all bits of eta / mu_hash and on a sample of a_tilde (each a_tilde flip costs the model two
/// 128 KiB transcript queries)
fn exhaustive_flips(cx: &mut Ctx, base: &Base) {
    let st = base.ext.as_ref().unwrap();
    let total = CORE_BYTES * 8;
    let nthreads = std::thread::available_parallelism().map(|n| n.get()).unwrap_or(4).min(16);
    let chunk = (total + nthreads - 1) / nthreads;
    let msg = &base.msg2;
    let (a, b, c) = (base.a, base.b, base.c);
    // (position, outcome): 0 = Err, 1 = accepted with the relation intact, 2 = accepted with wrong shares, 3 = panic
    let bad: Vec<(usize, u8)> = std::thread::scope(|s| {
        let hs: Vec<_> = (0..nthreads).map(|t| { let st: &rvole::RVOLEReceiver = st; s.spawn(move || {
            let mut bad = vec![];
            let mut m = msg.clone();
            for pos in (t * chunk)..((t + 1) * chunk).min(total) {
                flip(&mut m, pos);
                match ext_recv_proc(st, &m) { Some(Err(_)) => {} Some(Ok(d)) => bad.push((pos, if relation_ok(&a, &b, &c, &d) { 1 } else { 2 })), None => bad.push((pos, 3)) }
                flip(&mut m, pos);
            }
            bad }) }).collect();
        hs.into_iter().flat_map(|h| h.join().unwrap_or_default()).collect()
    });
    for pos in 0..total { cx.rep.case("bitflip-exhaustive", Some(&format!("{} flip {:x}", base.key.line(), pos))); }
    *cx.rep.histogram.entry("flip:ext:exhaustive(real receiver)".into()).or_insert(0) += total as u64;
    for (pos, what) in bad {
        let line = format!("{} flip {:x}", base.key.line(), pos);
        let reg = region_of(Variant::Ext, pos);
        cx.pred("bitflip-exhaustive", pos as u64, &line, &format!("rvole:tamper-accepted:ext:bitflip-{reg}"), format!("flipping bit {pos} ({reg}) of the round-two message: {}", ["", "accepted (relation intact)", "accepted with wrong shares", "panic"][what as usize]), "accepted", "Err");
    }
    cx.rep.exhaustive.push(format!("every single-bit flip of the {total}-bit RVOLEOutput (a_tilde, eta, mu_hash) of one honest OT-extension exchange against the real receiver"));
}

fn run_c02(o: &Opts, cx: &mut Ctx) {
    let mut rng = case_rng(o.seed, "c02");
    let thorough = o.tier == "thorough";
    cx.pipe_budget = 0;
    let timing = std::env::var("RVOLE_TIMING").is_ok();
    let t0 = std::time::Instant::now();
    // ---- honest messages are accepted: special inputs / tapes, both variants
    let hon = (if thorough { 12 } else { 2 }) * o.scale as usize;
    for k in 0..hon {
        let v = if k % 3 == 1 { Variant::Ot } else { Variant::Ext };
        let a = [special_scalar(&mut rng, k), special_scalar(&mut rng, k / 4 + 1)];
        let tweak = [0u32, 1, 2, 3, 6, 7, 8][k % 7];
        let key = key_of(v, if v == Variant::Ot { "na" } else if k % 2 == 0 { "syn" } else { "pipe" }, gen_sid(&mut rng, k), &a, rng.next_u64() >> 1, tweak);
        cx.cache.clear();
        scenario(cx, &format!("{} honest", key.line()));
    }
    // honest base-OT-variant message carrying identity points (zero sender exponents in a few slots): must be accepted
    {
        let key = key_of(Variant::Ot, "na", gen_sid(&mut rng, 61), &[rand_scalar(&mut rng), rand_scalar(&mut rng)], rng.next_u64() >> 1, 9);
        cx.cache.clear();
        cx.rep.hist("zero-on-the-wire:identity points in the base-OT reply");
        scenario(cx, &format!("{} honest", key.line()));
    }
    if timing { eprintln!("honest {:?}", t0.elapsed()); }
    // ---- directed: the receiver reduces eta modulo q, so a check value x < 2^256 - q has a second encoding x + q.  With
    //      a = (0, 0) and an all-zero sender tape eta is 0 and the bytes of q are accepted in its place.
    {
        let key = key_of(Variant::Ext, "syn", gen_sid(&mut rng, 2), &[Scalar::ZERO, Scalar::ZERO], rng.next_u64() >> 1, 5);
        cx.cache.clear();
        if let Some(base) = cx.base(&key) {
            for name in ["noncanonical:eta", "noncanonical:check-entry", "noncanonical:entry"] {
                if let Some((m, op)) = mutation(&base, name, 7) { altered(cx, &base, "noncanonical-encoding", &format!("{} mut {} 7", key.line(), name), name, &m, op); }
            }
        }
    }
    // ---- directed: a masked value a_tilde[j][i] = (t0 - t1)[j][i] + a_i is small for the sender input a_i = small - (t0 - t1)[j][i],
    //      and a small scalar has a second 256-bit encoding x + q: the message with that encoding in row j must be rejected
    //      (a_tilde enters the theta transcript byte for byte)
    for (n, v) in [Variant::Ext, Variant::Ot, Variant::Ext].into_iter().enumerate() {
        let a0 = [rand_scalar(&mut rng), rand_scalar(&mut rng)];
        let (sid, seed) = (gen_sid(&mut rng, 6 + n), rng.next_u64() >> 1);
        let prov = if v == Variant::Ot { "na" } else { "syn" };
        cx.cache.clear();
        let Some(b0) = cx.base(&key_of(v, prov, sid, &a0, seed, 0)) else { continue };
        let (j, i) = (rng.gen_range(0..XI), rng.gen_range(0..L_BATCH));
        let o = v.core_off() + j * ROW + i * KAPPA_BYTES;
        let Some(x) = sc_from_hex(&hex::encode(&b0.msg2[o..o + KAPPA_BYTES])) else { continue };
        let mut a = a0; a[i] = a0[i] - x + Scalar::from(n as u64 * 1000 + 5);
        cx.cache.clear();
        let key = key_of(v, prov, sid, &a, seed, 0);
        if let Some(base) = cx.base(&key) {
            let small = base.msg2[o..o + 16].iter().all(|b| *b == 0);
            cx.rep.hist(if small { "crafted-sender-input:small a_tilde entry" } else { "crafted-sender-input:entry not small" });
            let name = format!("noncanonical:entry@{j}.{i}");
            if let Some((m, op)) = mutation(&base, &name, 7) { altered(cx, &base, "noncanonical-encoding", &format!("{} mut {} 7", key.line(), name), "noncanonical:crafted-entry", &m, op); }
        }
    }
    // ---- error paths of the senders (correspondence; a bad round-one message must not produce shares)
    {
        let key = key_of(Variant::Ext, "syn", gen_sid(&mut rng, 4), &[rand_scalar(&mut rng), rand_scalar(&mut rng)], rng.next_u64() >> 1, 0);
        cx.cache.clear();
        if let Some(base) = cx.base(&key) {
            let sd = base.seeds.as_ref().unwrap();
            let mut r1 = base.r1.clone(); let p = rng.gen_range(0..r1.len() * 8); flip(&mut r1, p);
            let line = format!("{} honest", key.line());
            let idx = cx.rep.case("round-one-error", Some(&format!("{} r1flip {p:x}", key.line())));
            let got = ext_send(&key.sid, &sd.r, &base.a, &r1, &base.tape_s);
            let imp = match &got { None => "panic".to_string(), Some(Err(())) => "ban".into(), Some(Ok((c, m, u))) => format!("ok:{}:{}:{}", sc2(c), hex::encode(m), u) };
            let model = cx.ask(&format!("rvole send {} {} {} {},{} {} {}", hex::encode(key.sid), rc_hex(sd), dec_hex(sd), key.a[0], key.a[1], hex::encode(&r1), hex::encode(&base.tape_s)));
            if imp != model { cx.diverge("round-one-error", idx, &line, "rvole:send-model", "Lean senderProcess and RVOLESender::process disagree on an altered round-one message", &imp, &model); }
            if !matches!(got, Some(Err(()))) { cx.pred("round-one-error", idx, &line, "rvole:bad-round1-accepted", format!("RVOLESender::process accepts a round-one message with bit {p} flipped"), &clip(&imp), "Err"); }
        }
        // the sender's session id is a byte string of ANY length: a round-one message made under a 32-byte id must be banned when
        // the sender runs under a related id of another length (id + one byte, id without its trailing zero byte)
        {
            let mut sid = gen_sid(&mut rng, 4); sid[31] = 0;
            let key = key_of(Variant::Ext, "syn", sid, &[rand_scalar(&mut rng), rand_scalar(&mut rng)], rng.next_u64() >> 1, 0);
            cx.cache.clear();
            if let Some(base) = cx.base(&key) {
                let sd = base.seeds.as_ref().unwrap();
                for (name, rel) in [("id+01", [&sid[..], &[1u8][..]].concat()), ("id+00", [&sid[..], &[0u8][..]].concat()), ("id-without-trailing-zero", sid[..31].to_vec()), ("id-first-16", sid[..16].to_vec())] {
                    let line = format!("{} honest", key.line());
                    let idx = cx.rep.case("round-one-error", Some(&format!("{} r1-under-related-sid {name}", key.line())));
                    cx.rep.hist(&format!("round-one-error:related-session-id:{name}"));
                    let got = ext_send(&rel, &sd.r, &base.a, &base.r1, &base.tape_s);
                    let imp = match &got { None => "panic".to_string(), Some(Err(())) => "ban".into(), Some(Ok((c, m, u))) => format!("ok:{}:{}:{}", sc2(c), hex::encode(m), u) };
                    let model = cx.ask(&format!("rvole send {} {} {} {},{} {} {}", hex::encode(&rel), rc_hex(sd), dec_hex(sd), key.a[0], key.a[1], hex::encode(&base.r1), hex::encode(&base.tape_s)));
                    if imp != model { cx.diverge("round-one-error", idx, &line, "rvole:send-model", "Lean senderProcess and RVOLESender::process disagree on a round-one message replayed under a related session id", &clip(&imp), &clip(&model)); }
                    if !matches!(got, Some(Err(()))) { cx.pred("round-one-error", idx, &line, "rvole:replayed-round1-accepted", format!("RVOLESender::process under the session id `{name}` accepts a round-one message made for the 32-byte id"), &clip(&imp), "Err"); }
                }
            }
        }
        for half in (if thorough { vec![0usize, 1] } else { vec![1usize] }) {
            let key = key_of(Variant::Ot, "na", gen_sid(&mut rng, 5), &[rand_scalar(&mut rng), Scalar::ONE], rng.next_u64() >> 1, 0);
            let (tape_r, tape_s) = tapes(Variant::Ot, key.seed, 0);
            let Some((_, mut m1, _, _)) = ot_recv_new(&key.sid, &tape_r) else { continue };
            let inst = rng.gen_range(0..LAMBDA_C); m1[half * OT_MSG + 66 * inst + 33 * rng.gen_range(0..2)] = 4;      // an invalid SEC1 tag
            let line = format!("{} honest", key.line());
            let idx = cx.rep.case("round-one-error", Some(&format!("{} m1tag {half} {inst}", key.line())));
            let got = ot_send(&key.sid, &key.a(), &m1, &tape_s);
            let imp = match &got { None => "panic".to_string(), Some((Ok(c), m, u)) => format!("ok:{}:{}:{}", sc2(c), hex::encode(m), u), Some((Err(e), m, u)) => format!("err:{}:{}:{}", e.replace(' ', "_"), hex::encode(m), u) };
            let model = cx.ask(&format!("rvole otsend {} {},{} {} {}", hex::encode(key.sid), key.a[0], key.a[1], hex::encode(&m1), hex::encode(&tape_s)));
            cx.rep.hist(&format!("round-one-error:ot-msg1-{}", if half == 0 { "a" } else { "b" }));
            if imp != model { cx.diverge("round-one-error", idx, &line, "rvole:otsend-model", "Lean senderProcessOt and RVOLESender::process (base-OT variant) disagree on an undecodable RVOLEMsg1 (error, partially written buffer, tape)", &imp, &model); }
            if !matches!(got, Some((Err(_), _, _))) { cx.pred("round-one-error", idx, &line, "rvole:bad-msg1-accepted", "the variant's sender accepts an RVOLEMsg1 with an undecodable point".into(), &clip(&imp), "Err"); }
        }
    }
    // ---- directed excluded point: beta = 0, alterations of eta
    {
        let key = key_of(Variant::Ext, "syn", gen_sid(&mut rng, 3), &[rand_scalar(&mut rng), Scalar::ONE], rng.next_u64() >> 1, 1);
        cx.cache.clear();
        if let Some(base) = cx.base(&key) {
            let p0 = A_BYTES * 8;
            let ps = [p0, p0 + 77, p0 + 255];
            flips(cx, &base, "excluded-point", &ps, &ps.iter().map(|p| format!("{p:x}")).collect::<Vec<_>>().join(","));
            if let Some((m, op)) = mutation(&base, "overwrite-random:eta", 9) { altered(cx, &base, "excluded-point", &format!("{} mut overwrite-random:eta 9", key.line()), "overwrite-random:eta", &m, op); }
        }
    }
    let bases = o.scale as usize;
    for round in 0..bases {
        for v in [Variant::Ext, Variant::Ot] {
            let t1 = std::time::Instant::now();
            cx.cache.clear();
            let a = [rand_scalar(&mut rng), if round % 2 == 0 { rand_scalar(&mut rng) } else { Scalar::ZERO }];
            let mut sid = [0u8; 32]; rng.fill_bytes(&mut sid);
            let key = key_of(v, if v == Variant::Ot { "na" } else { "syn" }, sid, &a, rng.next_u64() >> 1, 0);
            let Some(base) = cx.base(&key) else { continue };
            let off = v.core_off();
            // ---- single-bit flips
            let mut ps: Vec<usize> = vec![];
            let (na, ne, nh, no) = match (v, thorough) { (Variant::Ext, false) => (80, E_BYTES * 8, H_BYTES * 8, 0), (Variant::Ext, true) => (2000, E_BYTES * 8, H_BYTES * 8, 0),
                                                         (Variant::Ot, false) => (20, 24, 24, 16), (Variant::Ot, true) => (500, E_BYTES * 8, H_BYTES * 8, 200) };
            for _ in 0..na { ps.push(off * 8 + rng.gen_range(0..A_BYTES * 8)); }
            for p in [0, 7, 255, 256, ROW * 8 - 1, A_BYTES * 8 - 1] { ps.push(off * 8 + p); }
            let mut e: Vec<usize> = (0..E_BYTES * 8).collect(); e.shuffle(&mut rng); for p in &e[..ne] { ps.push((off + A_BYTES) * 8 + p); }
            let mut h: Vec<usize> = (0..H_BYTES * 8).collect(); h.shuffle(&mut rng); for p in &h[..nh] { ps.push((off + A_BYTES + E_BYTES) * 8 + p); }
            if v == Variant::Ot {
                // base-OT part: tag bytes and x coordinates of slots the receiver reads / does not read
                for n in 0..no { let j = rng.gen_range(0..XI); let bit = base.beta_bit(j) as usize; let s = if n % 2 == 0 { bit } else { 1 - bit };
                    let byte = (if j < LAMBDA_C { 66 * j } else { OT_MSG + 66 * (j - LAMBDA_C) }) + 33 * s + if n % 4 < 2 { 0 } else { rng.gen_range(1..33) };
                    ps.push(byte * 8 + if n % 4 < 2 { [0usize, 1, 2, 7][(n / 4) % 4] } else { rng.gen_range(0..8) }); }
            }
            ps.sort(); ps.dedup();
            for chunk in ps.chunks(256) {
                let items: Vec<String> = chunk.iter().map(|p| format!("{p:x}")).collect();
                flips(cx, &base, "bitflip", chunk, &items.join(","));
            }
            if ne == E_BYTES * 8 { cx.rep.exhaustive.push(format!("every single-bit flip of eta and mu_hash of one honest {} message (implementation and model)", v.s())); }
            if timing { eprintln!("{} flips {:?}", v.s(), t1.elapsed()); }
            if thorough && v == Variant::Ext && round == 0 { exhaustive_flips(cx, &base); if timing { eprintln!("exhaustive {:?}", t1.elapsed()); } }
            // ---- overwrites, swaps, rotations, multi-bit
            let mut names: Vec<&str> = MUTATIONS.to_vec();
            if v == Variant::Ot { names.extend(OT_MUTATIONS); }
            let reps = if thorough { 3 } else { 1 };
            for r in 0..reps { for (n, name) in names.iter().enumerate() {
                if !thorough && v == Variant::Ot && n % 2 == (round % 2) && n < MUTATIONS.len() { continue; }   // quick tier: half of the generic ones on the slower variant
                let pseed = rng.next_u64() >> 1;
                if let Some((m, op)) = mutation(&base, name, pseed) {
                    let op = if r == 0 && n % 4 == 0 { op } else { None };     // the Lean tamper operators are cross-checked on a quarter of them
                    altered(cx, &base, "field-mutation", &format!("{} mut {} {}", key.line(), name, pseed), name, &m, op);
                }
            } }
            if timing { eprintln!("{} mutations {:?}", v.s(), t1.elapsed()); }
            // ---- splices / replays from another session, another run, other tapes, another input
            let others: Vec<&str> = if thorough { vec!["other-session", "other-session-other-run", "other-run", "other-tapes", "other-input"] }
                                    else if v == Variant::Ext { vec!["other-session", "other-run", "other-input"] } else { vec!["other-session"] };
            for other in others {
                let mut regs: Vec<&str> = SPLICE_REGIONS.to_vec();
                if v == Variant::Ot { regs.extend(["ot_msg2_a", "ot_msg2"]); }
                for (n, reg) in regs.iter().enumerate() {
                    if !thorough && v == Variant::Ot && !(n % 2 == 0 || *reg == "whole" || reg.starts_with("ot")) { continue; }
                    if !thorough && other == "other-run" && !(n % 3 == 0 || *reg == "whole" || *reg == "core") { continue; }
                    splice(cx, &base, other, reg);
                }
            }
            if timing { eprintln!("{} splices {:?}", v.s(), t1.elapsed()); }
            // ---- the calibrated adversarial sender
            let sets = adversary_grid(&mut rng, &base, thorough);
            adversaries(cx, &base, &sets);
            if timing { eprintln!("{} adversary {:?}", v.s(), t1.elapsed()); }
        }
    }
    cx.rep.notes.push("single-bit flips of a_tilde are compared with the model on a random sample (each costs the model two 128 KiB transcript queries); in the thorough tier EVERY bit of the RVOLEOutput of one OT-extension exchange is flipped against the real receiver (predicate only), and every bit of eta / mu_hash also against the model".into());
    cx.rep.notes.push("base-OT variant: an alteration confined to the slots of ot_msg2 that the receiver does not read is accepted with the honest shares (the clause 'otherwise it aborts or the relation is intact'); an alteration of a slot it reads changes the base-OT key and is rejected by the consistency check or by the point decoder".into());
    cx.rep.notes.push("excluded point: with beta = 0 (all 512 choice bits zero, probability 2^-512) eta is never read by any verifier of this protocol; alterations of eta are then accepted with b = 0 and the relation intact (directed cases, compared with the model, not counted as failures)".into());
    cx.rep.notes.push("excluded point: the complete (a_tilde, eta, mu_hash) of a run that shares the whole OT state and eta0 but has another sender input is an honest message for that input; it is accepted by any verifier of this protocol and the shares satisfy the relation for that input (checked, not counted as a tamper case)".into());
}

pub fn run(o: &Opts, drv: &mut Driver, rep: &mut Report, prop: &str) {
    let mut cx = Ctx { drv, rep, cache: HashMap::new(), pipe_checked: 0, pipe_budget: 1 };
    if prop == "C01" { run_c01(o, &mut cx) } else { run_c02(o, &mut cx) }
}
