//! C05: Endemic base OT (endemic_ot.rs) vs. the Lean model (Model/Endemic.lean) through the oracle, plus the
//! property's conclusion judged on the implementation's own outputs:
//!   honest exchange      ⇒ receiver key == sender key[choice] and != sender key[1-choice]   (256 instances)
//!   different session ids, or message 1 / message 2 (whole or one instance) taken from another session
//!                        ⇒ the receiver's key matches NEITHER sender key (on every affected instance)
//!   malformed encodings  ⇒ Err exactly when the model says so (identity and SEC1 "compact" 05 encodings decode)
//!   ALGEBRAICALLY RELATED substitutions (independent random substitutions cannot expose a key derivation that forgets
//!   part of the shared point): message 2 with every point negated (sign byte 02<->03; = a sender whose scalars are
//!   the negated ones) or doubled, message 1 entries with the chosen / the other point negated
//!                        ⇒ NEITHER on every affected instance.  Expectation from the model for the correct code:
//!                          the receiver's point becomes -t_a*t_b*G (resp. 2*t_a*t_b*G), the sender's chosen point
//!                          t_b*(-r_c + H) resp. t_b*(r_c + H(.., -r_o)); `h_function_2` hashes the whole encoding,
//!                          so the keys differ unless it collides (C05.msg2_substitution_partial with t_b' = -t_b).
//! Every scenario is described by one line `c05 <kind> <sidA> <sidB> <seedA> <seedB> <tweak> <k> <k2> <val>`; all
//! tapes are regenerated from the seeds, so `--replay` re-runs it exactly.
use crate::{driver::Driver, oracle, report::{Failure, Report}, rng::{case_rng, TapeRng}, Opts};
use rand::{Rng, RngCore};
use rand_core::SeedableRng;
use serde_json::json;
use sl_oblivious::endemic_ot::{EndemicOTMsg1, EndemicOTMsg2, EndemicOTReceiver, EndemicOTSender};
use std::collections::HashMap;
use std::panic::{catch_unwind, AssertUnwindSafe};
use std::rc::Rc;

const N: usize = 256;
type Key = [u8; 32];

fn hexw(b: &[u8]) -> String { if b.is_empty() { "-".into() } else { hex::encode(b) } }
fn unhexw(s: &str) -> Vec<u8> { if s == "-" { vec![] } else { hex::decode(s).unwrap_or_default() } }
fn bit(bits: &[u8], i: usize) -> usize { ((bits[i >> 3] >> (i & 7)) & 1) as usize }

/// tapes: receiver = 128 bytes of choice bits (one u32 per byte), 256 t_a, 256 r_other; sender = 512 t_b.
/// tweak 1: the first Scalar::random draw of both parties is >= q (rejection sampling retries)
/// tweak 2: t_a[0] = 0 and r_other[0] = 0 (receiver), tweak 3: t_b_0 = t_b_1 = 0 in instance 0 (sender) — degenerate scalars
pub fn tapes(seed: u64, tweak: u32) -> (Vec<u8>, Vec<u8>) {
    let mut s = [0u8; 32]; s[..8].copy_from_slice(&seed.to_le_bytes()); s[8..12].copy_from_slice(b"eot5");
    let mut rng = rand_chacha::ChaCha20Rng::from_seed(s);
    let mut r = vec![0u8; 128 + 512 * 32 + 256]; rng.fill_bytes(&mut r);
    let mut t = vec![0u8; 512 * 32 + 256]; rng.fill_bytes(&mut t);
    match tweak {
        1 => { for b in r[128..160].iter_mut() { *b = 0xff; } for b in t[..32].iter_mut() { *b = 0xff; } }
        2 => { for b in r[128..160].iter_mut() { *b = 0; } for b in r[128 + 256 * 32..128 + 257 * 32].iter_mut() { *b = 0; } }
        3 => { for b in t[..64].iter_mut() { *b = 0; } }
        // 4: the receiver's "other" point is the identity (scalar draw 0) in instances 0, 7, 200, 255; 5: in every instance;
        // 6: t_a = 0 in instances 0 and 255.  The conclusion still holds for these tapes (only a zero SENDER scalar is degenerate).
        4 => { for k in [0usize, 7, 200, 255] { for b in r[128 + (256 + k) * 32..128 + (257 + k) * 32].iter_mut() { *b = 0; } } }
        5 => { for b in r[128 + 256 * 32..128 + 512 * 32].iter_mut() { *b = 0; } }
        6 => { for k in [0usize, 255] { for b in r[128 + k * 32..128 + (k + 1) * 32].iter_mut() { *b = 0; } } }
        _ => {}
    }
    (r, t)
}

// ---------------------------------------------------------------- the real code
fn real_recv_new(sid: &[u8], tape: &[u8]) -> Option<(EndemicOTReceiver, Vec<u8>, usize)> {
    catch_unwind(AssertUnwindSafe(|| {
        let mut rng = TapeRng::new(tape.to_vec());
        let mut msg1 = EndemicOTMsg1::default();
        let r = EndemicOTReceiver::new(sid, &mut msg1, &mut rng);
        // out-buffer probe: the same call into a pre-filled message buffer
        let mut dirty = EndemicOTMsg1::default();
        bytemuck::bytes_of_mut(&mut dirty).iter_mut().for_each(|b| *b = crate::report::dirty_fill(tape));
        let _ = EndemicOTReceiver::new(sid, &mut dirty, &mut TapeRng::new(tape.to_vec()));
        if bytemuck::bytes_of(&dirty) != bytemuck::bytes_of(&msg1) { crate::report::outbuf_dependence("EndemicOTReceiver::new(msg1)"); }
        (r, bytemuck::bytes_of(&msg1).to_vec(), rng.used)
    })).ok()
}
/// (Ok(keys) | Err, msg2 as left in the buffer, tape used)
fn real_send(sid: &[u8], msg1: &[u8], tape: &[u8]) -> Option<(Option<Vec<(Key, Key)>>, Vec<u8>, usize)> {
    catch_unwind(AssertUnwindSafe(|| {
        let mut rng = TapeRng::new(tape.to_vec());
        let m1: EndemicOTMsg1 = bytemuck::pod_read_unaligned(msg1);
        let mut msg2 = EndemicOTMsg2::default();
        let r = EndemicOTSender::process(sid, &m1, &mut msg2, &mut rng);
        if r.is_ok() {
            let mut dirty = EndemicOTMsg2::default();
            bytemuck::bytes_of_mut(&mut dirty).iter_mut().for_each(|b| *b = crate::report::dirty_fill(tape));
            if EndemicOTSender::process(sid, &m1, &mut dirty, &mut TapeRng::new(tape.to_vec())).is_ok() && bytemuck::bytes_of(&dirty) != bytemuck::bytes_of(&msg2) { crate::report::outbuf_dependence("EndemicOTSender::process(msg2)"); }
        }
        (r.ok().map(|o| o.verif_keys()), bytemuck::bytes_of(&msg2).to_vec(), rng.used)
    })).ok()
}
fn real_recv_proc(recv: EndemicOTReceiver, msg2: &[u8]) -> Option<Option<(Key, Vec<Key>)>> {
    catch_unwind(AssertUnwindSafe(|| {
        let m2: EndemicOTMsg2 = bytemuck::pod_read_unaligned(msg2);
        recv.process(&m2).ok().map(|o| o.verif_parts())
    })).ok()
}
fn keys_hex(k: &[(Key, Key)]) -> String { k.iter().map(|(a, b)| format!("{}{}", hex::encode(a), hex::encode(b))).collect() }

// ---------------------------------------------------------------- sessions
pub struct Session {
    pub sid: Vec<u8>, pub tr: Vec<u8>, pub ts: Vec<u8>,
    pub msg1: Vec<u8>, pub bits: Key, pub ta: String,
    pub msg2: Vec<u8>, pub skeys: Vec<(Key, Key)>, pub rkeys: Vec<Key>,
}

struct Ctx<'a> { drv: &'a mut Driver, rep: &'a mut Report, cache: HashMap<String, Rc<Session>>, line: String, stream: String, idx: u64 }

impl<'a> Ctx<'a> {
    fn diverge(&mut self, key: &str, what: &str, imp: String, model: String) {
        self.rep.diverge(Failure { stream: self.stream.clone(), index: self.idx, request: vec![self.line.clone()], impl_out: imp, model_out: model, key: key.into(), what: what.into() });
    }
    fn pred(&mut self, key: &str, what: String, imp: String) {
        self.rep.pred_fail(Failure { stream: self.stream.clone(), index: self.idx, request: vec![self.line.clone()], impl_out: imp, model_out: String::new(), key: key.into(), what });
    }
    /// sender on (sid, msg1, tape): real vs model; returns the real result
    fn send(&mut self, sid: &[u8], msg1: &[u8], tape: &[u8]) -> Option<(Option<Vec<(Key, Key)>>, Vec<u8>)> {
        let real = real_send(sid, msg1, tape);
        let model = self.drv.ask_with(&format!("eot send {} {} {}", hexw(sid), hex::encode(msg1), hex::encode(tape)), &mut |q| oracle::answer(q));
        let imp = match &real {
            None => "panic".to_string(),
            Some((Some(k), m2, u)) => format!("ok:{}:{}:{}", hex::encode(m2), keys_hex(k), u),
            Some((None, m2, u)) => format!("err:{}:{}", hex::encode(m2), u),
        };
        if imp != model { self.diverge("eot:send-model", "Lean model Endemic.sendProcess and EndemicOTSender::process disagree", imp, model); }
        real.map(|(k, m2, _)| (k, m2))
    }
    /// receiver (rebuilt from its tape) on msg2: real vs model
    fn recv_proc(&mut self, s: &Session, msg2: &[u8]) -> Option<Vec<Key>> {
        let real = real_recv_new(&s.sid, &s.tr).and_then(|(r, _, _)| real_recv_proc(r, msg2));
        let model = self.drv.ask_with(&format!("eot recvproc {} {} {}", hex::encode(s.bits), s.ta, hex::encode(msg2)), &mut |q| oracle::answer(q));
        let imp = match &real {
            None => "panic".to_string(),
            Some(Some((_, k))) => format!("ok:{}", k.iter().map(hex::encode).collect::<String>()),
            Some(None) => "err".into(),
        };
        if imp != model { self.diverge("eot:recvproc-model", "Lean model Endemic.recvProcess and EndemicOTReceiver::process disagree", imp, model); }
        real.flatten().map(|(_, k)| k)
    }
    /// honest session (cached): all three steps compared with the model, and the honest-exchange predicate
    fn session(&mut self, sid: &[u8], seed: u64, tweak: u32) -> Option<Rc<Session>> {
        let ck = format!("{}:{}:{}", hexw(sid), seed, tweak);
        if let Some(s) = self.cache.get(&ck) { return Some(s.clone()); }
        let (tr, ts) = tapes(seed, tweak);
        let (_r, msg1, used) = real_recv_new(sid, &tr)?;
        let m = self.drv.ask_with(&format!("eot recvnew {} {}", hexw(sid), hex::encode(&tr)), &mut |q| oracle::answer(q));
        let f: Vec<&str> = m.split(':').collect();
        if f.len() != 4 { self.diverge("eot:recvnew-model", "malformed model answer", String::new(), m.clone()); return None; }
        let bits: Key = real_recv_new(sid, &tr).and_then(|(r, _, _)| {
            // the choice bits are only visible in the receiver's output: run process on an all-identity message
            real_recv_proc(r, &vec![0u8; N * 66]).flatten().map(|(b, _)| b)
        })?;
        let imp = format!("{}:{}:{}", hex::encode(&msg1), hex::encode(bits), used);
        let mdl = format!("{}:{}:{}", f[0], f[1], f[3]);
        if imp != mdl { self.diverge("eot:recvnew-model", "Lean model Endemic.recvNew and EndemicOTReceiver::new disagree (msg1, choice bits, tape consumption)", imp, mdl); }
        let ta = f[2].to_string();
        let (k, msg2) = self.send(sid, &msg1, &ts)?;
        let skeys = match k { Some(k) => k, None => { self.pred("eot:honest-send-err", "the sender rejects an honest message 1".into(), "Err".into()); return None; } };
        let mut s = Session { sid: sid.to_vec(), tr, ts, msg1, bits, ta, msg2, skeys, rkeys: vec![] };
        let rk = self.recv_proc(&s, &s.msg2.clone());
        match rk { Some(k) => s.rkeys = k, None => { self.pred("eot:honest-recv-err", "the receiver rejects an honest message 2".into(), "Err".into()); return None; } }
        let s = Rc::new(s);
        self.cache.insert(ck, s.clone());
        Some(s)
    }
}

/// per instance: 0 = matches neither, 1 = matches exactly the chosen key, 2 = matches the other key (possibly both)
fn relation(bits: &[u8], skeys: &[(Key, Key)], rkeys: &[Key]) -> Vec<u8> {
    (0..N).map(|i| {
        let (c, o) = if bit(bits, i) == 0 { (skeys[i].0, skeys[i].1) } else { (skeys[i].1, skeys[i].0) };
        if rkeys[i] == o { 2 } else if rkeys[i] == c { 1 } else { 0 }
    }).collect()
}

/// an encoding derived from an honest 33-byte point
fn enc_value(val: &str, p: &[u8]) -> Vec<u8> {
    let mut v = p.to_vec();
    match val {
        "identity" => v = vec![0u8; 33],
        "compact05" => v[0] = 5,
        "negate" => v[0] ^= 1,
        "tag04" => v[0] = 4,
        "tag00" => { v[0] = 0; if v[1..].iter().all(|b| *b == 0) { v[32] = 1; } }
        "tagff" => v[0] = 0xff,
        "x>=p" => { for b in v[1..].iter_mut() { *b = 0xff; } }
        "off-curve" => { loop { let mut i = 32; loop { v[i] = v[i].wrapping_add(1); if v[i] != 0 || i == 1 { break; } i -= 1; } if oracle::k_point(&v).is_none() { break; } } }
        "generator" => v = oracle::k_enc(&k256::ProjectivePoint::GENERATOR),
        _ => {}
    }
    v
}
pub const ENC_VALUES: [&str; 9] = ["identity", "compact05", "negate", "tag04", "tag00", "tagff", "x>=p", "off-curve", "generator"];
fn enc_valid(val: &str) -> bool { matches!(val, "identity" | "compact05" | "negate" | "generator") }

#[derive(Clone, Debug)]
pub struct Scen { kind: String, sid_a: Vec<u8>, sid_b: Vec<u8>, seed_a: u64, seed_b: u64, tweak: u32, k: usize, k2: usize, val: String }
fn scen_line(s: &Scen) -> String { format!("c05 {} {} {} {} {} {} {} {} {}", s.kind, hexw(&s.sid_a), hexw(&s.sid_b), s.seed_a, s.seed_b, s.tweak, s.k, s.k2, s.val) }
fn parse_scen(l: &str) -> Option<Scen> {
    let t: Vec<&str> = l.split(' ').collect();
    if t.len() != 10 || t[0] != "c05" { return None; }
    Some(Scen { kind: t[1].into(), sid_a: unhexw(t[2]), sid_b: unhexw(t[3]), seed_a: t[4].parse().ok()?, seed_b: t[5].parse().ok()?, tweak: t[6].parse().ok()?, k: t[7].parse().ok()?, k2: t[8].parse().ok()?, val: t[9].into() })
}

fn expect_relation(cx: &mut Ctx, rel: &[u8], affected: &dyn Fn(usize) -> bool, key: &str) {
    let bad_aff: Vec<usize> = (0..N).filter(|i| affected(*i) && rel[*i] != 0).collect();
    let bad_rest: Vec<usize> = (0..N).filter(|i| !affected(*i) && rel[*i] != 1).collect();
    if !bad_aff.is_empty() {
        cx.pred(key, format!("{} instance(s) where the receiver's key still matches one of the sender's keys although the session / message differs (first: {})", bad_aff.len(), bad_aff[0]), format!("{:?}", &bad_aff[..bad_aff.len().min(16)]));
    }
    if !bad_rest.is_empty() {
        cx.pred("eot:untouched-instance", format!("{} untouched instance(s) no longer satisfy key == chosen && key != other (first: {})", bad_rest.len(), bad_rest[0]), format!("{:?}", &bad_rest[..bad_rest.len().min(16)]));
    }
}

fn scenario(cx: &mut Ctx, s: &Scen) {
    cx.line = scen_line(s);
    cx.stream = s.kind.clone();
    let line = cx.line.clone();
    cx.idx = cx.rep.case(&s.kind, if s.tweak >= 2 { None } else { Some(&line) });
    cx.rep.hist(&format!("kind:{}", s.kind));
    cx.rep.hist(&format!("sid-len:{}", s.sid_a.len()));
    let a = match cx.session(&s.sid_a, s.seed_a, s.tweak) { Some(a) => a, None => { cx.pred("eot:honest-failed", "honest session could not be completed".into(), String::new()); return; } };
    let inst = |m: &[u8], k: usize| m[66 * k..66 * (k + 1)].to_vec();
    match s.kind.as_str() {
        "honest" => {
            let rel = relation(&a.bits, &a.skeys, &a.rkeys);
            let ones = (0..N).filter(|i| bit(&a.bits, *i) == 1).count();
            cx.rep.hist(if ones == 0 || ones == N { "choice:constant" } else { "choice:mixed" });
            if s.tweak == 2 || s.tweak == 3 {
                // degenerate scalars (probability 2^-256 per draw): the conclusion is NOT claimed; correspondence only
                let n_bad = rel.iter().filter(|r| **r != 1).count();
                cx.rep.hist(&format!("degenerate-tape:instances-off={n_bad}"));
                return;
            }
            let bad: Vec<usize> = (0..N).filter(|i| rel[*i] != 1).collect();
            if !bad.is_empty() {
                let wrong_chosen = bad.iter().filter(|i| rel[**i] == 0).count();
                cx.pred(if wrong_chosen > 0 { "eot:honest-chosen-key" } else { "eot:honest-other-key" },
                    format!("honest exchange: {} instance(s) violate key == sender[choice] && key != sender[1-choice] (first {})", bad.len(), bad[0]), format!("{:?}", &bad[..bad.len().min(16)]));
            }
            if cx.idx < 1 { cx.rep.sample(json!({"scenario": cx.line, "choice_bits": hex::encode(a.bits), "receiver_key_0": hex::encode(a.rkeys[0]), "sender_keys_0": [hex::encode(a.skeys[0].0), hex::encode(a.skeys[0].1)]})); }
        }
        "diffsid" => {
            // receiver under sid A, sender under sid B, both with the tapes of A
            if s.sid_a == s.sid_b { return; }
            let Some((Some(sk), m2)) = cx.send(&s.sid_b, &a.msg1, &a.ts) else { cx.pred("eot:diffsid-err", "sender errs on a well-formed message".into(), String::new()); return; };
            let Some(rk) = cx.recv_proc(&a, &m2) else { cx.pred("eot:diffsid-err", "receiver errs on a well-formed message".into(), String::new()); return; };
            expect_relation(cx, &relation(&a.bits, &sk, &rk), &|_| true, "eot:diffsid-key-match");
        }
        "m1whole" | "m1inst" | "m1idx" => {
            // the sender of session A is fed (parts of) a message 1 recorded elsewhere
            let b = match cx.session(&s.sid_b, s.seed_b, 0) { Some(b) => b, None => return };
            let mut m1 = a.msg1.clone();
            let affected: Box<dyn Fn(usize) -> bool> = match s.kind.as_str() {
                "m1whole" => { m1 = b.msg1.clone(); Box::new(|_| true) }
                "m1inst" => { m1[66 * s.k..66 * (s.k + 1)].copy_from_slice(&inst(&b.msg1, s.k)); let k = s.k; Box::new(move |i| i == k) }
                _ => { let src = inst(&a.msg1, s.k2); m1[66 * s.k..66 * (s.k + 1)].copy_from_slice(&src); let k = s.k; Box::new(move |i| i == k) }
            };
            if m1 == a.msg1 { cx.rep.hist("substitution:identical-message"); return; }
            let Some((Some(sk), m2)) = cx.send(&a.sid, &m1, &a.ts) else { cx.pred("eot:subst-err", "sender errs on a well-formed message".into(), String::new()); return; };
            let Some(rk) = cx.recv_proc(&a, &m2) else { cx.pred("eot:subst-err", "receiver errs on a well-formed message".into(), String::new()); return; };
            expect_relation(cx, &relation(&a.bits, &sk, &rk), &*affected, &format!("eot:{}-key-match", s.kind));
        }
        "m2whole" | "m2inst" | "m2idx" => {
            let b = match cx.session(&s.sid_b, s.seed_b, 0) { Some(b) => b, None => return };
            let mut m2 = a.msg2.clone();
            let affected: Box<dyn Fn(usize) -> bool> = match s.kind.as_str() {
                "m2whole" => { m2 = b.msg2.clone(); Box::new(|_| true) }
                "m2inst" => { m2[66 * s.k..66 * (s.k + 1)].copy_from_slice(&inst(&b.msg2, s.k)); let k = s.k; Box::new(move |i| i == k) }
                _ => { let src = inst(&a.msg2, s.k2); m2[66 * s.k..66 * (s.k + 1)].copy_from_slice(&src); let k = s.k; Box::new(move |i| i == k) }
            };
            if m2 == a.msg2 { cx.rep.hist("substitution:identical-message"); return; }
            let Some(rk) = cx.recv_proc(&a, &m2) else { cx.pred("eot:subst-err", "receiver errs on a well-formed message".into(), String::new()); return; };
            expect_relation(cx, &relation(&a.bits, &a.skeys, &rk), &*affected, &format!("eot:{}-key-match", s.kind));
        }
        "m2neg" | "m2scaled" | "m1neg" => {
            // k2 = 1: every instance, 0: instance k only; val (m1neg) = chosen | other | both: which point of the entry
            let all = s.k2 == 1;
            let hit = |i: usize| all || i == s.k;
            let negate = |p: &mut [u8]| { if p[0] == 2 || p[0] == 3 { p[0] ^= 1; true } else { false } };
            let k = s.k; let affected = move |i: usize| all || i == k;
            cx.rep.hist(&format!("related:{}:{}{}", s.kind, if all { "all" } else { "one" }, if s.kind == "m1neg" { format!(":{}", s.val) } else { String::new() }));
            if s.kind == "m1neg" {
                let mut m1 = a.msg1.clone();
                for i in (0..N).filter(|i| hit(*i)) {
                    let c = bit(&a.bits, i);
                    for slot in 0..2 {
                        let is_chosen = slot == c;
                        if (s.val == "chosen" && !is_chosen) || (s.val == "other" && is_chosen) { continue; }
                        negate(&mut m1[66 * i + 33 * slot..66 * i + 33 * slot + 33]);
                    }
                }
                if m1 == a.msg1 { cx.rep.hist("substitution:identical-message"); return; }
                let Some((Some(sk), m2)) = cx.send(&a.sid, &m1, &a.ts) else { cx.pred("eot:subst-err", "sender errs on a well-formed message".into(), String::new()); return; };
                let Some(rk) = cx.recv_proc(&a, &m2) else { cx.pred("eot:subst-err", "receiver errs on a well-formed message".into(), String::new()); return; };
                expect_relation(cx, &relation(&a.bits, &sk, &rk), &affected, "eot:related-substitution-matches");
            } else {
                let mut m2 = a.msg2.clone();
                for i in (0..N).filter(|i| hit(*i)) {
                    for slot in 0..2 {
                        let off = 66 * i + 33 * slot;
                        if s.kind == "m2neg" { negate(&mut m2[off..off + 33]); }
                        else if let Some(p) = oracle::k_point(&m2[off..off + 33]) { m2[off..off + 33].copy_from_slice(&oracle::k_enc(&(p + p))); }
                    }
                }
                if m2 == a.msg2 { cx.rep.hist("substitution:identical-message"); return; }
                let Some(rk) = cx.recv_proc(&a, &m2) else { cx.pred("eot:subst-err", "receiver errs on a well-formed message".into(), String::new()); return; };
                expect_relation(cx, &relation(&a.bits, &a.skeys, &rk), &affected, "eot:related-substitution-matches");
            }
        }
        "enc1" => {
            // slot k2 (0|1) of instance k of message 1 replaced by a special encoding
            let mut m1 = a.msg1.clone();
            let off = 66 * s.k + 33 * s.k2;
            let v = enc_value(&s.val, &m1[off..off + 33].to_vec());
            m1[off..off + 33].copy_from_slice(&v);
            cx.rep.hist(&format!("enc:{}", s.val));
            let r = cx.send(&a.sid, &m1, &a.ts);
            let is_err = matches!(r, Some((None, _)));
            if is_err == enc_valid(&s.val) || r.is_none() {
                cx.pred(&format!("eot:enc1-{}", s.val), format!("sender: encoding `{}` in message 1 → {}", s.val, if r.is_none() { "panic" } else if is_err { "Err" } else { "Ok" }), String::new());
            }
        }
        "enc2" => {
            // slot (k2 = 0: the chosen one, 1: the other one) of instance k of message 2
            let mut m2 = a.msg2.clone();
            let c = bit(&a.bits, s.k);
            let off = 66 * s.k + 33 * (if s.k2 == 0 { c } else { 1 - c });
            let v = enc_value(&s.val, &m2[off..off + 33].to_vec());
            m2[off..off + 33].copy_from_slice(&v);
            cx.rep.hist(&format!("enc:{}", s.val));
            let r = cx.recv_proc(&a, &m2);
            // the unchosen slot is never decoded
            let expect_ok = enc_valid(&s.val) || s.k2 == 1;
            if r.is_some() != expect_ok {
                cx.pred(&format!("eot:enc2-{}-{}", s.val, if s.k2 == 0 { "chosen" } else { "other" }), format!("receiver: encoding `{}` in the {} slot of message 2 → {}", s.val, if s.k2 == 0 { "chosen" } else { "unchosen" }, if r.is_some() { "Ok" } else { "Err" }), String::new());
            }
            if let (Some(rk), 1) = (&r, s.k2) { if *rk != a.rkeys { cx.pred("eot:enc2-other-slot-matters", "changing the unchosen slot of message 2 changed the receiver's keys".into(), String::new()); } }
        }
        _ => {}
    }
}

pub fn replay(drv: &mut Driver, rep: &mut Report, lines: &[String]) {
    let mut cx = Ctx { drv, rep, cache: HashMap::new(), line: String::new(), stream: String::new(), idx: 0 };
    for l in lines { if let Some(s) = parse_scen(l) { scenario(&mut cx, &s); } }
}

pub fn run(o: &Opts, drv: &mut Driver, rep: &mut Report) {
    let mut rng = case_rng(o.seed, "c05");
    let thorough = o.tier == "thorough";
    let mut cx = Ctx { drv, rep, cache: HashMap::new(), line: String::new(), stream: String::new(), idx: 0 };
    let rounds = (if thorough { 4 } else { 1 }) * o.scale;
    for round in 0..rounds {
        cx.cache.clear();
        // session ids of lengths 0, 1, 32, 200; partners: random of the same length, one bit flipped, extended by a zero byte
        let lens = [0usize, 1, 32, 200];
        let sids: Vec<Vec<u8>> = lens.iter().map(|l| (0..*l).map(|_| rng.gen()).collect()).collect();
        let seeds: Vec<u64> = (0..4).map(|_| rng.next_u64() >> 1).collect();
        let sc = |kind: &str, a: usize, sid_b: &[u8], seed_b: u64, tweak: u32, k: usize, k2: usize, val: &str| Scen { kind: kind.into(), sid_a: sids[a].clone(), sid_b: sid_b.to_vec(), seed_a: seeds[a], seed_b, tweak, k, k2, val: val.into() };
        // ---- honest exchanges: 4 sid lengths x 2 tapes (the second tape of each sid starts with a rejected scalar draw)
        for a in 0..4 {
            scenario(&mut cx, &sc("honest", a, &[], 0, 0, 0, 0, "-"));
            if thorough || a == 2 || round > 0 { let mut s = sc("honest", a, &[], 0, 1, 0, 0, "-"); s.seed_a ^= 0x5555; scenario(&mut cx, &s); }
        }
        if round == 0 { for tw in (if thorough { vec![2u32, 3, 4, 5, 6] } else { vec![3u32, 4, 6] }) { let mut s = sc("honest", 2, &[], 0, tw, 0, 0, "-"); s.seed_a ^= 0x7777; scenario(&mut cx, &s); } }
        // ---- different session ids on the two sides
        for a in 0..4 {
            if !thorough && (a + round as usize) % 2 == 1 { continue; }
            let mut flipped = sids[a].clone();
            if flipped.is_empty() { flipped.push(0) } else { let k = rng.gen_range(0..flipped.len() * 8); flipped[k / 8] ^= 1 << (k % 8); }
            let mut ext = sids[a].clone(); ext.push(0);
            let other: Vec<u8> = (0..lens[a].max(1)).map(|_| rng.gen()).collect();
            let partners: Vec<Vec<u8>> = if thorough { vec![flipped, ext, other] } else { vec![[flipped, ext, other][(a / 2 + round as usize) % 3].clone()] };
            for p in partners { scenario(&mut cx, &sc("diffsid", a, &p, 0, 0, 0, 0, "-")); }
        }
        // ---- cross-session substitution: session B has another sid and other tapes; also the SAME tapes under another sid
        for (a, b, same_tapes) in [(2usize, 3usize, false), (1, 2, true), (0, 1, false), (3, 2, false)].into_iter().take(if thorough { 4 } else { 2 }) {
            let seed_b = if same_tapes { seeds[a] } else { seeds[b] };
            let k = rng.gen_range(0..N); let k2 = (k + 1 + rng.gen_range(0..N - 1)) % N;
            let kinds: &[&str] = if thorough || !same_tapes { &["m1whole", "m1inst", "m2whole", "m2inst"] } else { &["m1whole", "m2whole"] };
            for kind in kinds { scenario(&mut cx, &sc(kind, a, &sids[b], seed_b, 0, k, k2, "-")); }
            // another instance of the same session moved to position k
            if thorough || !same_tapes {
                scenario(&mut cx, &sc("m1idx", a, &sids[a], seeds[a], 0, k, k2, "-"));
                scenario(&mut cx, &sc("m2idx", a, &sids[a], seeds[a], 0, k, k2, "-"));
            }
            for kk in [0usize, N - 1] { if thorough { scenario(&mut cx, &sc("m1inst", a, &sids[b], seed_b, 0, kk, 0, "-")); scenario(&mut cx, &sc("m2inst", a, &sids[b], seed_b, 0, kk, 0, "-")); } }
        }
        // ---- algebraically related substitutions: negated / doubled points
        {
            let a = 2; let k = rng.gen_range(0..N);
            scenario(&mut cx, &sc("m2neg", a, &[], 0, 0, k, 1, "-"));
            scenario(&mut cx, &sc("m2neg", a, &[], 0, 0, k, 0, "-"));
            scenario(&mut cx, &sc("m2scaled", a, &[], 0, 0, k, 1, "-"));
            scenario(&mut cx, &sc("m1neg", a, &[], 0, 0, k, 1, "chosen"));
            scenario(&mut cx, &sc("m1neg", a, &[], 0, 0, k, 0, "other"));
            if thorough {
                for a2 in [0usize, 1, 3] { scenario(&mut cx, &sc("m2neg", a2, &[], 0, 0, k, 1, "-")); }
                scenario(&mut cx, &sc("m2scaled", a, &[], 0, 0, k, 0, "-"));
                scenario(&mut cx, &sc("m1neg", a, &[], 0, 0, k, 1, "other"));
                scenario(&mut cx, &sc("m1neg", a, &[], 0, 0, k, 1, "both"));
                scenario(&mut cx, &sc("m1neg", a, &[], 0, 0, k, 0, "chosen"));
            }
        }
        // ---- special encodings in every kind of slot (quick tier: each value once per message, slots alternate)
        for (vi, val) in ENC_VALUES.iter().enumerate() {
            let a = 2;
            for slot in 0..2 {
                let k = [0, N - 1, rng.gen_range(0..N)][(vi + slot) % 3];
                let pick = (vi + slot + round as usize) % 2 == 0;
                if thorough || (pick && *val != "generator" && *val != "tagff" && *val != "negate") || (*val == "identity" && slot == 1) { scenario(&mut cx, &sc("enc1", a, &[], 0, 0, k, slot, val)); }
                if thorough || pick || slot == 0 { scenario(&mut cx, &sc("enc2", a, &[], 0, 0, k, slot, val)); }
            }
        }
    }
    cx.rep.notes.push("message 2 (m_b = t_b*G) does not depend on the session id: substituting message 2 is detected only through the freshness of t_b; substitutions that leave the message bit-identical are skipped (histogram substitution:identical-message)".into());
    cx.rep.notes.push("degenerate tapes (a zero scalar t_a or t_b, probability 2^-256 per draw) are run for model correspondence only: with t_b_0 = 0 the sender key rho_0 is H2(idx, identity) whatever message 1 says".into());
    cx.rep.notes.push("decode_point accepts the all-zero encoding (identity) and the SEC1 compact tag 05 besides 02/03; neither sender nor receiver rejects the identity".into());
}
