//! C15 / C16: SimpleMessageRelay vs. the Lean model (Model/Relay.lean) and the heap-free specification
//! (Model/RelaySpec.lean).  One case = one history of start_send / service-send / clock-advance operations.
//! After every operation the harness lets the spawned deliveries settle, drains every connection and dumps the
//! relay state through the verif hook; all three are compared with the model (correspondence) and with the
//! specification (conclusion predicate: who receives what, which entries are retained).
use crate::{driver::Driver, report::{Failure, Report}, rng::case_rng, Opts};
use futures_util::{FutureExt, Sink, StreamExt};
use rand::Rng;
use serde_json::json;
use sl_mpc_mate::coord::simple::{verif_clock, MessageRelay};
use sl_mpc_mate::coord::SimpleMessageRelay;
use sl_mpc_mate::message::{allocate_message, Kind, MsgHdr, MsgId};
use std::panic::{catch_unwind, AssertUnwindSafe};
use std::pin::Pin;

#[derive(Clone, Debug)]
pub enum Op { Frame(usize, Vec<u8>), Service(Vec<u8>), Tick(u64) }

fn hexw(b: &[u8]) -> String { if b.is_empty() { "-".into() } else { hex::encode(b) } }
fn plus(mut v: Vec<String>) -> String { v.sort(); if v.is_empty() { "-".into() } else { v.join("+") } }
pub fn op_str(o: &Op) -> String {
    match o { Op::Frame(c, b) => format!("f{c}:{}", hexw(b)), Op::Service(b) => format!("s:{}", hexw(b)), Op::Tick(k) => format!("t{k}") }
}
pub fn parse_op(s: &str) -> Option<Op> {
    let unhex = |h: &str| if h == "-" { Some(vec![]) } else { hex::decode(h).ok() };
    if let Some(r) = s.strip_prefix('t') { return r.parse().ok().map(Op::Tick); }
    if let Some(r) = s.strip_prefix("s:") { return unhex(r).map(Op::Service); }
    if let Some(r) = s.strip_prefix('f') { let (c, h) = r.split_once(':')?; return Some(Op::Frame(c.parse().ok()?, unhex(h)?)); }
    None
}

pub const NCONN: usize = 3;

/// run one history on the real relay; one record per op: (result, deliveries, msgs, heap)
pub fn run_impl(rt: &tokio::runtime::Runtime, ops: &[Op]) -> Vec<(String, String, String, String)> { run_impl_mode(rt, ops, false) }

/// `defer`: no connection reads its stream until the history is over (a client that is busy elsewhere); everything
/// that arrives afterwards is reported with the LAST operation.  Reading is a client-side action the relay's contract
/// does not depend on: the set of deliveries must be the same.
pub fn run_impl_mode(rt: &tokio::runtime::Runtime, ops: &[Op], defer: bool) -> Vec<(String, String, String, String)> {
    rt.block_on(async {
        let relay = SimpleMessageRelay::new();
        let mut conns: Vec<MessageRelay> = (0..NCONN).map(|_| relay.connect()).collect();
        let mut now = 0u64;
        verif_clock::set_secs(0);
        let mut out = vec![];
        let mut dead = false;
        for (opi, op) in ops.iter().enumerate() {
            if dead { out.push(("skipped".into(), "-".into(), "-".into(), "-".into())); continue; }
            let res = match op {
                Op::Tick(k) => { now += k; verif_clock::set_secs(now); "ok".to_string() }
                Op::Frame(c, b) => match catch_unwind(AssertUnwindSafe(|| Pin::new(&mut conns[*c]).start_send(b.clone()))) {
                    Ok(Ok(())) => "ok".into(), Ok(Err(_)) => "senderr".into(), Err(_) => "panic".into() },
                Op::Service(b) => match catch_unwind(AssertUnwindSafe(|| relay.send(b.clone()))) { Ok(()) => "ok".into(), Err(_) => "panic".into() },
            };
            for _ in 0..4 { tokio::task::yield_now().await; }
            let mut del = vec![];
            if !defer {
                for (c, conn) in conns.iter_mut().enumerate() {
                    while let Some(Some(m)) = conn.next().now_or_never() { del.push(format!("{c}:{}", hexw(&m))); }
                }
            } else if opi + 1 == ops.len() {
                // read until nothing has arrived for a few scheduler rounds (deliveries blocked on a full channel resume
                // as soon as the reader makes room)
                let mut quiet = 0;
                while quiet < 4 {
                    for _ in 0..8 { tokio::task::yield_now().await; }
                    let before = del.len();
                    for (c, conn) in conns.iter_mut().enumerate() {
                        while let Some(Some(m)) = conn.next().now_or_never() { del.push(format!("{c}:{}", hexw(&m))); }
                    }
                    if del.len() == before { quiet += 1; } else { quiet = 0; }
                }
            }
            // is the lock still usable for other callers?
            let dump = catch_unwind(AssertUnwindSafe(|| relay.verif_dump()));
            let (msgs, heap) = match dump {
                Ok((m, h)) => (
                    plus(m.iter().map(|(id, f, n, e)| match f { Some(f) => format!("{}:R:{}", hexw(id), hexw(f)), None => format!("{}:W:{e}:{n}", hexw(id)) }).collect()),
                    plus(h.iter().map(|(w, id, k)| format!("{w}:{}:{}", hexw(id), if *k == Kind::Ask { "A" } else { "P" })).collect())),
                Err(_) => { dead = true; ("poisoned".into(), "poisoned".into()) }
            };
            out.push((res, plus(del), msgs, heap));
        }
        out
    })
}

fn strip_exp_of_ready(spec_entries: &str) -> String { spec_entries.to_string() }

pub fn one(drv: &mut Driver, rep: &mut Report, rt: &tokio::runtime::Runtime, stream: &str, ops: &[Op], prop: &str) {
    let req = format!("relay run {}", ops.iter().map(op_str).collect::<Vec<_>>().join(","));
    let nontrivial = ops.iter().filter(|o| !matches!(o, Op::Tick(_))).count() >= 2;
    let idx = rep.case(stream, if nontrivial { Some(&req) } else { None });
    let got = run_impl(rt, ops);
    let ans = drv.ask(&req);
    let recs: Vec<Vec<&str>> = ans.split(';').map(|r| r.split('|').collect()).collect();
    if recs.len() != ops.len() || recs.iter().any(|r| r.len() != 6) {
        rep.diverge(Failure { stream: stream.into(), index: idx, request: vec![req], impl_out: format!("{got:?}"), model_out: ans.clone(), key: "relay:protocol".into(), what: "driver answer malformed".into() });
        return;
    }
    let mut deliveries = 0; let mut expired_drop = false; let mut diverged = false;
    for (k, (g, r)) in got.iter().zip(recs.iter()).enumerate() {
        let impl_s = format!("{}|{}|{}|{}", g.0, g.1, g.2, g.3);
        let model_s = format!("{}|{}|{}|{}", r[0], r[1], r[2], r[3]);
        if g.1 != "-" { deliveries += g.1.split('+').count(); }
        if k > 0 && got[k - 1].2 != "-" && g.2.len() < got[k - 1].2.len() { expired_drop = true; }
        // conclusion predicates, on the implementation's own observations
        let what = if g.0 == "panic" || g.2 == "poisoned" { Some(("relay:panic-under-lock", "a relay call panicked / left the relay lock unusable")) }
            else if g.1 != r[4] { Some(("relay:deliveries", "deliveries differ from the specification (who receives which frame, how many copies)")) }
            else if g.2 != strip_exp_of_ready(r[5]) { Some(("relay:retention", "stored entries differ from the specification's live entries (dropped early / kept after expiry)")) }
            else { None };
        if let Some((key, what)) = what {
            let c16 = key == "relay:retention";
            if (prop == "C16") == c16 || key == "relay:panic-under-lock" || prop == "C15" {
                rep.pred_fail(Failure { stream: stream.into(), index: idx, request: vec![req.clone()], impl_out: format!("op {k}: {impl_s}"),
                    model_out: format!("op {k}: spec deliveries {} entries {}", r[4], r[5]), key: key.into(), what: what.into() });
            }
            if impl_s != model_s && !diverged {
                rep.diverge(Failure { stream: stream.into(), index: idx, request: vec![req.clone()], impl_out: format!("op {k}: {impl_s}"), model_out: format!("op {k}: {model_s}"),
                    key: "relay:model".into(), what: "Lean model Relay.step and SimpleMessageRelay disagree".into() });
            }
            return;
        }
        if impl_s != model_s && !diverged {
            // keep scanning: the property's conclusion may fail only some operations after the first divergence
            diverged = true;
            rep.diverge(Failure { stream: stream.into(), index: idx, request: vec![req.clone()], impl_out: format!("op {k}: {impl_s}"), model_out: format!("op {k}: {model_s}"),
                key: "relay:model".into(), what: "Lean model Relay.step and SimpleMessageRelay disagree".into() });
        }
    }
    if diverged { return; }
    rep.hist(&format!("len={}", (ops.len() + 9) / 10 * 10));
    if deliveries > 0 { rep.hist("histories_with_delivery"); }
    if expired_drop { rep.hist("histories_with_expiry_drop"); }
    if idx == 0 && deliveries > 0 { rep.sample(json!({"stream": stream, "request": req, "impl": format!("{:?}", got), "model+spec": ans})); }
}

/// a history whose connections read nothing until it is over: the deliveries of the whole history (as a multiset)
/// against the model's and the specification's; results and stored entries still per operation
pub fn one_deferred(drv: &mut Driver, rep: &mut Report, rt: &tokio::runtime::Runtime, stream: &str, ops: &[Op], prop: &str) {
    let req = format!("relay run {}", ops.iter().map(op_str).collect::<Vec<_>>().join(","));
    let lines = vec!["c15 defer".to_string(), req.clone()];
    let idx = rep.case(stream, Some(&format!("defer {req}")));
    let got = run_impl_mode(rt, ops, true);
    let ans = drv.ask(&req);
    let recs: Vec<Vec<&str>> = ans.split(';').map(|r| r.split('|').collect()).collect();
    if recs.len() != ops.len() || recs.iter().any(|r| r.len() != 6) {
        rep.diverge(Failure { stream: stream.into(), index: idx, request: lines, impl_out: format!("{} records", got.len()), model_out: ans.chars().take(300).collect(), key: "relay:protocol".into(), what: "driver answer malformed".into() });
        return;
    }
    let union = |col: usize| { let mut v: Vec<String> = recs.iter().filter(|r| r[col] != "-").flat_map(|r| r[col].split('+').map(|x| x.to_string())).collect(); v.sort(); v };
    let (model_del, spec_del) = (union(1), union(4));
    let mut impl_del: Vec<String> = got.last().map(|g| if g.1 == "-" { vec![] } else { g.1.split('+').map(|x| x.to_string()).collect() }).unwrap_or_default(); impl_del.sort();
    rep.hist(&format!("deferred-reads:deliveries>={}", impl_del.len() / 50 * 50));
    let short = |v: &Vec<String>| format!("{} deliveries; first missing/extra shown: {:?}", v.len(), v.iter().take(2).collect::<Vec<_>>());
    for (k, (g, r)) in got.iter().zip(recs.iter()).enumerate() {
        if g.0 == "panic" || g.2 == "poisoned" {
            rep.pred_fail(Failure { stream: stream.into(), index: idx, request: lines.clone(), impl_out: format!("op {k}: {}|{}", g.0, g.2), model_out: "no panic".into(), key: "relay:panic-under-lock".into(), what: "a relay call panicked / left the relay lock unusable".into() });
            return;
        }
        if prop == "C16" && g.2 != r[5] {
            rep.pred_fail(Failure { stream: stream.into(), index: idx, request: lines.clone(), impl_out: format!("op {k}: {}", g.2), model_out: format!("op {k}: {}", r[5]), key: "relay:retention".into(), what: "stored entries differ from the specification's live entries (dropped early / kept after expiry)".into() });
            return;
        }
        if g.0 != r[0] || g.2 != r[2] || g.3 != r[3] {
            rep.diverge(Failure { stream: stream.into(), index: idx, request: lines.clone(), impl_out: format!("op {k}: {}|{}|{}", g.0, g.2, g.3), model_out: format!("op {k}: {}|{}|{}", r[0], r[2], r[3]), key: "relay:model".into(), what: "Lean model Relay.step and SimpleMessageRelay disagree".into() });
            return;
        }
    }
    if impl_del != spec_del {
        let missing: Vec<&String> = spec_del.iter().filter(|x| !impl_del.contains(x)).take(2).collect();
        rep.pred_fail(Failure { stream: stream.into(), index: idx, request: lines.clone(), impl_out: format!("{} (missing e.g. {missing:?})", short(&impl_del)), model_out: short(&spec_del), key: "relay:deliveries-deferred-reads".into(),
            what: "a client that reads its stream only after the history does not receive exactly the specified deliveries".into() });
    }
    if impl_del != model_del {
        rep.diverge(Failure { stream: stream.into(), index: idx, request: lines, impl_out: short(&impl_del), model_out: short(&model_del), key: "relay:model".into(), what: "Lean model Relay.step and SimpleMessageRelay disagree on the deliveries of a history read at its end".into() });
    }
}

/// the id alphabet is deliberately made of NEAR ids: 0 and 1 differ only in the last byte, 2 differs from 0 only in
/// byte 15 (the boundary between the two 16-byte halves), 3 only in the first byte; higher ids are unrelated.
/// An id comparison or hash that drops part of the id makes two of them collide.
fn id_of(k: u8) -> MsgId {
    let mut b = [0u8; 32];
    for (i, x) in b.iter_mut().enumerate() { *x = 0xA0 ^ (i as u8).wrapping_mul(7); }
    match k { 0 => {} 1 => b[31] ^= 0x01, 2 => b[15] ^= 0x80, 3 => b[0] ^= 0x01, _ => { b = [k; 32]; b[0] = 0xA0u8.wrapping_add(k); } }
    MsgId::from(b)
}
pub fn ask_frame(id: u8, ttl: u32) -> Vec<u8> { allocate_message(&id_of(id), ttl, 0, &[]) }
pub fn pub_frame(id: u8, ttl: u32, payload: u8) -> Vec<u8> { allocate_message(&id_of(id), ttl, payload as u16, &[payload]) }

fn alphabet() -> Vec<Op> {
    let mut a = vec![];
    for c in 0..2 { for id in 0..2 { for ttl in 0..3 { a.push(Op::Frame(c, ask_frame(id, ttl))); } } }
    for id in 0..2 { for ttl in 0..3 { for p in 1..3 { a.push(Op::Frame(2, pub_frame(id, ttl, p))); } } }
    a.push(Op::Tick(1)); a.push(Op::Tick(2));
    a
}

fn hdr_case(drv: &mut Driver, rep: &mut Report, id: [u8; 32], ttl: u32, flags: u16, payload: &[u8]) {
    let req = format!("relay hdr {} {} {} {}", hex::encode(id), ttl, flags, hexw(payload));
    let idx = rep.case("hdr-codec", Some(&req));
    let frame = allocate_message(&MsgId::from(id), ttl, flags, payload);
    let model = drv.ask(&req);
    let dec = match <&MsgHdr>::try_from(frame.as_slice()) { Ok(h) => format!("{}:{}:{}", hex::encode(h.id().as_slice()), h.ttl().as_secs(), h.flags()), Err(_) => "none".into() };
    let mdec = drv.ask(&format!("relay dec {}", hexw(&frame)));
    let want = format!("{}:{}:{}", hex::encode(id), ttl & 0xffff, flags);
    if ttl < 65536 && dec != want {
        rep.pred_fail(Failure { stream: "hdr-codec".into(), index: idx, request: vec![req.clone()], impl_out: dec.clone(), model_out: want, key: "relay:hdr-roundtrip".into(),
            what: "id/ttl/flags read back from a frame differ from those it was built with".into() });
    }
    if hexw(&frame) != model || dec != mdec {
        rep.diverge(Failure { stream: "hdr-codec".into(), index: idx, request: vec![req], impl_out: format!("{} {}", hexw(&frame), dec), model_out: format!("{model} {mdec}"), key: "relay:hdr-model".into(),
            what: "Lean header codec and message.rs disagree".into() });
    }
}

pub fn replay(drv: &mut Driver, rep: &mut Report, lines: &[String], prop: &str) {
    let rt = tokio::runtime::Builder::new_current_thread().build().unwrap();
    let mut defer = false;
    for l in lines {
        if l == "c15 defer" { defer = true; continue; }
        if let Some(r) = l.strip_prefix("relay run ") {
            let ops: Vec<Op> = r.split(',').filter_map(parse_op).collect();
            if defer { one_deferred(drv, rep, &rt, "replay", &ops, prop); } else { one(drv, rep, &rt, "replay", &ops, prop); }
            defer = false;
        }
    }
}

pub fn run(o: &Opts, drv: &mut Driver, rep: &mut Report, prop: &str) {
    let thorough = o.tier == "thorough";
    let rt = tokio::runtime::Builder::new_current_thread().build().unwrap();
    let mut rng = case_rng(o.seed, "c15");
    let alpha = alphabet();
    // exhaustive short histories over the alphabet (26 ops)
    let maxlen = if thorough { 4 } else { 2 };
    for len in 1..=maxlen {
        let mut idx = vec![0usize; len];
        loop {
            let ops: Vec<Op> = idx.iter().map(|&i| alpha[i].clone()).collect();
            one(drv, rep, &rt, &format!("exhaustive-len{len}"), &ops, prop);
            let mut k = 0;
            while k < len { idx[k] += 1; if idx[k] < alpha.len() { break; } idx[k] = 0; k += 1; }
            if k == len { break; }
        }
    }
    rep.exhaustive.push(format!("all histories of length <= {maxlen} over {} operations (2 askers x 2 ids x ttl 0..2, publications 2 ids x ttl 0..2 x 2 payloads, clock +1/+2)", alpha.len()));
    // directed orderings of ask-expiry / publish-expiry / re-publication (C16)
    for (a_ttl, p_ttl, gap1, gap2) in (0..4u32).flat_map(|a| (0..4u32).flat_map(move |p| (0..4u64).flat_map(move |g1| (0..4u64).map(move |g2| (a, p, g1, g2))))) {
        let ops = vec![Op::Frame(0, ask_frame(0, a_ttl)), Op::Frame(1, ask_frame(1, 1)), Op::Tick(gap1), Op::Frame(2, pub_frame(0, p_ttl, 1)), Op::Tick(gap2),
                       Op::Frame(1, ask_frame(0, 1)), Op::Frame(2, pub_frame(0, 3, 2)), Op::Tick(1), Op::Frame(0, ask_frame(0, 0)), Op::Tick(3), Op::Frame(0, ask_frame(1, 0))];
        one(drv, rep, &rt, "directed-ttl-orderings", &ops, prop);
    }
    // random long histories, incl. malformed frames and the service entry point
    let n = (if thorough { 20000 } else { 1200 }) * o.scale;
    for _ in 0..n {
        let len = rng.gen_range(3..if thorough { 60 } else { 40 });
        let ops: Vec<Op> = (0..len).map(|_| match rng.gen_range(0..100) {
            0..=34 => Op::Frame(rng.gen_range(0..NCONN), ask_frame(rng.gen_range(0..5), [0, 1, 2, 5, 70000][rng.gen_range(0..5)])),
            35..=64 => Op::Frame(rng.gen_range(0..NCONN), pub_frame(rng.gen_range(0..5), [0, 1, 2, 5, 65537][rng.gen_range(0..5)], rng.gen_range(1..4))),
            65..=89 => Op::Tick(rng.gen_range(0..4)),
            90..=93 => Op::Service(pub_frame(rng.gen_range(0..3), rng.gen_range(0..3), rng.gen_range(1..4))),
            94..=95 => Op::Service(ask_frame(rng.gen_range(0..3), 1)),                                  // exactly a header: no payload
            96 => Op::Service((0..rng.gen_range(0..36)).map(|_| rng.gen()).collect()),                  // shorter than a header
            97 => Op::Frame(rng.gen_range(0..NCONN), (0..rng.gen_range(0..36)).map(|_| rng.gen()).collect()),
            _ => { let mut f = pub_frame(rng.gen_range(0..3), 1, 9); f.extend((0..rng.gen_range(0..20)).map(|_| rng.gen::<u8>())); Op::Frame(rng.gen_range(0..NCONN), f) }
        }).collect();
        one(drv, rep, &rt, "random", &ops, prop);
    }
    // MANY records due at once / many superseded records: expiry work that is budgeted, batched or compacted shows only when a
    // single operation finds dozens of due (or stale) records ahead of the one it needs
    for &k in &[5usize, 33, 40, 70, 150] {
        // k short-lived asks and a publication X with a slightly longer TTL; the clock jumps past everything; then X is asked
        // for (must wait: X expired), re-published and asked again (must be answered with the NEW frame)
        let mut ops: Vec<Op> = (0..k).map(|i| Op::Frame(i % 2, ask_frame(10 + (i % 200) as u8, 1))).collect();
        ops.push(Op::Frame(2, pub_frame(0, 2, 1)));
        ops.push(Op::Tick(5));
        ops.push(Op::Frame(0, ask_frame(0, 3)));
        ops.push(Op::Frame(2, pub_frame(0, 3, 2)));
        ops.push(Op::Frame(1, ask_frame(0, 3)));
        ops.push(Op::Tick(4));
        ops.push(Op::Frame(1, ask_frame(1, 1)));
        one(drv, rep, &rt, "mass-expiry", &ops, prop);
        // an id asked first and published while the ask waits (ask TTL longer than the publication's), then k asks joining ONE
        // other id (k superseded records), then the clock passes the publication's deadline
        let mut ops = vec![Op::Frame(0, ask_frame(0, 100)), Op::Frame(2, pub_frame(0, 5, 1))];
        ops.extend((0..k).map(|i| Op::Frame(i % 2, ask_frame(1, 20 + (i % 7) as u32))));
        ops.push(Op::Tick(3)); ops.push(Op::Frame(1, ask_frame(0, 1)));
        ops.push(Op::Tick(3)); ops.push(Op::Frame(1, ask_frame(2, 1)));
        ops.push(Op::Frame(1, ask_frame(0, 1)));
        ops.push(Op::Tick(200)); ops.push(Op::Frame(0, ask_frame(3, 1)));
        one(drv, rep, &rt, "many-joins", &ops, prop);
    }
    // clients that do not read while the history runs: backlogs of 1 … 230 undelivered frames on one connection
    // (waiting path: asked before published; immediate path: published before asked; the same id asked repeatedly)
    for (n, &k) in [1usize, 7, 99, 100, 101, 150, 230].iter().enumerate() {
        let ids: Vec<u8> = (0..k).map(|i| 10 + i as u8).collect();
        let mut ops: Vec<Op> = ids.iter().map(|&i| Op::Frame(0, ask_frame(i, 50))).collect();
        ops.extend(ids.iter().map(|&i| if i % 5 == 0 { Op::Service(pub_frame(i, 50, 1 + i % 3)) } else { Op::Frame(1 + (i as usize % 2), pub_frame(i, 50, 1 + i % 3)) }));
        one_deferred(drv, rep, &rt, "backlog-waiting-path", &ops, prop);
        let mut ops: Vec<Op> = ids.iter().map(|&i| Op::Frame(2, pub_frame(i, 50, 2))).collect();
        ops.extend(ids.iter().map(|&i| Op::Frame(n % 2, ask_frame(i, 50))));
        one_deferred(drv, rep, &rt, "backlog-immediate-path", &ops, prop);
        let mut ops: Vec<Op> = (0..k).map(|i| Op::Frame(i % 2, ask_frame(4, 50))).collect();
        ops.push(Op::Tick(1)); ops.push(Op::Frame(2, pub_frame(4, 5, 3)));
        one_deferred(drv, rep, &rt, "backlog-same-id", &ops, prop);
    }
    // random histories read only at their end
    for _ in 0..(if thorough { 3000 } else { 200 }) * o.scale {
        let len = rng.gen_range(3..40);
        let ops: Vec<Op> = (0..len).map(|_| match rng.gen_range(0..100) {
            0..=39 => Op::Frame(rng.gen_range(0..NCONN), ask_frame(rng.gen_range(0..5), [0, 1, 2, 5][rng.gen_range(0..4)])),
            40..=74 => Op::Frame(rng.gen_range(0..NCONN), pub_frame(rng.gen_range(0..5), [0, 1, 2, 5][rng.gen_range(0..4)], rng.gen_range(1..4))),
            75..=94 => Op::Tick(rng.gen_range(0..4)),
            _ => Op::Service(pub_frame(rng.gen_range(0..3), rng.gen_range(0..3), rng.gen_range(1..4))),
        }).collect();
        one_deferred(drv, rep, &rt, "random-deferred-reads", &ops, prop);
    }
    // header codec
    for k in 0..(if thorough { 20000 } else { 600 }) {
        let mut id = [0u8; 32]; rng.fill(&mut id);
        let ttl: u32 = match k % 6 { 0 => 0, 1 => 65535, 2 => 65536, 3 => u32::MAX, _ => rng.gen_range(0..65536) };
        let flags: u16 = match k % 5 { 0 => 0, 1 => u16::MAX, _ => rng.gen() };
        let payload: Vec<u8> = (0..rng.gen_range(0..5)).map(|_| rng.gen()).collect();
        hdr_case(drv, rep, id, ttl, flags, &payload);
    }
    multi_thread(rep);
}

/// Concurrent clients on a multi-threaded runtime: an order-insensitive workload (every id is published exactly
/// once with a long TTL, every client asks every id once) must end with every client holding exactly one copy of every
/// publication.  Thread interleavings themselves are outside the sequential model (DESIGN §9).
fn multi_thread(rep: &mut Report) {
    verif_clock::set_secs(0);
    let rt = tokio::runtime::Builder::new_multi_thread().worker_threads(4).enable_all().build().unwrap();
    let ok = rt.block_on(async {
        let relay = std::sync::Arc::new(SimpleMessageRelay::new());
        let mut hs = vec![];
        for c in 0..6u8 {
            let relay = relay.clone();
            hs.push(tokio::spawn(async move {
                use futures_util::SinkExt;
                let mut conn = relay.connect();
                conn.send(pub_frame(10 + c, 60, c)).await.unwrap();
                for id in 0..6u8 { conn.send(ask_frame(10 + id, 60)).await.unwrap(); }
                let mut got = vec![];
                for _ in 0..6 { match tokio::time::timeout(std::time::Duration::from_secs(20), conn.next()).await { Ok(Some(m)) => got.push(m), _ => break } }
                got.sort();
                let mut want: Vec<Vec<u8>> = (0..6u8).map(|id| pub_frame(10 + id, 60, id)).collect(); want.sort();
                got == want
            }));
        }
        let mut all = true;
        for h in hs { all &= h.await.unwrap_or(false); }
        all
    });
    rep.case("multi-thread", Some("6 clients x 6 ids"));
    if !ok {
        rep.pred_fail(Failure { stream: "multi-thread".into(), index: 0, request: vec!["(multi-threaded workload: 6 clients each publish one id and ask all six)".into()], impl_out: "some client did not receive exactly one copy of every publication".into(),
            model_out: "every client receives each of the 6 publications exactly once".into(), key: "relay:multi-thread".into(), what: "concurrent clients: exactly-once delivery violated".into() });
    }
}
