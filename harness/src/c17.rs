//! C17: BufferedMsgRelay over a scripted mock relay vs. the Lean model (Model/Buffered.lean).
//! Futures are polled by hand with a no-op waker and dropped at scripted points (cancellation).
//! The mock scripts BOTH sides of the inner relay: the incoming Stream (frames / Pending / end) and the Sink
//! (`poll_ready` / `poll_flush`: Ready(Ok) / Pending / Ready(Err), one script entry per call; `start_send`: Ok / Err).
//! An exhausted sink script is Ready(Ok) for ever, so a case without sink scripts is the always-ready sink.
use crate::{c15::{ask_frame, pub_frame}, driver::Driver, report::{Failure, Report}, rng::case_rng, Opts};
use futures_util::{task::noop_waker, Sink, Stream, StreamExt};
use rand::Rng;
use serde_json::json;
use sl_mpc_mate::coord::{BufferedMsgRelay, MessageSendError, Relay};
use sl_mpc_mate::message::{MsgHdr, MsgId, MESSAGE_HEADER_SIZE};
use std::collections::VecDeque;
use std::future::Future;
use std::pin::Pin;
use std::task::{Context, Poll};

#[derive(Clone, Debug)]
pub enum Ev { Msg(Vec<u8>), Pending, Closed }
#[derive(Clone, Copy, Debug, PartialEq, Eq)]
pub enum SinkEv { Ok, Pending, Err }
#[derive(Clone, Debug)]
pub enum Call { Recv(Vec<u8>, u32, usize), WaitFor(Vec<Vec<u8>>, usize), Next }

pub struct Mock {
    script: VecDeque<Ev>, asks: Vec<(Vec<u8>, u64)>,
    /// results of the coming poll_ready / poll_flush calls, in call order; exhausted = Ready(Ok)
    sink: VecDeque<SinkEv>,
    /// results of the coming start_send calls (true = Ok); exhausted = Ok
    sends: VecDeque<bool>,
    /// number of poll_ready + poll_flush calls seen (scripted or not)
    sink_calls: usize,
}
impl Mock {
    fn sink_poll(&mut self) -> Poll<Result<(), MessageSendError>> {
        self.sink_calls += 1;
        match self.sink.pop_front() { None | Some(SinkEv::Ok) => Poll::Ready(Ok(())), Some(SinkEv::Pending) => Poll::Pending, Some(SinkEv::Err) => Poll::Ready(Err(MessageSendError)) }
    }
}
impl Stream for Mock {
    type Item = Vec<u8>;
    fn poll_next(mut self: Pin<&mut Self>, _cx: &mut Context<'_>) -> Poll<Option<Vec<u8>>> {
        match self.script.pop_front() { None | Some(Ev::Pending) => Poll::Pending, Some(Ev::Msg(m)) => Poll::Ready(Some(m)), Some(Ev::Closed) => Poll::Ready(None) }
    }
}
impl Sink<Vec<u8>> for Mock {
    type Error = MessageSendError;
    fn poll_ready(mut self: Pin<&mut Self>, _: &mut Context<'_>) -> Poll<Result<(), Self::Error>> { self.sink_poll() }
    fn start_send(mut self: Pin<&mut Self>, item: Vec<u8>) -> Result<(), Self::Error> {
        if self.sends.pop_front() == Some(false) { return Err(MessageSendError); }
        if let Ok(h) = <&MsgHdr>::try_from(item.as_slice()) { let e = (h.id().as_slice().to_vec(), h.ttl().as_secs()); self.asks.push(e); }
        Ok(())
    }
    fn poll_flush(mut self: Pin<&mut Self>, _: &mut Context<'_>) -> Poll<Result<(), Self::Error>> { self.sink_poll() }
    fn poll_close(self: Pin<&mut Self>, _: &mut Context<'_>) -> Poll<Result<(), Self::Error>> { Poll::Ready(Ok(())) }
}
impl Relay for Mock {}

fn hexw(b: &[u8]) -> String { if b.is_empty() { "-".into() } else { hex::encode(b) } }
fn dash(v: Vec<String>, sep: &str) -> String { if v.is_empty() { "-".into() } else { v.join(sep) } }
fn ev_str(e: &Ev) -> String { match e { Ev::Msg(m) => format!("m:{}", hexw(m)), Ev::Pending => "p".into(), Ev::Closed => "c".into() } }
fn sink_str(e: &SinkEv) -> String { match e { SinkEv::Ok => "k", SinkEv::Pending => "p", SinkEv::Err => "e" }.into() }
fn send_str(b: &bool) -> String { if *b { "k" } else { "e" }.into() }
fn call_str(c: &Call) -> String {
    match c { Call::Next => "n".into(), Call::Recv(id, ttl, k) => format!("r:{}:{ttl}:{k}", hexw(id)),
        Call::WaitFor(ids, k) => format!("w:{}:{k}", dash(ids.iter().map(|i| hexw(i)).collect(), "+")) }
}
fn parse_ev(s: &str) -> Option<Ev> { match s { "p" => Some(Ev::Pending), "c" => Some(Ev::Closed), _ => { let h = s.strip_prefix("m:")?; Some(Ev::Msg(if h == "-" { vec![] } else { hex::decode(h).ok()? })) } } }
fn parse_sink(s: &str) -> Option<SinkEv> { match s { "k" => Some(SinkEv::Ok), "p" => Some(SinkEv::Pending), "e" => Some(SinkEv::Err), _ => None } }
fn parse_send(s: &str) -> Option<bool> { match s { "k" => Some(true), "e" => Some(false), _ => None } }
fn parse_call(s: &str) -> Option<Call> {
    let t: Vec<&str> = s.split(':').collect();
    match t.as_slice() { ["n"] => Some(Call::Next), ["r", id, ttl, k] => Some(Call::Recv(hex::decode(id).ok()?, ttl.parse().ok()?, k.parse().ok()?)),
        ["w", ids, k] => Some(Call::WaitFor(if *ids == "-" { vec![] } else { ids.split('+').filter_map(|i| hex::decode(i).ok()).collect() }, k.parse().ok()?)), _ => None }
}

fn poll_n<F: Future<Output = Option<Vec<u8>>>>(fut: F, polls: usize) -> String {
    let waker = noop_waker(); let mut cx = Context::from_waker(&waker);
    let mut fut = Box::pin(fut);
    for _ in 0..polls { if let Poll::Ready(r) = fut.as_mut().poll(&mut cx) { return match r { Some(m) => format!("g:{}", hexw(&m)), None => "none".into() }; } }
    "cancel".into()   // dropped here while pending
}

/// what the implementation did: per call the outcome and, AFTER that call, the frames listed by `buffered()`, the number of
/// stream-script events not yet read and the number of sink-script entries not yet consumed
struct Obs { outs: Vec<String>, bufs: Vec<Vec<Vec<u8>>>, lefts: Vec<usize>, sink_lefts: Vec<usize>, sends_left: usize, asks: Vec<(Vec<u8>, u64)>, sink_calls: usize }

fn run_impl(script: &[Ev], calls: &[Call], sink: &[SinkEv], sends: &[bool]) -> Obs {
    // `with_capacity(relay, n)` is a pre-allocation hint, not a bound: both constructors must behave identically.
    // The constructor is chosen from the case itself (deterministic, replayable): capacity 0, 1, 2 or `new`.
    let mock = Mock { script: script.iter().cloned().collect(), asks: vec![], sink: sink.iter().cloned().collect(), sends: sends.iter().cloned().collect(), sink_calls: 0 };
    let mut b = match (script.len() + 3 * calls.len()) % 4 { 0 => BufferedMsgRelay::new(mock), k => BufferedMsgRelay::with_capacity(mock, k - 1) };
    let mut o = Obs { outs: vec![], bufs: vec![], lefts: vec![], sink_lefts: vec![], sends_left: 0, asks: vec![], sink_calls: 0 };
    for c in calls {
        o.outs.push(match c {
            Call::Recv(id, ttl, k) => { let mut a = [0u8; 32]; a.copy_from_slice(id); let id = MsgId::from(a); poll_n(b.recv(&id, *ttl), *k) }
            Call::WaitFor(ids, k) => { let ids = ids.clone(); poll_n(b.wait_for(move |i| ids.iter().any(|x| x.as_slice() == i.as_slice())), *k) }
            Call::Next => { let waker = noop_waker(); let mut cx = Context::from_waker(&waker);
                match b.poll_next_unpin(&mut cx) { Poll::Ready(Some(m)) => format!("g:{}", hexw(&m)), Poll::Ready(None) => "none".into(), Poll::Pending => "cancel".into() } }
        });
        o.bufs.push(BufferedMsgRelay::buffered(&b).map(|m| m.to_vec()).collect());
        o.lefts.push(b.script.len());
        o.sink_lefts.push(b.sink.len());
    }
    if calls.is_empty() { o.bufs.push(vec![]); o.lefts.push(script.len()); o.sink_lefts.push(sink.len()); }
    o.sends_left = b.sends.len();
    o.asks = b.asks.clone();
    o.sink_calls = b.sink_calls;
    o
}

/// CONCLUSION PREDICATE on the implementation's own observations, evaluated after EVERY call t:
///   frames read from the relay so far  ==  frames delivered so far + frames listed by buffered() now + malformed frames
/// as multisets (nothing lost, nothing duplicated or invented), and a targeted receive / predicate wait returned only a
/// frame carrying a requested id.  Returns (index of the first call after which it fails, description).
fn judge(script: &[Ev], calls: &[Call], o: &Obs) -> Option<(usize, String)> {
    for t in 0..o.bufs.len() {
        let mut pool: Vec<Vec<u8>> = script[..script.len() - o.lefts[t]].iter().filter_map(|e| if let Ev::Msg(m) = e { Some(m.clone()) } else { None }).collect();
        let mut bad: Option<String> = None;
        let take = |m: &Vec<u8>, what: &str, pool: &mut Vec<Vec<u8>>, bad: &mut Option<String>| match pool.iter().position(|x| x == m) { Some(p) => { pool.swap_remove(p); } None => { bad.get_or_insert(format!("{what} {} was not produced by the relay (or produced fewer times): duplicated or invented", hexw(m))); } };
        for (c, out) in calls.iter().zip(o.outs.iter()).take(t + 1) {
            if let Some(h) = out.strip_prefix("g:") {
                let m = if h == "-" { vec![] } else { hex::decode(h).unwrap() };
                take(&m, "delivered frame", &mut pool, &mut bad);
                match c {
                    Call::Recv(id, _, _) => if m.len() < MESSAGE_HEADER_SIZE || &m[..32] != id.as_slice() { bad.get_or_insert(format!("recv for id {} returned a frame carrying another id: {}", hexw(id), hexw(&m))); }
                    Call::WaitFor(ids, _) => if m.len() < MESSAGE_HEADER_SIZE || !ids.iter().any(|i| &m[..32] == i.as_slice()) { bad.get_or_insert(format!("wait_for returned a frame not matching the predicate: {}", hexw(&m))); }
                    Call::Next => {}
                }
            }
        }
        for m in &o.bufs[t] { take(m, "buffered frame", &mut pool, &mut bad); }
        if let Some(m) = pool.iter().find(|m| m.len() >= MESSAGE_HEADER_SIZE) { bad.get_or_insert(format!("well-formed frame {} was read from the relay (or parked) but is neither delivered nor listed as buffered: lost", hexw(m))); }
        if let Some(b) = bad { return Some((t, format!("after call #{t} ({} -> {}): {b}", calls.get(t).map(call_str).unwrap_or_default(), o.outs.get(t).cloned().unwrap_or_default()))); }
    }
    None
}

fn request(script: &[Ev], calls: &[Call], sink: &[SinkEv], sends: &[bool]) -> String {
    let base = format!("buf run {} {}", dash(script.iter().map(ev_str).collect(), ","), dash(calls.iter().map(call_str).collect(), ","));
    // the always-ready sink keeps the 4-token form (older replay files stay valid)
    if sink.is_empty() && sends.is_empty() { base } else { format!("{base} {} {}", dash(sink.iter().map(sink_str).collect(), ","), dash(sends.iter().map(send_str).collect(), ",")) }
}

fn one(drv: &mut Driver, rep: &mut Report, stream: &str, script: &[Ev], calls: &[Call], sink: &[SinkEv], sends: &[bool]) -> usize {
    let req = request(script, calls, sink, sends);
    let idx = rep.case(stream, if script.len() >= 2 && calls.len() >= 2 { Some(&req) } else { None });
    let o = run_impl(script, calls, sink, sends);
    let last = o.bufs.len() - 1;
    let mut got = format!("{};{};{};{}", dash(o.outs.clone(), ","), dash(o.bufs[last].iter().map(|m| hexw(m)).collect(), "+"), o.lefts[last], dash(o.asks.iter().map(|(i, t)| format!("{}:{t}", hexw(i))).collect(), "+"));
    if !(sink.is_empty() && sends.is_empty()) { got.push_str(&format!(";{};{}", o.sink_lefts[last], o.sends_left)); }
    let model = drv.ask(&req);
    // ---- conclusion predicate on the implementation's own behaviour
    let verdict = judge(script, calls, &o);
    rep.hist(&format!("outcomes:{}", if o.outs.iter().any(|x| x == "cancel") { "with-cancel" } else { "no-cancel" }));
    rep.hist(&format!("sink:{}", if sink.is_empty() && sends.is_empty() { "always-ready" } else if sink.contains(&SinkEv::Err) || sends.contains(&false) { "with-error" } else if sink.contains(&SinkEv::Pending) { "with-pending" } else { "scripted-ok" }));
    {
        let all: Vec<&Vec<u8>> = script[..script.len() - o.lefts[last]].iter().filter_map(|e| if let Ev::Msg(m) = e { Some(m) } else { None }).collect();
        if all.iter().any(|m| m.len() < MESSAGE_HEADER_SIZE) { rep.hist("dropped-or-passed-malformed"); }
    }
    if idx == 0 { rep.sample(json!({"stream": stream, "request": req, "impl": got, "model": model})); }
    if let Some((t, b)) = verdict {
        // does the failure need a sink that is not ready / fails?  Re-run the same arrival order and calls over the always-ready
        // sink: if the balance breaks there too the class is the plain one, otherwise it is specific to the sink side.
        let sinky = !(sink.is_empty() && sends.is_empty()) && judge(script, calls, &run_impl(script, calls, &[], &[])).is_none();
        let _ = t;
        rep.pred_fail(Failure { stream: stream.into(), index: idx, request: vec![req.clone()], impl_out: got.clone(), model_out: b,
            key: if sinky { "buffered:conservation-sink".into() } else { "buffered:conservation".into() },
            what: if sinky { "a message was lost, duplicated or misrouted by BufferedMsgRelay only when the inner relay's sink is not ready or fails (the same arrival order and calls over an always-ready sink are fine)".into() } else { "a message was lost, duplicated or misrouted by BufferedMsgRelay".into() } });
    }
    if got != model {
        rep.diverge(Failure { stream: stream.into(), index: idx, request: vec![req], impl_out: got, model_out: model, key: "buffered:model".into(), what: "Lean model Buffered.runCalls and BufferedMsgRelay disagree".into() });
    }
    o.sink_calls
}

pub fn replay(drv: &mut Driver, rep: &mut Report, lines: &[String]) {
    for l in lines {
        let t: Vec<&str> = l.split(' ').collect();
        if (t.len() == 4 || t.len() == 6) && t[0] == "buf" && t[1] == "run" {
            let script: Vec<Ev> = if t[2] == "-" { vec![] } else { t[2].split(',').filter_map(parse_ev).collect() };
            let calls: Vec<Call> = t[3].split(',').filter_map(parse_call).collect();
            let (sink, sends): (Vec<SinkEv>, Vec<bool>) = if t.len() == 6 {
                (if t[4] == "-" { vec![] } else { t[4].split(',').filter_map(parse_sink).collect() }, if t[5] == "-" { vec![] } else { t[5].split(',').filter_map(parse_send).collect() })
            } else { (vec![], vec![]) };
            one(drv, rep, "replay", &script, &calls, &sink, &sends);
        }
    }
}

fn idb(k: u8) -> Vec<u8> { ask_frame(k, 0)[..32].to_vec() }

/// all words over `alphabet` of length <= maxlen, shortest first
fn words<T: Clone>(alphabet: &[T], maxlen: usize) -> Vec<Vec<T>> {
    let mut out: Vec<Vec<T>> = vec![vec![]];
    let mut level: Vec<Vec<T>> = vec![vec![]];
    for _ in 0..maxlen {
        let mut next = vec![];
        for w in &level { for a in alphabet { let mut v = w.clone(); v.push(a.clone()); next.push(v); } }
        out.extend(next.iter().cloned());
        level = next;
    }
    out
}

pub fn run(o: &Opts, drv: &mut Driver, rep: &mut Report) {
    let thorough = o.tier == "thorough";
    let mut rng = case_rng(o.seed, "c17");
    // exhaustive: all scripts up to length N over {A1, A2 (same id, other payload), B, C, malformed, pending} x a fixed family of call sequences
    let evs = vec![Ev::Msg(pub_frame(0, 1, 1)), Ev::Msg(pub_frame(0, 1, 2)), Ev::Msg(pub_frame(1, 1, 1)), Ev::Msg(pub_frame(2, 1, 1)), Ev::Msg(vec![1, 2, 3]), Ev::Pending];
    let call_sets: Vec<Vec<Call>> = vec![
        vec![Call::Recv(idb(1), 5, 1), Call::Recv(idb(1), 5, 3), Call::Recv(idb(0), 5, 2), Call::Next, Call::Recv(idb(0), 5, 2), Call::Next, Call::Next],
        vec![Call::WaitFor(vec![idb(2), idb(1)], 2), Call::Recv(idb(0), 1, 0), Call::Recv(idb(0), 1, 4), Call::WaitFor(vec![], 1), Call::Next, Call::Recv(idb(0), 1, 1), Call::Next, Call::Next],
        vec![Call::Next, Call::Recv(idb(2), 0, 2), Call::WaitFor(vec![idb(0)], 1), Call::WaitFor(vec![idb(0)], 2), Call::Recv(idb(1), 0, 9), Call::Next],
    ];
    let maxlen = if thorough { 6 } else { 4 };
    for len in 0..=maxlen {
        let mut idx = vec![0usize; len];
        loop {
            let script: Vec<Ev> = idx.iter().map(|&i| evs[i].clone()).collect();
            for cs in &call_sets { one(drv, rep, &format!("exhaustive-scripts-len{len}"), &script, cs, &[], &[]); }
            let mut k = 0;
            while k < len { idx[k] += 1; if idx[k] < evs.len() { break; } idx[k] = 0; k += 1; }
            if k == len { break; }
        }
    }
    rep.exhaustive.push(format!("all scripts of length <= {maxlen} over 6 events (3 ids, duplicate id with another payload, malformed frame, Pending) x 3 fixed call sequences with cancellation points (always-ready sink)"));

    // ---- exhaustive on the SINK side: every script of poll_ready/poll_flush results up to length N over {Ok, Pending, Err} x every
    // script of start_send results up to length 2 over {Ok, Err}, against arrival orders in which a frame is parked while another id
    // is awaited, and call sequences in which each receive is first polled once (dropped at whatever await it is suspended in: the
    // feed's poll_ready, the flush, or the pull) and then reissued.
    let (a, a2, b, c) = (pub_frame(0, 1, 1), pub_frame(0, 1, 2), pub_frame(1, 1, 1), pub_frame(2, 1, 1));
    let arrivals: Vec<Vec<Ev>> = vec![
        vec![Ev::Msg(b.clone()), Ev::Msg(a.clone())],
        vec![Ev::Msg(c.clone()), Ev::Msg(b.clone()), Ev::Msg(b.clone()), Ev::Msg(a.clone())],
        vec![Ev::Msg(b.clone()), Ev::Pending, Ev::Msg(a.clone()), Ev::Msg(a2.clone())],
        vec![Ev::Msg(b.clone()), Ev::Msg(vec![7, 7]), Ev::Msg(c.clone()), Ev::Msg(a.clone()), Ev::Closed],
        vec![],
    ];
    let sink_calls_sets: Vec<Vec<Call>> = vec![
        vec![Call::Recv(idb(0), 5, 1), Call::Recv(idb(1), 5, 1), Call::Recv(idb(1), 5, 1), Call::Next, Call::Next],
        vec![Call::Recv(idb(0), 5, 2), Call::WaitFor(vec![idb(1)], 1), Call::WaitFor(vec![idb(1)], 2), Call::Recv(idb(2), 1, 1), Call::Recv(idb(2), 1, 3), Call::Next],
        vec![Call::WaitFor(vec![idb(0)], 1), Call::WaitFor(vec![idb(0)], 1), Call::WaitFor(vec![idb(0), idb(2)], 3), Call::Recv(idb(1), 0, 1), Call::Recv(idb(1), 0, 2), Call::WaitFor(vec![idb(2), idb(1)], 2), Call::Next],
    ];
    let sink_max = if thorough { 6 } else { 4 };
    let sink_words = words(&[SinkEv::Ok, SinkEv::Pending, SinkEv::Err], sink_max);
    let send_words = words(&[true, false], 2);
    for sw in &sink_words {
        for sd in &send_words {
            if sw.is_empty() && sd.is_empty() { continue; }
            for ar in &arrivals { for cs in &sink_calls_sets { one(drv, rep, &format!("exhaustive-sink-len{}", sw.len()), ar, cs, sw, sd); } }
        }
    }
    rep.exhaustive.push(format!("all sink scripts (poll_ready/poll_flush results) of length <= {sink_max} over {{Ready(Ok), Pending, Ready(Err)}} x all start_send scripts of length <= 2 over {{Ok, Err}} x 5 arrival orders that park a frame x 3 call sequences that poll once, drop and reissue"));

    // ---- structured: a random base case (each receive possibly issued twice: polled once and dropped, then reissued), run once with
    // the always-ready sink to count its poll_ready/poll_flush calls N; then ONE fault (Pending, Err, Pending-Pending, Pending-Err)
    // at every position 0..=N of the sink script, everything before it Ready(Ok); likewise one start_send error at every position.
    let nbase = (if thorough { 1500 } else { 60 }) * o.scale;
    for _ in 0..nbase {
        let sl = rng.gen_range(1..9);
        let script: Vec<Ev> = (0..sl).map(|_| match rng.gen_range(0..20) {
            0..=13 => Ev::Msg(pub_frame(rng.gen_range(0..3), 1, rng.gen_range(1..3))), 14..=16 => Ev::Pending, 17 => Ev::Closed, 18 => Ev::Msg(vec![9; rng.gen_range(0..36)]), _ => Ev::Msg(pub_frame(3, 1, 1)) }).collect();
        let mut calls: Vec<Call> = vec![];
        for _ in 0..rng.gen_range(1..6) {
            match rng.gen_range(0..10) {
                0..=5 => { let (id, ttl, k) = (idb(rng.gen_range(0..4)), rng.gen_range(0..3), rng.gen_range(1..4)); if rng.gen_bool(0.6) { calls.push(Call::Recv(id.clone(), ttl, 1)); } calls.push(Call::Recv(id, ttl, k)); }
                6..=8 => { let ids: Vec<Vec<u8>> = (0..rng.gen_range(1..3)).map(|_| idb(rng.gen_range(0..4))).collect(); let k = rng.gen_range(1..4); if rng.gen_bool(0.6) { calls.push(Call::WaitFor(ids.clone(), 1)); } calls.push(Call::WaitFor(ids, k)); }
                _ => calls.push(Call::Next),
            }
        }
        let n = one(drv, rep, "structured-sink-base", &script, &calls, &[], &[]).min(if thorough { 16 } else { 10 });
        for pos in 0..=n {
            for fault in [vec![SinkEv::Pending], vec![SinkEv::Err], vec![SinkEv::Pending, SinkEv::Pending], vec![SinkEv::Pending, SinkEv::Err]] {
                let mut sink = vec![SinkEv::Ok; pos]; sink.extend(fault);
                one(drv, rep, "structured-sink-fault", &script, &calls, &sink, &[]);
            }
        }
        let nrecv = calls.iter().filter(|c| matches!(c, Call::Recv(..))).count();
        for pos in 0..nrecv { let mut sends = vec![true; pos]; sends.push(false); one(drv, rep, "structured-send-fault", &script, &calls, &[], &sends); }
    }

    let n = (if thorough { 60000 } else { 2500 }) * o.scale;
    for i in 0..n {
        let sl = rng.gen_range(0..14);
        let script: Vec<Ev> = (0..sl).map(|_| match rng.gen_range(0..20) {
            0..=11 => Ev::Msg(pub_frame(rng.gen_range(0..3), 1, rng.gen_range(1..4))), 12..=15 => Ev::Pending, 16 => Ev::Closed,
            17 => Ev::Msg((0..rng.gen_range(0..36)).map(|_| rng.gen()).collect()), 18 => Ev::Msg(ask_frame(rng.gen_range(0..3), 1)), _ => Ev::Msg(pub_frame(3, 1, 1)) }).collect();
        let cl = rng.gen_range(1..10);
        let calls: Vec<Call> = (0..cl).map(|_| match rng.gen_range(0..10) {
            0..=4 => Call::Recv(idb(rng.gen_range(0..4)), rng.gen_range(0..3), rng.gen_range(0..5)),
            5..=7 => Call::WaitFor((0..rng.gen_range(0..3)).map(|_| idb(rng.gen_range(0..4))).collect(), rng.gen_range(0..5)),
            _ => Call::Next }).collect();
        // every other case also gets random sink-side scripts: mostly Ready(Ok), with Pending and Err anywhere (also first)
        let (sink, sends): (Vec<SinkEv>, Vec<bool>) = if i % 2 == 0 { (vec![], vec![]) } else {
            ((0..rng.gen_range(0..16)).map(|_| match rng.gen_range(0..10) { 0..=5 => SinkEv::Ok, 6..=8 => SinkEv::Pending, _ => SinkEv::Err }).collect(),
             (0..rng.gen_range(0..5)).map(|_| rng.gen_range(0..5) != 0).collect()) };
        one(drv, rep, "random", &script, &calls, &sink, &sends);
    }
}
