//! C17: BufferedMsgRelay over a scripted mock relay vs. the Lean model (Model/Buffered.lean).
//! Futures are polled by hand with a no-op waker and dropped at scripted points (cancellation).
use crate::{c15::{ask_frame, pub_frame}, driver::Driver, report::{Failure, Report}, rng::case_rng, Opts};
use futures_util::{task::noop_waker, Sink, Stream, StreamExt};
use rand::Rng;
use serde_json::json;
use sl_mpc_mate::coord::{BufferedMsgRelay, MessageSendError, Relay};
use sl_mpc_mate::message::{MsgHdr, MsgId, MESSAGE_HEADER_SIZE};
use std::collections::VecDeque;
use std::future::Future;
use std::pin::Pin;
use std::task::{Context, Poll};

#[derive(Clone, Debug)]
pub enum Ev { Msg(Vec<u8>), Pending, Closed }
#[derive(Clone, Debug)]
pub enum Call { Recv(Vec<u8>, u32, usize), WaitFor(Vec<Vec<u8>>, usize), Next }

pub struct Mock { script: VecDeque<Ev>, asks: Vec<(Vec<u8>, u64)> }
impl Stream for Mock {
    type Item = Vec<u8>;
    fn poll_next(mut self: Pin<&mut Self>, _cx: &mut Context<'_>) -> Poll<Option<Vec<u8>>> {
        match self.script.pop_front() { None | Some(Ev::Pending) => Poll::Pending, Some(Ev::Msg(m)) => Poll::Ready(Some(m)), Some(Ev::Closed) => Poll::Ready(None) }
    }
}
impl Sink<Vec<u8>> for Mock {
    type Error = MessageSendError;
    fn poll_ready(self: Pin<&mut Self>, _: &mut Context<'_>) -> Poll<Result<(), Self::Error>> { Poll::Ready(Ok(())) }
    fn start_send(mut self: Pin<&mut Self>, item: Vec<u8>) -> Result<(), Self::Error> {
        if let Ok(h) = <&MsgHdr>::try_from(item.as_slice()) { let e = (h.id().as_slice().to_vec(), h.ttl().as_secs()); self.asks.push(e); }
        Ok(())
    }
    fn poll_flush(self: Pin<&mut Self>, _: &mut Context<'_>) -> Poll<Result<(), Self::Error>> { Poll::Ready(Ok(())) }
    fn poll_close(self: Pin<&mut Self>, _: &mut Context<'_>) -> Poll<Result<(), Self::Error>> { Poll::Ready(Ok(())) }
}
impl Relay for Mock {}

fn hexw(b: &[u8]) -> String { if b.is_empty() { "-".into() } else { hex::encode(b) } }
fn dash(v: Vec<String>, sep: &str) -> String { if v.is_empty() { "-".into() } else { v.join(sep) } }
fn ev_str(e: &Ev) -> String { match e { Ev::Msg(m) => format!("m:{}", hexw(m)), Ev::Pending => "p".into(), Ev::Closed => "c".into() } }
fn call_str(c: &Call) -> String {
    match c { Call::Next => "n".into(), Call::Recv(id, ttl, k) => format!("r:{}:{ttl}:{k}", hexw(id)),
        Call::WaitFor(ids, k) => format!("w:{}:{k}", dash(ids.iter().map(|i| hexw(i)).collect(), "+")) }
}
fn parse_ev(s: &str) -> Option<Ev> { match s { "p" => Some(Ev::Pending), "c" => Some(Ev::Closed), _ => { let h = s.strip_prefix("m:")?; Some(Ev::Msg(if h == "-" { vec![] } else { hex::decode(h).ok()? })) } } }
fn parse_call(s: &str) -> Option<Call> {
    let t: Vec<&str> = s.split(':').collect();
    match t.as_slice() { ["n"] => Some(Call::Next), ["r", id, ttl, k] => Some(Call::Recv(hex::decode(id).ok()?, ttl.parse().ok()?, k.parse().ok()?)),
        ["w", ids, k] => Some(Call::WaitFor(if *ids == "-" { vec![] } else { ids.split('+').filter_map(|i| hex::decode(i).ok()).collect() }, k.parse().ok()?)), _ => None }
}

fn poll_n<F: Future<Output = Option<Vec<u8>>>>(fut: F, polls: usize) -> String {
    let waker = noop_waker(); let mut cx = Context::from_waker(&waker);
    let mut fut = Box::pin(fut);
    for _ in 0..polls { if let Poll::Ready(r) = fut.as_mut().poll(&mut cx) { return match r { Some(m) => format!("g:{}", hexw(&m)), None => "none".into() }; } }
    "cancel".into()   // dropped here while pending
}

fn run_impl(script: &[Ev], calls: &[Call]) -> (Vec<String>, Vec<Vec<u8>>, usize, Vec<(Vec<u8>, u64)>) {
    // `with_capacity(relay, n)` is a pre-allocation hint, not a bound: both constructors must behave identically.
    // The constructor is chosen from the case itself (deterministic, replayable): capacity 0, 1, 2 or `new`.
    let mock = Mock { script: script.iter().cloned().collect(), asks: vec![] };
    let mut b = match (script.len() + 3 * calls.len()) % 4 { 0 => BufferedMsgRelay::new(mock), k => BufferedMsgRelay::with_capacity(mock, k - 1) };
    let mut outs = vec![];
    for c in calls {
        outs.push(match c {
            Call::Recv(id, ttl, k) => { let mut a = [0u8; 32]; a.copy_from_slice(id); let id = MsgId::from(a); poll_n(b.recv(&id, *ttl), *k) }
            Call::WaitFor(ids, k) => { let ids = ids.clone(); poll_n(b.wait_for(move |i| ids.iter().any(|x| x.as_slice() == i.as_slice())), *k) }
            Call::Next => { let waker = noop_waker(); let mut cx = Context::from_waker(&waker);
                match b.poll_next_unpin(&mut cx) { Poll::Ready(Some(m)) => format!("g:{}", hexw(&m)), Poll::Ready(None) => "none".into(), Poll::Pending => "cancel".into() } }
        });
    }
    let buf: Vec<Vec<u8>> = BufferedMsgRelay::buffered(&b).map(|m| m.to_vec()).collect();
    let left = b.script.len();
    let asks = b.asks.clone();
    (outs, buf, left, asks)
}

fn one(drv: &mut Driver, rep: &mut Report, stream: &str, script: &[Ev], calls: &[Call]) {
    let req = format!("buf run {} {}", dash(script.iter().map(ev_str).collect(), ","), dash(calls.iter().map(call_str).collect(), ","));
    let idx = rep.case(stream, if script.len() >= 2 && calls.len() >= 2 { Some(&req) } else { None });
    let (outs, buf, left, asks) = run_impl(script, calls);
    let got = format!("{};{};{};{}", dash(outs.clone(), ","), dash(buf.iter().map(|m| hexw(m)).collect(), "+"), left, dash(asks.iter().map(|(i, t)| format!("{}:{t}", hexw(i))).collect(), "+"));
    let model = drv.ask(&req);
    // ---- conclusion predicate on the implementation's own behaviour
    let consumed: Vec<&Vec<u8>> = script[..script.len() - left].iter().filter_map(|e| if let Ev::Msg(m) = e { Some(m) } else { None }).collect();
    let mut pool: Vec<Vec<u8>> = consumed.iter().map(|m| (*m).clone()).collect();
    let mut bad: Option<String> = None;
    let mut take = |m: &Vec<u8>, what: &str, pool: &mut Vec<Vec<u8>>, bad: &mut Option<String>| match pool.iter().position(|x| x == m) { Some(p) => { pool.swap_remove(p); } None => { bad.get_or_insert(format!("{what} {} was not produced by the relay (or produced fewer times): duplicated or invented", hexw(m))); } };
    for (c, o) in calls.iter().zip(outs.iter()) {
        if let Some(h) = o.strip_prefix("g:") {
            let m = if h == "-" { vec![] } else { hex::decode(h).unwrap() };
            take(&m, "delivered frame", &mut pool, &mut bad);
            match c {
                Call::Recv(id, _, _) => if m.len() < MESSAGE_HEADER_SIZE || &m[..32] != id.as_slice() { bad.get_or_insert(format!("recv for id {} returned a frame carrying another id: {}", hexw(id), hexw(&m))); }
                Call::WaitFor(ids, _) => if m.len() < MESSAGE_HEADER_SIZE || !ids.iter().any(|i| &m[..32] == i.as_slice()) { bad.get_or_insert(format!("wait_for returned a frame not matching the predicate: {}", hexw(&m))); }
                Call::Next => {}
            }
        }
    }
    for m in &buf { take(m, "buffered frame", &mut pool, &mut bad); }
    if let Some(m) = pool.iter().find(|m| m.len() >= MESSAGE_HEADER_SIZE) { bad.get_or_insert(format!("well-formed frame {} was pulled from the relay but neither delivered nor buffered: lost", hexw(m))); }
    rep.hist(&format!("outcomes:{}", if outs.iter().any(|o| o == "cancel") { "with-cancel" } else { "no-cancel" }));
    if !pool.is_empty() { rep.hist("dropped-malformed"); }
    if idx == 0 { rep.sample(json!({"stream": stream, "request": req, "impl": got, "model": model})); }
    if let Some(b) = bad {
        rep.pred_fail(Failure { stream: stream.into(), index: idx, request: vec![req.clone()], impl_out: got.clone(), model_out: b, key: "buffered:conservation".into(),
            what: "a message was lost, duplicated or misrouted by BufferedMsgRelay".into() });
    }
    if got != model {
        rep.diverge(Failure { stream: stream.into(), index: idx, request: vec![req], impl_out: got, model_out: model, key: "buffered:model".into(), what: "Lean model Buffered.runCalls and BufferedMsgRelay disagree".into() });
    }
}

pub fn replay(drv: &mut Driver, rep: &mut Report, lines: &[String]) {
    for l in lines {
        let t: Vec<&str> = l.split(' ').collect();
        if t.len() == 4 && t[0] == "buf" {
            let script: Vec<Ev> = if t[2] == "-" { vec![] } else { t[2].split(',').filter_map(parse_ev).collect() };
            let calls: Vec<Call> = t[3].split(',').filter_map(parse_call).collect();
            one(drv, rep, "replay", &script, &calls);
        }
    }
}

fn idb(k: u8) -> Vec<u8> { ask_frame(k, 0)[..32].to_vec() }

pub fn run(o: &Opts, drv: &mut Driver, rep: &mut Report) {
    let thorough = o.tier == "thorough";
    let mut rng = case_rng(o.seed, "c17");
    // exhaustive: all scripts up to length N over {A1, A2 (same id, other payload), B, C, malformed, pending} x a fixed family of call sequences
    let evs = vec![Ev::Msg(pub_frame(0, 1, 1)), Ev::Msg(pub_frame(0, 1, 2)), Ev::Msg(pub_frame(1, 1, 1)), Ev::Msg(pub_frame(2, 1, 1)), Ev::Msg(vec![1, 2, 3]), Ev::Pending];
    let call_sets: Vec<Vec<Call>> = vec![
        vec![Call::Recv(idb(1), 5, 1), Call::Recv(idb(1), 5, 3), Call::Recv(idb(0), 5, 2), Call::Next, Call::Recv(idb(0), 5, 2), Call::Next, Call::Next],
        vec![Call::WaitFor(vec![idb(2), idb(1)], 2), Call::Recv(idb(0), 1, 0), Call::Recv(idb(0), 1, 4), Call::WaitFor(vec![], 1), Call::Next, Call::Recv(idb(0), 1, 1), Call::Next, Call::Next],
        vec![Call::Next, Call::Recv(idb(2), 0, 2), Call::WaitFor(vec![idb(0)], 1), Call::WaitFor(vec![idb(0)], 2), Call::Recv(idb(1), 0, 9), Call::Next],
    ];
    let maxlen = if thorough { 6 } else { 4 };
    for len in 0..=maxlen {
        let mut idx = vec![0usize; len];
        loop {
            let script: Vec<Ev> = idx.iter().map(|&i| evs[i].clone()).collect();
            for cs in &call_sets { one(drv, rep, &format!("exhaustive-scripts-len{len}"), &script, cs); }
            let mut k = 0;
            while k < len { idx[k] += 1; if idx[k] < evs.len() { break; } idx[k] = 0; k += 1; }
            if k == len { break; }
        }
    }
    rep.exhaustive.push(format!("all scripts of length <= {maxlen} over 6 events (3 ids, duplicate id with another payload, malformed frame, Pending) x 3 fixed call sequences with cancellation points"));
    let n = (if thorough { 60000 } else { 2500 }) * o.scale;
    for _ in 0..n {
        let sl = rng.gen_range(0..14);
        let script: Vec<Ev> = (0..sl).map(|_| match rng.gen_range(0..20) {
            0..=11 => Ev::Msg(pub_frame(rng.gen_range(0..3), 1, rng.gen_range(1..4))), 12..=15 => Ev::Pending, 16 => Ev::Closed,
            17 => Ev::Msg((0..rng.gen_range(0..36)).map(|_| rng.gen()).collect()), 18 => Ev::Msg(ask_frame(rng.gen_range(0..3), 1)), _ => Ev::Msg(pub_frame(3, 1, 1)) }).collect();
        let cl = rng.gen_range(1..10);
        let calls: Vec<Call> = (0..cl).map(|_| match rng.gen_range(0..10) {
            0..=4 => Call::Recv(idb(rng.gen_range(0..4)), rng.gen_range(0..3), rng.gen_range(0..5)),
            5..=7 => Call::WaitFor((0..rng.gen_range(0..3)).map(|_| idb(rng.gen_range(0..4))).collect(), rng.gen_range(0..5)),
            _ => Call::Next }).collect();
        one(drv, rep, "random", &script, &calls);
    }
}
