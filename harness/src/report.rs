//! What a stream reports: every case is (request, implementation output, model output, predicate).
use serde_json::{json, Value};
use std::collections::{BTreeMap, HashSet};
use std::hash::{Hash, Hasher};

#[derive(Clone, Debug)]
pub struct Failure {
    pub stream: String,
    pub index: u64,
    /// request lines that reproduce the case (`slh <prop> --replay` re-runs them)
    pub request: Vec<String>,
    pub impl_out: String,
    pub model_out: String,
    /// stable key used by known_findings.jsonl (input class, call site), never the random bytes
    pub key: String,
    pub what: String,
}

impl Failure {
    fn to_json(&self) -> Value {
        let clip = |s: &str| if s.len() > 4000 { format!("{}…[{} chars]", &s[..4000], s.len()) } else { s.to_string() };
        json!({"stream": self.stream, "index": self.index, "request": self.request,
               "impl": clip(&self.impl_out), "model": clip(&self.model_out), "key": self.key, "what": self.what})
    }
}

pub struct Report {
    pub property: String,
    pub tier: String,
    pub seed: u64,
    pub evaluations: u64,
    pub rule: String,
    distinct: HashSet<u64>,
    pub streams: BTreeMap<String, u64>,
    pub histogram: BTreeMap<String, u64>,
    pub samples: Vec<Value>,
    /// model and implementation disagree (correspondence)
    pub divergences: Vec<Failure>,
    pub n_divergences: u64,
    /// the property's conclusion predicate is false on the implementation's own output
    pub pred_failures: Vec<Failure>,
    pub n_pred_failures: u64,
    pub exhaustive: Vec<String>,
    pub notes: Vec<String>,
    pub search_rounds: u64,
    /// canonical request of the first case of (up to four) streams: re-run at the END of the run as a purity probe
    pub first_ids: Vec<String>,
    /// canonical request of the case that is running (for failures reported outside the stream's own code)
    pub last_request: String,
}

/// OUT-BUFFER PROBE.  Several entry points write their result into a caller-supplied buffer and overwrite it completely.
/// A stream helper runs such a call a second time with the buffer pre-filled (0xff / 0xa5) and reports here when the two
/// runs, both successful, leave different bytes: the result would then depend on what the buffer held before the call.
/// Model-independent; attributed to the case that was running (`Report::case` drains the list).
static OUTBUF_DEP: std::sync::Mutex<Vec<String>> = std::sync::Mutex::new(Vec::new());
pub fn outbuf_dependence(what: &str) { if let Ok(mut v) = OUTBUF_DEP.lock() { if v.len() < 64 { v.push(what.to_string()); } } }
/// fill pattern for the second run, chosen by the call's own randomness so that a replay takes the same one
pub fn dirty_fill(tape: &[u8]) -> u8 { if tape.first().map_or(0, |b| b & 1) == 0 { 0xff } else { 0xa5 } }

/// WATCHDOG.  `Report::case` records when a case starts; a background thread (main.rs) turns a case that does not finish within
/// the stall limit into a report with one predicate failure (`hang:<stream>`, the case's request as the replay) and ends the
/// process: a call of the code under test that never returns must not hang the check.
pub static PROGRESS: std::sync::Mutex<Option<(std::time::Instant, String, String, u64)>> = std::sync::Mutex::new(None);

impl Report {
    /// report what the out-buffer probe saw since the last call (attributed to `last_request`)
    pub fn drain_outbuf(&mut self) {
        let v: Vec<String> = match OUTBUF_DEP.lock() { Ok(mut g) => g.drain(..).collect(), Err(_) => vec![] };
        for what in v {
            let req = self.last_request.clone();
            self.pred_fail(Failure { stream: "out-buffer-probe".into(), index: self.evaluations, request: if req.is_empty() { vec![] } else { vec![req] }, impl_out: "bytes differ between a zeroed and a pre-filled output buffer".into(),
                model_out: "identical".into(), key: format!("purity:out-buffer:{what}"), what: format!("{what}: the result written to the caller's buffer depends on what the buffer held before the call") });
        }
    }
    pub fn new(property: &str, tier: &str, seed: u64, rule: &str) -> Report {
        Report {
            property: property.into(), tier: tier.into(), seed, evaluations: 0, rule: rule.into(),
            distinct: HashSet::new(), streams: BTreeMap::new(), histogram: BTreeMap::new(), samples: vec![],
            divergences: vec![], n_divergences: 0, pred_failures: vec![], n_pred_failures: 0,
            exhaustive: vec![], notes: vec![], search_rounds: 0, first_ids: vec![], last_request: String::new(),
        }
    }
    /// count one executed case; `nontrivial_id` = Some(canonical text) when the case is non-trivial by `rule`
    pub fn case(&mut self, stream: &str, nontrivial_id: Option<&str>) -> u64 {
        self.drain_outbuf();
        if let Some(id) = nontrivial_id { self.last_request = id.to_string(); }
        self.evaluations += 1;
        if let Ok(mut g) = PROGRESS.lock() { *g = Some((std::time::Instant::now(), stream.to_string(), self.last_request.clone(), self.evaluations)); }
        let c = self.streams.entry(stream.to_string()).or_insert(0);
        *c += 1;
        if let Some(id) = nontrivial_id {
            if *c == 1 && self.first_ids.len() < 4 && id.contains(' ') && stream != "replay" { self.first_ids.push(id.to_string()); }
            let mut h = std::collections::hash_map::DefaultHasher::new();
            stream.hash(&mut h);
            id.hash(&mut h);
            self.distinct.insert(h.finish());
        }
        *c - 1
    }
    pub fn hist(&mut self, key: &str) {
        *self.histogram.entry(key.to_string()).or_insert(0) += 1;
    }
    pub fn sample(&mut self, v: Value) {
        if self.samples.len() < 6 { self.samples.push(v); }
    }
    pub fn diverge(&mut self, f: Failure) {
        self.n_divergences += 1;
        if self.divergences.len() < 8 { self.divergences.push(f); }
    }
    pub fn pred_fail(&mut self, f: Failure) {
        self.n_pred_failures += 1;
        // keep one per key first, so that distinct findings are all visible
        if self.pred_failures.len() < 40 && self.pred_failures.iter().filter(|g| g.key == f.key).count() < 2 {
            self.pred_failures.push(f);
        }
    }
    pub fn failed(&self) -> bool { self.n_divergences > 0 || self.n_pred_failures > 0 }
    pub fn to_json(&self) -> Value {
        json!({
            "property": self.property, "tier": self.tier, "seed": self.seed,
            "evaluations": self.evaluations, "distinct_nontrivial": self.distinct.len(),
            "rule": self.rule, "streams": self.streams, "histogram": self.histogram,
            "samples": self.samples,
            "n_divergences": self.n_divergences,
            "divergences": self.divergences.iter().map(|f| f.to_json()).collect::<Vec<_>>(),
            "n_pred_failures": self.n_pred_failures,
            "pred_failures": self.pred_failures.iter().map(|f| f.to_json()).collect::<Vec<_>>(),
            "exhaustive": self.exhaustive, "notes": self.notes, "search_rounds": self.search_rounds,
        })
    }
}
