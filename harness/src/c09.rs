//! C09 / C10: sl-verifiable-enc (`VerifiableRsaEncryption<G>` on k256 `ProjectivePoint` and curve25519-dalek
//! `EdwardsPoint`) vs. the Lean model Model/VerEnc.lean (driver token `venc`) through the oracle.
//!
//! The model describes the code AFTER the repairs of D7–D9.  A case on which the implementation violates the
//! property's own conclusion is reported as a predicate failure with a stable key
//!   venc:slots>256-panic                  (a serialised proof with > 256 slots parses and `verify` panics)
//!   venc:decrypt-aborts-on-garbage-slot   (verified proof, garbage UNOPENED ciphertext in the first live slot ⇒ DecError)
//!   venc:short-encoding-skipped           (verified proof, every nonce has a short integer encoding ⇒ DecError)
//! and the model/implementation comparison of that same call is not reported a second time as a divergence.
use crate::{driver::Driver, oracle, report::{Failure, Report}, rng::{case_rng, TapeRng}, Opts};
use elliptic_curve::{ff::{Field, PrimeField}, group::{Group, GroupEncoding}, subtle::ConstantTimeEq};
use rand::{Rng, RngCore, SeedableRng};
use rand_chacha::ChaCha20Rng;
use serde_json::json;
use sha2::{Digest, Sha256};
use sl_verifiable_enc::{
    rsa::{traits::{PrivateKeyParts, PublicKeyParts}, BigUint, Pkcs1v15Encrypt, RsaPrivateKey, RsaPublicKey},
    RsaError, VerifiableRsaEncryption,
};
use std::panic::{catch_unwind, AssertUnwindSafe};

type Venc<G> = VerifiableRsaEncryption<G>;

// ------------------------------------------------------------------------------------------------ curves
pub trait Cv: Group + GroupEncoding + ConstantTimeEq + PartialEq + Copy {
    const TAG: &'static str;
    const NAME: &'static str;
    /// `Scalar::to_repr()` is big-endian
    const BE: bool;
    const POINT_LEN: usize;
    /// tape bytes one `Scalar::random` draws (k256 may draw again with probability 2^-128)
    const DRAW: usize;
}
impl Cv for k256::ProjectivePoint { const TAG: &'static str = "k"; const NAME: &'static str = "secp256k1"; const BE: bool = true; const POINT_LEN: usize = 33; const DRAW: usize = 32; }
impl Cv for curve25519_dalek::EdwardsPoint { const TAG: &'static str = "e"; const NAME: &'static str = "ed25519"; const BE: bool = false; const POINT_LEN: usize = 32; const DRAW: usize = 64; }

fn hexw(b: &[u8]) -> String { if b.is_empty() { "-".into() } else { hex::encode(b) } }
fn unhexw(h: &str) -> Vec<u8> { if h == "-" { vec![] } else { hex::decode(h).unwrap_or_default() } }
fn sc_repr<G: Cv>(s: &G::Scalar) -> Vec<u8> { s.to_repr().as_ref().to_vec() }
fn sc_from_repr<G: Cv>(b: &[u8]) -> Option<G::Scalar> {
    let mut r = <G::Scalar as PrimeField>::Repr::default();
    if r.as_ref().len() != b.len() { return None; }
    r.as_mut().copy_from_slice(b);
    G::Scalar::from_repr(r).into()
}
/// big-endian 32-byte value of the scalar
fn sc_be<G: Cv>(s: &G::Scalar) -> Vec<u8> { let mut v = sc_repr::<G>(s); if !G::BE { v.reverse(); } v }
fn sc_hex<G: Cv>(s: &G::Scalar) -> String { hex::encode(sc_be::<G>(s)) }
fn sc_from_be_hex<G: Cv>(h: &str) -> Option<G::Scalar> {
    let v = hex::decode(if h.len() % 2 == 1 { format!("0{h}") } else { h.to_string() }).ok()?;
    if v.len() > 32 { return None; }
    let mut b = vec![0u8; 32 - v.len()]; b.extend_from_slice(&v);
    if !G::BE { b.reverse(); }
    sc_from_repr::<G>(&b)
}
fn pt_bytes<G: Cv>(p: &G) -> Vec<u8> { p.to_bytes().as_ref().to_vec() }
fn pt_from_bytes<G: Cv>(b: &[u8]) -> Option<G> {
    let mut r = G::Repr::default();
    if r.as_ref().len() != b.len() { return None; }
    r.as_mut().copy_from_slice(b);
    G::from_bytes(&r).into()
}

// ------------------------------------------------------------------------------------------------ RSA keys
pub struct Key { pub(crate) id: Vec<u8>, pub(crate) bits: usize, pub(crate) sk: RsaPrivateKey, pub(crate) pk: RsaPublicKey, pub(crate) n_hex: String }
pub struct Env { pub(crate) keys: Vec<Key>, /// 512-bit key: outside the property's quantifier, used only to reach the `EncError` path of the correspondence
    small: Key }

fn load_or_gen(bits: usize, seed: u64, idx: u8) -> Key {
    let dir = "/verif/.build/rsa-keys";
    let path = format!("{dir}/rsa-{bits}-{seed}-{idx}.json");
    let h = |v: &BigUint| hex::encode(v.to_bytes_be());
    let sk = std::fs::read_to_string(&path).ok().and_then(|s| serde_json::from_str::<serde_json::Value>(&s).ok()).and_then(|v| {
        let g = |k: &str| v[k].as_str().and_then(|s| hex::decode(s).ok()).map(|b| BigUint::from_bytes_be(&b));
        RsaPrivateKey::from_components(g("n")?, g("e")?, g("d")?, vec![g("p")?, g("q")?]).ok()
    }).unwrap_or_else(|| {
        let mut rng = case_rng(seed, &format!("c09-rsa-{bits}-{idx}"));
        let sk = RsaPrivateKey::new(&mut rng, bits).expect("RSA key generation");
        let _ = std::fs::create_dir_all(dir);
        let p = sk.primes();
        let _ = std::fs::write(&path, json!({"n": h(sk.n()), "e": h(sk.e()), "d": h(sk.d()), "p": h(&p[0]), "q": h(&p[1])}).to_string());
        sk
    });
    let pk = sk.to_public_key();
    let n_hex = h(pk.n());
    Key { id: vec![(bits / 256) as u8, idx], bits, sk, pk, n_hex }
}

impl Env {
    pub fn new(o: &Opts) -> Env {
        let mut keys = vec![load_or_gen(1024, o.seed, 0), load_or_gen(1024, o.seed, 1)];
        // a 2048-bit key also in the quick tier (keys[2]): the largest proofs (parameter 256) must round-trip too
        for bits in if o.tier == "thorough" { vec![2048, 3072, 4096] } else { vec![2048] } { keys.push(load_or_gen(bits, o.seed, 0)); }
        Env { keys, small: load_or_gen(512, o.seed, 0) }
    }
    fn key(&self, id: &[u8]) -> Option<&Key> { self.keys.iter().chain(std::iter::once(&self.small)).find(|k| k.id == id) }
    /// oracle arms `rsaenc <keyid> <seed> <msg>` (empty answer = encryption error) and `rsadec <keyid> <ct>`
    fn rsa(&self, t: &[&str]) -> Option<Vec<u8>> {
        match t[0] {
            "rsaenc" => {
                let k = self.key(&unhexw(t[1])).expect("oracle: unknown RSA key id");
                let seed: [u8; 32] = unhexw(t[2]).try_into().expect("oracle: rsaenc seed must be 32 bytes");
                let mut rng = ChaCha20Rng::from_seed(seed);
                Some(k.pk.encrypt(&mut rng, Pkcs1v15Encrypt, &unhexw(t[3])).unwrap_or_default())
            }
            "rsadec" => {
                let k = self.key(&unhexw(t[1])).expect("oracle: unknown RSA key id");
                Some(match k.sk.decrypt(Pkcs1v15Encrypt, &unhexw(t[2])) { Ok(p) => { let mut v = vec![1u8]; v.extend(p); v } Err(_) => vec![0] })
            }
            _ => None,
        }
    }
}
pub(crate) fn ask(drv: &mut Driver, env: &Env, req: &str) -> String {
    drv.ask_with(req, &mut |q| oracle::answer_with(q, &mut |t| env.rsa(t)))
}

// ------------------------------------------------------------------------------------------------ the implementation, as text
fn err_name(e: &RsaError) -> String {
    match e {
        RsaError::EncError => "EncError".into(), RsaError::DecError => "DecError".into(), RsaError::InvalidLabel => "InvalidLabel".into(),
        RsaError::VerificationFailed => "VerificationFailed".into(), RsaError::InvalidSizeParam => "InvalidSizeParam".into(),
        RsaError::SerdeError(m) => format!("SerdeError:{m}"), RsaError::InvalidSecurityParam => "InvalidSecurityParam".into(),
    }
}
/// `from_bytes` under catch_unwind
fn impl_parse<G: Cv>(bytes: &[u8]) -> Result<Venc<G>, String> {
    match catch_unwind(AssertUnwindSafe(|| Venc::<G>::from_bytes(bytes))) {
        Ok(Ok(p)) => Ok(p), Ok(Err(e)) => Err(format!("err:{}", err_name(&e))), Err(_) => Err("panic".into()) }
}
fn impl_verify<G: Cv>(p: &Venc<G>, q: &G, pk: &RsaPublicKey, label: &[u8]) -> String {
    match catch_unwind(AssertUnwindSafe(|| p.verify(q, pk, label))) {
        Ok(Ok(())) => "ok".into(), Ok(Err(e)) => format!("err:{}", err_name(&e)), Err(_) => "panic".into() }
}
fn impl_decrypt<G: Cv>(p: &Venc<G>, q: &G, sk: &RsaPrivateKey, label: &[u8]) -> (String, Option<G::Scalar>) {
    match catch_unwind(AssertUnwindSafe(|| p.decrypt(q, sk, label))) {
        Ok(Ok(v)) => (format!("ok:{}", sc_hex::<G>(&v)), Some(v)), Ok(Err(e)) => (format!("err:{}", err_name(&e)), None), Err(_) => ("panic".into(), None) }
}
fn impl_to_bytes<G: Cv>(p: &Venc<G>) -> Option<Vec<u8>> { catch_unwind(AssertUnwindSafe(|| p.to_bytes())).ok() }
/// parse-then-verify / parse-then-decrypt on a byte string, in the output format of the driver
fn impl_verify_bytes<G: Cv>(bytes: &[u8], q: &G, pk: &RsaPublicKey, label: &[u8]) -> String {
    match impl_parse::<G>(bytes) { Ok(p) => impl_verify(&p, q, pk, label), Err(e) => e }
}
fn impl_decrypt_bytes<G: Cv>(bytes: &[u8], q: &G, sk: &RsaPrivateKey, label: &[u8]) -> (String, Option<G::Scalar>) {
    match impl_parse::<G>(bytes) { Ok(p) => impl_decrypt(&p, q, sk, label), Err(e) => (e, None) }
}
fn req_verify<G: Cv>(bytes: &[u8], q: &G, k: &Key, label: &[u8]) -> String {
    format!("venc verify {} {} {} {} {} {}", G::TAG, hexw(bytes), hex::encode(pt_bytes(q)), hex::encode(&k.id), k.n_hex, hexw(label))
}
fn req_decrypt<G: Cv>(bytes: &[u8], q: &G, k: &Key, label: &[u8]) -> String {
    format!("venc decrypt {} {} {} {} {} {}", G::TAG, hexw(bytes), hex::encode(pt_bytes(q)), hex::encode(&k.id), k.n_hex, hexw(label))
}

// ------------------------------------------------------------------------------------------------ independent spec of "every opened scalar is consistent"
fn label_int(label: &[u8]) -> BigUint { let mut h = Sha256::new(); h.update(b"SL-label-for-RSA"); h.update(label); BigUint::from_bytes_be(&h.finalize()) }
fn spec_enc(m: &[u8], label: &[u8], pk: &RsaPublicKey, seed: [u8; 32]) -> Option<Vec<u8>> {
    let mut rng = ChaCha20Rng::from_seed(seed);
    let pt = (BigUint::from_bytes_be(m) * label_int(label)) % pk.n();
    pk.encrypt(&mut rng, Pkcs1v15Encrypt, &pt.to_bytes_be()).ok()
}
/// Some(true) iff the byte string has the layout seed‖4 sizes‖slots‖scalars and for EVERY slot the opened scalar s satisfies,
/// for challenge bit 0: s·G = g_r and Enc(s) = enc_r; for bit 1: s·G = Q + g_r and Enc(s) = enc_x_r.  None = not laid out like a proof.
fn spec_opened_consistent<G: Cv>(b: &[u8], q: &G, pk: &RsaPublicKey, label: &[u8]) -> Option<bool> {
    if b.len() < 40 { return None; }
    let u16at = |o: usize| u16::from_be_bytes([b[o], b[o + 1]]) as usize;
    let (sp, gsz, esz, ssz) = (u16at(32), u16at(34), u16at(36), u16at(38));
    if gsz != G::POINT_LEN || ssz != 32 || b.len() != 40 + sp * (gsz + 2 * esz + ssz) { return None; }
    let seed: [u8; 32] = b[..32].try_into().unwrap();
    let slot = |i: usize| { let o = 40 + i * (gsz + 2 * esz); (&b[o..o + gsz], &b[o + gsz..o + gsz + esz], &b[o + gsz + esz..o + gsz + 2 * esz]) };
    let mut h = Sha256::new();
    h.update(b"Verified-RSA-encryption"); h.update(pt_bytes(q)); h.update(&b[40..40 + sp * (gsz + 2 * esz)]); h.update(label);
    let ch: [u8; 32] = h.finalize().into();
    for i in 0..sp {
        if i >= 256 { return Some(false); }           // no challenge bit exists for this slot
        let bit = (ch[i >> 3] >> (i & 7)) & 1;
        let o = 40 + sp * (gsz + 2 * esz) + i * 32;
        let Some(s) = sc_from_repr::<G>(&b[o..o + 32]) else { return Some(false) };
        let (gr, exr, er) = slot(i);
        let Some(g_r) = pt_from_bytes::<G>(gr) else { return Some(false) };
        let Some(e) = spec_enc(&b[o..o + 32], label, pk, seed) else { return Some(false) };
        let sg = G::generator() * s;
        let ok = if bit == 0 { sg == g_r && e == er } else { sg == *q + g_r && e == exr };
        if !ok { return Some(false); }
    }
    Some(true)
}

/// what the label-bound RSA decryption of one ciphertext stands for: a scalar, if it decrypts, un-labels and (after restoring
/// the leading zero bytes `to_bytes_be` dropped) decodes
fn spec_slot_value<G: Cv>(ct: &[u8], label: &[u8], sk: &RsaPrivateKey) -> Option<G::Scalar> {
    use num_bigint_dig::ModInverse;
    let pt = sk.decrypt(Pkcs1v15Encrypt, ct).ok()?;
    let inv = label_int(label).mod_inverse(sk.n())?.to_biguint()?;
    let m = ((BigUint::from_bytes_be(&pt) * inv) % sk.n()).to_bytes_be();
    if m.len() > 32 { return None; }
    let mut b = vec![0u8; 32 - m.len()]; b.extend_from_slice(&m);
    sc_from_repr::<G>(&b)
}
/// the first slot whose two ciphertexts stand for r and x+r with x·G = Q (None: no such slot / not laid out like a proof)
fn spec_good_slot<G: Cv>(b: &[u8], q: &G, sk: &RsaPrivateKey, label: &[u8]) -> Option<(usize, G::Scalar)> {
    if b.len() < 40 { return None; }
    let u16at = |o: usize| u16::from_be_bytes([b[o], b[o + 1]]) as usize;
    let (sp, gsz, esz, ssz) = (u16at(32), u16at(34), u16at(36), u16at(38));
    if gsz != G::POINT_LEN || ssz != 32 || b.len() != 40 + sp * (gsz + 2 * esz + ssz) { return None; }
    for i in 0..sp {
        let o = 40 + i * (gsz + 2 * esz);
        let Some(r) = spec_slot_value::<G>(&b[o + gsz + esz..o + gsz + 2 * esz], label, sk) else { continue };
        let Some(xr) = spec_slot_value::<G>(&b[o + gsz..o + gsz + esz], label, sk) else { continue };
        let x = xr - r;
        if G::generator() * x == *q { return Some((i, x)); }
    }
    None
}
/// verdict comparison.  `RsaError::SerdeError(String)` is one error class; which of two applicable checks of from_bytes
/// speaks first is visible only in the text.  The model carries the repaired check order; when ITS text is the new
/// "at most 256" one, any SerdeError of the implementation is the same verdict.
fn same_verdict(imp: &str, model: &str) -> bool {
    imp == model || (model == "err:SerdeError:Security param must at most be 256" && imp.starts_with("err:SerdeError:"))
}

// ------------------------------------------------------------------------------------------------ generators
/// a canonical scalar whose repr has `lead` zero bytes at the front and `trail` zero bytes at the end.  The crate reads the
/// repr BIG-endian on both curves, so `lead` zero bytes make the integer encoding `lead` bytes short (for edwards25519 these
/// are the LOW-order bytes of the scalar; `trail` are its high-order bytes).
fn shaped_scalar<G: Cv>(rng: &mut dyn RngCore, lead: usize, trail: usize) -> G::Scalar {
    loop {
        let mut b = [0u8; 32]; rng.fill_bytes(&mut b);
        if !G::BE { b[31] &= 0x0f; }
        for x in b[..lead].iter_mut() { *x = 0; }
        for x in b[32 - trail..].iter_mut() { *x = 0; }
        if let Some(s) = sc_from_repr::<G>(&b) { return s; }
    }
}
/// make `Scalar::random` draw number `slot` of an honest run return `s` (k256: 32 big-endian bytes below q are taken as they
/// are; curve25519-dalek: 64 little-endian bytes reduced mod l — the value itself with a zero upper half)
fn write_nonce<G: Cv>(tape: &mut [u8], slot: usize, s: &G::Scalar) {
    let o = 128 + slot * G::DRAW;
    for b in tape[o..o + G::DRAW].iter_mut() { *b = 0; }
    tape[o..o + 32].copy_from_slice(&sc_repr::<G>(s));
}
fn scalar_classes<G: Cv>(rng: &mut impl RngCore) -> Vec<(&'static str, G::Scalar)> {
    let shaped = |rng: &mut dyn RngCore, lead: usize, trail: usize| -> G::Scalar { shaped_scalar::<G>(rng, lead, trail) };
    vec![
        ("x=0", G::Scalar::ZERO), ("x=1", G::Scalar::ONE), ("x=order-1", -G::Scalar::ONE),
        ("x:repr-leading-zero-byte", shaped(rng, 1, 0)), ("x:repr-3-leading-zero-bytes", shaped(rng, 3, 0)),
        ("x:repr-trailing-zero-byte", shaped(rng, 0, 1)), ("x:repr-3-trailing-zero-bytes", shaped(rng, 0, 3)),
        ("x:repr-zero-at-both-ends", shaped(rng, 2, 2)), ("x=random", shaped(rng, 0, 0)), ("x=random", shaped(rng, 0, 0)),
    ]
}
const LABEL_LENS: [usize; 8] = [0, 1, 10, 32, 33, 255, 1000, 1024];
fn random_tape<G: Cv>(rng: &mut impl RngCore, slots: usize) -> Vec<u8> {
    let mut t = vec![0u8; 128 + slots * G::DRAW + 1024]; rng.fill_bytes(&mut t); t
}

// ------------------------------------------------------------------------------------------------ C09
/// honest run: prove (impl vs model, byte-identical), verify, decrypt, wire round trip
fn honest<G: Cv>(env: &Env, drv: &mut Driver, rep: &mut Report, stream: &str, xname: &str, x: &G::Scalar, label: &[u8], param: Option<usize>, key: &Key, tape: Vec<u8>) -> Option<Vec<u8>> {
    let in_range = param.map_or(true, |p| (128..=256).contains(&p));
    let req = format!("venc prove {} {} {} {} {} {} {}", G::TAG, sc_hex::<G>(x), hex::encode(&key.id), key.n_hex, hexw(label),
        param.map_or("none".to_string(), |p| p.to_string()), hex::encode(&tape));
    let idx = rep.case(stream, Some(&req));
    rep.hist(&format!("{}:{xname}", G::NAME)); rep.hist(&format!("label-len={}", label.len()));
    rep.hist(&format!("param={}", param.map_or("None".to_string(), |p| p.to_string()))); rep.hist(&format!("rsa-bits={}", key.bits));
    let mut rng = TapeRng::new(tape);
    let r = catch_unwind(AssertUnwindSafe(|| Venc::<G>::encrypt_with_proof(x, &key.pk, label, param, &mut rng)));
    let (got, proof) = match r {
        Ok(Ok(p)) => match impl_to_bytes(&p) { Some(b) => (format!("ok:{}:{}", hexw(&b), rng.used), Some((p, b))), None => ("panic".into(), None) },
        Ok(Err(e)) => (format!("err:{}", err_name(&e)), None), Err(_) => ("panic".into(), None) };
    let model = ask(drv, env, &req);
    let fail = |key: &str, what: &str, reqs: Vec<String>, i: &str, m: &str| Failure { stream: stream.into(), index: idx, request: reqs, impl_out: i.into(), model_out: m.into(), key: key.into(), what: what.into() };
    if idx < 1 { rep.sample(json!({"stream": stream, "curve": G::NAME, "x": sc_hex::<G>(x), "label_len": label.len(), "param": param, "impl": got.chars().take(200).collect::<String>(), "model": model.chars().take(200).collect::<String>()})); }
    if got != model { rep.diverge(fail("venc:prove-model", "Lean model VerEnc.encryptWithProof and encrypt_with_proof disagree (proof bytes / tape use / error)", vec![req.clone()], &got, &model)); }
    if !in_range {
        if !got.starts_with("err:") { rep.pred_fail(fail("venc:param-not-refused", "a security parameter outside 128..=256 is not refused with an error", vec![req.clone()], &got, "err")); }
        return None;
    }
    let Some((p, bytes)) = proof else {
        rep.pred_fail(fail("venc:prove-fails", "encrypt_with_proof fails on permitted inputs", vec![req.clone()], &got, "ok"));
        return None;
    };
    let q = G::generator() * *x;
    let xh = format!("ok:{}", sc_hex::<G>(x));
    // the in-memory object
    let v = impl_verify(&p, &q, &key.pk, label);
    if v != "ok" { rep.pred_fail(fail("venc:honest-rejected", "an honest proof does not verify against Q = x*G", vec![req.clone()], &v, "ok")); }
    let (d, _) = impl_decrypt(&p, &q, &key.sk, label);
    // honest runs whose nonces were forced to have short integer encodings report under the key of that defect class
    let dkey = if xname.contains("nonces-short") { "venc:short-encoding-skipped" } else { "venc:honest-decrypt" };
    if d != xh { rep.pred_fail(fail(dkey, "decryption of an honest proof does not return x", vec![req.clone()], &d, &xh)); }
    // serialise, parse back
    let (rv, rd) = (req_verify(&bytes, &q, key, label), req_decrypt(&bytes, &q, key, label));
    match impl_parse::<G>(&bytes) {
        Err(e) => rep.pred_fail(fail("venc:roundtrip-parse", "from_bytes(to_bytes(proof)) fails", vec![req.clone()], &e, "ok")),
        Ok(p2) => {
            let b2 = impl_to_bytes(&p2);
            if b2.as_deref() != Some(&bytes[..]) { rep.pred_fail(fail("venc:roundtrip-bytes", "the reparsed proof does not re-serialise identically", vec![req.clone()], &b2.map_or("panic".into(), |b| hexw(&b)), &hexw(&bytes))); }
            let v2 = impl_verify(&p2, &q, &key.pk, label);
            if v2 != "ok" { rep.pred_fail(fail("venc:roundtrip-verify", "the reparsed proof does not verify", vec![req.clone(), rv.clone()], &v2, "ok")); }
            let (d2, _) = impl_decrypt(&p2, &q, &key.sk, label);
            if d2 != xh { rep.pred_fail(fail(if dkey == "venc:honest-decrypt" { "venc:roundtrip-decrypt" } else { dkey }, "the reparsed proof does not decrypt to x", vec![req.clone(), rd.clone()], &d2, &xh)); }
            // model verdicts on the same bytes
            let mv = ask(drv, env, &rv);
            if mv != v2 { rep.diverge(fail("venc:verify-model", "Lean model VerEnc.verify and verify disagree (honest proof)", vec![rv.clone()], &v2, &mv)); }
            let md = ask(drv, env, &rd);
            if md != d2 { rep.diverge(fail("venc:decrypt-model", "Lean model VerEnc.decrypt and decrypt disagree (honest proof)", vec![rd.clone()], &d2, &md)); }
            let rp = format!("venc parse {} {}", G::TAG, hexw(&bytes));
            let mp = ask(drv, env, &rp);
            let ip = format!("ok:{}", hexw(&bytes));
            if mp != ip { rep.diverge(fail("venc:parse-model", "Lean model fromBytes/toBytes round trip differs from the implementation's", vec![rp], &ip, &mp)); }
        }
    }
    Some(bytes)
}

/// a forged (or merely unusual) serialised proof produced by the Lean adversary, run through the real code
struct Forged { bytes: Vec<u8>, adv_req: String }
fn forge<G: Cv>(env: &Env, drv: &mut Driver, x: &G::Scalar, key: &Key, label: &[u8], nslots: usize, strategy: &str, rng: &mut impl RngCore) -> Option<Forged> {
    let mut tape = vec![0u8; 32 + nslots * G::DRAW + 512]; rng.fill_bytes(&mut tape);
    let adv_req = format!("venc adv {} {} {} {} {} {} {} {}", G::TAG, sc_hex::<G>(x), hex::encode(&key.id), key.n_hex, hexw(label), nslots, strategy, hex::encode(&tape));
    let a = ask(drv, env, &adv_req);
    if let Some(why) = a.strip_prefix("skip:") { return Some(Forged { bytes: vec![], adv_req: format!("skip:{why}") }); }
    let f: Vec<&str> = a.split(':').collect();
    if f.len() != 3 || f[0] != "ok" { return None; }
    Some(Forged { bytes: unhexw(f[1]), adv_req })
}

/// run one forged proof through from_bytes / verify / decrypt, compare with the model, evaluate the C10 (and D7) predicates.
/// `class` names the input class for the stable keys.
fn judge_forged<G: Cv>(env: &Env, drv: &mut Driver, rep: &mut Report, stream: &str, class: &str, f: &Forged, q: &G, key: &Key, label: &[u8], must_parse: Option<bool>) {
    let (rv, rd) = (req_verify(&f.bytes, q, key, label), req_decrypt(&f.bytes, q, key, label));
    let idx = rep.case(stream, Some(&f.adv_req));
    rep.hist(&format!("{}:{class}", G::NAME));
    let reqs = vec![f.adv_req.clone(), rv.clone(), rd.clone()];
    let fail = |key: &str, what: &str, i: &str, m: &str| Failure { stream: stream.into(), index: idx, request: reqs.clone(), impl_out: i.into(), model_out: m.into(), key: key.into(), what: what.into() };
    let parsed = impl_parse::<G>(&f.bytes);
    let nslots = if f.bytes.len() >= 34 { u16::from_be_bytes([f.bytes[32], f.bytes[33]]) as usize } else { 0 };
    let (v, d, dv) = match &parsed {
        Ok(p) => { let v = impl_verify(p, q, &key.pk, label); let (d, dv) = impl_decrypt(p, q, &key.sk, label); (v, d, dv) }
        Err(e) => (e.clone(), e.clone(), None) };
    let mut explained = false;
    // no entry point may panic
    if v == "panic" || d == "panic" {
        explained = true;
        let k = if nslots > 256 { "venc:slots>256-panic".to_string() } else { format!("venc:panic:{class}") };
        rep.pred_fail(fail(&k, "from_bytes / verify / decrypt panics on a serialised proof (more than 256 slots: extract_bit indexes byte 32 of the 32-byte challenge)", &format!("verify={v} decrypt={d}"), "an error"));
    }
    if let Some(mp) = must_parse {
        if mp && parsed.is_err() { rep.pred_fail(fail("venc:wire-param-refused", "a well-formed proof with a permitted number of slots is refused by from_bytes", &v, "ok")); }
        if !mp && parsed.is_ok() && !explained { explained = true; rep.pred_fail(fail("venc:wire-param-not-refused", "a serialised proof whose security parameter is outside 128..=256 is accepted by from_bytes", &v, "err")); }
    }
    // verify ok ⇒ decrypt returns the discrete logarithm of the claimed point
    if v == "ok" {
        let good = dv.map_or(false, |x| G::generator() * x == *q);
        if !good {
            explained = true;
            let k = if class.starts_with("garbage") { "venc:decrypt-aborts-on-garbage-slot".to_string() }
                    else if class.starts_with("short") { "venc:short-encoding-skipped".to_string() }
                    else if ["adaptive", "swap", "cross", "commit-other-side", "open-plus-order"].iter().any(|p| class.starts_with(p)) { "venc:accepted-without-recoverability".to_string() }
                    else { format!("venc:verified-but-not-decryptable:{class}") };
            rep.pred_fail(fail(&k, "a proof that verifies does not decrypt to the discrete logarithm of the claimed point", &format!("verify=ok decrypt={d}"), "verify=ok ⇒ decrypt=ok:x with x*G = Q"));
        }
    }
    // a slot whose two ciphertexts stand for r and x+r with x*G = Q is enough for decryption (whether or not the proof verifies)
    if parsed.is_ok() && !explained && d != "panic" {
        if let Some((slot, xs)) = spec_good_slot::<G>(&f.bytes, q, &key.sk, label) {
            if dv.is_none() {
                explained = true;
                let k = if class.starts_with("garbage") { "venc:decrypt-aborts-on-garbage-slot".to_string() }
                        else if class.starts_with("short") { "venc:short-encoding-skipped".to_string() }
                        else { format!("venc:good-slot-not-recovered:{class}") };
                rep.pred_fail(fail(&k, &format!("decrypt gives up although slot {slot} decrypts to the discrete logarithm of the claimed point (this proof does not verify; same defect as for verified proofs)"), &format!("verify={v} decrypt={d}"), &format!("decrypt=ok:{}", sc_hex::<G>(&xs))));
            }
        }
    }
    if let Some(x) = dv { if G::generator() * x != *q { rep.pred_fail(fail("venc:decrypt-wrong-value", "decrypt returned a scalar that is not the discrete logarithm of the claimed point", &d, "x with x*G = Q")); } }
    // an inconsistent opened scalar ⇒ verification fails
    if parsed.is_ok() {
        let cons = spec_opened_consistent::<G>(&f.bytes, q, &key.pk, label);
        rep.hist(&format!("opened-consistent={}", cons.map_or("n/a".to_string(), |c| c.to_string())));
        if cons == Some(false) && v == "ok" { rep.pred_fail(fail("venc:inconsistent-opening-accepted", "verification accepts a proof in which an opened scalar disagrees with its commitment or ciphertext", "verify=ok", "verify=err")); }
    }
    rep.hist(&format!("verdict:{}", if v.starts_with("err:SerdeError") { "err:SerdeError" } else { &v }));
    if !explained {
        let mv = ask(drv, env, &rv);
        if !same_verdict(&v, &mv) { rep.diverge(fail("venc:verify-model", &format!("Lean model VerEnc.verify and verify disagree (forged proof, {class})"), &v, &mv)); }
        let md = ask(drv, env, &rd);
        if !same_verdict(&d, &md) { rep.diverge(fail("venc:decrypt-model", &format!("Lean model VerEnc.decrypt and decrypt disagree (forged proof, {class})"), &d, &md)); }
    }
}

fn c09_curve<G: Cv>(o: &Opts, env: &Env, drv: &mut Driver, rep: &mut Report, rng: &mut ChaCha20Rng) {
    let thorough = o.tier == "thorough";
    let n = (if thorough { 160 } else { 14 }) * o.scale as usize;
    let xs = scalar_classes::<G>(rng);
    let params = [None, Some(128), Some(129), Some(255), Some(256), None, Some(128), Some(200)];
    for k in 0..n {
        let (xname, x) = &xs[k % xs.len()];
        let mut label = vec![0u8; LABEL_LENS[(k / 2 + k) % LABEL_LENS.len()]]; rng.fill_bytes(&mut label);
        if thorough && k % 13 == 12 { label = vec![0u8; rng.gen_range(0..=1024)]; rng.fill_bytes(&mut label); }
        let param = params[(k + k / 8) % params.len()];
        let key = &env.keys[if thorough { k % env.keys.len() } else { 0 }];
        let mut tape = random_tape::<G>(rng, param.unwrap_or(128));
        match k % 9 {
            3 if G::BE => for b in tape[128..160].iter_mut() { *b = 0xff },                 // first nonce draw is >= q: rejection sampling draws again
            5 => for b in tape[128..128 + G::DRAW].iter_mut() { *b = 0 },                   // first nonce r = 0
            7 => { let nx = sc_be::<G>(&-*x);                                                // first nonce r = -x, i.e. x + r = 0
                   if G::BE { tape[128..160].copy_from_slice(&nx) } else { for b in tape[128..192].iter_mut() { *b = 0 } for (i, b) in nx.iter().rev().enumerate() { tape[128 + i] = *b } } }
            _ => {}
        }
        honest::<G>(env, drv, rep, "honest", xname, x, &label, param, key, tape);
    }
    // the SAME label under several keys in a row on one thread (and the same key under several labels): whatever a call keeps
    // (a label inverse, a hash) must not reach the next one
    {
        let (xname, x) = &xs[8];
        let l1 = b"one label for several keys".to_vec(); let l2: Vec<u8> = vec![];
        let order: Vec<usize> = if env.keys.len() >= 3 { vec![0, 1, 0, 2, 1] } else { vec![0, 1, 0] };
        for (n, ki) in order.into_iter().enumerate() {
            let tape = random_tape::<G>(rng, 128);
            rep.hist("same-label-several-keys");
            honest::<G>(env, drv, rep, "honest-same-label", xname, x, if n % 4 == 3 { &l2 } else { &l1 }, None, &env.keys[ki], tape);
        }
    }
    // the LARGEST serialised proofs: parameter 256 (and 255) under the widest key of the tier — sizes far above the default's
    if let Some(big) = env.keys.iter().max_by_key(|k| k.bits) {
        for (j, p) in [256usize, 255].iter().enumerate() {
            if !thorough && j == 1 && !G::BE { continue; }
            let (xname, x) = &xs[(j + 5) % xs.len()];
            let mut label = vec![0u8; 7]; rng.fill_bytes(&mut label);
            let tape = random_tape::<G>(rng, *p);
            rep.hist(&format!("largest-proof:{}-bit key, parameter {p}", big.bits));
            honest::<G>(env, drv, rep, "honest-largest", xname, x, &label, Some(*p), big, tape);
        }
    }
    // EVERY nonce (and x) with zero bytes at an end of its repr: if all slots are skipped decryption fails, so these runs
    // see a decoder that mishandles short integer encodings even though one good slot normally hides it
    let shapes: &[(&str, usize, usize, bool)] = if thorough {
        &[("r:lead1", 1, 0, false), ("r:lead2", 2, 0, false), ("r:lead4", 4, 0, false), ("r:lead16", 16, 0, false), ("r:lead31", 31, 0, false), ("r:lead32(zero)", 32, 0, false),
          ("r:trail2", 0, 2, false), ("r:trail16", 0, 16, false), ("r:lead2+trail2", 2, 2, false),
          ("x+r:lead1", 1, 0, true), ("x+r:lead2", 2, 0, true), ("x+r:lead16", 16, 0, true), ("x+r:lead32(zero)", 32, 0, true), ("x+r:trail3", 0, 3, true), ("x+r:lead3+trail3", 3, 3, true)]
    } else { &[("r:lead2", 2, 0, false), ("r:trail2", 0, 2, false), ("r:lead2+trail2", 2, 2, false), ("x+r:lead3", 3, 0, true), ("x+r:lead16+trail2", 16, 2, true)] };
    for (si, (name, lead, trail, on_sum)) in shapes.iter().enumerate() {
        // x itself with 2+ zero bytes at the front / the end / both ends of its repr, or random
        let x = match si % 4 { 0 => shaped_scalar::<G>(rng, 2, 0), 1 => shaped_scalar::<G>(rng, 0, 2), 2 => shaped_scalar::<G>(rng, 3, 3), _ => shaped_scalar::<G>(rng, 0, 0) };
        let mut tape = random_tape::<G>(rng, 128);
        for slot in 0..128 {
            let t = shaped_scalar::<G>(rng, *lead, *trail);
            write_nonce::<G>(&mut tape, slot, &if *on_sum { t - x } else { t });
        }
        let class: &'static str = Box::leak(format!("nonces-short:{name}").into_boxed_str());
        let mut label = vec![0u8; LABEL_LENS[si % LABEL_LENS.len()]]; rng.fill_bytes(&mut label);
        honest::<G>(env, drv, rep, "honest-short-nonces", class, &x, &label, None, &env.keys[if thorough { si % env.keys.len() } else { 0 }], tape);
    }
    // out-of-range security parameters are refused
    // (incl. values that fall into 128..=256 after truncation to 16 or 32 bits: the parameter travels as a u16 on the wire)
    for (k, p) in [0usize, 1, 127, 257, 1000, 65535, 65536, 1 << 32, 65536 + 128, 65536 + 200, 65536 + 256, 2 * 65536 + 128, (1 << 32) + 128, (1 << 32) + 256, usize::MAX].iter().enumerate() {
        if !thorough && o.scale == 1 && k % 2 == (G::BE as usize) && ![127, 257, 65536 + 128, (1usize << 32) + 256].contains(p) { continue; }
        let (xname, x) = &xs[(k + 3) % xs.len()];
        let tape = random_tape::<G>(rng, 4);
        honest::<G>(env, drv, rep, "param-out-of-range", xname, x, b"label", Some(*p), &env.keys[0], tape);
    }
    // the same rule on the wire: serialised self-consistent proofs with N slots
    let ns: &[usize] = if thorough { &[1, 127, 128, 129, 255, 256, 257, 258, 300, 512] } else { &[127, 129, 256, 257, 300] };
    for &nslots in ns {
        let (_, x) = &xs[8];
        let q = G::generator() * *x;
        if let Some(f) = forge::<G>(env, drv, x, &env.keys[0], b"wire", nslots, "plain", rng) {
            judge_forged::<G>(env, drv, rep, "wire-slots", &format!("plain:{}", if nslots < 128 { "<128" } else if nslots <= 256 { "128..=256" } else { ">256" }), &f, &q, &env.keys[0], b"wire", Some((128..=256).contains(&nslots)));
        } else { rep.notes.push(format!("adv plain {nslots} produced no proof")); }
    }
    // a 512-bit modulus cannot hold (scalar * label integer) with PKCS#1 v1.5 padding: the EncError path (correspondence only)
    {
        let (xname, x) = &xs[9];
        let tape = random_tape::<G>(rng, 128);
        let k = &env.small;
        let req = format!("venc prove {} {} {} {} {} none {}", G::TAG, sc_hex::<G>(x), hex::encode(&k.id), k.n_hex, hexw(b"small"), hex::encode(&tape));
        let idx = rep.case("small-key", Some(&req));
        rep.hist(&format!("{}:{xname}:rsa-512", G::NAME));
        let mut t = TapeRng::new(tape);
        let got = match catch_unwind(AssertUnwindSafe(|| Venc::<G>::encrypt_with_proof(x, &k.pk, b"small", None, &mut t))) {
            Ok(Ok(p)) => impl_to_bytes(&p).map_or("panic".into(), |b| format!("ok:{}:{}", hexw(&b), t.used)), Ok(Err(e)) => format!("err:{}", err_name(&e)), Err(_) => "panic".into() };
        let m = ask(drv, env, &req);
        rep.hist(&format!("small-key:{}", got.chars().take(12).collect::<String>()));
        if got != m { rep.diverge(Failure { stream: "small-key".into(), index: idx, request: vec![req], impl_out: got, model_out: m, key: "venc:prove-model".into(), what: "model and implementation disagree with a 512-bit RSA key (EncError path)".into() }); }
    }
    // from_bytes on malformed inputs: every check and its text (the model has the same checks in the same order)
    let (_, x) = &xs[9];
    let q = G::generator() * *x;
    let tape = random_tape::<G>(rng, 128);
    if let Some(base) = honest::<G>(env, drv, rep, "honest", "x=random", x, b"m", None, &env.keys[0], tape) {
        let esz = env.keys[0].pk.size();
        let mut cases: Vec<(&str, Vec<u8>)> = vec![("empty", vec![]), ("39-bytes", base[..39].to_vec()), ("40-bytes", base[..40].to_vec()), ("41-bytes", base[..41].to_vec()),
            ("one-byte-short", base[..base.len() - 1].to_vec()), ("one-slot-short", base[..base.len() - (G::POINT_LEN + 2 * esz + 32)].to_vec())];
        let mut b = base.clone(); b.push(0); cases.push(("one-byte-long", b));
        let mut b = base.clone(); b.extend(vec![0u8; G::POINT_LEN + 2 * esz + 32]); cases.push(("one-slot-long", b));
        let mut b = base.clone(); b[39] = 33; cases.push(("scalar-size-33", b));
        let mut b = base.clone(); b[35] ^= 1; cases.push(("point-size-other", b));
        let mut b = base.clone(); b[33] = 127; cases.push(("param-127-declared", b));
        let mut b = base.clone(); b[32] = 1; b[33] = 1; cases.push(("param-257-declared", b));
        let mut b = base.clone(); let l = b.len(); for v in b[l - 32..].iter_mut() { *v = 0xff; } cases.push(("last-scalar-not-canonical", b));
        let mut b = base.clone(); let l = b.len(); let o0 = l - 128 * 32; for v in b[o0..o0 + 32].iter_mut() { *v = 0xff; } cases.push(("first-scalar-not-canonical", b));
        // enc size 0: 128 slots of bare points — accepted by from_bytes, rejected by verify
        let mut b = base[..40].to_vec(); b[36] = 0; b[37] = 0;
        for i in 0..128 { let o0 = 40 + i * (G::POINT_LEN + 2 * esz); b.extend_from_slice(&base[o0..o0 + G::POINT_LEN]); }
        b.extend_from_slice(&base[base.len() - 128 * 32..]); cases.push(("enc-size-0", b));
        // enc size halved: the same bytes read as 128 slots with enc size esz/2 do not add up
        let mut b = base.clone(); let h = (esz / 2) as u16; b[36..38].copy_from_slice(&h.to_be_bytes()); cases.push(("enc-size-halved", b));
        for (name, b) in cases {
            let rp = format!("venc parse {} {}", G::TAG, hexw(&b));
            let idx = rep.case("malformed", Some(&rp));
            rep.hist(&format!("{}:malformed:{name}", G::NAME));
            let got = match impl_parse::<G>(&b) { Ok(p) => impl_to_bytes(&p).map_or("panic".into(), |v| format!("ok:{}", hexw(&v))), Err(e) => e };
            let m = ask(drv, env, &rp);
            if got == "panic" { rep.pred_fail(Failure { stream: "malformed".into(), index: idx, request: vec![rp.clone()], impl_out: got.clone(), model_out: m.clone(), key: format!("venc:panic:malformed:{name}"), what: "from_bytes / to_bytes panics on a malformed byte string".into() }); }
            else if !same_verdict(&got, &m) { rep.diverge(Failure { stream: "malformed".into(), index: idx, request: vec![rp.clone()], impl_out: got.clone(), model_out: m, key: "venc:parse-model".into(), what: format!("Lean model fromBytes and from_bytes disagree on a malformed input ({name})") }); }
            if got.starts_with("ok:") {
                let rv = req_verify(&b, &q, &env.keys[0], b"m");
                let v = impl_verify_bytes::<G>(&b, &q, &env.keys[0].pk, b"m");
                let mv = ask(drv, env, &rv);
                if v == "panic" || v == "ok" { rep.pred_fail(Failure { stream: "malformed".into(), index: idx, request: vec![rv.clone()], impl_out: v.clone(), model_out: mv.clone(), key: format!("venc:malformed-{}:{name}", if v == "ok" { "accepted" } else { "panic" }), what: "a malformed proof is accepted or makes verify panic".into() }); }
                else if !same_verdict(&v, &mv) { rep.diverge(Failure { stream: "malformed".into(), index: idx, request: vec![rv], impl_out: v, model_out: mv, key: "venc:verify-model".into(), what: format!("verify verdicts differ on a malformed input ({name})") }); }
            }
        }
    }
}

// ------------------------------------------------------------------------------------------------ C10
fn field_class(off: usize, len: usize, sp: usize, gsz: usize, esz: usize) -> &'static str {
    if off < 32 { "seed" } else if off < 34 { "size:security_param" } else if off < 36 { "size:g_r" } else if off < 38 { "size:enc" } else if off < 40 { "size:scalar" }
    else if off < 40 + sp * (gsz + 2 * esz) { let r = (off - 40) % (gsz + 2 * esz); if r < gsz { "g_r" } else if r < gsz + esz { "enc_x_r" } else { "enc_r" } }
    else if off < len { "open_scalar" } else { "?" }
}

fn c10_curve<G: Cv>(o: &Opts, env: &Env, drv: &mut Driver, rep: &mut Report, rng: &mut ChaCha20Rng) {
    let thorough = o.tier == "thorough";
    let xs = scalar_classes::<G>(rng);
    let key = &env.keys[0];
    // ---------------- (a) every byte of the serialised proof matters (x != 0)
    // the violation search runs at scale 10: the per-byte stream (150+ model requests of 74 KB each per round) is at most doubled
    let rounds = if thorough { 2 } else { 1 } * (o.scale as usize).min(2);
    for round in 0..rounds {
        let (xname, x) = &xs[[8usize, 2, 3, 5][round % 4]];
        let mut label = vec![0u8; [10usize, 0, 33][round % 3]]; rng.fill_bytes(&mut label);
        // second half of every round: a proof with MORE slots than the default (parameter 200 / 256); altered bytes in the slots
        // beyond 128 must be noticed like those in the first 128
        for sp in [128usize, if round % 2 == 0 { 256 } else { 200 }] {
        let mut tape = random_tape::<G>(rng, sp);
        // slots 0 and 1 use the nonce 0 (commitment = identity) and 1: points whose encodings have neighbours that decode to the
        // same point in some groups (sign bit of an x = 0 point on Edwards curves)
        write_nonce::<G>(&mut tape, 0, &G::Scalar::ZERO); write_nonce::<G>(&mut tape, 1, &G::Scalar::ONE);
        let Some(bytes) = honest::<G>(env, drv, rep, "honest", xname, x, &label, if sp == 128 { None } else { Some(sp) }, key, tape) else { continue };
        let q = G::generator() * *x;
        let (gsz, esz) = (G::POINT_LEN, key.pk.size());
        let slots_end = 40 + sp * (gsz + 2 * esz);
        let mut positions: Vec<usize> = vec![];
        let exhaustive = thorough && round == 0 && sp == 128;
        if exhaustive { positions = (0..bytes.len()).collect(); rep.exhaustive.push(format!("{}: every byte position 0..{} of one serialised proof altered; predicate evaluated on the implementation at every position, model verdict compared at every 8th position and at all header positions", G::NAME, bytes.len())); }
        else {
            positions.extend([0, 1, 15, 31]); positions.extend(32..40);
            for s in if sp == 128 { vec![0usize, 1, 63, 126, 127] } else { vec![0usize, 127, 128, 129, sp - 57, sp - 1] } {
                let o0 = 40 + s * (gsz + 2 * esz);
                positions.extend([o0, o0 + 1, o0 + gsz / 2, o0 + gsz - 1]);                                        // g_r
                positions.extend([o0 + gsz, o0 + gsz + 1, o0 + gsz + esz / 2, o0 + gsz + esz - 1]);                // enc_x_r
                positions.extend([o0 + gsz + esz, o0 + gsz + esz + 1, o0 + gsz + esz + esz / 2, o0 + gsz + 2 * esz - 1]); // enc_r
                let s0 = slots_end + s * 32;
                positions.extend([s0, s0 + 1, s0 + 16, s0 + 31]);                                                  // opened scalar
            }
            for _ in 0..((if sp == 128 { 150 } else { 130 }) - positions.len().min(130)) { positions.push(rng.gen_range(0..bytes.len())); }
        }
        // (position, forced delta): the first and the last byte of the commitments of slots 0 and 1 with the masks 0x80 and 0x01
        let mut forced: Vec<(usize, u8)> = vec![];
        if !exhaustive { for s in [0usize, 1] { let o0 = 40 + s * (gsz + 2 * esz); for m in [0x80u8, 0x01] { forced.push((o0, m)); forced.push((o0 + gsz - 1, m)); } } }
        let plan: Vec<(usize, Option<u8>)> = forced.into_iter().map(|(p, m)| (p, Some(m))).chain(positions.into_iter().map(|p| (p, None))).collect();
        for (pos, force) in plan {
            let mut b = bytes.clone();
            let delta: u8 = force.unwrap_or_else(|| match rng.gen_range(0..4) { 0 => 1, 1 => 0x80, 2 => 0xff, _ => rng.gen_range(1..=255) });
            b[pos] ^= delta;
            let cls = field_class(pos, bytes.len(), sp, gsz, esz);
            let rv = req_verify(&b, &q, key, &label);
            let idx = rep.case("tamper-byte", Some(&rv));
            rep.hist(&format!("{}:tamper:{cls}", G::NAME));
            let v = impl_verify_bytes::<G>(&b, &q, &key.pk, &label);
            let mut explained = false;
            if v == "ok" || v == "panic" {
                explained = true;
                rep.pred_fail(Failure { stream: "tamper-byte".into(), index: idx, request: vec![rv.clone()], impl_out: v.clone(), model_out: "err".into(), key: format!("venc:tamper-{}:{cls}", if v == "ok" { "accepted" } else { "panic" }),
                    what: format!("a proof for a non-zero secret with one altered byte (offset {pos}, field {cls}) is {}", if v == "ok" { "accepted" } else { "making from_bytes/verify panic" }) });
            }
            if exhaustive && pos >= 40 && pos % 8 != 3 { continue; }
            let mv = ask(drv, env, &rv);
            if !same_verdict(&v, &mv) && !explained { rep.diverge(Failure { stream: "tamper-byte".into(), index: idx, request: vec![rv], impl_out: v, model_out: mv, key: "venc:verify-model".into(), what: format!("Lean model and implementation verdicts differ on a proof with one altered byte (field {cls})") }); }
        }
        if sp != 128 { continue; }
        // ---------------- (b) context substitution
        let g = G::generator();
        let mut subs: Vec<(&str, G, Vec<u8>, &Key)> = vec![];
        subs.push(("Q+G", q + g, label.clone(), key));
        subs.push(("Q=-Q", -q, label.clone(), key));
        subs.push(("Q=identity", G::identity(), label.clone(), key));
        subs.push(("Q=random", g * G::Scalar::random(&mut *rng), label.clone(), key));
        subs.push(("Q=2Q", q + q, label.clone(), key));
        let mut l2 = label.clone(); l2.push(0); subs.push(("label-extended", q, l2, key));
        if !label.is_empty() {
            let mut l2 = label.clone(); let k = rng.gen_range(0..l2.len() * 8); l2[k / 8] ^= 1 << (k % 8); subs.push(("label-bitflip", q, l2, key));
            subs.push(("label-truncated", q, label[..label.len() - 1].to_vec(), key));
            subs.push(("label-empty", q, vec![], key));
        }
        let mut l2 = vec![0u8; 1024]; rng.fill_bytes(&mut l2); subs.push(("label-random-1KiB", q, l2, key));
        for k2 in env.keys.iter().skip(1) { subs.push((if k2.bits == key.bits { "rsa-key-other-same-size" } else { "rsa-key-other-size" }, q, label.clone(), k2)); }
        for (name, q2, l2, k2) in subs {
            let (rv, rd) = (req_verify(&bytes, &q2, k2, &l2), req_decrypt(&bytes, &q2, k2, &l2));
            let idx = rep.case("context", Some(&rv));
            rep.hist(&format!("{}:context:{name}", G::NAME));
            let v = impl_verify_bytes::<G>(&bytes, &q2, &k2.pk, &l2);
            let (d, dv) = impl_decrypt_bytes::<G>(&bytes, &q2, &k2.sk, &l2);
            let fail = |key: &str, what: String, i: &str, m: &str| Failure { stream: "context".into(), index: idx, request: vec![rv.clone(), rd.clone()], impl_out: i.into(), model_out: m.into(), key: key.into(), what };
            if !v.starts_with("err:") { rep.pred_fail(fail(&format!("venc:context-accepted:{name}"), format!("a proof is accepted (or verify panics) in another context: {name}"), &v, "err")); }
            if let Some(xv) = dv { if g * xv != q2 { rep.pred_fail(fail("venc:decrypt-wrong-value", "decrypt returned a scalar that is not the discrete logarithm of the claimed point".into(), &d, "x with x*G = Q")); } }
            if d == "panic" { rep.pred_fail(fail(&format!("venc:panic:context:{name}"), "decrypt panics".into(), &d, "ok or err")); }
            let mv = ask(drv, env, &rv);
            if mv != v { rep.diverge(fail("venc:verify-model", format!("Lean model and implementation verify verdicts differ under context substitution {name}"), &v, &mv)); }
            let md = ask(drv, env, &rd);
            if md != d { rep.diverge(fail("venc:decrypt-model", format!("Lean model and implementation decrypt results differ under context substitution {name}"), &d, &md)); }
        }
        }
    }
    // ---------------- (c) adversarial provers (Lean `advProver`), transported into the real from_bytes / verify / decrypt
    let mut strategies: Vec<(String, usize)> = vec![];
    for s in ["plain", "garbage:raw:0:64", "garbage:raw:0,1,2:400", "garbage:raw:5:64", "garbage:raw:1,64,127:400", "garbage:wrongvalue:0,7:200", "garbage:nonscalar:0,1:200",
              "garbage:raw:0,1,2,3,4,5:4000", "garbagenog:raw:0,1,2,3,4,5,6,7", "garbagenog:wrongvalue:0,1,2,3,4,5,6,7", "wrongcommit:0", "wrongcommit:127", "wrongcommit:3,64",
              "wrongside:0", "wrongside:100", "wrongside:5,6,7", "shortr:1", "shortxr:1", "shortr:2", "shortxr:2"] { strategies.push((s.to_string(), 128)); }
    // one larger number of leading zero bytes per curve
    strategies.push((if G::BE { "shortr:16" } else { "shortxr:31" }.to_string(), 128));
    strategies.push(("garbage:raw:0,200:200".into(), 256)); strategies.push((if G::BE { "shortxr:4" } else { "shortr:4" }.into(), 200)); strategies.push(("plain".into(), 257)); strategies.push(("wrongside:256".into(), 257));
    // exactly ONE conjunct of the per-slot acceptance condition violated (commitment relation of the selected side /
    // re-encryption equals the ciphertext of the selected side), everything else honest, challenge recomputed, no grinding
    // the same single-conjunct / wrong-opening forgeries in slots BEYOND the default 128 of a larger proof
    for (s, n) in [("wrongcommit:200", 256usize), ("wrongside:255", 256), ("commit-other-side:130", 200), ("open-plus-order:199", 200), ("swap:one:128", 256), ("cross:128:255", 256)] { strategies.push((s.to_string(), n)); }
    for s in ["swap:all", "swap:one:0", "cross:0:1", "cross:5:100", "commit-other-side:0", "commit-other-side:3,64", "open-plus-order:0", "open-plus-order:127"] { strategies.push((s.to_string(), 128)); }
    // adaptive forgers that know only Q: each assumes the verifier's challenge omits one component class
    for d in ["g_r", "enc_x_r", "enc_r", "label", "Q"] { strategies.push((format!("adaptive:{d}"), 128)); }
    if thorough {
        for k in [4usize, 16, 31, 32] { strategies.push((format!("shortr:{k}"), 128)); strategies.push((format!("shortxr:{k}"), 128)); }
        strategies.push(("adaptive:g_r".into(), 256));
        strategies.push(("garbage:raw:0,1,2,3,4,5,6,7,8,9:60000".into(), 128));
        strategies.push(("garbage:wrongvalue:0,1,2,3,4,5,6,7:20000".into(), 128));
        let all_but_last: Vec<String> = (0..127).map(|i| i.to_string()).collect();
        strategies.push((format!("garbagenog:raw:{}", all_but_last.join(",")), 128));
        strategies.push((format!("wrongcommit:{}", all_but_last.join(",")), 128));
    }
    let reps = if thorough { 3 } else { 1 } * (o.scale as usize).min(5);
    for rep_i in 0..reps {
        for (si, (st, nslots)) in strategies.iter().enumerate() {
            // x: mostly random non-zero; x = 0 and x = order-1 now and then (for x = 0 both sides of a slot coincide)
            let single = ["swap", "cross", "commit-other-side", "open-plus-order", "adaptive"].iter().any(|p| st.starts_with(p));
            // (for x = 0 the two sides of a slot coincide and these forgeries are honest proofs: first repetition always x != 0)
            let (_, x) = &xs[if single && rep_i == 0 { 8 + (si % 2) } else { match (si + rep_i) % 7 { 0 => 0, 3 => 2, 5 => 3, _ => 8 + (si % 2) } }];
            let mut label = vec![0u8; [3usize, 0, 40][(si + rep_i) % 3]]; rng.fill_bytes(&mut label);
            let kx = if thorough { &env.keys[(si + rep_i) % env.keys.len()] } else { key };
            let q = G::generator() * *x;
            let class = { let f: Vec<&str> = st.split(':').collect(); let base = if f[0].starts_with("garbage") || f[0] == "adaptive" || (f[0] == "swap" && f[1] == "all") || (f[0].starts_with("short") && f.len() > 1) { format!("{}:{}", f[0], f[1]) } else { f[0].to_string() };
                          format!("{base}{}{}", if *nslots > 256 { ":slots>256" } else { "" }, if bool::from(x.is_zero()) { ":x=0" } else { "" }) };
            match forge::<G>(env, drv, x, kx, &label, *nslots, st, rng) {
                Some(f) if f.adv_req.starts_with("skip:") => { if rep_i == 0 && G::BE { rep.notes.push(format!("{st}: {}", &f.adv_req[5..])); } rep.hist("adaptive:skipped-no-attack"); }
                Some(f) => judge_forged::<G>(env, drv, rep, "forged", &class, &f, &q, kx, &label, None),
                None => rep.notes.push(format!("adv {st} produced no proof")),
            }
        }
    }
}

pub fn run(o: &Opts, drv: &mut Driver, rep: &mut Report, prop: &str) {
    let env = Env::new(o);
    let mut rng = case_rng(o.seed, if prop == "C09" { "c09" } else { "c10" });
    if prop == "C09" {
        c09_curve::<k256::ProjectivePoint>(o, &env, drv, rep, &mut rng);
        c09_curve::<curve25519_dalek::EdwardsPoint>(o, &env, drv, rep, &mut rng);
    } else {
        c10_curve::<k256::ProjectivePoint>(o, &env, drv, rep, &mut rng);
        c10_curve::<curve25519_dalek::EdwardsPoint>(o, &env, drv, rep, &mut rng);
    }
    rep.notes.push(format!("RSA keys: {}", env.keys.iter().map(|k| format!("{} bits (id {})", k.bits, hex::encode(&k.id))).collect::<Vec<_>>().join(", ")));
}

// ------------------------------------------------------------------------------------------------ replay
fn replay_curve<G: Cv>(env: &Env, drv: &mut Driver, rep: &mut Report, lines: &[String]) {
    let mut class = "replay".to_string();
    for l in lines {
        let t: Vec<&str> = l.split(' ').collect();
        if t.len() < 3 || t[0] != "venc" || t[2] != G::TAG { continue; }
        match (t[1], t.len()) {
            ("adv", 10) => { let f: Vec<&str> = t[8].split(':').collect(); class = if (f[0].starts_with("garbage") || f[0] == "adaptive" || f[0].starts_with("short")) && f.len() > 1 { format!("{}:{}", f[0], f[1]) } else { f[0].to_string() };
                             let a = ask(drv, env, l); rep.notes.push(format!("replayed adv: model produced {} chars", a.len())); }
            ("verify", 8) | ("decrypt", 8) => {
                let (bytes, label) = (unhexw(t[3]), unhexw(t[7]));
                let (Some(q), Some(key)) = (pt_from_bytes::<G>(&unhexw(t[4])), env.key(&unhexw(t[5]))) else { rep.notes.push("replay: unknown point or key id".into()); continue };
                if t[1] == "verify" {
                    let idx = rep.case("replay", Some(l));
                    let v = impl_verify_bytes::<G>(&bytes, &q, &key.pk, &label);
                    let mv = ask(drv, env, l);
                    rep.notes.push(format!("replayed verify: implementation = {v}, model = {mv}"));
                    if v == "panic" { rep.pred_fail(Failure { stream: "replay".into(), index: idx, request: vec![l.clone()], impl_out: v.clone(), model_out: mv.clone(), key: "venc:slots>256-panic".into(), what: "from_bytes / verify panics".into() }); }
                    else if mv != v { rep.diverge(Failure { stream: "replay".into(), index: idx, request: vec![l.clone()], impl_out: v, model_out: mv, key: "venc:verify-model".into(), what: "model/implementation verify verdicts differ".into() }); }
                } else {
                    let f = Forged { bytes, adv_req: l.clone() };
                    judge_forged::<G>(env, drv, rep, "replay", &class, &f, &q, key, &label, None);
                }
            }
            ("parse", 4) => {
                let bytes = unhexw(t[3]);
                let idx = rep.case("replay", Some(l));
                let got = match impl_parse::<G>(&bytes) { Ok(p) => impl_to_bytes(&p).map_or("panic".into(), |b| format!("ok:{}", hexw(&b))), Err(e) => e };
                let m = ask(drv, env, l);
                if got != m { rep.diverge(Failure { stream: "replay".into(), index: idx, request: vec![l.clone()], impl_out: got, model_out: m, key: "venc:parse-model".into(), what: "model/implementation from_bytes results differ".into() }); }
            }
            ("prove", 9) => {
                let (Some(x), Some(key)) = (sc_from_be_hex::<G>(t[3]), env.key(&unhexw(t[4]))) else { continue };
                let param = if t[7] == "none" { None } else { t[7].parse::<usize>().ok() };
                honest::<G>(env, drv, rep, "replay", "replay", &x, &unhexw(t[6]), param, key, unhexw(t[8]));
            }
            _ => {}
        }
    }
}

pub fn replay(o: &Opts, drv: &mut Driver, rep: &mut Report, lines: &[String], _prop: &str) {
    // only load the big keys when a request refers to one of them (key ids of the 1024-bit keys start with 04)
    let big = lines.iter().any(|l| { let t: Vec<&str> = l.split(' ').collect();
        let id = match t.get(1).copied() { Some("prove") | Some("adv") => t.get(4), Some("verify") | Some("decrypt") => t.get(5), _ => None };
        id.map_or(false, |id| !id.starts_with("04")) });
    let o2 = Opts { prop: o.prop.clone(), tier: if big { "thorough".into() } else { "quick".into() }, seed: o.seed, driver: o.driver.clone(), out: o.out.clone(), replay: None, scale: 1 };
    let env = Env::new(&o2);
    replay_curve::<k256::ProjectivePoint>(&env, drv, rep, lines);
    replay_curve::<curve25519_dalek::EdwardsPoint>(&env, drv, rep, lines);
}
