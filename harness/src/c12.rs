//! C12: sl_mpc_mate::bip32::{derive_child_pubkey, get_finger_print, derive_xpub, XPubKey::to_string}
//! vs. the Lean model (Model/Bip32.lean) through the oracle, plus predicates evaluated on the implementation's own
//! output: additivity, field bookkeeping, CKDpub recomputed with the hmac crate, 78-byte layout, Base58Check
//! round trip (bs58 + sha2), hardened / identity / depth > 255 => Err.
use crate::{c20::sc_hex, driver::Driver, oracle, report::{Failure, Report}, rng::case_rng, Opts};
use derivation_path::{ChildIndex, DerivationPath};
use elliptic_curve::{group::GroupEncoding, ops::Reduce, sec1::ToEncodedPoint, Field};
use k256::{ProjectivePoint, Scalar, U256};
use rand::{Rng, RngCore};
use serde_json::json;
use sha2::{Digest, Sha256};
use sl_mpc_mate::bip32::{derive_child_pubkey, derive_xpub, get_finger_print, Prefix};
use std::panic::{catch_unwind, AssertUnwindSafe};

const H: u32 = 1 << 31;
fn pt(p: &ProjectivePoint) -> String { hex::encode(p.to_bytes()) }
fn path_str(p: &[u32]) -> String { if p.is_empty() { "-".into() } else { p.iter().map(|x| x.to_string()).collect::<Vec<_>>().join(",") } }
fn dpath(p: &[u32]) -> DerivationPath { DerivationPath::new(p.iter().map(|b| ChildIndex::from_bits(*b)).collect::<Vec<_>>()) }
/// the version bytes as published (BIP32 / SLIP-132), NOT read from the crate
fn prefix_parts(p: &Prefix) -> (String, u32) {
    match p {
        Prefix::XPub => ("xpub".into(), 0x0488b21e), Prefix::YPub => ("ypub".into(), 0x049d7cb2),
        Prefix::ZPub => ("zpub".into(), 0x04b24746), Prefix::TPub => ("tpub".into(), 0x043587cf),
        Prefix::Custom(v) => (format!("{v:08x}"), *v),
    }
}
fn parse_prefix(s: &str) -> Option<Prefix> {
    Some(match s { "xpub" => Prefix::XPub, "ypub" => Prefix::YPub, "zpub" => Prefix::ZPub, "tpub" => Prefix::TPub,
        h => Prefix::Custom(u32::from_str_radix(h, 16).ok()?) })
}
fn sha256d4(b: &[u8]) -> [u8; 4] { Sha256::digest(Sha256::digest(b))[..4].try_into().unwrap() }
fn hash160_4(key33: &[u8]) -> [u8; 4] { ripemd::Ripemd160::digest(Sha256::digest(key33))[..4].try_into().unwrap() }

struct Case { root: ProjectivePoint, cc: [u8; 32], prefix: Prefix, path: Vec<u32> }
fn request(c: &Case) -> String { format!("bip32 derive {} {} {} {}", pt(&c.root), hex::encode(c.cc), prefix_parts(&c.prefix).0, path_str(&c.path)) }

fn fail(rep: &mut Report, pred: bool, stream: &str, idx: u64, req: &str, got: &str, model: &str, key: &str, what: &str) {
    let f = Failure { stream: stream.into(), index: idx, request: vec![req.to_string()], impl_out: got.into(), model_out: model.into(), key: key.into(), what: what.into() };
    if pred { rep.pred_fail(f) } else { rep.diverge(f) }
}

/// one `derive_xpub` case; returns the implementation's canonical output
fn one(drv: &mut Driver, rep: &mut Report, stream: &str, c: &Case) -> String {
    let req = request(c);
    let n = c.path.len();
    let identity = c.root == ProjectivePoint::IDENTITY;
    let hardened = c.path.iter().any(|b| b & H != 0);
    let idx = rep.case(stream, if n >= 2 && !identity && !hardened && n <= 255 { Some(&req) } else { None });
    rep.hist(&format!("len:{}", match n { 0 => "0", 1 => "1", 2..=9 => "2-9", 10..=254 => "10-254", 255 => "255", 256 => "256", _ => ">256" }));
    rep.hist(if identity { "root:identity" } else { "root:point" });
    if hardened { rep.hist("path:has-hardened") }
    let (pname, version) = prefix_parts(&c.prefix);
    rep.hist(&format!("prefix:{}", if matches!(c.prefix, Prefix::Custom(_)) { "custom" } else { pname.as_str() }));

    // ---- the implementation
    let r = catch_unwind(AssertUnwindSafe(|| derive_xpub(c.prefix, &c.root, c.cc, dpath(&c.path))));
    let mut xp = None;
    let got = match r {
        Err(_) => "panic".to_string(),
        Ok(Err(e)) => format!("err:{e:?}"),
        Ok(Ok(x)) => {
            let s = catch_unwind(AssertUnwindSafe(|| (x.to_string(false), x.to_string(true))));
            match s {
                Err(_) => "panic:to_string".to_string(),
                Ok((h, b)) => {
                    let o = format!("ok:{:08x}:{}:{}:{}:{}:{}:{}:{}", u32::from(x.prefix), x.depth, hex::encode(x.parent_fingerprint), x.child_number,
                        hex::encode(x.chain_code), pt(&x.pubkey), h, b);
                    xp = Some((x, h, b));
                    o
                }
            }
        }
    };
    // ---- the implementation step by step (offsets are dropped by derive_xpub)
    let mut steps: Vec<(Scalar, ProjectivePoint, [u8; 32])> = vec![];
    let mut step_err: Option<String> = None;
    if !identity {
        let (mut k, mut ch) = (c.root, c.cc);
        for b in &c.path {
            match catch_unwind(AssertUnwindSafe(|| derive_child_pubkey(&k, ch, &ChildIndex::from_bits(*b)))) {
                Err(_) => { step_err = Some("panic".into()); break }
                Ok(Err(e)) => { step_err = Some(format!("err:{e:?}")); break }
                Ok(Ok((off, child, cc2))) => {
                    // additivity of the step, in k256
                    if child != k + ProjectivePoint::GENERATOR * off {
                        fail(rep, true, stream, idx, &req, &format!("step {}: child {} offset {}", steps.len(), pt(&child), sc_hex(&off)), "child = parent + offset*G", "bip32:additive-step", "derive_child_pubkey returned an offset with child != parent + offset*G");
                    }
                    // CKDpub recomputed from the definition
                    use hmac::Mac;
                    let mut m = hmac::Hmac::<sha2::Sha512>::new_from_slice(&ch).unwrap();
                    m.update(k.to_encoded_point(true).as_bytes()); m.update(&b.to_be_bytes());
                    let i = m.finalize().into_bytes();
                    let il = <Scalar as Reduce<U256>>::reduce(U256::from_be_slice(&i[..32]));
                    if il != off || i[32..] != cc2 {
                        fail(rep, true, stream, idx, &req, &format!("step {}: offset {} cc {}", steps.len(), sc_hex(&off), hex::encode(cc2)), &format!("IL {} IR {}", sc_hex(&il), hex::encode(&i[32..])), "bip32:ckdpub", "offset / child chain code differ from HMAC-SHA512(c_par, serP(K_par) || ser32(i))");
                    }
                    steps.push((off, child, cc2)); k = child; ch = cc2;
                }
            }
        }
    }
    let sum = steps.iter().fold(Scalar::ZERO, |a, s| a + s.0);

    // ---- the model
    let model = drv.ask_with(&req, &mut |q| oracle::answer(q));
    if idx < 2 { rep.sample(json!({"stream": stream, "request": req, "impl": got, "model": model})); }

    // ---- predicates on the implementation's own output
    let mut known_class = false;
    let is_err = got.starts_with("err:");
    if identity && !is_err {
        known_class = true;
        fail(rep, true, stream, idx, &req, &got, "Err(PubkeyPointAtInfinity)", "bip32:identity-root", "the point at infinity as root key is not reported as an error (panic in get_finger_print / to_string)");
    } else if n > 255 && !is_err {
        known_class = true;
        fail(rep, true, stream, idx, &req, &got, "Err", "bip32:depth-overflow", "a path of more than 255 components is accepted; the u8 depth wraps");
    } else if hardened && !is_err {
        fail(rep, true, stream, idx, &req, &got, "Err(HardenedChildNotSupported)", "bip32:hardened-accepted", "a hardened component is not reported as an error");
    }
    if got.starts_with("panic") && !known_class {
        fail(rep, true, stream, idx, &req, &got, "Ok or Err", "bip32:panic", "derive_xpub / to_string panicked");
    }
    if !identity && !hardened && n <= 255 && step_err.is_none() {
        match &xp {
            None => fail(rep, true, stream, idx, &req, &got, "Ok", "bip32:spurious-error", "a valid root and non-hardened path of at most 255 components is rejected"),
            Some((x, h, b)) => {
                let mut bad: Vec<String> = vec![];
                if u32::from(x.prefix) != version { bad.push("version".into()) }
                if x.depth as usize != n { bad.push("depth".into()) }
                if x.child_number != c.path.last().copied().unwrap_or(0) { bad.push("child-number".into()) }
                let parent = if n >= 2 { steps[n - 2].1 } else { c.root };
                let fp = if n == 0 { [0u8; 4] } else { hash160_4(parent.to_encoded_point(true).as_bytes()) };
                if x.parent_fingerprint != fp { bad.push("parent-fingerprint".into()) }
                let (fk, fc) = if n == 0 { (c.root, c.cc) } else { (steps[n - 1].1, steps[n - 1].2) };
                if x.pubkey != fk { bad.push("key".into()) }
                if x.chain_code != fc { bad.push("chain-code".into()) }
                if x.pubkey != c.root + ProjectivePoint::GENERATOR * sum { bad.push("additive-total".into()) }
                // layout: version || depth || fp || child number || chain code || key
                let mut ser = vec![];
                ser.extend_from_slice(&version.to_be_bytes()); ser.push(n as u8); ser.extend_from_slice(&fp);
                ser.extend_from_slice(&c.path.last().copied().unwrap_or(0).to_be_bytes()); ser.extend_from_slice(&fc);
                ser.extend_from_slice(fk.to_encoded_point(true).as_bytes());
                if ser.len() != 78 || *h != hex::encode(&ser) { bad.push("hex-serialisation".into()) }
                match bs58::decode(b).into_vec() {
                    Ok(v) if v.len() == 82 && hex::encode(&v[..78]) == *h && v[78..] == sha256d4(&v[..78]) => {}
                    _ => bad.push("base58check".into()),
                }
                for what in bad {
                    fail(rep, true, stream, idx, &req, &got, &format!("BIP32 field rule for {what}"), &format!("bip32:field:{what}"), &format!("derived extended key violates the BIP32 rule for: {what}"));
                }
            }
        }
    }
    // ---- correspondence
    if !known_class {
        let mf: Vec<&str> = model.split(':').collect();
        if model.starts_with("ok:") && mf.len() == 11 {
            if mf[..9].join(":") != got {
                fail(rep, false, stream, idx, &req, &got, &model, "bip32:derive-model", "Lean model Bip32.deriveXpub/toString and derive_xpub/to_string disagree");
            }
            let offs = if steps.is_empty() { "-".to_string() } else { steps.iter().map(|s| sc_hex(&s.0)).collect::<Vec<_>>().join(",") };
            if step_err.is_some() || mf[9] != sc_hex(&sum) || mf[10] != offs {
                fail(rep, false, stream, idx, &req, &format!("sum {} offsets {} {:?}", sc_hex(&sum), offs, step_err), &format!("sum {} offsets {}", mf[9], mf[10]), "bip32:offsets-model", "per-step offsets of derive_child_pubkey differ from the model's");
            }
        } else if (identity as u8 + hardened as u8 + (n > 255) as u8) >= 2 && model.starts_with("err:") && is_err {
            // several preconditions violated at once: C12 asks for an error, not for a precedence among them
            rep.hist("multi-violation:error-name-not-compared");
        } else if model != got {
            fail(rep, false, stream, idx, &req, &got, &model, "bip32:derive-model", "Lean model Bip32.deriveXpub and derive_xpub disagree");
        }
    }
    got
}

/// one `derive_child_pubkey` + `get_finger_print` case
fn one_child(drv: &mut Driver, rep: &mut Report, parent: &ProjectivePoint, cc: [u8; 32], bits: u32) {
    let req = format!("bip32 child {} {} {}", pt(parent), hex::encode(cc), bits);
    let identity = *parent == ProjectivePoint::IDENTITY;
    let idx = rep.case("child", if !identity && bits & H == 0 { Some(&req) } else { None });
    rep.hist(if bits & H != 0 { "child:hardened" } else if identity { "child:identity-parent" } else { "child:normal" });
    let got = match catch_unwind(AssertUnwindSafe(|| derive_child_pubkey(parent, cc, &ChildIndex::from_bits(bits)))) {
        Err(_) => "panic".to_string(),
        Ok(Err(e)) => format!("err:{e:?}"),
        Ok(Ok((off, child, cc2))) => {
            if child != *parent + ProjectivePoint::GENERATOR * off {
                fail(rep, true, "child", idx, &req, &format!("child {} offset {}", pt(&child), sc_hex(&off)), "child = parent + offset*G", "bip32:additive-step", "derive_child_pubkey returned an offset with child != parent + offset*G");
            }
            format!("ok:{}:{}:{}", sc_hex(&off), pt(&child), hex::encode(cc2))
        }
    };
    if got == "panic" { fail(rep, true, "child", idx, &req, &got, "Ok or Err", "bip32:panic", "derive_child_pubkey panicked"); }
    if bits & H != 0 && got != "err:HardenedChildNotSupported" {
        fail(rep, true, "child", idx, &req, &got, "Err(HardenedChildNotSupported)", "bip32:hardened-accepted", "a hardened index is not reported as an error");
    }
    let model = drv.ask_with(&req, &mut |q| oracle::answer(q));
    if model != got { fail(rep, false, "child", idx, &req, &got, &model, "bip32:child-model", "Lean model Bip32.deriveChild and derive_child_pubkey disagree"); }
    if !identity {
        let freq = format!("bip32 fp {}", pt(parent));
        let fgot = match catch_unwind(AssertUnwindSafe(|| get_finger_print(parent))) { Ok(f) => format!("ok:{}", hex::encode(f)), Err(_) => "panic".into() };
        let fm = drv.ask_with(&freq, &mut |q| oracle::answer(q));
        if fm != fgot { fail(rep, false, "child", idx, &freq, &fgot, &fm, "bip32:fp-model", "Lean model Bip32.fingerprint and get_finger_print disagree"); }
        if fgot != format!("ok:{}", hex::encode(hash160_4(parent.to_encoded_point(true).as_bytes()))) {
            fail(rep, true, "child", idx, &freq, &fgot, "RIPEMD160(SHA256(serP(K)))[..4]", "bip32:field:parent-fingerprint", "get_finger_print is not the first 4 bytes of HASH160 of the compressed key");
        }
    }
}

/// native Base58 of the model vs. the bs58 crate (with leading zero bytes)
fn one_b58(drv: &mut Driver, rep: &mut Report, bytes: &[u8]) {
    let req = format!("bip32 b58enc {}", if bytes.is_empty() { "-".into() } else { hex::encode(bytes) });
    let idx = rep.case("base58", None);
    let got = bs58::encode(bytes).into_string();
    let model = drv.ask(&req);
    if model != got { fail(rep, false, "base58", idx, &req, &got, &model, "bip32:base58-model", "native Lean Base58 encoder and bs58 disagree"); }
    let dreq = format!("bip32 b58dec {}", if got.is_empty() { "-" } else { &got });
    let back = drv.ask(&dreq);
    let want = format!("ok:{}", if bytes.is_empty() { "-".into() } else { hex::encode(bytes) });
    if back != want { fail(rep, false, "base58", idx, &dreq, &want, &back, "bip32:base58-model", "native Lean Base58 decoder does not invert the encoder"); }
}

/// decode an `xpub…` string: (depth, parent fp, child number, chain code, key) if the checksum holds
fn decode_xpub(s: &str) -> Option<(u8, [u8; 4], u32, [u8; 32], ProjectivePoint)> {
    let v = bs58::decode(s).into_vec().ok()?;
    if v.len() != 82 || v[78..] != sha256d4(&v[..78]) { return None; }
    Some((v[4], v[5..9].try_into().ok()?, u32::from_be_bytes(v[9..13].try_into().ok()?), v[13..45].try_into().ok()?, oracle::k_point(&v[45..78])?))
}

/// (a) the constants pinned by bip32::tests; (b) the public-derivation steps of the published BIP32 test vectors 1 and 2
fn vectors(drv: &mut Driver, rep: &mut Report) {
    let root = ProjectivePoint::GENERATOR * (Scalar::ZERO - Scalar::from(5u32));
    let cc: [u8; 32] = Sha256::digest(b"test").into();
    let pinned: [(&[u32], &str); 6] = [
        (&[0], "xpub69J3tUsuDC7sgV1yswvgycmUJDywzCVDTfqLzzj6swGgYgFYb9mHpo972CidTGpb2eet5TcStoTMVCHKD9DPtP51qnPK2UMXC9roMkKtz4d"),
        (&[1], "xpub69J3tUsuDC7sj7dLhhSwNG3myVgtC1iUjUZdaQejqmPfr2TAPWpfgukduSxPsiNV2ijVkguuSyXNWa8FyYauKe6XYwEsuyWM99JHVCVkhdJ"),
        (&[2048], "xpub69J3tUsuDC9RhWVRSaXBrtZs3xqk9x5dtPASJhsoXh2MuSVkpSQUnkTD7jkPRT9khxztEgRqwNraViVNVe8TKYEdJGDMgMyWK997aTEDHzS"),
        (&[0, 1, 2], "xpub6BtgqUiXne324rjh8mh8XfqkDs43PQZpdDr7uMTdnRWjDp6N6rKgUhfa5rFkqGc8AnJaCYoRw5APNkP6MprK6utzetNntGEC1rjPau45fbD"),
        (&[5, 1, 5], "xpub6DDCuvTyeLXwDfsqBGAYez2PBktdAgohyQLLtn6fvn15msBoumm4sLprHPD9BRYZJMhrLGzv5hvzMvjPEh4b1JBc9NAddyAy5Ecsodxe69u"),
        (&[234235, 12345, 123413], "xpub6DCqoxe9CW573Z4uu975uR6V91C1PVovYT4b816fQ4TUGPyzdKYSKgCvSN4z4hAKzEo7FCaY9pWgXuLgvn27pzetZFwHMeAeeXFYkjPD2z4"),
    ];
    for (p, want) in pinned {
        let c = Case { root, cc, prefix: Prefix::XPub, path: p.to_vec() };
        let got = one(drv, rep, "vectors", &c);
        if got.rsplit(':').next() != Some(want) {
            fail(rep, true, "vectors", 0, &request(&c), &got, want, "bip32:vector", "Base58Check string differs from the constant pinned in bip32::tests");
        }
    }
    // published vectors: (parent xpub, index, child xpub); only public (non-hardened) steps
    let published = [
        ("tv2 m -> m/0", "xpub661MyMwAqRbcFW31YEwpkMuc5THy2PSt5bDMsktWQcFF8syAmRUapSCGu8ED9W6oDMSgv6Zz8idoc4a6mr8BDzTJY47LJhkJ8UB7WEGuduB", 0u32,
         "xpub69H7F5d8KSRgmmdJg2KhpAK8SR3DjMwAdkxj3ZuxV27CprR9LgpeyGmXUbC6wb7ERfvrnKZjXoUmmDznezpbZb7ap6r1D3tgFxHmwMkQTPH"),
        ("tv1 m/0' -> m/0'/1", "xpub68Gmy5EdvgibQVfPdqkBBCHxA5htiqg55crXYuXoQRKfDBFA1WEjWgP6LHhwBZeNK1VTsfTFUHCdrfp1bgwQ9xv5ski8PX9rL2dZXvgGDnw", 1u32,
         "xpub6ASuArnXKPbfEwhqN6e3mwBcDTgzisQN1wXN9BJcM47sSikHjJf3UFHKkNAWbWMiGj7Wf5uMash7SyYq527Hqck2AxYysAA7xmALppuCkwQ"),
    ];
    for (name, par, i, child) in published {
        let (Some(p), Some(ch)) = (decode_xpub(par), decode_xpub(child)) else {
            rep.notes.push(format!("published vector {name}: constant fails its own checksum, skipped")); continue };
        let c = Case { root: p.4, cc: p.3, prefix: Prefix::XPub, path: vec![i] };
        let got = one(drv, rep, "vectors", &c);
        let f: Vec<&str> = got.split(':').collect();
        // derive_xpub counts depth from the given root: compare parent fingerprint, child number, chain code, key (and the whole string when the parent is a master key)
        let ok = f.len() == 9 && f[3] == hex::encode(ch.1) && f[4] == ch.2.to_string() && f[5] == hex::encode(ch.3) && f[6] == pt(&ch.4) && (p.0 != 0 || f[8] == child);
        if !ok { fail(rep, true, "vectors", 0, &request(&c), &got, child, "bip32:vector", &format!("published BIP32 test vector {name} not reproduced")); }
        rep.hist("vectors:published");
    }
    rep.exhaustive.push("the 6 Base58 constants of bip32::tests and the two non-hardened steps of the published BIP32 test vectors 1 (m/0'->m/0'/1) and 2 (m->m/0)".into());
}

fn gen_root(rng: &mut impl RngCore, k: u64) -> ProjectivePoint {
    let g = ProjectivePoint::GENERATOR;
    match k % 5 { 0 => g, 1 => g * Scalar::from(2u32), 2 => g * (-Scalar::ONE), _ => g * Scalar::random(&mut *rng) }
}
fn gen_cc(rng: &mut impl RngCore, k: u64) -> [u8; 32] {
    match k % 4 { 0 => [0u8; 32], 1 => [0xff; 32], _ => { let mut c = [0u8; 32]; rng.fill_bytes(&mut c); c } }
}
fn gen_prefix(rng: &mut impl RngCore, k: u64) -> Prefix {
    match k % 8 { 0 => Prefix::XPub, 1 => Prefix::YPub, 2 => Prefix::ZPub, 3 => Prefix::TPub, 4 => Prefix::Custom(0), 5 => Prefix::Custom(u32::MAX),
        6 => Prefix::Custom(0x0488b21e), _ => Prefix::Custom(rng.gen()) }
}
fn gen_index(rng: &mut impl RngCore, style: u64) -> u32 {
    match style % 5 { 0 => 0, 1 => 1, 2 => H - 1, 3 => rng.gen_range(0..H), _ => [0, 1, H - 1, rng.gen_range(0..H), rng.gen_range(0..1000)][rng.gen_range(0..5)] }
}
fn gen_path(rng: &mut impl RngCore, len: usize, style: u64) -> Vec<u32> { (0..len).map(|_| gen_index(rng, style)).collect() }

pub fn replay(drv: &mut Driver, rep: &mut Report, lines: &[String]) {
    for l in lines {
        let t: Vec<&str> = l.split(' ').collect();
        let cc = |h: &str| -> Option<[u8; 32]> { hex::decode(h).ok()?.try_into().ok() };
        if t.len() == 6 && t[1] == "derive" {
            let path: Option<Vec<u32>> = if t[5] == "-" { Some(vec![]) } else { t[5].split(',').map(|x| x.parse().ok()).collect() };
            if let (Some(root), Some(cc), Some(prefix), Some(path)) = (oracle::k_point(&hex::decode(t[2]).unwrap_or_default()), cc(t[3]), parse_prefix(t[4]), path) {
                let got = one(drv, rep, "replay", &Case { root, cc, prefix, path });
                rep.notes.push(format!("replayed derive: implementation = {}", &got[..got.len().min(300)]));
            }
        } else if t.len() == 5 && t[1] == "child" {
            if let (Some(p), Some(cc), Ok(bits)) = (oracle::k_point(&hex::decode(t[2]).unwrap_or_default()), cc(t[3]), t[4].parse::<u32>()) {
                one_child(drv, rep, &p, cc, bits);
            }
        }
    }
}

pub fn run(o: &Opts, drv: &mut Driver, rep: &mut Report) {
    let mut rng = case_rng(o.seed, "c12");
    let thorough = o.tier == "thorough";
    vectors(drv, rep);

    // ---- exhaustive: every path of length <= 2 over {0, 1, 2^31-1, hardened 0, hardened 2^31-1}, all five Prefix variants rotating
    let alpha = [0u32, 1, H - 1, H, u32::MAX];
    let mut small: Vec<Vec<u32>> = vec![vec![]];
    for a in alpha { small.push(vec![a]); for b in alpha { small.push(vec![a, b]); } }
    for (k, p) in small.iter().enumerate() {
        let c = Case { root: gen_root(&mut rng, k as u64), cc: gen_cc(&mut rng, k as u64), prefix: gen_prefix(&mut rng, k as u64), path: p.clone() };
        one(drv, rep, "boundary", &c);
    }
    rep.exhaustive.push("all 31 paths of length <= 2 over the indices {0, 1, 2^31-1, 0', (2^31-1)'}".into());

    // ---- boundary lengths x root classes x chain codes x prefixes x index styles
    let lens: Vec<usize> = if thorough { (0..=20).chain([50, 100, 200, 254, 255, 256, 257, 258, 299, 300]).collect() } else { vec![0, 1, 2, 3, 5, 10, 255, 256, 257, 300] };
    let per = if thorough { 10 } else { 2 } * o.scale;
    let mut k = 0u64;
    for &len in &lens {
        for _ in 0..per {
            let c = Case { root: gen_root(&mut rng, k), cc: gen_cc(&mut rng, k / 5), prefix: gen_prefix(&mut rng, k), path: gen_path(&mut rng, len, k / 3) };
            one(drv, rep, "boundary", &c);
            k += 1;
        }
    }
    // ---- identity root at every length class
    for (j, &len) in [0usize, 1, 2, 3, 10, 255, 256, 300].iter().enumerate() {
        let c = Case { root: ProjectivePoint::IDENTITY, cc: gen_cc(&mut rng, j as u64), prefix: gen_prefix(&mut rng, j as u64), path: gen_path(&mut rng, len, 3) };
        one(drv, rep, "identity", &c);
    }
    // ---- a hardened component at each position class (first / middle / last / all), incl. beyond depth 255
    for (j, &len) in [1usize, 2, 3, 10, 255, 256, 300].iter().enumerate() {
        for pos in 0..4 {
            let mut path = gen_path(&mut rng, len, 3 + j as u64);
            match pos { 0 => path[0] |= H, 1 => path[len / 2] |= H, 2 => path[len - 1] |= H, _ => for b in path.iter_mut() { *b |= H } }
            let c = Case { root: gen_root(&mut rng, (j + pos) as u64), cc: gen_cc(&mut rng, 2), prefix: gen_prefix(&mut rng, pos as u64), path };
            one(drv, rep, "hardened", &c);
        }
    }
    // ---- random
    let nrand = (if thorough { 4000 } else { 60 }) * o.scale;
    for k in 0..nrand {
        let len = match rng.gen_range(0..10) { 0..=5 => rng.gen_range(0..8), 6..=7 => rng.gen_range(8..64), 8 => rng.gen_range(64..=255), _ => rng.gen_range(240..=300) };
        let style = rng.gen_range(0..5);
        let mut path = gen_path(&mut rng, len, style);
        if len > 0 && rng.gen_range(0..12) == 0 { let i = rng.gen_range(0..len); path[i] |= H; }
        let root = if rng.gen_range(0..25) == 0 { ProjectivePoint::IDENTITY } else { gen_root(&mut rng, k) };
        let (a, b) = (rng.gen_range(0..8), rng.gen_range(0..8));
        let c = Case { root, cc: gen_cc(&mut rng, a), prefix: gen_prefix(&mut rng, b), path };
        one(drv, rep, "random", &c);
    }
    // ---- related calls in a row on one thread: paths sharing prefixes under one (root, chain code), then the same path under
    //      another chain code / root / prefix, then the first again — derivation is a function of its arguments only
    for r in 0..(if thorough { 20 } else { 3 }) * o.scale {
        let (root, root2) = (gen_root(&mut rng, r), gen_root(&mut rng, r + 1000));
        let (cc, cc2) = (gen_cc(&mut rng, 7), gen_cc(&mut rng, 6));
        let (pf, pf2) = (gen_prefix(&mut rng, r), gen_prefix(&mut rng, r + 1));
        let p = gen_path(&mut rng, 6, 4);
        let mut q = p.clone(); q[5] ^= 1;
        let mut q2 = p.clone(); q2[0] ^= 1;
        let mut seq: Vec<(ProjectivePoint, [u8; 32], Vec<u32>, bool)> = (0..=6).map(|k| (root, cc, p[..k].to_vec(), false)).collect();
        seq.extend([(root, cc, q.clone(), false), (root, cc, q2.clone(), false), (root, cc2, p.clone(), false), (root2, cc, p.clone(), false), (root, cc, p.clone(), true), (root, cc, p.clone(), false), (root, cc, p[..3].to_vec(), false)]);
        for (rt, c, path, other_prefix) in seq {
            let c = Case { root: rt, cc: c, prefix: if other_prefix { pf2.clone() } else { pf.clone() }, path };
            one(drv, rep, "related-calls", &c);
        }
    }
    // ---- single steps: derive_child_pubkey / get_finger_print incl. hardened indices and the identity parent
    let nchild = (if thorough { 3000 } else { 60 }) * o.scale;
    for k in 0..nchild {
        let parent = if k % 10 == 9 { ProjectivePoint::IDENTITY } else { gen_root(&mut rng, k) };
        let bits = match k % 7 { 0 => 0, 1 => 1, 2 => H - 1, 3 => H, 4 => u32::MAX, 5 => rng.gen::<u32>() | H, _ => rng.gen_range(0..H) };
        one_child(drv, rep, &parent, gen_cc(&mut rng, k / 7), bits);
    }
    // ---- native Base58
    let nb = (if thorough { 2000 } else { 60 }) * o.scale;
    for k in 0..nb {
        let len = [0usize, 1, 2, 5, 32, 82, 82, 100][k as usize % 8];
        let mut b = vec![0u8; len]; rng.fill_bytes(&mut b);
        let z = match k % 4 { 0 => 0, 1 => 1.min(len), 2 => len, _ => rng.gen_range(0..=len) };
        for x in b[..z].iter_mut() { *x = 0 }
        if k % 16 == 5 { for x in b.iter_mut() { *x = 0xff } }
        one_b58(drv, rep, &b);
    }
}
